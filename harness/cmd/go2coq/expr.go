package main

import (
	"fmt"
	"go/ast"
	"go/constant"
	"go/token"
	"math/big"
	"strings"
)

type Var struct {
	Coq   string
	T     *Type
	depth int
}

type bind struct {
	parent *bind
	name   string
	v      *Var
}

type Scope struct {
	b     *bind
	depth int
}

func (s Scope) lookup(name string) *Var {
	for b := s.b; b != nil; b = b.parent {
		if b.name == name {
			return b.v
		}
	}
	return nil
}

func (s Scope) with(name string, v *Var) Scope {
	return Scope{&bind{s.b, name, v}, s.depth}
}

func (s Scope) inner() Scope { return Scope{s.b, s.depth + 1} }

// hoist: something that has to be decided before the statement that contains
// the expression runs: a division by zero, or the call of a function that may panic.
type hoist struct {
	guard string // condition under which the statement panics
	tmp   string // or: bind the result of call to tmp
	call  string
}

type FnCtx struct {
	pkg        *Pkg
	file       *ast.File
	fn         *Func
	sc         Scope
	iota       int // >= 0 while evaluating a constant declaration
	hasIota    bool
	mayPanic   bool
	optionMode bool
	hoists     []hoist
	noHoist    ast.Node // set while translating the right operand of && or ||
	tmpN       int
}

func (fc *FnCtx) fail(n posser, format string, a ...any) { fc.pkg.fail(n, format, a...) }

func (fc *FnCtx) addHoist(n ast.Node, h hoist) {
	if fc.noHoist != nil {
		fc.fail(n, "operation that may panic (division by a non-constant or call of a panicking function) inside the right operand of && or ||: outside the subset")
	}
	if fc.fn == nil {
		fc.fail(n, "operation that may panic outside a function body")
	}
	fc.mayPanic = true
	fc.hoists = append(fc.hoists, h)
}

// ---------------------------------------------------------------- constants

func (p *Pkg) evalConst(cd *constDecl) Val {
	if cd.done {
		return cd.val
	}
	if cd.busy {
		p.fail(cd.name, "constant %s refers to itself", cd.name.Name)
	}
	cd.busy = true
	if cd.value == nil {
		p.fail(cd.name, "constant %s has no value", cd.name.Name)
	}
	fc := &FnCtx{pkg: p, file: cd.file, iota: cd.iota, hasIota: true}
	v, ok := fc.tryConst(cd.value)
	if !ok {
		p.fail(cd.value, "constant %s: initialiser outside the constant subset", cd.name.Name)
	}
	if cd.typ != nil {
		t, why := p.resolveType(cd.file, cd.typ, cd.name.Name)
		if t == nil {
			p.fail(cd.typ, "constant %s: %s is outside the subset", cd.name.Name, why)
		}
		v = fc.convConst(v, t, cd.value)
	}
	cd.val, cd.done, cd.busy = v, true, false
	return v
}

// convConst converts a constant to type t (representability is checked).
func (fc *FnCtx) convConst(v Val, t *Type, n posser) Val {
	switch t.Kind {
	case KInt:
		i, ok := constInt(v.Const)
		if !ok {
			fc.fail(n, "constant %s is not an integer, cannot be used as %s", v.Const.String(), t.Name)
		}
		lo, hi := t.minmax()
		if i.Cmp(lo) < 0 || i.Cmp(hi) > 0 {
			fc.fail(n, "constant %s overflows %s", i.String(), t.Name)
		}
		return Val{Code: zlit(i), T: t, Const: constant.Make(i)}
	case KBool:
		if v.Const.Kind() != constant.Bool {
			fc.fail(n, "constant %s used as bool", v.Const.String())
		}
		r := v
		r.T = t
		return r
	case KString:
		return v
	}
	fc.fail(n, "constant %s used as %s: outside the subset", v.Const.String(), t.Name)
	return v
}

// use gives the Coq term of v when it is used at type t.
func (fc *FnCtx) use(v Val, t *Type, n posser) string {
	if v.isConst() && (v.T == nil || v.T.Kind == KInt) && t != nil && t.Kind == KInt {
		return fc.convConst(v, t, n).Code
	}
	if v.isConst() && v.T == nil {
		fc.fail(n, "untyped constant %s used as %s", v.Const.String(), t.Name)
	}
	if t != nil && v.T != nil && t.Kind != v.T.Kind {
		fc.fail(n, "value of type %s used as %s", v.T.Name, t.Name)
	}
	if t != nil && t.Kind == KStruct && v.T.Struct != t.Struct {
		fc.fail(n, "value of type %s used as %s", v.T.Name, t.Name)
	}
	return v.Code
}

// defaultType of an untyped constant
func (fc *FnCtx) defaulted(v Val, n posser) Val {
	if v.T != nil {
		return v
	}
	if v.Float {
		fc.fail(n, "untyped floating-point constant %s without an integer context: floats are outside the subset", v.Const.String())
	}
	return fc.convConst(v, tInt, n)
}

func (fc *FnCtx) tryConst(e ast.Expr) (Val, bool) {
	switch e := e.(type) {
	case *ast.ParenExpr:
		return fc.tryConst(e.X)
	case *ast.BasicLit:
		switch e.Kind {
		case token.INT, token.CHAR:
			return mkConst(constant.MakeFromLiteral(e.Value, e.Kind, 0), nil, false, ""), true
		case token.FLOAT:
			return mkConst(constant.MakeFromLiteral(e.Value, e.Kind, 0), nil, true, ""), true
		case token.STRING:
			return mkConst(constant.MakeFromLiteral(e.Value, e.Kind, 0), tString, false, ""), true
		}
		return Val{}, false
	case *ast.Ident:
		if fc.sc.lookup(e.Name) != nil {
			return Val{}, false
		}
		switch e.Name {
		case "true":
			return mkConst(constant.MakeBool(true), nil, false, ""), true
		case "false":
			return mkConst(constant.MakeBool(false), nil, false, ""), true
		case "iota":
			if fc.hasIota {
				return mkConst(constant.MakeInt64(int64(fc.iota)), nil, false, ""), true
			}
		}
		if cd, ok := fc.pkg.consts[e.Name]; ok {
			return fc.pkg.evalConst(cd), true
		}
		return Val{}, false
	case *ast.SelectorExpr:
		x, ok := e.X.(*ast.Ident)
		if !ok || fc.sc.lookup(x.Name) != nil {
			return Val{}, false
		}
		path, ok := importPath(fc.file, x.Name)
		if !ok {
			return Val{}, false
		}
		if v, ok := knownConst(path, e.Sel.Name); ok {
			return v, true
		}
		if q := fc.pkg.w.repoPkg(path); q != nil {
			if cd, ok := q.consts[e.Sel.Name]; ok {
				return q.evalConst(cd), true
			}
		}
		return Val{}, false
	case *ast.UnaryExpr:
		v, ok := fc.tryConst(e.X)
		if !ok {
			return Val{}, false
		}
		switch e.Op {
		case token.ADD:
			return v, true
		case token.SUB:
			return fc.checked(Val{T: v.T, Const: constant.UnaryOp(token.SUB, v.Const, 0), Float: v.Float}, e), true
		case token.NOT:
			if v.Const.Kind() != constant.Bool {
				return Val{}, false
			}
			return mkConst(constant.UnaryOp(token.NOT, v.Const, 0), v.T, false, ""), true
		case token.XOR:
			prec := uint(0)
			if v.T != nil && v.T.Kind == KInt && !v.T.Signed {
				prec = uint(v.T.Bits)
			}
			c := constant.ToInt(v.Const)
			if c.Kind() != constant.Int {
				return Val{}, false
			}
			return fc.checked(Val{T: v.T, Const: constant.UnaryOp(token.XOR, c, prec)}, e), true
		}
		return Val{}, false
	case *ast.BinaryExpr:
		a, ok := fc.tryConst(e.X)
		if !ok {
			return Val{}, false
		}
		b, ok := fc.tryConst(e.Y)
		if !ok {
			return Val{}, false
		}
		return fc.foldBinary(e, a, b)
	case *ast.CallExpr:
		if len(e.Args) != 1 || e.Ellipsis != token.NoPos {
			return Val{}, false
		}
		t := fc.typeOfExprAsType(e.Fun)
		if t == nil || t.Kind != KInt {
			return Val{}, false
		}
		v, ok := fc.tryConst(e.Args[0])
		if !ok || v.Const.Kind() == constant.Bool || v.Const.Kind() == constant.String {
			return Val{}, false
		}
		return fc.convConst(v, t, e), true
	}
	return Val{}, false
}

// checked re-normalises a folded constant: typed constants must be representable.
func (fc *FnCtx) checked(v Val, n posser) Val {
	if v.T != nil && v.T.Kind == KInt {
		return fc.convConst(v, v.T, n)
	}
	return mkConst(v.Const, v.T, v.Float, "")
}

func (fc *FnCtx) foldBinary(e *ast.BinaryExpr, a, b Val) (Val, bool) {
	switch e.Op {
	case token.LAND, token.LOR:
		if a.Const.Kind() != constant.Bool || b.Const.Kind() != constant.Bool {
			return Val{}, false
		}
		return mkConst(constant.BinaryOp(a.Const, e.Op, b.Const), nil, false, ""), true
	case token.EQL, token.NEQ, token.LSS, token.LEQ, token.GTR, token.GEQ:
		if a.Const.Kind() == constant.String || b.Const.Kind() == constant.String {
			return Val{}, false
		}
		return mkConst(constant.MakeBool(constant.Compare(a.Const, e.Op, b.Const)), nil, false, ""), true
	case token.SHL, token.SHR:
		n, ok := constInt(b.Const)
		if !ok || n.Sign() < 0 || !n.IsUint64() || n.Uint64() > 4096 {
			fc.fail(e, "constant shift count %s", b.Const.String())
		}
		x := constant.ToInt(a.Const)
		if x.Kind() != constant.Int {
			fc.fail(e, "shift of non-integer constant %s", a.Const.String())
		}
		r := constant.Shift(x, e.Op, uint(n.Uint64()))
		if a.T != nil && a.T.Kind == KInt && e.Op == token.SHL {
			// typed constant shift must stay representable (compile error otherwise)
			return fc.convConst(Val{Const: r}, a.T, e), true
		}
		return fc.checked(Val{T: a.T, Const: r}, e), true
	}
	t := a.T
	if t == nil {
		t = b.T
	}
	float := t == nil && (a.Float || b.Float)
	x, y := a.Const, b.Const
	op := e.Op
	switch op {
	case token.ADD, token.SUB, token.MUL:
	case token.QUO:
		if constant.Sign(y) == 0 {
			fc.fail(e, "constant division by zero")
		}
		if !float {
			x, y = constant.ToInt(x), constant.ToInt(y)
			if x.Kind() != constant.Int || y.Kind() != constant.Int {
				fc.fail(e, "integer division of non-integer constants")
			}
			op = token.QUO_ASSIGN
		}
	case token.REM, token.AND, token.OR, token.XOR, token.AND_NOT:
		x, y = constant.ToInt(x), constant.ToInt(y)
		if x.Kind() != constant.Int || y.Kind() != constant.Int {
			fc.fail(e, "operator %s on non-integer constants", op)
		}
		if op == token.REM && constant.Sign(y) == 0 {
			fc.fail(e, "constant division by zero")
		}
	default:
		return Val{}, false
	}
	if x.Kind() == constant.Bool || y.Kind() == constant.Bool || x.Kind() == constant.String || y.Kind() == constant.String {
		return Val{}, false
	}
	return fc.checked(Val{T: t, Const: constant.BinaryOp(x, op, y), Float: float}, e), true
}

// typeOfExprAsType: e denotes a type (for conversions); nil if it does not.
func (fc *FnCtx) typeOfExprAsType(e ast.Expr) *Type {
	switch x := e.(type) {
	case *ast.ParenExpr:
		return fc.typeOfExprAsType(x.X)
	case *ast.Ident:
		if fc.sc.lookup(x.Name) != nil {
			return nil
		}
		if _, ok := fc.pkg.funcs[x.Name]; ok {
			return nil
		}
		if _, ok := fc.pkg.types[x.Name]; !ok {
			if _, ok := builtinTypes[x.Name]; !ok {
				return nil
			}
		}
	case *ast.SelectorExpr:
		id, ok := x.X.(*ast.Ident)
		if !ok || fc.sc.lookup(id.Name) != nil {
			return nil
		}
		if _, ok := importPath(fc.file, id.Name); !ok {
			return nil
		}
	case *ast.ArrayType, *ast.StarExpr, *ast.StructType:
	default:
		return nil
	}
	t, _ := fc.pkg.resolveType(fc.file, e, "anon")
	return t
}

// ---------------------------------------------------------------- expressions

func opName(op token.Token) string { return "'" + op.String() + "'" }

func (fc *FnCtx) trExpr(e ast.Expr, hint *Type) Val {
	if v, ok := fc.tryConst(e); ok {
		return v
	}
	switch e := e.(type) {
	case *ast.ParenExpr:
		return fc.trExpr(e.X, hint)
	case *ast.Ident:
		if e.Name == "nil" && fc.sc.lookup("nil") == nil {
			return Val{Code: "err_nil", T: tError}
		}
		if v := fc.sc.lookup(e.Name); v != nil {
			return Val{Code: v.Coq, T: v.T}
		}
		if code, ok := fc.pkg.errvars[e.Name]; ok {
			return Val{Code: fc.pkg.w.errName(fc.pkg, e.Name, code), T: tError}
		}
		fc.fail(e, "identifier %s: not a local variable, parameter, constant or errors.New variable of the package (package-level state is outside the subset)", e.Name)
	case *ast.BasicLit:
		fc.fail(e, "literal %s is outside the subset", e.Value)
	case *ast.UnaryExpr:
		return fc.trUnary(e, hint)
	case *ast.BinaryExpr:
		return fc.trBinary(e, hint)
	case *ast.SelectorExpr:
		return fc.trSelector(e)
	case *ast.IndexExpr:
		return fc.trIndex(e)
	case *ast.CompositeLit:
		return fc.trComposite(e)
	case *ast.CallExpr:
		return fc.trCall(e, hint, false)
	case *ast.StarExpr:
		fc.fail(e, "pointer dereference '*' is outside the subset")
	case *ast.SliceExpr:
		fc.fail(e, "slice expression is outside the subset")
	case *ast.FuncLit:
		fc.fail(e, "function literal is outside the subset")
	case *ast.TypeAssertExpr:
		fc.fail(e, "type assertion is outside the subset")
	}
	fc.fail(e, "expression %T is outside the subset", e)
	return Val{}
}

func (fc *FnCtx) trUnary(e *ast.UnaryExpr, hint *Type) Val {
	if e.Op == token.AND {
		if cl, ok := e.X.(*ast.CompositeLit); ok {
			return fc.trComposite(cl)
		}
		fc.fail(e, "address-of '&' is outside the subset (except &T{...})")
	}
	v := fc.trExpr(e.X, hint)
	switch e.Op {
	case token.ADD:
		return v
	case token.NOT:
		if v.T.Kind != KBool {
			fc.fail(e, "'!' on %s", v.T.Name)
		}
		return Val{Code: "negb " + paren(v.Code), T: tBool}
	case token.SUB:
		if v.T.Kind != KInt {
			fc.fail(e, "unary '-' on %s is outside the subset", v.T.Name)
		}
		return Val{Code: "wrap_" + v.T.suffix() + " (- " + paren(v.Code) + ")", T: v.T}
	case token.XOR:
		if v.T.Kind != KInt {
			fc.fail(e, "unary '^' on %s", v.T.Name)
		}
		return Val{Code: "not_" + v.T.suffix() + " " + paren(v.Code), T: v.T}
	}
	fc.fail(e, "unary operator %s is outside the subset", opName(e.Op))
	return Val{}
}

func paren(s string) string {
	if s == "" {
		return s
	}
	simple := true
	for _, r := range s {
		if !(r == '_' || r == '\'' || r >= '0' && r <= '9' || r >= 'a' && r <= 'z' || r >= 'A' && r <= 'Z') {
			simple = false
			break
		}
	}
	if simple || s[0] == '(' && matchingParen(s) == len(s)-1 {
		return s
	}
	return "(" + s + ")"
}

func matchingParen(s string) int {
	d := 0
	for i, r := range s {
		switch r {
		case '(':
			d++
		case ')':
			d--
			if d == 0 {
				return i
			}
		}
	}
	return -1
}

// untypedShift: e is c << n or c >> n with an untyped constant c and a non-constant n.
func (fc *FnCtx) untypedShift(e ast.Expr) bool {
	for {
		p, ok := e.(*ast.ParenExpr)
		if !ok {
			break
		}
		e = p.X
	}
	b, ok := e.(*ast.BinaryExpr)
	if !ok || (b.Op != token.SHL && b.Op != token.SHR) {
		return false
	}
	if _, ok := fc.tryConst(b.Y); ok {
		return false
	}
	c, ok := fc.tryConst(b.X)
	return ok && c.T == nil
}

func (fc *FnCtx) trBinary(e *ast.BinaryExpr, hint *Type) Val {
	switch e.Op {
	case token.LAND, token.LOR:
		a := fc.trExpr(e.X, nil)
		saved := fc.noHoist
		fc.noHoist = e
		b := fc.trExpr(e.Y, nil)
		fc.noHoist = saved
		if a.T == nil || b.T == nil || a.T.Kind != KBool || b.T.Kind != KBool {
			fc.fail(e, "%s on non-boolean operands", opName(e.Op))
		}
		op := " && "
		if e.Op == token.LOR {
			op = " || "
		}
		return Val{Code: "(" + paren(a.Code) + op + paren(b.Code) + ")", T: tBool}
	case token.SHL, token.SHR:
		return fc.trShift(e, hint)
	}
	cmp := false
	switch e.Op {
	case token.EQL, token.NEQ, token.LSS, token.LEQ, token.GTR, token.GEQ:
		cmp = true
	}
	h := hint
	if cmp {
		h = nil
	}
	var a, b Val
	if fc.untypedShift(e.X) && !fc.untypedShift(e.Y) {
		b = fc.trExpr(e.Y, h)
		if b.T != nil {
			a = fc.trExpr(e.X, b.T)
		} else {
			a = fc.trExpr(e.X, h)
		}
	} else {
		a = fc.trExpr(e.X, h)
		if a.T != nil {
			b = fc.trExpr(e.Y, a.T)
		} else {
			b = fc.trExpr(e.Y, h)
		}
	}
	// operand type
	t := a.T
	if t == nil || (a.isConst() && a.T != nil && a.T.Kind == KError) {
		t = b.T
	}
	if t == nil {
		fc.fail(e, "operands of %s without a type", opName(e.Op))
	}
	if a.T != nil && b.T != nil && a.T.Kind != b.T.Kind {
		fc.fail(e, "operands of %s have types %s and %s", opName(e.Op), a.T.Name, b.T.Name)
	}
	if a.T != nil && b.T != nil && a.T.Kind == KInt && (a.T.Bits != b.T.Bits || a.T.Signed != b.T.Signed) {
		fc.fail(e, "operands of %s have types %s and %s", opName(e.Op), a.T.Name, b.T.Name)
	}
	x, y := paren(fc.use(a, t, e.X)), paren(fc.use(b, t, e.Y))
	if cmp {
		switch t.Kind {
		case KInt:
		case KBool, KError:
			if e.Op != token.EQL && e.Op != token.NEQ {
				fc.fail(e, "%s on %s", opName(e.Op), t.Name)
			}
		case KTime:
			fc.fail(e, "%s on time.Time compares the representation (wall, ext, loc), not the instant: outside the subset (use Equal/Before/After)", opName(e.Op))
		default:
			fc.fail(e, "%s on %s is outside the subset", opName(e.Op), t.Name)
		}
		eq := "(" + x + " =? " + y + ")"
		if t.Kind == KBool {
			eq = "(Bool.eqb " + x + " " + y + ")"
		}
		switch e.Op {
		case token.EQL:
			return Val{Code: eq, T: tBool}
		case token.NEQ:
			return Val{Code: "negb " + eq, T: tBool}
		case token.LSS:
			return Val{Code: "(" + x + " <? " + y + ")", T: tBool}
		case token.LEQ:
			return Val{Code: "(" + x + " <=? " + y + ")", T: tBool}
		case token.GTR:
			return Val{Code: "(" + y + " <? " + x + ")", T: tBool}
		case token.GEQ:
			return Val{Code: "(" + y + " <=? " + x + ")", T: tBool}
		}
	}
	if t.Kind != KInt {
		fc.fail(e, "operator %s on %s is outside the subset", opName(e.Op), t.Name)
	}
	w := "wrap_" + t.suffix()
	switch e.Op {
	case token.ADD:
		return Val{Code: w + " (" + x + " + " + y + ")", T: t}
	case token.SUB:
		return Val{Code: w + " (" + x + " - " + y + ")", T: t}
	case token.MUL:
		return Val{Code: w + " (" + x + " * " + y + ")", T: t}
	case token.QUO, token.REM:
		if b.isConst() {
			if constant.Sign(constant.ToInt(b.Const)) == 0 {
				fc.fail(e, "division by the constant zero")
			}
		} else {
			fc.addHoist(e, hoist{guard: "(" + y + " =? 0)"})
		}
		if e.Op == token.QUO {
			return Val{Code: "quot_" + t.suffix() + " " + x + " " + y, T: t}
		}
		return Val{Code: "go_rem " + x + " " + y, T: t}
	case token.AND:
		return Val{Code: "Z.land " + x + " " + y, T: t}
	case token.OR:
		return Val{Code: "Z.lor " + x + " " + y, T: t}
	case token.XOR:
		return Val{Code: "Z.lxor " + x + " " + y, T: t}
	case token.AND_NOT:
		return Val{Code: "Z.ldiff " + x + " " + y, T: t}
	}
	fc.fail(e, "operator %s is outside the subset", opName(e.Op))
	return Val{}
}

func (fc *FnCtx) trShift(e *ast.BinaryExpr, hint *Type) Val {
	var a Val
	if fc.untypedShift(e) {
		c, _ := fc.tryConst(e.X)
		if hint == nil || hint.Kind != KInt {
			if hint != nil {
				fc.fail(e, "untyped constant shifted by a non-constant count in a %s context", hint.Name)
			}
			hint = tInt // the constant becomes an int
		}
		a = fc.convConst(c, hint, e.X)
	} else {
		a = fc.trExpr(e.X, hint)
	}
	if a.T == nil || a.T.Kind != KInt {
		fc.fail(e, "shift of a non-integer")
	}
	n := fc.trExpr(e.Y, nil)
	var ncode string
	if n.isConst() {
		i, ok := constInt(n.Const)
		if !ok || i.Sign() < 0 {
			fc.fail(e, "shift count %s", n.Const.String())
		}
		ncode = zlit(i)
	} else {
		if n.T.Kind != KInt {
			fc.fail(e, "shift count of type %s", n.T.Name)
		}
		if n.T.Signed {
			fc.fail(e.Y, "shift by a non-constant count of signed type %s (panics when negative): outside the subset", n.T.Name)
		}
		ncode = paren(n.Code)
	}
	if e.Op == token.SHL {
		return Val{Code: "shl_" + a.T.suffix() + " " + paren(a.Code) + " " + ncode, T: a.T}
	}
	return Val{Code: "go_shr " + paren(a.Code) + " " + ncode, T: a.T}
}

func (fc *FnCtx) trSelector(e *ast.SelectorExpr) Val {
	if x, ok := e.X.(*ast.Ident); ok && fc.sc.lookup(x.Name) == nil {
		if path, ok := importPath(fc.file, x.Name); ok {
			fc.fail(e, "%s.%s (package %s): not a known constant; package-level variables and functions values are outside the subset", x.Name, e.Sel.Name, path)
		}
	}
	v := fc.trExpr(e.X, nil)
	if v.T == nil || v.T.Kind != KStruct {
		fc.fail(e, "selector .%s on a value that is not a struct of the subset", e.Sel.Name)
	}
	s := v.T.Struct
	if _, ok := s.Arrays[e.Sel.Name]; ok {
		fc.fail(e, "array field %s.%s used as a whole (only constant-index element access is in the subset)", s.GoName, e.Sel.Name)
	}
	f := s.field(e.Sel.Name)
	if f == nil {
		fc.fail(e, "field %s of %s has a type outside the subset (or is a method value)", e.Sel.Name, s.GoName)
	}
	return Val{Code: f.Proj + " " + paren(v.Code), T: f.T}
}

// arrayElem resolves x.F[i] for an array field F and a constant i.
func (fc *FnCtx) arrayElem(e *ast.IndexExpr) (base Val, f *Field) {
	sel, ok := e.X.(*ast.SelectorExpr)
	if !ok {
		fc.fail(e, "index expression: only <struct>.<array field>[<constant>] is in the subset")
	}
	base = fc.trExpr(sel.X, nil)
	if base.T == nil || base.T.Kind != KStruct {
		fc.fail(e, "index expression: only <struct>.<array field>[<constant>] is in the subset")
	}
	af, ok := base.T.Struct.Arrays[sel.Sel.Name]
	if !ok {
		fc.fail(e, "index expression on %s.%s which is not an array field of the subset (slices and maps are outside the subset)", base.T.Struct.GoName, sel.Sel.Name)
	}
	iv, ok := fc.tryConst(e.Index)
	if !ok {
		fc.fail(e.Index, "non-constant array index is outside the subset")
	}
	i, ok := constInt(iv.Const)
	if !ok || !i.IsInt64() || i.Int64() < 0 || i.Int64() >= int64(af.Len) {
		fc.fail(e.Index, "array index out of range")
	}
	return base, base.T.Struct.field(fmt.Sprintf("%s_%d", sel.Sel.Name, i.Int64()))
}

func (fc *FnCtx) trIndex(e *ast.IndexExpr) Val {
	base, f := fc.arrayElem(e)
	return Val{Code: f.Proj + " " + paren(base.Code), T: f.T}
}

func (fc *FnCtx) trComposite(e *ast.CompositeLit) Val {
	if e.Type == nil {
		fc.fail(e, "composite literal without a type")
	}
	t, why := fc.pkg.resolveType(fc.file, e.Type, "anon")
	if t == nil || t.Kind != KStruct {
		if t != nil {
			why = "composite literal of type " + t.Name
		}
		fc.fail(e, "%s is outside the subset", why)
	}
	s := t.Struct
	vals := map[string]string{}
	setField := func(name string, ve ast.Expr) {
		if af, ok := s.Arrays[name]; ok {
			cl, ok := ve.(*ast.CompositeLit)
			if !ok {
				fc.fail(ve, "array field %s must be given by an array literal", name)
			}
			if len(cl.Elts) > af.Len {
				fc.fail(cl, "too many elements")
			}
			for i, el := range cl.Elts {
				if _, ok := el.(*ast.KeyValueExpr); ok {
					fc.fail(el, "keyed array literal is outside the subset")
				}
				v := fc.trExpr(el, af.Elem)
				vals[fmt.Sprintf("%s_%d", name, i)] = paren(fc.use(v, af.Elem, el))
			}
			return
		}
		f := s.field(name)
		if f == nil {
			fc.fail(ve, "field %s of %s has a type outside the subset", name, s.GoName)
		}
		v := fc.trExpr(ve, f.T)
		vals[name] = paren(fc.use(v, f.T, ve))
	}
	if len(e.Elts) > 0 {
		if _, keyed := e.Elts[0].(*ast.KeyValueExpr); keyed {
			for _, el := range e.Elts {
				kv, ok := el.(*ast.KeyValueExpr)
				if !ok {
					fc.fail(el, "mixed composite literal")
				}
				setField(kv.Key.(*ast.Ident).Name, kv.Value)
			}
		} else {
			if len(s.Omitted) > 0 || len(s.Arrays) > 0 {
				fc.fail(e, "positional literal of %s which has fields outside the scalar subset", s.GoName)
			}
			if len(e.Elts) != len(s.Fields) {
				fc.fail(e, "positional literal with %d values for %d fields", len(e.Elts), len(s.Fields))
			}
			for i, el := range e.Elts {
				setField(s.Fields[i].Name, el)
			}
		}
	}
	var parts []string
	for _, f := range s.Fields {
		if c, ok := vals[f.Name]; ok {
			parts = append(parts, c)
		} else {
			parts = append(parts, paren(f.T.zero()))
		}
	}
	return Val{Code: "Build_" + s.Coq + " " + strings.Join(parts, " "), T: t}
}

// convert translates T(x).
func (fc *FnCtx) convert(e *ast.CallExpr, t *Type) Val {
	if len(e.Args) != 1 {
		fc.fail(e, "conversion with %d arguments", len(e.Args))
	}
	v := fc.trExpr(e.Args[0], t)
	if v.isConst() && v.T == nil {
		return fc.convConst(v, t, e)
	}
	if t.Kind == KInt && v.T != nil && v.T.Kind == KInt {
		if v.isConst() {
			// typed constant converted to another type: the value must be representable
			return fc.convConst(v, t, e)
		}
		if subrange(v.T, t) {
			return Val{Code: v.Code, T: t}
		}
		return Val{Code: "wrap_" + t.suffix() + " " + paren(v.Code), T: t}
	}
	if v.T != nil && t.Kind == v.T.Kind && (t.Kind == KBool || t.Kind == KTime || (t.Kind == KStruct && t.Struct == v.T.Struct)) {
		return Val{Code: v.Code, T: t}
	}
	src := "untyped"
	if v.T != nil {
		src = v.T.Name
	}
	fc.fail(e, "conversion from %s to %s is outside the subset", src, t.Name)
	return Val{}
}

var _ = big.NewInt
