package main

import (
	"fmt"
	"go/ast"
	"strings"
)

type Param struct {
	name string
	coq  string
	T    *Type
	ptr  bool
}

type Func struct {
	key      string // <pkgdir>:<Name> or <pkgdir>:<Recv>.<Name>
	goName   string
	pkg      *Pkg
	decl     *ast.FuncDecl
	file     *ast.File
	rel      string
	coq      string
	params   []*Param
	results  []*Type
	resNames []string
	mutated  []int
	mayPanic bool
	state    int
	def      string
	retT     *Type
}

func (w *World) errName(p *Pkg, name string, code int) string {
	coq := "err_" + p.name + "_" + name
	if _, ok := w.errUsed[coq]; !ok {
		// distinct numbers across packages: package order of first use * 1000 + position in the package
		w.errUsed[coq] = (len(w.errPkgs(p))+1)*1000 + code
		w.errList = append(w.errList, coq)
	}
	return coq
}

var errPkgOrder []string

func (w *World) errPkgs(p *Pkg) []string {
	for i, d := range errPkgOrder {
		if d == p.dir {
			return errPkgOrder[:i]
		}
	}
	errPkgOrder = append(errPkgOrder, p.dir)
	return errPkgOrder[:len(errPkgOrder)-1]
}

func (f *Func) retTypes() []*Type {
	ts := append([]*Type{}, f.results...)
	for _, i := range f.mutated {
		ts = append(ts, f.params[i].T)
	}
	return ts
}

// ---------------------------------------------------------------- calls

var refusedBuiltins = map[string]string{
	"len": "len (slices, strings, maps and arrays as values are outside the subset)", "cap": "cap", "append": "append",
	"make": "make", "new": "new", "copy": "copy", "delete": "delete", "clear": "clear", "recover": "recover",
	"print": "print", "println": "println", "complex": "complex", "real": "real", "imag": "imag", "close": "close",
}

func (fc *FnCtx) trCall(e *ast.CallExpr, hint *Type, stmtPos bool) Val {
	if e.Ellipsis.IsValid() {
		fc.fail(e, "variadic call is outside the subset")
	}
	switch fun := e.Fun.(type) {
	case *ast.Ident:
		if fc.sc.lookup(fun.Name) != nil {
			fc.fail(e, "call of the function value %s is outside the subset", fun.Name)
		}
		if _, ok := fc.pkg.funcs[fun.Name]; ok {
			f := fc.pkg.w.funcs[fc.pkg.dir+":"+fun.Name]
			if f == nil {
				fc.fail(e, "call of %s.%s, which is not listed in the spec (add it to the spec line of %s, or the caller cannot be translated)", fc.pkg.name, fun.Name, fc.pkg.dir)
			}
			return fc.callFunc(e, f, nil, stmtPos)
		}
		switch fun.Name {
		case "panic":
			fc.fail(e, "panic(...) in expression position")
		case "min", "max":
			return fc.trMinMax(e, fun.Name, hint)
		}
		if what, ok := refusedBuiltins[fun.Name]; ok {
			fc.fail(e, "builtin %s is outside the subset", what)
		}
		if t := fc.typeOfExprAsType(fun); t != nil {
			return fc.convert(e, t)
		}
		fc.fail(e, "call of %s: unknown function or type outside the subset", fun.Name)
	case *ast.SelectorExpr:
		if x, ok := fun.X.(*ast.Ident); ok && fc.sc.lookup(x.Name) == nil {
			if path, ok := importPath(fc.file, x.Name); ok {
				return fc.trPkgCall(e, path, x.Name, fun.Sel.Name, stmtPos)
			}
		}
		return fc.trMethodCall(e, fun, stmtPos)
	default:
		if t := fc.typeOfExprAsType(e.Fun); t != nil {
			return fc.convert(e, t)
		}
	}
	fc.fail(e, "call of an expression of form %T is outside the subset", e.Fun)
	return Val{}
}

func (fc *FnCtx) trMinMax(e *ast.CallExpr, name string, hint *Type) Val {
	if len(e.Args) == 0 {
		fc.fail(e, "%s without arguments", name)
	}
	var vs []Val
	var t *Type
	for _, a := range e.Args {
		v := fc.trExpr(a, hint)
		if v.T != nil && t == nil {
			t = v.T
		}
		vs = append(vs, v)
	}
	if t == nil || t.Kind != KInt {
		fc.fail(e, "%s on operands that are not integers of one type", name)
	}
	code := paren(fc.use(vs[0], t, e.Args[0]))
	for i := 1; i < len(vs); i++ {
		code = "(Z." + name + " " + code + " " + paren(fc.use(vs[i], t, e.Args[i])) + ")"
	}
	return Val{Code: code, T: t}
}

func (fc *FnCtx) trPkgCall(e *ast.CallExpr, path, alias, name string, stmtPos bool) Val {
	if path == "time" {
		switch name {
		case "Unix":
			if len(e.Args) != 2 {
				fc.fail(e, "time.Unix with %d arguments", len(e.Args))
			}
			i64 := builtinTypes["int64"]
			s := fc.trExpr(e.Args[0], i64)
			n := fc.trExpr(e.Args[1], i64)
			return Val{Code: "time_mk " + paren(fc.use(s, i64, e.Args[0])) + " " + paren(fc.use(n, i64, e.Args[1])), T: tTime}
		case "Duration":
			return fc.convert(e, tDur)
		}
		fc.fail(e, "time.%s is not in the whitelist of package time (Unix, Duration; methods Unix Nanosecond UnixNano Sub Add Before After Equal Compare IsZero UTC Local)", name)
	}
	if q := fc.pkg.w.repoPkg(path); q != nil {
		if _, ok := q.funcs[name]; ok {
			f := fc.pkg.w.funcs[q.dir+":"+name]
			if f == nil {
				fc.fail(e, "call of %s.%s, which is not listed in the spec (add a spec line for %s)", alias, name, q.dir)
			}
			return fc.callFunc(e, f, nil, stmtPos)
		}
		if _, ok := q.types[name]; ok {
			if t := fc.typeOfExprAsType(e.Fun); t != nil {
				return fc.convert(e, t)
			}
		}
	}
	fc.fail(e, "call of %s.%s (package %s) is outside the whitelist", alias, name, path)
	return Val{}
}

func (fc *FnCtx) trMethodCall(e *ast.CallExpr, fun *ast.SelectorExpr, stmtPos bool) Val {
	recv := fc.trExpr(fun.X, nil)
	if recv.T == nil {
		fc.fail(e, "method call on an untyped constant")
	}
	name := fun.Sel.Name
	if recv.T.Kind == KTime {
		return fc.trTimeMethod(e, recv, name)
	}
	if recv.T.Name == "time.Duration" {
		fc.fail(e, "time.Duration.%s is outside the subset (floating point or strings)", name)
	}
	if recv.T.Named == "" || strings.HasPrefix(recv.T.Named, "ext:") {
		fc.fail(e, "method %s on a value of type %s is outside the subset", name, recv.T.Name)
	}
	dot := strings.LastIndex(recv.T.Named, ".")
	dir, tname := recv.T.Named[:dot], recv.T.Named[dot+1:]
	f := fc.pkg.w.funcs[dir+":"+tname+"."+name]
	if f == nil {
		fc.fail(e, "call of method %s.%s, which is not listed in the spec (or is a field of function type)", recv.T.Name, name)
	}
	return fc.callFunc(e, f, &recv, stmtPos)
}

func (fc *FnCtx) trTimeMethod(e *ast.CallExpr, recv Val, name string) Val {
	t := paren(recv.Code)
	argn := func(n int) {
		if len(e.Args) != n {
			fc.fail(e, "time.Time.%s with %d arguments", name, len(e.Args))
		}
	}
	timeArg := func() string {
		argn(1)
		u := fc.trExpr(e.Args[0], tTime)
		if u.T == nil || u.T.Kind != KTime {
			fc.fail(e.Args[0], "argument of time.Time.%s is not a time.Time", name)
		}
		return paren(u.Code)
	}
	switch name {
	case "Unix":
		argn(0)
		return Val{Code: "time_Unix " + t, T: builtinTypes["int64"]}
	case "Nanosecond":
		argn(0)
		return Val{Code: "time_Nanosecond " + t, T: tInt}
	case "UnixNano":
		argn(0)
		return Val{Code: "time_UnixNano " + t, T: builtinTypes["int64"]}
	case "UTC", "Local":
		argn(0)
		return Val{Code: recv.Code, T: tTime}
	case "IsZero":
		argn(0)
		return Val{Code: "time_IsZero " + t, T: tBool}
	case "Sub":
		return Val{Code: "time_Sub " + t + " " + timeArg(), T: tDur}
	case "Before":
		return Val{Code: "time_Before " + t + " " + timeArg(), T: tBool}
	case "After":
		return Val{Code: "time_After " + t + " " + timeArg(), T: tBool}
	case "Equal":
		return Val{Code: "time_Equal " + t + " " + timeArg(), T: tBool}
	case "Compare":
		return Val{Code: "time_Compare " + t + " " + timeArg(), T: tInt}
	case "Add":
		argn(1)
		d := fc.trExpr(e.Args[0], tDur)
		return Val{Code: "time_Add " + t + " " + paren(fc.use(d, tDur, e.Args[0])), T: tTime}
	}
	fc.fail(e, "time.Time.%s is not in the whitelist of package time", name)
	return Val{}
}

// callFunc: a call of a function of the spec.  In statement position the
// result is the tuple (results..., mutated pointer arguments...) and the
// caller rebinds the mutated ones (callStmt).
func (fc *FnCtx) callFunc(e *ast.CallExpr, f *Func, recv *Val, stmtPos bool) Val {
	fc.pkg.w.translate(f, e, fc.pkg)
	var args []string
	ps := f.params
	if f.decl.Recv != nil {
		if recv == nil {
			fc.fail(e, "method expression is outside the subset")
		}
		args = append(args, paren(fc.use(*recv, ps[0].T, e)))
		ps = ps[1:]
	}
	if len(e.Args) != len(ps) {
		fc.fail(e, "call of %s with %d arguments for %d parameters (multi-value argument lists are outside the subset)", f.goName, len(e.Args), len(ps))
	}
	for i, a := range e.Args {
		v := fc.trExpr(a, ps[i].T)
		args = append(args, paren(fc.use(v, ps[i].T, a)))
	}
	if len(f.mutated) > 0 && !stmtPos {
		fc.fail(e, "call of %s, which modifies an argument through a pointer, inside an expression: outside the subset (use it as a statement)", f.goName)
	}
	code := f.coq + " " + strings.Join(args, " ")
	if len(args) == 0 {
		code = f.coq
	}
	if f.mayPanic {
		fc.tmpN++
		tmp := fmt.Sprintf("tmp_%d", fc.tmpN)
		fc.addHoist(e, hoist{tmp: tmp, call: code})
		code = tmp
	}
	return Val{Code: code, T: f.retT}
}

// ---------------------------------------------------------------- functions

func (w *World) translate(f *Func, at posser, from *Pkg) {
	switch f.state {
	case 2:
		return
	case 1:
		from.fail(at, "recursive call of %s is outside the subset", f.goName)
	}
	f.state = 1
	p := f.pkg
	d := f.decl
	if d.Body == nil {
		p.fail(d, "function %s has no body", f.goName)
	}
	if d.Type.TypeParams != nil {
		p.fail(d, "generic function %s is outside the subset", f.goName)
	}
	addParam := func(nm *ast.Ident, te ast.Expr, idx int) {
		if _, ok := te.(*ast.Ellipsis); ok {
			p.fail(te, "variadic parameter is outside the subset")
		}
		t, why := p.resolveType(f.file, te, "param")
		if t == nil {
			p.fail(te, "parameter type: %s is outside the subset", why)
		}
		if t.Kind == KArray || t.Kind == KString {
			p.fail(te, "parameter of type %s is outside the subset", t.Name)
		}
		_, isPtr := te.(*ast.StarExpr)
		pr := &Param{T: t, ptr: isPtr}
		if nm == nil || nm.Name == "_" {
			pr.name, pr.coq = "_", fmt.Sprintf("arg_%d", idx)
		} else {
			pr.name, pr.coq = nm.Name, coqIdent(p, nm)
		}
		f.params = append(f.params, pr)
	}
	if d.Recv != nil {
		r := d.Recv.List[0]
		var nm *ast.Ident
		if len(r.Names) > 0 {
			nm = r.Names[0]
		}
		addParam(nm, r.Type, 0)
	}
	for _, fl := range d.Type.Params.List {
		if len(fl.Names) == 0 {
			addParam(nil, fl.Type, len(f.params))
		}
		for _, nm := range fl.Names {
			addParam(nm, fl.Type, len(f.params))
		}
	}
	if d.Type.Results != nil {
		for _, fl := range d.Type.Results.List {
			t, why := p.resolveType(f.file, fl.Type, "result")
			if t == nil {
				p.fail(fl.Type, "result type: %s is outside the subset", why)
			}
			if t.Kind == KArray || t.Kind == KString {
				p.fail(fl.Type, "result of type %s is outside the subset", t.Name)
			}
			if _, isPtr := fl.Type.(*ast.StarExpr); isPtr {
				p.fail(fl.Type, "pointer result is outside the subset")
			}
			n := len(fl.Names)
			if n == 0 {
				n = 1
			}
			for i := 0; i < n; i++ {
				f.results = append(f.results, t)
				if len(fl.Names) > 0 {
					f.resNames = append(f.resNames, fl.Names[i].Name)
				}
			}
		}
	}
	fc := &FnCtx{pkg: p, file: f.file, fn: f}
	fc.findMutated()
	ts := f.retTypes()
	switch len(ts) {
	case 0:
		p.fail(d, "function %s has no result and modifies nothing through a pointer parameter: nothing to translate", f.goName)
	case 1:
		f.retT = ts[0]
	default:
		f.retT = &Type{Kind: KTuple, Name: "tuple", Elems: ts}
	}
	body := fc.trBody(false)
	if fc.mayPanic {
		f.mayPanic = true
		fc2 := &FnCtx{pkg: p, file: f.file, fn: f}
		body = fc2.trBody(true)
	}
	var sb strings.Builder
	fmt.Fprintf(&sb, "(* %s  %s  (git blob %s)\n", f.rel, f.goName, p.blob[f.rel])
	fmt.Fprintf(&sb, "%s *)\n", commentSafe(p.source(d)))
	fmt.Fprintf(&sb, "Definition %s", f.coq)
	for _, pr := range f.params {
		fmt.Fprintf(&sb, " (%s : %s)", pr.coq, pr.T.coq())
	}
	rt := f.retT.coq()
	if f.mayPanic {
		rt = "option " + paren(strings.TrimSuffix(rt, "%type"))
	}
	fmt.Fprintf(&sb, " : %s :=\n  %s.\n", rt, body)
	f.def = sb.String()
	f.state = 2
	w.order = append(w.order, f)
}

func commentSafe(s string) string {
	s = strings.ReplaceAll(s, "(*", "( *")
	s = strings.ReplaceAll(s, "*)", "* )")
	s = strings.ReplaceAll(s, "\"", "'")
	return s
}

// findMutated: pointer parameters whose fields are assigned (directly, or by
// the call of a method of the spec that does so).
func (fc *FnCtx) findMutated() {
	f := fc.fn
	idx := map[string]int{}
	for i, pr := range f.params {
		if pr.ptr {
			idx[pr.name] = i
		}
	}
	seen := map[int]bool{}
	mark := func(e ast.Expr) {
		depth := 0
		for {
			switch x := e.(type) {
			case *ast.SelectorExpr:
				e, depth = x.X, depth+1
				continue
			case *ast.IndexExpr:
				e = x.X
				continue
			case *ast.ParenExpr:
				e = x.X
				continue
			case *ast.StarExpr:
				e, depth = x.X, depth+1
				continue
			case *ast.Ident:
				if i, ok := idx[x.Name]; ok && depth > 0 && !seen[i] {
					seen[i] = true
				}
			}
			return
		}
	}
	ast.Inspect(f.decl.Body, func(n ast.Node) bool {
		switch s := n.(type) {
		case *ast.AssignStmt:
			for _, l := range s.Lhs {
				mark(l)
			}
		case *ast.IncDecStmt:
			mark(s.X)
		case *ast.ExprStmt:
			if c, ok := s.X.(*ast.CallExpr); ok {
				if sel, ok := c.Fun.(*ast.SelectorExpr); ok {
					if x, ok := sel.X.(*ast.Ident); ok {
						if i, ok := idx[x.Name]; ok {
							t := f.params[i].T
							if t.Named != "" {
								dot := strings.LastIndex(t.Named, ".")
								if g := fc.pkg.w.funcs[t.Named[:dot]+":"+t.Named[dot+1:]+"."+sel.Sel.Name]; g != nil && g != f {
									fc.pkg.w.translate(g, c, fc.pkg)
									if len(g.mutated) > 0 {
										seen[i] = true
									}
								}
							}
						}
					}
				}
			}
		}
		return true
	})
	for i := range f.params {
		if seen[i] {
			f.mutated = append(f.mutated, i)
		}
	}
}

func (p *Pkg) source(d *ast.FuncDecl) string {
	start := p.fset.Position(d.Pos())
	end := p.fset.Position(d.End())
	b, err := readFileCached(p.w.repo + "/" + start.Filename)
	if err != nil || end.Offset > len(b) {
		return ""
	}
	return string(b[start.Offset:end.Offset])
}
