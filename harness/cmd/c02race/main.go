// C02, thorough tier, built with -race: timemath.{Median,FaultTolerantMidpoint} and
// measurements.{Median,FaultTolerantMidpoint} called from many goroutines at once on independent inputs
// (sync.Run calls FaultTolerantMidpoint from two goroutines per round).  A package-level scratch buffer or
// any other shared state in the functions is reported by the race detector (the process exits non-zero) and
// shows up as results that differ from the model.
package main

import (
	c "verifharness/c02lib"
	"verifharness/lib"
)

func main() {
	a := lib.ParseArgs()
	w := lib.NewWriter(a.Out)
	defer w.Close()
	r := lib.NewRng(a.Seed ^ 0xc02)
	for round := 0; round < 4; round++ {
		for _, l := range c.Concurrent(r, 16, 250) {
			w.Case(l.Kind, l.Tags, l.Args, l.Outs)
		}
	}
}
