package main

// The front of the NTS-KE server: the fetchers connect here.  Normally the
// TCP stream is passed on unchanged to the real server
// (server.StartNTSKEServerIP); for a scripted connection the peer misbehaves:
//
//	1  closes the connection at once
//	2  passes the stream on but cuts the server's side after some bytes
//	   (inside the TLS handshake or inside the records)
//	3  completes TLS itself and answers NextProto, Algorithm, Cookie, Cookie, Error
//	4  ... answers NextProto, Algorithm, Cookie, Cookie and closes without End
//	5  ... answers with an unknown algorithm, or with no cookie at all
//	6  ... answers a complete exchange with eight genuine cookies that names a
//	   server which is not an IP address
//	7  ... a complete exchange with 1..7 genuine cookies
//	9  passes the stream on but holds the server's side back after some bytes until released;
//	   connections after it are served normally
//	8  ... a complete exchange with eight cookies of another length (100..1000 bytes; nothing
//	   the server could open)

import (
	"bufio"
	"context"
	"crypto/tls"
	"io"
	"net"
	"strconv"
	"sync/atomic"
	"time"

	"example.com/scion-time/net/ntske"
)

type keFront struct {
	e       *env
	conns   atomic.Int64  // connections accepted so far
	release chan struct{} // mode 9: closed to let the held connection go on
	port    int           // the NTP port its complete exchanges name
	ip      net.IP        // the address it listens on; the real NTS-KE server of that address is behind it
	mode    atomic.Int64
	arg     atomic.Int64
}

func newKeFront(e *env, ip net.IP, port int) *keFront {
	f := &keFront{e: e, ip: ip, port: port}
	ln, err := net.Listen("tcp4", net.JoinHostPort(ip.String(), strconv.Itoa(frontPort)))
	if err != nil {
		fatal("front: %v", err)
	}
	go func() {
		for {
			c, err := ln.Accept()
			if err != nil {
				fatal("front accept: %v", err)
			}
			m := f.mode.Load()
			if m == 9 {
				f.mode.Store(0) // only this connection is held back
			}
			f.conns.Add(1)
			go f.serve(c, m, f.arg.Load())
		}
	}()
	return f
}

func (f *keFront) serve(c net.Conn, mode, arg int64) {
	defer c.Close()
	switch mode {
	case 0, 2, 9:
		up, err := net.DialTimeout("tcp4", net.JoinHostPort(f.ip.String(), strconv.Itoa(ntske.ServerPortIP)), waitLong)
		if err != nil {
			return
		}
		defer up.Close()
		go func() {
			io.Copy(up, c)
			up.(*net.TCPConn).CloseWrite()
		}()
		if mode == 0 {
			io.Copy(c, up)
			return
		}
		cuts := []int64{1, 100, 700, 1300, 1500, 1700, 2000, 2300, 2600}
		io.CopyN(c, up, cuts[int(uint64(arg)%uint64(len(cuts)))])
		if mode == 9 {
			select {
			case <-f.release:
			case <-time.After(waitLong):
			}
			io.Copy(c, up)
		}
	case 1:
		return
	default:
		tc := tls.Server(c, f.e.srvTLS)
		tc.SetDeadline(time.Now().Add(waitLong))
		if err := tc.Handshake(); err != nil {
			return
		}
		var data ntske.Data
		if err := ntske.ReadData(context.Background(), f.e.log, bufio.NewReader(tc), &data); err != nil {
			return
		}
		if err := ntske.ExportKeys(tc.ConnectionState(), &data); err != nil {
			return
		}
		sc := ntske.ServerCookie{Algo: ntske.AES_SIV_CMAC_256, S2C: data.S2cKey, C2S: data.C2sKey}
		key := f.e.provider.Current()
		cookie := func() ntske.Cookie {
			ec, err := sc.EncryptWithNonce(key.Value, key.ID)
			if err != nil {
				fatal("EncryptWithNonce: %v", err)
			}
			return ntske.Cookie{Cookie: ec.Encode()}
		}
		var msg ntske.ExchangeMsg
		msg.AddRecord(ntske.NextProto{NextProto: ntske.NTPv4})
		switch mode {
		case 3:
			msg.AddRecord(ntske.Algorithm{Algo: []uint16{ntske.AES_SIV_CMAC_256}})
			msg.AddRecord(cookie())
			msg.AddRecord(cookie())
			msg.AddRecord(ntske.Error{Code: 1})
			if arg%2 == 0 {
				msg.AddRecord(ntske.End{})
			}
		case 4:
			msg.AddRecord(ntske.Algorithm{Algo: []uint16{ntske.AES_SIV_CMAC_256}})
			msg.AddRecord(cookie())
			msg.AddRecord(cookie())
		case 5:
			if arg%2 == 0 {
				msg.AddRecord(ntske.Algorithm{Algo: []uint16{17}})
				msg.AddRecord(cookie())
				msg.AddRecord(cookie())
			} else {
				msg.AddRecord(ntske.Algorithm{Algo: []uint16{ntske.AES_SIV_CMAC_256}})
			}
			msg.AddRecord(ntske.End{})
		case 6:
			msg.AddRecord(ntske.Algorithm{Algo: []uint16{ntske.AES_SIV_CMAC_256}})
			msg.AddRecord(ntske.Server{Addr: []byte("time.c11.invalid")})
			msg.AddRecord(ntske.Port{Port: relayPort})
			for i := 0; i < 8; i++ {
				msg.AddRecord(cookie())
			}
			msg.AddRecord(ntske.End{})
		case 7, 8:
			msg.AddRecord(ntske.Algorithm{Algo: []uint16{ntske.AES_SIV_CMAC_256}})
			msg.AddRecord(ntske.Server{Addr: []byte(f.ip.String())})
			msg.AddRecord(ntske.Port{Port: uint16(f.port)})
			if mode == 7 {
				for i := int64(0); i < 1+arg%7; i++ {
					msg.AddRecord(cookie())
				}
			} else {
				l := []int{100, 128, 200, 896, 900, 1000}[int(uint64(arg)%6)]
				for i := 0; i < 8; i++ {
					c := make([]byte, l)
					crand(c)
					msg.AddRecord(ntske.Cookie{Cookie: c})
				}
			}
			msg.AddRecord(ntske.End{})
		}
		buf, err := msg.Pack()
		if err != nil {
			fatal("pack: %v", err)
		}
		tc.Write(buf.Bytes())
		tc.CloseWrite() // the client's request has been read completely: closing loses nothing
	}
}
