// C11: NTS cookie lifecycle.  Drives the real code of /repo:
//
//   - the real client core/client.IPClient with NTS enabled (ntske.Fetcher,
//     nts.NewRequestPacket / EncodePacket / DecodePacket / ProcessResponse),
//   - the real NTS-KE server server.StartNTSKEServerIP (TLS 1.3, certificate made
//     at run time) and the real NTP listener server.StartIPServer sharing one real
//     ntske.Provider,
//
// on a loopback address of its own, with a relay controlled by the harness
// between client and NTP listener that loses, tampers with or replays chosen
// datagrams, and with the provider made older between exchanges (key rotation
// and expiry; verif hook net/ntske/hooks_verif.go).  Every request and reply
// datagram is recorded, the pool of the fetcher is read after every call (same
// hook).  AES-SIV answers are recomputed with miscreant and written into the
// case so that the model can be compared byte for byte.
//
// Case kinds:
//
//	c11.hist  one history of exchanges (script -> per-step observations)
//	c11.req   nts.NewRequestPacket + nts.EncodePacket on a crafted ntske.Data
//	c11.resp  nts.NewResponsePacket + nts.EncodePacket on crafted cookies
//	c11.const constants of the running system
package main

import (
	"bufio"
	"bytes"
	"context"
	"crypto/ecdsa"
	"crypto/elliptic"
	"crypto/rand"
	"crypto/tls"
	"crypto/x509"
	"crypto/x509/pkix"
	"errors"
	"flag"
	"fmt"
	"io"
	"log/slog"
	"math/big"
	"net"
	"os"
	"os/exec"
	"strconv"
	"strings"
	"sync/atomic"
	"syscall"
	"time"

	"github.com/miscreant/miscreant.go"

	"example.com/scion-time/core/client"
	"example.com/scion-time/core/server"
	"example.com/scion-time/core/timebase"
	"example.com/scion-time/net/ntp"
	"example.com/scion-time/net/nts"
	"example.com/scion-time/net/ntske"
	"example.com/scion-time/net/scion"
	"example.com/scion-time/net/udp"

	"github.com/scionproto/scion/pkg/addr"
	"github.com/scionproto/scion/pkg/snet"
	spath "github.com/scionproto/scion/pkg/snet/path"

	"verifharness/lib"
)

const (
	ntpPort     = 21123
	relayPort   = 22123
	waitLong    = 60 * time.Second // hard limit for anything that waits on the implementation: only a genuine hang exceeds it
	frontPort   = 24123
	sentinelSec = 0x5E4711C0
)

type sysClock struct{}

func (sysClock) Epoch() uint64                                    { return 0 }
func (sysClock) Now() time.Time                                   { return time.Now().UTC() }
func (sysClock) Drift(d time.Duration) time.Duration              { return 0 }
func (sysClock) Step(offset time.Duration)                        {}
func (sysClock) Adjust(offset, duration time.Duration, f float64) {}
func (sysClock) Sleep(d time.Duration)                            { time.Sleep(d) }

type env struct {
	ip       net.IP
	provider *ntske.Provider
	cert     *x509.Certificate
	down     *net.UDPConn // relay socket the clients talk to
	up       *net.UDPConn // relay socket towards the real listener
	srvAddr  *net.UDPAddr
	seq      uint32
	log      *slog.Logger
	front    *keFront
	ip2      net.IP // the address the SCION client's key exchange and relay live on
	front2   *keFront
	downS    *net.UDPConn // relay socket the SCION clients talk to (same port as the real SCION listener, on ip2)
	stray    atomic.Int64 // datagrams that arrived at the default NTP port instead of the relay
	srvTLS   *tls.Config
	aged     time.Duration      // how much older the provider has been made so far
	keys     map[uint16]keyInfo // every server key seen as the current one: value and end of validity
	seen     map[string]bool    // every cookie the servers handed out in this run
}

// keyInfo: a key as handed out by provider.Current(); its validity ends at
// notAfter on the clock "real time + ageing applied so far".
type keyInfo struct {
	value    []byte
	notAfter time.Time
}

// noteCurrent asks the provider for its current key, as an NTS-KE exchange of
// another client would, and remembers it.
func (e *env) noteCurrent() int64 {
	k := e.provider.Current()
	id := uint16(k.ID)
	if _, ok := e.keys[id]; !ok {
		e.keys[id] = keyInfo{value: append([]byte(nil), k.Value...), notAfter: k.Validity.NotAfter.Add(e.aged)}
	}
	return int64(id)
}

// shouldOpen: does the cookie open under a key that was handed out as the current
// one and whose three days of validity are not over (with a minute of margin:
// then the provider itself is asked)?  Independent of what the provider still holds.
func (e *env) shouldOpen(cookie []byte) bool {
	var ec ntske.EncryptedServerCookie
	if err := ec.Decode(cookie); err != nil {
		return false
	}
	ki, ok := e.keys[ec.ID]
	now := time.Now().Add(e.aged)
	if !ok || (now.After(ki.notAfter.Add(-time.Minute)) && now.Before(ki.notAfter.Add(time.Minute))) {
		_, ok := e.cookieFacts(cookie)
		return ok
	}
	if now.After(ki.notAfter) {
		return false
	}
	_, err := ec.Decrypt(ki.value)
	return err == nil
}

func ownAddr(second byte) net.IP {
	pid := os.Getpid()
	return net.IPv4(127, second, byte(pid>>8), byte(pid)).To4()
}

func fatal(f string, a ...any) {
	fmt.Fprintf(os.Stderr, "c11: "+f+"\n", a...)
	os.Exit(2)
}

func newEnv() *env {
	e := &env{ip: ownAddr(11), ip2: ownAddr(211), log: slog.New(slog.DiscardHandler), keys: map[uint16]keyInfo{}, seen: map[string]bool{}}
	if os.Getenv("C11_DEBUG") != "" {
		e.log = slog.New(slog.NewTextHandler(os.Stderr, &slog.HandlerOptions{Level: slog.LevelDebug}))
	}
	timebase.RegisterClock(sysClock{})
	e.provider = ntske.NewProvider()
	ctx := context.Background()

	// certificate for the NTS-KE server, made now
	priv, err := ecdsa.GenerateKey(elliptic.P256(), rand.Reader)
	if err != nil {
		fatal("key: %v", err)
	}
	tmpl := &x509.Certificate{
		SerialNumber:          big.NewInt(11),
		Subject:               pkix.Name{CommonName: "c11 harness"},
		NotBefore:             time.Now().Add(-time.Hour),
		NotAfter:              time.Now().Add(24 * time.Hour),
		KeyUsage:              x509.KeyUsageDigitalSignature | x509.KeyUsageCertSign,
		ExtKeyUsage:           []x509.ExtKeyUsage{x509.ExtKeyUsageServerAuth},
		BasicConstraintsValid: true,
		IsCA:                  true,
		IPAddresses:           []net.IP{e.ip, e.ip2},
	}
	der, err := x509.CreateCertificate(rand.Reader, tmpl, tmpl, &priv.PublicKey, priv)
	if err != nil {
		fatal("cert: %v", err)
	}
	e.cert, _ = x509.ParseCertificate(der)
	srvTLS := &tls.Config{
		Certificates: []tls.Certificate{{Certificate: [][]byte{der}, PrivateKey: priv}},
		NextProtos:   []string{"ntske/1"},
		MinVersion:   tls.VersionTLS13,
	}

	e.srvTLS = srvTLS
	server.StartIPServer(ctx, e.log, &net.UDPAddr{IP: e.ip, Port: ntpPort}, 0, e.provider)
	server.StartSCIONServer(ctx, e.log, "" /* daemon */, &net.UDPAddr{IP: e.ip, Port: scionPort}, 0, e.provider)
	// the key exchange names the relay's port as the NTP port
	server.StartNTSKEServerIP(ctx, e.log, e.ip, relayPort, srvTLS, e.provider)
	// a second NTS-KE server for the SCION clients: it names ip2 and the port of the SCION listener
	server.StartNTSKEServerIP(ctx, e.log, e.ip2, scionPort, srvTLS, e.provider)

	e.down, err = net.ListenUDP("udp4", &net.UDPAddr{IP: e.ip, Port: relayPort})
	if err != nil {
		fatal("relay: %v", err)
	}
	e.up, err = net.ListenUDP("udp4", &net.UDPAddr{IP: e.ip, Port: 0})
	if err != nil {
		fatal("relay: %v", err)
	}
	e.down.SetReadBuffer(1 << 20)
	e.downS, err = net.ListenUDP("udp4", &net.UDPAddr{IP: e.ip2, Port: scionPort})
	if err != nil {
		fatal("relay: %v", err)
	}
	e.downS.SetReadBuffer(1 << 20)
	e.up.SetReadBuffer(1 << 20)
	e.srvAddr = &net.UDPAddr{IP: e.ip, Port: ntpPort}
	// wait until the TLS listeners accept
	for _, ip := range []net.IP{e.ip, e.ip2} {
		for i := 0; ; i++ {
			c, err := net.DialTimeout("tcp", net.JoinHostPort(ip.String(), strconv.Itoa(ntske.ServerPortIP)), time.Second)
			if err == nil {
				c.Close()
				break
			}
			if i > 100 {
				fatal("NTS-KE listener not reachable: %v", err)
			}
			time.Sleep(50 * time.Millisecond)
		}
	}
	e.front = newKeFront(e, e.ip, relayPort)
	e.front2 = newKeFront(e, e.ip2, scionPort)
	// the default NTP port of this address: a client that ignores what the key exchange
	// told it ends up here; it is answered at once with two datagrams it cannot use
	stray, err := net.ListenUDP("udp4", &net.UDPAddr{IP: e.ip, Port: ntp.ServerPortIP})
	if err != nil {
		fatal("default port: %v", err)
	}
	go func() {
		b := make([]byte, 4096)
		for {
			_, a, err := stray.ReadFromUDP(b)
			if err != nil {
				return
			}
			e.stray.Add(1)
			stray.WriteToUDP(junk(), a)
			stray.WriteToUDP(junk(), a)
		}
	}()
	return e
}

// one client with its own fetcher
type cl struct {
	c       *client.IPClient
	ke      atomic.Int64 // completed TLS handshakes
	keFail  atomic.Bool  // scripted: the next handshake is refused by the client
	local   *net.UDPAddr
	remote  *net.UDPAddr
	scion   bool
	sc      *client.SCIONClient
	fetcher *ntske.Fetcher
	front   *keFront
	sock    *net.UDPConn
}

func (e *env) newClient(overSCION bool) *cl {
	x := &cl{scion: overSCION}
	ip := e.ip
	if overSCION {
		// packet authentication (SPAO, DRKey mock keys) and NTS together
		x.sc = &client.SCIONClient{Log: e.log, InterleavedMode: false}
		x.sc.Auth.Enabled = true
		x.sc.Auth.DRKeyFetcher = scion.NewFetcher(nil)
		x.sc.Auth.NTSEnabled = true
		x.fetcher, x.front, x.sock, ip = &x.sc.Auth.NTSKEFetcher, e.front2, e.downS, e.ip2
	} else {
		x.c = &client.IPClient{Log: e.log, InterleavedMode: false}
		x.c.Auth.Enabled = true
		x.fetcher, x.front, x.sock = &x.c.Auth.NTSKEFetcher, e.front, e.down
	}
	pool := x509.NewCertPool()
	pool.AddCert(e.cert)
	f := x.fetcher
	f.TLSConfig.NextProtos = []string{"ntske/1"}
	f.TLSConfig.RootCAs = pool
	f.TLSConfig.ServerName = ip.String()
	f.TLSConfig.MinVersion = tls.VersionTLS13
	f.TLSConfig.VerifyConnection = func(tls.ConnectionState) error {
		if x.keFail.Load() {
			return errors.New("scripted key exchange failure")
		}
		x.ke.Add(1)
		return nil
	}
	f.Port = strconv.Itoa(frontPort) // the harness's front of the real NTS-KE server
	f.Log = e.log
	x.local = &net.UDPAddr{IP: e.ip}
	x.remote = &net.UDPAddr{IP: e.ip, Port: relayPort}
	return x
}

// ---- AES-SIV, recomputed independently of net/nts ----

func sivSeal(key, nonce, plain, ad []byte) []byte {
	a, err := miscreant.NewAEAD("AES-CMAC-SIV", key, 16)
	if err != nil || len(nonce) != 16 {
		return nil
	}
	return a.Seal(nil, nonce, plain, ad)
}

func sivOpen(key, nonce, ct, ad []byte) ([]byte, bool) {
	a, err := miscreant.NewAEAD("AES-CMAC-SIV", key, 16)
	if err != nil || len(nonce) != 16 {
		return nil, false
	}
	p, err := a.Open(nil, nonce, ct, ad)
	return p, err == nil
}

// authParts finds the authenticator of an encoded NTS packet with the decoder
// of /repo and returns the position of the authenticator field, nonce and ciphertext.
func authParts(b []byte) (pos int, nonce, ct []byte, ok bool) {
	var p nts.Packet
	if err := nts.DecodePacket(&p, b); err != nil {
		return 0, nil, nil, false
	}
	// the authenticator is the last field the encoder writes
	fl := 4 + 4 + (len(p.Auth.Nonce)+3)&^3 + (len(p.Auth.CipherText)+3)&^3
	pos = len(b) - fl
	if pos < ntp.PacketLen || pos+4 > len(b) || b[pos] != 0x04 || b[pos+1] != 0x04 {
		return 0, nil, nil, false
	}
	return pos, p.Auth.Nonce, p.Auth.CipherText, true
}

// ---- the relay ----

func (e *env) sentinel() []byte {
	e.seq++
	s := make([]byte, ntp.PacketLen)
	s[0] = 4<<3 | 3
	s[40], s[41], s[42], s[43] = byte(sentinelSec>>24), byte(sentinelSec>>16&0xff), byte(sentinelSec>>8&0xff), byte(sentinelSec&0xff)
	s[44], s[45], s[46], s[47] = byte(e.seq>>24), byte(e.seq>>16), byte(e.seq>>8), byte(e.seq)
	return s
}

// toServer forwards a datagram to the real listener and returns every NTS
// reply that comes back before the reply to a plain NTP request sent right
// after it from the same socket (one source address and port always reaches the
// same listener goroutine, which answers in order).
func (e *env) toServer(req []byte) (replies [][]byte) {
	if _, err := e.up.WriteToUDP(req, e.srvAddr); err != nil {
		fatal("relay write: %v", err)
	}
	s := e.sentinel()
	if _, err := e.up.WriteToUDP(s, e.srvAddr); err != nil {
		fatal("relay write: %v", err)
	}
	buf := make([]byte, 4096)
	e.up.SetReadDeadline(time.Now().Add(waitLong))
	for {
		n, _, err := e.up.ReadFromUDP(buf)
		if err != nil {
			fatal("listener did not answer the sentinel request: %v", err)
		}
		b := append([]byte(nil), buf[:n]...)
		if n == ntp.PacketLen && string(b[24:32]) == string(s[40:48]) {
			return replies
		}
		if n > ntp.PacketLen {
			replies = append(replies, b)
		}
	}
}

// drainOne takes one datagram out of the relay's queue without waiting; nil if there is none.
func (x *cl) drainOne() []byte {
	rc, err := x.sock.SyscallConn()
	if err != nil {
		return nil
	}
	buf := make([]byte, 4096)
	n := -1
	rc.Read(func(fd uintptr) bool {
		m, _, err := syscall.Recvfrom(int(fd), buf, syscall.MSG_DONTWAIT)
		if err == nil {
			n = m
		}
		return true
	})
	if n < 0 {
		return nil
	}
	return append([]byte(nil), buf[:n]...)
}

// forClient: an NTP/NTS payload as the client's transport carries it.  For the SCION client a
// SCION/UDP packet from the server's address to the request's source, without extension headers.
func (x *cl) forClient(payload, rawReq []byte) []byte {
	if !x.scion {
		return payload
	}
	return replySCION(payload, rawReq)
}

// junk: a datagram the client cannot use (for the SCION client: not a SCION packet)
func (x *cl) junk() []byte {
	if x.scion {
		return make([]byte, 8)
	}
	return junk()
}

func junk() []byte {
	b := make([]byte, ntp.PacketLen)
	b[0] = 4<<3 | 4
	b[1] = 1
	return b
}

// actions of the relay
const (
	actDeliver   = 0  // request and reply pass
	actDropReq   = 1  // request lost
	actDropReply = 2  // reply lost
	actTamper    = 3  // one bit of the reply changed
	actReplay    = 4  // an earlier reply of this history delivered instead
	actTimeout   = 5  // request lost, the client runs into its deadline
	actKeFail    = 6  // a key exchange, if one is needed, fails; otherwise as actDeliver
	actDupReq    = 7  // the request reaches the server twice; the first reply passes
	actForge     = 8  // a forged datagram with cleartext cookie fields arrives before the genuine reply
	actTrailRep  = 12 // extension fields appended behind the authenticator of the genuine reply: a cookie field with the request's own cookie, with a random cookie, or two of them
	actTrailReq  = 13 // placeholder fields appended behind the authenticator of the request on its way to the server
	actOverfill  = 14 // a foreign server: the reply is properly sealed under S2C and carries seven good cookies, whatever was asked for
	actUnsync    = 11 // the reply says the server is not synchronised (or is otherwise not a usable NTP reply) but is properly authenticated under S2C and carries the fresh cookies
	actKeOdd     = 10 // a key exchange, if one is needed, hands out 1..7 cookies, or eight of another length; otherwise as actDeliver
	actKeBadSrv  = 9  // a key exchange, if one is needed, succeeds but names a server that is not an IP address; otherwise as actDeliver
)

type step struct {
	ageNs  int64
	action int
	arg    int64 // tamper: bit index seed
}

type stepObs struct {
	sent       bool
	req        []byte
	reqCT      []byte // ciphertext recomputed for the request
	reqNonce   []byte
	openable   bool
	curKey     int64    // the provider's current key id right after the reply (-1: not asked)
	forged     [][]byte // cookies of a forged datagram delivered to the client
	foreign    bool     // the reply was made by a server that is not this project's
	trailing   bool     // fields were appended behind an authenticator
	late       bool     // the request was found in the relay's queue only after the call had returned
	strayReqs  int      // further datagrams of the client after its request
	extra      []string // the replies after the first: [bytes authentic cookies]
	issued     [][]byte // every cookie the servers handed to this client in this call
	seenBefore [][]byte // ... that had been handed out before in this run
	noSend     int      // nothing reached the relay although the fetcher holds data: 1 the short allowance of a timeout step passed first, 2 the server named is not an IP address, 3 unexplained, 4 sent elsewhere
	forwarded  int
	replies    [][]byte
	repNonce   []byte
	repCT      []byte // recomputed
	repPlain   []byte
	repAuthOK  bool
	repCookies []string // per cookie: [bytes keyid getok c2s s2c]
	delivered  []byte
	intact     bool
	clientErr  bool
	keDelta    int64
	poolAfter  [][]byte
	c2s, s2c   []byte
}

// cookieFacts opens a cookie the way the server does and reports
// [cookie, key id, 1 if a currently valid key opens it, C2S, S2C].
// replyFacts opens a reply with the S2C key (AES-SIV recomputed here) and describes its cookies.
func (e *env) replyFacts(r, s2c []byte) (authOK bool, nonce, ctRecomputed, plain []byte, cookies []string, cookieBytes [][]byte) {
	pos, n, ct, ok := authParts(r)
	if !ok {
		return
	}
	nonce = n
	pl, ok := sivOpen(s2c, n, ct, r[:pos])
	if !ok {
		return
	}
	authOK, plain = true, pl
	ctRecomputed = sivSeal(s2c, n, pl, r[:pos])
	// the cookies in the plaintext, as the project's decoder of cookie fields sees them
	for q := 0; q+4 <= len(pl); {
		l := int(pl[q+2])<<8 | int(pl[q+3])
		if l < 4 || q+l > len(pl) {
			break
		}
		if pl[q] == 0x02 && pl[q+1] == 0x04 {
			f, _ := e.cookieFacts(pl[q+4 : q+l])
			cookies = append(cookies, f)
			cookieBytes = append(cookieBytes, append([]byte(nil), pl[q+4:q+l]...))
		}
		q += l
	}
	return
}

// overfull builds an authenticated reply with seven cookies for the request that reply r answers.
func (e *env) overfull(r []byte, d ntske.Data) (out []byte) {
	defer func() {
		if recover() != nil {
			out = nil
		}
	}()
	var p nts.Packet
	if err := nts.DecodePacket(&p, r); err != nil {
		return nil
	}
	sc := ntske.ServerCookie{Algo: ntske.AES_SIV_CMAC_256, S2C: d.S2cKey, C2S: d.C2sKey}
	key := e.provider.Current()
	var cookies [][]byte
	for i := 0; i < 7; i++ {
		ec, err := sc.EncryptWithNonce(key.Value, key.ID)
		if err != nil {
			return nil
		}
		cookies = append(cookies, ec.Encode())
	}
	pkt := nts.NewResponsePacket(cookies, d.S2cKey, p.UniqueID.ID)
	buf := append([]byte(nil), r[:ntp.PacketLen]...)
	nts.EncodePacket(&buf, &pkt)
	return buf
}

// noteIssued records the cookies handed out in a call and returns those seen before in this run.
func (e *env) noteIssued(cs [][]byte) (before [][]byte) {
	for _, c := range cs {
		k := string(c)
		if e.seen[k] {
			before = append(before, c)
		}
		e.seen[k] = true
	}
	return before
}

func (e *env) cookieFacts(cookie []byte) (string, bool) {
	var ec ntske.EncryptedServerCookie
	if err := ec.Decode(cookie); err != nil {
		return lib.L(lib.B(cookie), "-1", "0", lib.B(nil), lib.B(nil)), false
	}
	key, ok := e.provider.Get(int(ec.ID))
	if !ok {
		return lib.L(lib.B(cookie), lib.I(int64(ec.ID)), "0", lib.B(nil), lib.B(nil)), false
	}
	sc, err := ec.Decrypt(key.Value)
	if err != nil {
		return lib.L(lib.B(cookie), lib.I(int64(ec.ID)), "0", lib.B(nil), lib.B(nil)), false
	}
	return lib.L(lib.B(cookie), lib.I(int64(ec.ID)), "1", lib.B(sc.C2S), lib.B(sc.S2C)), true
}

func (e *env) runStep(x *cl, st step, old *[][]byte) stepObs {
	var o stepObs
	if st.ageNs != 0 {
		e.provider.VerifAge(time.Duration(st.ageNs))
		e.aged += time.Duration(st.ageNs)
	}
	d0 := x.fetcher.VerifData()
	stray0 := e.stray.Load()
	// how a needed key exchange goes
	x.keFail.Store(false)
	x.front.mode.Store(0)
	switch st.action {
	case actKeFail:
		m := st.arg % 6
		if m == 0 {
			x.keFail.Store(true) // the client refuses the server's certificate
		} else {
			x.front.mode.Store(m) // the peer misbehaves
			x.front.arg.Store(st.arg / 6)
		}
	case actKeBadSrv:
		x.front.mode.Store(6)
	case actKeOdd:
		x.front.mode.Store(7 + st.arg%2)
		x.front.arg.Store(st.arg / 2)
	}
	defer x.front.mode.Store(0)
	timeout := waitLong
	if st.action == actTimeout {
		// the only wall-clock allowance: long enough for the request to leave even on a loaded
		// machine; should it pass before the request left, that is recorded (noSend 1), not judged
		timeout = 1500 * time.Millisecond
		if v := os.Getenv("C11_TIMEOUT_NS"); v != "" { // to try the "deadline passed before the request left" path
			timeout = time.Duration(lib.ParseI(v))
		}
	}
	ctx, cancel := context.WithTimeout(context.Background(), timeout)
	defer cancel()
	done := make(chan error, 1)
	go func() {
		var err error
		if x.scion {
			ia := addr.IA(0x0001ff0000000112)
			la := udp.UDPAddr{IA: ia, Host: &net.UDPAddr{IP: e.ip}}
			ra := udp.UDPAddr{IA: ia, Host: &net.UDPAddr{IP: e.ip2, Port: scionPort}}
			ps := []snet.Path{spath.Path{Src: ia, Dst: ia, DataplanePath: spath.Empty{},
				NextHop: &net.UDPAddr{IP: e.ip2, Port: scionPort}}}
			_, _, err = client.MeasureClockOffsetSCION(ctx, e.log, []*client.SCIONClient{x.sc}, la, ra, ps)
		} else {
			_, _, err = client.MeasureClockOffsetIP(ctx, e.log, x.c, x.local, x.remote)
		}
		done <- err
	}()

	buf := make([]byte, 4096)
	var cerr error
	finished := false
	var caddr *net.UDPAddr
	var rawReq []byte
	var rawReplies [][]byte
	for !o.sent && !finished {
		x.sock.SetReadDeadline(time.Now().Add(20 * time.Millisecond))
		n, a, err := x.sock.ReadFromUDP(buf)
		if err == nil {
			o.sent = true
			rawReq = append([]byte(nil), buf[:n]...)
			o.req = rawReq
			if x.scion {
				o.req, _ = unwrapSCION(rawReq) // the NTP/NTS payload of the SCION/UDP packet
			}
			caddr = a
			break
		}
		select {
		case cerr = <-done:
			finished = true
		default:
		}
	}
	if !o.sent {
		// the call is over: a request that left just before is in the relay's queue by now
		// (loopback delivery happens inside the client's send); it belongs to this call
		if raw := x.drainOne(); raw != nil {
			o.sent, o.late = true, true
			rawReq = raw
			o.req = raw
			if x.scion {
				o.req, _ = unwrapSCION(raw)
			}
		}
	}
	if o.sent {
		d := x.fetcher.VerifData() // keys of this exchange (the pool is read again afterwards)
		if pos, nonce, _, ok := authParts(o.req); ok {
			o.reqNonce = nonce
			o.reqCT = sivSeal(d.C2sKey, nonce, nil, o.req[:pos])
		}
		var p nts.Packet
		if nts.DecodePacket(&p, o.req) == nil {
			if c, err := p.FirstCookie(); err == nil {
				o.openable = e.shouldOpen(c)
			}
		}
		act := st.action
		if o.late {
			act = actDropReq // the client has given up already
		}
		if act == actKeFail || act == actKeBadSrv || act == actKeOdd {
			act = actDeliver
		}
		if act == actReplay && len(*old) == 0 {
			act = actDropReply
		}
		fwdReq := rawReq
		if act == actTrailReq {
			// as many 124-byte placeholders as fit behind the authenticator (up to three), else 4-byte ones;
			// the server must answer what the authenticated part asks for.  (For the SCION listener in a
			// packet without packet authenticator: the one of the original no longer verifies.)
			p := append([]byte(nil), o.req...)
			added := 0
			for k := int(1 + st.arg%3); k > 0 && len(p)+128 <= nts.MaxPacketLen; k-- {
				p = append(p, 0x03, 0x04, 0, 128)
				p = append(p, make([]byte, 124)...)
				added++
			}
			if added == 0 {
				for len(p)+4 <= nts.MaxPacketLen && added < 12 {
					p = append(p, 0x03, 0x04, 0, 4)
					added++
				}
			}
			if len(p)-len(o.req) >= 28 {
				o.trailing = true
				fwdReq = p
				if x.scion {
					fwdReq = rewrapSCION(p, rawReq, false)
				}
			}
			act = actDeliver
		}
		forward := func() {
			if x.scion {
				raws, pls := e.toServerSCIONRaw(fwdReq)
				rawReplies = append(rawReplies, raws...)
				o.replies = append(o.replies, pls...)
			} else {
				r := e.toServer(fwdReq)
				rawReplies = append(rawReplies, r...)
				o.replies = append(o.replies, r...)
			}
		}
		switch act {
		case actDeliver, actDropReply, actTamper, actReplay, actForge, actUnsync, actTrailRep:
			o.forwarded = 1
			forward()
		case actOverfill:
			o.forwarded = 1
			forward()
			if len(o.replies) > 0 {
				// in place of the listener's reply: same NTP header and unique identifier, seven cookies made the
				// way the servers make them (provider.Current(), this session's keys), NewResponsePacket + EncodePacket
				if f := e.overfull(o.replies[0], d); f != nil {
					o.replies[0], o.foreign = f, true
					rawReplies[0] = x.forClient(f, rawReq)
				}
			}
			act = actDeliver
		case actDupReq:
			o.forwarded = 2
			forward()
			forward()
		}
		o.curKey = -1
		if len(o.replies) > 0 {
			o.curKey = e.noteCurrent()
			var bs [][]byte
			o.repAuthOK, o.repNonce, o.repCT, o.repPlain, o.repCookies, bs = e.replyFacts(o.replies[0], d.S2cKey)
			o.issued = append(o.issued, bs...)
			// further replies (to a duplicated request): each judged like the first
			for _, r := range o.replies[1:] {
				ok, _, _, _, cf, bs := e.replyFacts(r, d.S2cKey)
				o.extra = append(o.extra, lib.L(lib.B(r), lib.Bool(ok), lib.L(cf...)))
				o.issued = append(o.issued, bs...)
			}
		}
		// what the client gets
		switch act {
		case actDeliver, actDupReq:
			if len(o.replies) > 0 {
				o.delivered = rawReplies[0]
				o.intact = true
			}
		case actTrailRep:
			if len(o.replies) > 0 {
				// behind the authenticator nothing is authenticated and nothing must be read
				r := append([]byte(nil), o.replies[0]...)
				var extra [][]byte
				var p nts.Packet
				own, _ := func() ([]byte, error) {
					if err := nts.DecodePacket(&p, o.req); err != nil {
						return nil, err
					}
					return p.FirstCookie()
				}()
				switch st.arg % 3 {
				case 0:
					if len(own) == 124 {
						extra = [][]byte{own}
					}
				case 1:
					c := make([]byte, 124)
					rand.Read(c)
					extra = [][]byte{c}
				case 2:
					c1, c2 := make([]byte, 124), make([]byte, 124)
					rand.Read(c1)
					rand.Read(c2)
					extra = [][]byte{c1, c2}
				}
				for _, c := range extra {
					if len(r)+128 <= nts.MaxPacketLen {
						r = append(r, 0x02, 0x04, 0, 128)
						r = append(r, c...)
						o.forged = append(o.forged, c)
						o.trailing = true
					}
				}
				o.delivered = rawReplies[0]
				if o.trailing {
					o.delivered = x.forClient(r, rawReq)
				}
				o.intact = true
			}
		case actUnsync:
			if len(o.replies) > 0 && o.repAuthOK {
				// the genuine reply with another first or second byte (leap indicator 3, version 2, mode 5,
				// stratum 0 or 16), sealed again under S2C over the changed bytes: authentic, with the same
				// cookies; to the SCION client in a packet without packet authenticator
				r := append([]byte(nil), o.replies[0]...)
				switch st.arg % 5 {
				case 0:
					r[0] |= 0xc0
				case 1:
					r[1] = 0
				case 2:
					r[1] = 16
				case 3:
					r[0] = r[0]&^0x38 | 2<<3
				case 4:
					r[0] = r[0]&^0x07 | 5
				}
				if pos, nonce, ct, ok := authParts(r); ok {
					nct := sivSeal(d.S2cKey, nonce, o.repPlain, r[:pos])
					if len(nct) == len(ct) {
						copy(r[len(r)-len(ct):], nct)
						o.delivered = x.forClient(r, rawReq)
						o.intact = true
					}
				}
			}
		case actForge:
			if len(o.replies) > 0 {
				// header and unique identifier of the genuine reply, two cookie fields in the clear,
				// an authenticator that cannot verify; the genuine reply follows
				r := o.replies[0]
				f := append([]byte(nil), r[:ntp.PacketLen+36]...)
				for i := 0; i < 2; i++ {
					c := make([]byte, 124)
					rand.Read(c)
					o.forged = append(o.forged, c)
					f = append(f, 0x02, 0x04, 0, 128)
					f = append(f, c...)
				}
				f = append(f, 0x04, 0x04, 0, 40, 0, 16, 0, 16)
				g := make([]byte, 32)
				rand.Read(g)
				f = append(f, g...)
				// (to the SCION client: in a SCION/UDP packet without packet authenticator, which goes
				// straight to the NTS code)
				x.sock.WriteToUDP(x.forClient(f, rawReq), caddr)
				o.delivered = rawReplies[0]
				o.intact = true
			}
		case actTamper:
			if len(o.replies) > 0 {
				// one bit changed in the value of the unique identifier or in the nonce/ciphertext
				// part of the authenticator (its own 4-byte header is authenticated by nobody)
				r := append([]byte(nil), o.replies[0]...)
				lo, hi := ntp.PacketLen+4, len(r)
				if pos, _, _, ok := authParts(r); ok {
					if st.arg&1 == 0 {
						hi = pos
						if ntp.PacketLen+4+32 < hi {
							hi = ntp.PacketLen + 4 + 32
						}
					} else {
						lo = pos + 4
					}
				}
				bit := int(uint64(st.arg>>1) % uint64((hi-lo)*8))
				r[lo+bit/8] ^= 1 << (bit % 8)
				o.delivered = x.forClient(r, rawReq)
				if x.scion && st.arg&2 != 0 {
					// the same damage inside the original datagram: its packet authenticator no longer verifies
					raw := append([]byte(nil), rawReplies[0]...)
					off := len(raw) - len(r)
					raw[off+lo+bit/8] ^= 1 << (bit % 8)
					o.delivered = raw
				}
			}
		case actReplay:
			o.delivered = x.forClient((*old)[int(uint64(st.arg)%uint64(len(*old)))], rawReq)
		}
		if len(o.replies) > 0 {
			*old = append(*old, o.replies[0])
		}
		if o.delivered != nil {
			x.sock.WriteToUDP(o.delivered, caddr)
		}
		if act != actTimeout && !o.late {
			// end the client's wait whatever it thinks of what it got: it gives up after the
			// second datagram it cannot use; a reply delivered before these is processed first
			x.sock.WriteToUDP(x.junk(), caddr)
			x.sock.WriteToUDP(x.junk(), caddr)
		}
		if !o.late {
			select {
			case cerr = <-done:
			case <-time.After(2 * waitLong):
				fatal("client call did not return")
			}
		}
	}
	for x.drainOne() != nil {
		o.strayReqs++ // a call makes one request
	}
	o.clientErr = cerr != nil
	d := x.fetcher.VerifData()
	// a key exchange completed iff the fetcher holds new session keys
	if len(d.C2sKey) > 0 && !bytes.Equal(d.C2sKey, d0.C2sKey) {
		o.keDelta = 1
	}
	if !o.sent && len(d.C2sKey) > 0 {
		switch {
		case e.stray.Load() != stray0:
			o.noSend = 4 // a request left, but not to the server and port of the key exchange
		case net.ParseIP(d.Server) == nil:
			o.noSend = 2
		case st.action == actTimeout && (errors.Is(cerr, os.ErrDeadlineExceeded) || errors.Is(cerr, context.DeadlineExceeded)):
			o.noSend = 1 // only the short allowance may pass; with the hard limit this is a hang
		default:
			o.noSend = 3
		}
	}
	o.poolAfter = d.Cookie
	o.c2s, o.s2c = d.C2sKey, d.S2cKey
	if o.keDelta > 0 {
		// the cookies of the key exchange: what is in the pool apart from this call's reply cookies, and the one sent
		inReply := map[string]bool{}
		for _, c := range o.issued {
			inReply[string(c)] = true
		}
		for _, c := range d.Cookie {
			if !inReply[string(c)] {
				o.issued = append(o.issued, c)
			}
		}
		var p nts.Packet
		if o.sent && nts.DecodePacket(&p, o.req) == nil {
			if c, err := p.FirstCookie(); err == nil {
				o.issued = append(o.issued, c)
			}
		}
	}
	o.seenBefore = e.noteIssued(o.issued)
	return o
}

func bl(bs [][]byte) string {
	s := make([]string, len(bs))
	for i, b := range bs {
		s[i] = lib.B(b)
	}
	return lib.L(s...)
}

func (o *stepObs) String() string {
	rep := lib.B(nil)
	if len(o.replies) > 0 {
		rep = lib.B(o.replies[0])
	}
	return lib.L(
		lib.Bool(o.sent), lib.B(o.req), lib.B(o.reqNonce), lib.B(o.reqCT), lib.Bool(o.openable),
		lib.I(int64(o.forwarded)), lib.I(int64(len(o.replies))), rep, lib.B(o.repNonce), lib.B(o.repCT),
		lib.Bool(o.repAuthOK), lib.B(o.repPlain), lib.L(o.repCookies...),
		lib.Bool(o.intact), lib.Bool(o.clientErr), lib.I(o.keDelta),
		bl(o.poolAfter), lib.B(o.c2s), lib.B(o.s2c), lib.I(o.curKey), bl(o.forged), lib.I(int64(o.noSend)), lib.L(o.extra...), bl(o.seenBefore), lib.I(int64(o.strayReqs)), lib.Bool(o.foreign))
}

func parseScript(args string) []step {
	// "[ [age action arg] ... ]"
	t := strings.Fields(strings.NewReplacer("[", " ", "]", " ").Replace(args))
	var s []step
	for i := 0; i+2 < len(t); i += 3 {
		s = append(s, step{ageNs: lib.ParseI(t[i]), action: int(lib.ParseI(t[i+1])), arg: lib.ParseI(t[i+2])})
	}
	return s
}

func scriptString(s []step) string {
	it := make([]string, len(s))
	for i, x := range s {
		it[i] = lib.L(lib.I(x.ageNs), lib.I(int64(x.action)), lib.I(x.arg))
	}
	return lib.L(it...)
}

func (e *env) runHist(script []step, overSCION bool) (tagstr, args, outstr string) {
	x := e.newClient(overSCION)
	var old [][]byte
	outs := make([]string, len(script))
	tags := map[string]bool{}
	lvl := 0
	minLvl := 8
	var totalAge int64
	rotations := 0
	for i, st := range script {
		o := e.runStep(x, st, &old)
		outs[i] = o.String()
		if o.keDelta > 0 {
			tags["rekey"] = true
			if i > 0 {
				tags["rekey-after-drain"] = true
			}
		}
		if o.sent && !o.intact {
			tags["loss"] = true
		}
		if o.sent && o.intact {
			tags["success"] = true
			if lvl > 0 && lvl < 8 {
				tags["refill"] = true
			}
		}
		if o.sent && o.forwarded > 0 && len(o.replies) == 0 {
			tags["server-silent"] = true
		}
		if st.ageNs != 0 {
			tags["aged"] = true
			totalAge += st.ageNs
			if o.sent && o.intact {
				rotations++
			}
		}
		if len(o.forged) > 0 {
			tags["forged"] = true
		}
		if o.foreign {
			tags["foreign-server-overfull"] = true
		}
		if o.trailing {
			tags[fmt.Sprintf("trailing-act%d", st.action)] = true
		}
		if st.action == actKeFail && !o.sent && o.noSend == 0 {
			tags[fmt.Sprintf("kefail-mode%d", st.arg%6)] = true
			if i > 0 {
				tags["kefail-after-data"] = true
			}
		}
		if o.noSend != 0 {
			tags[fmt.Sprintf("nosend%d", o.noSend)] = true
		}
		if len(o.repCookies) >= 7 {
			tags["reply-capped"] = true
		}
		lvl = len(o.poolAfter)
		if lvl < minLvl {
			minLvl = lvl
		}
		tags[fmt.Sprintf("act%d", st.action)] = true
	}
	if totalAge > 72*3600*1000000000 && rotations >= 3 {
		tags["served-across-3-rotations"] = true
	}
	if minLvl <= 1 {
		tags["low-pool"] = true
	}
	if minLvl == 0 {
		tags["empty-pool"] = true
	}
	if tags["loss"] && tags["success"] && (tags["refill"] || tags["rekey-after-drain"]) {
		tags["nt"] = true
	}
	var tl []string
	for t := range tags {
		tl = append(tl, t)
	}
	sortStrings(tl)
	return strings.Join(tl, ","), scriptString(script), lib.L(outs...)
}

// childMain: run the histories whose scripts arrive on stdin, one per line;
// report on stdout "BEGIN <n>" before and "CASE <tags> <args> <outs>" after each.
func childMain() {
	e := newEnv()
	in := bufio.NewReaderSize(os.Stdin, 1<<20)
	out := bufio.NewWriterSize(os.Stdout, 1<<20)
	for i := 0; ; i++ {
		line, err := in.ReadString('\n')
		line = strings.TrimSpace(line)
		if line != "" {
			fmt.Fprintf(out, "BEGIN\t%d\n", i)
			out.Flush()
			kind, args, _ := strings.Cut(line, "\t")
			var t, a, o string
			switch kind {
			case "c11.hist":
				t, a, o = e.runHist(parseScript(args), false)
			case "c11.shist":
				t, a, o = e.runHist(parseScript(args), true)
			case "c11.srv":
				t, a, o = e.runSrv(args)
			case "c11.conc":
				t, a, o = e.runConc(args)
			case "c11.ilv":
				t, a, o = e.runIlv(args)
			case "c11.conck":
				t, a, o = e.runConcKe(args)
			}
			fmt.Fprintf(out, "CASE\t%s\t%s\t%s\t%s\n", kind, t, a, o)
			out.Flush()
		}
		if err != nil {
			return
		}
	}
}

// runHistories runs the scripts in child processes (a panic in a listener or
// client goroutine ends the process): a history during which the child died is
// recorded as crashed and the rest continues in a new child.
type job struct{ kind, args string }

func histJobs(scripts [][]step) (js []job) {
	for _, s := range scripts {
		js = append(js, job{"c11.hist", scriptString(s)})
	}
	return js
}

func runHistories(w *lib.Writer, scripts []job) {
	for len(scripts) > 0 {
		cmd := exec.Command(os.Args[0], "-child")
		cmd.Env = append(os.Environ(), "USE_MOCK_KEYS=true")
		var sb strings.Builder
		for _, s := range scripts {
			sb.WriteString(s.kind + "\t" + s.args)
			sb.WriteString("\n")
		}
		cmd.Stdin = strings.NewReader(sb.String())
		cmd.Stderr = io.Discard
		po, err := cmd.StdoutPipe()
		if err != nil {
			fatal("pipe: %v", err)
		}
		if err := cmd.Start(); err != nil {
			fatal("child: %v", err)
		}
		sc := bufio.NewScanner(po)
		sc.Buffer(make([]byte, 1<<20), 1<<28)
		cur, done := -1, 0
		for sc.Scan() {
			p := strings.SplitN(sc.Text(), "\t", 5)
			switch p[0] {
			case "BEGIN":
				cur = int(lib.ParseI(p[1]))
			case "CASE":
				w.Case(p[1], p[2], p[3], p[4])
				done = cur + 1
				cur = -1
			}
		}
		err = cmd.Wait()
		if cur >= 0 {
			// the process died during history cur
			w.Case(scripts[cur].kind, "crashed", scripts[cur].args, lib.L("99"))
			scripts = scripts[cur+1:]
			continue
		}
		if err != nil && done < len(scripts) {
			fatal("history runner failed: %v", err)
		}
		return
	}
}

func sortStrings(s []string) {
	for i := 1; i < len(s); i++ {
		for j := i; j > 0 && s[j] < s[j-1]; j-- {
			s[j], s[j-1] = s[j-1], s[j]
		}
	}
}

func main() {
	child := flag.Bool("child", false, "internal: run histories from stdin")
	a := lib.ParseArgs()
	if *child {
		childMain()
		return
	}
	w := lib.NewWriter(a.Out)
	defer w.Close()
	if a.Replay != "" {
		var scripts []job
		for _, l := range lib.ReplayLines(a.Replay) {
			switch l[0] {
			case "c11.hist", "c11.shist", "c11.srv", "c11.conc", "c11.ilv", "c11.conck":
				scripts = append(scripts, job{l[0], l[2]})
			case "c11.store":
				runStore(w, parseBL(l[2]), l[1])
			case "c11.req":
				runReq(w, parseReq(l[2]), l[1])
			case "c11.resp":
				runResp(w, parseResp(l[2]), l[1])
			case "c11.const":
				runConst(w)
			}
		}
		runHistories(w, scripts)
		return
	}
	r := lib.NewRng(a.Seed)
	runConst(w)
	genFunctional(w, r.Fork(), a.Tier)
	js := genSrv(r.Fork(), a.Tier)
	nconc := 6
	if a.Tier == "thorough" {
		nconc = 60
	}
	for i := 0; i < nconc; i++ {
		js = append(js, job{"c11.conc", lib.L(lib.I(800), lib.I(int64(lib.Pick(r, 4, 6, 8, 8))))})
	}
	nck := 8
	if a.Tier == "thorough" {
		nck = 60
	}
	for i := 0; i < nck; i++ {
		js = append(js, job{"c11.conck", lib.L(lib.I(int64(i)))})
	}
	js = append(js, genIlv(r.Fork(), a.Tier)...)
	js = append(js, histJobs(genHistories(r.Fork(), a.Tier))...)
	for _, sc := range genSCIONHistories(r.Fork(), a.Tier) {
		js = append(js, job{"c11.shist", scriptString(sc)})
	}
	runHistories(w, js)
}
