package main

import (
	"context"
	crand_ "crypto/rand"
	"fmt"
	"strings"
	"sync"
	"sync/atomic"
	"time"

	"example.com/scion-time/core/client"
	"example.com/scion-time/net/ntp"
	"example.com/scion-time/net/nts"
	"example.com/scion-time/net/ntske"

	"verifharness/lib"
)

func crand(b []byte) { crand_.Read(b) }

// ---- c11.const ----

func runConst(w *lib.Writer) {
	// the length of the cookies the servers issue, measured on one made the way
	// core/server/ntske.go makes them
	sc := ntske.ServerCookie{Algo: ntske.AES_SIV_CMAC_256, S2C: make([]byte, 32), C2S: make([]byte, 32)}
	ec, err := sc.EncryptWithNonce(make([]byte, 32), 1)
	if err != nil {
		fatal("EncryptWithNonce: %v", err)
	}
	w.Case("c11.const", "", "0", lib.V(lib.I(nts.MaxPacketLen), lib.I(int64(len(ec.Encode()))), lib.I(ntp.PacketLen)))
}

// ---- c11.req: NewRequestPacket + EncodePacket ----

type reqIn struct {
	pool [][]byte
	c2s  []byte
	hdr  []byte
}

func splitTop(s string) []string {
	var out []string
	depth := 0
	cur := ""
	for _, t := range strings.Fields(s) {
		if depth == 0 && !strings.HasPrefix(t, "[") {
			out = append(out, t)
			continue
		}
		if cur != "" {
			cur += " "
		}
		cur += t
		depth += strings.Count(t, "[") - strings.Count(t, "]")
		if depth == 0 {
			out = append(out, cur)
			cur = ""
		}
	}
	return out
}

func parseBL(s string) [][]byte {
	var out [][]byte
	for _, t := range strings.Fields(strings.NewReplacer("[", " ", "]", " ").Replace(s)) {
		out = append(out, lib.ParseB(t))
	}
	return out
}

func parseReq(args string) reqIn {
	t := splitTop(args)
	return reqIn{pool: parseBL(t[0]), c2s: lib.ParseB(t[1]), hdr: lib.ParseB(t[2])}
}

func runReq(w *lib.Writer, in reqIn, tags string) {
	var out []byte
	var uid []byte
	panicked := false
	func() {
		defer func() {
			if r := recover(); r != nil {
				panicked = true
			}
		}()
		d := ntske.Data{C2sKey: in.c2s, Cookie: in.pool}
		pkt, id := nts.NewRequestPacket(d)
		uid = id
		buf := append([]byte(nil), in.hdr...)
		nts.EncodePacket(&buf, &pkt)
		out = buf
	}()
	var nonce, ct []byte
	ok := false
	if !panicked {
		if pos, n, c, k := authParts(out); k {
			if _, k2 := sivOpen(in.c2s, n, c, out[:pos]); k2 {
				nonce, ct, ok = n, sivSeal(in.c2s, n, nil, out[:pos]), true
			}
		}
	}
	w.Case("c11.req", tags, lib.V(bl(in.pool), lib.B(in.c2s), lib.B(in.hdr)),
		lib.V(lib.Bool(panicked), lib.B(out), lib.B(uid), lib.Bool(ok), lib.B(nonce), lib.B(ct)))
}

// ---- c11.resp: NewResponsePacket + EncodePacket ----

type respIn struct {
	cookies [][]byte
	key     []byte
	uid     []byte
	hdr     []byte
}

func parseResp(args string) respIn {
	t := splitTop(args)
	return respIn{cookies: parseBL(t[0]), key: lib.ParseB(t[1]), uid: lib.ParseB(t[2]), hdr: lib.ParseB(t[3])}
}

func runResp(w *lib.Writer, in respIn, tags string) {
	var out []byte
	panicked := false
	func() {
		defer func() {
			if r := recover(); r != nil {
				panicked = true
			}
		}()
		pkt := nts.NewResponsePacket(in.cookies, in.key, in.uid)
		buf := append([]byte(nil), in.hdr...)
		nts.EncodePacket(&buf, &pkt)
		out = buf
	}()
	var nonce, ct, plain []byte
	ok := false
	if !panicked {
		if pos, n, c, k := authParts(out); k {
			if p, k2 := sivOpen(in.key, n, c, out[:pos]); k2 {
				nonce, plain, ok = n, p, true
				ct = sivSeal(in.key, n, p, out[:pos])
			}
		}
	}
	w.Case("c11.resp", tags, lib.V(bl(in.cookies), lib.B(in.key), lib.B(in.uid), lib.B(in.hdr)),
		lib.V(lib.Bool(panicked), lib.B(out), lib.Bool(ok), lib.B(nonce), lib.B(plain), lib.B(ct)))
}

func ntpHdr(r *lib.Rng) []byte {
	b := r.Bytes(ntp.PacketLen)
	b[0] = 4<<3 | 3
	return b
}

func genFunctional(w *lib.Writer, r *lib.Rng, tier string) {
	n := 1500
	if tier == "thorough" {
		n = 12000
	}
	// complete sweep at the length the servers issue and its neighbours: every pool level
	for _, cl := range []int{120, 121, 123, 124, 125, 127, 128} {
		for lvl := 1; lvl <= 10; lvl++ {
			pool := make([][]byte, lvl)
			for i := range pool {
				pool[i] = r.Bytes(cl)
			}
			tags := fmt.Sprintf("req-sweep,lvl%d", lvl)
			if cl == 124 && lvl <= 8 {
				tags += ",nt,issued-len"
			}
			runReq(w, reqIn{pool: pool, c2s: r.Bytes(32), hdr: ntpHdr(r)}, tags)
		}
	}
	for i := 0; i < n; i++ {
		lvl := int(r.Range(1, 9))
		if r.Intn(12) == 0 {
			lvl = int(r.Range(0, 14))
		}
		var cl int
		switch r.Intn(8) {
		case 0, 1, 2:
			cl = 124
		case 3:
			cl = int(r.Range(96, 160))
		case 4:
			// lengths around the points where one cookie more or less fits
			cl = lib.Pick(r, 108, 109, 124, 125, 144, 145, 146, 147, 148, 176, 177, 220, 221, 222, 296, 297, 448, 449, 896, 897, 900, 901, 904, 932, 936, 940, 1000, 0, 1, 3, 4)
		case 5:
			cl = int(r.Range(0, 1100))
		default:
			cl = int(r.Range(100, 150))
		}
		pool := make([][]byte, lvl)
		for j := range pool {
			l := cl
			if j > 0 && r.Intn(6) == 0 {
				l = int(r.Range(0, 200))
			}
			pool[j] = r.Bytes(l)
		}
		kl := 32
		if r.Intn(10) == 0 {
			kl = lib.Pick(r, 0, 16, 31, 33, 48, 64)
		}
		hdr := ntpHdr(r)
		if r.Intn(40) == 0 {
			hdr = r.Bytes(lib.Pick(r, 0, 47, 49, 1024))
		}
		tags := fmt.Sprintf("req,lvl%d", lvl)
		if cl == 124 && kl == 32 && lvl >= 1 && lvl <= 8 && len(hdr) == 48 {
			tags += ",nt,issued-len"
		} else if lvl >= 1 && lvl < 8 && cl >= 100 {
			tags += ",nt"
		}
		runReq(w, reqIn{pool: pool, c2s: r.Bytes(kl), hdr: hdr}, tags)
	}
	genStore(w, r.Fork(), tier)
	// replies: complete sweep of the number of cookies at the issued length
	for _, cl := range []int{120, 124, 128} {
		for _, ul := range []int{32, 33, 36, 40, 64, 100, 156, 160, 161, 164} {
			for cnt := 1; cnt <= 10; cnt++ {
				cs := make([][]byte, cnt)
				for i := range cs {
					cs[i] = r.Bytes(cl)
				}
				tags := fmt.Sprintf("resp-sweep,cnt%d", cnt)
				if cl == 124 && ul == 32 {
					tags += ",nt,issued-len"
				}
				runResp(w, respIn{cookies: cs, key: r.Bytes(32), uid: r.Bytes(ul), hdr: ntpHdr(r)}, tags)
			}
		}
	}
	for i := 0; i < n; i++ {
		cnt := int(r.Range(1, 9))
		if r.Intn(15) == 0 {
			cnt = int(r.Range(0, 16))
		}
		var cl int
		switch r.Intn(6) {
		case 0, 1, 2:
			cl = 124
		case 3:
			cl = int(r.Range(96, 160))
		case 4:
			cl = lib.Pick(r, 0, 1, 4, 5, 108, 109, 144, 145, 148, 149, 220, 221, 296, 297, 448, 449, 896, 897, 900, 904, 1000)
		default:
			cl = int(r.Range(0, 1000))
		}
		ul := 32
		switch r.Intn(6) {
		case 0:
			ul = int(r.Range(32, 64))
		case 1:
			ul = lib.Pick(r, 0, 16, 31, 33, 36, 156, 160, 161, 164, 288, 289, 800, 900, 940)
		}
		cs := make([][]byte, cnt)
		for j := range cs {
			l := cl
			if j > 0 && r.Intn(10) == 0 {
				l = int(r.Range(0, 200))
			}
			cs[j] = r.Bytes(l)
		}
		kl := 32
		if r.Intn(12) == 0 {
			kl = lib.Pick(r, 0, 16, 31, 48, 64)
		}
		tags := fmt.Sprintf("resp,cnt%d", cnt)
		if cl == 124 && kl == 32 && cnt >= 1 {
			tags += ",nt,issued-len"
		} else if cnt >= 2 && cl >= 100 {
			tags += ",nt"
		}
		runResp(w, respIn{cookies: cs, key: r.Bytes(kl), uid: r.Bytes(ul), hdr: ntpHdr(r)}, tags)
	}
}

// ---- histories ----

const hour = int64(3600) * 1000000000

func genScript(r *lib.Rng, shape int) []step {
	var s []step
	add := func(age int64, act int) { s = append(s, step{ageNs: age, action: act, arg: r.I64() & 0x7fffffff}) }
	lossAct := func() int {
		return lib.Pick(r, actDropReq, actDropReq, actDropReply, actDropReply, actTamper, actReplay)
	}
	switch shape {
	case 0: // loss-free
		for i := int(r.Range(3, 12)); i > 0; i-- {
			add(0, actDeliver)
		}
	case 1: // k consecutive losses (every pool level), then recovery
		k := int(r.Range(1, 9))
		add(0, actDeliver)
		for i := 0; i < k; i++ {
			add(0, lossAct())
		}
		for i := int(r.Range(2, 5)); i > 0; i-- {
			add(0, actDeliver)
		}
	case 2: // drain completely (8 or more losses) so that the client re-keys, more than once
		for rep := int(r.Range(1, 2)); rep > 0; rep-- {
			add(0, lib.Pick(r, actDeliver, actDropReq))
			for i := int(r.Range(7, 10)); i > 0; i-- {
				add(0, lossAct())
			}
			add(0, lib.Pick(r, actDeliver, actKeFail, actDropReply))
			add(0, actDeliver)
		}
	case 3: // random mix
		for i := int(r.Range(8, 40)); i > 0; i-- {
			switch r.Intn(10) {
			case 0, 1, 2, 3, 4:
				add(0, actDeliver)
			case 5:
				add(0, lib.Pick(r, actDupReq, actForge, actUnsync, actTrailRep, actTrailReq))
			case 6:
				add(0, actKeFail)
			default:
				add(0, lossAct())
			}
		}
	case 4: // server key rotation: new key after a day, old cookies stay good for three days
		add(0, actDeliver)
		for i := int(r.Range(2, 6)); i > 0; i-- {
			age := lib.Pick(r, 1*hour, 23*hour, 25*hour, 30*hour, 47*hour)
			add(age, lib.Pick(r, actDeliver, actDeliver, actDropReply, actDropReq))
			for j := int(r.Range(0, 3)); j > 0; j-- {
				add(0, lib.Pick(r, actDeliver, actDeliver, lossAct()))
			}
		}
	case 5: // the key of the pooled cookies expires: the server stays silent, the pool drains, the client re-keys
		add(0, actDeliver)
		if r.Bool() {
			add(25*hour, actDeliver) // cookies under two keys in the pool
		}
		add(lib.Pick(r, 73*hour, 80*hour, 200*hour), actDeliver)
		for i := int(r.Range(8, 11)); i > 0; i-- {
			add(0, actDeliver)
		}
	case 6: // a client that sleeps: losses, rotation, losses
		add(0, actDeliver)
		for i := int(r.Range(1, 7)); i > 0; i-- {
			add(0, lossAct())
		}
		add(lib.Pick(r, 25*hour, 49*hour), actDeliver)
		for i := int(r.Range(1, 7)); i > 0; i-- {
			add(lib.Pick(r, 0, 0, 1*hour), lib.Pick(r, actDeliver, lossAct()))
		}
		add(0, actDeliver)
		add(0, actDeliver)
	case 8: // a client that is quiet for two rotations but less than three days: still answered
		add(0, actDeliver)
		add(25*hour, actDeliver)
		add(lib.Pick(r, 24*hour, 25*hour, 30*hour), actDeliver)
		for i := int(r.Range(2, 5)); i > 0; i-- {
			add(0, actDeliver)
		}
		add(lib.Pick(r, 0, 10*hour), actDeliver)
	case 9: // loss-free across many rotations, more than three days in all: the pool is turned over in time
		for rot := int(r.Range(4, 6)); rot > 0; rot-- {
			for i := int(r.Range(8, 10)); i > 0; i-- {
				add(0, actDeliver)
			}
			add(lib.Pick(r, 25*hour, 30*hour, 47*hour), actDeliver)
		}
		for i := 0; i < 9; i++ {
			add(0, actDeliver)
		}
	case 10: // forged datagrams with cleartext cookies ahead of genuine replies, at every level
		add(0, actDeliver)
		for i := int(r.Range(0, 6)); i > 0; i-- {
			add(0, lossAct())
		}
		add(0, actForge)
		for i := int(r.Range(2, 9)); i > 0; i-- {
			add(0, lib.Pick(r, actDeliver, actForge, actDeliver))
		}
		for i := 0; i < 9; i++ {
			add(0, actDeliver) // anything forged that got into the pool is sent by now
		}
	case 11: // key exchanges that fail in every way, after the fetcher has held data and lost it all
		add(0, actDeliver)
		for i := 0; i < 8; i++ {
			add(0, lib.Pick(r, actDropReq, actDropReply))
		}
		for i := int(r.Range(1, 4)); i > 0; i-- {
			add(0, actKeFail)
		}
		add(0, actDeliver)
		add(0, actDeliver)
		add(0, lib.Pick(r, actDeliver, actDropReply))
		add(0, actDeliver)
	case 12: // a key exchange that names a server the client cannot use: nothing is sent, the cookies go one by one
		if r.Bool() {
			add(0, actDeliver)
			for i := 0; i < 8; i++ {
				add(0, actDropReq)
			}
		}
		add(0, actKeBadSrv)
		for i := int(r.Range(1, 9)); i > 0; i-- {
			add(0, actDeliver)
		}
		add(0, actDeliver)
	case 13: // key exchanges that hand out fewer than eight cookies, or cookies of other lengths (too long ones too)
		if r.Bool() {
			add(0, actDeliver)
			for i := 0; i < 8; i++ {
				add(0, actDropReq)
			}
		}
		add(0, actKeOdd)
		for i := int(r.Range(2, 10)); i > 0; i-- {
			add(0, lib.Pick(r, actDeliver, actDeliver, actDropReply, actKeOdd))
		}
		add(0, actDeliver)
	case 14: // a server that is not synchronised: authentic replies with fresh cookies that are no usable NTP replies
		add(0, actDeliver)
		for i := int(r.Range(9, 14)); i > 0; i-- {
			add(0, lib.Pick(r, actUnsync, actUnsync, actUnsync, actDeliver))
		}
		add(0, actDeliver)
	case 15: // someone on the path appends fields behind the authenticators: of replies (cookies) and of requests (placeholders)
		add(0, actDeliver)
		for i := int(r.Range(0, 5)); i > 0; i-- {
			add(0, lossAct())
		}
		for i := int(r.Range(3, 8)); i > 0; i-- {
			add(0, lib.Pick(r, actTrailRep, actTrailRep, actTrailReq, actDeliver))
		}
		for i := 0; i < 10; i++ {
			add(0, actDeliver) // whatever got into the pool is sent by now
		}
	case 16: // a foreign server answers with more cookies than asked for, at every pool level
		add(0, actDeliver)
		for i := int(r.Range(0, 7)); i > 0; i-- {
			add(0, lib.Pick(r, actDropReq, actDropReply))
		}
		add(0, actOverfill)
		for i := int(r.Range(1, 6)); i > 0; i-- {
			add(0, lib.Pick(r, actDeliver, actOverfill, actDropReply))
		}
		add(0, actDeliver)
	case 7: // one real timeout
		add(0, actDeliver)
		add(0, actTimeout)
		add(0, actDeliver)
		add(0, actDeliver)
	}
	return s
}

func genHistories(r *lib.Rng, tier string) (scripts [][]step) {
	n := 220
	if tier == "thorough" {
		n = 2500
	}
	// every number of consecutive losses 0..9 once, exactly
	for k := 0; k <= 9; k++ {
		var s []step
		s = append(s, step{action: actDeliver})
		for i := 0; i < k; i++ {
			s = append(s, step{action: lib.Pick(r, actDropReq, actDropReply)})
		}
		s = append(s, step{action: actDeliver}, step{action: actDeliver}, step{action: actDeliver})
		scripts = append(scripts, s)
	}
	for _, sh := range []int{8, 9, 10, 11, 11, 11, 11, 11, 11, 12, 12, 13, 13, 13, 13, 13, 13, 14, 14, 14, 14, 14, 15, 15, 15, 15, 15, 15, 16, 16, 16, 16, 16, 16} {
		scripts = append(scripts, genScript(r, sh))
	}
	for i := 0; i < n; i++ {
		shape := lib.Pick(r, 0, 1, 1, 1, 2, 2, 3, 3, 3, 4, 4, 5, 6, 6, 8, 8, 9, 10, 10, 11, 11, 11, 12, 13, 13, 14, 14, 15, 15, 16, 16)
		if i%40 == 7 {
			shape = 7
		}
		scripts = append(scripts, genScript(r, shape))
	}
	return scripts
}

// ---- c11.store: Fetcher.StoreCookie (read back through the verif hook) ----

func runStore(w *lib.Writer, cookies [][]byte, tags string) {
	var f ntske.Fetcher
	for _, c := range cookies {
		f.StoreCookie(c)
	}
	w.Case("c11.store", tags, bl(cookies), bl(f.VerifData().Cookie))
}

func genStore(w *lib.Writer, r *lib.Rng, tier string) {
	n := 300
	if tier == "thorough" {
		n = 3000
	}
	for i := 0; i < n; i++ {
		cs := make([][]byte, r.Intn(10))
		long := false
		for j := range cs {
			l := 124
			switch r.Intn(4) {
			case 0:
				l = lib.Pick(r, 0, 1, 895, 896, 897, 900, 928, 929, 1000, 2000)
			case 1:
				l = int(r.Range(880, 910))
			}
			long = long || l > 896
			cs[j] = r.Bytes(l)
		}
		tags := "store"
		if long {
			tags += ",nt,too-long"
		}
		runStore(w, cs, tags)
	}
}

// ---- c11.srv: authenticated requests of any shape sent to the real listener ----

// args: [nCookieFields nPlaceholders placeholderLen uidLen transport(0 IP, 1 SCION) age1h age2h]:
// the cookies are made, the provider is aged by age1 hours, asked for its current key (rotation),
// aged by age2 hours, then the request is sent
func (e *env) runSrv(args string) (tags, a, outs string) {
	t := strings.Fields(strings.NewReplacer("[", " ", "]", " ").Replace(args))
	nc, np, pl, ul := int(lib.ParseI(t[0])), int(lib.ParseI(t[1])), int(lib.ParseI(t[2])), int(lib.ParseI(t[3]))
	c2s, s2c := make([]byte, 32), make([]byte, 32)
	uid := make([]byte, ul)
	crand(c2s)
	crand(s2c)
	crand(uid)
	// cookies made the way the NTS-KE server makes them
	sc := ntske.ServerCookie{Algo: ntske.AES_SIV_CMAC_256, S2C: s2c, C2S: c2s}
	key := e.provider.Current()
	e.noteCurrent()
	var pkt nts.Packet
	pkt.UniqueID.ID = uid
	for i := 0; i < nc; i++ {
		ec, err := sc.EncryptWithNonce(key.Value, key.ID)
		if err != nil {
			fatal("EncryptWithNonce: %v", err)
		}
		pkt.Cookies = append(pkt.Cookies, nts.Cookie{Cookie: ec.Encode()})
	}
	for i := 0; i < np; i++ {
		pkt.CookiePlaceholders = append(pkt.CookiePlaceholders, nts.CookiePlaceholder{Cookie: make([]byte, pl)})
	}
	pkt.Auth.Key = c2s
	req := make([]byte, ntp.PacketLen)
	req[0] = 4<<3 | 3
	crand(req[40:48])
	encoded := false
	func() {
		defer func() { recover() }()
		nts.EncodePacket(&req, &pkt)
		encoded = true
	}()
	tags = "srv"
	a = args
	if encoded {
		// the encoder cuts silently at the end of its buffer: is this a complete request?
		encoded = false
		if pos, n, c, ok := authParts(req); ok {
			_, encoded = sivOpen(c2s, n, c, req[:pos])
		}
	}
	if !encoded || len(req) > nts.MaxPacketLen {
		return tags + ",unencodable", a, lib.L(lib.I(0))
	}
	var o stepObs
	o.req = req
	warm := int64(-1)
	if len(t) > 6 && (t[5] != "0" || t[6] != "0") {
		// the same request while its cookie's key is the current one: the listener must answer
		// (and has then seen that key before it grows old)
		if len(t) > 4 && t[4] == "1" {
			warm = int64(len(e.toServerSCION(req)))
		} else {
			warm = int64(len(e.toServer(req)))
		}
	}
	if len(t) > 6 {
		if h := lib.ParseI(t[5]); h != 0 {
			d := time.Duration(h) * time.Hour
			e.provider.VerifAge(d)
			e.aged += d
			e.noteCurrent()
			tags += ",aged"
		}
		if h := lib.ParseI(t[6]); h != 0 {
			d := time.Duration(h) * time.Hour
			e.provider.VerifAge(d)
			e.aged += d
			tags += ",aged"
		}
	}
	o.openable = e.shouldOpen(pkt.Cookies[0].Cookie)
	if !o.openable {
		tags += ",nt,expired-key"
	}
	if len(t) > 4 && t[4] == "1" {
		o.replies = e.toServerSCION(req)
		tags += ",scion"
	} else {
		o.replies = e.toServer(req)
		tags += ",ip"
	}
	var seenBefore [][]byte
	if len(o.replies) > 0 {
		var bs [][]byte
		o.repAuthOK, o.repNonce, o.repCT, o.repPlain, o.repCookies, bs = e.replyFacts(o.replies[0], s2c)
		seenBefore = e.noteIssued(bs)
	}
	rep := lib.B(nil)
	if len(o.replies) > 0 {
		rep = lib.B(o.replies[0])
	}
	if nc+np > 7 {
		tags += ",nt,more-than-fit"
	} else if nc+np > 1 {
		tags += ",nt"
	}
	return tags, a, lib.L(lib.I(1), lib.B(req), lib.I(int64(len(o.replies))), rep, lib.B(o.repNonce), lib.B(o.repCT),
		lib.Bool(o.repAuthOK), lib.B(o.repPlain), lib.L(o.repCookies...), lib.B(c2s), lib.B(s2c), lib.I(e.noteCurrent()), lib.Bool(o.openable), lib.I(warm), bl(seenBefore))
}

func genSrv(r *lib.Rng, tier string) (js []job) {
	n := 200
	if tier == "thorough" {
		n = 2000
	}
	addAged := func(nc, np, pl, ul, a1, a2 int) {
		for tr := 0; tr <= 1; tr++ {
			js = append(js, job{"c11.srv", lib.L(lib.I(int64(nc)), lib.I(int64(np)), lib.I(int64(pl)), lib.I(int64(ul)), lib.I(int64(tr)), lib.I(int64(a1)), lib.I(int64(a2)))})
		}
	}
	add := func(nc, np, pl, ul int) { addAged(nc, np, pl, ul, 0, 0) }
	// cookies under keys that have been rotated out but are still valid, and under expired keys
	for _, a := range [][2]int{{25, 0}, {0, 47}, {25, 25}, {25, 46}, {71, 0}, {0, 73}, {25, 48}, {49, 25}, {73, 0}, {100, 100}, {30, 30}} {
		addAged(1, 0, 124, 32, a[0], a[1])
		addAged(1, 3, 124, 32, a[0], a[1])
	}
	// what this project's client sends, and more placeholders than fit (short ones)
	for np := 0; np <= 12; np++ {
		add(1, np, 124, 32)
		add(1, np, 0, 32)
	}
	for i := 0; i < n; i++ {
		nc := lib.Pick(r, 1, 1, 1, 1, 2, 3)
		np := int(r.Range(0, 9))
		if r.Intn(5) == 0 {
			np = int(r.Range(0, 40))
		}
		pl := lib.Pick(r, 0, 0, 4, 16, 124, 124, 124, 128)
		ul := lib.Pick(r, 32, 32, 32, 33, 36, 64, 100, 160, 164)
		if r.Intn(4) == 0 {
			addAged(nc, np, pl, ul, lib.Pick(r, 0, 1, 25, 30, 49, 73), lib.Pick(r, 0, 23, 25, 47, 50, 80))
		} else {
			add(nc, np, pl, ul)
		}
	}
	return js
}

// histories of the SCION client (packet authentication and NTS both enabled): the shapes of the
// IP client; actions on the NTS payload alone become lost replies there
func genSCIONHistories(r *lib.Rng, tier string) (scripts [][]step) {
	n := 60
	if tier == "thorough" {
		n = 600
	}
	// loss-free runs of 10 and more exchanges; every number of consecutive losses
	for i := 0; i < 3; i++ {
		var s []step
		for j := int(r.Range(10, 14)); j > 0; j-- {
			s = append(s, step{action: actDeliver})
		}
		scripts = append(scripts, s)
	}
	for k := 1; k <= 9; k++ {
		s := []step{{action: actDeliver}}
		for i := 0; i < k; i++ {
			s = append(s, step{action: lib.Pick(r, actDropReq, actDropReply)})
		}
		s = append(s, step{action: actDeliver}, step{action: actDeliver}, step{action: actDeliver})
		scripts = append(scripts, s)
	}
	for i := 0; i < n; i++ {
		scripts = append(scripts, genScript(r, lib.Pick(r, 0, 0, 1, 1, 2, 3, 3, 4, 5, 8, 9, 10, 10, 11, 12, 14, 14, 15, 15, 16)))
	}
	return scripts
}

// ---- c11.conc: overlapping calls on one fetcher (Fetcher.FetchData from several goroutines) ----

// args: [rounds goroutines]
func (e *env) runConc(args string) (tags, a, outs string) {
	t := strings.Fields(strings.NewReplacer("[", " ", "]", " ").Replace(args))
	rounds, gs := int(lib.ParseI(t[0])), int(lib.ParseI(t[1]))
	x := e.newClient(false)
	ctx := context.Background()
	if _, err := x.fetcher.FetchData(ctx); err != nil { // the key exchange
		fatal("key exchange: %v", err)
	}
	// cookies are written as 4-byte numbers (in order of first appearance): the records stay small
	ids := map[string]uint32{}
	idl := func(cs [][]byte) string {
		it := make([]string, len(cs))
		for i, c := range cs {
			n, ok := ids[string(c)]
			if !ok {
				n = uint32(len(ids) + 1)
				ids[string(c)] = n
			}
			if c == nil {
				n = 0
			}
			it[i] = lib.B([]byte{byte(n >> 24), byte(n >> 16), byte(n >> 8), byte(n)})
		}
		return lib.L(it...)
	}
	var rs []string
	for r := 0; r < rounds; r++ {
		for len(x.fetcher.VerifData().Cookie) < 8 { // a full pool
			c := make([]byte, 124)
			crand(c)
			x.fetcher.StoreCookie(c)
		}
		before := x.fetcher.VerifData().Cookie
		heads := make([][]byte, gs)
		var ready atomic.Int32
		var wg sync.WaitGroup
		for i := 0; i < gs; i++ {
			wg.Add(1)
			go func(i int) {
				defer wg.Done()
				ready.Add(1)
				for int(ready.Load()) < gs { // all calls start together
				}
				d, err := x.fetcher.FetchData(ctx)
				if err == nil && len(d.Cookie) > 0 {
					heads[i] = d.Cookie[0]
				}
			}(i)
		}
		wg.Wait()
		after := x.fetcher.VerifData().Cookie
		rs = append(rs, lib.L(idl(before), idl(heads), idl(after)))
	}
	return "conc,nt", args, lib.L(rs...)
}

// ---- c11.ilv: the IP client in interleaved mode: up to three exchanges per call, each with its own cookie ----

// args: [a1 a2 ...] one number per call: 0 every reply passes, 1 the reply to the call's first request is lost,
// 2 the reply to its second request is lost, 3 its first request is lost
func (e *env) runIlv(args string) (tags, a, outs string) {
	t := strings.Fields(strings.NewReplacer("[", " ", "]", " ").Replace(args))
	x := e.newClient(false)
	x.c.InterleavedMode = true
	var calls []string
	maxReq := 0
	for _, at := range t {
		act := int(lib.ParseI(at))
		ctx, cancel := context.WithTimeout(context.Background(), waitLong)
		done := make(chan error, 1)
		go func() {
			_, _, err := client.MeasureClockOffsetIP(ctx, e.log, x.c, x.local, x.remote)
			done <- err
		}()
		var reqs [][]byte
		buf := make([]byte, 4096)
		var cerr error
		for finished := false; !finished; {
			x.sock.SetReadDeadline(time.Now().Add(20 * time.Millisecond))
			n, caddr, err := x.sock.ReadFromUDP(buf)
			if err != nil {
				select {
				case cerr = <-done:
					finished = true
				default:
				}
				continue
			}
			req := append([]byte(nil), buf[:n]...)
			reqs = append(reqs, req)
			k := len(reqs)
			lostReq := act == 3 && k == 1
			lostReply := (act == 1 && k == 1) || (act == 2 && k == 2)
			if !lostReq {
				rs := e.toServer(req)
				if len(rs) > 0 {
					e.noteCurrent()
					if !lostReply {
						x.sock.WriteToUDP(rs[0], caddr)
					}
				}
			}
			x.sock.WriteToUDP(junk(), caddr)
			x.sock.WriteToUDP(junk(), caddr)
		}
		cancel()
		if len(reqs) > maxReq {
			maxReq = len(reqs)
		}
		d := x.fetcher.VerifData()
		calls = append(calls, lib.L(bl(reqs), bl(d.Cookie), lib.Bool(cerr != nil)))
	}
	tags = fmt.Sprintf("ilv,nt,ilv-max%d", maxReq)
	return tags, args, lib.L(calls...)
}

func genIlv(r *lib.Rng, tier string) (js []job) {
	n := 12
	if tier == "thorough" {
		n = 120
	}
	for i := 0; i < n; i++ {
		var it []string
		for j := int(r.Range(4, 14)); j > 0; j-- {
			it = append(it, lib.I(int64(lib.Pick(r, 0, 0, 0, 1, 2, 2, 3))))
		}
		js = append(js, job{"c11.ilv", lib.L(it...)})
	}
	return js
}

// ---- c11.conck: two calls overlap on a fetcher whose pool is empty while the key exchange takes its time ----

// args: [cut]: where in the server's stream the first key exchange is held back
func (e *env) runConcKe(args string) (tags, a, outs string) {
	t := strings.Fields(strings.NewReplacer("[", " ", "]", " ").Replace(args))
	x := e.newClient(false)
	fr := x.front
	fr.release = make(chan struct{})
	fr.arg.Store(lib.ParseI(t[0]))
	conns0 := fr.conns.Load()
	fr.mode.Store(9)
	ctx := context.Background()
	type res struct {
		d   ntske.Data
		err error
	}
	ra, rb := make(chan res, 1), make(chan res, 1)
	go func() {
		d, err := x.fetcher.FetchData(ctx)
		ra <- res{d, err}
	}()
	// the first call is inside its key exchange
	for i := 0; fr.conns.Load() == conns0; i++ {
		if i > int(waitLong/time.Millisecond) {
			fatal("first key exchange did not start")
		}
		time.Sleep(time.Millisecond)
	}
	go func() {
		d, err := x.fetcher.FetchData(ctx)
		rb <- res{d, err}
	}()
	// the second call either waits for the first one (and cannot return), or - if nothing makes it
	// wait - runs a key exchange of its own and returns; give it time for that, then let the first go on
	var b res
	bDone := false
	select {
	case b = <-rb:
		bDone = true
	case <-time.After(500 * time.Millisecond):
	}
	close(fr.release)
	var ar res
	select {
	case ar = <-ra:
	case <-time.After(2 * waitLong):
		fatal("FetchData did not return")
	}
	if !bDone {
		select {
		case b = <-rb:
		case <-time.After(2 * waitLong):
			fatal("FetchData did not return")
		}
	}
	fr.mode.Store(0)
	head := func(r res) []byte {
		if r.err != nil || len(r.d.Cookie) == 0 {
			return nil
		}
		return r.d.Cookie[0]
	}
	d := x.fetcher.VerifData()
	facts := make([]string, len(d.Cookie))
	for i, c := range d.Cookie {
		facts[i], _ = e.cookieFacts(c)
	}
	tags = "conck,nt"
	if bDone {
		tags += ",second-call-overtook"
	}
	return tags, args, lib.L(lib.I(x.ke.Load()), bl([][]byte{head(ar), head(b)}), lib.Bool(ar.err != nil), lib.Bool(b.err != nil),
		lib.L(facts...), lib.B(d.C2sKey), lib.B(d.S2cKey), lib.B(ar.d.C2sKey), lib.B(b.d.C2sKey))
}
