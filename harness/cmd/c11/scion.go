package main

// The SCION listener (core/server/server_scion.go) has its own copy of the
// cookie replenishment: c11.srv requests are also sent to it, wrapped in a
// SCION/UDP packet with an empty (intra-AS) path.

import (
	"net"
	"time"

	"github.com/google/gopacket"
	"github.com/scionproto/scion/pkg/addr"
	"github.com/scionproto/scion/pkg/slayers"
	"github.com/scionproto/scion/pkg/slayers/path/empty"

	"example.com/scion-time/net/ntp"
)

const scionPort = 23123

func wrapSCION(payload []byte, srcPort uint16) []byte {
	var scn slayers.SCION
	scn.FlowID = 1
	scn.NextHdr = slayers.L4UDP
	scn.PathType = empty.PathType
	scn.Path = empty.Path{}
	scn.DstIA, scn.SrcIA = addr.IA(0x0001ff0000000112), addr.IA(0x0001ff0000000112)
	scn.DstAddrType, scn.SrcAddrType = slayers.T4Ip, slayers.T4Ip
	scn.RawDstAddr, scn.RawSrcAddr = []byte{10, 9, 8, 7}, []byte{10, 1, 2, 3}
	var udp slayers.UDP
	udp.SrcPort, udp.DstPort = srcPort, scionPort
	udp.SetNetworkLayerForChecksum(&scn)
	sb := gopacket.NewSerializeBuffer()
	err := gopacket.SerializeLayers(sb, gopacket.SerializeOptions{ComputeChecksums: true, FixLengths: true},
		&scn, &udp, gopacket.Payload(payload))
	if err != nil {
		fatal("SCION serialisation: %v", err)
	}
	return append([]byte(nil), sb.Bytes()...)
}

func unwrapSCION(b []byte) (payload []byte, ok bool) {
	defer func() {
		if recover() != nil {
			ok = false
		}
	}()
	var (
		scn slayers.SCION
		hbh slayers.HopByHopExtnSkipper
		e2e slayers.EndToEndExtn
		udp slayers.UDP
	)
	// with or without extension headers (packet authenticator, timestamp options)
	parser := gopacket.NewDecodingLayerParser(slayers.LayerTypeSCION, &scn, &hbh, &e2e, &udp)
	parser.IgnoreUnsupported = true
	decoded := make([]gopacket.LayerType, 4)
	if err := parser.DecodeLayers(b, &decoded); err != nil {
		return nil, false
	}
	if len(decoded) < 2 || decoded[len(decoded)-1] != slayers.LayerTypeSCIONUDP {
		return nil, false
	}
	return udp.Payload, true
}

// toServerSCION: as toServer, through the SCION listener.
func (e *env) toServerSCION(req []byte) (replies [][]byte) {
	dst := &net.UDPAddr{IP: e.ip, Port: scionPort}
	if _, err := e.up.WriteToUDP(wrapSCION(req, 40123), dst); err != nil {
		fatal("relay write: %v", err)
	}
	s := e.sentinel()
	if _, err := e.up.WriteToUDP(wrapSCION(s, 40123), dst); err != nil {
		fatal("relay write: %v", err)
	}
	buf := make([]byte, 4096)
	e.up.SetReadDeadline(time.Now().Add(waitLong))
	for {
		n, _, err := e.up.ReadFromUDP(buf)
		if err != nil {
			fatal("SCION listener did not answer the sentinel request: %v", err)
		}
		b, ok := unwrapSCION(append([]byte(nil), buf[:n]...))
		if !ok {
			continue
		}
		if len(b) == ntp.PacketLen && string(b[24:32]) == string(s[40:48]) {
			return replies
		}
		if len(b) > ntp.PacketLen {
			replies = append(replies, b)
		}
	}
}

// toServerSCIONRaw forwards a SCION datagram of a client unchanged to the real
// SCION listener and returns the datagrams that come back before the reply to a
// plain NTP request sent right after it, together with their NTP/NTS payloads.
func (e *env) toServerSCIONRaw(raw []byte) (raws, payloads [][]byte) {
	dst := &net.UDPAddr{IP: e.ip, Port: scionPort}
	if _, err := e.up.WriteToUDP(raw, dst); err != nil {
		fatal("relay write: %v", err)
	}
	s := e.sentinel()
	if _, err := e.up.WriteToUDP(wrapSCION(s, 40123), dst); err != nil {
		fatal("relay write: %v", err)
	}
	buf := make([]byte, 4096)
	e.up.SetReadDeadline(time.Now().Add(waitLong))
	for {
		n, _, err := e.up.ReadFromUDP(buf)
		if err != nil {
			fatal("SCION listener did not answer the sentinel request: %v", err)
		}
		d := append([]byte(nil), buf[:n]...)
		b, ok := unwrapSCION(d)
		if !ok {
			continue
		}
		if len(b) == ntp.PacketLen && string(b[24:32]) == string(s[40:48]) {
			return raws, payloads
		}
		if len(b) > ntp.PacketLen {
			raws = append(raws, d)
			payloads = append(payloads, b)
		}
	}
}

// replySCION wraps a payload into a SCION/UDP packet that answers the given request datagram:
// addresses and ports swapped, empty path, no extension headers (so no packet authenticator).
func replySCION(payload, rawReq []byte) []byte { return rewrapSCION(payload, rawReq, true) }

// rewrapSCION: payload in a SCION/UDP packet with the addresses and ports of raw (swapped: as its answer), empty path,
// no extension headers.
func rewrapSCION(payload, rawReq []byte, swap bool) []byte {
	var (
		scn slayers.SCION
		hbh slayers.HopByHopExtnSkipper
		e2e slayers.EndToEndExtn
		udp slayers.UDP
	)
	parser := gopacket.NewDecodingLayerParser(slayers.LayerTypeSCION, &scn, &hbh, &e2e, &udp)
	parser.IgnoreUnsupported = true
	decoded := make([]gopacket.LayerType, 4)
	if err := parser.DecodeLayers(rawReq, &decoded); err != nil {
		fatal("request is not a SCION packet: %v", err)
	}
	var out slayers.SCION
	out.FlowID = 1
	out.NextHdr = slayers.L4UDP
	out.PathType = empty.PathType
	out.Path = empty.Path{}
	out.DstIA, out.SrcIA = scn.SrcIA, scn.DstIA
	out.DstAddrType, out.SrcAddrType = scn.SrcAddrType, scn.DstAddrType
	out.RawDstAddr, out.RawSrcAddr = scn.RawSrcAddr, scn.RawDstAddr
	var u slayers.UDP
	u.SrcPort, u.DstPort = udp.DstPort, udp.SrcPort
	if !swap {
		out.DstIA, out.SrcIA = scn.DstIA, scn.SrcIA
		out.DstAddrType, out.SrcAddrType = scn.DstAddrType, scn.SrcAddrType
		out.RawDstAddr, out.RawSrcAddr = scn.RawDstAddr, scn.RawSrcAddr
		u.SrcPort, u.DstPort = udp.SrcPort, udp.DstPort
	}
	u.SetNetworkLayerForChecksum(&out)
	sb := gopacket.NewSerializeBuffer()
	err := gopacket.SerializeLayers(sb, gopacket.SerializeOptions{ComputeChecksums: true, FixLengths: true},
		&out, &u, gopacket.Payload(payload))
	if err != nil {
		fatal("SCION serialisation: %v", err)
	}
	return append([]byte(nil), sb.Bytes()...)
}
