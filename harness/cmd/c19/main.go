// C19: the real adjustments.Pll driven through a scripted fake
// timebase.SystemClock that records the Step/Adjust calls it receives.
//
// One case = one history of updates on a fresh Pll.  Per update the case
// records the clock reading (Unix nanoseconds), the epoch the clock reports,
// the offset and weight passed to Do, and -- as the answer of the math.Pow
// oracle -- the harness' own dt (reading minus the reading of the previous
// update that returned normally, as Duration.Seconds) with Go's
// math.Pow(0.999, dt).  The observation is the list of calls received by the
// clock during that Do ([1 off] Step, [2 off dur freqbits] Adjust, [9] panic).
package main

import (
	"fmt"
	"io"
	"log/slog"
	"math"
	"math/big"
	"strings"
	"time"

	"example.com/scion-time/base/timebase"
	"example.com/scion-time/core/sync/adjustments"

	"verifharness/lib"
)

var w *lib.Writer

const second = int64(1000000000)

type fakeClock struct {
	now   time.Time
	epoch uint64
	evs   []string
}

var _ timebase.SystemClock = (*fakeClock)(nil)

func (c *fakeClock) Epoch() uint64                     { return c.epoch }
func (c *fakeClock) Now() time.Time                    { return c.now }
func (c *fakeClock) Drift(time.Duration) time.Duration { return 0 }
func (c *fakeClock) Sleep(time.Duration)               {}
func (c *fakeClock) Step(offset time.Duration) {
	c.evs = append(c.evs, lib.L("1", lib.I(int64(offset))))
	c.epoch++ // as the real driver: a step starts a new clock epoch, visible to the caller at once
}
func (c *fakeClock) Adjust(offset, duration time.Duration, frequency float64) {
	c.evs = append(c.evs, lib.L("2", lib.I(int64(offset)), lib.I(int64(duration)), lib.U(fbits(frequency))))
}

func fbits(f float64) uint64 {
	if math.IsNaN(f) {
		return 0x7ff8000000000000
	}
	return math.Float64bits(f)
}

// a clock reading: seconds and nanoseconds since the Unix epoch
type reading struct{ sec, nsec int64 }

func (r reading) time() time.Time { return time.Unix(r.sec, r.nsec) }
func (r reading) big() *big.Int {
	b := new(big.Int).Mul(big.NewInt(r.sec), big.NewInt(second))
	return b.Add(b, big.NewInt(r.nsec))
}
func (r reading) add(ns int64) reading {
	s := r.sec + ns/second
	n := r.nsec + ns%second
	if n >= second {
		n -= second
		s++
	}
	if n < 0 {
		n += second
		s--
	}
	return reading{s, n}
}
func readingOfBig(b *big.Int) reading {
	q, m := new(big.Int).DivMod(b, big.NewInt(second), new(big.Int))
	return reading{q.Int64(), m.Int64()}
}

type update struct {
	now    reading
	epoch  uint64
	off    int64
	weight uint64 // bits
}

var nolog = slog.New(slog.NewTextHandler(io.Discard, nil))

// session drives one real Pll
type session struct {
	clk         *fakeClock
	pll         *adjustments.Pll
	prev        time.Time // reading of the last Do that returned normally
	havePrev    bool
	args        []string
	outs        []string
	tags        map[string]bool
	nEv         int
	lastStep    bool // the last Do called Step
	lastStepOff int64
	lastPanic   bool
	kind        string // case kind, "pll.history" unless set
}

func newSession() *session {
	c := &fakeClock{}
	return &session{clk: c, pll: adjustments.NewPLL(nolog, c), tags: map[string]bool{}}
}

func (s *session) do(u update) {
	s.clk.now = u.now.time()
	s.clk.epoch = u.epoch
	s.clk.evs = nil
	var dt float64
	if s.havePrev {
		dt = s.clk.now.Sub(s.prev).Seconds()
	}
	pw := math.Pow(0.999, dt)
	panicked := false
	func() {
		defer func() {
			if recover() != nil {
				panicked = true
			}
		}()
		s.pll.Do(time.Duration(u.off), math.Float64frombits(u.weight))
	}()
	evs := s.clk.evs
	s.lastStep = false
	for _, e := range evs {
		if strings.HasPrefix(e, "[1 ") {
			s.tags["step"] = true
			s.lastStep = true
			s.lastStepOff = lib.ParseI(strings.TrimSuffix(strings.TrimPrefix(e, "[1 "), "]"))
		} else {
			s.tags["adjust"] = true
		}
		s.nEv++
	}
	if panicked {
		evs = append(evs, lib.L("9"))
		s.tags["panic"] = true
	} else {
		s.prev = s.clk.now
		s.havePrev = true
	}
	s.lastPanic = panicked
	s.args = append(s.args, lib.V(lib.Big(u.now.big()), lib.U(u.epoch), lib.I(u.off), lib.U(u.weight), lib.U(fbits(dt)), lib.U(fbits(pw))))
	s.outs = append(s.outs, lib.L(evs...))
}

func (s *session) emit(extra ...string) {
	for _, t := range extra {
		if t != "" {
			s.tags[t] = true
		}
	}
	if s.nEv > 0 && len(s.args) >= 4 {
		s.tags["nt"] = true
	}
	var ts []string
	for _, t := range []string{"nt", "step", "adjust", "panic", "epochchg", "nonmono", "biggap", "minint", "pow", "clampgap", "zerodt", "boundary", "restart", "long", "extreme", "large", "hours", "days", "ns1", "clampedge", "jump", "backjump", "len600", "len5000", "midgap"} {
		if s.tags[t] {
			ts = append(ts, t)
		}
	}
	kind := s.kind
	if kind == "" {
		kind = "pll.history"
	}
	w.Case(kind, strings.Join(ts, ","), lib.V(s.args...), lib.V(s.outs...))
}

func wbits(f float64) uint64 { return math.Float64bits(f) }

func genWeight(r *lib.Rng, class int) uint64 {
	// class 0: any; 1: above 3 (lets the step phase pass); 2: >= 150 (stored gains); 3: low
	switch class {
	case 1:
		return wbits(lib.Pick(r, 3.0000000000000004, 3.5, 10, 49.999, 50, 100, 149.99, 150, 151, 1000, 1e9, math.Inf(1), 4, 20, 75))
	case 2:
		return wbits(lib.Pick(r, 150, 150.00000000000003, 151, 200, 1000, 1e9, math.Inf(1), math.NaN(), 300))
	case 3:
		return wbits(lib.Pick(r, 0, 1, 2.9999999999999996, 3, -1, math.Inf(-1), math.Copysign(0, -1), 2, 1e-300))
	}
	switch r.Intn(10) {
	case 0:
		return wbits(lib.Pick(r, 3, 3.0000000000000004, 2.9999999999999996, 50, 49.99999999999999, 150, 149.99999999999997, 0))
	case 1:
		return wbits(lib.Pick(r, math.NaN(), math.Inf(1), math.Inf(-1), -5, math.Copysign(0, -1)))
	case 2:
		return r.U64() // any bit pattern
	case 3, 4:
		return genWeight(r, 2)
	case 5:
		return genWeight(r, 3)
	default:
		return wbits(float64(r.Range(1, 400)) + float64(r.Intn(4))*0.25)
	}
}

func genOffset(r *lib.Rng) int64 {
	switch r.Intn(12) {
	case 0:
		return lib.Pick(r, int64(1000000), -1000000, 1000001, -1000001, 999999, -999999, 0, 1, -1)
	case 1:
		return lib.Pick(r, int64(math.MinInt64), math.MaxInt64, math.MinInt64+1, math.MaxInt64-1, 1<<62, -(1 << 62))
	case 2:
		return r.Range(-2000000, 2000000) // around the 1 ms threshold
	case 3:
		return r.Range(-500000, 500000) * 1000 // up to 0.5 s
	case 4:
		return r.Range(-100, 100) * second // seconds: saturates the slew limit
	case 5:
		return r.I64()
	case 6:
		return r.Range(-50000, 50000) // tens of microseconds: typical tracking
	case 7:
		return r.Range(15000000, 40000000) * lib.Pick(r, int64(1), -1) // near the clamp for 1..2 s gaps at low gains
	default:
		return r.Range(-30000000, 30000000)
	}
}

// gaps between updates in tracking
func genGap(r *lib.Rng) int64 {
	switch r.Intn(13) {
	case 12:
		return r.Range(400, 3600)*second + lib.Pick(r, int64(0), 0, 1, -1, r.Range(0, second))
	case 0:
		return 0
	case 1:
		return lib.Pick(r, int64(1), 2, 999999999, 1000000001, 500000000)
	case 2, 3:
		return r.Range(0, 8) * second // exact whole seconds
	case 4:
		return r.Range(0, 8)*second + lib.Pick(r, int64(1), -1, 2, 1000)
	case 5:
		return r.Range(1, 64) * second
	case 6:
		return r.Range(0, 3*second)
	case 7:
		return r.Range(100, 400) * second
	case 8:
		return lib.Pick(r, int64(1), 2, 4, 8, 16, 32, 64)*second + r.Range(-2000000, 2000000)
	default:
		return r.Range(0, 20*second)
	}
}

func startReading(r *lib.Rng) reading {
	switch r.Intn(6) {
	case 0:
		return reading{0, 0}
	case 1:
		return reading{r.Range(-(1 << 36), 1<<36), r.Range(0, second-1)}
	case 2:
		return reading{lib.Pick(r, int64(-1), -62135596800, 1<<32, 2085978496, 253402300799), lib.Pick(r, int64(0), 999999999, 1)}
	default:
		return reading{r.Range(1600000000, 2000000000), r.Range(0, second-1)}
	}
}

func startEpoch(r *lib.Rng) uint64 {
	switch r.Intn(5) {
	case 0:
		return 0
	case 1:
		return lib.Pick(r, uint64(1), math.MaxUint64, math.MaxUint64-1, 1<<63)
	case 2:
		return r.U64()
	default:
		return uint64(r.Intn(5))
	}
}

// pick a gap relative to a threshold: at, just above, just below, well above, well below
func aroundThreshold(r *lib.Rng, elapsed, thr int64) int64 {
	rem := thr - elapsed
	var g int64
	switch r.Intn(7) {
	case 0:
		g = rem // exactly at the threshold: not yet
	case 1:
		g = rem + 1
	case 2:
		g = rem - 1
	case 3:
		g = rem + r.Range(2, 3*second)
	case 4:
		g = r.Range(0, second)
	case 5:
		g = rem + r.Range(1, 1000)
	default:
		g = rem + r.Range(1, 20*second)
	}
	if g < 0 {
		g = 0
	}
	return g
}

// history generates and runs one history.  phase is the generator's own guess
// of where the start-up sequence is; it only steers the choice of gaps,
// weights and offsets and is never compared with anything.
func history(r *lib.Rng, flavour int, n int) {
	s := newSession()
	now := startReading(r)
	epoch := startEpoch(r)
	realistic := r.Intn(4) != 0 // the clock bumps its epoch when stepped
	pEpoch := []int{0, 12, 30, 6, 0, 10, 8, 0}[flavour%8]
	phase := 0
	var t0 reading = now
	elapsed := func() int64 { // ns since the generator's t0 guess, clipped
		d := now.time().Sub(t0.time())
		return int64(d)
	}
	for k := 0; k < n; k++ {
		var gap int64
		wclass := 0
		off := genOffset(r)
		if k > 0 {
			switch phase {
			case 1:
				gap = aroundThreshold(r, elapsed(), 2*second)
				if r.Intn(4) != 0 {
					wclass = 1
				}
			case 2:
				gap = aroundThreshold(r, elapsed(), 6*second)
			default:
				gap = genGap(r)
				atCapture := false
				if gap > 400*second && gap < 3600*second {
					s.tags["midgap"] = true
				}
				if elapsed() <= 300*second && r.Intn(5) == 0 {
					// around captureTime (300 s after tracking began), with a weight that uses the stored gains
					gap = aroundThreshold(r, elapsed(), 300*second)
					wclass = 2
					atCapture = true
				}
				if !atCapture {
					switch flavour {
					case 4: // long tracking with the stiffening branch
						if r.Intn(3) != 0 {
							gap = r.Range(20, 200) * second
						}
						if r.Intn(5) != 0 {
							wclass = 2
						}
						if r.Intn(2) == 0 {
							off = r.Range(-200000, 200000)
						}
					case 7: // saturating offsets at whole-second gaps
						if r.Intn(2) == 0 {
							gap = r.Range(0, 5) * second
						}
						off = lib.Pick(r, int64(1), -1) * r.Range(second/50, 5*second)
					}
				}
			}
			// rare: very large gaps, and readings that go backwards
			switch {
			case flavour == 5 && r.Intn(6) == 0:
				// up to the last gap for which int64(ceil(dt)*1e9) does not wrap (beyond: kind pll.longgap)
				gap = lib.Pick(r, int64(4294967296)*second-1, 4294967296*second, 4294967295*second, 4294967295*second+1, 4294967296*second+1,
					9223372036*second, 9223372035*second+999999999, 9223372035*second+1, r.Range(1<<40, 9223372036*second), 1<<53, 1<<53+1, 5000000000*second)
				s.tags["biggap"] = true
			case flavour == 6 && r.Intn(5) == 0:
				gap = -lib.Pick(r, int64(1), second, r.Range(1, 10*second), r.Range(1, 400*second))
				s.tags["nonmono"] = true
			}
			now = now.add(gap)
			if now.sec > 1<<40 {
				now.sec = 1 << 40
			}
			if now.sec < -(1 << 40) {
				now.sec = -(1 << 40)
			}
		}
		if gap == 0 && k > 0 {
			s.tags["zerodt"] = true
		}
		// epoch: realistic bump after the controller's own step, external bumps
		bumped := false
		jump := int64(0)
		if s.lastStep && realistic {
			epoch++
			bumped = true
			if r.Intn(2) == 0 {
				jump = s.lastStepOff // the step moved the clock, backwards for a negative offset
			}
		}
		if pEpoch > 0 && r.Intn(100) < pEpoch && k > 0 {
			switch r.Intn(4) {
			case 0:
				epoch = r.U64()
			case 1:
				epoch--
			default:
				epoch++
			}
			bumped = true
			s.tags["epochchg"] = true
			if phase >= 1 {
				s.tags["restart"] = true
			}
			if r.Intn(3) == 0 {
				// somebody stepped the clock: the reading jumps, in either direction
				jump = lib.Pick(r, int64(1), -1) * lib.Pick(r, r.Range(1, 10*second), r.Range(1, 400*second), r.Range(second, 1<<55), math.MaxInt64)
			}
		}
		if bumped && jump != 0 {
			now = now.add(jump)
			if now.sec > 1<<40 {
				now.sec = 1 << 40
			}
			if now.sec < -(1 << 40) {
				now.sec = -(1 << 40)
			}
			s.tags["jump"] = true
			if jump < 0 {
				s.tags["backjump"] = true
			}
		}
		if off == math.MinInt64 {
			s.tags["minint"] = true
		}
		if off == math.MinInt64 || off == math.MaxInt64 || off == math.MinInt64+1 {
			s.tags["extreme"] = true
		}
		wb := genWeight(r, wclass)
		s.do(update{now, epoch, off, wb})
		// steer
		if s.lastPanic {
			continue
		}
		wv := math.Float64frombits(wb)
		switch {
		case bumped || phase == 0:
			phase = 1
			t0 = now
		case phase == 1:
			if elapsed() > 2*second && wv > 3 {
				phase = 2
				t0 = now
			}
		case phase == 2:
			if elapsed() > 6*second {
				phase = 3
				t0 = now
			}
		default:
			if elapsed() > 300*second && !(wv < 150) {
				s.tags["pow"] = true
			}
		}
	}
	if n > 40 {
		s.tags["long"] = true
	}
	if n >= 600 {
		s.tags["len600"] = true
	}
	if n >= 5000 {
		s.tags["len5000"] = true
	}
	s.emit()
}

// large-but-legal inputs: offsets of hours (at the initial step and while
// tracking), intervals of 1 ns and of days, offsets that put the slew exactly
// at / next to the 500 ppm clamp for the gain in force.  Own case kind so that
// the family has its own coverage floor.
func largeHistory(r *lib.Rng, n int) {
	s := newSession()
	s.kind = "pll.large"
	s.tags["large"] = true
	hour := 3600 * second
	day := 24 * hour
	now := reading{r.Range(1600000000, 2000000000), r.Range(0, second-1)}
	epoch := uint64(r.Intn(3))
	bigOff := func() int64 {
		s.tags["hours"] = true
		switch r.Intn(4) {
		case 0:
			return lib.Pick(r, int64(1), -1) * r.Range(1, 72) * hour
		case 1:
			return lib.Pick(r, int64(1), -1) * (r.Range(1, 72)*hour + r.Range(-second, second))
		case 2:
			return lib.Pick(r, int64(1), -1) * r.Range(60*second, 400*day)
		default:
			return lib.Pick(r, int64(1), -1) * lib.Pick(r, hour, 12*hour, day, 7*day, 365*day, 1<<53, 1<<53+1)
		}
	}
	// start-up: zero or more initial steps by hours (each restarts through the epoch), then into tracking
	steps := r.Intn(3)
	s.do(update{now, epoch, bigOff(), genWeight(r, 1)})
	for i := 0; i < steps; i++ {
		now = now.add(2*second + r.Range(1, 3*second))
		s.do(update{now, epoch, bigOff(), genWeight(r, 1)})
		if s.lastStep {
			epoch++
			now = now.add(r.Range(0, second))
			s.do(update{now, epoch, bigOff(), genWeight(r, 0)})
		}
	}
	now = now.add(2*second + r.Range(1, second))
	s.do(update{now, epoch, r.Range(-900000, 900000), genWeight(r, 1)}) // below 1 ms: no step, on to the PLL wait
	now = now.add(6*second + r.Range(1, second))
	s.do(update{now, epoch, bigOff(), genWeight(r, 0)})
	for k := 0; k < n; k++ {
		var gap int64
		switch r.Intn(8) {
		case 0:
			gap = 1
			s.tags["ns1"] = true
		case 1:
			gap = lib.Pick(r, int64(1), 2, 3, 999999999, second+1)
			s.tags["ns1"] = true
		case 2:
			gap = r.Range(1, 40) * day
			s.tags["days"] = true
		case 3:
			gap = r.Range(1, 40)*day + lib.Pick(r, int64(1), -1, 2, 500000000, -500000000)
			s.tags["days"] = true
		case 4:
			gap = r.Range(1, 48) * hour
		case 5:
			gap = r.Range(day, 400*day)
			s.tags["days"] = true
		default:
			gap = genGap(r)
		}
		now = now.add(gap)
		wb := genWeight(r, lib.Pick(r, 0, 0, 2, 3))
		var off int64
		switch r.Intn(4) {
		case 0, 1:
			off = bigOff()
		case 2:
			// the slew p = offset*a exactly at / next to d*500e-6 for the gain in force
			d := float64((gap + second - 1) / second)
			wv := math.Float64frombits(wb)
			a := 0.33
			if wv < 50 {
				a = 3e-2
			} else if wv < 150 {
				a = 6e-2
			}
			edge := d * 500e-6 / a * 1e9
			if edge < 9e18 {
				off = lib.Pick(r, int64(1), -1)*int64(edge) + r.Range(-3, 3)
				s.tags["clampedge"] = true
			} else {
				off = bigOff()
			}
		default:
			off = genOffset(r)
		}
		s.do(update{now, epoch, off, wb})
	}
	s.emit()
}

// histories whose last gap exceeds the int64 wrap (9223372036 s): the known
// finding adjust-negative-duration-292y.  Random start-up and tracking within
// the first 11 s, then the update at reading 9223372047 s of the finding.
func longgapHistory(r *lib.Rng) {
	s := newSession()
	s.kind = "pll.longgap"
	s.tags["biggap"] = true
	now := reading{0, r.Range(0, second/2)}
	ep := uint64(r.Intn(3))
	small := func() int64 { return r.Range(-900000, 900000) }
	s.do(update{now, ep, genOffset(r), genWeight(r, 0)})
	now = now.add(2*second + r.Range(1, second))
	s.do(update{now, ep, small(), genWeight(r, 1)})
	now = now.add(6*second + r.Range(1, second))
	s.do(update{now, ep, genOffset(r), genWeight(r, 0)})
	for k := r.Intn(4); k > 0; k-- {
		now = now.add(r.Range(0, 300000000))
		s.do(update{now, ep, genOffset(r), genWeight(r, 0)})
	}
	s.do(update{reading{9223372047, 0}, ep, genOffset(r), genWeight(r, 0)})
	s.emit("extreme")
}

// long stretches of the stiffening branch: weight 150..1000 on every update,
// constant spacing of 2.5 / 16 / 64 s (never a repeated reading), hundreds of
// updates: the stored gains are multiplied by math.Pow(0.999, dt) every time,
// the integrator accumulates, and the frequency handed to Adjust must stay finite.
func stiffenHistory(r *lib.Rng, spacing int64, n int) {
	s := newSession()
	s.kind = "pll.stiffen"
	s.tags["long"] = true
	s.tags["pow"] = true
	now := reading{r.Range(1600000000, 2000000000), r.Range(0, second-1)}
	ep := uint64(r.Intn(3))
	w := func() uint64 { return wbits(float64(r.Range(150, 1000)) + float64(r.Intn(4))*0.25) }
	off := func() int64 {
		o := lib.Pick(r, r.Range(1000, 50000), r.Range(50000, 900000), r.Range(1000000, 50000000), r.Range(second/10, 3*second))
		return lib.Pick(r, int64(1), -1) * o
	}
	s.do(update{now, ep, r.Range(-900000, 900000), w()})
	now = now.add(2*second + r.Range(1, second))
	s.do(update{now, ep, r.Range(-900000, 900000), w()}) // below 1 ms: no step
	now = now.add(6*second + r.Range(1, second))
	s.do(update{now, ep, off(), w()})
	jitter := r.Intn(2) == 0
	for k := 0; k < n; k++ {
		g := spacing
		if jitter {
			g += r.Range(-spacing/20, spacing/20)
		}
		now = now.add(g)
		s.do(update{now, ep, off(), w()})
	}
	if n >= 600 {
		s.tags["len600"] = true
	}
	s.emit()
}

// fixed histories that hit the clauses of the property directly
func scripted() {
	type st struct {
		gap    int64
		bump   bool
		off    int64
		weight float64
	}
	run := func(base reading, ep uint64, steps []st, tag string) {
		s := newSession()
		now := base
		for _, x := range steps {
			now = now.add(x.gap)
			if x.bump {
				ep++
			}
			s.do(update{now, ep, x.off, wbits(x.weight)})
		}
		s.emit(tag)
	}
	ms := int64(1000000)
	b := reading{1767225600, 0}
	// the full "never a negative or zero duration" clause, also beyond the 2^32 s of the theorem:
	// more than 9223372036 s between two tracking updates (time.Time.Sub saturates at 292 years)
	{
		s := newSession()
		s.kind = "pll.longgap"
		now := reading{0, 0}
		s.do(update{now, 0, 1000, wbits(10)})
		now = now.add(3 * second)
		s.do(update{now, 0, 1000, wbits(10)})
		now = now.add(7 * second)
		s.do(update{now, 0, 1000, wbits(10)})
		now = reading{9223372047, 0}
		s.do(update{now, 0, 1000, wbits(10)})
		s.emit("extreme")
	}
	// start-up, step by the offset, tracking with saturating offsets at whole-second gaps
	run(b, 0, []st{{0, false, 10 * ms, 10}, {second, false, 10 * ms, 10}, {2 * second, false, 10 * ms, 10}, {second, true, 0, 10},
		{3 * second, false, 0, 10}, {7 * second, false, 0, 10}, {3 * second / 2, false, second, 10}, {2 * second, false, -second, 10},
		{second, false, second, 10}, {0, false, second, 10}, {1, false, second, 10}, {0, false, -second, 10}}, "boundary")
	// epoch change while awaiting the step must restart the wait
	run(b, 5, []st{{0, false, 10 * ms, 10}, {second, false, 10 * ms, 10}, {2 * second, true, 10 * ms, 10}, {second, false, 10 * ms, 10},
		{second, false, 10 * ms, 10}, {second / 2, false, 10 * ms, 10}, {7 * second, false, 0, 10}, {second, false, ms, 10}}, "restart")
	// epoch change while awaiting the PLL and while tracking
	run(b, 1, []st{{0, false, 0, 10}, {3 * second, false, 0, 10}, {3 * second, true, 20 * ms, 10}, {second, false, 20 * ms, 10}, {2 * second, false, 20 * ms, 10},
		{7 * second, false, 0, 10}, {second, false, ms, 10}, {second, true, 5 * ms, 10}, {second, false, 5 * ms, 10}, {3 * second, false, 5 * ms, 10}}, "restart")
	// thresholds exactly: 2 s, weight 3, 1 ms, 6 s
	run(b, 0, []st{{0, false, 0, 10}, {2 * second, false, 10 * ms, 10}, {1, false, 10 * ms, 3}, {1, false, ms, 3.0000000000000004},
		{6 * second, false, 0, 1}, {1, false, 0, 1}, {second, false, 30 * ms, 10}, {2 * second, false, -30 * ms, 60}, {2 * second, false, 40 * ms, 200}}, "boundary")
	run(b, 0, []st{{0, false, 0, 10}, {2*second + 1, false, ms + 1, 4}, {6*second + 1, false, 0, 1}, {second, false, 30 * ms, 10}}, "boundary")
	run(b, 0, []st{{0, false, 0, 10}, {2*second + 1, false, -ms - 1, 4}, {6*second + 1, false, 0, 1}, {second, false, -30 * ms, 10}}, "boundary")
	// MinInt64 / MaxInt64 offsets at the step and in tracking
	run(b, 0, []st{{0, false, 0, 10}, {3 * second, false, math.MinInt64, 10}, {7 * second, false, 0, 10}, {second, false, math.MinInt64, 10},
		{second, false, math.MaxInt64, 10}, {second, false, math.MinInt64, 200}, {400 * second, false, math.MaxInt64, 200}, {2 * second, false, math.MinInt64 + 1, 200}}, "minint")
	run(b, 0, []st{{0, false, 0, 10}, {3 * second, false, math.MaxInt64, 10}, {7 * second, false, 0, 10}, {second, false, 1, 10}}, "extreme")
	// stiffening: weight >= 150 long after capture
	{
		steps := []st{{0, false, 0, 200}, {3 * second, false, 0, 200}, {7 * second, false, 0, 200}}
		for i := 0; i < 40; i++ {
			steps = append(steps, st{64 * second, false, int64(i%7-3) * 20000, 200})
		}
		run(b, 0, steps, "pow")
	}
}

func replay(c [3]string) {
	f := lib.Fields(c[2])
	s := newSession()
	s.kind = c[0] // pll.history, pll.longgap, pll.large: the same session, judged differently by the runner
	for i := 0; i+5 < len(f); i += 6 {
		b, ok := new(big.Int).SetString(f[i], 10)
		if !ok {
			panic("bad reading " + f[i])
		}
		u := update{readingOfBig(b), lib.ParseU(f[i+1]), lib.ParseI(f[i+2]), lib.ParseU(f[i+3])}
		s.do(u)
	}
	for _, t := range strings.Split(c[1], ",") {
		if t != "" && t != "nt" {
			s.tags[t] = true
		}
	}
	s.emit()
}

func main() {
	a := lib.ParseArgs()
	w = lib.NewWriter(a.Out)
	defer w.Close()
	if a.Replay != "" {
		if !pllSafe() {
			fmt.Println("NOTE pll.go imports golang.org/x/sys/unix or syscall: no history is run")
			sourceCheck()
			return
		}
		for _, c := range lib.ReplayLines(a.Replay) {
			if c[0] == "pll.epochsrc" {
				sourceCheck()
			} else if strings.HasPrefix(c[0], "pll.") {
				replay(c)
			}
		}
		return
	}
	if !sourceCheck() {
		// pll.go imports the kernel interface: running Pll.Do could move the machine's clock
		fmt.Println("NOTE pll.go imports golang.org/x/sys/unix or syscall: no history is run")
		return
	}
	r := lib.NewRng(a.Seed)
	n := 5000
	n600, n5000 := 4, 1
	if a.Tier == "thorough" {
		n = 60000
		n600, n5000 = 40, 8
	}
	scripted()
	for i := 0; i < 10; i++ {
		longgapHistory(r)
	}
	nst := 2
	if a.Tier == "thorough" {
		nst = 10
	}
	for i := 0; i < nst; i++ {
		stiffenHistory(r, 2500000000, 600+r.Intn(60))
		stiffenHistory(r, 16*second, 200+r.Intn(200))
		stiffenHistory(r, 64*second, 200+r.Intn(400))
	}
	// very long histories, every flavour in turn (the seed picks where the turn starts)
	for i := 0; i < n600; i++ {
		history(r, (int(a.Seed)+3*i)%8, 600+r.Intn(100))
	}
	for i := 0; i < n5000; i++ {
		history(r, (int(a.Seed)+7+i)%8, 5000+r.Intn(500))
	}
	for i := 0; i < n; i++ {
		flavour := i % 8
		ln := 6 + r.Intn(30)
		if i%51 == 0 {
			ln = 60 + r.Intn(200)
		}
		history(r, flavour, ln)
		if i%5 == 0 {
			largeHistory(r, 6+r.Intn(24))
		}
	}
}
