// Source check (go/ast) of what the fake clock and the safety of this harness
// rest on: in driver/clocks/sysclk_linux.go, SystemClock.Step increments the
// epoch exactly once and nothing else writes it; core/sync/adjustments/pll.go
// imports neither golang.org/x/sys/unix nor syscall (a Pll.Do that reached the
// kernel directly would shift the machine's clock from inside this harness,
// which runs as root).  Written for C19; does not depend on any other check.
package main

import (
	"fmt"
	"go/ast"
	"go/parser"
	"go/token"
	"os"
	"path/filepath"
	"strconv"

	"verifharness/lib"
)

func repoRoot() string {
	if r := os.Getenv("VERIF_REPO"); r != "" {
		return r
	}
	return "/repo"
}

func isEpochSel(e ast.Expr) bool {
	s, ok := e.(*ast.SelectorExpr)
	return ok && s.Sel.Name == "epoch"
}

// epochWrites counts statements that write a field named epoch below n:
// (increments by ++, every other write)
func epochWrites(n ast.Node) (incs, other int) {
	ast.Inspect(n, func(x ast.Node) bool {
		switch s := x.(type) {
		case *ast.IncDecStmt:
			if isEpochSel(s.X) {
				if s.Tok == token.INC {
					incs++
				} else {
					other++
				}
			}
		case *ast.AssignStmt:
			for _, l := range s.Lhs {
				if isEpochSel(l) {
					other++
				}
			}
		case *ast.UnaryExpr:
			if s.Op == token.AND && isEpochSel(s.X) {
				other++ // address taken: may be written through the pointer
			}
		}
		return true
	})
	return
}

// sourceCheck emits the pll.epochsrc case; it returns false when pll.go could
// reach the kernel directly, in which case no history must be run.
func sourceCheck() bool { return sourceFacts(true) }

// pllSafe is the import check alone (replay of single histories).
func pllSafe() bool { return sourceFacts(false) }

func sourceFacts(emit bool) bool {
	root := repoRoot()
	fset := token.NewFileSet()
	vals := make([]int, 10)
	drv := filepath.Join(root, "driver", "clocks", "sysclk_linux.go")
	f, err := parser.ParseFile(fset, drv, nil, 0)
	if err != nil {
		fmt.Println("NOTE pll.epochsrc: cannot parse " + drv + ": " + err.Error())
		for i := range vals {
			vals[i] = -1
		}
	} else {
		methods := map[string]int{"Adjust": 2, "Sleep": 3, "Now": 4, "Drift": 5}
		for _, d := range f.Decls {
			fd, ok := d.(*ast.FuncDecl)
			if !ok || fd.Body == nil {
				continue
			}
			isClk := false
			if fd.Recv != nil && len(fd.Recv.List) == 1 {
				if st, ok := fd.Recv.List[0].Type.(*ast.StarExpr); ok {
					if id, ok := st.X.(*ast.Ident); ok && id.Name == "SystemClock" {
						isClk = true
					}
				}
			}
			incs, other := epochWrites(fd.Body)
			switch {
			case isClk && fd.Name.Name == "Step":
				top := 0
				for _, st := range fd.Body.List { // unconditional, not in a loop or branch
					if s, ok := st.(*ast.IncDecStmt); ok && s.Tok == token.INC && isEpochSel(s.X) {
						top++
					}
				}
				vals[0] = top
				vals[1] = other + (incs - top)
			case isClk && methods[fd.Name.Name] != 0:
				vals[methods[fd.Name.Name]] = incs + other
				if fd.Name.Name == "Adjust" {
					// if duration < 0 { panic(...) }
					ast.Inspect(fd.Body, func(x ast.Node) bool {
						is, ok := x.(*ast.IfStmt)
						if !ok {
							return true
						}
						be, ok := is.Cond.(*ast.BinaryExpr)
						if !ok || be.Op != token.LSS {
							return true
						}
						id, ok1 := be.X.(*ast.Ident)
						lit, ok2 := be.Y.(*ast.BasicLit)
						if ok1 && ok2 && id.Name == "duration" && lit.Value == "0" {
							for _, st := range is.Body.List {
								if es, ok := st.(*ast.ExprStmt); ok {
									if ce, ok := es.X.(*ast.CallExpr); ok {
										if fn, ok := ce.Fun.(*ast.Ident); ok && fn.Name == "panic" {
											vals[9] = 1
										}
									}
								}
							}
						}
						return true
					})
				}
			default:
				vals[6] += incs + other
			}
		}
	}
	safe := true
	pl := filepath.Join(root, "core", "sync", "adjustments", "pll.go")
	pf, err := parser.ParseFile(fset, pl, nil, parser.ImportsOnly)
	if err != nil {
		fmt.Println("NOTE pll.epochsrc: cannot parse " + pl + ": " + err.Error())
		vals[7], vals[8] = -1, -1
		safe = false
	} else {
		for _, im := range pf.Imports {
			p, _ := strconv.Unquote(im.Path.Value)
			switch p {
			case "golang.org/x/sys/unix":
				vals[7] = 1
				safe = false
			case "syscall":
				vals[8] = 1
				safe = false
			}
		}
	}
	if !emit {
		return safe
	}
	out := make([]string, len(vals))
	for i, v := range vals {
		out[i] = lib.I(int64(v))
	}
	w.Case("pll.epochsrc", "nt", "", lib.V(out...))
	if vals[9] == 1 {
		fmt.Println("NOTE real driver: SystemClock.Adjust panics (\"invalid duration value\") on duration < 0, so the 292-year finding would crash the service; Step is the only writer of the epoch")
	}
	return safe
}
