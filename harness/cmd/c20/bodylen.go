package main

import (
	"verifharness/lib"
)

// ke.bodylen: messages in which a record of a fixed-size type (next protocol, algorithm, port) has
// a body whose length is not 2.  RFC 8915 frames every record by its length field; ReadData reads
// exactly two bytes of such a record whatever the length field says, so every later record
// boundary moves and records the peer sent - an error record, a second algorithm record - are
// never seen, or a cookie is seen that was never sent.  Same case format as ke.hist (on a QUIC
// Fetcher the first tag is quic); the oracle of this kind reads the stream by the framing.

func blRec(typ int, crit bool, body ...byte) rec { return rec{typ, crit, body} }

// blScripts: name, records.  Each one is accepted by the two-byte reader although the framed
// message holds an error record / names another algorithm / holds no cookie.
func blScripts(r *lib.Rng) map[string][]rec {
	ck := func() rec { return rec{5, false, r.Bytes(100 + 4*r.Intn(8))} }
	np := blRec(1, true, 0, 0)
	alg := blRec(4, true, 0, 15)
	eom := rec{0, true, nil}
	errRec := blRec(2, true, 0, 1) // bad request; its code doubles as a record type (next protocol)
	pad := rec{0x4000, false, nil} // unrecognised, not critical, empty: its header is read as a length and a body
	return map[string][]rec{
		// the reviewer's stream: algorithm record listing 15 and 1
		"aead4": {np, blRec(4, true, 0, 15, 0, 1), errRec, pad, ck(), eom},
		// the same shift after a next-protocol and after a port record of length 4
		"np4":   {blRec(1, true, 0, 0, 0, 1), errRec, pad, alg, ck(), eom},
		"port4": {np, alg, blRec(7, false, 0x10, 0x1b, 0, 1), errRec, pad, ck(), eom},
		// length 6: the extra bytes are the header of an unrecognised record that swallows the error record
		"aead6": {np, blRec(4, true, 0, 15, 0x40, 0, 0, 6), errRec, ck(), eom},
		"port6": {np, alg, blRec(7, false, 0x10, 0x1b, 0x40, 0, 0, 6), errRec, ck(), eom},
		// length 0: the two bytes read are the type of the next record, whose length field becomes a
		// server record that runs into the error record
		"port0": {np, alg, rec{7, false, nil}, blRec(0x4001, false, 0, 8, 'a', 'b', 'c', 'd'), errRec, pad, ck(), eom},
		// the shift hides a second algorithm record (17): the framed message selects 17
		"algo": {np, blRec(4, true, 0, 15, 0, 1), blRec(4, true, 0, 17), blRec(8, false, 1, 2, 3, 4, 5, 6), ck(), eom},
		// the shift makes a cookie out of an unrecognised record: the framed message holds no cookie
		"nocookie": {np, blRec(4, true, 0, 15, 0, 5), rec{16, false, r.Bytes(14)}, eom},
	}
}

var blNames = []string{"aead4", "np4", "port4", "aead6", "port6", "port0", "algo", "nocookie"}

func genBodyLen(r *lib.Rng, mk func() *hist) {
	for _, name := range blNames {
		h := mk()
		h.kind = "ke.bodylen"
		h.tags["bodylen"] = true
		h.tags["bl-"+name] = true
		sc := script{alpn: []string{"ntske/1"}, recs: blScripts(r)[name]}
		sc.cut = len(sc.full())
		sc.chunks = genChunks(r, sc.cut)
		h.step(sc)
		h.tags["nt"] = true
		h.finish()
	}
}
