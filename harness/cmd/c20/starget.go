package main

import (
	"bytes"
	"context"
	"crypto/tls"
	"log/slog"
	"net"
	"strconv"
	"time"

	"github.com/google/gopacket"
	"github.com/scionproto/scion/pkg/slayers"
	"github.com/scionproto/scion/pkg/snet"
	spath "github.com/scionproto/scion/pkg/snet/path"

	"example.com/scion-time/core/client"
	"example.com/scion-time/net/udp"

	"verifharness/lib"
)

// ke.starget: where does the NTP request of the real SCION client (client.MeasureClockOffsetSCION,
// NTS enabled, time server in the client's own AS, empty path) go after a key exchange?  Two places
// have to agree with what the exchange named: the underlay destination of the datagram (which UDP
// socket receives it) and the destination host and port of the SCION/UDP header inside.  The
// Fetcher does its exchanges over TLS against the scripted TLS peer (default port 123) or over
// QUIC against the scripted QUIC peer (default port 10123, the production configuration).

type shit struct {
	host string
	port int
	data []byte
}

type ssinks struct {
	conns   []*net.UDPConn
	port2   int // the "other" port an exchange can name
	cfgPort int // the port of the configured remote address / next hop of the configured path
	hits    chan shit
}

var theSSinks *ssinks

// sockets on both hosts at 10123, at port2 and at cfgPort; the sockets at 123 are those of ke.target
// (target.go), tapped while a ke.starget case runs
func newSSinks() *ssinks {
	s := &ssinks{hits: make(chan shit, 64)}
	free := func() (*net.UDPConn, int) {
		c, err := net.ListenUDP("udp", &net.UDPAddr{IP: addrA, Port: 0})
		if err != nil {
			panic(err)
		}
		return c, c.LocalAddr().(*net.UDPAddr).Port
	}
	var c2, c3 *net.UDPConn
	c2, s.port2 = free()
	c3, s.cfgPort = free()
	mk := func(ip net.IP, port int) *net.UDPConn {
		c, err := net.ListenUDP("udp", &net.UDPAddr{IP: ip, Port: port})
		if err != nil {
			panic(err)
		}
		return c
	}
	s.conns = []*net.UDPConn{c2, c3, mk(addrB, s.port2), mk(addrB, s.cfgPort),
		mk(addrA, 10123), mk(addrB, 10123)}
	for _, c := range s.conns {
		go func(c *net.UDPConn) {
			la := c.LocalAddr().(*net.UDPAddr)
			buf := make([]byte, 4096)
			for {
				n, from, err := c.ReadFromUDP(buf)
				if err != nil {
					return
				}
				s.hits <- shit{la.IP.String(), la.Port, append([]byte{}, buf[:n]...)}
				// two datagrams the client cannot use: it gives up at once instead of waiting
				c.WriteToUDP([]byte{1, 2, 3}, from)
				c.WriteToUDP([]byte{4, 5, 6}, from)
			}
		}(c)
	}
	return s
}

// parseSCIONUDP: destination host and port of the SCION/UDP header of a datagram, and its payload
func parseSCIONUDP(b []byte) (host string, port int, payload []byte, ok bool) {
	defer func() {
		if recover() != nil {
			ok = false
		}
	}()
	var (
		scn slayers.SCION
		hbh slayers.HopByHopExtnSkipper
		e2e slayers.EndToEndExtnSkipper
		u   slayers.UDP
	)
	parser := gopacket.NewDecodingLayerParser(slayers.LayerTypeSCION, &scn, &hbh, &e2e, &u)
	parser.IgnoreUnsupported = true
	decoded := make([]gopacket.LayerType, 4)
	if err := parser.DecodeLayers(b, &decoded); err != nil {
		return "", 0, nil, false
	}
	if len(decoded) < 2 || decoded[len(decoded)-1] != slayers.LayerTypeSCIONUDP {
		return "", 0, nil, false
	}
	dst, err := scn.DstAddr()
	if err != nil {
		return "", 0, nil, false
	}
	return dst.IP().String(), int(u.DstPort), u.Payload, true
}

var stQUIC *quicPeer

// runSTarget: one SCION client with NTS, a sequence of measurements; every measurement needs a
// new key exchange (one cookie is issued, no reply ever stores another one).  choices: pairs
// (server 0 none/1 A/2 B, port 0 none/1 the standard port named explicitly/2 port2/3 cfgPort).
func runSTarget(r *lib.Rng, quic bool, choices [][2]int) {
	registerClock()
	if theSinks == nil {
		theSinks = newSinks()
	}
	if theSSinks == nil {
		theSSinks = newSSinks()
	}
	s := theSSinks
	sinkTap = func(host string, port int, data []byte) { s.hits <- shit{host, port, data} }
	defer func() { sinkTap = nil }()
	if quic && stQUIC == nil {
		stQUIC = newQUICPeer(addrA)
	}
	log := slog.New(slog.DiscardHandler)
	c := &client.SCIONClient{Log: log}
	c.Auth.NTSEnabled = true
	f := &c.Auth.NTSKEFetcher
	f.Log = log
	f.TLSConfig = tls.Config{NextProtos: []string{"ntske/1"}, InsecureSkipVerify: true, ServerName: addrA.String(), MinVersion: tls.VersionTLS13}
	std := 123
	if quic {
		std = 10123
		f.QUIC.Enabled = true
		f.QUIC.LocalAddr = udp.UDPAddr{IA: quicIA, Host: &net.UDPAddr{IP: addrB}}
		f.QUIC.RemoteAddr = udp.UDPAddr{IA: quicIA, Host: &net.UDPAddr{IP: addrA, Port: stQUIC.port}}
	} else {
		f.Port = strconv.Itoa(peer.port())
	}
	var args, outs []string
	for _, ch := range choices {
		cookie := r.Bytes(100)
		recs := []rec{{1, true, u16(0)}, {4, true, u16(15)}}
		switch ch[0] {
		case 1:
			recs = append(recs, rec{6, false, []byte(addrA.String())})
		case 2:
			recs = append(recs, rec{6, false, []byte(addrB.String())})
		}
		switch ch[1] {
		case 1:
			recs = append(recs, rec{7, false, u16(std)})
		case 2:
			recs = append(recs, rec{7, false, u16(s.port2)})
		case 3:
			recs = append(recs, rec{7, false, u16(s.cfgPort)})
		}
		recs = append(recs, rec{5, false, cookie}, rec{0, true, nil})
		sc := script{alpn: []string{"ntske/1"}, recs: recs}
		sc.cut = len(sc.full())
		for len(s.hits) > 0 {
			<-s.hits
		}
		if quic {
			stQUIC.begin(&sc)
		} else {
			peer.begin(&sc)
		}
		// the configured time server: host A at cfgPort, reached over the empty path with that next hop
		la := udp.UDPAddr{IA: quicIA, Host: &net.UDPAddr{IP: addrB.To4()}}
		ra := udp.UDPAddr{IA: quicIA, Host: &net.UDPAddr{IP: addrA.To4(), Port: s.cfgPort}}
		ps := []snet.Path{spath.Path{Src: quicIA, Dst: quicIA, DataplanePath: spath.Empty{},
			NextHop: &net.UDPAddr{IP: addrA.To4(), Port: s.cfgPort}}}
		ctx, cancel := context.WithTimeout(context.Background(), 4*time.Second)
		_, _, _ = client.MeasureClockOffsetSCION(ctx, log, []*client.SCIONClient{c}, la, ra, ps)
		cancel()
		var conns int
		if quic {
			conns, _ = stQUIC.end()
		} else {
			conns, _ = peer.end()
		}
		uh, up, ih, ip, same := "", -1, "", -1, 0
		select {
		case h := <-s.hits:
			uh, up = h.host, h.port
			if h2, p2, pl, ok := parseSCIONUDP(h.data); ok {
				ih, ip = h2, p2
				if bytes.Equal(cookieOf(pl), cookie) {
					same = 1
				}
			}
		case <-time.After(300 * time.Millisecond):
		}
		args = append(args, lib.L(lib.I(int64(ch[0])), lib.I(int64(ch[1])), fmtRecs(recs)))
		outs = append(outs, lib.L(lib.I(int64(conns)), lib.B([]byte(uh)), lib.I(int64(up)), lib.B([]byte(ih)), lib.I(int64(ip)), lib.I(int64(same))))
	}
	tags := "starget"
	if quic {
		tags += ",quic"
	}
	if len(choices) > 1 {
		tags += ",nt"
	}
	w.Case("ke.starget", tags,
		lib.V(lib.Bool(quic), lib.B([]byte(addrA.String())), lib.B([]byte(addrB.String())), lib.L(args...)),
		lib.L(outs...))
}

func genSTargets(r *lib.Rng, n int) {
	for _, q := range []bool{false, true} {
		for sv := 0; sv < 3; sv++ {
			for p := 0; p < 4; p++ {
				runSTarget(r, q, [][2]int{{sv, p}})
			}
		}
	}
	for i := 0; i < n; i++ {
		k := 2 + r.Intn(2)
		var ch [][2]int
		for j := 0; j < k; j++ {
			ch = append(ch, [2]int{r.Intn(3), r.Intn(4)})
		}
		switch r.Intn(3) {
		case 0: // named, then nothing named: the defaults must come back
			ch[0] = [2]int{2, 2}
			ch[len(ch)-1] = [2]int{0, 0}
		case 1: // the configured host, another port
			ch[r.Intn(k)] = [2]int{lib.Pick(r, 0, 1), lib.Pick(r, 0, 1, 2)}
		}
		runSTarget(r, r.Intn(2) == 0, ch)
	}
}
