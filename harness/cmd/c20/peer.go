package main

import (
	"crypto/ecdsa"
	"crypto/elliptic"
	"crypto/rand"
	"crypto/tls"
	"crypto/x509"
	"crypto/x509/pkix"
	"math/big"
	"net"
	"sync"
	"time"
)

// rec is one NTS-KE record as the scripted peer sends it.
type rec struct {
	typ  int
	crit bool
	body []byte
}

// script describes what the key-exchange peer does on a connection attempt.
type script struct {
	mode   int      // 0 TLS server, 1 nothing listens, 2 accepts TCP and closes without a handshake
	alpn   []string // the server's ALPN list
	recs   []rec
	tail   []byte // raw bytes after the records
	cut    int    // bytes of the stream sent before the connection ends
	ending int    // 0 close_notify + close, 1 TCP close without close_notify, 2 keep open until the call returned
	chunks []int  // sizes of the separate TLS records the stream is written in (rest in one piece)
}

func packRec(r rec) []byte {
	b := make([]byte, 0, 4+len(r.body))
	hi := byte(r.typ >> 8)
	if r.crit {
		hi |= 0x80
	}
	b = append(b, hi, byte(r.typ), byte(len(r.body)>>8), byte(len(r.body)))
	return append(b, r.body...)
}

func (s *script) full() []byte {
	var b []byte
	for _, r := range s.recs {
		b = append(b, packRec(r)...)
	}
	return append(b, s.tail...)
}

func (s *script) sent() []byte {
	f := s.full()
	if s.cut < len(f) {
		return f[:s.cut]
	}
	return f
}

// connObs is what the peer saw of one connection.
type connObs struct {
	hsOK       bool
	negotiated string
	c2s, s2c   []byte
}

// the RFC 8915 section 5.1 exporter parameters, written here independently of /repo
const rfcLabel = "EXPORTER-network-time-security"

var rfcC2S = []byte{0, 0, 0, 15, 0}
var rfcS2C = []byte{0, 0, 0, 15, 1}

type peerSrv struct {
	ln       net.Listener
	ln2      net.Listener // the same peer at 127.0.0.1, which is what the name "localhost" resolves to (nil: it does not)
	cert     tls.Certificate
	pool     *x509.CertPool
	sentIP   net.IP
	mu       sync.Mutex
	cur      *script
	conns    int
	obs      []connObs
	held     []net.Conn
	wg       sync.WaitGroup
	sentinel chan struct{}
}

func selfSigned(ips ...net.IP) (tls.Certificate, *x509.CertPool) {
	key, err := ecdsa.GenerateKey(elliptic.P256(), rand.Reader)
	if err != nil {
		panic(err)
	}
	tmpl := &x509.Certificate{
		SerialNumber:          big.NewInt(time.Now().UnixNano()),
		Subject:               pkix.Name{CommonName: "c20 scripted peer"},
		NotBefore:             time.Now().Add(-time.Hour),
		NotAfter:              time.Now().Add(24 * time.Hour),
		KeyUsage:              x509.KeyUsageDigitalSignature | x509.KeyUsageCertSign,
		ExtKeyUsage:           []x509.ExtKeyUsage{x509.ExtKeyUsageServerAuth},
		BasicConstraintsValid: true,
		IsCA:                  true,
		IPAddresses:           ips,
		DNSNames:              []string{"localhost"},
	}
	der, err := x509.CreateCertificate(rand.Reader, tmpl, tmpl, &key.PublicKey, key)
	if err != nil {
		panic(err)
	}
	leaf, err := x509.ParseCertificate(der)
	if err != nil {
		panic(err)
	}
	pool := x509.NewCertPool()
	pool.AddCert(leaf)
	return tls.Certificate{Certificate: [][]byte{der}, PrivateKey: key, Leaf: leaf}, pool
}

func newPeer(ip, sentinelIP net.IP, cert tls.Certificate, pool *x509.CertPool) *peerSrv {
	ln, err := net.Listen("tcp", net.JoinHostPort(ip.String(), "0"))
	if err != nil {
		panic(err)
	}
	p := &peerSrv{ln: ln, cert: cert, pool: pool, sentIP: sentinelIP, sentinel: make(chan struct{}, 16)}
	go p.acceptLoop(p.ln)
	if addrs, err := net.LookupHost("localhost"); err == nil {
		for _, a := range addrs {
			if a == "127.0.0.1" {
				if ln2, err := net.Listen("tcp", "127.0.0.1:0"); err == nil {
					p.ln2 = ln2
					go p.acceptLoop(ln2)
				}
			}
		}
	}
	return p
}

func (p *peerSrv) port() int { return p.ln.Addr().(*net.TCPAddr).Port }

func (p *peerSrv) port2() int { return p.ln2.Addr().(*net.TCPAddr).Port }

func (p *peerSrv) acceptLoop(ln net.Listener) {
	for {
		c, err := ln.Accept()
		if err != nil {
			return
		}
		if c.RemoteAddr().(*net.TCPAddr).IP.Equal(p.sentIP) {
			c.Close()
			p.sentinel <- struct{}{}
			continue
		}
		p.mu.Lock()
		p.conns++
		sc := p.cur
		p.wg.Add(1)
		p.mu.Unlock()
		go p.handle(c, sc)
	}
}

func (p *peerSrv) record(o connObs) {
	p.mu.Lock()
	p.obs = append(p.obs, o)
	p.mu.Unlock()
}

func (p *peerSrv) handle(c net.Conn, sc *script) {
	defer p.wg.Done()
	if sc == nil || sc.mode == 2 {
		c.Close()
		p.record(connObs{})
		return
	}
	c.SetDeadline(time.Now().Add(30 * time.Second))
	tc := tls.Server(c, &tls.Config{Certificates: []tls.Certificate{p.cert}, NextProtos: sc.alpn, MinVersion: tls.VersionTLS12})
	if err := tc.Handshake(); err != nil {
		c.Close()
		p.record(connObs{})
		return
	}
	st := tc.ConnectionState()
	o := connObs{hsOK: true, negotiated: st.NegotiatedProtocol}
	o.c2s, _ = st.ExportKeyingMaterial(rfcLabel, rfcC2S, 32)
	o.s2c, _ = st.ExportKeyingMaterial(rfcLabel, rfcS2C, 32)
	p.record(o)
	// the client's request: next protocol, algorithm, end of message = 16 bytes.  It is read
	// completely so that closing the socket later never turns into a reset that could destroy
	// what the client has not read yet.
	req := make([]byte, 0, 64)
	buf := make([]byte, 64)
	for len(req) < 16 {
		n, err := tc.Read(buf)
		req = append(req, buf[:n]...)
		if err != nil {
			c.Close()
			return
		}
	}
	out := sc.sent()
	for _, n := range sc.chunks {
		if n <= 0 || len(out) == 0 {
			break
		}
		if n > len(out) {
			n = len(out)
		}
		if _, err := tc.Write(out[:n]); err != nil {
			c.Close()
			return
		}
		out = out[n:]
	}
	if len(out) > 0 {
		if _, err := tc.Write(out); err != nil {
			c.Close()
			return
		}
	}
	switch sc.ending {
	case 0:
		tc.Close()
	case 1:
		c.Close()
	default:
		p.mu.Lock()
		p.held = append(p.held, c)
		p.mu.Unlock()
		// safety net: a client that keeps reading although the message ended is released
		time.AfterFunc(3*time.Second, func() { c.Close() })
	}
}

// begin installs the script for the next call.
func (p *peerSrv) begin(sc *script) {
	p.mu.Lock()
	p.cur = sc
	p.conns = 0
	p.obs = nil
	p.mu.Unlock()
}

// end waits until every connection opened so far has been accepted and handled and returns
// the number of connections and what was seen of the first one.
func (p *peerSrv) end() (int, connObs) {
	lns := []net.Listener{p.ln}
	if p.ln2 != nil {
		lns = append(lns, p.ln2)
	}
	for _, ln := range lns {
		d := net.Dialer{LocalAddr: &net.TCPAddr{IP: p.sentIP}, Timeout: 30 * time.Second}
		c, err := d.Dial("tcp", ln.Addr().String())
		if err != nil {
			panic("sentinel connection failed: " + err.Error())
		}
		select {
		case <-p.sentinel:
		case <-time.After(60 * time.Second):
			panic("sentinel connection was not accepted")
		}
		c.Close()
	}
	p.mu.Lock()
	for _, h := range p.held {
		h.Close()
	}
	p.held = nil
	p.mu.Unlock()
	p.wg.Wait()
	p.mu.Lock()
	defer p.mu.Unlock()
	var o connObs
	if len(p.obs) > 0 {
		o = p.obs[0]
	}
	return p.conns, o
}
