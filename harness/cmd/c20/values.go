package main

import (
	"encoding/hex"
	"strconv"
	"strings"

	"verifharness/lib"
)

// op is one call on the Fetcher: FetchData against a scripted peer, or StoreCookie.
type op struct {
	store  bool
	cookie []byte
	sc     script
	host   string // address the fetcher dials (ServerName), or the address the name resolves to
	named  bool   // the fetcher is given the name "localhost" instead of an address literal
}

func fmtRecs(rs []rec) string {
	items := make([]string, len(rs))
	for i, r := range rs {
		items[i] = lib.L(lib.I(int64(r.typ)), lib.Bool(r.crit), lib.B(r.body))
	}
	return lib.L(items...)
}

func fmtOp(o op) string {
	if o.store {
		return lib.L("1", lib.B(o.cookie))
	}
	al := make([]string, len(o.sc.alpn))
	for i, a := range o.sc.alpn {
		al[i] = lib.B([]byte(a))
	}
	e := o.sc.ending
	if o.named {
		e += 10
	}
	ch := []string{lib.I(int64(e))}
	for _, c := range o.sc.chunks {
		ch = append(ch, lib.I(int64(c)))
	}
	return lib.L("0", lib.I(int64(o.sc.mode)), lib.L(al...), fmtRecs(o.sc.recs), lib.B(o.sc.tail),
		lib.I(int64(o.sc.cut)), lib.B([]byte(o.host)), lib.B(o.sc.sent()), lib.L(ch...))
}

func fmtOps(ops []op) string {
	items := make([]string, len(ops))
	for i, o := range ops {
		items[i] = fmtOp(o)
	}
	return lib.L(items...)
}

// ---- parsing (replay) ----

type val struct {
	isList bool
	isB    bool
	z      int64
	b      []byte
	l      []val
}

func parseVals(s string) []val {
	pos := 0
	var list func(closing bool) []val
	list = func(closing bool) []val {
		var out []val
		for {
			for pos < len(s) && s[pos] == ' ' {
				pos++
			}
			if pos >= len(s) {
				return out
			}
			if s[pos] == ']' {
				if closing {
					pos++
				}
				return out
			}
			if s[pos] == '[' {
				pos++
				out = append(out, val{isList: true, l: list(true)})
				continue
			}
			st := pos
			for pos < len(s) && s[pos] != ' ' && s[pos] != ']' && s[pos] != '[' {
				pos++
			}
			tok := s[st:pos]
			if strings.HasPrefix(tok, "x") {
				b, err := hex.DecodeString(tok[1:])
				if err != nil {
					panic(err)
				}
				out = append(out, val{isB: true, b: b})
			} else {
				z, err := strconv.ParseInt(tok, 10, 64)
				if err != nil {
					panic(err)
				}
				out = append(out, val{z: z})
			}
		}
	}
	return list(false)
}

func parseOp(v val) op {
	l := v.l
	if l[0].z == 1 {
		return op{store: true, cookie: l[1].b}
	}
	var o op
	o.sc.mode = int(l[1].z)
	for _, a := range l[2].l {
		o.sc.alpn = append(o.sc.alpn, string(a.b))
	}
	for _, r := range l[3].l {
		o.sc.recs = append(o.sc.recs, rec{typ: int(r.l[0].z), crit: r.l[1].z != 0, body: r.l[2].b})
	}
	o.sc.tail = l[4].b
	o.sc.cut = int(l[5].z)
	o.host = string(l[6].b)
	ch := l[8].l
	if len(ch) > 0 {
		o.sc.ending = int(ch[0].z) % 10
		o.named = ch[0].z >= 10
		for _, c := range ch[1:] {
			o.sc.chunks = append(o.sc.chunks, int(c.z))
		}
	}
	return o
}

func parseOps(s string) []op {
	vs := parseVals(s)
	var ops []op
	for _, v := range vs[0].l {
		ops = append(ops, parseOp(v))
	}
	return ops
}
