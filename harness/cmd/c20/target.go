package main

import (
	"bytes"
	"context"
	"crypto/tls"
	"log/slog"
	"net"
	"strconv"
	"sync"
	"time"

	"example.com/scion-time/core/timebase"
	"example.com/scion-time/core/client"
	"example.com/scion-time/core/server"
	"example.com/scion-time/net/ntske"

	"verifharness/lib"
)

type sysClock struct{}

func (sysClock) Epoch() uint64                                    { return 0 }
func (sysClock) Now() time.Time                                   { return time.Now().UTC() }
func (sysClock) Drift(d time.Duration) time.Duration              { return 0 }
func (sysClock) Step(offset time.Duration)                        {}
func (sysClock) Adjust(offset, duration time.Duration, f float64) {}
func (sysClock) Sleep(d time.Duration)                            { time.Sleep(d) }

var clockOnce sync.Once

func registerClock() { clockOnce.Do(func() { timebase.RegisterClock(sysClock{}) }) }

// ---- UDP sinks: where does the NTP request after a key exchange go? ----

type hit struct {
	sink int
	data []byte
}

type sinks struct {
	conns []*net.UDPConn
	port2 int
	hits  chan hit
}

// four sinks: (A,123) (B,123) (A,port2) (B,port2)
func newSinks() *sinks {
	s := &sinks{hits: make(chan hit, 64)}
	c2, err := net.ListenUDP("udp", &net.UDPAddr{IP: addrA, Port: 0})
	if err != nil {
		panic(err)
	}
	s.port2 = c2.LocalAddr().(*net.UDPAddr).Port
	mk := func(ip net.IP, port int) *net.UDPConn {
		c, err := net.ListenUDP("udp", &net.UDPAddr{IP: ip, Port: port})
		if err != nil {
			panic(err)
		}
		return c
	}
	s.conns = []*net.UDPConn{mk(addrA, 123), mk(addrB, 123), c2, mk(addrB, s.port2)}
	for i, c := range s.conns {
		go func(i int, c *net.UDPConn) {
			buf := make([]byte, 2048)
			for {
				n, from, err := c.ReadFromUDP(buf)
				if err != nil {
					return
				}
				if tap := sinkTap; tap != nil { // a ke.starget case is running: its observer gets the datagram
					la := c.LocalAddr().(*net.UDPAddr)
					tap(la.IP.String(), la.Port, append([]byte{}, buf[:n]...))
				} else {
					s.hits <- hit{i, append([]byte{}, buf[:n]...)}
				}
				// two datagrams the client cannot use: it gives up at once instead of waiting
				c.WriteToUDP([]byte{1, 2, 3}, from)
				c.WriteToUDP([]byte{4, 5, 6}, from)
			}
		}(i, c)
	}
	return s
}

// cookieOf extracts the NTS cookie extension field (type 0x0204) of an NTP request.
func cookieOf(pkt []byte) []byte {
	pos := 48
	for pos+4 <= len(pkt) {
		t := int(pkt[pos])<<8 | int(pkt[pos+1])
		l := int(pkt[pos+2])<<8 | int(pkt[pos+3])
		if l < 4 || pos+l > len(pkt) {
			return nil
		}
		if t == 0x0204 {
			return pkt[pos+4 : pos+l]
		}
		pos += l
	}
	return nil
}

var theSinks *sinks

// sinkTap, when set, receives what arrives at the sinks instead of their own channel
var sinkTap func(host string, port int, data []byte)

// runTarget: one IP client with NTS, a sequence of measurements; every measurement needs a new
// key exchange (one cookie is issued, no reply ever stores another one) that names a server
// and/or a port or nothing.  choices: pairs (server 0 none/1 A/2 B, port 0 none/1 123/2 port2).
func runTarget(r *lib.Rng, choices [][2]int) {
	registerClock()
	if theSinks == nil {
		theSinks = newSinks()
	}
	log := slog.New(slog.DiscardHandler)
	c := &client.IPClient{Log: log}
	c.Auth.Enabled = true
	c.Auth.NTSKEFetcher.Log = log
	c.Auth.NTSKEFetcher.TLSConfig = tls.Config{NextProtos: []string{"ntske/1"}, InsecureSkipVerify: true, ServerName: addrA.String(), MinVersion: tls.VersionTLS13}
	c.Auth.NTSKEFetcher.Port = strconv.Itoa(peer.port())
	var args, outs []string
	for _, ch := range choices {
		cookie := r.Bytes(100)
		recs := []rec{{1, true, u16(0)}, {4, true, u16(15)}}
		switch ch[0] {
		case 1:
			recs = append(recs, rec{6, false, []byte(addrA.String())})
		case 2:
			recs = append(recs, rec{6, false, []byte(addrB.String())})
		}
		switch ch[1] {
		case 1:
			recs = append(recs, rec{7, false, u16(123)})
		case 2:
			recs = append(recs, rec{7, false, u16(theSinks.port2)})
		}
		recs = append(recs, rec{5, false, cookie}, rec{0, true, nil})
		sc := script{alpn: []string{"ntske/1"}, recs: recs}
		sc.cut = len(sc.full())
		for len(theSinks.hits) > 0 {
			<-theSinks.hits
		}
		peer.begin(&sc)
		ctx, cancel := context.WithTimeout(context.Background(), 4*time.Second)
		// a remote address nobody listens on: the key exchange decides where the request goes
		_, _, _ = client.MeasureClockOffsetIP(ctx, log, c, &net.UDPAddr{IP: addrB.To4()}, &net.UDPAddr{IP: addrB.To4(), Port: 9})
		cancel()
		conns, _ := peer.end()
		sink, same := -1, 0
		select {
		case h := <-theSinks.hits:
			sink = h.sink
			if bytes.Equal(cookieOf(h.data), cookie) {
				same = 1
			}
		case <-time.After(200 * time.Millisecond):
		}
		args = append(args, lib.L(lib.I(int64(ch[0])), lib.I(int64(ch[1])), fmtRecs(recs)))
		outs = append(outs, lib.L(lib.I(int64(conns)), lib.I(int64(sink)), lib.I(int64(same))))
	}
	tags := "target"
	if len(choices) > 1 {
		tags = "target,nt"
	}
	w.Case("ke.target", tags,
		lib.V(lib.B([]byte(addrA.String())), lib.B([]byte(addrB.String())), lib.I(int64(theSinks.port2)), lib.L(args...)),
		lib.L(outs...))
}

func genTargets(r *lib.Rng, n int) {
	for s := 0; s < 3; s++ {
		for p := 0; p < 3; p++ {
			runTarget(r, [][2]int{{s, p}})
		}
	}
	for i := 0; i < n; i++ {
		k := 2 + r.Intn(2)
		var ch [][2]int
		for j := 0; j < k; j++ {
			ch = append(ch, [2]int{r.Intn(3), r.Intn(3)})
		}
		if r.Intn(2) == 0 { // named, then nothing named: the defaults must come back
			ch[0] = [2]int{2, 2}
			ch[len(ch)-1] = [2]int{0, 0}
		}
		runTarget(r, ch)
	}
}

// ---- the project's own key-exchange server and NTP server ----

var (
	ownOnce     sync.Once
	addrC       net.IP
	ownProvider *ntske.Provider
)

// not the client's default (123): the Port record of newNTSKEMsg has to arrive and be used
const ownNTPPort = 4123

func startOwn() {
	ownOnce.Do(func() {
		registerClock()
		addrC = ownIP(220)
		ownProvider = ntske.NewProvider()
		log := slog.New(slog.DiscardHandler)
		ctx := context.Background()
		c, pool := selfSigned(addrC)
		_ = pool
		ownCert = c
		server.StartIPServer(ctx, log, &net.UDPAddr{IP: addrC, Port: ownNTPPort}, 0, ownProvider)
		server.StartNTSKEServerIP(ctx, log, addrC, ownNTPPort, &tls.Config{
			Certificates: []tls.Certificate{c}, NextProtos: []string{"ntske/1"}, MinVersion: tls.VersionTLS13}, ownProvider)
		// the listener is up when StartNTSKEServerIP returns (tls.Listen is synchronous)
	})
}

var ownCert tls.Certificate

// runOwn: FetchData against StartNTSKEServerIP, the cookies opened with the server's key, then
// a complete NTS-protected measurement against the project's NTP server with the same setup.
func runOwn(r *lib.Rng) {
	startOwn()
	log := slog.New(slog.DiscardHandler)
	cfg := tls.Config{NextProtos: []string{"ntske/1"}, InsecureSkipVerify: true, ServerName: addrC.String(), MinVersion: tls.VersionTLS13}
	f := &ntske.Fetcher{Log: log, Port: strconv.Itoa(ntske.ServerPortIP)}
	f.TLSConfig = cfg
	d, err := f.FetchData(context.Background())
	cls := classify(err, true)
	distinct, keysOK := 1, 1
	for i, ck := range d.Cookie {
		for j := 0; j < i; j++ {
			if bytes.Equal(ck, d.Cookie[j]) {
				distinct = 0
			}
		}
		var ec ntske.EncryptedServerCookie
		if ec.Decode(ck) != nil {
			keysOK = 0
			continue
		}
		key, ok := ownProvider.Get(int(ec.ID))
		if !ok {
			keysOK = 0
			continue
		}
		pc, err := ec.Decrypt(key.Value)
		if err != nil || pc.Algo != 15 || !bytes.Equal(pc.C2S, d.C2sKey) || !bytes.Equal(pc.S2C, d.S2cKey) || len(pc.C2S) != 32 {
			keysOK = 0
		}
	}
	// the whole chain with the real client
	c := &client.IPClient{Log: log}
	c.Auth.Enabled = true
	c.Auth.NTSKEFetcher.Log = log
	c.Auth.NTSKEFetcher.TLSConfig = tls.Config{NextProtos: []string{"ntske/1"}, InsecureSkipVerify: true, ServerName: addrC.String(), MinVersion: tls.VersionTLS13}
	c.Auth.NTSKEFetcher.Port = strconv.Itoa(ntske.ServerPortIP)
	measured := 0
	for try := 0; try < 2 && measured == 0; try++ {
		ctx, cancel := context.WithTimeout(context.Background(), 6*time.Second)
		_, off, err := client.MeasureClockOffsetIP(ctx, log, c, &net.UDPAddr{IP: addrC.To4()}, &net.UDPAddr{IP: addrB.To4(), Port: 9})
		cancel()
		if err == nil && off > -time.Second && off < time.Second {
			measured = 1
		}
	}
	w.Case("ke.own", "own,nt", lib.V(lib.B([]byte(addrC.String())), lib.I(ownNTPPort)),
		lib.V(lib.I(int64(cls)), lib.B([]byte(d.Server)), lib.I(int64(d.Port)), lib.I(int64(d.Algo)), lib.I(int64(len(d.Cookie))),
			lib.I(int64(distinct)), lib.I(int64(keysOK)), lib.I(int64(measured))))
}
