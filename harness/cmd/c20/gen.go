package main

import (
	"os"

	"verifharness/lib"
)

func genCookie(r *lib.Rng) []byte {
	switch r.Intn(12) {
	case 0:
		return []byte{}
	case 1:
		return r.Bytes(1 + r.Intn(4))
	case 2:
		if r.Intn(3) == 0 {
			return r.Bytes(5000 + r.Intn(3000)) // larger than bufio's buffer, and than an NTS packet
		}
		return r.Bytes(lib.Pick(r, 895, 896, 897, 928, 929, 1024)) // around ntske.MaxCookieLen
	case 3:
		return r.Bytes(r.Intn(300))
	case 4:
		return r.Bytes(600 + r.Intn(297)) // long but usable: eight of them span several reads
	case 5:
		return r.Bytes(129 + r.Intn(768)) // any usable length above that of the project's own cookies
	default:
		return r.Bytes(100 + 4*r.Intn(8)) // the size of real cookies
	}
}

func u16(v int) []byte { return []byte{byte(v >> 8), byte(v)} }

var serverNames = []string{"127.0.0.1", "10.1.2.3", "ntp.example.net", "::1", "2001:db8::1", "", "192.0.2.200", "time"}

// validMsg builds a message a conforming server could send.
func validMsg(r *lib.Rng) []rec {
	var rs []rec
	rs = append(rs, rec{1, true, u16(0)})
	rs = append(rs, rec{4, true, u16(15)})
	if r.Intn(2) == 0 {
		rs = append(rs, rec{6, r.Intn(4) == 0, []byte(lib.Pick(r, serverNames...))})
	}
	if r.Intn(2) == 0 {
		rs = append(rs, rec{7, r.Intn(4) == 0, u16(lib.Pick(r, 123, 4123, 1, 65535, 0, 10123, r.Intn(65536)))})
	}
	n := lib.Pick(r, 1, 1, 2, 3, 8, 8, 8, 1+r.Intn(10))
	for i := 0; i < n; i++ {
		rs = append(rs, rec{5, false, genCookie(r)})
	}
	if r.Intn(3) == 0 { // any order is allowed before the end of message
		for i := len(rs) - 1; i > 0; i-- {
			j := r.Intn(i + 1)
			rs[i], rs[j] = rs[j], rs[i]
		}
	}
	return append(rs, rec{0, true, nil})
}

func insertAt(rs []rec, i int, x rec) []rec {
	out := make([]rec, 0, len(rs)+1)
	out = append(out, rs[:i]...)
	out = append(out, x)
	return append(out, rs[i:]...)
}

func unknownType(r *lib.Rng) int {
	return lib.Pick(r, 3, 8, 9, 10, 1000, 0x4000, 32767, 8+r.Intn(32760))
}

func totalLen(rs []rec) int {
	n := 0
	for _, x := range rs {
		n += 4 + len(x.body)
	}
	return n
}

// mutate applies one change to the message; returns the records, a raw tail and a tag.
func mutate(r *lib.Rng, rs []rec) ([]rec, []byte, string) {
	pos := r.Intn(len(rs) + 1)
	switch r.Intn(22) {
	case 0: // no end of message
		var out []rec
		for _, x := range rs {
			if x.typ != 0 {
				out = append(out, x)
			}
		}
		return out, nil, "m-noend"
	case 1: // no algorithm
		var out []rec
		for _, x := range rs {
			if x.typ != 4 {
				out = append(out, x)
			}
		}
		return out, nil, "m-noaead"
	case 2: // another algorithm
		out := append([]rec{}, rs...)
		for i := range out {
			if out[i].typ == 4 {
				out[i].body = u16(lib.Pick(r, 14, 16, 17, 0, 0x0f00, 30, 0x800f, 0x010f))
			}
		}
		return out, nil, "m-algo"
	case 3: // a second algorithm record: the last one counts
		return insertAt(rs, pos, rec{4, true, u16(lib.Pick(r, 17, 16, 15, 0))}), nil, "m-algo2"
	case 4: // no cookie
		var out []rec
		for _, x := range rs {
			if x.typ != 5 {
				out = append(out, x)
			}
		}
		return out, nil, "m-nocookie"
	case 5, 6: // an error record somewhere
		return insertAt(rs, pos, rec{2, r.Intn(4) != 0, u16(lib.Pick(r, 0, 1, 2, 3, 0xffff, r.Intn(65536)))}), nil, "m-error"
	case 7, 8: // an unrecognised critical record (a warning is one)
		return insertAt(rs, pos, rec{unknownType(r), true, r.Bytes(lib.Pick(r, 0, 2, 2, 7, 40))}), nil, "m-unkcrit"
	case 9, 10: // unrecognised non-critical records
		out := rs
		for k := 1 + r.Intn(3); k > 0; k-- {
			out = insertAt(out, r.Intn(len(out)+1), rec{unknownType(r), false, r.Bytes(lib.Pick(r, 0, 1, 2, 3, 16, 300))})
		}
		return out, nil, "m-unknc"
	case 11: // more records after the end of message
		out := append([]rec{}, rs...)
		out = append(out, lib.Pick(r, rec{2, true, u16(1)}, rec{5, false, r.Bytes(20)}, rec{99, true, nil}, rec{4, true, u16(17)}, rec{6, false, []byte("10.9.9.9")}))
		return out, nil, "m-afterend"
	case 12: // repeated server/port records: the last one counts
		out := insertAt(rs, pos, rec{6, false, []byte(lib.Pick(r, serverNames...))})
		out = insertAt(out, r.Intn(len(out)+1), rec{7, false, u16(r.Intn(65536))})
		return out, nil, "m-dup"
	case 13: // critical bits the other way round
		out := append([]rec{}, rs...)
		for i := range out {
			if r.Intn(2) == 0 {
				out[i].crit = !out[i].crit
			}
		}
		return out, nil, "m-critflip"
	case 14: // next protocol value the client does not look at
		out := append([]rec{}, rs...)
		for i := range out {
			if out[i].typ == 1 {
				out[i].body = u16(lib.Pick(r, 1, 0x8000, 0xffff))
			}
		}
		return out, nil, "m-nextproto"
	case 15: // ---- encodings no conforming server produces ----
		out := append([]rec{}, rs...)
		for i := range out {
			if out[i].typ == 4 {
				out[i].body = lib.Pick(r, []byte{0, 15, 0, 17}, []byte{0, 17, 0, 15}, []byte{}, []byte{15})
			}
		}
		return out, nil, "n-algobody"
	case 16:
		out := append([]rec{}, rs...)
		for i := range out {
			if out[i].typ == 1 {
				out[i].body = lib.Pick(r, []byte{}, []byte{0, 0, 0, 0}, []byte{0})
			}
		}
		return out, nil, "n-npbody"
	case 17:
		return insertAt(rs, pos, rec{7, false, lib.Pick(r, []byte{1}, []byte{0, 123, 0}, []byte{})}), nil, "n-portbody"
	case 18:
		out := append([]rec{}, rs...)
		for i := range out {
			if out[i].typ == 0 {
				out[i].body = r.Bytes(1 + r.Intn(6))
			}
		}
		return out, nil, "n-endbody"
	case 19:
		return insertAt(rs, pos, rec{2, true, lib.Pick(r, []byte{}, []byte{1}, []byte{0, 1, 0, 0})}), nil, "n-errbody"
	case 20: // raw bytes instead of the end of message
		var out []rec
		for _, x := range rs {
			if x.typ != 0 {
				out = append(out, x)
			}
		}
		return out, r.Bytes(r.Intn(40)), "n-tail"
	default: // raw bytes only
		return nil, r.Bytes(r.Intn(60)), "n-raw"
	}
}

var alpnLists = [][]string{{}, {"h2"}, {"h2", "ntske/1"}, {"ntske/1", "h2"}, {"ntske/2"}, {"NTSKE/1"}, {"ntske"}, {"ntske/1 "}, {"http/1.1", "h2"}}

func canonicalRec(x rec) bool {
	if x.typ < 0 || x.typ >= 32768 || len(x.body) >= 65536 {
		return false
	}
	switch x.typ {
	case 0:
		return len(x.body) == 0
	case 1, 2, 4, 7:
		return len(x.body) == 2
	}
	return true
}

// scanGo says, for tagging and for choosing how the connection ends only, what a client should
// make of the part of the script that is sent: "acc", "ref", "inc" and the cookies delivered
// before that point; strict = conforming encodings only.
func scanGo(sc *script) (string, int, bool) {
	strict := len(sc.tail) == 0
	for _, x := range sc.recs {
		if !canonicalRec(x) {
			strict = false
		}
	}
	left := sc.cut
	cookies, algo, fits := 0, -1, true
	for _, x := range sc.recs {
		n := 4 + len(x.body)
		if n > left {
			return "inc", cookies, strict
		}
		left -= n
		switch {
		case x.typ == 0:
			if algo == 15 && cookies > 0 && fits {
				return "acc", cookies, strict
			}
			return "ref", cookies, strict
		case x.typ == 2:
			return "ref", cookies, strict
		case x.typ == 4 && len(x.body) >= 2:
			algo = int(x.body[0])<<8 | int(x.body[1])
		case x.typ == 5:
			cookies++
			if len(x.body) > 896 {
				fits = false
			}
		case x.typ == 1, x.typ == 4, x.typ == 6, x.typ == 7:
		default:
			if x.crit {
				return "ref", cookies, strict
			}
		}
	}
	return "inc", cookies, strict
}

func genChunks(r *lib.Rng, n int) []int {
	switch r.Intn(5) {
	case 0:
		return nil
	case 1: // byte by byte at the start
		k := 40
		if k > n {
			k = n
		}
		out := make([]int, k)
		for i := range out {
			out[i] = 1
		}
		return out
	case 2: // split inside the first headers
		return []int{lib.Pick(r, 1, 2, 3, 5), lib.Pick(r, 1, 2, 4, 7)}
	default:
		var out []int
		for k := r.Intn(6); k > 0; k-- {
			out = append(out, 1+r.Intn(n/2+2))
		}
		return out
	}
}

// finishScript fills in cut (unless already set), chunking and the way the connection ends.
func finishScript(r *lib.Rng, sc *script, cutSet bool) {
	full := len(sc.full())
	if !cutSet {
		sc.cut = full
	}
	if sc.cut > full {
		sc.cut = full
	}
	sc.chunks = genChunks(r, sc.cut)
	res, _, strict := scanGo(sc)
	if strict && res != "inc" {
		sc.ending = r.Intn(3)
	} else {
		sc.ending = r.Intn(2)
	}
}

// genScript: a valid, mutated or malformed exchange.
func genScript(r *lib.Rng, h *hist, wantValid bool) script {
	var sc script
	sc.alpn = []string{"ntske/1"}
	rs := validMsg(r)
	if wantValid {
		sc.recs = rs
		if r.Intn(3) == 0 { // harmless additions
			sc.recs, _, _ = mutate2(r, rs, []int{9, 10, 11, 12, 13, 14})
		}
		finishScript(r, &sc, false)
		return sc
	}
	switch r.Intn(10) {
	case 0:
		sc.recs = rs
		if h.q != nil {
			// over QUIC a peer that does not answer costs the handshake timeout (genQUICDial has
			// those); here the handshake fails for want of a common application protocol
			sc.alpn = alpnLists[r.Intn(len(alpnLists))]
			h.tags["alpn"] = true
		} else {
			sc.mode = lib.Pick(r, 1, 2)
			h.tags["dial"] = true
		}
	case 1, 2:
		sc.alpn = alpnLists[r.Intn(len(alpnLists))]
		sc.recs = rs
		h.tags["alpn"] = true
	case 3, 4: // truncated at some byte
		sc.recs = rs
		if r.Intn(2) == 0 {
			var t string
			sc.recs, sc.tail, t = mutate(r, rs)
			h.tags[t] = true
		}
		full := len(sc.full())
		sc.cut = r.Intn(full + 1)
		if r.Intn(3) == 0 && len(sc.recs) > 0 { // at a record boundary or one byte off
			k := r.Intn(len(sc.recs) + 1)
			sc.cut = totalLen(sc.recs[:k]) + lib.Pick(r, -1, 0, 0, 1, 4, 5)
			if sc.cut < 0 {
				sc.cut = 0
			}
		}
		h.tags["trunc"] = true
		finishScript(r, &sc, true)
		return sc
	default:
		var t string
		sc.recs, sc.tail, t = mutate(r, rs)
		h.tags[t] = true
		if r.Intn(4) == 0 {
			var t2 string
			sc.recs, _, t2 = mutate2(r, sc.recs, []int{0, 1, 2, 3, 4, 5, 7, 9, 11, 12, 13})
			h.tags[t2] = true
		}
	}
	finishScript(r, &sc, false)
	return sc
}

// mutate2 applies a mutation whose case number is in the allowed set.
func mutate2(r *lib.Rng, rs []rec, allowed []int) ([]rec, []byte, string) {
	if len(rs) == 0 {
		return rs, nil, "m-none"
	}
	for {
		// draw until the mutation chosen is allowed (mutate draws its own case number)
		save := *r
		pos := r.Intn(len(rs) + 1)
		c := r.Intn(22)
		_ = pos
		ok := false
		for _, a := range allowed {
			if a == c {
				ok = true
			}
		}
		if ok {
			*r = save
			return mutate(r, rs)
		}
	}
}

func probe() script { return script{mode: 1, alpn: []string{"ntske/1"}} }

// probe is a call that cannot succeed and, as long as cookies are left, must not reach any
// peer: over TLS nothing listens at the address; over QUIC (where that costs the handshake
// timeout) the peer answers with an error record.
func (h *hist) probe() script {
	if h.q == nil {
		return probe()
	}
	sc := script{alpn: []string{"ntske/1"}, recs: []rec{{2, true, u16(1)}}}
	sc.cut = len(sc.full())
	return sc
}

func (h *hist) tagFetch(sc *script, ok bool) {
	res, cookies, strict := scanGo(sc)
	if !strict {
		h.tags["noncanon"] = true
	}
	if sc.mode == 0 {
		h.tags[res] = true
	}
	if ok {
		h.tags["ok"] = true
	} else {
		h.tags["fail"] = true
		if cookies > 0 && sc.mode == 0 {
			h.tags["partial"] = true // the failed exchange had delivered cookies
		}
	}
}

// step performs a FetchData and keeps the tags.
func (h *hist) step(sc script) bool {
	hadPool := h.pool > 0
	ok, _ := h.fetch(sc)
	if hadPool {
		h.tags["cached"] = true
	} else {
		h.tagFetch(&sc, ok)
		if len(h.ops) > 1 {
			if ok {
				h.tags["rekey"] = true
			}
		}
	}
	return ok
}

// drain empties the pool with calls that cannot reach any peer, so that what the fetcher still
// holds at the end of the history becomes visible.
func (h *hist) drain() {
	for i := 0; i < 40; i++ {
		hadPool := h.pool > 0
		ok, _ := h.fetch(h.probe())
		if !ok {
			if hadPool {
				h.tags["drain-mismatch"] = true
			}
			return
		}
	}
}

func (h *hist) finish() {
	h.drain()
	if h.tags["partial"] || (h.tags["ok"] && h.tags["fail"] && h.tags["cached"]) {
		h.tags["nt"] = true
	}
	h.write()
}

func (h *hist) someStores(r *lib.Rng) {
	if !h.lastOK {
		return
	}
	k := lib.Pick(r, 0, 0, 1, 1, 2, 8, 9+r.Intn(12))
	if k > 8 { // more StoreCookie calls in a row than the pool may hold (ntske.MaxStoredCookies)
		h.tags["storecap"] = true
	}
	for ; k > 0; k-- {
		h.store(genCookie(r))
		h.tags["store"] = true
	}
}

func genHistory(r *lib.Rng) { genHistoryOn(r, newHist(r)) }

func genHistoryOn(r *lib.Rng, h *hist) {
	switch r.Intn(10) {
	case 0, 1, 2: // a failing exchange, then whatever comes next
		h.step(genScript(r, h, false))
		switch r.Intn(3) {
		case 0:
			h.step(h.probe())
		case 1:
			h.step(genScript(r, h, true))
			h.someStores(r)
		default:
			h.step(genScript(r, h, false))
		}
		for k := r.Intn(3); k > 0; k-- {
			h.step(genScript(r, h, r.Intn(2) == 0))
			h.someStores(r)
		}
	case 3, 4, 5: // life cycle: exchange, use the pool up (storing cookies of replies), re-key
		for round := 0; round < 1+r.Intn(3); round++ {
			ok := h.step(genScript(r, h, r.Intn(4) != 0))
			if !ok {
				continue
			}
			for i := 0; i < 12 && h.pool > 0; i++ {
				if r.Intn(3) == 0 {
					h.someStores(r)
				}
				h.step(genScript(r, h, r.Intn(2) == 0)) // must not be contacted
				if r.Intn(8) == 0 {
					break
				}
			}
		}
	case 6: // one-cookie pools: every request re-keys, failures in between
		for k := 2 + r.Intn(4); k > 0; k-- {
			sc := genScript(r, h, true)
			var rs []rec
			seen := false
			for _, x := range sc.recs {
				if x.typ == 5 {
					if seen {
						continue
					}
					seen = true
				}
				rs = append(rs, x)
			}
			sc.recs = rs
			finishScript(r, &sc, false)
			h.step(sc)
			if r.Intn(2) == 0 {
				h.step(genScript(r, h, false))
			}
		}
	case 7: // target named, then a failure, then an exchange that names nothing
		sc := genScript(r, h, true)
		sc.recs = insertAt(sc.recs, 0, rec{6, false, []byte("10.20.30.40")})
		sc.recs = insertAt(sc.recs, 0, rec{7, false, u16(4123)})
		finishScript(r, &sc, false)
		h.step(sc)
		for i := 0; i < 12 && h.pool > 0; i++ {
			h.step(h.probe())
		}
		h.step(genScript(r, h, false))
		sc2 := genScript(r, h, true)
		var rs []rec
		for _, x := range sc2.recs {
			if x.typ != 6 && x.typ != 7 {
				rs = append(rs, x)
			}
		}
		sc2.recs = rs
		finishScript(r, &sc2, false)
		h.step(sc2)
		h.tags["defaults"] = true
	case 8: // anything, including StoreCookie calls no client would make
		for k := 1 + r.Intn(6); k > 0; k-- {
			if r.Intn(3) == 0 {
				h.store(genCookie(r))
				h.tags["freestore"] = true
			} else {
				h.step(genScript(r, h, r.Intn(2) == 0))
			}
		}
	default: // ALPN offers
		sc := genScript(r, h, true)
		sc.alpn = alpnLists[r.Intn(len(alpnLists))]
		h.tags["alpn"] = true
		h.step(sc)
		h.step(genScript(r, h, r.Intn(2) == 0))
	}
	h.finish()
}

// genBig: acceptable messages at the upper end of what a server may send - up to 64 cookies,
// unrecognised non-critical records with bodies of up to 60000 bytes, server names of up to 255
// bytes, more than 16 KB in all - must be accepted like any other (a reader with a cap on the
// stream, on the number of cookies or on a record body refuses them).
func genBig(r *lib.Rng, h *hist, variant int) {
	rs := []rec{{1, true, u16(0)}, {4, true, u16(15)}}
	name := func(n int) []byte {
		b := make([]byte, n)
		for i := range b {
			b[i] = "abcdefghijklmnopqrstuvwxyz0123456789-."[r.Intn(38)]
		}
		return b
	}
	switch variant % 4 {
	case 0: // many cookies
		for i, n := 0, 17+r.Intn(48); i < n; i++ {
			rs = append(rs, rec{5, false, r.Bytes(100 + 4*r.Intn(8))})
		}
	case 1: // large unrecognised non-critical records before, between and after the records that count
		rs = append(rs, rec{unknownType(r), false, r.Bytes(lib.Pick(r, 4097, 16385, 60000, 4096+r.Intn(55000)))})
		rs = append(rs, rec{5, false, []byte{}}, rec{5, false, r.Bytes(100)})
		rs = append(rs, rec{unknownType(r), false, r.Bytes(lib.Pick(r, 4097, 20000, 1+r.Intn(9000)))})
		rs = append(rs, rec{7, false, u16(4123)}, rec{5, false, r.Bytes(104)})
	case 2: // a long server name and more than 16 KB of cookies of the largest usable size
		rs = append(rs, rec{6, false, name(lib.Pick(r, 255, 254, 200+r.Intn(56)))})
		for i := 0; i < 20; i++ {
			rs = append(rs, rec{5, false, r.Bytes(lib.Pick(r, 896, 895, 880))})
		}
	default: // all of it, in any order
		rs = append(rs, rec{6, false, name(255)}, rec{7, false, u16(r.Intn(65536))})
		for i, n := 0, 30+r.Intn(35); i < n; i++ {
			rs = append(rs, rec{5, false, r.Bytes(r.Intn(300))})
		}
		rs = append(rs, rec{unknownType(r), false, r.Bytes(20000 + r.Intn(40000))})
		for i := len(rs) - 1; i > 0; i-- {
			j := r.Intn(i + 1)
			rs[i], rs[j] = rs[j], rs[i]
		}
	}
	rs = append(rs, rec{0, true, nil})
	sc := script{alpn: []string{"ntske/1"}, recs: rs}
	finishScript(r, &sc, false)
	h.tags["big"] = true
	h.step(sc)
	h.step(h.probe()) // answered from the pool
	h.someStores(r)
	h.step(h.probe())
	h.tags["nt"] = true
	h.write() // the pool is not drained: it would be written out again with every call
}

// sweeps: one valid message truncated at every byte; an error / unknown critical / unknown
// non-critical record at every position; every ALPN list.
func genSweeps(r *lib.Rng) {
	base := []rec{{1, true, u16(0)}, {4, true, u16(15)}, {6, false, []byte("10.0.0.7")}, {7, false, u16(4123)},
		{5, false, r.Bytes(24)}, {5, false, r.Bytes(24)}, {0, true, nil}}
	full := totalLen(base)
	for k := 0; k <= full; k++ {
		h := newHist(r)
		sc := script{alpn: []string{"ntske/1"}, recs: base, cut: k}
		finishScript(r, &sc, true)
		h.tags["trunc"] = true
		h.tags["sweep"] = true
		h.step(sc)
		h.finish()
	}
	ins := []rec{{2, true, u16(1)}, {2, false, u16(0)}, {3, true, u16(7)}, {3, false, u16(7)}, {77, true, []byte{1, 2, 3}}, {77, false, []byte{1, 2, 3}}, {4, true, u16(17)}, {0, false, nil}}
	for _, x := range ins {
		for pos := 0; pos <= len(base); pos++ {
			h := newHist(r)
			sc := script{alpn: []string{"ntske/1"}, recs: insertAt(base, pos, x)}
			finishScript(r, &sc, false)
			h.tags["sweep"] = true
			h.step(sc)
			h.finish()
		}
	}
	for _, al := range append(alpnLists, []string{"ntske/1"}) {
		h := newHist(r)
		sc := script{alpn: al, recs: base}
		finishScript(r, &sc, false)
		h.tags["sweep"] = true
		h.tags["alpn"] = true
		h.step(sc)
		h.finish()
	}
}

func genAll(r *lib.Rng, n int, thorough bool) {
	quicLast := func() {}
	defer func() { quicLast() }()
	switch os.Getenv("C20_ONLY") { // development aid: one kind alone
	case "quic":
		quicLast = genQUIC(r, 150)
		return
	case "starget":
		genSTargets(r, 40)
		return
	case "bodylen":
		genBodyLen(r, func() *hist { return newHist(r) })
		quicLast = genQUIC(r, 0)
		return
	case "overlap":
		genOverlaps(r, 30)
		return
	case "own":
		for i := 0; i < 5; i++ {
			runOwn(r)
			runOwnQ(r)
		}
		return
	}
	genSweeps(r)
	nt, no := 40, 10
	if thorough {
		nt, no = 400, 100
	}
	genTargets(r, nt)
	genSTargets(r, nt)
	genOverlaps(r, 3*no)
	genBodyLen(r, func() *hist { return newHist(r) })
	if os.Getenv("C20_QUIC") != "0" { // on by default since the defect (D-C20b) is repaired in /repo
		nq := 150
		if thorough {
			nq = 1500
		}
		quicLast = genQUIC(r, nq)
	}
	for i := 0; i < no; i++ {
		runOwn(r)
		runOwnQ(r)
	}
	for i := 0; i < no; i++ {
		genBig(r, newHist(r), i)
	}
	for i := 0; i < n; i++ {
		genHistory(r)
	}
}
