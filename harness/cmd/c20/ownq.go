package main

import (
	"bytes"
	"context"
	"crypto/tls"
	"log/slog"
	"net"
	"sync"
	"time"

	"github.com/scionproto/scion/pkg/snet"
	spath "github.com/scionproto/scion/pkg/snet/path"

	"example.com/scion-time/core/client"
	"example.com/scion-time/core/server"
	"example.com/scion-time/net/ntske"
	"example.com/scion-time/net/udp"

	"verifharness/lib"
)

// ke.ownq: the project's key-exchange server over QUIC/SCION (server.StartNTSKEServerSCION,
// handleKeyExchangeQUIC, the message of newNTSKEMsg) and its SCION NTP server, against a real
// Fetcher with QUIC.Enabled and the real SCION client; everything in one AS, empty path.

var ownQOnce sync.Once

// not the client's default (10123): the Port record has to arrive and be used
const ownSCIONNTPPort = 10999

func startOwnQ() {
	startOwn()
	ownQOnce.Do(func() {
		log := slog.New(slog.DiscardHandler)
		ctx := context.Background()
		server.StartSCIONServer(ctx, log, "", &net.UDPAddr{IP: addrC, Port: ownSCIONNTPPort}, 0, ownProvider)
		server.StartNTSKEServerSCION(ctx, log, udp.UDPAddr{IA: quicIA, Host: &net.UDPAddr{IP: addrC, Port: ownSCIONNTPPort}},
			&tls.Config{Certificates: []tls.Certificate{ownCert}, NextProtos: []string{"ntske/1"}, MinVersion: tls.VersionTLS13}, ownProvider)
		// both listeners are up when the calls return (ListenPacket / ListenQUIC are synchronous)
	})
}

func ownQFetcher(f *ntske.Fetcher) {
	f.Log = slog.New(slog.DiscardHandler)
	f.TLSConfig = tls.Config{NextProtos: []string{"ntske/1"}, InsecureSkipVerify: true, ServerName: addrC.String(), MinVersion: tls.VersionTLS13}
	f.QUIC.Enabled = true
	f.QUIC.LocalAddr = udp.UDPAddr{IA: quicIA, Host: &net.UDPAddr{IP: addrB}}
	f.QUIC.RemoteAddr = udp.UDPAddr{IA: quicIA, Host: &net.UDPAddr{IP: addrC, Port: ntske.ServerPortSCION}}
}

func runOwnQ(r *lib.Rng) {
	startOwnQ()
	log := slog.New(slog.DiscardHandler)
	f := &ntske.Fetcher{}
	ownQFetcher(f)
	type res struct {
		d   ntske.Data
		err error
	}
	ch := make(chan res, 1)
	go func() {
		d, err := f.FetchData(context.Background())
		ch <- res{d, err}
	}()
	var fr res
	select {
	case fr = <-ch:
	case <-time.After(120 * time.Second):
		panic("FetchData against the own QUIC key-exchange server did not return")
	}
	d, err := fr.d, fr.err
	cls := classifyQUIC(err, true)
	distinct, keysOK := 1, 1
	for i, ck := range d.Cookie {
		for j := 0; j < i; j++ {
			if bytes.Equal(ck, d.Cookie[j]) {
				distinct = 0
			}
		}
		var ec ntske.EncryptedServerCookie
		if ec.Decode(ck) != nil {
			keysOK = 0
			continue
		}
		key, ok := ownProvider.Get(int(ec.ID))
		if !ok {
			keysOK = 0
			continue
		}
		pc, err := ec.Decrypt(key.Value)
		if err != nil || pc.Algo != 15 || !bytes.Equal(pc.C2S, d.C2sKey) || !bytes.Equal(pc.S2C, d.S2cKey) || len(pc.C2S) != 32 {
			keysOK = 0
		}
	}
	// the whole chain with the real SCION client: the configured time server address is one
	// nobody listens on, the exchange names the real one
	c := &client.SCIONClient{Log: log}
	c.Auth.NTSEnabled = true
	ownQFetcher(&c.Auth.NTSKEFetcher)
	measured := 0
	for try := 0; try < 2 && measured == 0; try++ {
		la := udp.UDPAddr{IA: quicIA, Host: &net.UDPAddr{IP: addrB.To4()}}
		ra := udp.UDPAddr{IA: quicIA, Host: &net.UDPAddr{IP: addrB.To4(), Port: 9}}
		ps := []snet.Path{spath.Path{Src: quicIA, Dst: quicIA, DataplanePath: spath.Empty{},
			NextHop: &net.UDPAddr{IP: addrB.To4(), Port: 9}}}
		ctx, cancel := context.WithTimeout(context.Background(), 6*time.Second)
		_, off, err := client.MeasureClockOffsetSCION(ctx, log, []*client.SCIONClient{c}, la, ra, ps)
		cancel()
		if err == nil && off > -time.Second && off < time.Second {
			measured = 1
		}
	}
	w.Case("ke.ownq", "own,quic,nt", lib.V(lib.B([]byte(addrC.String())), lib.I(ownSCIONNTPPort)),
		lib.V(lib.I(int64(cls)), lib.B([]byte(d.Server)), lib.I(int64(d.Port)), lib.I(int64(d.Algo)), lib.I(int64(len(d.Cookie))),
			lib.I(int64(distinct)), lib.I(int64(keysOK)), lib.I(int64(measured))))
}
