package main

import (
	"context"
	"crypto/tls"
	"fmt"
	"log/slog"
	"net"
	"time"

	"github.com/scionproto/scion/pkg/addr"

	"example.com/scion-time/net/ntske"
	"example.com/scion-time/net/scion"
	"example.com/scion-time/net/udp"

	"verifharness/lib"
)

// The QUIC/SCION path of exchangeKeys (D-C20b, repaired in /repo: the Data returned by dialQUIC used to be
// discarded, so the defaults "key-exchange host, port 10123" were never applied and the fields of the
// previous exchange survived).  Runs by default; C20_QUIC=0 switches it off.  The scripted peer is the project's own
// scion.ListenQUIC; both ends are in one AS (empty path).
func runQUIC(r *lib.Rng, hist [][]rec) {
	ctx := context.Background()
	ia, err := addr.ParseIA("1-ff00:0:110")
	if err != nil {
		panic(err)
	}
	srvCfg := &tls.Config{Certificates: []tls.Certificate{cert}, NextProtos: []string{"ntske/1"}, MinVersion: tls.VersionTLS13}
	ln, err := scion.ListenQUIC(ctx, udp.UDPAddr{IA: ia, Host: &net.UDPAddr{IP: addrA, Port: 0}}, srvCfg, nil)
	if err != nil {
		panic(err)
	}
	defer ln.Close()
	port := ln.Addr().(udp.UDPAddr).Host.Port
	scripts := make(chan []byte, len(hist))
	go func() {
		for {
			conn, err := ln.Accept(ctx)
			if err != nil {
				return
			}
			out := <-scripts
			go func() {
				stream, err := conn.AcceptStream(ctx)
				if err != nil {
					return
				}
				buf := make([]byte, 64)
				got := 0
				for got < 16 {
					n, err := stream.Read(buf)
					got += n
					if err != nil {
						return
					}
				}
				stream.Write(out)
				stream.Close()
				<-conn.Context().Done()
			}()
		}
	}()
	f := &ntske.Fetcher{Log: slog.New(slog.DiscardHandler)}
	f.TLSConfig = tls.Config{InsecureSkipVerify: true, MinVersion: tls.VersionTLS13}
	f.QUIC.Enabled = true
	f.QUIC.LocalAddr = udp.UDPAddr{IA: ia, Host: &net.UDPAddr{IP: addrA}}
	f.QUIC.RemoteAddr = udp.UDPAddr{IA: ia, Host: &net.UDPAddr{IP: addrA, Port: port}}
	var args, outs []string
	for _, recs := range hist {
		sc := script{recs: recs}
		scripts <- sc.full()
		ch := make(chan fetchRes, 1)
		go func() {
			d, err := f.FetchData(ctx)
			ch <- fetchRes{d, err}
		}()
		var res fetchRes
		select {
		case res = <-ch:
		case <-time.After(60 * time.Second):
			panic("FetchData over QUIC did not return")
		}
		cls := 0
		if res.err != nil {
			cls = 2
			fmt.Println("NOTE quic exchange failed:", res.err)
		}
		args = append(args, fmtRecs(recs))
		outs = append(outs, lib.L(lib.I(int64(cls)), lib.B([]byte(res.d.Server)), lib.I(int64(res.d.Port)), lib.I(int64(len(res.d.Cookie)))))
	}
	w.Case("ke.quic", "quic", lib.V(lib.B([]byte(addrA.String())), lib.L(args...)), lib.L(outs...))
}

func genQUIC(r *lib.Rng) {
	one := func(extra ...rec) []rec {
		rs := []rec{{1, true, u16(0)}, {4, true, u16(15)}}
		rs = append(rs, extra...)
		return append(rs, rec{5, false, r.Bytes(100)}, rec{0, true, nil})
	}
	// the peer names nothing: the request must go to the key-exchange host, port 10123
	runQUIC(r, [][]rec{one()})
	// a target is named, its only cookie is used, the next exchange names nothing
	runQUIC(r, [][]rec{one(rec{6, false, []byte("10.1.1.1")}, rec{7, false, u16(4123)}), one()})
	// named targets are honoured
	runQUIC(r, [][]rec{one(rec{6, false, []byte("10.1.1.1")}, rec{7, false, u16(4123)})})
}
