package main

import (
	"context"
	"crypto/tls"
	"errors"
	"fmt"
	"io"
	"net"
	"sync"
	"time"

	"github.com/scionproto/scion/pkg/addr"

	"example.com/scion-time/net/ntske"
	"example.com/scion-time/net/scion"
	"example.com/scion-time/net/udp"

	"verifharness/lib"
)

// The QUIC/SCION path of exchangeKeys (Fetcher.QUIC.Enabled): histories of FetchData / StoreCookie
// calls on one real Fetcher against a scripted QUIC peer (the project's own scion.ListenQUIC; both
// ends in one AS, empty path), written as cases of kind ke.quic in the format of ke.hist and compared
// with the model of the QUIC branch.  D-C20b (repaired in /repo by 38f59d0: the Data returned by
// dialQUIC used to be discarded, so the defaults "key-exchange host, port 10123" were never applied
// and the fields of the previous exchange survived) is what these histories are built around.
// C20_QUIC=0 switches the kind off.

var quicIA addr.IA

func init() {
	ia, err := addr.ParseIA("1-ff00:0:110")
	if err != nil {
		panic(err)
	}
	quicIA = ia
}

// quicPeer is the scripted key-exchange peer behind a QUIC listener.
type quicPeer struct {
	ln      *scion.QUICListener
	port    int
	dead    *net.UDPConn // bound, never read: the address of a peer that does not answer
	mu      sync.Mutex
	cur     *script
	hellos  int  // ClientHellos that reached the peer's TLS stack since begin()
	expect  bool // the first of them offered a protocol of the script's list: that handshake can complete
	obs     []connObs
	handled chan struct{}
}

func newQUICPeer(ip net.IP) *quicPeer {
	p := &quicPeer{handled: make(chan struct{}, 64)}
	cfg := &tls.Config{
		Certificates: []tls.Certificate{cert},
		NextProtos:   []string{"ntske/1"},
		MinVersion:   tls.VersionTLS13,
		// one configuration per connection attempt: the ALPN list of the current script
		GetConfigForClient: func(chi *tls.ClientHelloInfo) (*tls.Config, error) {
			p.mu.Lock()
			p.hellos++
			sc := p.cur
			var alpn []string
			if sc != nil {
				alpn = append(alpn, sc.alpn...)
			}
			if p.hellos == 1 {
				for _, a := range alpn {
					if hasProto(chi.SupportedProtos, a) {
						p.expect = true
					}
				}
			}
			p.mu.Unlock()
			return &tls.Config{Certificates: []tls.Certificate{cert}, NextProtos: alpn, MinVersion: tls.VersionTLS13}, nil
		},
	}
	ln, err := scion.ListenQUIC(context.Background(), udp.UDPAddr{IA: quicIA, Host: &net.UDPAddr{IP: ip, Port: 0}}, cfg, nil)
	if err != nil {
		panic(err)
	}
	p.ln = ln
	p.port = ln.Addr().(udp.UDPAddr).Host.Port
	p.dead, err = net.ListenUDP("udp", &net.UDPAddr{IP: ip, Port: 0})
	if err != nil {
		panic(err)
	}
	go p.acceptLoop()
	return p
}

func (p *quicPeer) close() {
	p.ln.Close()
	p.dead.Close()
}

func (p *quicPeer) acceptLoop() {
	for {
		conn, err := p.ln.Accept(context.Background())
		if err != nil {
			return
		}
		p.mu.Lock()
		sc := p.cur
		p.mu.Unlock()
		go p.handle(sc, conn.ConnectionState().TLS, conn,
			func(drop bool) {
				if drop {
					conn.CloseWithError(1, "drop")
				} else {
					conn.CloseWithError(0, "")
				}
			},
			func(ctx context.Context) (qstream, error) {
				s, err := conn.AcceptStream(ctx)
				if err != nil {
					return nil, err
				}
				return s, nil
			})
	}
}

// qconn is what the peer uses of a quic.Connection (the type itself is not imported: the harness
// module lists quic-go as an indirect dependency only)
type qconn interface{ Context() context.Context }

type qstream interface {
	io.Reader
	io.Writer
	io.Closer
	SetReadDeadline(time.Time) error
}

func waitDone(conn qconn, d time.Duration) {
	select {
	case <-conn.Context().Done():
	case <-time.After(d):
	}
}

func (p *quicPeer) handle(sc *script, st tls.ConnectionState, conn qconn, closeConn func(drop bool),
	acceptStream func(context.Context) (qstream, error)) {
	o := connObs{hsOK: true, negotiated: st.NegotiatedProtocol}
	o.c2s, _ = st.ExportKeyingMaterial(rfcLabel, rfcC2S, 32)
	o.s2c, _ = st.ExportKeyingMaterial(rfcLabel, rfcS2C, 32)
	p.mu.Lock()
	p.obs = append(p.obs, o)
	p.mu.Unlock()
	select {
	case p.handled <- struct{}{}:
	default:
	}
	defer closeConn(false)
	if sc == nil {
		return
	}
	out := sc.sent()
	if len(out) == 0 && sc.ending == 1 {
		// the connection is dropped before a byte of the message is sent
		closeConn(true)
		return
	}
	ctx, cancel := context.WithTimeout(context.Background(), 30*time.Second)
	defer cancel()
	stream, err := acceptStream(ctx)
	if err != nil {
		return
	}
	// the client's request (next protocol, algorithm, end of message = 16 bytes) is read completely
	stream.SetReadDeadline(time.Now().Add(30 * time.Second))
	buf := make([]byte, 64)
	for got := 0; got < 16; {
		n, err := stream.Read(buf)
		got += n
		if err != nil {
			return
		}
	}
	for _, n := range sc.chunks {
		if n <= 0 || len(out) == 0 {
			break
		}
		if n > len(out) {
			n = len(out)
		}
		if _, err := stream.Write(out[:n]); err != nil {
			return
		}
		out = out[n:]
	}
	if len(out) > 0 {
		if _, err := stream.Write(out); err != nil {
			return
		}
	}
	if sc.ending == 2 {
		// the stream stays open: a client that has seen the end of the message does not wait
		// for more; safety net as in the TLS peer
		waitDone(conn, 3*time.Second)
	}
	// end of the stream after the bytes sent; resetting the stream or closing the connection
	// here instead could destroy bytes the client has not read yet, so every other ending is
	// this one.  The connection is the client's to close.
	stream.Close()
	waitDone(conn, 10*time.Second)
}

func (p *quicPeer) begin(sc *script) {
	for {
		select {
		case <-p.handled:
			continue
		default:
		}
		break
	}
	p.mu.Lock()
	p.cur = sc
	p.hellos = 0
	p.expect = false
	p.obs = nil
	p.mu.Unlock()
}

// end returns the number of connection attempts that reached the peer and what it saw of the
// first connection.  When FetchData has returned, a ClientHello it caused has been processed (the
// client cannot get an answer, or an alert, before); a client whose handshake completed has had
// its connection accepted before it could read a byte of the answer.  Whether the handshake can
// complete is decided by crypto/tls from the protocols the client really offered and the script's
// list; if it can, the acceptance is waited for.
func (p *quicPeer) end() (int, connObs) {
	p.mu.Lock()
	expect := p.expect
	p.mu.Unlock()
	if expect {
		select {
		case <-p.handled:
		case <-time.After(30 * time.Second):
			fmt.Println("NOTE quic peer: no connection was accepted although one was expected")
		}
	}
	p.mu.Lock()
	defer p.mu.Unlock()
	var o connObs
	if len(p.obs) > 0 {
		o = p.obs[0]
	}
	return p.hellos, o
}

func classifyQUIC(err error, sessionUp bool) int {
	c := classify(err, sessionUp)
	if c != 98 {
		return c
	}
	// quic-go's connection-level errors (application/transport close, idle and handshake
	// timeout, stateless reset) all match net.ErrClosed
	if errors.Is(err, net.ErrClosed) {
		return 2 // read/write error on the established connection
	}
	return 98
}

func newQUICFetcher(r *lib.Rng) *ntske.Fetcher {
	f := &ntske.Fetcher{}
	f.Log = fetcherLog(r)
	cfg := tls.Config{MinVersion: tls.VersionTLS13}
	switch r.Intn(3) {
	case 0: // as timeservice.go configures it
		cfg.NextProtos = []string{"ntske/1"}
		cfg.InsecureSkipVerify = true
	case 1: // verified certificate, ALPN left to the package
		cfg.RootCAs = roots
	default: // a list the package has to replace
		cfg.RootCAs = roots
		cfg.NextProtos = []string{"h2"}
	}
	cfg.ServerName = addrA.String()
	f.TLSConfig = cfg
	f.QUIC.Enabled = true
	// the client's own address differs from the peer's, so that a default target taken from the
	// wrong end of the connection shows
	f.QUIC.LocalAddr = udp.UDPAddr{IA: quicIA, Host: &net.UDPAddr{IP: addrB}}
	return f
}

func hasProto(l []string, p string) bool {
	for _, x := range l {
		if x == p {
			return true
		}
	}
	return false
}

// doFetchQUIC is doFetch for a Fetcher with QUIC.Enabled.
func doFetchQUIC(p *quicPeer, f *ntske.Fetcher, o *op) (string, bool, ntske.Data) {
	port := p.port
	if o.sc.mode == 1 {
		port = p.dead.LocalAddr().(*net.UDPAddr).Port // nothing answers there
	}
	o.host = addrA.String()
	f.QUIC.RemoteAddr = udp.UDPAddr{IA: quicIA, Host: &net.UDPAddr{IP: addrA, Port: port}}
	p.begin(&o.sc)
	ch := make(chan fetchRes, 1)
	go func() {
		d, err := f.FetchData(context.Background())
		ch <- fetchRes{d, err}
	}()
	var res fetchRes
	select {
	case res = <-ch:
	case <-time.After(120 * time.Second):
		panic("FetchData over QUIC did not return within 120 s")
	}
	conns, co := p.end()
	cls := classifyQUIC(res.err, co.hsOK)
	items := []string{lib.I(int64(conns)), lib.Bool(co.hsOK), lib.B([]byte(co.negotiated)), lib.B(co.c2s), lib.B(co.s2c), lib.I(int64(cls))}
	items = append(items, fmtData(res.d)...)
	if cls == 98 {
		fmt.Println("NOTE unclassified error (quic):", res.err)
	}
	return lib.L(items...), res.err == nil, res.d
}

// ---- histories ----

func newQUICHist(r *lib.Rng, p *quicPeer) *hist {
	return &hist{f: newQUICFetcher(r), q: p, tags: map[string]bool{"quic": true}}
}

func named(r *lib.Rng, sc *script) {
	sc.recs = insertAt(sc.recs, 0, rec{6, false, []byte(lib.Pick(r, "10.1.1.1", "10.20.30.40", "2001:db8::1"))})
	sc.recs = insertAt(sc.recs, 0, rec{7, false, u16(lib.Pick(r, 4123, 123, 65535, 1+r.Intn(65535)))})
}

func unnamed(sc *script) {
	var rs []rec
	for _, x := range sc.recs {
		if x.typ != 6 && x.typ != 7 {
			rs = append(rs, x)
		}
	}
	sc.recs = rs
}

func oneCookie(sc *script) {
	var rs []rec
	seen := false
	for _, x := range sc.recs {
		if x.typ == 5 {
			if seen {
				continue
			}
			seen = true
		}
		rs = append(rs, x)
	}
	sc.recs = rs
}

// the shapes around D-C20b: what an exchange leaves in f.data must not reach the next one
func genQUICDefaults(r *lib.Rng, p *quicPeer) {
	h := newQUICHist(r, p)
	h.tags["defaults"] = true
	switch r.Intn(4) {
	case 0: // the first exchange of a fetcher names nothing
		sc := genScript(r, h, true)
		unnamed(&sc)
		finishScript(r, &sc, false)
		h.step(sc)
	case 1: // target named, pool used up, then an exchange that names nothing
		sc := genScript(r, h, true)
		named(r, &sc)
		if r.Intn(2) == 0 {
			oneCookie(&sc)
		}
		finishScript(r, &sc, false)
		h.step(sc)
		for i := 0; i < 12 && h.pool > 0; i++ {
			h.step(h.probe())
		}
		sc2 := genScript(r, h, true)
		unnamed(&sc2)
		finishScript(r, &sc2, false)
		h.step(sc2)
	case 2: // a good exchange, pool used up, then one without an algorithm record (and others that must fail)
		sc := genScript(r, h, true)
		oneCookie(&sc)
		finishScript(r, &sc, false)
		h.step(sc)
		sc2 := genScript(r, h, true)
		var rs []rec
		for _, x := range sc2.recs {
			if x.typ != 4 {
				rs = append(rs, x)
			}
		}
		sc2.recs = rs
		h.tags["m-noaead"] = true
		finishScript(r, &sc2, false)
		h.step(sc2)
		h.step(genScript(r, h, true))
	default: // target named, a failure, then an exchange that names nothing
		sc := genScript(r, h, true)
		named(r, &sc)
		oneCookie(&sc)
		finishScript(r, &sc, false)
		h.step(sc)
		h.step(genScript(r, h, false))
		sc2 := genScript(r, h, true)
		unnamed(&sc2)
		finishScript(r, &sc2, false)
		h.step(sc2)
	}
	h.finish()
}

// dial failures take quic-go's handshake timeout (5 s) each: one history, run beside the others
// on its own peer
func genQUICDial(r *lib.Rng, p *quicPeer) *hist {
	h := newQUICHist(r, p)
	h.tags["dial"] = true
	h.deferred = true
	none := script{mode: 1, alpn: []string{"ntske/1"}}
	h.step(none)
	sc := genScript(r, h, true)
	named(r, &sc)
	oneCookie(&sc)
	finishScript(r, &sc, false)
	h.step(sc)
	h.step(none)
	sc2 := genScript(r, h, true)
	unnamed(&sc2)
	finishScript(r, &sc2, false)
	h.step(sc2)
	h.finish()
	return h
}

func genQUICSweeps(r *lib.Rng, p *quicPeer) {
	base := []rec{{1, true, u16(0)}, {4, true, u16(15)}, {6, false, []byte("10.0.0.7")}, {7, false, u16(4123)},
		{5, false, r.Bytes(24)}, {5, false, r.Bytes(24)}, {0, true, nil}}
	full := totalLen(base)
	for k := 0; k <= full; k += 1 + r.Intn(3) {
		h := newQUICHist(r, p)
		sc := script{alpn: []string{"ntske/1"}, recs: base, cut: k}
		finishScript(r, &sc, true)
		h.tags["trunc"] = true
		h.tags["sweep"] = true
		h.step(sc)
		h.finish()
	}
	for _, al := range append(alpnLists, []string{"ntske/1"}) {
		h := newQUICHist(r, p)
		sc := script{alpn: al, recs: base}
		finishScript(r, &sc, false)
		h.tags["sweep"] = true
		h.tags["alpn"] = true
		h.step(sc)
		h.finish()
	}
}

// genQUIC writes n random histories plus the fixed shapes.  The dial-failure history runs
// beside everything else on a peer of its own; the function returned waits for it and writes it.
func genQUIC(r *lib.Rng, n int) func() {
	pd := newQUICPeer(addrA)
	rd := r.Fork()
	done := make(chan *hist, 1)
	go func() { done <- genQUICDial(rd, pd) }()
	p := newQUICPeer(addrA)
	defer p.close()
	genQUICSweeps(r, p)
	genBodyLen(r, func() *hist { return newQUICHist(r, p) })
	for i := 0; i < 4+n/40; i++ {
		genBig(r, newQUICHist(r, p), i)
	}
	for i := 0; i < n; i++ {
		if i%3 == 0 {
			genQUICDefaults(r, p)
		} else {
			genHistoryOn(r, newQUICHist(r, p))
		}
	}
	return func() {
		defer pd.close()
		select {
		case h := <-done:
			h.deferred = false
			h.write()
		case <-time.After(300 * time.Second):
			panic("the QUIC dial-failure history did not finish")
		}
	}
}

func replayQUIC(r *lib.Rng, ops []op, tags string) {
	p := newQUICPeer(addrA)
	defer p.close()
	replayOn(newQUICHist(r, p), ops, tags)
}
