package main

import (
	"context"
	"crypto/tls"
	"fmt"
	"net"
	"strconv"
	"sync"
	"time"

	"example.com/scion-time/net/ntske"

	"verifharness/lib"
)

// ke.overlap: two or three goroutines call FetchData on ONE Fetcher.  The scripted TLS peer holds
// the first connection in the middle of its message (after the records before the cookies and
// 0, 1 or 3 cookie records) until the other calls have been issued and - should the Fetcher let
// them in - served; then the first message goes on (more cookies, then the end of the message, an
// error record, or the end of the connection).  Observed: every call's result, what the peer saw
// of every connection in the order of arrival (its own exporter values), and what the Fetcher
// holds afterwards (VerifData).  With the Fetcher's lock the calls take effect one after the
// other; which of the waiting calls goes first is free.

type ovPeer struct {
	ln      net.Listener
	mu      sync.Mutex
	scripts []script
	pauseAt int
	obs     []connObs
	paused  chan struct{}
	resume  chan struct{}
	wg      sync.WaitGroup
}

func newOvPeer() *ovPeer {
	ln, err := net.Listen("tcp", net.JoinHostPort(addrA.String(), "0"))
	if err != nil {
		panic(err)
	}
	p := &ovPeer{ln: ln}
	go func() {
		for {
			c, err := ln.Accept()
			if err != nil {
				return
			}
			p.wg.Add(1)
			go p.handle(c)
		}
	}()
	return p
}

func (p *ovPeer) handle(c net.Conn) {
	defer p.wg.Done()
	defer c.Close()
	c.SetDeadline(time.Now().Add(60 * time.Second))
	tc := tls.Server(c, &tls.Config{Certificates: []tls.Certificate{cert}, NextProtos: []string{"ntske/1"}, MinVersion: tls.VersionTLS13})
	if err := tc.Handshake(); err != nil {
		return
	}
	st := tc.ConnectionState()
	o := connObs{hsOK: true, negotiated: st.NegotiatedProtocol}
	o.c2s, _ = st.ExportKeyingMaterial(rfcLabel, rfcC2S, 32)
	o.s2c, _ = st.ExportKeyingMaterial(rfcLabel, rfcS2C, 32)
	p.mu.Lock()
	k := len(p.obs)
	p.obs = append(p.obs, o)
	var sc *script
	if k < len(p.scripts) {
		sc = &p.scripts[k]
	}
	pauseAt := p.pauseAt
	p.mu.Unlock()
	req := make([]byte, 64)
	for got := 0; got < 16; {
		n, err := tc.Read(req)
		got += n
		if err != nil {
			return
		}
	}
	if sc == nil {
		return
	}
	out := sc.sent()
	if k == 0 {
		if pauseAt > len(out) {
			pauseAt = len(out)
		}
		if _, err := tc.Write(out[:pauseAt]); err != nil {
			return
		}
		out = out[pauseAt:]
		p.paused <- struct{}{}
		<-p.resume
	}
	if len(out) > 0 {
		if _, err := tc.Write(out); err != nil {
			return
		}
	}
	tc.Close()
}

var theOv *ovPeer

type ovRes struct {
	d   ntske.Data
	err error
}

// runOverlap: scripts in the order in which connections reach the peer (the first one pauses at
// pauseAt bytes), ncalls concurrent calls.
func runOverlap(r *lib.Rng, scripts []script, pauseAt, ncalls int, tags string) {
	if theOv == nil {
		theOv = newOvPeer()
	}
	p := theOv
	p.wg.Wait()
	p.mu.Lock()
	p.scripts, p.pauseAt, p.obs = scripts, pauseAt, nil
	p.paused, p.resume = make(chan struct{}, 1), make(chan struct{})
	p.mu.Unlock()
	f := &ntske.Fetcher{Log: fetcherLog(r)}
	f.TLSConfig = tls.Config{InsecureSkipVerify: true, MinVersion: tls.VersionTLS13, ServerName: addrA.String()}
	f.Port = strconv.Itoa(p.ln.Addr().(*net.TCPAddr).Port)
	res := make([]chan ovRes, ncalls)
	call := func(i int, issued chan struct{}) {
		res[i] = make(chan ovRes, 1)
		go func() {
			if issued != nil {
				close(issued)
			}
			d, err := f.FetchData(context.Background())
			res[i] <- ovRes{d, err}
		}()
	}
	call(0, nil)
	select {
	case <-p.paused:
	case <-time.After(60 * time.Second):
		panic("ke.overlap: the first exchange did not reach its pause")
	}
	// the first call is inside its exchange now; the others are made
	got := make([]*ovRes, ncalls)
	for i := 1; i < ncalls; i++ {
		issued := make(chan struct{})
		call(i, issued)
		<-issued
	}
	// a Fetcher that lets them in serves them now; one that serialises makes them wait, and then
	// nothing happens until the first message goes on.  Waiting longer only gives a faulty
	// Fetcher more time to show itself: what a correct one returns does not depend on it.
	grace := time.After(150 * time.Millisecond)
wait:
	for i := 1; i < ncalls; i++ {
		select {
		case x := <-res[i]:
			got[i] = &x
		case <-grace:
			break wait
		}
	}
	close(p.resume)
	for i := 0; i < ncalls; i++ {
		if got[i] != nil {
			continue
		}
		select {
		case x := <-res[i]:
			got[i] = &x
		case <-time.After(60 * time.Second):
			panic("ke.overlap: FetchData did not return")
		}
	}
	p.wg.Wait()
	final := f.VerifData()
	p.mu.Lock()
	obs := append([]connObs{}, p.obs...)
	p.mu.Unlock()
	var ops []op
	for _, sc := range scripts {
		ops = append(ops, op{sc: sc, host: addrA.String()})
	}
	var calls, conns []string
	for i := 0; i < ncalls; i++ {
		cls := classify(got[i].err, true)
		if cls == 98 {
			fmt.Println("NOTE unclassified error (overlap):", got[i].err)
		}
		calls = append(calls, lib.L(append([]string{lib.I(int64(cls))}, fmtData(got[i].d)...)...))
	}
	for _, o := range obs {
		conns = append(conns, lib.L(lib.Bool(o.hsOK), lib.B([]byte(o.negotiated)), lib.B(o.c2s), lib.B(o.s2c)))
	}
	w.Case("ke.overlap", tags, lib.V(fmtOps(ops), lib.I(int64(pauseAt)), lib.I(int64(ncalls))),
		lib.V(lib.L(calls...), lib.L(conns...), lib.L(fmtData(final)...)))
}

// ovMsg: a message with n cookies whose records before the cookies take `head` bytes; how it
// ends: 0 end of message, 1 an error record instead, 2 the connection ends before the end of message
func ovMsg(r *lib.Rng, n int, ending int, server string, port int) (script, []int) {
	rs := []rec{{1, true, u16(0)}, {4, true, u16(15)}}
	if server != "" {
		rs = append(rs, rec{6, false, []byte(server)})
	}
	if port != 0 {
		rs = append(rs, rec{7, false, u16(port)})
	}
	offs := []int{totalLen(rs)} // byte offsets after 0, 1, 2, ... cookie records
	for i := 0; i < n; i++ {
		rs = append(rs, rec{5, false, r.Bytes(lib.Pick(r, 100+4*r.Intn(8), 129+r.Intn(768)))})
		offs = append(offs, totalLen(rs))
	}
	switch ending {
	case 0:
		rs = append(rs, rec{0, true, nil})
	case 1:
		rs = append(rs, rec{2, true, u16(lib.Pick(r, 0, 1, 2))}, rec{0, true, nil})
	}
	sc := script{alpn: []string{"ntske/1"}, recs: rs}
	sc.cut = len(sc.full())
	return sc, offs
}

func genOverlaps(r *lib.Rng, n int) {
	for i := 0; i < n; i++ {
		ncalls := 2 + r.Intn(2)
		n1 := lib.Pick(r, 1, 2, 4, 8)
		ending := lib.Pick(r, 0, 0, 1, 2)
		first, offs := ovMsg(r, n1, ending, lib.Pick(r, "", "10.1.1.1"), lib.Pick(r, 0, 4123))
		j := lib.Pick(r, 0, 1, 3)
		if j > n1 {
			j = n1
		}
		if i < 9 { // every combination of pause position and ending at least once
			j = []int{0, 1, 3}[i%3]
			ending = i / 3
			n1 = 4
			first, offs = ovMsg(r, n1, ending, "10.1.1.1", 4123)
		}
		scripts := []script{first}
		for k := 1; k < ncalls; k++ {
			sc, _ := ovMsg(r, lib.Pick(r, 1, 2, 3), lib.Pick(r, 0, 0, 0, 1), lib.Pick(r, "", "10.2.2.2"), lib.Pick(r, 0, 5123))
			scripts = append(scripts, sc)
		}
		tags := fmt.Sprintf("overlap,nt,pause%d,end%d,calls%d", j, ending, ncalls)
		runOverlap(r, scripts, offs[j], ncalls, tags)
	}
}
