// C20: drives the real ntske.Fetcher (FetchData / StoreCookie) and the real IP client of /repo
// against a scripted TLS 1.3 key-exchange peer and against the project's own key-exchange
// server, over histories of failed and successful exchanges on one Fetcher.
package main

import (
	"context"
	"crypto/tls"
	"crypto/x509"
	"errors"
	"fmt"
	"io"
	"log/slog"
	"net"
	"os"
	"runtime"
	"sort"
	"strconv"
	"strings"
	"time"

	"example.com/scion-time/net/ntske"

	"verifharness/lib"
)

var (
	w      *lib.Writer
	addrA  net.IP // the scripted key-exchange peer (and default NTP target)
	addrB  net.IP // nothing listens for TCP here; source of sentinel connections; alternative NTP target
	peer   *peerSrv
	cert   tls.Certificate
	roots  *x509.CertPool
	nFetch int
)

func ownIP(second byte) net.IP {
	pid := os.Getpid()
	return net.IPv4(127, second, byte(pid>>8), byte(pid))
}

// error classes (see coq/Model/Ntske.v)
func classify(err error, sessionUp bool) int {
	if err == nil {
		return 0
	}
	if !sessionUp {
		return 11 // no TLS session: the dial failed
	}
	s := err.Error()
	switch {
	case s == "server does not support ntske/1":
		return 1
	case errors.Is(err, io.EOF), errors.Is(err, io.ErrUnexpectedEOF):
		return 2
	case s == "ntske received unrecognized critical error message":
		return 4
	case s == "ntske received bad request error message":
		return 5
	case s == "ntske received internal server error message":
		return 6
	case s == "ntske received unknown error message":
		return 7
	case strings.HasPrefix(s, "unknown record type"):
		return 8
	case s == "unexpected NTS-KE meta data: no cookies":
		return 9
	case s == "unexpected NTS-KE meta data: unknown algorithm":
		return 10
	case s == "unexpected NTS-KE meta data: cookie too long":
		return 13
	}
	var ne net.Error
	if errors.As(err, &ne) {
		return 2 // read/write error on the established connection
	}
	return 98
}

// fetcherLog: every other Fetcher logs at debug level (into nothing): what is logged, and how,
// must not touch the data.
func fetcherLog(r *lib.Rng) *slog.Logger {
	if r.Intn(2) == 0 {
		return slog.New(slog.NewTextHandler(io.Discard, &slog.HandlerOptions{Level: slog.LevelDebug}))
	}
	return slog.New(slog.DiscardHandler)
}

func newFetcher(r *lib.Rng) *ntske.Fetcher {
	f := &ntske.Fetcher{}
	f.Log = fetcherLog(r)
	cfg := tls.Config{MinVersion: tls.VersionTLS13}
	switch r.Intn(3) {
	case 0: // as timeservice.go configures it
		cfg.NextProtos = []string{"ntske/1"}
		cfg.InsecureSkipVerify = true
	case 1: // verified certificate, ALPN left to the package
		cfg.RootCAs = roots
	default:
		cfg.RootCAs = roots
		cfg.NextProtos = []string{"ntske/1"}
	}
	f.TLSConfig = cfg
	f.Port = strconv.Itoa(peer.port())
	return f
}

func hostOf(sc *script) string {
	if sc.mode == 1 {
		return addrB.String()
	}
	return addrA.String()
}

func fmtData(d ntske.Data) []string {
	cs := make([]string, len(d.Cookie))
	for i, c := range d.Cookie {
		cs[i] = lib.B(c)
	}
	return []string{lib.B(d.C2sKey), lib.B(d.S2cKey), lib.B([]byte(d.Server)), lib.I(int64(d.Port)), lib.I(int64(d.Algo)), lib.L(cs...)}
}

type fetchRes struct {
	d   ntske.Data
	err error
}

// doFetch performs one FetchData against the script and returns the observation line and
// whether the call succeeded.
func doFetch(f *ntske.Fetcher, o *op) (string, bool, ntske.Data) {
	o.host = hostOf(&o.sc)
	f.TLSConfig.ServerName = o.host
	f.Port = strconv.Itoa(peer.port())
	if o.named && peer.ln2 != nil && o.sc.mode == 0 {
		// a DNS-style name: the default NTP server is the address of the connection, not the name
		f.TLSConfig.ServerName = "localhost"
		f.Port = strconv.Itoa(peer.port2())
		o.host = "127.0.0.1"
	} else {
		o.named = false
	}
	peer.begin(&o.sc)
	ch := make(chan fetchRes, 1)
	go func() {
		d, err := f.FetchData(context.Background())
		ch <- fetchRes{d, err}
	}()
	var res fetchRes
	select {
	case res = <-ch:
	case <-time.After(120 * time.Second):
		panic("FetchData did not return within 120 s")
	}
	conns, co := peer.end()
	nFetch++
	if nFetch%64 == 0 {
		runtime.GC() // the TLS branch of exchangeKeys never closes its connection; let finalizers do it
	}
	cls := classify(res.err, co.hsOK)
	items := []string{lib.I(int64(conns)), lib.Bool(co.hsOK), lib.B([]byte(co.negotiated)), lib.B(co.c2s), lib.B(co.s2c), lib.I(int64(cls))}
	items = append(items, fmtData(res.d)...)
	if cls == 98 {
		fmt.Println("NOTE unclassified error:", res.err)
	}
	return lib.L(items...), res.err == nil, res.d
}

// hist is one history on one fresh Fetcher.
type hist struct {
	f         *ntske.Fetcher
	kind      string    // case kind, if not the one of the transport
	q         *quicPeer // non-nil: the Fetcher has QUIC.Enabled and this is its scripted peer (kind ke.quic)
	deferred  bool      // written later by the caller
	ops       []op
	obs       []string
	tags      map[string]bool
	lastOK    bool
	nameEvery int // every nameEvery-th FetchData is given the name "localhost" (0: never)
	fetches   int
	pool      int // cookies the fetcher should still hold, as far as the harness can tell
}

func newHist(r *lib.Rng) *hist {
	h := &hist{f: newFetcher(r), tags: map[string]bool{}}
	if r.Intn(3) == 0 {
		h.nameEvery = 1 + r.Intn(3)
	}
	return h
}

func (h *hist) fetch(sc script) (bool, ntske.Data) {
	o := op{sc: sc}
	h.fetches++
	if h.q == nil && h.nameEvery > 0 && h.fetches%h.nameEvery == 0 && sc.mode == 0 && peer.ln2 != nil {
		o.named = true
		h.tags["name"] = true
	}
	var line string
	var ok bool
	var d ntske.Data
	if h.q != nil {
		line, ok, d = doFetchQUIC(h.q, h.f, &o)
	} else {
		line, ok, d = doFetch(h.f, &o)
	}
	h.ops = append(h.ops, o)
	h.obs = append(h.obs, line)
	h.lastOK = ok
	if ok {
		h.pool = len(d.Cookie) - 1
	} else {
		h.pool = 0
	}
	return ok, d
}

func (h *hist) store(c []byte) {
	h.f.StoreCookie(c)
	h.ops = append(h.ops, op{store: true, cookie: c})
	if len(c) <= 896 && h.pool < 8 { // ntske.MaxCookieLen, ntske.MaxStoredCookies
		h.pool++
	}
}

func (h *hist) write() {
	if h.deferred {
		return
	}
	kind := "ke.hist"
	if h.q != nil {
		kind = "ke.quic"
	}
	if h.kind != "" {
		kind = h.kind
	}
	var ts []string
	for t := range h.tags {
		ts = append(ts, t)
	}
	sort.Strings(ts)
	args := fmtOps(h.ops)
	if h.kind == "ke.bodylen" { // one kind for both transports: the transport is an argument
		args = lib.V(args, lib.Bool(h.q != nil))
	}
	w.Case(kind, strings.Join(ts, ","), args, lib.L(h.obs...))
}

func replayHist(r *lib.Rng, ops []op, tags string) { replayOn(newHist(r), ops, tags) }

func replayOn(h *hist, ops []op, tags string) {
	for _, t := range strings.Split(tags, ",") {
		if strings.HasPrefix(t, "kind=") {
			h.kind = t[5:]
		} else if t != "" {
			h.tags[t] = true
		}
	}
	for _, o := range ops {
		if o.store {
			h.store(o.cookie)
		} else {
			h.nameEvery, h.fetches = 0, 0
			if o.named {
				h.nameEvery = 1
			}
			h.fetch(o.sc)
		}
	}
	h.write()
}

func main() {
	a := lib.ParseArgs()
	addrA, addrB = ownIP(20), ownIP(120)
	cert, roots = selfSigned(addrA, addrB)
	peer = newPeer(addrA, addrB, cert, roots)
	w = lib.NewWriter(a.Out)
	defer w.Close()
	// lib.NewRng(k+1) is lib.NewRng(k) advanced by one draw: fork so that seeds give unrelated streams
	r := lib.NewRng(a.Seed).Fork()
	if a.Replay != "" {
		for _, c := range lib.ReplayLines(a.Replay) {
			switch c[0] {
			case "ke.hist":
				replayHist(r, parseOps(c[2]), c[1])
			case "ke.quic":
				replayQUIC(r, parseOps(c[2]), c[1])
			case "ke.bodylen":
				if strings.Contains(c[1], "quic") {
					replayQUIC(r, parseOps(c[2]), c[1]+",kind=ke.bodylen")
				} else {
					replayHist(r, parseOps(c[2]), c[1]+",kind=ke.bodylen")
				}
			case "ke.target":
				vs := parseVals(c[2])
				var ch [][2]int
				for _, st := range vs[3].l {
					ch = append(ch, [2]int{int(st.l[0].z), int(st.l[1].z)})
				}
				runTarget(r, ch)
			case "ke.own":
				runOwn(r)
			case "ke.overlap":
				vs := parseVals(c[2])
				var scs []script
				for _, o := range parseOps(c[2]) {
					scs = append(scs, o.sc)
				}
				runOverlap(r, scs, int(vs[1].z), int(vs[2].z), c[1])
			case "ke.ownq":
				runOwnQ(r)
			case "ke.starget":
				vs := parseVals(c[2])
				var ch [][2]int
				for _, st := range vs[3].l {
					ch = append(ch, [2]int{int(st.l[0].z), int(st.l[1].z)})
				}
				runSTarget(r, vs[0].z != 0, ch)
			}
		}
		return
	}
	n := 2500
	if a.Tier == "thorough" {
		n = 12000
	}
	genAll(r, n, a.Tier == "thorough")
}
