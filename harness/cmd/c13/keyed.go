package main

// The keyed child: the real listener and the real client fetch their DRKeys
// from a DRKey daemon (scion.NewDaemonConnector -> gRPC) that the harness runs
// itself (drkeyown.go: the harness' own key hierarchy, written from the DRKey
// specification, no project or scionproto derivation code).  The host-host key
// differs for every (server ISD-AS and host, client ISD-AS and host, epoch) -
// unlike USE_MOCK_KEYS, where every key is the zero key.  The listener takes
// the server host from the SCION destination host of the request, so one
// listener can be addressed under several host addresses.  The daemon treats
// some client ASes specially (modeOfIA): error, key of an epoch that is over,
// key of a wrong length.

import (
	"os"
	"strings"
	"sync"
	"time"

	"example.com/scion-time/net/scion"

	"verifharness/lib"
)

var keyedDaemonAddr string // "" outside the keyed child

// strictOn: also emit the keyed cases under the strict kinds (cli.strict,
// srv.strict), whose oracle demands that authentication fails closed.  The
// pinned code does not (KNOWN_FINDINGS): on by C13_STRICT=1, or by default once
// the findings file has an entry for kind cli.strict of this property.
var strictOn = func() bool {
	switch os.Getenv("C13_STRICT") {
	case "1":
		return true
	case "0":
		return false
	}
	b, err := os.ReadFile(os.Getenv("VERIF_ROOT") + "/KNOWN_FINDINGS.txt")
	if err != nil {
		return false
	}
	for _, l := range strings.Split(string(b), "\n") {
		if strings.HasPrefix(l, "finding:") && strings.Contains(l, "property=C13 ") && strings.Contains(l, "kind=cli.strict ") {
			return true
		}
	}
	return false
}()

// hostHostKey: the key of the current epoch between a server and a client host.
func hostHostKey(srvIA, cliIA uint64, srvHost, cliHost []byte) []byte {
	return ownKey(srvIA, cliIA, srvHost, cliHost, epochServed(cliIA))
}

// keyedKey: a datagram to the service port is a request (server = destination),
// anything else a reply (server = source).
func keyedKey(p *parsed) []byte {
	if !p.ok {
		return nil
	}
	if p.isUDP && p.udp.DstPort == scionPort {
		return expectedKey(uint64(p.scn.DstIA), uint64(p.scn.SrcIA), p.scn.RawDstAddr, p.scn.RawSrcAddr)
	}
	return expectedKey(uint64(p.scn.SrcIA), uint64(p.scn.DstIA), p.scn.RawSrcAddr, p.scn.RawDstAddr)
}

// keyedFlags: for a request to the service, whether the daemon hands out a key
// for the client's AS and whether that key's epoch is the current one.
func keyedFlags(raw []byte) []string {
	p := parse(raw)
	keyok, epochok := true, true
	if p.ok && p.isUDP && p.udp.DstPort == scionPort {
		switch modeOfIA(uint64(p.scn.SrcIA)) {
		case modeError, modeShort, modeLong:
			keyok = false
		case modeExpired:
			epochok = false
		}
	}
	return []string{lib.Bool(keyok), lib.Bool(epochok)}
}

// genKeyedHistory: one listener goroutine (one sending socket, so one
// Fetcher with its per-client-AS cache) is addressed under several server
// host addresses by clients of one or two ISD-ASes: authenticated requests
// with the key of the addressed host, with the key of another host of the
// server, of another client, with a damaged MAC, and plain ones.
func (d *drv) genKeyedHistory(r *lib.Rng) ([]step, string) {
	tags := tagset{"nt": true, "keyed": true}
	sender := r.Intn(nSenders)
	listener := r.Intn(2)
	srvIA := uint64(1+r.Intn(3))<<48 | 0xff0000000100 | uint64(r.Intn(64))
	// the second client AS is sometimes one the daemon refuses, or serves a stale or malformed key for
	mode2 := lib.Pick(r, 3, 3, 3, modeError, modeError, modeExpired, modeExpired, modeShort, modeLong)
	cliIAs := []uint64{uint64(1+r.Intn(3))<<48 | 0xff0000000200 | uint64(r.Intn(64)), uint64(1+r.Intn(3))<<48 | 0xff0000000000 | uint64(mode2)<<8 | uint64(r.Intn(64))}
	switch mode2 {
	case modeError:
		tags["daemon-error"] = true
	case modeExpired:
		tags["daemon-expired-epoch"] = true
	case modeShort, modeLong:
		tags["daemon-key-length"] = true
	}
	nHosts := 2 + r.Intn(2)
	type host struct {
		t   uint8
		raw []byte
	}
	var srvHosts, cliHosts []host
	for i := 0; i < nHosts; i++ {
		t, b := genHost(r, r.Intn(3) == 0)
		srvHosts = append(srvHosts, host{t, b})
		t, b = genHost(r, r.Intn(3) == 0)
		cliHosts = append(cliHosts, host{t, b})
	}
	n := 3 + r.Intn(6)
	var steps []step
	lastSrv := -1
	for len(steps) < n {
		si := r.Intn(nHosts)
		if len(steps) == 1 && si == lastSrv { // the second request goes to another address of the server
			si = (si + 1) % nHosts
		}
		ci := r.Intn(nHosts)
		cliIA := cliIAs[0]
		if r.Intn(4) == 0 || mode2 != 3 && r.Bool() {
			cliIA = cliIAs[1]
			tags["second-client-as"] = true
		}
		h := &pktSpec{auth: -1, dstIA: srvIA, srcIA: cliIA,
			dstType: srvHosts[si].t, dstRaw: srvHosts[si].raw, srcType: cliHosts[ci].t, srcRaw: cliHosts[ci].raw,
			tc: uint8(r.U64()), flow: uint32(r.U64()) & 0xfffff,
			udpSrc: uint16(20000 + r.Intn(10000)), udpDst: scionPort}
		h.pathType, h.pathRaw = genPath(r, tagset{})
		h.payload = ntpRequest(r, 0)
		if r.Intn(4) == 0 { // NTS and packet authentication at once
			v := lib.Pick(r, 0, 0, 0, 1, 2, 3)
			h.payload = ntsRequest(r, v)
			if v == 0 {
				tags["nts-valid"] = true
			} else {
				tags["nts-invalid"] = true
			}
		}
		switch k := r.Intn(10); {
		case k < 5 || len(steps) < 2: // the key of the addressed host
			addAuth(r, h, lib.Pick(r, 0, 0, 0, 8, 10), tagset{})
			tags["key-of-addressed-host"] = true
			if expectedKey(srvIA, cliIA, srvHosts[si].raw, cliHosts[ci].raw) == nil && r.Bool() {
				h.key = ownKey(srvIA, cliIA, srvHosts[si].raw, cliHosts[ci].raw, epochOf(time.Now()))
				tags["key-the-daemon-withholds"] = true
			}
			if modeOfIA(cliIA) == modeExpired && r.Intn(3) == 0 {
				h.key = ownKey(srvIA, cliIA, srvHosts[si].raw, cliHosts[ci].raw, epochOf(time.Now()))
				tags["current-key-daemon-serves-stale"] = true
			}
		case k < 7: // the key of another address of the server
			oi := (si + 1 + r.Intn(nHosts-1)) % nHosts
			addAuth(r, h, 0, tagset{})
			h.key = hostHostKey(srvIA, cliIA, srvHosts[oi].raw, cliHosts[ci].raw)
			tags["key-of-other-server-host"] = true
		case k == 7: // the key of another client host / client AS
			addAuth(r, h, 0, tagset{})
			if r.Bool() {
				h.key = hostHostKey(srvIA, cliIA, srvHosts[si].raw, cliHosts[(ci+1)%nHosts].raw)
			} else {
				h.key = hostHostKey(srvIA, cliIAs[1]^cliIAs[0]^cliIA, srvHosts[si].raw, cliHosts[ci].raw)
			}
			tags["key-of-other-client"] = true
		case k == 8: // the mock key / a damaged MAC
			addAuth(r, h, lib.Pick(r, 1, 2), tagset{})
			if r.Bool() {
				h.opts[0].data = authMeta(scion.PacketAuthSPIClient, 0)
				h.auth, h.key = 0, zeroKey
			}
			tags["keyed-badmac"] = true
		default:
			tags["plain"] = true
		}
		raw, err := h.build()
		if err != nil || probeCandidate(raw) {
			continue
		}
		if r.Intn(10) == 0 {
			m := mutate(r, raw, tags)
			if !probeCandidate(m) {
				raw = m
			}
		}
		lastSrv = si
		steps = append(steps, step{listener: listener, sender: sender, raw: raw})
	}
	tags["multi"] = true
	return steps, tags.String()
}

// ---- the keyed client ----

func genKeyedItem(r *lib.Rng, tags tagset) item {
	var it item
	switch r.Intn(10) {
	case 0, 1, 2: // the real listener's answer (its key: derived from the daemon's host-AS key)
		it.base = 1
		tags["relayed"] = true
		if r.Intn(4) == 0 {
			it.reqFlip = 1 + r.Intn(1<<20)
			tags["request-damaged"] = true
		}
	default:
		it.auth = lib.Pick(r, 1, 1, 1, 1, 0, 0, 10, 2, 3, 13, 13, 14, 15, 4, 5, 6, 7, 8, 9, 11, 12)
		switch it.auth {
		case 1, 8, 9, 11:
			tags["resp-auth-valid"] = true
		case 2, 3, 7:
			tags["resp-auth-badmac"] = true
		case 13:
			tags["resp-mac-other-epoch"] = true
		case 14:
			tags["resp-mac-other-host-key"] = true
		case 15:
			tags["resp-mac-mock-key"] = true
		case 0, 10:
			tags["resp-noauth"] = true
		default:
			tags["resp-auth-ignored"] = true
		}
		if r.Intn(8) == 0 {
			it.ntp = 1 + r.Intn(4)
			tags["resp-ntp-bad"] = true
		}
		if r.Intn(10) == 0 {
			it.addr = 1 + r.Intn(8)
			tags["resp-addr"] = true
		}
	}
	if r.Intn(4) == 0 { // the finished response (MAC included) is damaged on the way
		it.flip = 1 + r.Intn(1<<20)
		tags["resp-damaged"] = true
	}
	return it
}

func genKeyedCliCase(r *lib.Rng) (*cliCase, string) {
	tags := tagset{"nt": true, "keyed": true}
	cc := &cliCase{auth: r.Intn(8) != 0, seed: r.U64() >> 1, keyed: true}
	cc.mode = lib.Pick(r, modeOK, modeOK, modeOK, modeOK, modeOK, modeError, modeError, modeExpired, modeExpired, modeShort, modeLong)
	if cc.auth {
		tags["client-auth"] = true
		switch cc.scenario() {
		case 2:
			tags["client-without-key"] = true
		case 3:
			tags["client-stale-key"] = true
		}
	} else {
		tags["client-noauth"] = true
	}
	nx := lib.Pick(r, 1, 1, 2, 3)
	for i := 0; i < nx; i++ {
		n := lib.Pick(r, 1, 1, 2, 2, 2, 2, 3, 3)
		var s []item
		for j := 0; j < n; j++ {
			s = append(s, genKeyedItem(r, tags))
		}
		cc.scripts = append(cc.scripts, s)
	}
	return cc, tags.String()
}

func (d *drv) runKeyedCliAll(r *lib.Rng, n int) {
	type job struct {
		cc   *cliCase
		tags string
	}
	jobs := make(chan job)
	var wg sync.WaitGroup
	for w := 0; w < 16; w++ {
		wg.Add(1)
		go func(sender int) {
			defer wg.Done()
			for j := range jobs {
				d.runCli("cli.keyed", j.tags, j.cc, sender)
			}
		}(w % nSenders)
	}
	for i := 0; i < n && !d.lost; i++ {
		cc, tags := genKeyedCliCase(r)
		jobs <- job{cc, tags}
	}
	close(jobs)
	wg.Wait()
}

func keyedChild(a lib.Args) {
	ip := ownAddr(213)
	keyedDaemonAddr = startOwnDaemon(ip)
	keyFn = keyedKey
	stepFlags = keyedFlags
	srvKind = "srv.keyed"
	d := newDrvDaemon(keyedDaemonAddr)
	if a.Replay != "" {
		for _, l := range lib.ReplayLines(a.Replay) {
			switch l[0] {
			case "srv.keyed", "srv.strict":
				d.runSrvKind(l[0], l[1], parseSteps(l[2]))
			case "cli.keyed", "cli.strict":
				d.runCli(l[0], l[1], parseKeyedCliArgs(l[2]), 0)
			}
		}
		return
	}
	r := lib.NewRng(a.Seed ^ 0x6b657965)
	n, nCli := 250, 250
	if a.Tier == "thorough" {
		n, nCli = 2500, 2500
	}
	for i := 0; i < n && !d.lost; i++ {
		steps, tags := d.genKeyedHistory(r)
		d.runSrvKind("srv.keyed", tags, steps)
	}
	d.runKeyedCliAll(r.Fork(), nCli)
}
