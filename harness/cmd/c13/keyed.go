package main

// The keyed child: the real listener fetches its DRKeys from a DRKey daemon
// (scion.NewDaemonConnector -> gRPC) that the harness runs itself.  The
// daemon's host-AS key is a function of (protocol, server ISD-AS, server host,
// client ISD-AS) within one fixed epoch, so the host-host key differs for
// every (server host, client host) pair - unlike USE_MOCK_KEYS, where every key
// is the zero key.  The listener takes the server host from the SCION
// destination host of the request, so one listener can be addressed under
// several host addresses.

import (
	"context"
	"crypto/sha256"
	"fmt"
	"net"
	"net/netip"
	"time"

	"google.golang.org/grpc"
	"google.golang.org/protobuf/types/known/timestamppb"

	"github.com/scionproto/scion/pkg/addr"
	"github.com/scionproto/scion/pkg/drkey"
	sdpb "github.com/scionproto/scion/pkg/proto/daemon"
	"github.com/scionproto/scion/pkg/scrypto/cppki"

	"example.com/scion-time/net/scion"

	"verifharness/lib"
)

var epochBegin, epochEnd time.Time

func hostASKeyBytes(proto int32, srvIA, cliIA uint64, srvHost string) []byte {
	h := sha256.Sum256([]byte(fmt.Sprintf("%d|%d|%d|%s|%d", proto, srvIA, cliIA, srvHost, epochBegin.Unix())))
	return h[:16]
}

type fakeDaemon struct {
	sdpb.UnimplementedDaemonServiceServer
}

func (*fakeDaemon) DRKeyHostAS(ctx context.Context, req *sdpb.DRKeyHostASRequest) (*sdpb.DRKeyHostASResponse, error) {
	return &sdpb.DRKeyHostASResponse{
		EpochBegin: timestamppb.New(epochBegin),
		EpochEnd:   timestamppb.New(epochEnd),
		Key:        hostASKeyBytes(int32(req.ProtocolId), req.SrcIa, req.DstIa, req.SrcHost),
	}, nil
}

func startFakeDaemon(ip net.IP) string {
	now := time.Now()
	epochBegin, epochEnd = now.Add(-6*time.Hour), now.Add(6*time.Hour)
	l, err := net.Listen("tcp", net.JoinHostPort(ip.String(), "0"))
	if err != nil {
		panic(err)
	}
	s := grpc.NewServer()
	sdpb.RegisterDaemonServiceServer(s, &fakeDaemon{})
	go s.Serve(l)
	return l.Addr().String()
}

// hostHostKey: the key the listener derives for a request from cliHost in
// cliIA addressed to srvHost in srvIA (host-AS key of the daemon, then the
// project's own DeriveHostHostKey).
func hostHostKey(srvIA, cliIA uint64, srvHost, cliHost []byte) []byte {
	sh, ok1 := netip.AddrFromSlice(srvHost)
	ch, ok2 := netip.AddrFromSlice(cliHost)
	if !ok1 || !ok2 {
		return nil
	}
	hak := drkey.HostASKey{
		ProtoId: scion.DRKeyProtocolTS, SrcIA: addr.IA(srvIA), DstIA: addr.IA(cliIA), SrcHost: sh.String(),
		Epoch: drkey.Epoch{Validity: cppki.Validity{NotBefore: epochBegin, NotAfter: epochEnd}},
	}
	copy(hak.Key[:], hostASKeyBytes(int32(scion.DRKeyProtocolTS), srvIA, cliIA, sh.String()))
	hhk, err := scion.DeriveHostHostKey(hak, ch.String())
	if err != nil {
		return nil
	}
	return hhk.Key[:]
}

// keyedKey: a datagram to the service port is a request (server = destination),
// anything else a reply (server = source).
func keyedKey(p *parsed) []byte {
	if !p.ok {
		return nil
	}
	if p.isUDP && p.udp.DstPort == scionPort {
		return hostHostKey(uint64(p.scn.DstIA), uint64(p.scn.SrcIA), p.scn.RawDstAddr, p.scn.RawSrcAddr)
	}
	return hostHostKey(uint64(p.scn.SrcIA), uint64(p.scn.DstIA), p.scn.RawSrcAddr, p.scn.RawDstAddr)
}

// genKeyedHistory: one listener goroutine (one sending socket, so one
// Fetcher with its per-client-AS cache) is addressed under several server
// host addresses by clients of one or two ISD-ASes: authenticated requests
// with the key of the addressed host, with the key of another host of the
// server, of another client, with a damaged MAC, and plain ones.
func (d *drv) genKeyedHistory(r *lib.Rng) ([]step, string) {
	tags := tagset{"nt": true, "keyed": true}
	sender := r.Intn(nSenders)
	listener := r.Intn(2)
	srvIA := uint64(1+r.Intn(3))<<48 | 0xff0000000100 | uint64(r.Intn(64))
	cliIAs := []uint64{uint64(1+r.Intn(3))<<48 | 0xff0000000200 | uint64(r.Intn(64)), uint64(1+r.Intn(3))<<48 | 0xff0000000300 | uint64(r.Intn(64))}
	nHosts := 2 + r.Intn(2)
	type host struct {
		t   uint8
		raw []byte
	}
	var srvHosts, cliHosts []host
	for i := 0; i < nHosts; i++ {
		t, b := genHost(r, r.Intn(3) == 0)
		srvHosts = append(srvHosts, host{t, b})
		t, b = genHost(r, r.Intn(3) == 0)
		cliHosts = append(cliHosts, host{t, b})
	}
	n := 3 + r.Intn(6)
	var steps []step
	lastSrv := -1
	for len(steps) < n {
		si := r.Intn(nHosts)
		if len(steps) == 1 && si == lastSrv { // the second request goes to another address of the server
			si = (si + 1) % nHosts
		}
		ci := r.Intn(nHosts)
		cliIA := cliIAs[0]
		if r.Intn(4) == 0 {
			cliIA = cliIAs[1]
			tags["second-client-as"] = true
		}
		h := &pktSpec{auth: -1, dstIA: srvIA, srcIA: cliIA,
			dstType: srvHosts[si].t, dstRaw: srvHosts[si].raw, srcType: cliHosts[ci].t, srcRaw: cliHosts[ci].raw,
			tc: uint8(r.U64()), flow: uint32(r.U64()) & 0xfffff,
			udpSrc: uint16(20000 + r.Intn(10000)), udpDst: scionPort}
		h.pathType, h.pathRaw = genPath(r, tagset{})
		h.payload = ntpRequest(r, 0)
		switch k := r.Intn(10); {
		case k < 5 || len(steps) < 2: // the key of the addressed host
			addAuth(r, h, lib.Pick(r, 0, 0, 0, 8, 10), tagset{})
			tags["key-of-addressed-host"] = true
		case k < 7: // the key of another address of the server
			oi := (si + 1 + r.Intn(nHosts-1)) % nHosts
			addAuth(r, h, 0, tagset{})
			h.key = hostHostKey(srvIA, cliIA, srvHosts[oi].raw, cliHosts[ci].raw)
			tags["key-of-other-server-host"] = true
		case k == 7: // the key of another client host / client AS
			addAuth(r, h, 0, tagset{})
			if r.Bool() {
				h.key = hostHostKey(srvIA, cliIA, srvHosts[si].raw, cliHosts[(ci+1)%nHosts].raw)
			} else {
				h.key = hostHostKey(srvIA, cliIAs[1]^cliIAs[0]^cliIA, srvHosts[si].raw, cliHosts[ci].raw)
			}
			tags["key-of-other-client"] = true
		case k == 8: // the mock key / a damaged MAC
			addAuth(r, h, lib.Pick(r, 1, 2), tagset{})
			if r.Bool() {
				h.opts[0].data = authMeta(scion.PacketAuthSPIClient, 0)
				h.auth, h.key = 0, zeroKey
			}
			tags["keyed-badmac"] = true
		default:
			tags["plain"] = true
		}
		raw, err := h.build()
		if err != nil || probeCandidate(raw) {
			continue
		}
		if r.Intn(10) == 0 {
			m := mutate(r, raw, tags)
			if !probeCandidate(m) {
				raw = m
			}
		}
		lastSrv = si
		steps = append(steps, step{listener: listener, sender: sender, raw: raw})
	}
	tags["multi"] = true
	return steps, tags.String()
}

func keyedChild(a lib.Args) {
	ip := ownAddr(213)
	daemonAddr := startFakeDaemon(ip)
	keyFn = keyedKey
	d := newDrvDaemon(daemonAddr)
	if a.Replay != "" {
		for _, l := range lib.ReplayLines(a.Replay) {
			if l[0] == "srv.keyed" {
				d.runSrvKind("srv.keyed", l[1], parseSteps(l[2]))
			}
		}
		return
	}
	r := lib.NewRng(a.Seed ^ 0x6b657965)
	n := 250
	if a.Tier == "thorough" {
		n = 2500
	}
	for i := 0; i < n && !d.lost; i++ {
		steps, tags := d.genKeyedHistory(r)
		d.runSrvKind("srv.keyed", tags, steps)
	}
}
