// C13: SCION packet authentication and reply addressing.  The code is in verifharness/c13lib.
package main

import "verifharness/c13lib"

func main() { c13lib.Main(false) }
