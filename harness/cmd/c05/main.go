// C05: drives the real client.MeasureClockOffsetIP (plain NTP and NTS, basic and
// interleaved mode, with and without a deadline) against a scripted peer on
// loopback that delivers crafted datagrams before / instead of the genuine
// response, and records what the client did: the error of every exchange (from
// the call's logger), the four timestamps combined (recording filter), the
// offset returned.
package main

import (
	"context"
	"errors"
	"fmt"
	"log/slog"
	"net"
	"net/netip"
	"os"
	"strings"
	"sync"
	"sync/atomic"
	"syscall"
	"time"

	"github.com/miscreant/miscreant.go"

	basetime "example.com/scion-time/base/timebase"
	"example.com/scion-time/core/client"
	"example.com/scion-time/core/timebase"
	"example.com/scion-time/driver/clocks"
	"example.com/scion-time/net/ntp"
	"example.com/scion-time/net/ntske"

	"verifharness/lib"
)

// The clock the clients read through timebase.Now(): the system clock plus a
// jump the scripted peer can switch on (case kinds *.late: the deadline has
// passed whenever the client asks while it handles a datagram).
type lateClock struct {
	basetime.SystemClock
	jump atomic.Int64
}

func (c *lateClock) Now() time.Time { return c.SystemClock.Now().Add(time.Duration(c.jump.Load())) }

var theClock *lateClock

// ---- observation ----
type xevent struct {
	err error
	rec [4]time.Time
	off time.Duration
}

type recorder struct {
	mu     sync.Mutex
	events []xevent
}

func (r *recorder) Do(t0, t1, t2, t3 time.Time) time.Duration {
	off := ntp.ClockOffset(t0, t1, t2, t3)
	r.mu.Lock()
	r.events = append(r.events, xevent{rec: [4]time.Time{t0, t1, t2, t3}, off: off})
	r.mu.Unlock()
	return off
}
func (r *recorder) Reset() {}

// slog handler of the logger handed to MeasureClockOffsetIP: records the error attribute
type errHandler struct{ r *recorder }

func (h errHandler) Enabled(_ context.Context, l slog.Level) bool { return l >= slog.LevelInfo }
func (h errHandler) Handle(_ context.Context, rec slog.Record) error {
	rec.Attrs(func(a slog.Attr) bool {
		if a.Key == "error" {
			if e, ok := a.Value.Any().(error); ok {
				h.r.mu.Lock()
				h.r.events = append(h.r.events, xevent{err: e})
				h.r.mu.Unlock()
			}
		}
		return true
	})
	return nil
}
func (h errHandler) WithAttrs([]slog.Attr) slog.Handler { return h }
func (h errHandler) WithGroup(string) slog.Handler      { return h }

// logRec is the logger of a client without filter: the four timestamps of an accepted
// exchange are reconstructed from the two debug records the client writes ("received
// response": the packet and the receive stamp; "evaluated response": offset and delay).
type logRec struct {
	r      *recorder
	mu     sync.Mutex
	t1, t2 time.Time
}

func (h *logRec) Enabled(context.Context, slog.Level) bool { return true }
func (h *logRec) WithAttrs([]slog.Attr) slog.Handler       { return h }
func (h *logRec) WithGroup(string) slog.Handler            { return h }
func (h *logRec) Handle(_ context.Context, rec slog.Record) error {
	h.mu.Lock()
	defer h.mu.Unlock()
	switch rec.Message {
	case "received response":
		var at time.Time
		var pkt *ntp.Packet
		rec.Attrs(func(a slog.Attr) bool {
			switch a.Key {
			case "at":
				at = a.Value.Time()
			case "data":
				if v, ok := a.Value.Any().(ntp.PacketLogValuer); ok {
					pkt = v.Pkt
				}
			}
			return true
		})
		if pkt != nil {
			h.t1, h.t2 = ntp.TimeFromTime64(pkt.ReceiveTime, at), ntp.TimeFromTime64(pkt.TransmitTime, at)
		}
	case "evaluated response":
		var at time.Time
		var off, rtd time.Duration
		rec.Attrs(func(a slog.Attr) bool {
			switch a.Key {
			case "at":
				at = a.Value.Time()
			case "clock offset":
				off = a.Value.Duration()
			case "round trip delay":
				rtd = a.Value.Duration()
			}
			return true
		})
		// basic mode only: t3 = at, rtd = (t3 - t0) - (t2 - t1)
		t0 := at.Add(-rtd - h.t2.Sub(h.t1))
		h.r.mu.Lock()
		h.r.events = append(h.r.events, xevent{rec: [4]time.Time{t0, h.t1, h.t2, at}, off: off})
		h.r.mu.Unlock()
	}
	return nil
}

type nullHandler struct{}

func (nullHandler) Enabled(context.Context, slog.Level) bool  { return false }
func (nullHandler) Handle(context.Context, slog.Record) error { return nil }
func (h nullHandler) WithAttrs([]slog.Attr) slog.Handler      { return h }
func (h nullHandler) WithGroup(string) slog.Handler           { return h }

func errClass(err error) int64 {
	if err == nil {
		return 0
	}
	var ne net.Error
	if errors.Is(err, os.ErrDeadlineExceeded) || (errors.As(err, &ne) && ne.Timeout()) {
		return 1
	}
	if errors.Is(err, miscreant.ErrNotAuthentic) {
		return 13
	}
	if errors.Is(err, miscreant.ErrKeySize) {
		return 11
	}
	m := err.Error()
	for _, p := range []struct {
		s string
		c int64
	}{
		{"unexpected flags", 2}, {"unexpected source", 3}, {"unexpected packet size", 4},
		{"exceeds maximum NTS packet length", 5}, {"extension field length < 4", 6}, {"UniqueIdentifier.ID < 32", 7},
		{"does not contain a unique identifier", 8}, {"does not contain an authenticator", 9},
		{"unexpected response ID", 10}, {"unexpected nonce length", 12},
		{"unexpected type or structure", 14}, {"unexpected response structure", 15},
		{"unexpected system clock behavior", 18}, {"no successful measurement", 19}, {"invalid authenticator", 17},
	} {
		if strings.Contains(m, p.s) {
			return p.c
		}
	}
	return 99
}

// errors of the SCION parser have no class of their own in the client: everything unknown there is a decode error
func errClassT(err error, scion bool) int64 {
	c := errClass(err)
	if scion && c == 99 {
		return 16
	}
	return c
}

// ---- histories ----
type opSpec struct {
	kind     int // 0 call, 1 ResetInterleavedMode, 2 pause
	scripts  [][]recipe
	timeouts []bool
	pauseMs  int64
	server   int  // which of the peer's two addresses the caller passes as the remote address
	keTarget int  // which of them a key exchange made during this call names
	keOne    bool // a key exchange made during this call delivers one cookie only
}

type histSpec struct {
	imode, nts, deadline bool
	auth                 bool // SCION: Auth.Enabled (packet authenticator, DRKey)
	sameIA               bool // SCION: the server is in the client's ISD-AS
	addrtype             bool // SCION: case kind scion.addrtype
	late                 bool // the client's clock jumps past the deadline as soon as the request has left (kinds *.late)
	nofilter             bool // client without Filter: observed through its debug log and the returned offset
	v6                   bool // IP client on the IPv6 loopback address
	servers              bool // two servers: other remote address per call, key exchanges naming the other address
	mappedRemote         bool // IP client: the remote address is passed in its IPv4-mapped 16-byte form
	ops                  []opSpec
}

var lvmValues = []int64{0x25, 0x26, 0x20, 0x2c, 0x34, 0x04, 0x64, 0xa4, 0xe4, 0x23, 0x1c, 0x14, 0x0c, 0x3c, 0x00, 0xff, 0x24, 0xdc, 0x1b}
var stratumValues = []int64{0, 16, 15, 1, 255, 17, 128, 2}

func genRecipe(r *lib.Rng, nts bool) recipe {
	kinds := []int{1, 2, 2, 3, 3, 4, 4, 5, 5, 5, 6, 6, 7, 8, 9, 21}
	if nts {
		kinds = append(kinds, 10, 11, 11, 11, 12, 12, 13, 13, 13, 14, 15, 16, 16, 17, 18, 19, 19, 20, 22, 22, 23, 23, 24, 26, 26, 26)
	}
	k := kinds[r.Intn(len(kinds))]
	rc := recipe{kind: k, p2: int64(r.Intn(1 << 16))}
	switch k {
	case 2:
		rc.p1 = int64(r.Intn(2))
	case 3:
		rc.p1 = lvmValues[r.Intn(len(lvmValues))]
		if r.Intn(5) == 0 {
			rc.p1 = int64(r.Intn(256))
		}
	case 4:
		rc.p1 = stratumValues[r.Intn(len(stratumValues))]
	case 5:
		rc.p1 = int64(r.Intn(10))
	case 6:
		rc.p1 = int64(r.Intn(11))
	case 7:
		rc.p1 = lib.Pick(r, int64(47), 47, 0, 1, 40, 24, 46)
	case 8:
		rc.p1 = lib.Pick(r, int64(0), 1, 47, 48, 48, 49, 76, 100, 200)
		if nts {
			rc.p1 = lib.Pick(r, rc.p1, 48, 76, 124, 300, 1024, 1025)
		}
	case 9:
		rc.p1 = lib.Pick(r, int64(0), 0, 1, 3, 40)
	case 10:
		rc.p1 = lib.Pick(r, int64(1), 4, 7, 28, 40, 100)
	case 11:
		rc.p1 = int64(r.Intn(6))
	case 12:
		rc.p1 = int64(r.Intn(2))
	case 13:
		rc.p1 = int64(r.Intn(3))
	case 17:
		rc.p1 = int64(r.Intn(3))
	case 18:
		rc.p1 = lib.Pick(r, int64(15), 17, 0, 12, 32)
	case 20, 22:
		rc.p1 = int64(r.Intn(3))
	case 23:
		rc.p1 = int64(r.Intn(4))
	case 26:
		rc.p1 = int64(r.Intn(8))
	}
	return rc
}

func genScript(r *lib.Rng, nts bool) []recipe {
	n := lib.Pick(r, 1, 1, 2, 2, 2, 3, 3, 4)
	var s []recipe
	for i := 0; i < n-1; i++ {
		s = append(s, genRecipe(r, nts))
	}
	switch r.Intn(10) {
	case 0:
		s = append(s, genRecipe(r, nts))
	case 1, 2, 3:
		s = append(s, recipe{kind: 1, p2: 1})
	default:
		s = append(s, recipe{kind: 0})
	}
	return s
}

func genHist(r *lib.Rng, long bool, pause bool) histSpec {
	h := histSpec{imode: r.Intn(4) != 0, nts: r.Intn(2) == 0, deadline: r.Intn(6) != 0}
	ncalls := lib.Pick(r, 1, 2, 2, 3, 3, 4, 5)
	if long {
		ncalls = 6 + r.Intn(8)
	}
	if pause {
		h.imode = true
		if ncalls < 3 {
			ncalls = 3
		}
	}
	for i := 0; i < ncalls; i++ {
		if i > 0 && r.Intn(12) == 0 {
			h.ops = append(h.ops, opSpec{kind: 1})
		}
		if pause && i == 1 {
			h.ops = append(h.ops, opSpec{kind: 2, pauseMs: 3300})
		}
		op := opSpec{kind: 0}
		n := 1
		if h.imode {
			n = 3
		}
		for j := 0; j < n; j++ {
			op.scripts = append(op.scripts, genScript(r, h.nts))
			op.timeouts = append(op.timeouts, false)
		}
		if !h.imode && h.deadline && r.Intn(40) == 0 {
			// the peer stays silent or sends one skippable datagram: the client runs into its deadline
			op.scripts[0] = nil
			if r.Bool() {
				op.scripts[0] = []recipe{{kind: 5, p1: int64(r.Intn(4))}}
			}
			op.timeouts[0] = true
		}
		h.ops = append(h.ops, op)
	}
	return h
}

// ---- running one history on the real client ----
func matchTime(x ntp.Time64, near time.Time) time.Time {
	t := ntp.TimeFromTime64(x, near)
	if ntp.Time64FromTime(t) == x {
		return t
	}
	if u := t.Add(time.Nanosecond); ntp.Time64FromTime(u) == x {
		return u
	}
	return t
}

func addrNum(a netip.Addr) int64 {
	if !a.IsValid() {
		return -2
	}
	if !a.Is4() {
		// IPv6: the low 48 bits, marked (::1 -> 2^48 + 1)
		b := a.As16()
		v := int64(1) << 48
		for _, x := range b[10:] {
			v = v<<8 | int64(x)
		}
		return v
	}
	b := a.As4()
	return int64(b[0])<<24 | int64(b[1])<<16 | int64(b[2])<<8 | int64(b[3])
}

type callObs struct {
	spec   opSpec
	reqs   []*reqRec
	events []xevent
	err    error
	off    time.Duration
	pool   [][]byte // the fetcher's cookie pool after the call (NTS)
}

var (
	out      *lib.Writer
	outMu    sync.Mutex
	nDropped int // histories not reported because a client port was shared with another exchange in flight
)

func (w *worker) runHist(h histSpec) {
	rec := &recorder{}
	callLog := slog.New(errHandler{rec})
	quiet := slog.New(nullHandler{})
	c := &client.IPClient{Log: quiet, InterleavedMode: h.imode, Filter: rec}
	if h.nofilter {
		c.Filter, c.Log = nil, slog.New(&logRec{r: rec})
	}
	if h.nts {
		c.Auth.Enabled = true
		c.Auth.NTSKEFetcher.Log = quiet
		c.Auth.NTSKEFetcher.TLSConfig.InsecureSkipVerify = true
		c.Auth.NTSKEFetcher.TLSConfig.ServerName = w.addrA.String()
		c.Auth.NTSKEFetcher.TLSConfig.MinVersion = 0x0304
		c.Auth.NTSKEFetcher.Port = fmt.Sprint(w.kePort)
	}
	w.mu.Lock()
	w.nts = h.nts
	w.lateMode = h.late
	w.prevPkt, w.prevUID = nil, nil
	w.mu.Unlock()
	defer func() {
		w.mu.Lock()
		w.lateMode, w.keTarget, w.keCookies = false, 0, 0
		w.mu.Unlock()
		theClock.jump.Store(0)
	}()

	var calls []*callObs
	for _, op := range h.ops {
		switch op.kind {
		case 1:
			c.ResetInterleavedMode()
			calls = append(calls, &callObs{spec: op})
			continue
		case 2:
			time.Sleep(time.Duration(op.pauseMs) * time.Millisecond)
			calls = append(calls, &callObs{spec: op})
			continue
		}
		w.mu.Lock()
		w.scripts, w.timeouts, w.reqs = op.scripts, op.timeouts, nil
		w.keTarget, w.keCookies = op.keTarget, 0
		if op.keOne {
			w.keCookies = 1
		}
		w.mu.Unlock()
		rec.mu.Lock()
		rec.events = nil
		rec.mu.Unlock()
		ctx, cancel := context.Background(), func() {}
		if h.deadline {
			d := 8 * time.Second
			if len(op.timeouts) > 0 && op.timeouts[0] {
				d = 600 * time.Millisecond
				if h.nts && len(c.Auth.NTSKEFetcher.VerifData().Cookie) == 0 {
					// this call starts with a key exchange over TLS: it must not miss the deadline under load
					d = 4 * time.Second
				}
			}
			ctx, cancel = context.WithTimeout(ctx, d)
		}
		la := &net.UDPAddr{IP: net.IP(w.addrA.AsSlice())}
		srv := w.addrA
		if op.server == 1 {
			srv = w.addrB
		}
		ra := &net.UDPAddr{IP: net.IP(srv.AsSlice()), Port: w.udpPort()}
		if h.mappedRemote {
			ra.IP = ra.IP.To16() // the remote address in its IPv4-mapped form: the same host
		}
		done := make(chan struct{})
		co := &callObs{spec: op}
		go func() {
			_, co.off, co.err = client.MeasureClockOffsetIP(ctx, callLog, c, la, ra)
			close(done)
		}()
		tick := time.NewTicker(time.Second)
		waited := 0
	wait:
		for {
			select {
			case <-done:
				break wait
			case <-tick.C:
				waited++
				if waited >= 5 {
					// unblock a client that is still reading: should never be needed
					w.mu.Lock()
					if n := len(w.reqs); n > 0 {
						_, _ = w.connA.WriteToUDPAddrPort([]byte{0xee}, w.reqs[n-1].addr)
					}
					w.mu.Unlock()
				}
			}
		}
		tick.Stop()
		cancel()
		theClock.jump.Store(0)
		if waited >= 1 && os.Getenv("C05_DEBUG") != "" {
			fmt.Fprintf(os.Stderr, "slow call: waited=%d imode=%v nts=%v dl=%v scripts=%v timeouts=%v err=%v\n", waited, h.imode, h.nts, h.deadline, op.scripts, op.timeouts, co.err)
		}
		w.mu.Lock()
		co.reqs = w.reqs
		w.reqs = nil
		w.mu.Unlock()
		rec.mu.Lock()
		co.events = append([]xevent(nil), rec.events...)
		rec.mu.Unlock()
		if h.nts {
			co.pool = c.Auth.NTSKEFetcher.VerifData().Cookie
		}
		calls = append(calls, co)
	}
	w.emit(h, calls, ipKind(h))
}

func ipKind(h histSpec) string {
	switch {
	case h.late:
		return "ip.late"
	case h.nofilter:
		return "ip.nofilter"
	case h.v6:
		return "ip6.hist"
	case h.servers:
		return "ip.servers"
	}
	return "ip.hist"
}

func bl(bs [][]byte) string {
	items := make([]string, len(bs))
	for i, b := range bs {
		items[i] = lib.B(b)
	}
	return lib.L(items...)
}

func t64s(t ntp.Time64) string { return lib.V(lib.U(uint64(t.Seconds)), lib.U(uint64(t.Fraction))) }

func recipeVals(rs []recipe, timeout bool) string {
	items := []string{lib.Bool(timeout)}
	for _, rc := range rs {
		items = append(items, lib.L(lib.I(int64(rc.kind)), lib.I(rc.p1), lib.I(rc.p2)))
	}
	return lib.L(items...)
}

func (w *worker) emit(h histSpec, calls []*callObs, kind string) {
	scion := strings.HasPrefix(kind, "scion")
	for _, co := range calls {
		for _, rq := range co.reqs {
			if portShared(rq) && os.Getenv("C05_NODROP") == "" {
				// a datagram of another exchange may have reached a socket of this history
				outMu.Lock()
				nDropped++
				outMu.Unlock()
				return
			}
		}
	}
	// flatten the exchanges to find, for each, the request that follows it
	type xref struct{ c, k int }
	var order []xref
	for ci, co := range calls {
		if co.spec.kind != 0 {
			continue
		}
		for k := range co.reqs {
			order = append(order, xref{ci, k})
		}
	}
	// the next request that quotes the state recorded in exchange (ci, k): the next interleaved one,
	// unless a reset or another accepted exchange (which overwrites the state) lies in between
	nextReq := func(ci, k int) *reqRec {
		for i, x := range order {
			if x.c == ci && x.k == k {
				for n := i + 1; n < len(order); n++ {
					for j := order[n-1].c + 1; j <= order[n].c; j++ {
						if calls[j].spec.kind == 1 {
							return nil
						}
					}
					rq2 := calls[order[n].c].reqs[order[n].k]
					if rq2.org != (ntp.Time64{}) || rq2.rx != (ntp.Time64{}) {
						return rq2
					}
					if evs := calls[order[n].c].events; order[n].k >= len(evs) || evs[order[n].k].err == nil {
						return rq2
					}
				}
				return nil
			}
		}
		return nil
	}
	tags := map[string]bool{}
	var table, ops, outs []string
	nontrivial := false
	for ci, co := range calls {
		switch co.spec.kind {
		case 1:
			ops = append(ops, lib.L("1"))
			tags["reset"] = true
			continue
		case 2:
			ops = append(ops, lib.L("2", lib.I(co.spec.pauseMs)))
			tags["pause"] = true
			continue
		}
		var xs, xos []string
		for k, rq := range co.reqs {
			ireq := rq.org != (ntp.Time64{}) || rq.rx != (ntp.Time64{})
			var ev *xevent
			if k < len(co.events) {
				ev = &co.events[k]
			}
			ref := matchTime(rq.tx, rq.arrival)
			ctx1 := rq.arrival
			crx := rq.arrival.Add(time.Microsecond)
			accepted := ev != nil && ev.err == nil
			inter := accepted && ireq && ev.rec[0].Equal(ntp.TimeFromTime64(rq.tx, ev.rec[0]))
			if accepted && !inter {
				ctx1, crx = ev.rec[0], ev.rec[3]
			} else if accepted {
				if nr := nextReq(ci, k); nr != nil && (nr.org != (ntp.Time64{}) || nr.rx != (ntp.Time64{})) {
					ctx1, crx = matchTime(nr.tx, rq.arrival), matchTime(nr.rx, rq.arrival)
				}
			}
			var evs []string
			nbad := 0
			for i, d := range rq.sent {
				src := addrNum(rq.server)
				if !d.fromServer {
					src = addrNum(rq.other)
				}
				// the source of the datagram: address and port (the other address uses the server's port
				// number, the third socket the server's address and another port)
				sport := int64(rq.port)
				if d.otherPort {
					sport = int64(w.connC.LocalAddr().(*net.UDPAddr).Port)
					tags["other-port"] = true
				}
				front := lib.L(lib.I(src), lib.I(sport))
				fromQueried := d.fromServer && !d.otherPort
				xflags := "0"
				if scion {
					front = d.front
					if len(d.raw) > scionBufLen {
						// the datagram does not fit the client's receive buffer: MSG_TRUNC
						xflags = "1"
						tags["truncated"] = true
					}
				}
				// the packet authenticator clause: the client holds the host-host key and the datagram carries
				// an authenticator for the server's SPI and algorithm whose MAC does not verify
				spaoOK := !(scion && h.auth && d.vi.e2e && d.vi.auth == 2)
				if rq.late {
					tags["late"] = true
				}
				evs = append(evs, lib.L("0", lib.Bool(!rq.late), xflags, front, lib.B(d.payload), lib.I(crx.UnixNano()),
					lib.Bool(fromQueried), lib.Bool(d.uidOK), lib.Bool(d.authOK), bl(d.cookies), lib.Bool(spaoOK)))
				if scion && i < len(rq.recipes) {
					if d.vi.e2e {
						tags[fmt.Sprintf("spao%d", d.vi.auth)] = true
					}
					if d.vi.ts >= 0 {
						tags["tsopt"] = true
					}
					if i < 2 && !spaoOK && nbad == i {
						nbad++
					}
				}
				if len(d.cookies) > 1 {
					tags["cookies>1"] = true
				}
				if d.entry != nil {
					e := d.entry
					table = append(table, lib.L(lib.B(e.key), lib.B(e.nonce), lib.B(e.ad), lib.B(e.ct), lib.Bool(e.ok), lib.B(e.pt)))
				}
				if i < len(rq.recipes) {
					rk, ik := rq.recipes[i].kind, rq.recipes[i].kind
					tags[fmt.Sprintf("k%d", rk)] = true
					if rk == 40+vGenuine {
						// the genuine authenticated response around a payload recipe
						ik = int(rq.recipes[i].p1 % 100)
					}
					if ik > 1 || (ik == 1 && !ireq) {
						nontrivial = true
					}
				}
			}
			if rq.timeout {
				evs = append(evs, lib.L("1", "0"))
				tags["deadline"] = true
			}
			uid := rq.uid
			if !h.nts {
				uid = nil
			}
			s2c := rq.s2c
			if !h.nts {
				s2c = nil
			}
			env := lib.L(lib.I(ref.UnixNano()), lib.I(ctx1.UnixNano()), lib.B(uid), lib.B(s2c), lib.Bool(scion && h.auth), lib.Bool(ireq), bl(rq.ke),
				lib.I(addrNum(rq.server)), lib.I(int64(rq.port)))
			if rq.server != w.addrA {
				tags["second-server"] = true
			}
			if scion && h.auth != rq.reqAuth {
				tags["request-authenticator-unexpected"] = true
			}
			if rq.ke != nil {
				tags["keyexchange"] = true
			}
			xs = append(xs, lib.L(env, lib.L(evs...), recipeVals(rq.recipes, rq.timeout)))
			wire := lib.L(t64s(rq.org), t64s(rq.rx), t64s(rq.tx))
			switch {
			case ev == nil:
				xos = append(xos, lib.L("98", wire, lib.L()))
			case ev.err != nil:
				xos = append(xos, lib.L(lib.I(errClassT(ev.err, scion)), wire, lib.L()))
				tags["fail"] = true
				if errClass(ev.err) == 17 {
					tags["spao-error"] = true
					if nbad == 2 {
						tags["spao-two-bad"] = true
					}
				}
			default:
				xos = append(xos, lib.L("0", wire, lib.L(lib.I(ev.rec[0].UnixNano()), lib.I(ev.rec[1].UnixNano()),
					lib.I(ev.rec[2].UnixNano()), lib.I(ev.rec[3].UnixNano()), lib.I(int64(ev.off)))))
				tags["accept"] = true
				if nbad == 1 {
					tags["spao-bad-then-accept"] = true
				}
				if inter {
					tags["accept_interleaved"] = true
				}
			}
			if ireq {
				tags["ireq"] = true
			}
		}
		// events without a request (the exchange failed before it sent anything)
		for k := len(co.reqs); k < len(co.events); k++ {
			xos = append(xos, lib.L(lib.I(errClass(co.events[k].err)), lib.L("0", "0", "0", "0", "0", "0"), lib.L()))
		}
		var unused []string
		for k := len(co.reqs); k < len(co.spec.scripts); k++ {
			unused = append(unused, recipeVals(co.spec.scripts[k], co.spec.timeouts[k]))
		}
		ops = append(ops, lib.L("0", lib.L(xs...), lib.L(unused...), lib.L(lib.I(int64(co.spec.server)), lib.I(int64(co.spec.keTarget)), lib.Bool(co.spec.keOne), lib.Bool(h.mappedRemote))))
		off := int64(0)
		if co.err == nil {
			off = int64(co.off)
		}
		outs = append(outs, lib.L(lib.I(errClassT(co.err, scion)), lib.I(off), lib.L(xos...), bl(co.pool)))
	}
	var tl []string
	cfg := lib.L("0", lib.Bool(h.imode), lib.Bool(h.nts), lib.Bool(h.deadline), lib.I(addrNum(w.addrA)), "0", "0", lib.I(addrNum(w.addrA)))
	if scion {
		sia := serverIA
		if h.sameIA {
			sia = clientIA
			tl = append(tl, "same-ia")
		}
		cfg = lib.L("1", lib.Bool(h.imode), lib.Bool(h.nts), lib.Bool(h.deadline), lib.I(addrNum(w.addrA)), lib.U(uint64(sia)), lib.U(uint64(clientIA)), lib.I(addrNum(w.addrA)))
		tl = append(tl, "scion")
		if h.auth {
			tl = append(tl, "drkey")
		}
	}
	if nontrivial {
		tl = append(tl, "nt")
	}
	if h.nts {
		tl = append(tl, "nts")
	}
	if h.imode {
		tl = append(tl, "imode")
	}
	if !h.deadline {
		tl = append(tl, "nodeadline")
	}
	for t := range tags {
		tl = append(tl, t)
	}
	outMu.Lock()
	out.Case(kind, strings.Join(tl, ","), lib.V(cfg, lib.L(table...), lib.L(ops...)), lib.V(outs...))
	outMu.Unlock()
}

// ---- replay ----
func recipesOf(v val) ([]recipe, bool) {
	var rs []recipe
	to := false
	for i, x := range v.l {
		if i == 0 {
			to = x.z != 0
			continue
		}
		if len(x.l) == 3 {
			rs = append(rs, recipe{kind: int(x.l[0].z), p1: x.l[1].z, p2: x.l[2].z})
		}
	}
	return rs, to
}

func histOfArgs(args string) (histSpec, bool) {
	vs := parseVals(args)
	if len(vs) != 3 || len(vs[0].l) != 8 {
		return histSpec{}, false
	}
	h := histSpec{imode: vs[0].l[1].z != 0, nts: vs[0].l[2].z != 0, deadline: vs[0].l[3].z != 0,
		sameIA: vs[0].l[0].z != 0 && vs[0].l[5].z == vs[0].l[6].z}
	for _, o := range vs[2].l {
		if len(o.l) == 0 {
			continue
		}
		switch o.l[0].z {
		case 1:
			h.ops = append(h.ops, opSpec{kind: 1})
		case 2:
			h.ops = append(h.ops, opSpec{kind: 2, pauseMs: o.l[1].z})
		default:
			op := opSpec{kind: 0}
			for _, x := range o.l[1].l {
				if len(x.l) == 3 {
					rs, to := recipesOf(x.l[2])
					op.scripts = append(op.scripts, rs)
					op.timeouts = append(op.timeouts, to)
				}
			}
			if len(o.l) > 2 {
				for _, u := range o.l[2].l {
					rs, to := recipesOf(u)
					op.scripts = append(op.scripts, rs)
					op.timeouts = append(op.timeouts, to)
				}
			}
			if len(o.l) > 3 && len(o.l[3].l) == 4 {
				op.server, op.keTarget, op.keOne = int(o.l[3].l[0].z), int(o.l[3].l[1].z), o.l[3].l[2].z != 0
				h.mappedRemote = o.l[3].l[3].z != 0
			}
			h.ops = append(h.ops, op)
		}
	}
	return h, true
}

func main() {
	// the DRKey fetcher of /repo reads USE_MOCK_KEYS in a package init: start over with it set
	if os.Getenv("USE_MOCK_KEYS") != "true" {
		exe, err := os.Executable()
		if err != nil {
			panic(err)
		}
		if err := syscall.Exec(exe, os.Args, append(os.Environ(), "USE_MOCK_KEYS=true")); err != nil {
			panic(err)
		}
	}
	a := lib.ParseArgs()
	theClock = &lateClock{SystemClock: clocks.NewSystemClock(slog.New(nullHandler{}), 0)}
	timebase.RegisterClock(theClock)
	_ = ntske.ServerPortIP
	pid := os.Getpid()
	addrA := netip.AddrFrom4([4]byte{127, 5, byte(pid / 256), byte(pid % 256)})
	addrB := netip.AddrFrom4([4]byte{127, 105, byte(pid / 256), byte(pid % 256)})
	out = lib.NewWriter(a.Out)
	defer out.Close()
	defer func() {
		if nDropped > 0 {
			fmt.Printf("NOTE %d histories not reported: a client port was shared with another exchange still in flight\n", nDropped)
		}
	}()

	if a.Replay != "" {
		w := newWorker(0, a.Seed, addrA, addrB)
		w.startSCION()
		for _, l := range lib.ReplayLines(a.Replay) {
			if l[0] == "client.badlocal" {
				runBadLocal(w)
				continue
			}
			if l[0] == "client.ctxdone" {
				runCtxDone(w, 1)
				continue
			}
			if l[0] == "scion.twopath" {
				runTwoPath(w, 2)
				continue
			}
			if l[0] == "svc.authmodes" {
				replayAuthModes(l[2])
				continue
			}
			if h, ok := histOfArgs(l[2]); ok {
				h.auth = strings.HasSuffix(l[0], "auth")
				h.late = strings.Contains(l[0], ".late")
				h.nofilter = strings.HasSuffix(l[0], ".nofilter")
				h.servers = strings.HasSuffix(l[0], ".servers")
				h.addrtype = l[0] == "scion.addrtype"
				switch {
				case l[0] == "ip6.hist":
					h.v6 = true
					if w6 := newWorker6(a.Seed); w6 != nil {
						w6.runHist(h)
					}
				case strings.HasPrefix(l[0], "ip"):
					w.runHist(h)
				default:
					w.runHistSCION(h, l[0])
				}
			}
		}
		return
	}

	// the service wiring: runs beside the workers (it builds the service once)
	var wgSvc sync.WaitGroup
	wgSvc.Add(1)
	go func() {
		defer wgSvc.Done()
		runAuthModes(3)
	}()
	defer wgSvc.Wait()
	nworkers := 8
	total := 1600
	if a.Tier == "thorough" {
		total = 16000
	}
	var wg sync.WaitGroup
	for i := 0; i < nworkers; i++ {
		wg.Add(1)
		go func(i int) {
			defer wg.Done()
			w := newWorker(i, a.Seed*1000+uint64(i), addrA, addrB)
			r := lib.NewRng(a.Seed*7777 + uint64(i))
			n := total / nworkers
			npause := 1
			if a.Tier == "thorough" {
				npause = 6
			}
			w.startSCION()
			for j := 0; j < n; j++ {
				w.runHist(genHist(r, j%25 == 3, j < npause))
				switch j % 6 {
				case 0, 3:
					h := genHistSCION(r, j%25 == 3, false, false)
					w.runHistSCION(h, scionKind(h))
				case 1, 4:
					// the client with Auth.Enabled: packet authenticator under the DRKey host-host key
					h := genHistSCION(r, false, true, false)
					w.runHistSCION(h, scionKind(h))
				case 2:
					// NTS over SCION, without and with the packet authenticator
					h := genHistSCION(r, false, j%12 == 2, true)
					w.runHistSCION(h, scionKind(h))
				}
			}
			if i == 0 {
				for j := 0; j < 3; j++ {
					w.runHistSCION(genAllFailSCION(r), "scion.allfail")
				}
			}
			if i == 1 {
				for j := 0; j < 4; j++ {
					w.runHistSCION(genAllFailAuth(r), "scion.allfailauth")
				}
			}
			// the address type of the source / destination host
			for j := 0; j < n/20+2; j++ {
				h := genHistAddrType(r)
				w.runHistSCION(h, scionKind(h))
			}
			// clients without filter (the tool commands of timeservice.go), observed through their debug log
			for j := 0; j < n/20+2; j++ {
				h := genHist(r, false, false)
				h.imode, h.nofilter = false, true
				fixScripts(&h)
				w.runHist(h)
				hs := genHistSCION(r, false, false, false)
				hs.imode, hs.nofilter = false, true
				fixScripts(&hs)
				w.runHistSCION(hs, scionKind(hs))
			}
			// two servers
			for j := 0; j < n/8+2; j++ {
				w.runHist(genHistServers(r, j%2 == 0))
				hs := genHistServersSCION(r, j%3 == 0)
				w.runHistSCION(hs, scionKind(hs))
			}
		}(i)
	}
	wg.Wait()

	// families that run alone: the clock the clients read is one per process
	w := newWorker(100, a.Seed*1000+100, addrA, addrB)
	w.startSCION()
	r := lib.NewRng(a.Seed*7777 + 100)
	nlate := 40
	if a.Tier == "thorough" {
		nlate = 400
	}
	for j := 0; j < nlate; j++ {
		w.runHist(genHistLate(r, j%3 == 0))
		h := genHistLateSCION(r, j%3 == 1, j%4 == 2)
		w.runHistSCION(h, scionKind(h))
	}
	runBadLocal(w)
	var wg6 sync.WaitGroup
	if w6 := newWorker6(a.Seed); w6 != nil {
		wg6.Add(1)
		go func() {
			defer wg6.Done()
			r6 := lib.NewRng(a.Seed*7777 + 200)
			for j := 0; j < nlate; j++ {
				h := genHist(r6, false, false)
				h.v6 = true
				w6.runHist(h)
			}
		}()
	}
	runCtxDone(w, 2)
	runTwoPath(w, 4)
	wg6.Wait()
}
