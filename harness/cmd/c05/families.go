package main

// Families of histories beyond the general ones: the deadline passes while a
// datagram is handled (fake clock), clients without filter, two servers, the
// IPv6 loopback address, a local address that is no IP address.

import (
	"context"
	"log/slog"
	"net"
	"net/netip"
	"sync"
	"sync/atomic"
	"time"

	"github.com/google/gopacket"
	"github.com/scionproto/scion/pkg/slayers"
	"github.com/scionproto/scion/pkg/snet"
	spath "github.com/scionproto/scion/pkg/snet/path"

	"example.com/scion-time/core/client"
	"example.com/scion-time/net/ntp"
	"example.com/scion-time/net/udp"

	"verifharness/lib"
)

// the receive buffer of the SCION client (scion.MTU)
const scionBufLen = 9188

// fixScripts: one exchange per call (clients without interleaved mode)
func fixScripts(h *histSpec) {
	for i := range h.ops {
		if h.ops[i].kind == 0 && len(h.ops[i].scripts) > 1 {
			h.ops[i].scripts, h.ops[i].timeouts = h.ops[i].scripts[:1], h.ops[i].timeouts[:1]
		}
		for j := range h.ops[i].timeouts {
			if h.ops[i].timeouts[j] {
				h.ops[i].timeouts[j] = false
				h.ops[i].scripts[j] = []recipe{{kind: 0}}
			}
		}
	}
}

func badRecipe(r *lib.Rng, nts bool) recipe {
	for {
		rc := genRecipe(r, nts)
		if rc.kind >= 2 {
			return rc
		}
	}
}

// genHistLate: IP client, no interleaved mode, a deadline; the clock jumps past the
// deadline when the request has left, so every retry decision ends the call.
func genHistLate(r *lib.Rng, nts bool) histSpec {
	h := histSpec{nts: nts, deadline: true, late: true}
	for k := 0; k < 2+r.Intn(3); k++ {
		op := opSpec{kind: 0, timeouts: []bool{false}}
		switch r.Intn(5) {
		case 0:
			op.scripts = [][]recipe{{{kind: 0}}}
		case 1:
			op.scripts = [][]recipe{genScript(r, nts)}
		default:
			op.scripts = [][]recipe{{badRecipe(r, nts), {kind: 0}}}
		}
		h.ops = append(h.ops, op)
	}
	return h
}

func genHistLateSCION(r *lib.Rng, auth, nts bool) histSpec {
	h := histSpec{nts: nts, auth: auth, deadline: true, late: true}
	for k := 0; k < 2+r.Intn(3); k++ {
		op := opSpec{kind: 0, timeouts: []bool{false}}
		switch r.Intn(6) {
		case 0:
			op.scripts = [][]recipe{{{kind: 0}}}
		case 1:
			op.scripts = [][]recipe{genScriptAuth(r, nts, 60)}
		case 2:
			op.scripts = [][]recipe{{{kind: 38, p1: lib.Pick(r, int64(1), 2, 100, 3000), p2: int64(r.Intn(1 << 16))}, {kind: 0}}}
		case 3:
			op.scripts = [][]recipe{{wrapped(badVariants[r.Intn(len(badVariants))], genuineInner(r)), wrapped(vGenuine, recipe{kind: 0})}}
		default:
			s := genScriptSCION(r, nts)
			if s[0].kind < 2 {
				s[0] = recipe{kind: 30 + r.Intn(7), p1: int64(r.Intn(2)), p2: int64(r.Intn(1 << 16))}
			}
			op.scripts = [][]recipe{append(s, recipe{kind: 0})}
		}
		h.ops = append(h.ops, op)
	}
	return h
}

// genHistServers: the IP client queries now one, now the other address of the
// scripted peer: plain NTP by the remote address the caller passes, NTS by the
// address the key exchange names (one cookie per exchange and responses without a
// new cookie, so that every exchange starts with a key exchange).
func genHistServers(r *lib.Rng, nts bool) histSpec {
	h := histSpec{imode: r.Intn(5) != 0, nts: nts, deadline: true, servers: true, mappedRemote: !nts && r.Intn(4) == 0}
	n := 1
	if h.imode {
		n = 3
	}
	srv := r.Intn(2)
	for k := 0; k < 3+r.Intn(4); k++ {
		if r.Intn(2) == 0 {
			srv = 1 - srv
		}
		op := opSpec{kind: 0}
		if nts {
			op.keTarget, op.keOne = srv, r.Intn(4) != 0
		} else {
			op.server = srv
		}
		for j := 0; j < n; j++ {
			var s []recipe
			g := recipe{kind: 0, p2: int64(r.Intn(1 << 16))}
			if nts && r.Intn(3) != 0 {
				g.kind = 25
			}
			if r.Intn(2) == 0 {
				g.p2 |= 1 // the answer a conformant server gives to an interleaved request
				if !nts || g.kind == 0 {
					g = recipe{kind: 1, p2: g.p2}
				}
			}
			switch r.Intn(6) {
			case 0:
				// the response of the address that is not queried in this exchange
				s = []recipe{{kind: 2, p1: int64(r.Intn(2))}, g}
			case 1:
				s = []recipe{badRecipe(r, nts), g}
			case 2:
				s = genScript(r, nts)
			default:
				s = []recipe{g}
			}
			op.scripts = append(op.scripts, s)
			op.timeouts = append(op.timeouts, false)
		}
		h.ops = append(h.ops, op)
	}
	return h
}

func genHistServersSCION(r *lib.Rng, nts bool) histSpec {
	h := genHistServers(r, nts)
	h.mappedRemote = false
	for i := range h.ops {
		for j := range h.ops[i].scripts {
			for k, rc := range h.ops[i].scripts[j] {
				if rc.kind == 9 || rc.kind == 21 {
					h.ops[i].scripts[j][k] = recipe{kind: 5, p1: 4}
				}
			}
		}
	}
	return h
}

var v6ok = func() bool {
	c, err := net.ListenUDP("udp6", &net.UDPAddr{IP: net.IPv6loopback})
	if err != nil {
		return false
	}
	c.Close()
	return true
}()

// newWorker6: a scripted peer on the IPv6 loopback address (one address: no second source)
func newWorker6(seed uint64) *worker {
	if !v6ok {
		return nil
	}
	return newWorker(200, seed*1000+200, netip.IPv6Loopback(), netip.Addr{})
}

// runBadLocal: a local address that is no IP address (regression of /repo b838846: both
// clients returned offset 0 with a nil error without sending anything)
func runBadLocal(w *worker) {
	quiet := slog.New(nullHandler{})
	bad := net.IP{10, 1, 2}
	for scion := 0; scion < 2; scion++ {
		w.mu.Lock()
		w.scripts, w.timeouts, w.reqs = [][]recipe{{{kind: 0}}}, []bool{false}, nil
		w.mu.Unlock()
		ctx, cancel := context.WithTimeout(context.Background(), 3*time.Second)
		var err error
		if scion == 0 {
			c := &client.IPClient{Log: quiet}
			_, _, err = client.MeasureClockOffsetIP(ctx, quiet, c, &net.UDPAddr{IP: bad},
				&net.UDPAddr{IP: net.IP(w.addrA.AsSlice()), Port: w.udpPort()})
		} else {
			c := &client.SCIONClient{Log: quiet}
			la := udp.UDPAddr{IA: clientIA, Host: &net.UDPAddr{IP: bad}}
			ra := udp.UDPAddr{IA: serverIA, Host: &net.UDPAddr{IP: net.IP(w.addrA.AsSlice()), Port: 10123}}
			ps := []snet.Path{spath.Path{Src: clientIA, Dst: serverIA, DataplanePath: spath.Empty{},
				NextHop: &net.UDPAddr{IP: net.IP(w.addrA.AsSlice()), Port: w.scionPort()}}}
			_, _, err = client.MeasureClockOffsetSCION(ctx, quiet, []*client.SCIONClient{c}, la, ra, ps)
		}
		cancel()
		w.mu.Lock()
		nreq := len(w.reqs)
		w.reqs = nil
		w.mu.Unlock()
		outMu.Lock()
		out.Case("client.badlocal", "nt", lib.I(int64(scion)), lib.V(lib.Bool(err != nil), lib.I(int64(nreq))))
		outMu.Unlock()
	}
}

// countFilter counts the measurements a client evaluated
type countFilter struct{ n atomic.Int64 }

func (f *countFilter) Do(t0, t1, t2, t3 time.Time) time.Duration {
	f.n.Add(1)
	return ntp.ClockOffset(t0, t1, t2, t3)
}
func (f *countFilter) Reset() {}

// runCtxDone: calls whose context is already cancelled (variant 0), whose deadline lies in the
// past (1), or whose deadline passes between the tries of an interleaved-mode call (3: the first
// try is answered, the answer to the second is held back beyond the deadline).  A call must
// not report a measurement unless a datagram was accepted.
func runCtxDone(w *worker, reps int) {
	quiet := slog.New(nullHandler{})
	for rep := 0; rep < reps; rep++ {
		for scion := 0; scion < 2; scion++ {
			for _, v := range []int{0, 1, 3} {
				scripts := [][]recipe{{{kind: 0}}}
				if v == 3 {
					scripts = [][]recipe{{{kind: 0}}, {{kind: 27, p1: 700}}, {{kind: 0}}}
				}
				w.mu.Lock()
				w.nts = false
				w.scripts, w.timeouts, w.reqs = scripts, make([]bool, len(scripts)), nil
				w.mu.Unlock()
				var ctx context.Context
				var cancel context.CancelFunc
				switch v {
				case 0:
					ctx, cancel = context.WithCancel(context.Background())
					cancel()
				case 1:
					ctx, cancel = context.WithDeadline(context.Background(), time.Now().Add(-time.Second))
				default:
					ctx, cancel = context.WithTimeout(context.Background(), 350*time.Millisecond)
				}
				flt := &countFilter{}
				var err error
				var off time.Duration
				done := make(chan struct{})
				go func() {
					defer close(done)
					if scion == 0 {
						c := &client.IPClient{Log: quiet, InterleavedMode: v == 3, Filter: flt}
						_, off, err = client.MeasureClockOffsetIP(ctx, quiet, c, &net.UDPAddr{IP: net.IP(w.addrA.AsSlice())},
							&net.UDPAddr{IP: net.IP(w.addrA.AsSlice()), Port: w.udpPort()})
					} else {
						c := &client.SCIONClient{Log: quiet, InterleavedMode: v == 3, Filter: flt}
						la := udp.UDPAddr{IA: clientIA, Host: &net.UDPAddr{IP: net.IP(w.addrA.AsSlice())}}
						ra := udp.UDPAddr{IA: serverIA, Host: &net.UDPAddr{IP: net.IP(w.addrA.AsSlice()), Port: 10123}}
						ps := []snet.Path{spath.Path{Src: clientIA, Dst: serverIA, DataplanePath: spath.Empty{},
							NextHop: &net.UDPAddr{IP: net.IP(w.addrA.AsSlice()), Port: w.scionPort()}}}
						_, off, err = client.MeasureClockOffsetSCION(ctx, quiet, []*client.SCIONClient{c}, la, ra, ps)
					}
				}()
				select {
				case <-done:
				case <-time.After(6 * time.Second):
				}
				nf := flt.n.Load() // the measurements evaluated when the call returned
				cancel()
				// a client goroutine that outlives its call (SCION) finishes its exchange
				switch {
				case v == 3:
					time.Sleep(800 * time.Millisecond)
				case scion == 1:
					time.Sleep(250 * time.Millisecond)
				default:
					time.Sleep(20 * time.Millisecond)
				}
				w.mu.Lock()
				nreq := len(w.reqs)
				w.reqs = nil
				w.mu.Unlock()
				select {
				case <-done:
				default:
					continue // the call never returned: nothing to report (cannot happen with an answering peer)
				}
				if err != nil {
					off = 0
				}
				outMu.Lock()
				out.Case("client.ctxdone", "nt", lib.V(lib.I(int64(scion)), lib.I(int64(v))),
					lib.V(lib.Bool(err == nil), lib.I(int64(nreq)), lib.I(nf), lib.I(int64(off))))
				outMu.Unlock()
			}
		}
	}
}

// offsFilter records the offsets of the measurements the clients evaluated
type offsFilter struct {
	mu   sync.Mutex
	offs []time.Duration
}

func (f *offsFilter) Do(t0, t1, t2, t3 time.Time) time.Duration {
	off := ntp.ClockOffset(t0, t1, t2, t3)
	f.mu.Lock()
	f.offs = append(f.offs, off)
	f.mu.Unlock()
	return off
}
func (f *offsFilter) Reset() {}

// pathPeer: a scripted next hop of its own for one path: answers the one request it gets
// with the datagram of recipe rc after delay.
func (w *worker) pathPeer(rc recipe, delay time.Duration) (conn *net.UDPConn, seen *atomic.Int64) {
	conn, err := net.ListenUDP("udp4", net.UDPAddrFromAddrPort(netip.AddrPortFrom(w.addrA, 0)))
	if err != nil {
		panic(err)
	}
	seen = &atomic.Int64{}
	go func() {
		buf := make([]byte, 16384)
		for {
			n, from, err := conn.ReadFromUDPAddrPort(buf)
			if err != nil {
				return
			}
			arrival := time.Now()
			var (
				scn  slayers.SCION
				hbh  slayers.HopByHopExtnSkipper
				e2e  slayers.EndToEndExtn
				u    slayers.UDP
				scmp slayers.SCMP
			)
			parser := gopacket.NewDecodingLayerParser(slayers.LayerTypeSCION, &scn, &hbh, &e2e, &u, &scmp)
			parser.IgnoreUnsupported = true
			decoded := make([]gopacket.LayerType, 4)
			if parser.DecodeLayers(buf[:n], &decoded) != nil || len(decoded) < 2 ||
				decoded[len(decoded)-1] != slayers.LayerTypeSCIONUDP || len(u.Payload) < 48 {
				continue
			}
			srcHost, ok1 := netip.AddrFromSlice(scn.RawDstAddr)
			dstHost, ok2 := netip.AddrFromSlice(scn.RawSrcAddr)
			if !ok1 || !ok2 {
				continue
			}
			seen.Add(1)
			rq := &reqRec{raw: append([]byte(nil), u.Payload...), arrival: arrival, addr: from, server: srcHost.Unmap(), other: w.addrB}
			var p ntp.Packet
			_ = ntp.DecodePacket(&p, rq.raw)
			rq.org, rq.rx, rq.tx = p.OriginTime, p.ReceiveTime, p.TransmitTime
			good := scionHdr{srcIA: scn.DstIA, dstIA: scn.SrcIA, srcHost: srcHost.Unmap(), dstHost: dstHost.Unmap(),
				srcPort: u.DstPort, dstPort: u.SrcPort}
			w.mu.Lock()
			pl, _ := w.build(rc, rq, 0)
			w.mu.Unlock()
			dg := buildSCION(good, pl)
			time.Sleep(delay)
			_, _ = conn.WriteToUDPAddrPort(dg, from)
		}
	}()
	return conn, seen
}

// runTwoPath: MeasureClockOffsetSCION with two clients and two paths, each path with a next
// hop of its own.  Variant 0: one path answers at once with a response that is rejected at
// once (stratum 0), the other with the genuine response 300 ms later; 1: both genuine;
// 2: both rejected.  The call reports a measurement only if a datagram was accepted, and
// then one that lies between the accepted measurements.
func runTwoPath(w *worker, reps int) {
	quiet := slog.New(nullHandler{})
	bad := recipe{kind: 4, p1: 0}
	for rep := 0; rep < reps; rep++ {
		for v := 0; v < 3; v++ {
			w.mu.Lock()
			w.nts = false
			w.mu.Unlock()
			r1, r2 := bad, recipe{kind: 0}
			d1, d2 := time.Duration(0), 300*time.Millisecond
			switch v {
			case 1:
				r1, d2 = recipe{kind: 0}, 50*time.Millisecond
			case 2:
				r2 = bad
			}
			if rep%2 == 1 {
				r1, r2, d1, d2 = r2, r1, d2, d1 // the same with the paths exchanged
			}
			c1, n1 := w.pathPeer(r1, d1)
			c2, n2 := w.pathPeer(r2, d2)
			flt := &offsFilter{}
			cs := []*client.SCIONClient{{Log: quiet, Filter: flt}, {Log: quiet, Filter: flt}}
			la := udp.UDPAddr{IA: clientIA, Host: &net.UDPAddr{IP: net.IP(w.addrA.AsSlice())}}
			ra := udp.UDPAddr{IA: serverIA, Host: &net.UDPAddr{IP: net.IP(w.addrA.AsSlice()), Port: 10123}}
			ps := []snet.Path{
				spath.Path{Src: clientIA, Dst: serverIA, DataplanePath: spath.Empty{}, NextHop: c1.LocalAddr().(*net.UDPAddr)},
				spath.Path{Src: clientIA, Dst: serverIA, DataplanePath: spath.Empty{}, NextHop: c2.LocalAddr().(*net.UDPAddr)},
			}
			ctx, cancel := context.WithTimeout(context.Background(), 4*time.Second)
			ts, off, err := client.MeasureClockOffsetSCION(ctx, quiet, cs, la, ra, ps)
			cancel()
			flt.mu.Lock()
			offs := make([]string, len(flt.offs))
			for i, o := range flt.offs {
				offs[i] = lib.I(int64(o))
			}
			flt.mu.Unlock()
			time.Sleep(20 * time.Millisecond)
			c1.Close()
			c2.Close()
			if err != nil {
				off = 0
			}
			outMu.Lock()
			out.Case("scion.twopath", "nt", lib.I(int64(v)),
				lib.V(lib.Bool(err == nil), lib.I(int64(off)), lib.Bool(err == nil && ts.IsZero()), lib.I(n1.Load()+n2.Load()), lib.L(offs...)))
			outMu.Unlock()
		}
	}
}
