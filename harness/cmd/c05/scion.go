package main

// The SCION client (client.MeasureClockOffsetSCION with one client and one
// empty-path route whose next hop is the scripted peer): the peer wraps the
// crafted NTP / NTS payloads into SCION/UDP packets, with header mutations of
// its own (wrong source / destination ISD-AS or host, bytes that are not SCION,
// cut-off packets) and, for the client with Auth.Enabled (DRKey, mock keys:
// the process re-executes itself with USE_MOCK_KEYS=true) and for the plain
// client alike, with an end-to-end extension carrying packet authenticator
// options (SPAO) and timestamp options: genuine MAC, every kind of damage to
// MAC / metadata / covered bytes, other SPI / algorithm / length, several
// authenticators, none at all.  What gopacket/scionproto show of each datagram
// (and whether the MAC of the authenticator the client looks at verifies under
// the host-host key) is recomputed here with the parser configuration the
// client uses and handed to the model.

import (
	"bytes"
	"context"
	"encoding/binary"
	"fmt"
	"log/slog"
	"net"
	"net/netip"
	"time"

	"github.com/google/gopacket"
	"github.com/scionproto/scion/pkg/addr"
	"github.com/scionproto/scion/pkg/slayers"
	"github.com/scionproto/scion/pkg/slayers/path/empty"
	"github.com/scionproto/scion/pkg/snet"
	spath "github.com/scionproto/scion/pkg/snet/path"
	"github.com/scionproto/scion/pkg/spao"

	"example.com/scion-time/core/client"
	"example.com/scion-time/net/ntp"
	"example.com/scion-time/net/scion"
	"example.com/scion-time/net/udp"

	"verifharness/lib"
)

var (
	serverIA = addr.MustParseIA("1-ff00:0:111")
	clientIA = addr.MustParseIA("1-ff00:0:112")
	otherIA  = addr.MustParseIA("1-ff00:0:113")
)

// the packet authenticator of the time service, written down from the
// specification (DRKey host-host key, protocol 123; sender side = server):
// not taken from net/scion/auth.go
const (
	spiServer  = uint32(1)<<17 | uint32(0)<<16 | 123
	spiClient  = uint32(1)<<17 | uint32(1)<<16 | 123
	optAuth    = 2   // slayers.OptTypeAuthenticator
	optTS      = 253 // experimental: receive timestamp of the previous hop
	authOptLen = 28  // 12 bytes of metadata, 16 bytes of MAC
)

// the host-host key under USE_MOCK_KEYS
var mockKey = make([]byte, 16)

type e2eOpt struct {
	typ    uint8
	data   []byte
	mac    bool         // data is an authenticator: its last 16 bytes are set to the MAC under key
	key    []byte       // nil: the mock key
	post   func([]byte) // damage done to the option data after the MAC has been computed
	align4 bool
}

type scionHdr struct {
	srcIA, dstIA     addr.IA
	srcHost, dstHost netip.Addr
	srcPort, dstPort uint16
	srcRaw, dstRaw   []byte // != nil: the host address bytes as they go into the header, with srcType / dstType
	srcType, dstType slayers.AddrType
	flow             uint32
	tc               uint8
	e2e              bool // an end-to-end extension (possibly without options)
	opts             []e2eOpt
	hbh              bool         // a hop-by-hop extension in front
	postRaw          func([]byte) // damage done to the finished datagram
}

func authData(spi uint32, algo uint8, meta []byte) []byte {
	d := make([]byte, authOptLen)
	binary.BigEndian.PutUint32(d, spi)
	d[4] = algo
	copy(d[5:12], meta)
	return d
}

func buildSCION(h scionHdr, payload []byte) []byte {
	var scn slayers.SCION
	scn.Version = 0
	scn.FlowID = h.flow
	if scn.FlowID == 0 {
		scn.FlowID = 1
	}
	scn.TrafficClass = h.tc
	scn.PathType = empty.PathType
	scn.Path = empty.Path{}
	scn.DstIA, scn.SrcIA = h.dstIA, h.srcIA
	if err := scn.SetSrcAddr(addr.HostIP(h.srcHost)); err != nil {
		panic(err)
	}
	if err := scn.SetDstAddr(addr.HostIP(h.dstHost)); err != nil {
		panic(err)
	}
	if h.srcRaw != nil {
		scn.RawSrcAddr, scn.SrcAddrType = h.srcRaw, h.srcType
	}
	if h.dstRaw != nil {
		scn.RawDstAddr, scn.DstAddrType = h.dstRaw, h.dstType
	}
	so := gopacket.SerializeOptions{ComputeChecksums: true, FixLengths: true}
	var u slayers.UDP
	u.SrcPort, u.DstPort = h.srcPort, h.dstPort
	u.SetNetworkLayerForChecksum(&scn)
	// the bytes the MAC covers behind the headers: UDP header and payload
	ub := gopacket.NewSerializeBuffer()
	if err := gopacket.SerializeLayers(ub, so, &u, gopacket.Payload(payload)); err != nil {
		panic(err)
	}
	udpBytes := append([]byte(nil), ub.Bytes()...)

	layers := []gopacket.SerializableLayer{&scn}
	scn.NextHdr = slayers.L4UDP
	var hbh slayers.HopByHopExtn
	var e2e slayers.EndToEndExtn
	if h.e2e || len(h.opts) > 0 {
		e2e.NextHdr = slayers.L4UDP
		aux := make([]byte, spao.MACBufferSize)
		for _, o := range h.opts {
			eo := &slayers.EndToEndOption{OptType: slayers.OptionType(o.typ), OptData: append([]byte(nil), o.data...)}
			if o.align4 {
				eo.OptAlign = [2]uint8{4, 2}
			}
			if o.mac && len(eo.OptData) == authOptLen {
				key := o.key
				if key == nil {
					key = mockKey
				}
				_, err := spao.ComputeAuthCMAC(spao.MACInput{
					Key:        key,
					Header:     slayers.PacketAuthOption{EndToEndOption: eo},
					ScionLayer: &scn,
					PldType:    slayers.L4UDP,
					Pld:        udpBytes,
				}, aux, eo.OptData[12:authOptLen])
				if err != nil {
					panic(err)
				}
			}
			if o.post != nil {
				o.post(eo.OptData)
			}
			e2e.Options = append(e2e.Options, eo)
		}
		scn.NextHdr = slayers.End2EndClass
	}
	if h.hbh {
		hbh.NextHdr = scn.NextHdr
		hbh.Options = []*slayers.HopByHopOption{{OptType: slayers.OptTypePadN, OptData: make([]byte, 2)}}
		scn.NextHdr = slayers.HopByHopClass
		layers = append(layers, &hbh)
	}
	if h.e2e || len(h.opts) > 0 {
		layers = append(layers, &e2e)
	}
	layers = append(layers, &u, gopacket.Payload(payload))
	sb := gopacket.NewSerializeBuffer()
	if err := gopacket.SerializeLayers(sb, so, layers...); err != nil {
		panic(err)
	}
	dg := append([]byte(nil), sb.Bytes()...)
	if h.postRaw != nil {
		h.postRaw(dg)
	}
	return dg
}

// tsCmsg is the option data of a timestamp option as a forwarding end host
// writes it: the socket control message SCM_TIMESTAMPNS of the receive stamp.
func tsCmsg(t time.Time) []byte {
	b := make([]byte, 32)
	binary.LittleEndian.PutUint64(b, 32)      // cmsg_len
	binary.LittleEndian.PutUint32(b[8:], 1)   // SOL_SOCKET
	binary.LittleEndian.PutUint32(b[12:], 35) // SCM_TIMESTAMPNS
	binary.LittleEndian.PutUint64(b[16:], uint64(t.Unix()))
	binary.LittleEndian.PutUint64(b[24:], uint64(t.Nanosecond()))
	return b
}

// hostNum: the host of a SCION address header as an unmapped IPv4 address; -1: the
// header does not say IPv4 / IPv6 host (service address, unassigned type) or the
// bytes are no IP address or not an IPv4(-mapped) one.
func hostNum(raw []byte, typ slayers.AddrType) int64 {
	if typ != slayers.T4Ip && typ != slayers.T16Ip {
		return -1
	}
	a, ok := netip.AddrFromSlice(raw)
	if !ok {
		return -1
	}
	a = a.Unmap()
	if !a.Is4() {
		return -1
	}
	return addrNum(a)
}

type viewInfo struct {
	e2e  bool
	auth int // 0: no authenticator the client looks at, 1: MAC verifies, 2: it does not (or cannot be computed)
	ts   int64
}

var noView = lib.L("0", "0", "2", "0", "0", "0", "-1", "-1", "0", "-1", "0")

// scionView runs the parser of the client on a datagram and returns the
// model's view of it and the SCION/UDP payload.
func scionView(buf []byte) (view string, payload []byte, vi viewInfo) { return scionViewPort(buf, 0) }

// scionViewPort: port != 0: the SCION/UDP port the request was sent to; a datagram with
// another SCION/UDP source port does not come from the queried endpoint (source host: none)
func scionViewPort(buf []byte, port uint16) (view string, payload []byte, vi viewInfo) {
	defer func() {
		if recover() != nil {
			view, payload, vi = noView, nil, viewInfo{ts: -1}
		}
	}()
	vi.ts = -1
	var (
		scn  slayers.SCION
		hbh  slayers.HopByHopExtnSkipper
		e2e  slayers.EndToEndExtn
		u    slayers.UDP
		scmp slayers.SCMP
	)
	parser := gopacket.NewDecodingLayerParser(slayers.LayerTypeSCION, &scn, &hbh, &e2e, &u, &scmp)
	parser.IgnoreUnsupported = true
	decoded := make([]gopacket.LayerType, 4)
	err := parser.DecodeLayers(buf, &decoded)
	if err != nil {
		return noView, nil, vi
	}
	last := int64(2)
	if n := len(decoded); n > 0 {
		switch decoded[n-1] {
		case slayers.LayerTypeSCIONUDP:
			last = 0
		case slayers.LayerTypeSCMP:
			last = 1
		}
	}
	lenOK := len(buf) >= int(u.Length)
	vi.e2e = len(decoded) >= 3 && decoded[len(decoded)-2] == slayers.LayerTypeEndToEndExtn
	if last == 0 {
		payload = append([]byte(nil), u.Payload...)
	}
	if vi.e2e && last == 0 && lenOK {
		if o, err := e2e.FindOption(slayers.OptionType(optTS)); err == nil {
			if t, err := udp.TimestampFromOOBData(o.OptData); err == nil {
				vi.ts = t.UnixNano()
			}
		}
		if o, err := e2e.FindOption(slayers.OptionType(optAuth)); err == nil && len(o.OptData) == authOptLen {
			if binary.BigEndian.Uint32(o.OptData) == spiServer && o.OptData[4] == 0 {
				vi.auth = 2
				mac := make([]byte, 16)
				_, err := spao.ComputeAuthCMAC(spao.MACInput{
					Key:        mockKey,
					Header:     slayers.PacketAuthOption{EndToEndOption: o},
					ScionLayer: &scn,
					PldType:    slayers.L4UDP,
					Pld:        append(append([]byte(nil), u.Contents...), u.Payload...), // the UDP header and payload as parsed
				}, make([]byte, spao.MACBufferSize), mac)
				if err == nil && bytes.Equal(mac, o.OptData[12:]) {
					vi.auth = 1
				}
			}
		}
	}
	srcNum := hostNum(scn.RawSrcAddr, scn.SrcAddrType)
	if port != 0 && last == 0 && u.SrcPort != port {
		srcNum = -1
	}
	return lib.L("1", lib.I(int64(len(decoded))), lib.I(last), lib.Bool(lenOK), lib.U(uint64(scn.SrcIA)), lib.U(uint64(scn.DstIA)),
		lib.I(srcNum), lib.I(hostNum(scn.RawDstAddr, scn.DstAddrType)), lib.Bool(vi.e2e), lib.I(vi.ts), lib.I(int64(vi.auth))), payload, vi
}

func (w *worker) startSCION() {
	var err error
	w.connS, err = net.ListenUDP("udp4", net.UDPAddrFromAddrPort(netip.AddrPortFrom(w.addrA, 0)))
	if err != nil {
		panic(err)
	}
	go w.scionLoop()
}

func (w *worker) scionPort() int { return w.connS.LocalAddr().(*net.UDPAddr).Port }

// ---- recipes of the SCION layer ----
//
//	2        the payload recipe, sent with another source host
//	30 31 32 wrong source ISD-AS / destination ISD-AS / destination host around payload recipe p1%2
//	33       p1 random bytes instead of a SCION packet
//	35       the genuine packet with its last p1 bytes cut off
//	40+v     end-to-end extension variant v around the payload recipe (kind p1%100, p1 = p1/100)
const (
	vGenuine        = iota // authenticator of the server, MAC correct
	vMacBit                // one MAC bit flipped
	vMacRandom             // MAC replaced (random / zero)
	vMetaAfter             // timestamp / sequence number bytes changed after the MAC was computed
	vMetaBefore            // nonzero timestamp / sequence number, MAC computed over them: genuine
	vPayloadByte           // a bit of the NTP payload flipped after the MAC was computed (the payload stays a valid response)
	vUDPByte               // a bit of the SCION/UDP header flipped after the MAC was computed
	vFlowByte              // a bit of the flow id flipped after the MAC was computed
	vUncovered             // a bit outside the authenticated data flipped (traffic class bits 6,7): still genuine
	vClientSPI             // authenticator with the SPI of the client direction, MAC correct for it
	vOtherAlgo             // server SPI, another algorithm
	vOtherSPI              // another SPI
	vOtherLen              // option data of another length
	vWrongKey              // MAC computed under another key
	vIgnoredThenBad        // first authenticator: client SPI; second: server SPI with a wrong MAC
	vGoodThenBad           // first: genuine; second: wrong MAC
	vBadThenGood           // first: wrong MAC; second: genuine
	vNoAuth                // end-to-end extension without an authenticator
	vTSGenuine             // timestamp option (just after the arrival of the request) and genuine authenticator
	vTSOnly                // timestamp option only
	vTSPast                // timestamp option one second before the request, genuine authenticator
	vHBH                   // hop-by-hop extension, end-to-end extension with genuine authenticator
	vHBHOnly               // hop-by-hop extension only
	vTSMalformed           // timestamp option that does not parse, genuine authenticator
	vPathType              // genuine authenticator, path type byte set to an unregistered type
	vMacBitTS              // timestamp option and an authenticator with one MAC bit flipped
	vHBHBad                // hop-by-hop extension, end-to-end extension whose authenticator has one MAC bit flipped
	vHBHTS                 // hop-by-hop extension, end-to-end extension with timestamp option and genuine authenticator
	nVariants
)

var (
	badVariants     = []int{vMacBit, vMacBit, vMacRandom, vMetaAfter, vPayloadByte, vPayloadByte, vUDPByte, vFlowByte, vWrongKey, vBadThenGood, vMacBitTS, vHBHBad}
	ignoredVariants = []int{vClientSPI, vClientSPI, vOtherAlgo, vOtherSPI, vOtherLen, vIgnoredThenBad, vNoAuth, vTSOnly, vHBHOnly}
	goodVariants    = []int{vGenuine, vGenuine, vMetaBefore, vUncovered, vGoodThenBad, vTSGenuine, vHBH, vTSMalformed, vHBHTS}
	otherVariants   = []int{vTSPast, vPathType}
)

func flipMac(p2 int64) func([]byte) {
	return func(d []byte) {
		if len(d) == authOptLen {
			d[12+int(uint64(p2>>3)%16)] ^= 1 << uint(p2%8)
		}
	}
}

// applyVariant adds the end-to-end extension of variant v to the header.
func applyVariant(h *scionHdr, v int, p2 int64, arrival time.Time, idx int) {
	r := lib.NewRng(uint64(v)*7919 + uint64(p2))
	genuine := e2eOpt{typ: optAuth, data: authData(spiServer, 0, nil), mac: true, align4: true}
	bad := genuine
	bad.post = flipMac(p2)
	// later than any reading the client may take for its transmit time (the kernel stamp, or the clock after
	// a failed poll of the error queue)
	tsNear := arrival.Add(10*time.Millisecond + time.Duration(idx)*time.Microsecond)
	h.e2e = true
	switch v {
	case vGenuine:
		h.opts = []e2eOpt{genuine}
	case vMacBit:
		h.opts = []e2eOpt{bad}
	case vMacRandom:
		o := genuine
		if p2&1 == 0 {
			o.post = func(d []byte) { copy(d[12:], r.Bytes(16)) }
		} else {
			o.post = func(d []byte) { copy(d[12:], make([]byte, 16)) }
		}
		h.opts = []e2eOpt{o}
	case vMetaAfter:
		o := genuine
		o.post = func(d []byte) { d[5+int(uint64(p2>>3)%7)] ^= 1 << uint(p2%8) }
		h.opts = []e2eOpt{o}
	case vMetaBefore:
		o := genuine
		o.data = authData(spiServer, 0, r.Bytes(7))
		h.opts = []e2eOpt{o}
	case vPayloadByte:
		h.opts = []e2eOpt{genuine}
		h.postRaw = func(dg []byte) {
			// root delay, root dispersion, reference id, reference time: bytes 4..23 of the NTP header,
			// which the client does not look at; the header starts 48+ bytes before the end for plain NTP
			_, pl, _ := scionView(dg)
			if len(pl) >= 48 && len(dg) >= len(pl) {
				dg[len(dg)-len(pl)+4+int(uint64(p2>>3)%20)] ^= 1 << uint(p2%8)
			}
		}
	case vUDPByte:
		h.opts = []e2eOpt{genuine}
		h.postRaw = func(dg []byte) {
			_, pl, _ := scionView(dg)
			if pl != nil && len(dg) >= len(pl)+8 {
				// source port (2 bytes) or checksum (2 bytes) of the SCION/UDP header
				off := []int{0, 1, 6, 7}[int(uint64(p2>>3)%4)]
				dg[len(dg)-len(pl)-8+off] ^= 1 << uint(p2%8)
			}
		}
	case vFlowByte:
		h.opts = []e2eOpt{genuine}
		h.postRaw = func(dg []byte) { dg[3] ^= 1 << uint(p2%8) }
	case vUncovered:
		h.opts = []e2eOpt{genuine}
		h.postRaw = func(dg []byte) { dg[0] ^= 4 << uint(p2%2) }
	case vClientSPI:
		o := genuine
		o.data = authData(spiClient, 0, nil)
		h.opts = []e2eOpt{o}
	case vOtherAlgo:
		o := genuine
		o.data = authData(spiServer, byte(1+r.Intn(255)), nil)
		o.mac = false
		o.post = func(d []byte) { copy(d[12:], r.Bytes(16)) }
		h.opts = []e2eOpt{o}
	case vOtherSPI:
		o := genuine
		o.data = authData(lib.Pick(r, uint32(1), spiServer^(1<<uint(r.Intn(21))), spiServer+1, uint32(r.U64())&0x1fffff|1), 0, nil)
		if binary.BigEndian.Uint32(o.data) == spiServer {
			o.data = authData(1, 0, nil)
		}
		o.mac = false
		o.post = func(d []byte) { copy(d[12:], r.Bytes(16)) }
		h.opts = []e2eOpt{o}
	case vOtherLen:
		o := genuine
		o.mac = false
		o.data = append(authData(spiServer, 0, nil), r.Bytes(16)...)[:lib.Pick(r, 12, 24, 27, 29, 32, 44)]
		h.opts = []e2eOpt{o}
	case vWrongKey:
		o := genuine
		o.key = r.Bytes(16)
		o.key[0] |= 1
		h.opts = []e2eOpt{o}
	case vIgnoredThenBad:
		o := genuine
		o.data = authData(spiClient, 0, nil)
		h.opts = []e2eOpt{o, bad}
	case vGoodThenBad:
		h.opts = []e2eOpt{genuine, bad}
	case vBadThenGood:
		h.opts = []e2eOpt{bad, genuine}
	case vNoAuth:
		if p2&1 == 0 {
			h.opts = []e2eOpt{{typ: 200, data: r.Bytes(6)}}
		}
	case vTSGenuine:
		h.opts = []e2eOpt{genuine, {typ: optTS, data: tsCmsg(tsNear)}}
	case vTSOnly:
		h.opts = []e2eOpt{{typ: optTS, data: tsCmsg(tsNear)}}
	case vTSPast:
		h.opts = []e2eOpt{genuine, {typ: optTS, data: tsCmsg(arrival.Add(-time.Second - time.Duration(idx)*time.Microsecond))}}
	case vHBH:
		h.hbh = true
		h.opts = []e2eOpt{genuine}
	case vHBHOnly:
		h.hbh = true
		h.e2e = false
	case vTSMalformed:
		d := tsCmsg(tsNear)
		switch p2 % 3 {
		case 0:
			d = d[:8]
		case 1:
			binary.LittleEndian.PutUint64(d, 40)
		default:
			binary.LittleEndian.PutUint32(d[12:], 36)
		}
		h.opts = []e2eOpt{genuine, {typ: optTS, data: d}}
	case vPathType:
		h.opts = []e2eOpt{genuine}
		h.postRaw = func(dg []byte) { dg[8] = byte(5 + p2%200) }
	case vMacBitTS:
		h.opts = []e2eOpt{{typ: optTS, data: tsCmsg(tsNear)}, bad}
	case vHBHBad:
		h.hbh = true
		h.opts = []e2eOpt{bad}
	case vHBHTS:
		h.hbh = true
		h.opts = []e2eOpt{{typ: optTS, data: tsCmsg(tsNear)}, genuine}
	default:
		h.opts = []e2eOpt{genuine}
	}
}

// hostForm: forms of a host address in the SCION header that resemble the IPv4 address a
// (kind 36; p1 = form, +10: the destination host instead of the source host).  same: the
// form denotes the host a itself.
const nHostForms = 10

func hostForm(form int, a, other netip.Addr, p2 int64) (raw []byte, typ slayers.AddrType, same bool) {
	a4, o4 := a.As4(), other.As4()
	r := lib.NewRng(uint64(p2)*31 + uint64(form))
	v6 := func(prefix []byte, tail [4]byte) []byte {
		b := make([]byte, 16)
		copy(b, prefix)
		copy(b[12:], tail[:])
		return b
	}
	mapped := []byte{0, 0, 0, 0, 0, 0, 0, 0, 0, 0, 0xff, 0xff}
	switch form {
	case 0: // an IPv6 host whose last four bytes are those of a
		return v6([]byte{0x20, 0x01, 0x0d, 0xb8}, a4), slayers.T16Ip, false
	case 1: // the IPv4-mapped form of a: the same host
		return v6(mapped, a4), slayers.T16Ip, true
	case 2: // the IPv4-mapped form of another host
		return v6(mapped, o4), slayers.T16Ip, false
	case 3: // an IPv6 host whose first four bytes are those of a
		b := make([]byte, 16)
		copy(b, a4[:])
		if p2&1 == 1 {
			copy(b[4:], r.Bytes(12))
		}
		return b, slayers.T16Ip, false
	case 4: // IPv4-compatible ::a.b.c.d (no ffff)
		return v6(nil, a4), slayers.T16Ip, false
	case 5: // one bit of the mapped prefix off
		m := append([]byte(nil), mapped...)
		m[int(uint64(p2>>3)%12)] ^= 1 << uint(p2%8)
		return v6(m, a4), slayers.T16Ip, false
	case 6: // a random IPv6 host
		b := r.Bytes(16)
		b[0] = 0x20
		return b, slayers.T16Ip, false
	case 7: // a service address (control service, wildcard / multicast)
		return []byte{0, 2, byte(p2 & 1), 0}, slayers.T4Svc, false
	case 8: // 4 bytes of a with one bit flipped
		b := append([]byte(nil), a4[:]...)
		b[int(uint64(p2>>3)%4)] ^= 1 << uint(p2%8)
		return b, slayers.T4Ip, false
	default: // the IPv4-mapped form of a with the last byte changed
		t := a4
		t[3] ^= byte(1 + p2%255)
		return v6(mapped, t), slayers.T16Ip, false
	}
}

// typeForm: the bytes of the IPv4 host a (or its IPv4-mapped form) under every address
// type / length combination the SCION header can express (kind 37; p1 = form, +100: the
// destination host instead of the source host; case kind scion.addrtype).  The address
// type nibble is (type << 2 | length/4 - 1): T4Ip 0b0000, T4Svc 0b0100, T16Ip 0b0011.
// same: the header names the IPv4 / IPv6 host a.
const nTypeForms = 12

func typeForm(form int, a netip.Addr, p2 int64) (raw []byte, typ slayers.AddrType, same bool) {
	a4 := a.As4()
	m16 := append([]byte{0, 0, 0, 0, 0, 0, 0, 0, 0, 0, 0xff, 0xff}, a4[:]...)
	switch form {
	case 0: // service address with the four bytes of a
		return a4[:], slayers.T4Svc, false
	case 1, 2: // unassigned 4-byte types
		return a4[:], slayers.AddrType(form+1) << 2, false
	case 3, 4, 5: // 16-byte address of a type other than IPv6, holding the IPv4-mapped form of a
		return m16, slayers.AddrType(form-2)<<2 | 3, false
	case 6: // a real service address (control service)
		return []byte{0, 2, byte(p2 & 1), 0}, slayers.T4Svc, false
	case 7: // control: the IPv4 host
		return a4[:], slayers.T4Ip, true
	case 8: // control: its IPv4-mapped form
		return m16, slayers.T16Ip, true
	case 9: // 8-byte address: the four bytes of a, four zero bytes
		return append(append([]byte(nil), a4[:]...), 0, 0, 0, 0), slayers.AddrType(p2%4)<<2 | 1, false
	case 10: // 12-byte address ending in the four bytes of a
		return append(make([]byte, 8), a4[:]...), slayers.AddrType(p2%4)<<2 | 2, false
	default: // 16-byte service-typed address ending in the four bytes of a, not mapped
		b := make([]byte, 16)
		b[0] = 0x20
		copy(b[12:], a4[:])
		return b, slayers.T4Svc | 3, false
	}
}

// genHistAddrType: histories around the address type of the source / destination host
// (case kind scion.addrtype): every datagram is a genuine response as far as NTP goes.
func genHistAddrType(r *lib.Rng) histSpec {
	h := histSpec{imode: r.Intn(3) == 0, deadline: r.Intn(5) != 0, addrtype: true}
	form := func() recipe {
		return recipe{kind: 37, p1: int64(r.Intn(nTypeForms) + 100*lib.Pick(r, 0, 0, 1)), p2: int64(r.Intn(1 << 16))}
	}
	for k := 0; k < 1+r.Intn(2); k++ {
		op := opSpec{kind: 0}
		n := 1
		if h.imode {
			n = 3
		}
		for j := 0; j < n; j++ {
			var s []recipe
			switch r.Intn(4) {
			case 0, 1:
				s = []recipe{form()}
			case 2:
				s = []recipe{form(), genuineInner(r)}
			default:
				s = []recipe{{kind: 5, p1: int64(r.Intn(4))}, form()}
			}
			op.scripts = append(op.scripts, s)
			op.timeouts = append(op.timeouts, false)
		}
		h.ops = append(h.ops, op)
	}
	return h
}

func wrapped(v int, inner recipe) recipe {
	return recipe{kind: 40 + v, p1: int64(inner.kind) + 100*inner.p1, p2: inner.p2}
}

// scionDatagram turns one recipe into a datagram on the underlay.
func (w *worker) scionDatagram(rc recipe, rq *reqRec, idx int, good scionHdr) (dg []byte, fromServer bool, inner recipe) {
	h := good
	fs := true
	inner = rc
	switch {
	case rc.kind == 30:
		h.srcIA, fs = otherIA, false
		inner = recipe{kind: int(rc.p1 % 2), p2: rc.p2}
	case rc.kind == 31:
		h.dstIA, fs = otherIA, false
		inner = recipe{kind: int(rc.p1 % 2), p2: rc.p2}
	case rc.kind == 32:
		h.dstHost, fs = w.addrB, false
		inner = recipe{kind: int(rc.p1 % 2), p2: rc.p2}
	case rc.kind == 33:
		return lib.NewRng(uint64(rc.p2) + 99).Bytes(int(rc.p1)), false, inner
	case rc.kind == 34:
		// the genuine response with another SCION/UDP source port than the one that was queried
		h.srcPort, fs = h.srcPort+uint16(1+rc.p1%3000), false
		inner = recipe{kind: 0, p2: rc.p2}
		if rc.p2%4 == 3 {
			inner.kind = 1
		}
	case rc.kind == 36:
		host := h.srcHost
		if rc.p1 >= 10 {
			host = h.dstHost
		}
		raw, typ, same := hostForm(int(rc.p1%10), host, rq.other, rc.p2)
		if rc.p1 >= 10 {
			h.dstRaw, h.dstType = raw, typ
		} else {
			h.srcRaw, h.srcType = raw, typ
		}
		fs = same
		inner = recipe{kind: 0, p2: rc.p2}
		if rc.p2%4 == 3 {
			inner.kind = 1
		}
	case rc.kind == 39:
		// the genuine response (p1 >= 10: with the genuine packet authenticator) with bytes appended BEHIND
		// the UDP datagram: 8 filler bytes, a forged NTP header that echoes the origin timestamp and
		// carries other times, padding - in all exactly as many bytes as the UDP length says (p1%10 = 0),
		// one less (1), one more (2), or just the 56 bytes (3).  The parsed payload - the one NTS and
		// the authenticator vouch for - is untouched.
		inner = recipe{kind: 0, p2: rc.p2}
		if rc.p1 >= 10 {
			applyVariant(&h, vGenuine, rc.p2, rq.arrival, idx)
		}
		pl, _ := w.build(inner, rq, idx)
		dg = buildSCION(h, pl)
		l := len(pl) + 8
		fr := lib.NewRng(uint64(rc.p2) + 4711)
		frx := add64(ntp.Time64FromTime(rq.arrival), (50+int64(idx))<<32)
		forged := hdr{lvm: 0x24, stratum: 2, org: rq.tx, rx: frx, tx: add64(frx, 1000*usFrac)}
		tail := append(fr.Bytes(8), forged.bytes(fr)...)
		switch rc.p1 % 10 {
		case 0:
			tail = append(tail, make([]byte, l-len(tail))...)
		case 1:
			tail = append(tail, make([]byte, l-len(tail))...)[:l-1]
		case 2:
			tail = append(tail, make([]byte, l+1-len(tail))...)
		}
		return append(dg, tail...), true, inner
	case rc.kind == 38:
		// the genuine response followed by so many bytes that the datagram exceeds the client's
		// receive buffer by p1 bytes (p1 <= 0: fits)
		inner = recipe{kind: 0, p2: rc.p2}
		pl, _ := w.build(inner, rq, idx)
		base := len(buildSCION(h, pl))
		pad := scionBufLen + int(rc.p1) - base
		if pad < 0 {
			pad = 0
		}
		return buildSCION(h, append(pl, make([]byte, pad)...)), true, inner
	case rc.kind == 37:
		host := h.srcHost
		if rc.p1 >= 100 {
			host = h.dstHost
		}
		raw, typ, same := typeForm(int(rc.p1%100), host, rc.p2)
		if rc.p1 >= 100 {
			h.dstRaw, h.dstType = raw, typ
		} else {
			h.srcRaw, h.srcType = raw, typ
		}
		fs = same
		inner = recipe{kind: 0, p2: rc.p2}
		if rc.p2%4 == 3 {
			inner.kind = 1
		}
	case rc.kind >= 40 && rc.kind < 40+nVariants:
		inner = recipe{kind: int(rc.p1 % 100), p1: rc.p1 / 100, p2: rc.p2}
		applyVariant(&h, rc.kind-40, rc.p2, rq.arrival, idx)
	}
	if inner.kind == 2 {
		h.srcHost = rq.other
	}
	pl, fromSrv := w.build(inner, rq, idx)
	if !fromSrv {
		fs = false
	}
	dg = buildSCION(h, pl)
	if rc.kind == 35 {
		cut := int(rc.p1)
		if cut < len(dg) {
			dg = dg[:len(dg)-cut]
		}
	}
	return dg, fs, inner
}

func (w *worker) scionLoop() {
	buf := make([]byte, 16384)
	for {
		n, from, err := w.connS.ReadFromUDPAddrPort(buf)
		if err != nil {
			return
		}
		arrival := time.Now()
		raw := append([]byte(nil), buf[:n]...)
		var (
			scn  slayers.SCION
			hbh  slayers.HopByHopExtnSkipper
			e2e  slayers.EndToEndExtn
			u    slayers.UDP
			scmp slayers.SCMP
		)
		parser := gopacket.NewDecodingLayerParser(slayers.LayerTypeSCION, &scn, &hbh, &e2e, &u, &scmp)
		parser.IgnoreUnsupported = true
		decoded := make([]gopacket.LayerType, 4)
		if parser.DecodeLayers(raw, &decoded) != nil || len(decoded) < 2 ||
			decoded[len(decoded)-1] != slayers.LayerTypeSCIONUDP || len(u.Payload) < 48 {
			continue
		}
		srcHost, ok1 := netip.AddrFromSlice(scn.RawDstAddr)
		dstHost, ok2 := netip.AddrFromSlice(scn.RawSrcAddr)
		if !ok1 || !ok2 {
			continue
		}
		rq := &reqRec{raw: append([]byte(nil), u.Payload...), arrival: arrival, addr: from,
			server: srcHost.Unmap(), other: w.addrB, port: int(u.DstPort)}
		if rq.server == w.addrB {
			rq.other = w.addrA
		}
		var p ntp.Packet
		_ = ntp.DecodePacket(&p, rq.raw)
		rq.org, rq.rx, rq.tx = p.OriginTime, p.ReceiveTime, p.TransmitTime
		rq.uid, _, _, _, _, _ = walk(rq.raw)
		// the request of a client with Auth.Enabled carries the authenticator of the client direction
		if len(decoded) >= 3 && decoded[len(decoded)-2] == slayers.LayerTypeEndToEndExtn {
			if o, err := e2e.FindOption(slayers.OptionType(optAuth)); err == nil && len(o.OptData) == authOptLen &&
				binary.BigEndian.Uint32(o.OptData) == spiClient {
				rq.reqAuth = true
			}
		}
		good := scionHdr{srcIA: scn.DstIA, dstIA: scn.SrcIA, srcHost: srcHost.Unmap(), dstHost: dstHost.Unmap(),
			srcPort: u.DstPort, dstPort: u.SrcPort}
		pr := portBegin(rq)
		w.mu.Lock()
		rq.bindLower, w.prevArrival = w.prevArrival, arrival
		if w.lateMode {
			theClock.jump.Store(int64(time.Hour))
			rq.late = true
		}
		rq.s2c = w.s2c
		if w.keSeq != w.keSeen {
			rq.ke, w.keSeen = w.lastKE, w.keSeq
		}
		k := len(w.reqs)
		if k < len(w.scripts) {
			rq.recipes = w.scripts[k]
			rq.timeout = w.timeouts[k]
		}
		var genuine []byte
		for i, rc := range rq.recipes {
			dg, fs, inner := w.scionDatagram(rc, rq, i, good)
			view, pl, vi := scionViewPort(dg, u.DstPort)
			d := dgramRec{fromServer: fs, payload: pl, raw: dg, front: view, vi: vi}
			if rc.kind == 27 {
				d.delayMs = rc.p1
			}
			if w.nts && pl != nil {
				w.ntsFacts(&d, rq)
			}
			if (inner.kind == 0 || inner.kind == 1) && genuine == nil && pl != nil && rc.kind != 35 {
				genuine = pl
			}
			rq.sent = append(rq.sent, d)
		}
		if !rq.timeout {
			for i := 0; i < 2; i++ {
				dg := []byte{byte(0xe0 + i)}
				view, pl, vi := scionView(dg)
				rq.sent = append(rq.sent, dgramRec{fromServer: false, payload: pl, raw: dg, front: view, vi: vi})
			}
		}
		w.reqs = append(w.reqs, rq)
		prevUID := rq.uid
		w.mu.Unlock()
		for _, d := range rq.sent {
			if d.delayMs > 0 {
				time.Sleep(time.Duration(d.delayMs) * time.Millisecond)
			}
			_, _ = w.connS.WriteToUDPAddrPort(d.raw, from)
		}
		pr.end()
		w.mu.Lock()
		if genuine != nil {
			w.prevPkt = genuine
		}
		w.prevUID = prevUID
		w.mu.Unlock()
	}
}

// ---- generators ----
func payloadRecipeSCION(r *lib.Rng, nts bool) recipe {
	for {
		rc := genRecipe(r, nts)
		// kinds that make no sense over SCION (receive buffer of 9188 bytes, one underlay socket)
		if rc.kind != 9 && rc.kind != 21 {
			return rc
		}
	}
}

func genScriptSCION(r *lib.Rng, nts bool) []recipe {
	s := genScript(r, nts)
	for i := range s {
		if s[i].kind == 9 || s[i].kind == 21 {
			s[i] = recipe{kind: 5, p1: 4}
		}
	}
	for i := range s {
		if i < len(s)-1 || r.Intn(6) == 0 {
			switch r.Intn(5) {
			case 0:
				s[i] = recipe{kind: 30 + r.Intn(3), p1: int64(r.Intn(2)), p2: int64(r.Intn(1 << 16))}
				if r.Intn(3) == 0 {
					s[i] = recipe{kind: 34, p1: int64(r.Intn(3000)), p2: int64(r.Intn(1 << 16))}
				}
			case 2, 3:
				// host addresses that resemble the queried server's (the client's) without being it
				s[i] = recipe{kind: 36, p1: int64(r.Intn(nHostForms) + 10*lib.Pick(r, 0, 0, 1)), p2: int64(r.Intn(1 << 16))}
			case 4:
				if r.Intn(3) != 0 {
					// bytes behind the UDP datagram
					s[i] = recipe{kind: 39, p1: int64(lib.Pick(r, 0, 0, 0, 1, 2, 3) + 10*r.Intn(2)), p2: int64(r.Intn(1 << 16))}
				} else {
					// around the size of the client's receive buffer: fits exactly, one byte more, much more
					s[i] = recipe{kind: 38, p1: lib.Pick(r, int64(0), 1, 1, 2, 811, -1), p2: int64(r.Intn(1 << 16))}
				}
			case 1:
				if r.Bool() {
					s[i] = recipe{kind: 33, p1: lib.Pick(r, int64(0), 1, 20, 36, 60, 100), p2: int64(r.Intn(1 << 16))}
				} else {
					s[i] = recipe{kind: 35, p1: lib.Pick(r, int64(1), 4, 48, 60), p2: int64(r.Intn(1 << 16))}
				}
			}
		}
	}
	return s
}

// a response the NTP / NTS part of the client accepts
func genuineInner(r *lib.Rng) recipe {
	if r.Intn(3) == 0 {
		return recipe{kind: 1, p2: int64(2*r.Intn(1<<15) + 1)}
	}
	return recipe{kind: 0, p2: int64(r.Intn(1 << 16))}
}

// genScriptAuth: scripts around the packet authenticator.  spao: how often a
// datagram gets an end-to-end extension at all.
func genScriptAuth(r *lib.Rng, nts bool, spao int) []recipe {
	pick := func(vs []int) int { return vs[r.Intn(len(vs))] }
	bad := func() recipe { return wrapped(pick(badVariants), genuineInner(r)) }
	good := func() recipe { return wrapped(pick(goodVariants), genuineInner(r)) }
	ign := func() recipe { return wrapped(pick(ignoredVariants), genuineInner(r)) }
	if r.Intn(100) < 45 {
		// directed scripts: every datagram is a genuine response as far as NTP / NTS is concerned
		switch r.Intn(12) {
		case 0, 1:
			return []recipe{bad(), good()} // wrong MAC skipped, genuine accepted
		case 2, 3:
			return []recipe{bad(), bad(), good()} // retry exhausted: error although the genuine response follows
		case 4:
			return []recipe{ign()} // authenticator the client does not look at
		case 5:
			return []recipe{genuineInner(r)} // no end-to-end extension at all
		case 6:
			return []recipe{bad(), genuineInner(r)} // wrong MAC, then the response without authenticator
		case 7:
			return []recipe{bad(), ign()}
		case 8:
			return []recipe{good()}
		case 9:
			return []recipe{wrapped(pick(otherVariants), genuineInner(r)), good()}
		case 10:
			return []recipe{ign(), bad(), good()} // accepted at once: the rest is never read
		default:
			return []recipe{bad()} // one wrong MAC, then only the two terminators
		}
	}
	s := genScriptSCION(r, nts)
	for i := range s {
		if s[i].kind >= 30 || r.Intn(100) >= spao {
			continue
		}
		var v int
		last := i == len(s)-1
		switch k := r.Intn(10); {
		case last && k < 7:
			v = pick(goodVariants)
		case k < 4:
			v = pick(badVariants)
		case k < 6:
			v = pick(ignoredVariants)
		case k < 9:
			v = pick(goodVariants)
		default:
			v = pick(otherVariants)
		}
		s[i] = wrapped(v, s[i])
	}
	return s
}

// genHistSCION: auth = the client has Auth.Enabled (DRKey), nts = Auth.NTSEnabled
func genHistSCION(r *lib.Rng, long bool, auth, nts bool) histSpec {
	h := genHist(r, long, false)
	h.nts, h.auth = nts, auth
	h.sameIA = nts && r.Intn(3) == 0
	for i := range h.ops {
		if h.ops[i].kind == 1 {
			continue
		}
		// no silent-peer scripts here: MeasureClockOffsetSCION returns at the deadline while its
		// client goroutine is still running, so the exchange's error is not observable in order
		for j := range h.ops[i].scripts {
			switch {
			case auth:
				h.ops[i].scripts[j] = genScriptAuth(r, nts, 75)
			case r.Intn(4) == 0:
				// a client without key: authenticators are not looked at
				h.ops[i].scripts[j] = genScriptAuth(r, nts, 40)
			default:
				h.ops[i].scripts[j] = genScriptSCION(r, nts)
			}
			h.ops[i].timeouts[j] = false
		}
	}
	return h
}

// allFail: one call in which no datagram is acceptable
func genAllFailSCION(r *lib.Rng) histSpec {
	h := histSpec{imode: r.Bool(), deadline: true}
	op := opSpec{kind: 0}
	n := 1
	if h.imode {
		n = 3
	}
	for j := 0; j < n; j++ {
		op.scripts = append(op.scripts, []recipe{{kind: 5, p1: int64(r.Intn(4))}, {kind: 4, p1: 0}})
		op.timeouts = append(op.timeouts, false)
	}
	h.ops = []opSpec{op}
	return h
}

// allFailAuth: a client with Auth.Enabled is sent nothing but wrong MACs around
// otherwise genuine responses: every exchange ends with the authenticator error
func genAllFailAuth(r *lib.Rng) histSpec {
	h := histSpec{imode: r.Bool(), deadline: r.Intn(4) != 0, auth: true}
	op := opSpec{kind: 0}
	n := 1
	if h.imode {
		n = 3
	}
	for j := 0; j < n; j++ {
		var s []recipe
		for k := 0; k < 2+r.Intn(2); k++ {
			s = append(s, wrapped(badVariants[r.Intn(len(badVariants))], genuineInner(r)))
		}
		op.scripts = append(op.scripts, s)
		op.timeouts = append(op.timeouts, false)
	}
	h.ops = []opSpec{op}
	return h
}

func scionKind(h histSpec) string {
	switch {
	case h.addrtype:
		return "scion.addrtype"
	case h.late && h.auth:
		return "scion.lateauth"
	case h.late:
		return "scion.late"
	case h.nofilter:
		return "scion.nofilter"
	case h.servers:
		return "scion.servers"
	case h.auth && h.nts:
		return "scion.ntsauth"
	case h.auth:
		return "scion.auth"
	case h.nts:
		return "scion.nts"
	}
	return "scion.hist"
}

func (w *worker) runHistSCION(h histSpec, kind string) {
	rec := &recorder{}
	callLog := slog.New(errHandler{rec})
	quiet := slog.New(nullHandler{})
	c := &client.SCIONClient{Log: quiet, InterleavedMode: h.imode, Filter: rec}
	if h.nofilter {
		c.Filter, c.Log = nil, slog.New(&logRec{r: rec})
	}
	if h.auth {
		c.Auth.Enabled = true
		c.Auth.DRKeyFetcher = scion.NewFetcher(nil)
	}
	if h.nts {
		c.Auth.NTSEnabled = true
		c.Auth.NTSKEFetcher.Log = quiet
		c.Auth.NTSKEFetcher.TLSConfig.InsecureSkipVerify = true
		c.Auth.NTSKEFetcher.TLSConfig.ServerName = w.addrA.String()
		c.Auth.NTSKEFetcher.TLSConfig.MinVersion = 0x0304
		c.Auth.NTSKEFetcher.Port = fmt.Sprint(w.kePort)
	}
	w.mu.Lock()
	w.nts = h.nts
	w.lateMode = h.late
	w.keAnnounce = w.scionPort()
	w.prevPkt, w.prevUID = nil, nil
	w.mu.Unlock()
	defer func() {
		w.mu.Lock()
		w.keAnnounce, w.lateMode, w.keTarget, w.keCookies = 0, false, 0, 0
		w.mu.Unlock()
		theClock.jump.Store(0)
	}()
	srvIA := serverIA
	if h.sameIA {
		srvIA = clientIA
	}
	var calls []*callObs
	for _, op := range h.ops {
		switch op.kind {
		case 1:
			c.ResetInterleavedMode()
			calls = append(calls, &callObs{spec: op})
			continue
		case 2:
			time.Sleep(time.Duration(op.pauseMs) * time.Millisecond)
			calls = append(calls, &callObs{spec: op})
			continue
		}
		w.mu.Lock()
		w.scripts, w.timeouts, w.reqs = op.scripts, op.timeouts, nil
		w.keTarget, w.keCookies = op.keTarget, 0
		if op.keOne {
			w.keCookies = 1
		}
		w.mu.Unlock()
		rec.mu.Lock()
		rec.events = nil
		rec.mu.Unlock()
		ctx, cancel := context.Background(), func() {}
		if h.deadline {
			d := 8 * time.Second
			if len(op.timeouts) > 0 && op.timeouts[0] {
				d = 600 * time.Millisecond
			}
			ctx, cancel = context.WithTimeout(ctx, d)
		}
		srvHost := w.addrA
		if op.server == 1 {
			srvHost = w.addrB
		}
		la := udp.UDPAddr{IA: clientIA, Host: &net.UDPAddr{IP: net.IP(w.addrA.AsSlice())}}
		ra := udp.UDPAddr{IA: srvIA, Host: &net.UDPAddr{IP: net.IP(srvHost.AsSlice()), Port: 10123}}
		ps := []snet.Path{spath.Path{Src: clientIA, Dst: srvIA, DataplanePath: spath.Empty{},
			NextHop: &net.UDPAddr{IP: net.IP(w.addrA.AsSlice()), Port: w.scionPort()}}}
		done := make(chan struct{})
		co := &callObs{spec: op}
		go func() {
			_, co.off, co.err = client.MeasureClockOffsetSCION(ctx, callLog, []*client.SCIONClient{c}, la, ra, ps)
			close(done)
		}()
		tick := time.NewTicker(time.Second)
		waited := 0
	wait:
		for {
			select {
			case <-done:
				break wait
			case <-tick.C:
				waited++
				if waited >= 5 {
					w.mu.Lock()
					if n := len(w.reqs); n > 0 {
						_, _ = w.connS.WriteToUDPAddrPort([]byte{0xee}, w.reqs[n-1].addr)
					}
					w.mu.Unlock()
				}
			}
		}
		tick.Stop()
		cancel()
		theClock.jump.Store(0)
		w.mu.Lock()
		co.reqs = w.reqs
		w.reqs = nil
		w.mu.Unlock()
		rec.mu.Lock()
		co.events = append([]xevent(nil), rec.events...)
		rec.mu.Unlock()
		if h.nts {
			co.pool = c.Auth.NTSKEFetcher.VerifData().Cookie
		}
		calls = append(calls, co)
	}
	w.emit(h, calls, kind)
}
