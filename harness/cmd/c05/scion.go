package main

// The SCION client (client.MeasureClockOffsetSCION with one client and one
// empty-path route whose next hop is the scripted peer): the peer wraps the
// crafted NTP payloads into SCION/UDP packets, with header mutations of its own
// (wrong source / destination ISD-AS or host, bytes that are not SCION, cut-off
// packets).  What gopacket/scionproto show of each datagram is recomputed here
// with the parser configuration the client uses and handed to the model.

import (
	"context"
	"fmt"
	"log/slog"
	"net"
	"net/netip"
	"time"

	"github.com/google/gopacket"
	"github.com/scionproto/scion/pkg/addr"
	"github.com/scionproto/scion/pkg/slayers"
	"github.com/scionproto/scion/pkg/slayers/path/empty"
	"github.com/scionproto/scion/pkg/snet"
	spath "github.com/scionproto/scion/pkg/snet/path"

	"example.com/scion-time/core/client"
	"example.com/scion-time/net/ntp"
	"example.com/scion-time/net/udp"

	"verifharness/lib"
)

var (
	serverIA = addr.MustParseIA("1-ff00:0:111")
	clientIA = addr.MustParseIA("1-ff00:0:112")
	otherIA  = addr.MustParseIA("1-ff00:0:113")
)

type scionHdr struct {
	srcIA, dstIA     addr.IA
	srcHost, dstHost netip.Addr
	srcPort, dstPort uint16
}

func buildSCION(h scionHdr, payload []byte) []byte {
	var scn slayers.SCION
	scn.Version = 0
	scn.FlowID = 1
	scn.NextHdr = slayers.L4UDP
	scn.PathType = empty.PathType
	scn.Path = empty.Path{}
	scn.DstIA, scn.SrcIA = h.dstIA, h.srcIA
	if err := scn.SetSrcAddr(addr.HostIP(h.srcHost)); err != nil {
		panic(err)
	}
	if err := scn.SetDstAddr(addr.HostIP(h.dstHost)); err != nil {
		panic(err)
	}
	var u slayers.UDP
	u.SrcPort, u.DstPort = h.srcPort, h.dstPort
	u.SetNetworkLayerForChecksum(&scn)
	sb := gopacket.NewSerializeBuffer()
	err := gopacket.SerializeLayers(sb, gopacket.SerializeOptions{ComputeChecksums: true, FixLengths: true},
		&scn, &u, gopacket.Payload(payload))
	if err != nil {
		panic(err)
	}
	return append([]byte(nil), sb.Bytes()...)
}

func hostNum(raw []byte) int64 {
	a, ok := netip.AddrFromSlice(raw)
	if !ok {
		return -1
	}
	a = a.Unmap()
	if !a.Is4() {
		return -1
	}
	return addrNum(a)
}

// scionView runs the parser of the client on a datagram and returns the
// model's view of it and the SCION/UDP payload.
func scionView(buf []byte) (view string, payload []byte) {
	defer func() {
		if recover() != nil {
			view, payload = lib.L("0", "0", "2", "0", "0", "0", "-1", "-1", "0", "-1", "0"), nil
		}
	}()
	var (
		scn  slayers.SCION
		hbh  slayers.HopByHopExtnSkipper
		e2e  slayers.EndToEndExtn
		u    slayers.UDP
		scmp slayers.SCMP
	)
	parser := gopacket.NewDecodingLayerParser(slayers.LayerTypeSCION, &scn, &hbh, &e2e, &u, &scmp)
	parser.IgnoreUnsupported = true
	decoded := make([]gopacket.LayerType, 4)
	err := parser.DecodeLayers(buf, &decoded)
	if err != nil {
		return lib.L("0", "0", "2", "0", "0", "0", "-1", "-1", "0", "-1", "0"), nil
	}
	last := int64(2)
	if n := len(decoded); n > 0 {
		switch decoded[n-1] {
		case slayers.LayerTypeSCIONUDP:
			last = 0
		case slayers.LayerTypeSCMP:
			last = 1
		}
	}
	lenOK := len(buf) >= int(u.Length)
	e2ef := len(decoded) >= 3 && decoded[len(decoded)-2] == slayers.LayerTypeEndToEndExtn
	if last == 0 {
		payload = append([]byte(nil), u.Payload...)
	}
	return lib.L("1", lib.I(int64(len(decoded))), lib.I(last), lib.Bool(lenOK), lib.U(uint64(scn.SrcIA)), lib.U(uint64(scn.DstIA)),
		lib.I(hostNum(scn.RawSrcAddr)), lib.I(hostNum(scn.RawDstAddr)), lib.Bool(e2ef), "-1", "0"), payload
}

func (w *worker) startSCION() {
	var err error
	w.connS, err = net.ListenUDP("udp4", net.UDPAddrFromAddrPort(netip.AddrPortFrom(w.addrA, 0)))
	if err != nil {
		panic(err)
	}
	go w.scionLoop()
}

func (w *worker) scionPort() int { return w.connS.LocalAddr().(*net.UDPAddr).Port }

func (w *worker) scionLoop() {
	buf := make([]byte, 16384)
	for {
		n, from, err := w.connS.ReadFromUDPAddrPort(buf)
		if err != nil {
			return
		}
		arrival := time.Now()
		raw := append([]byte(nil), buf[:n]...)
		var scn slayers.SCION
		var u slayers.UDP
		if scn.DecodeFromBytes(raw, gopacket.NilDecodeFeedback) != nil || scn.NextHdr != slayers.L4UDP ||
			u.DecodeFromBytes(scn.Payload, gopacket.NilDecodeFeedback) != nil || len(u.Payload) < 48 {
			continue
		}
		rq := &reqRec{raw: append([]byte(nil), u.Payload...), arrival: arrival, addr: from}
		var p ntp.Packet
		_ = ntp.DecodePacket(&p, rq.raw)
		rq.org, rq.rx, rq.tx = p.OriginTime, p.ReceiveTime, p.TransmitTime
		good := scionHdr{srcIA: serverIA, dstIA: clientIA, srcHost: w.addrA, dstHost: w.addrA, srcPort: u.DstPort, dstPort: u.SrcPort}
		w.mu.Lock()
		k := len(w.reqs)
		if k < len(w.scripts) {
			rq.recipes = w.scripts[k]
			rq.timeout = w.timeouts[k]
		}
		for i, rc := range rq.recipes {
			h := good
			fs := true
			var dg []byte
			inner := rc
			switch rc.kind {
			case 30:
				h.srcIA, fs = otherIA, false
				inner = recipe{kind: int(rc.p1 % 2), p2: rc.p2}
			case 31:
				h.dstIA, fs = otherIA, false
				inner = recipe{kind: int(rc.p1 % 2), p2: rc.p2}
			case 32:
				h.dstHost, fs = w.addrB, false
				inner = recipe{kind: int(rc.p1 % 2), p2: rc.p2}
			case 33:
				dg = lib.NewRng(uint64(rc.p2) + 99).Bytes(int(rc.p1))
				fs = false
			case 2:
				h.srcHost = w.addrB
			}
			if dg == nil {
				pl, fromServer := w.build(inner, rq, i)
				if !fromServer {
					fs = false
				}
				dg = buildSCION(h, pl)
				if rc.kind == 35 {
					cut := int(rc.p1)
					if cut < len(dg) {
						dg = dg[:len(dg)-cut]
					}
				}
			}
			view, pl := scionView(dg)
			rq.sent = append(rq.sent, dgramRec{fromServer: fs, payload: pl, raw: dg, front: view})
		}
		if !rq.timeout {
			for i := 0; i < 2; i++ {
				dg := []byte{byte(0xe0 + i)}
				view, pl := scionView(dg)
				rq.sent = append(rq.sent, dgramRec{fromServer: false, payload: pl, raw: dg, front: view})
			}
		}
		w.reqs = append(w.reqs, rq)
		w.mu.Unlock()
		for _, d := range rq.sent {
			_, _ = w.connS.WriteToUDPAddrPort(d.raw, from)
		}
	}
}

func genScriptSCION(r *lib.Rng) []recipe {
	s := genScript(r, false)
	for i := range s {
		if i < len(s)-1 || r.Intn(6) == 0 {
			switch r.Intn(5) {
			case 0:
				s[i] = recipe{kind: 30 + r.Intn(3), p1: int64(r.Intn(2)), p2: int64(r.Intn(1 << 16))}
			case 1:
				if r.Bool() {
					s[i] = recipe{kind: 33, p1: lib.Pick(r, int64(0), 1, 20, 36, 60, 100), p2: int64(r.Intn(1 << 16))}
				} else {
					s[i] = recipe{kind: 35, p1: lib.Pick(r, int64(1), 4, 48, 60), p2: int64(r.Intn(1 << 16))}
				}
			}
		}
	}
	// kinds that make no sense over SCION (receive buffer of 9188 bytes)
	for i := range s {
		if s[i].kind == 9 || s[i].kind == 21 {
			s[i] = recipe{kind: 5, p1: 4}
		}
	}
	return s
}

func genHistSCION(r *lib.Rng, long bool) histSpec {
	h := genHist(r, long, false)
	h.nts = false
	for i := range h.ops {
		if h.ops[i].kind == 1 {
			continue
		}
		// no silent-peer scripts here: MeasureClockOffsetSCION returns at the deadline while its
		// client goroutine is still running, so the exchange's error is not observable in order
		for j := range h.ops[i].scripts {
			h.ops[i].scripts[j] = genScriptSCION(r)
			h.ops[i].timeouts[j] = false
		}
	}
	return h
}

// allFail: one call in which no datagram is acceptable
func genAllFailSCION(r *lib.Rng) histSpec {
	h := histSpec{imode: r.Bool(), deadline: true}
	op := opSpec{kind: 0}
	n := 1
	if h.imode {
		n = 3
	}
	for j := 0; j < n; j++ {
		op.scripts = append(op.scripts, []recipe{{kind: 5, p1: int64(r.Intn(4))}, {kind: 4, p1: 0}})
		op.timeouts = append(op.timeouts, false)
	}
	h.ops = []opSpec{op}
	return h
}

func (w *worker) runHistSCION(h histSpec, kind string) {
	rec := &recorder{}
	callLog := slog.New(errHandler{rec})
	quiet := slog.New(nullHandler{})
	c := &client.SCIONClient{Log: quiet, InterleavedMode: h.imode, Filter: rec}
	w.mu.Lock()
	w.nts = false
	w.prevPkt, w.prevUID = nil, nil
	w.mu.Unlock()
	var calls []*callObs
	for _, op := range h.ops {
		switch op.kind {
		case 1:
			c.ResetInterleavedMode()
			calls = append(calls, &callObs{spec: op})
			continue
		case 2:
			time.Sleep(time.Duration(op.pauseMs) * time.Millisecond)
			calls = append(calls, &callObs{spec: op})
			continue
		}
		w.mu.Lock()
		w.scripts, w.timeouts, w.reqs = op.scripts, op.timeouts, nil
		w.mu.Unlock()
		rec.mu.Lock()
		rec.events = nil
		rec.mu.Unlock()
		ctx, cancel := context.Background(), func() {}
		if h.deadline {
			d := 8 * time.Second
			if len(op.timeouts) > 0 && op.timeouts[0] {
				d = 600 * time.Millisecond
			}
			ctx, cancel = context.WithTimeout(ctx, d)
		}
		la := udp.UDPAddr{IA: clientIA, Host: &net.UDPAddr{IP: net.IP(w.addrA.AsSlice())}}
		ra := udp.UDPAddr{IA: serverIA, Host: &net.UDPAddr{IP: net.IP(w.addrA.AsSlice()), Port: 10123}}
		ps := []snet.Path{spath.Path{Src: clientIA, Dst: serverIA, DataplanePath: spath.Empty{},
			NextHop: &net.UDPAddr{IP: net.IP(w.addrA.AsSlice()), Port: w.scionPort()}}}
		done := make(chan struct{})
		co := &callObs{spec: op}
		go func() {
			_, co.off, co.err = client.MeasureClockOffsetSCION(ctx, callLog, []*client.SCIONClient{c}, la, ra, ps)
			close(done)
		}()
		tick := time.NewTicker(time.Second)
		waited := 0
	wait:
		for {
			select {
			case <-done:
				break wait
			case <-tick.C:
				waited++
				if waited >= 5 {
					w.mu.Lock()
					if n := len(w.reqs); n > 0 {
						_, _ = w.connS.WriteToUDPAddrPort([]byte{0xee}, w.reqs[n-1].addr)
					}
					w.mu.Unlock()
				}
			}
		}
		tick.Stop()
		cancel()
		w.mu.Lock()
		co.reqs = w.reqs
		w.reqs = nil
		w.mu.Unlock()
		rec.mu.Lock()
		co.events = append([]xevent(nil), rec.events...)
		rec.mu.Unlock()
		calls = append(calls, co)
	}
	w.emit(h, calls, kind)
}

var _ = fmt.Sprint
