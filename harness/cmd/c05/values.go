package main

import (
	"strconv"
	"strings"
)

// val is a parsed case-file value: integer, byte string or list.
type val struct {
	kind byte // 'z', 'b', 'l'
	z    int64
	b    string // hex without the x
	l    []val
}

// parseVals parses the space separated top-level values of an args field.
func parseVals(s string) []val {
	toks := strings.Fields(strings.NewReplacer("[", " [ ", "]", " ] ").Replace(s))
	pos := 0
	var list func(closing bool) []val
	list = func(closing bool) []val {
		var out []val
		for pos < len(toks) {
			t := toks[pos]
			pos++
			switch {
			case t == "[":
				out = append(out, val{kind: 'l', l: list(true)})
			case t == "]":
				if closing {
					return out
				}
			case t[0] == 'x':
				out = append(out, val{kind: 'b', b: t[1:]})
			default:
				z, err := strconv.ParseInt(t, 10, 64)
				if err != nil {
					z = 0 // values that do not fit int64 are never needed for a replay
				}
				out = append(out, val{kind: 'z', z: z})
			}
		}
		return out
	}
	return list(false)
}
