package main

// Kind svc.authmodes: "when NTS is enabled" means enabled by configuration.  The
// real service's loadConfig and createClocks run (harness/svclib, wiring hook of
// /repo) on configuration texts with every list of auth_modes over "nts", "spao"
// and a string the service does not know - every order, repetitions, the empty
// list - with and without a SCION daemon address, for IP and SCION reference
// clocks and SCION peers; observed: the authentication flags and the NTS-KE
// fetcher of every client of every clock.

import (
	"fmt"
	"net"
	"os"
	"path/filepath"
	"strings"

	"verifharness/lib"
	"verifharness/svclib"
)

var modeNames = map[int64]string{1: "nts", 2: "spao", 3: "psk"}

func modeLists(maxLen int) [][]int64 {
	out := [][]int64{{}}
	prev := [][]int64{{}}
	for l := 1; l <= maxLen; l++ {
		var next [][]int64
		for _, p := range prev {
			for m := int64(1); m <= 3; m++ {
				next = append(next, append(append([]int64(nil), p...), m))
			}
		}
		out = append(out, next...)
		prev = next
	}
	return out
}

type svcClock struct {
	peer, scion bool
	addr        string // as in the configuration
}

func authmodesCase(bin string, modes []int64, daemon bool, clocks []svcClock) {
	var b strings.Builder
	scionLocal := false
	for _, c := range clocks {
		scionLocal = scionLocal || c.scion
	}
	if scionLocal {
		b.WriteString("local_address = \"1-ff00:0:111,10.1.1.11\"\n")
	} else {
		b.WriteString("local_address = \"0-0,10.1.1.11\"\n")
	}
	if daemon {
		b.WriteString("scion_daemon_address = \"@DAEMON@\"\n")
	}
	var ms, refs, peers []string
	for _, m := range modes {
		ms = append(ms, fmt.Sprintf("%q", modeNames[m]))
	}
	fmt.Fprintf(&b, "auth_modes = [%s]\n", strings.Join(ms, ", "))
	for _, c := range clocks {
		if c.peer {
			peers = append(peers, fmt.Sprintf("%q", c.addr))
		} else {
			refs = append(refs, fmt.Sprintf("%q", c.addr))
		}
	}
	if len(refs) > 0 {
		fmt.Fprintf(&b, "ntp_reference_clocks = [%s]\n", strings.Join(refs, ", "))
	}
	if len(peers) > 0 {
		fmt.Fprintf(&b, "scion_peer_clocks = [%s]\n", strings.Join(peers, ", "))
	}
	var mv, sv []string
	for _, m := range modes {
		mv = append(mv, lib.I(m))
	}
	// the clocks in the order of the two lists createClocks returns: references, then peers
	var ordered []svcClock
	for _, c := range clocks {
		if !c.peer {
			ordered = append(ordered, c)
		}
	}
	for _, c := range clocks {
		if c.peer {
			ordered = append(ordered, c)
		}
	}
	for _, c := range ordered {
		sv = append(sv, lib.Bool(c.scion))
	}
	args := lib.V(lib.L(mv...), lib.Bool(daemon), lib.L(sv...))
	tags := "nt"
	if len(modes) > 1 {
		tags += ",multi"
	}
	res, err := svclib.Wiring(bin, b.String())
	if err != nil {
		outMu.Lock()
		fmt.Println("NOTE svc.authmodes:", err)
		out.Case("svc.authmodes", tags+",machinery", args, "2")
		outMu.Unlock()
		return
	}
	outs := []string{lib.Bool(res.Fatal)}
	if !res.Fatal {
		for i, c := range res.Clocks {
			want := ""
			if i < len(ordered) {
				want = ordered[i].addr
			}
			// the NTS-KE server of a clock is the host:port part of its configured address
			host, port := "", ""
			if k := strings.Index(want, ","); k >= 0 {
				host, port, _ = net.SplitHostPort(want[k+1:])
			}
			var cl []string
			for _, ci := range c.Clients {
				ke := int64(2)
				switch {
				case ci.NTSKEPort == "" && ci.NTSKEServer == "":
					ke = 0
				case ci.NTSKEPort == port && ci.NTSKEServer == host && (c.ID == want || c.ID == net.JoinHostPort(host, port)) && ci.NTSKELog:
					ke = 1
				}
				cl = append(cl, lib.L(lib.Bool(ci.Auth), lib.Bool(ci.NTS), lib.I(ke), lib.Bool(ci.NTSKEQUIC), lib.Bool(ci.DRKey)))
			}
			outs = append(outs, lib.L(cl...))
		}
	}
	outMu.Lock()
	out.Case("svc.authmodes", tags, args, lib.V(outs...))
	outMu.Unlock()
}

// runAuthModes: all lists of up to three modes, for a SCION host with one IP reference
// clock, one SCION reference clock and one peer (with and without a daemon address),
// and for an IP-only host with two IP reference clocks.
func runAuthModes(maxLen int) {
	repo := svclib.RepoDir()
	if !svclib.HasHook(repo, "timeservice_wiring_verif.go") {
		fmt.Println("NOTE svc.authmodes skipped: the checkout has no timeservice_wiring_verif.go")
		return
	}
	bin, err := svclib.Build(repo)
	if err != nil {
		// the service no longer builds: a failing case, not a crash of the harness
		outMu.Lock()
		fmt.Println("NOTE svc.authmodes:", err)
		out.Case("svc.authmodes", "nt,build", lib.V(lib.L(), "0", lib.L()), "2")
		outMu.Unlock()
		return
	}
	defer os.RemoveAll(filepath.Dir(bin))
	mixed := []svcClock{
		{scion: false, addr: "0-0,192.0.2.1:123"},
		{scion: true, addr: "1-ff00:0:112,10.1.1.12:10123"},
		{peer: true, scion: true, addr: "1-ff00:0:113,10.1.1.13:10124"},
	}
	ipOnly := []svcClock{{addr: "0-0,192.0.2.1:123"}, {addr: "0-0,192.0.2.2:4460"}}
	for _, modes := range modeLists(maxLen) {
		authmodesCase(bin, modes, false, mixed)
		authmodesCase(bin, modes, true, mixed)
		authmodesCase(bin, modes, false, ipOnly)
	}
}

// replayAuthModes: args = [mode ...] daemon [scion ...]
func replayAuthModes(args string) {
	vs := parseVals(args)
	if len(vs) != 3 {
		return
	}
	repo := svclib.RepoDir()
	if !svclib.HasHook(repo, "timeservice_wiring_verif.go") {
		return
	}
	bin, err := svclib.Build(repo)
	if err != nil {
		return
	}
	defer os.RemoveAll(filepath.Dir(bin))
	var modes []int64
	for _, m := range vs[0].l {
		modes = append(modes, m.z)
	}
	// the two shapes runAuthModes uses are told apart by the number of clocks
	clocks := []svcClock{{addr: "0-0,192.0.2.1:123"}, {addr: "0-0,192.0.2.2:4460"}}
	if len(vs[2].l) == 3 {
		clocks = []svcClock{
			{scion: false, addr: "0-0,192.0.2.1:123"},
			{scion: true, addr: "1-ff00:0:112,10.1.1.12:10123"},
			{peer: true, scion: true, addr: "1-ff00:0:113,10.1.1.13:10124"},
		}
	}
	authmodesCase(bin, modes, vs[1].z != 0, clocks)
}
