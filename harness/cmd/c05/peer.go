package main

// The scripted peer: a UDP socket on the server address (and a second one on
// another address), an NTS-KE responder over TLS with a run-time certificate,
// and the recipes that turn the outstanding request into the datagrams that
// are delivered before / instead of the genuine response.

import (
	"bytes"
	"crypto/ecdsa"
	"crypto/elliptic"
	crand "crypto/rand"
	"crypto/tls"
	"crypto/x509"
	"crypto/x509/pkix"
	"encoding/binary"
	"io"
	"math/big"
	"net"
	"net/netip"
	"sync"
	"time"

	"github.com/miscreant/miscreant.go"

	"example.com/scion-time/net/ntp"
	"example.com/scion-time/net/ntske"

	"verifharness/lib"
)

type recipe struct {
	kind   int
	p1, p2 int64
}

// Every exchange opens a client socket on an ephemeral port of the one client address
// all workers share.  A peer that is still sending the rest of a script to a port whose
// socket is already closed reaches whatever socket is bound to that port next - possibly
// the socket of a later exchange (of any worker), which then sees a datagram that is not
// in its script.  The registry records, per exchange, the client port and the interval in
// which the peer may have been sending to it; a history with an exchange whose port was
// in such use by another exchange since its socket can have been bound is not reported.
type portRec struct {
	port     uint16
	from, to time.Time // to.IsZero(): still sending
	rq       *reqRec
}

var portReg struct {
	mu   sync.Mutex
	recs []*portRec
}

func portBegin(rq *reqRec) *portRec {
	r := &portRec{port: rq.addr.Port(), from: rq.arrival, rq: rq}
	portReg.mu.Lock()
	// forget what ended more than a minute ago
	k := 0
	for _, x := range portReg.recs {
		if x.to.IsZero() || time.Since(x.to) < time.Minute {
			portReg.recs[k] = x
			k++
		}
	}
	portReg.recs = append(portReg.recs[:k], r)
	portReg.mu.Unlock()
	return r
}

func (r *portRec) end() {
	portReg.mu.Lock()
	r.to = time.Now()
	portReg.mu.Unlock()
}

// portShared: another exchange's peer may have sent to the client port of rq while the
// client socket of rq existed
func portShared(rq *reqRec) bool {
	portReg.mu.Lock()
	defer portReg.mu.Unlock()
	for _, x := range portReg.recs {
		if x.rq != rq && x.port == rq.addr.Port() && x.from.Before(rq.arrival) && (x.to.IsZero() || x.to.After(rq.bindLower)) {
			return true
		}
	}
	return false
}

type aeadEntry struct {
	key, nonce, ad, ct []byte
	ok                 bool
	pt                 []byte
}

type dgramRec struct {
	otherPort     bool // sent from the server's address but another port
	fromServer    bool
	payload       []byte // UDP payload (for SCION: what the parser shows as the SCION/UDP payload)
	uidOK, authOK bool
	entry         *aeadEntry
	cookies       [][]byte // the cookies the datagram carries in authenticated fields (only if uidOK and authOK)
	raw           []byte   // SCION: the datagram on the underlay
	front         string   // SCION: the parser's view, as a case-file value
	vi            viewInfo // SCION: end-to-end extension, authenticator verdict, timestamp option
	delayMs       int64    // the peer waits this long before it sends the datagram (recipe 27)
}

type reqRec struct {
	raw         []byte
	org, rx, tx ntp.Time64
	uid         []byte
	arrival     time.Time
	s2c         []byte
	recipes     []recipe
	sent        []dgramRec
	ke          [][]byte // the cookies of the key exchange the client made for this exchange, if any
	timeout     bool     // the script ends without a decisive datagram: the client runs into its deadline
	addr        netip.AddrPort
	reqAuth     bool       // SCION: the request carries the packet authenticator of the client direction
	server      netip.Addr // the address the request was sent to (SCION: its destination host)
	other       netip.Addr // the scripted peer's other address
	port        int        // the port the request was sent to (SCION: its UDP destination port)
	late        bool       // the clock of the client jumped past the deadline when the request arrived
	bindLower   time.Time  // the client socket of this exchange was bound after this instant (arrival of the worker's previous request)
}

type worker struct {
	id           int
	rng          *lib.Rng
	addrA, addrB netip.Addr
	connA, connB *net.UDPConn
	connC        *net.UDPConn // server address, other port
	connS        *net.UDPConn // SCION underlay socket of the scripted peer
	keLn         net.Listener
	kePort       int
	keAnnounce   int       // != 0: the port the key exchange names (SCION histories: the underlay socket of the peer)
	keTarget     int       // 0: the key exchange names the peer's first address, 1: its second address
	keCookies    int       // number of cookies a key exchange delivers (0: eight)
	lateMode     bool      // requests make the client's clock jump past the deadline
	prevArrival  time.Time // arrival of the previous request at any socket of this peer

	mu       sync.Mutex
	s2c, c2s []byte
	nts      bool
	scripts  [][]recipe // for the exchanges of the current call
	timeouts []bool
	reqs     []*reqRec
	prevPkt  []byte // genuine response of the previous exchange
	prevUID  []byte
	keSeq    int
	keSeen   int
	lastKE   [][]byte
}

var (
	certOnce sync.Once
	theCert  tls.Certificate
)

func selfSigned() tls.Certificate {
	certOnce.Do(func() {
		key, err := ecdsa.GenerateKey(elliptic.P256(), crand.Reader)
		if err != nil {
			panic(err)
		}
		tmpl := x509.Certificate{
			SerialNumber: big.NewInt(5),
			Subject:      pkix.Name{CommonName: "c05.test"},
			NotBefore:    time.Now().Add(-time.Hour),
			NotAfter:     time.Now().Add(48 * time.Hour),
			KeyUsage:     x509.KeyUsageDigitalSignature,
			ExtKeyUsage:  []x509.ExtKeyUsage{x509.ExtKeyUsageServerAuth},
			DNSNames:     []string{"c05.test"},
		}
		der, err := x509.CreateCertificate(crand.Reader, &tmpl, &tmpl, &key.PublicKey, key)
		if err != nil {
			panic(err)
		}
		theCert = tls.Certificate{Certificate: [][]byte{der}, PrivateKey: key}
	})
	return theCert
}

func newWorker(id int, seed uint64, a, b netip.Addr) *worker {
	w := &worker{id: id, rng: lib.NewRng(seed), addrA: a, addrB: b}
	var err error
	udpNet, tcpNet := "udp4", "tcp4"
	if !a.Is4() {
		udpNet, tcpNet = "udp6", "tcp6"
	}
	// the second source has another address but the same port number as the server
	for try := 0; ; try++ {
		w.connA, err = net.ListenUDP(udpNet, net.UDPAddrFromAddrPort(netip.AddrPortFrom(a, 0)))
		if err != nil {
			panic(err)
		}
		if !b.IsValid() {
			break // one address only (IPv6 loopback)
		}
		port := uint16(w.connA.LocalAddr().(*net.UDPAddr).Port)
		w.connB, err = net.ListenUDP(udpNet, net.UDPAddrFromAddrPort(netip.AddrPortFrom(b, port)))
		if err == nil {
			break
		}
		w.connA.Close()
		if try > 50 {
			panic(err)
		}
	}
	// a third socket on the server's address with another port
	w.connC, err = net.ListenUDP(udpNet, net.UDPAddrFromAddrPort(netip.AddrPortFrom(a, 0)))
	if err != nil {
		panic(err)
	}
	ln, err := tls.Listen(tcpNet, netip.AddrPortFrom(a, 0).String(), &tls.Config{
		Certificates: []tls.Certificate{selfSigned()}, MinVersion: tls.VersionTLS13, NextProtos: []string{"ntske/1"}})
	if err != nil {
		panic(err)
	}
	w.keLn = ln
	w.kePort = ln.Addr().(*net.TCPAddr).Port
	go w.keLoop()
	go w.udpLoop(w.connA, w.connB, a, b)
	if w.connB != nil {
		// the second address is a server of its own: same script, roles exchanged
		go w.udpLoop(w.connB, w.connA, b, a)
	}
	return w
}

func (w *worker) udpPort() int { return w.connA.LocalAddr().(*net.UDPAddr).Port }

// keLoop answers every key exchange with eight cookies, the address and port
// of the scripted UDP peer, and remembers the exported keys.
func (w *worker) keLoop() {
	for {
		c, err := w.keLn.Accept()
		if err != nil {
			return
		}
		go func(c net.Conn) {
			defer c.Close()
			tc := c.(*tls.Conn)
			_ = tc.SetDeadline(time.Now().Add(20 * time.Second))
			if err := tc.Handshake(); err != nil {
				return
			}
			req := make([]byte, 16)
			if _, err := io.ReadFull(tc, req); err != nil {
				return
			}
			var d ntske.Data
			if err := ntske.ExportKeys(tc.ConnectionState(), &d); err != nil {
				return
			}
			w.mu.Lock()
			w.s2c, w.c2s = d.S2cKey, d.C2sKey
			var msg ntske.ExchangeMsg
			msg.AddRecord(ntske.NextProto{NextProto: ntske.NTPv4})
			msg.AddRecord(ntske.Algorithm{Algo: []uint16{ntske.AES_SIV_CMAC_256}})
			var issued [][]byte
			ncookies := 8
			if w.keCookies > 0 {
				ncookies = w.keCookies
			}
			for i := 0; i < ncookies; i++ {
				ck := w.rng.Bytes(100)
				issued = append(issued, ck)
				msg.AddRecord(ntske.Cookie{Cookie: ck})
			}
			w.keSeq++
			w.lastKE = issued
			port := w.udpPort()
			if w.keAnnounce != 0 {
				port = w.keAnnounce
			}
			target := w.addrA
			if w.keTarget == 1 {
				target = w.addrB
			}
			w.mu.Unlock()
			msg.AddRecord(ntske.Server{Addr: []byte(target.String())})
			msg.AddRecord(ntske.Port{Port: uint16(port)})
			msg.AddRecord(ntske.End{})
			buf, err := msg.Pack()
			if err != nil {
				return
			}
			_, _ = tc.Write(buf.Bytes())
			// wait for the client to close
			_, _ = tc.Read(req)
		}(c)
	}
}

func be16(b []byte, pos int) int {
	if pos+1 >= len(b) {
		if pos < len(b) {
			return int(b[pos]) << 8
		}
		return 0
	}
	return int(binary.BigEndian.Uint16(b[pos:]))
}

func takePad(n int, src []byte) []byte {
	out := make([]byte, n)
	copy(out, src)
	return out
}

func from(b []byte, pos int) []byte {
	if pos >= len(b) {
		return nil
	}
	return b[pos:]
}

// walk finds the unique identifier and the authenticator of an NTS packet
// (RFC 8915: extension fields behind the 48-byte header, the first
// authenticator field ends the search).
func walk(b []byte) (uid []byte, uidFound bool, nonce, ct []byte, authPos int, authFound bool) {
	if len(b) > 1024 {
		return
	}
	pos := 48
	for len(b)-pos >= 28 && !authFound {
		t, l := be16(b, pos), be16(b, pos+2)
		if l < 4 {
			return uid, uidFound, nil, nil, 0, false
		}
		switch t {
		case 0x104:
			if l-4 < 32 {
				return uid, uidFound, nil, nil, 0, false
			}
			uid, uidFound = takePad(l-4, from(b, pos+4)), true
		case 0x404:
			nl, cl := be16(b, pos+4), be16(b, pos+6)
			p := pos + 8
			nonce = takePad(nl, from(b, p))
			n := nl
			if len(b)-p < n {
				n = len(b) - p
			}
			if n < 0 {
				n = 0
			}
			ct = takePad(cl, from(b, p+n))
			authPos, authFound = pos, true
		}
		pos += l
	}
	return
}

// cookieFields lists the bodies of the cookie fields (0x0204) of a sequence of
// extension fields, as far as a receiver that needs 28 remaining bytes reads them
func cookieFields(b []byte, pos, end int) [][]byte {
	var out [][]byte
	for end-pos >= 28 {
		t, l := be16(b, pos), be16(b, pos+2)
		if l < 4 {
			return out
		}
		if t == 0x204 {
			out = append(out, takePad(l-4, from(b[:end], pos+4)))
		}
		pos += l
	}
	return out
}

func aeadOpen(key, nonce, ct, ad []byte) ([]byte, bool) {
	if len(nonce) != 16 {
		return nil, false
	}
	a, err := miscreant.NewAEAD("AES-CMAC-SIV", key, 16)
	if err != nil {
		return nil, false
	}
	pt, err := a.Open(nil, nonce, ct, ad)
	return pt, err == nil
}

func aeadSeal(key, nonce, pt, ad []byte) []byte {
	a, err := miscreant.NewAEAD("AES-CMAC-SIV", key, 16)
	if err != nil {
		panic(err)
	}
	return a.Seal(nil, nonce, pt, ad)
}

func add64(t ntp.Time64, d int64) ntp.Time64 {
	v := uint64(t.Seconds)<<32 | uint64(t.Fraction)
	v += uint64(d)
	return ntp.Time64{Seconds: uint32(v >> 32), Fraction: uint32(v)}
}

type hdr struct {
	lvm, stratum byte
	org, rx, tx  ntp.Time64
}

func (h hdr) bytes(r *lib.Rng) []byte {
	p := ntp.Packet{LVM: h.lvm, Stratum: h.stratum, Poll: 4, Precision: -20,
		RootDelay: ntp.Time32{Seconds: 0, Fraction: uint16(r.Intn(4000))}, RootDispersion: ntp.Time32{Seconds: 0, Fraction: uint16(r.Intn(4000))},
		ReferenceID: 0x54455354, ReferenceTime: add64(h.rx, -(1 << 32)), OriginTime: h.org, ReceiveTime: h.rx, TransmitTime: h.tx}
	var b []byte
	ntp.EncodePacket(&b, &p)
	return b
}

func ext(t int, body []byte) []byte {
	for len(body)%4 != 0 {
		body = append(body, 0)
	}
	out := make([]byte, 4, 4+len(body))
	binary.BigEndian.PutUint16(out, uint16(t))
	binary.BigEndian.PutUint16(out[2:], uint16(4+len(body)))
	return append(out, body...)
}

func authExt(key, nonce, pt, ad []byte) []byte {
	ct := aeadSeal(key, nonce, pt, ad)
	body := make([]byte, 4)
	binary.BigEndian.PutUint16(body, uint16(len(nonce)))
	binary.BigEndian.PutUint16(body[2:], uint16(len(ct)))
	body = append(body, nonce...)
	body = append(body, ct...)
	return ext(0x404, body)
}

// forgedAuth: an authenticator field (and what follows it) that needs no key.
//
//	0 nonce 16, ciphertext length 0, field padded to 28 bytes
//	1 nonce 16, ciphertext length 0, field of 24 bytes followed by another field
//	2 nonce 16, ciphertext of 1..15 bytes (shorter than a tag)
//	3 nonce length 0, ciphertext 16 bytes
//	4 a field that is only its 4-byte header, followed by 24 bytes
//	5 nonce 16, ciphertext length field 0 although 16 bytes follow
//	6 nonce 16, ciphertext 16 random bytes (a made-up tag)
//	7 nonce 16, ciphertext length 0, field of 24 bytes at the very end (too short to be looked at)
func forgedAuth(v int, p2 int64, r *lib.Rng) []byte {
	field := func(nl, cl int, nonce, ct []byte, total int) []byte {
		body := make([]byte, 4)
		binary.BigEndian.PutUint16(body, uint16(nl))
		binary.BigEndian.PutUint16(body[2:], uint16(cl))
		body = append(append(body, nonce...), ct...)
		for len(body)+4 < total {
			body = append(body, 0)
		}
		return ext(0x404, body)
	}
	nonce := r.Bytes(16)
	switch v {
	case 0:
		return field(16, 0, nonce, nil, 28+4*int(p2%3))
	case 1:
		return append(field(16, 0, nonce, nil, 24), ext(0x9999, r.Bytes(8))...)
	case 2:
		n := 1 + int(p2%15)
		return field(16, n, nonce, r.Bytes(n), 28)
	case 3:
		return field(0, 16, nil, r.Bytes(16), 28)
	case 4:
		return append([]byte{4, 4, 0, 4}, r.Bytes(24)...)
	case 5:
		return field(16, 0, nonce, r.Bytes(16), 40)
	case 6:
		return field(16, 16, nonce, r.Bytes(16), 40)
	default:
		return field(16, 0, nonce, nil, 24)
	}
}

const usFrac = 4295 // about one microsecond in units of 2^-32 s

// build turns one recipe into a datagram for request rq; idx is its position in the script.
func (w *worker) build(rc recipe, rq *reqRec, idx int) (payload []byte, fromServer bool) {
	r := lib.NewRng(uint64(rc.kind)*1000003 + uint64(rc.p1)*7919 + uint64(rc.p2)*104729 + uint64(idx) + w.rng.U64())
	fromServer = true
	ireq := rq.org != (ntp.Time64{}) || rq.rx != (ntp.Time64{})
	delta := int64(usFrac) * int64(10+37*idx+r.Intn(30))
	arr := add64(ntp.Time64FromTime(rq.arrival), int64(idx)*usFrac*1000)
	h := hdr{lvm: 0x24, stratum: byte(1 + r.Intn(15)), org: rq.tx, rx: arr, tx: add64(arr, delta)}
	if r.Intn(4) == 0 {
		h.lvm = 0x1c // version 3
	}
	if r.Intn(6) == 0 {
		h.lvm |= byte(1+r.Intn(2)) << 6 // leap warning
	}
	interleavedBase := func() {
		h.org = rq.rx
		h.tx = add64(rq.org, delta)
	}
	// which answer a conformant server would give
	wantInter := ireq && rc.p2&1 == 1
	nts := w.nts
	key := rq.s2c
	uid := rq.uid
	nonce := r.Bytes(16)
	pt := ext(0x204, r.Bytes(100))
	strip := 0 // 1: no authenticator, 2: no uid, 3: bare header
	post := func(b []byte) []byte { return b }
	forged := false
	var clear [][]byte // cleartext cookie fields in front of the authenticator
	var trailer []byte // bytes behind the authenticator

	switch rc.kind {
	case 0:
	case 1:
		interleavedBase()
	case 2:
		if rc.p1 == 1 {
			interleavedBase()
		}
		fromServer = false
	case 3:
		if wantInter {
			interleavedBase()
		}
		h.lvm = byte(rc.p1)
	case 4:
		if wantInter {
			interleavedBase()
		}
		h.stratum = byte(rc.p1)
	case 5:
		switch rc.p1 {
		case 0:
			h.org = add64(rq.tx, 1)
		case 1:
			h.org = add64(rq.tx, -1)
		case 2:
			h.org = add64(rq.tx, 1<<32)
		case 3:
			h.org = add64(rq.tx, -(1 << 32))
		case 4:
			h.org = ntp.Time64{}
		case 5:
			h.org = ntp.Time64{Seconds: uint32(r.U64()), Fraction: uint32(r.U64())}
		case 6:
			h.org = rq.org
		case 7:
			h.org = rq.rx
		case 8:
			h.org = ntp.Time64{Seconds: rq.tx.Fraction, Fraction: rq.tx.Seconds}
		default:
			h.org = add64(rq.tx, 0)
			v := uint64(h.org.Seconds)<<32 | uint64(h.org.Fraction)
			v ^= 1 << uint(rc.p2%64)
			h.org = ntp.Time64{Seconds: uint32(v >> 32), Fraction: uint32(v)}
		}
	case 6:
		base := h.rx
		if wantInter {
			interleavedBase()
			base = rq.org
		}
		switch rc.p1 {
		case 0:
			h.tx = base
		case 1:
			h.tx = add64(base, -5)
		case 2:
			h.tx = add64(base, -(1 << 32))
		case 3:
			h.tx = add64(base, -3*usFrac-int64(idx))
		case 4:
			h.tx = add64(add64(base, (1<<30)<<32), (1<<30+10)<<32+int64(idx))
		case 5:
			h.tx = add64(add64(base, (1<<30)<<32), (1<<30-10)<<32+int64(idx))
		case 7, 8, 9, 10:
			// receive and transmit time each within 2^31 s of the request, but more than 2^31 s apart from
			// each other: 7, 9 transmit long before receive (not acceptable), 8, 10 long after it
			const year = 365 * 86400
			far := int64(30*year) << 32
			back := -(int64(40*year) << 32)
			if rc.p1 >= 9 { // next to the edges of the window
				far, back = (int64(1)<<31-100-int64(idx))<<32, -((int64(1)<<31 - 100 - int64(idx)) << 32)
			}
			if rc.p1 == 7 || rc.p1 == 9 {
				h.rx, h.tx = add64(h.rx, far), add64(base, back)
			} else {
				h.rx, h.tx = add64(h.rx, back), add64(base, far)
			}
		default:
			h.tx = add64(base, -1-int64(idx))
		}
	case 7, 9, 10:
		if wantInter {
			interleavedBase()
		}
	case 8:
		return lib.NewRng(uint64(rc.p2) + 77).Bytes(int(rc.p1)), true
	case 11:
		post = func(b []byte) []byte {
			_, _, _, _, ap, af := walk(b)
			lo, hi := 0, len(b)
			switch rc.p1 {
			case 0:
				lo, hi = 0, 48
			case 1:
				lo, hi = 52, 84
			case 2:
				if af {
					lo, hi = ap, ap+4
				}
			case 3:
				if af {
					lo, hi = ap+4, ap+8
				}
			case 4:
				if af {
					lo, hi = ap+8, ap+24
				}
			default:
				if af {
					lo, hi = ap+24, len(b)
				}
			}
			if hi > len(b) {
				hi = len(b)
			}
			if lo >= hi {
				lo, hi = 0, len(b)
			}
			c := append([]byte(nil), b...)
			c[lo+int(uint64(rc.p2/8)%uint64(hi-lo))] ^= 1 << uint(rc.p2%8)
			return c
		}
	case 12:
		if rc.p1 == 0 {
			key = w.c2s
		} else {
			key = r.Bytes(32)
		}
	case 13:
		switch rc.p1 {
		case 1:
			if w.prevUID != nil && !bytes.Equal(w.prevUID, rq.uid) {
				uid = w.prevUID
			} else {
				uid = r.Bytes(32)
			}
		case 2:
			uid = append([]byte(nil), rq.uid...)
			if len(uid) > 0 {
				uid[int(rc.p2/8)%len(uid)] ^= 1 << uint(rc.p2%8)
			}
		default:
			uid = r.Bytes(32)
		}
	case 14:
		strip = 1
	case 15:
		strip = 2
	case 16:
		strip = 3
	case 17:
		post = func(b []byte) []byte {
			c := append([]byte(nil), b...)
			if len(c) >= 52 {
				switch rc.p1 {
				case 0:
					binary.BigEndian.PutUint16(c[50:], 3)
				case 2:
					binary.BigEndian.PutUint16(c[50:], 0)
				}
			}
			return c
		}
		if rc.p1 == 1 {
			if len(uid) >= 16 {
				uid = uid[:16]
			}
		}
	case 18:
		nl := int(rc.p1)
		post = func(b []byte) []byte {
			c := append([]byte(nil), b...)
			_, _, _, _, ap, af := walk(c)
			if af {
				binary.BigEndian.PutUint16(c[ap+4:], uint16(nl))
			}
			return c
		}
	case 19:
		if w.prevPkt != nil {
			return append([]byte(nil), w.prevPkt...), true
		}
		uid = r.Bytes(32)
	case 20:
		pt = make([]byte, 28+4*int(rc.p1%3))
	case 21:
		if wantInter {
			interleavedBase()
		}
	case 22:
		// correctly sealed for ANOTHER request's identifier; the outstanding request's
		// identifier follows, unauthenticated, behind the authenticator
		if rc.p1 == 1 && w.prevUID != nil && !bytes.Equal(w.prevUID, rq.uid) {
			uid = w.prevUID
		} else {
			uid = r.Bytes(32)
		}
		trailer = ext(0x104, append([]byte(nil), rq.uid...))
		if rc.p1 == 2 {
			trailer = append(trailer, ext(0x204, r.Bytes(100))...)
		}
	case 23:
		// forged (not sealed under S2C) with cleartext cookie fields
		if rc.p1%2 == 0 {
			key = r.Bytes(32)
		} else {
			key = w.c2s
		}
		for i := int64(0); i <= rc.p1/2%2; i++ {
			clear = append(clear, r.Bytes(100))
		}
	case 26:
		// keyless forgeries: the unique identifier is copied from the request on the wire, the
		// authenticator field is made up without any key (forgedAuth below)
		if wantInter {
			interleavedBase()
		}
		strip = 1
		forged = true
	case 25:
		// genuine, without a new cookie (empty plaintext): the pool is not replenished
		if wantInter {
			interleavedBase()
		}
		pt = nil
	case 24:
		// genuine, with a cleartext cookie field in front of the authenticator (authenticated as associated data)
		if wantInter {
			interleavedBase()
		}
		clear = append(clear, r.Bytes(100))
	}

	b := h.bytes(r)
	if nts && strip != 3 {
		if strip != 2 {
			if rc.kind == 17 && rc.p1 == 1 {
				// a 16-byte identifier in a field of its own size
				b = append(b, ext(0x104, uid)...)
			} else {
				b = append(b, ext(0x104, uid)...)
			}
		}
		for _, ck := range clear {
			b = append(b, ext(0x204, ck)...)
		}
		if strip != 1 && len(key) == 32 {
			b = append(b, authExt(key, nonce, pt, append([]byte(nil), b...))...)
		}
		if forged {
			b = append(b, forgedAuth(int(rc.p1), rc.p2, r)...)
		}
		b = append(b, trailer...)
	}
	b = post(b)
	switch rc.kind {
	case 7:
		n := int(rc.p1)
		if n < len(b) {
			b = b[:n]
		}
	case 9:
		capn := 48
		if nts {
			capn = 1024
		}
		for len(b) <= capn+int(rc.p1) {
			b = append(b, byte(r.U64()))
		}
	case 10:
		b = append(b, r.Bytes(int(rc.p1))...)
	}
	return b, fromServer
}

// ntsFacts: what the holder of the keys knows about a delivered payload: does it
// carry the request's unique identifier, does it verify under the S2C key, which
// cookies does it carry in authenticated fields.
func (w *worker) ntsFacts(d *dgramRec, rq *reqRec) {
	pl := d.payload
	uid, uf, nonce, ct, ap, af := walk(pl)
	d.uidOK = uf && bytes.Equal(uid, rq.uid)
	if af {
		pt, ok := aeadOpen(rq.s2c, nonce, ct, pl[:ap])
		d.authOK = ok
		if ok && d.uidOK {
			d.cookies = append(cookieFields(pl, 48, ap), cookieFields(pt, 0, len(pt))...)
		}
		d.entry = &aeadEntry{key: rq.s2c, nonce: nonce, ad: append([]byte(nil), pl[:ap]...), ct: ct, ok: ok, pt: pt}
	}
}

// udpLoop answers every request with the datagrams of its script, in order,
// followed by two one-byte datagrams that end the call whatever happened
// before (unless the script is meant to run the client into its deadline).
func (w *worker) udpLoop(me, otherConn *net.UDPConn, server, other netip.Addr) {
	buf := make([]byte, 2048)
	for {
		n, addr, err := me.ReadFromUDPAddrPort(buf)
		if err != nil {
			return
		}
		arrival := time.Now()
		raw := append([]byte(nil), buf[:n]...)
		rq := &reqRec{raw: raw, arrival: arrival, addr: addr, server: server, other: other, port: me.LocalAddr().(*net.UDPAddr).Port}
		if n >= 48 {
			var p ntp.Packet
			_ = ntp.DecodePacket(&p, raw)
			rq.org, rq.rx, rq.tx = p.OriginTime, p.ReceiveTime, p.TransmitTime
		}
		rq.uid, _, _, _, _, _ = walk(raw)
		pr := portBegin(rq)
		w.mu.Lock()
		rq.bindLower, w.prevArrival = w.prevArrival, arrival
		if w.lateMode {
			// from now on the client's clock reads an hour later: every retry decision of this exchange finds the deadline passed
			theClock.jump.Store(int64(time.Hour))
			rq.late = true
		}
		rq.s2c = w.s2c
		if w.keSeq != w.keSeen {
			rq.ke, w.keSeen = w.lastKE, w.keSeq
		}
		k := len(w.reqs)
		if k < len(w.scripts) {
			rq.recipes = w.scripts[k]
			rq.timeout = w.timeouts[k]
		}
		var genuine []byte
		for i, rc := range rq.recipes {
			if otherConn == nil && rc.kind == 2 {
				rc.kind = 21 // one address only: another port instead of another address
			}
			if me != w.connA && rc.kind == 21 {
				rc.kind = 2 // the third socket is on the first address
			}
			pl, fs := w.build(rc, rq, i)
			d := dgramRec{fromServer: fs, payload: pl, otherPort: rc.kind == 21}
			if rc.kind == 27 {
				d.delayMs = rc.p1
			}
			if w.nts {
				w.ntsFacts(&d, rq)
			}
			if (rc.kind == 0 || rc.kind == 1) && genuine == nil {
				genuine = pl
			}
			rq.sent = append(rq.sent, d)
		}
		if !rq.timeout {
			for i := 0; i < 2; i++ {
				rq.sent = append(rq.sent, dgramRec{fromServer: true, payload: []byte{byte(0xe0 + i)}})
			}
		}
		w.reqs = append(w.reqs, rq)
		prevUID := rq.uid
		w.mu.Unlock()
		for _, d := range rq.sent {
			c := me
			if !d.fromServer {
				c = otherConn
			} else if d.otherPort {
				c = w.connC
			}
			if d.delayMs > 0 {
				time.Sleep(time.Duration(d.delayMs) * time.Millisecond)
			}
			_, _ = c.WriteToUDPAddrPort(d.payload, addr)
		}
		pr.end()
		w.mu.Lock()
		if genuine != nil {
			w.prevPkt = genuine
		}
		w.prevUID = prevUID
		w.mu.Unlock()
	}
}
