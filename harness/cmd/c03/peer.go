package main

// The scripted peer: two protocol-conformant NTP servers ("references") on
// loopback, each with its own record of (receive, transmit) stamps as the real
// server keeps it, whose clock is the real time plus an offset theta that the
// script changes from exchange to exchange, behind a network that follows the
// script: delay in either direction, loss of the request or of the reply,
// duplication of either, reordering of the duplicates, junk and stale
// datagrams ahead of the reply.  The peer also plays a few non-conformant
// servers (bad metadata, transmit before receive) that the client must refuse.

import (
	"net"
	"net/netip"
	"sync"
	"time"

	"example.com/scion-time/net/ntp"
)

type actKind int

const (
	aNormal actKind = iota
	aDropReq
	aDropReply
	aDupReply
	aDupReq
	aDupReqRev
	aForceBasic
	aJunkFirst
	aForeignFirst
	aStaleFirst
	aTwoStale
	aTwoJunk
	aStaleOnly
	aBadMeta
	aTxBeforeRx
	numActKinds
)

var actNames = [...]string{"normal", "dropreq", "dropreply", "dupreply", "dupreq", "dupreqrev", "forcebasic",
	"junkfirst", "foreignfirst", "stalefirst", "twostale", "twojunk", "staleonly", "badmeta", "txbeforerx"}

func (k actKind) waits() bool { return k == aDropReq || k == aDropReply || k == aStaleOnly }

type action struct {
	kind  actKind
	theta [2]time.Duration // clock offset of the peer during the (up to two) handlings
	fwd   [2]time.Duration // extra delay before the peer stamps the receipt
	back  [2]time.Duration // extra delay between the transmit stamp and the send
	meta  int              // variant for aBadMeta / aStaleFirst
}

type handling struct {
	srx, stx time.Time // stamps on the peer's clock
	theta    time.Duration
	attempt  int
}

type sentDgram struct {
	junk     bool
	pkt      ntp.Packet
	sendReal time.Time
}

type attemptLog struct {
	srv    int
	reqRaw []byte // SCION: the request packet as received
	req    ntp.Packet
	act    actKind
	dgrams []sentDgram
	done   bool
}

type sentReply struct {
	pkt ntp.Packet
	req ntp.Packet
}

type pending struct {
	srv   int
	req   ntp.Packet
	srx   time.Time
	theta time.Duration
	inter bool
	old   ntp.Time64
	from  netip.AddrPort
}

type histState struct {
	script    *histScript
	callIdx   int
	kInCall   int
	attempts  []*attemptLog
	handlings []handling
	store     [2]map[ntp.Time64]ntp.Time64
	used      map[ntp.Time64]bool
	replies   []sentReply // every reply sent so far (for stale replays)
	deadlineOf map[int]time.Time
}

type peer struct {
	mu      sync.Mutex
	cond    *sync.Cond
	conns   [2]*net.UDPConn
	foreign *net.UDPConn
	h       *histState
}

func newPeer(addr, foreignAddr netip.Addr) *peer {
	p := &peer{}
	p.cond = sync.NewCond(&p.mu)
	for i := range p.conns {
		c, err := net.ListenUDP("udp", net.UDPAddrFromAddrPort(netip.AddrPortFrom(addr, 0)))
		if err != nil {
			panic(err)
		}
		p.conns[i] = c
	}
	c, err := net.ListenUDP("udp", net.UDPAddrFromAddrPort(netip.AddrPortFrom(foreignAddr, 0)))
	if err != nil {
		panic(err)
	}
	p.foreign = c
	for i := range p.conns {
		go p.serve(i)
	}
	return p
}

func (p *peer) addr(i int) *net.UDPAddr {
	a := p.conns[i].LocalAddr().(*net.UDPAddr)
	return &net.UDPAddr{IP: append(net.IP(nil), a.IP...), Port: a.Port}
}

func (p *peer) begin(s *histScript) {
	p.mu.Lock()
	p.h = &histState{script: s, used: map[ntp.Time64]bool{}, deadlineOf: map[int]time.Time{}}
	p.h.store[0] = map[ntp.Time64]ntp.Time64{}
	p.h.store[1] = map[ntp.Time64]ntp.Time64{}
	p.mu.Unlock()
}

func (p *peer) setCall(i int) {
	p.mu.Lock()
	p.h.callIdx, p.h.kInCall = i, 0
	p.mu.Unlock()
}

// the deadline class of the attempt about to start
func (p *peer) nextWaits() bool {
	p.mu.Lock()
	defer p.mu.Unlock()
	return p.h.currentAction().kind.waits()
}

func (h *histState) currentAction() action {
	cs := h.script.calls[h.callIdx]
	if h.kInCall < len(cs.acts) {
		return cs.acts[h.kInCall]
	}
	return action{kind: aNormal, theta: cs.acts[0].theta}
}

// waits until n requests have been fully processed
func (p *peer) waitDone(n int, limit time.Duration) bool {
	deadline := time.Now().Add(limit)
	p.mu.Lock()
	defer p.mu.Unlock()
	for {
		cnt := 0
		for _, a := range p.h.attempts {
			if a.done {
				cnt++
			}
		}
		if cnt >= n && len(p.h.attempts) == cnt {
			return cnt == n
		}
		if time.Now().After(deadline) {
			return false
		}
		p.mu.Unlock()
		time.Sleep(200 * time.Microsecond)
		p.mu.Lock()
	}
}

func (p *peer) serve(srv int) {
	buf := make([]byte, 2048)
	for {
		n, from, err := p.conns[srv].ReadFromUDPAddrPort(buf)
		if err != nil {
			return
		}
		rxReal := realNow()
		p.onRequest(srv, append([]byte(nil), buf[:n]...), from, rxReal)
	}
}

func (p *peer) onRequest(srv int, b []byte, from netip.AddrPort, rxReal time.Time) {
	p.mu.Lock()
	defer p.mu.Unlock()
	h := p.h
	if h == nil {
		return
	}
	var req ntp.Packet
	payload := b
	if h.script.scion {
		_, ul, ok := parseSCIONReq(b)
		if !ok {
			return
		}
		payload = ul.Payload
	}
	if ntp.DecodePacket(&req, payload) != nil {
		return
	}
	act := h.currentAction()
	h.kInCall++
	al := &attemptLog{srv: srv, req: req, act: act.kind, reqRaw: b}
	idx := len(h.attempts)
	h.attempts = append(h.attempts, al)
	defer func() { al.done = true }()

	switch act.kind {
	case aDropReq:
		return
	case aDropReply:
		pd := p.handle(h, srv, req, from, rxReal, act.theta[0], act.fwd[0], false)
		p.finish(h, idx, al, pd, act.back[0], false, nil)
	case aDupReply:
		pd := p.handle(h, srv, req, from, rxReal, act.theta[0], act.fwd[0], false)
		pkt := p.finish(h, idx, al, pd, act.back[0], true, nil)
		p.send(al, srv, from, pkt)
	case aDupReq, aDupReqRev:
		pa := p.handle(h, srv, req, from, rxReal, act.theta[0], act.fwd[0], false)
		pb := p.handle(h, srv, req, from, realNow(), act.theta[1], act.fwd[1], false)
		if act.kind == aDupReq {
			p.finish(h, idx, al, pa, act.back[0], true, nil)
			p.finish(h, idx, al, pb, act.back[1], true, nil)
		} else {
			p.finish(h, idx, al, pb, act.back[1], true, nil)
			p.finish(h, idx, al, pa, act.back[0], true, nil)
		}
	case aForceBasic:
		pd := p.handle(h, srv, req, from, rxReal, act.theta[0], act.fwd[0], true)
		p.finish(h, idx, al, pd, act.back[0], true, nil)
	case aJunkFirst, aTwoJunk:
		p.sendRaw(al, srv, from, []byte{0x24, 1, 2, 3, 4, 5, 6, 7, 8, 9}, false)
		if act.kind == aTwoJunk {
			p.sendRaw(al, srv, from, make([]byte, 47), false)
			return
		}
		pd := p.handle(h, srv, req, from, rxReal, act.theta[0], act.fwd[0], false)
		p.finish(h, idx, al, pd, act.back[0], true, nil)
	case aForeignFirst:
		pd := p.handle(h, srv, req, from, rxReal, act.theta[0], act.fwd[0], false)
		// the same reply, but from another address, ahead of the real one
		p.finish(h, idx, al, pd, act.back[0], true, func(pkt *ntp.Packet) {
			var fb []byte
			ntp.EncodePacket(&fb, pkt)
			p.sendRaw(al, srv, from, fb, true)
		})
	case aStaleFirst, aTwoStale, aStaleOnly:
		pd := p.handle(h, srv, req, from, rxReal, act.theta[0], act.fwd[0], false)
		p.finish(h, idx, al, pd, act.back[0], act.kind == aStaleFirst, func(pkt *ntp.Packet) {
			st := p.stale(h, req, *pkt, act.meta)
			p.send(al, srv, from, st)
			if act.kind == aTwoStale {
				st2 := p.stale(h, req, *pkt, act.meta+1)
				p.send(al, srv, from, st2)
			}
		})
	case aBadMeta:
		pd := p.handle(h, srv, req, from, rxReal, act.theta[0], act.fwd[0], false)
		p.finishMut(h, idx, al, pd, act.back[0], func(pkt *ntp.Packet) {
			switch act.meta % 6 {
			case 0:
				pkt.Stratum = 0
			case 1:
				pkt.Stratum = 16
			case 2:
				pkt.SetMode(ntp.ModeClient)
			case 3:
				pkt.SetLeapIndicator(ntp.LeapIndicatorUnknown)
			case 4:
				pkt.SetVersion(2)
			case 5:
				pkt.SetMode(ntp.ModeBroadcast)
			}
		})
	case aTxBeforeRx:
		pd := p.handle(h, srv, req, from, rxReal, act.theta[0], act.fwd[0], true)
		p.finishMut(h, idx, al, pd, act.back[0], func(pkt *ntp.Packet) {
			// a server whose transmit stamp is not later than its receive stamp
			rx := ntp.TimeFromTime64(pkt.ReceiveTime, realNow().Add(pd.theta))
			pkt.TransmitTime = ntp.Time64FromTime(rx.Add(-time.Duration(1 + act.meta%1000)))
		})
	default:
		pd := p.handle(h, srv, req, from, rxReal, act.theta[0], act.fwd[0], false)
		p.finish(h, idx, al, pd, act.back[0], true, nil)
	}
}

// the server takes its receive stamp and consults its records
func (p *peer) handle(h *histState, srv int, req ntp.Packet, from netip.AddrPort, rxReal time.Time,
	theta, fwd time.Duration, forget bool) pending {
	if fwd > 0 {
		time.Sleep(fwd)
		rxReal = realNow()
	}
	srx := rxReal.Add(theta)
	for h.used[ntp.Time64FromTime(srx)] {
		srx = srx.Add(1)
	}
	h.used[ntp.Time64FromTime(srx)] = true
	if forget {
		h.store[srv] = map[ntp.Time64]ntp.Time64{}
	}
	pd := pending{srv: srv, req: req, srx: srx, theta: theta, from: from}
	if req.ReceiveTime != req.TransmitTime {
		if tx, ok := h.store[srv][req.OriginTime]; ok {
			pd.inter, pd.old = true, tx
			delete(h.store[srv], req.OriginTime)
		}
	}
	return pd
}

func (p *peer) build(h *histState, idx int, pd pending) ntp.Packet {
	stx := realNow().Add(pd.theta)
	if !stx.After(pd.srx) {
		stx = pd.srx.Add(1)
	}
	rx64, tx64 := ntp.Time64FromTime(pd.srx), ntp.Time64FromTime(stx)
	h.store[pd.srv][rx64] = tx64
	h.handlings = append(h.handlings, handling{srx: pd.srx, stx: stx, theta: pd.theta, attempt: idx})
	var pkt ntp.Packet
	pkt.SetVersion(ntp.VersionMax)
	pkt.SetMode(ntp.ModeServer)
	pkt.Stratum = 1
	pkt.Poll = pd.req.Poll
	pkt.Precision = -32
	pkt.RootDispersion = ntp.Time32{Seconds: 0, Fraction: 10}
	pkt.ReferenceID = 0x58535453
	pkt.ReferenceTime = tx64
	pkt.ReceiveTime = rx64
	if pd.inter {
		pkt.OriginTime = pd.req.ReceiveTime
		pkt.TransmitTime = pd.old
	} else {
		pkt.OriginTime = pd.req.TransmitTime
		pkt.TransmitTime = tx64
	}
	return pkt
}

// the server stamps the transmission, records it and (unless lost) sends the
// reply; before is called with the reply just before it is sent
func (p *peer) finish(h *histState, idx int, al *attemptLog, pd pending, back time.Duration, deliver bool,
	before func(*ntp.Packet)) ntp.Packet {
	pkt := p.build(h, idx, pd)
	if back > 0 {
		time.Sleep(back)
	}
	if before != nil {
		before(&pkt)
	}
	if deliver {
		p.send(al, pd.srv, pd.from, pkt)
	}
	return pkt
}

func (p *peer) finishMut(h *histState, idx int, al *attemptLog, pd pending, back time.Duration, mut func(*ntp.Packet)) {
	pkt := p.build(h, idx, pd)
	mut(&pkt)
	if back > 0 {
		time.Sleep(back)
	}
	p.send(al, pd.srv, pd.from, pkt)
}

func (p *peer) send(al *attemptLog, srv int, to netip.AddrPort, pkt ntp.Packet) {
	var b []byte
	ntp.EncodePacket(&b, &pkt)
	t := realNow()
	if p.h.script.scion {
		// the receive-timestamp option, when present, says "received now"
		b = wrapSCION(al.reqRaw, b, false, p.h.script.tsopt, t)
	}
	p.conns[srv].WriteToUDPAddrPort(b, to)
	al.dgrams = append(al.dgrams, sentDgram{pkt: pkt, sendReal: t})
	p.h.replies = append(p.h.replies, sentReply{pkt: pkt, req: al.req})
}

// a datagram the client cannot use: too short to be an NTP packet, or (foreign)
// a well-formed reply from somebody else (IP: another address; SCION: another AS)
func (p *peer) sendRaw(al *attemptLog, srv int, to netip.AddrPort, b []byte, foreign bool) {
	c := p.conns[srv]
	if p.h.script.scion {
		b = wrapSCION(al.reqRaw, b, foreign, 0, time.Time{})
	} else if foreign {
		c = p.foreign
	}
	t := realNow()
	c.WriteToUDPAddrPort(b, to)
	al.dgrams = append(al.dgrams, sentDgram{junk: true, sendReal: t})
}

// a well-formed reply that answers some other request: an earlier reply of this
// run, or the genuine reply with its origin field off target
func (p *peer) stale(h *histState, req ntp.Packet, genuine ntp.Packet, variant int) ntp.Packet {
	interReq := req.ReceiveTime != ntp.Time64{} || req.OriginTime != ntp.Time64{}
	matches := func(o ntp.Time64) bool { return o == req.TransmitTime || interReq && o == req.ReceiveTime }
	if variant%2 == 0 {
		// the newest reply to an earlier request that differed from this one: a
		// delayed duplicate re-addressed to the new socket; the client must tell
		// it from the reply it is waiting for by the origin field alone
		for i := len(h.replies) - 1; i >= 0; i-- {
			q := h.replies[i].req
			if q.OriginTime != req.OriginTime || q.ReceiveTime != req.ReceiveTime || q.TransmitTime != req.TransmitTime {
				return h.replies[i].pkt
			}
		}
	}
	st := genuine
	cands := []ntp.Time64{
		{Seconds: req.TransmitTime.Seconds, Fraction: req.TransmitTime.Fraction + 1},
		{Seconds: req.TransmitTime.Seconds + 1, Fraction: req.TransmitTime.Fraction},
		req.OriginTime,
		{Seconds: req.ReceiveTime.Seconds, Fraction: req.ReceiveTime.Fraction - 1},
		{Seconds: req.ReceiveTime.Fraction, Fraction: req.ReceiveTime.Seconds},
		{},
		{Seconds: req.TransmitTime.Seconds, Fraction: req.ReceiveTime.Fraction},
	}
	for k := 0; k < len(cands); k++ {
		o := cands[(variant+k)%len(cands)]
		if !matches(o) {
			st.OriginTime = o
			return st
		}
	}
	st.OriginTime = ntp.Time64{Seconds: 1, Fraction: 1}
	return st
}
