package main

// The scripted peer: two protocol-conformant NTP servers ("references") on
// loopback, each with its own record of (receive, transmit) stamps as the real
// server keeps it, whose clock is the real time plus an offset theta that the
// script changes from exchange to exchange, behind a network that follows the
// script: delay in either direction, loss of the request or of the reply,
// duplication of either, reordering of the duplicates, junk and stale
// datagrams ahead of the reply.  The peer also plays a few non-conformant
// servers (bad metadata, transmit before receive) that the client must refuse.

import (
	crand "crypto/rand"
	"net"
	"net/netip"
	"sync"
	"time"

	"example.com/scion-time/net/ntp"
	"example.com/scion-time/net/nts"
)

type actKind int

const (
	aNormal actKind = iota
	aDropReq
	aDropReply
	aDupReply
	aDupReq
	aDupReqRev
	aForceBasic
	aJunkFirst
	aForeignFirst
	aStaleFirst
	aTwoStale
	aTwoJunk
	aStaleOnly
	aBadMeta
	aTxBeforeRx
	aLateReply // handled, but the reply leaves only when the next request arrives (to the old socket)
	numActKinds
)

var actNames = [...]string{"normal", "dropreq", "dropreply", "dupreply", "dupreq", "dupreqrev", "forcebasic",
	"junkfirst", "foreignfirst", "stalefirst", "twostale", "twojunk", "staleonly", "badmeta", "txbeforerx", "latereply"}

// nothing the client can finish the attempt with arrives
func (k actKind) silent() bool {
	return k == aDropReq || k == aDropReply || k == aStaleOnly || k == aLateReply
}

// the client runs into its deadline (a real loss); with unblock two junk datagrams
// end the attempt instead, so that nothing depends on a wall-clock wait
func (a action) waits() bool { return a.kind.silent() && !a.unblock }

const (
	junkShort    = 0 // shorter than an NTP packet
	junkOversize = 1 // IP: longer than the client's 48-byte buffer (MSG_TRUNC); SCION: short
	junkForeign  = 2 // IP: from another address; SCION: from another AS, with a receive-timestamp option
)

type action struct {
	kind  actKind
	theta [2]time.Duration // clock offset of the peer during the (up to two) handlings
	fwd   [2]time.Duration // extra delay before the peer stamps the receipt
	back  [2]time.Duration // extra delay between the transmit stamp and the send
	meta  int              // variant for aBadMeta / aStaleFirst
	junk    int            // flavour of the junk datagrams of aJunkFirst / aTwoJunk
	unblock bool           // silent kinds: two junk datagrams end the attempt instead of the deadline
	gate    func()         // c03.multi: the request is dealt with only after gate returns
}

type handling struct {
	srx, stx time.Time // stamps on the peer's clock
	theta    time.Duration
	attempt  int
}

type sentDgram struct {
	junk     bool
	pkt      ntp.Packet
	sendReal time.Time
}

type attemptLog struct {
	port   uint16 // source port of the request
	keSrv  int    // NTS: the server the key-exchange data in use names
	uid    []byte // NTS: unique identifier of the request
	srv    int
	reqRaw []byte // SCION: the request packet as received
	req    ntp.Packet
	act    actKind
	dgrams []sentDgram
	done   bool
}

type sentReply struct {
	pkt ntp.Packet
	req ntp.Packet
}

type pending struct {
	srv   int
	req   ntp.Packet
	srx   time.Time
	theta time.Duration
	inter bool
	old   ntp.Time64
	from  netip.AddrPort
}

type histState struct {
	script    *histScript
	callIdx   int
	kInCall   int
	attempts  []*attemptLog
	handlings []handling
	store     [2]map[ntp.Time64]ntp.Time64
	used      map[ntp.Time64]bool
	replies   []sentReply // every reply sent so far (for stale replays)
	held      []heldReply
	samePairs int // consecutive requests of this history that came from the same port
}

type heldReply struct {
	conn *net.UDPConn
	to   netip.AddrPort
	b    []byte
}

type peer struct {
	mu       sync.Mutex
	conns    [2]*net.UDPConn // the two servers, IPv4
	conns6   [2]*net.UDPConn // the two servers, IPv6 loopback
	foreign  *net.UDPConn
	h        *histState
	ke       *keServer
}

func newPeer(addr, foreignAddr netip.Addr) *peer {
	p := &peer{}
	listen := func(a netip.Addr) *net.UDPConn {
		c, err := net.ListenUDP("udp", net.UDPAddrFromAddrPort(netip.AddrPortFrom(a, 0)))
		if err != nil {
			panic(err)
		}
		return c
	}
	for i := range p.conns {
		p.conns[i] = listen(addr)
		p.conns6[i] = listen(netip.IPv6Loopback())
	}
	p.foreign = listen(foreignAddr)
	for i := range p.conns {
		go p.serve(p.conns[i], i)
		go p.serve(p.conns6[i], i)
	}
	p.ke = newKEServer(p, addr)
	return p
}

func (p *peer) conn(srv int) *net.UDPConn {
	if p.h != nil && p.h.script.v6 {
		return p.conns6[srv]
	}
	return p.conns[srv]
}

func (p *peer) addrOf(c *net.UDPConn) *net.UDPAddr {
	a := c.LocalAddr().(*net.UDPAddr)
	return &net.UDPAddr{IP: append(net.IP(nil), a.IP...), Port: a.Port}
}
func (p *peer) addr(i int) *net.UDPAddr  { return p.addrOf(p.conns[i]) }
func (p *peer) addr6(i int) *net.UDPAddr { return p.addrOf(p.conns6[i]) }

func (p *peer) begin(s *histScript) {
	p.mu.Lock()
	p.h = &histState{script: s, used: map[ntp.Time64]bool{}}
	p.h.store[0] = map[ntp.Time64]ntp.Time64{}
	p.h.store[1] = map[ntp.Time64]ntp.Time64{}
	p.mu.Unlock()
}

func (p *peer) setCall(i int) {
	p.mu.Lock()
	p.h.callIdx, p.h.kInCall = i, 0
	p.mu.Unlock()
}

// the deadline class of the attempt about to start
func (p *peer) nextWaits() bool {
	p.mu.Lock()
	defer p.mu.Unlock()
	return p.h.currentAction().waits()
}

func (h *histState) currentAction() action {
	cs := h.script.calls[h.callIdx]
	if h.kInCall < len(cs.acts) {
		return cs.acts[h.kInCall]
	}
	return action{kind: aNormal, theta: cs.acts[0].theta}
}

// waits until n requests have been fully processed
func (p *peer) waitDone(n int, limit time.Duration) bool {
	deadline := time.Now().Add(limit)
	p.mu.Lock()
	defer p.mu.Unlock()
	for {
		cnt := 0
		for _, a := range p.h.attempts {
			if a.done {
				cnt++
			}
		}
		if cnt >= n && len(p.h.attempts) == cnt {
			return cnt == n
		}
		if time.Now().After(deadline) {
			return false
		}
		p.mu.Unlock()
		time.Sleep(200 * time.Microsecond)
		p.mu.Lock()
	}
}

func (p *peer) serve(c *net.UDPConn, srv int) {
	buf := make([]byte, 2048)
	for {
		n, from, err := c.ReadFromUDPAddrPort(buf)
		if err != nil {
			return
		}
		rxReal := realNow()
		p.onRequest(srv, append([]byte(nil), buf[:n]...), from, rxReal)
	}
}

func (p *peer) onRequest(srv int, b []byte, from netip.AddrPort, rxReal time.Time) {
	p.mu.Lock()
	defer p.mu.Unlock()
	h := p.h
	if h == nil {
		return
	}
	var req ntp.Packet
	payload := b
	if h.script.scion {
		_, ul, ok := parseSCIONReq(b)
		if !ok {
			return
		}
		payload = ul.Payload
	}
	if ntp.DecodePacket(&req, payload) != nil {
		return
	}
	if n := len(h.attempts); n > 0 && h.attempts[n-1].port == from.Port() {
		h.samePairs++
	}
	// replies held back leave now, for the socket they were meant for
	for _, hr := range h.held {
		// ... unless the kernel happened to give the new socket the old port (about 1 in
		// 28000): then it would reach the current request's socket, which is the stated
		// boundary of fresh_socket_per_request; the network loses it instead
		// (not when this client keeps sending from one port: then it is no accident)
		if hr.to != from || h.samePairs > 1 || (stat.portPairs >= 4 && stat.samePorts*2 > stat.portPairs) {
			hr.conn.WriteToUDPAddrPort(hr.b, hr.to)
		}
	}
	h.held = nil
	var act action
	if h.script.multi != nil {
		act = h.script.multi[srv]
	} else {
		act = h.currentAction()
	}
	h.kInCall++
	al := &attemptLog{srv: srv, req: req, act: act.kind, reqRaw: b, port: from.Port()}
	if h.script.nts {
		var nreq nts.Packet
		if nts.DecodePacket(&nreq, payload) == nil {
			al.uid = nreq.UniqueID.ID
		}
		al.keSrv = p.ke.lastSrv()
	}
	idx := len(h.attempts)
	h.attempts = append(h.attempts, al)
	defer func() { al.done = true }()
	if act.gate != nil {
		p.mu.Unlock()
		act.gate()
		rxReal = realNow()
		p.mu.Lock()
	}
	p.act(h, idx, al, act, srv, req, from, rxReal)
	if act.kind.silent() && act.unblock {
		p.sendRaw(al, srv, from, junkShort)
		p.sendRaw(al, srv, from, junkShort)
	}
}

func (p *peer) act(h *histState, idx int, al *attemptLog, act action, srv int, req ntp.Packet, from netip.AddrPort, rxReal time.Time) {
	switch act.kind {
	case aDropReq:
		return
	case aDropReply:
		pd := p.handle(h, srv, req, from, rxReal, act.theta[0], act.fwd[0], false)
		p.finish(h, idx, al, pd, act.back[0], false, nil)
	case aLateReply:
		pd := p.handle(h, srv, req, from, rxReal, act.theta[0], act.fwd[0], false)
		pkt := p.finish(h, idx, al, pd, act.back[0], false, nil)
		h.held = append(h.held, heldReply{conn: p.conn(srv), to: from, b: p.encode(al, pkt, realNow())})
	case aDupReply:
		pd := p.handle(h, srv, req, from, rxReal, act.theta[0], act.fwd[0], false)
		pkt := p.finish(h, idx, al, pd, act.back[0], true, nil)
		p.send(al, srv, from, pkt)
	case aDupReq, aDupReqRev:
		pa := p.handle(h, srv, req, from, rxReal, act.theta[0], act.fwd[0], false)
		pb := p.handle(h, srv, req, from, realNow(), act.theta[1], act.fwd[1], false)
		if act.kind == aDupReq {
			p.finish(h, idx, al, pa, act.back[0], true, nil)
			p.finish(h, idx, al, pb, act.back[1], true, nil)
		} else {
			p.finish(h, idx, al, pb, act.back[1], true, nil)
			p.finish(h, idx, al, pa, act.back[0], true, nil)
		}
	case aForceBasic:
		pd := p.handle(h, srv, req, from, rxReal, act.theta[0], act.fwd[0], true)
		p.finish(h, idx, al, pd, act.back[0], true, nil)
	case aJunkFirst, aTwoJunk:
		p.sendRaw(al, srv, from, act.junk)
		if act.kind == aTwoJunk {
			p.sendRaw(al, srv, from, act.junk)
			return
		}
		pd := p.handle(h, srv, req, from, rxReal, act.theta[0], act.fwd[0], false)
		p.finish(h, idx, al, pd, act.back[0], true, nil)
	case aForeignFirst:
		p.sendRaw(al, srv, from, junkForeign)
		pd := p.handle(h, srv, req, from, rxReal, act.theta[0], act.fwd[0], false)
		p.finish(h, idx, al, pd, act.back[0], true, nil)
	case aStaleFirst, aTwoStale, aStaleOnly:
		pd := p.handle(h, srv, req, from, rxReal, act.theta[0], act.fwd[0], false)
		p.finish(h, idx, al, pd, act.back[0], act.kind == aStaleFirst, func(pkt *ntp.Packet) {
			st := p.stale(h, req, *pkt, act.meta)
			p.send(al, srv, from, st)
			if act.kind == aTwoStale {
				st2 := p.stale(h, req, *pkt, act.meta+1)
				p.send(al, srv, from, st2)
			}
		})
	case aBadMeta:
		pd := p.handle(h, srv, req, from, rxReal, act.theta[0], act.fwd[0], false)
		p.finishMut(h, idx, al, pd, act.back[0], func(pkt *ntp.Packet) {
			switch act.meta % 6 {
			case 0:
				pkt.Stratum = 0
			case 1:
				pkt.Stratum = 16
			case 2:
				pkt.SetMode(ntp.ModeClient)
			case 3:
				pkt.SetLeapIndicator(ntp.LeapIndicatorUnknown)
			case 4:
				pkt.SetVersion(2)
			case 5:
				pkt.SetMode(ntp.ModeBroadcast)
			}
		})
	case aTxBeforeRx:
		pd := p.handle(h, srv, req, from, rxReal, act.theta[0], act.fwd[0], true)
		p.finishMut(h, idx, al, pd, act.back[0], func(pkt *ntp.Packet) {
			// a server whose transmit stamp is not later than its receive stamp
			rx := ntp.TimeFromTime64(pkt.ReceiveTime, realNow().Add(pd.theta))
			pkt.TransmitTime = ntp.Time64FromTime(rx.Add(-time.Duration(1 + act.meta%1000)))
		})
	default:
		pd := p.handle(h, srv, req, from, rxReal, act.theta[0], act.fwd[0], false)
		p.finish(h, idx, al, pd, act.back[0], true, nil)
	}
}

// the server takes its receive stamp and consults its records
func (p *peer) handle(h *histState, srv int, req ntp.Packet, from netip.AddrPort, rxReal time.Time,
	theta, fwd time.Duration, forget bool) pending {
	if fwd > 0 {
		time.Sleep(fwd)
		rxReal = realNow()
	}
	srx := rxReal.Add(theta)
	for h.used[ntp.Time64FromTime(srx)] {
		srx = srx.Add(1)
	}
	h.used[ntp.Time64FromTime(srx)] = true
	if forget {
		h.store[srv] = map[ntp.Time64]ntp.Time64{}
	}
	pd := pending{srv: srv, req: req, srx: srx, theta: theta, from: from}
	if req.ReceiveTime != req.TransmitTime {
		if tx, ok := h.store[srv][req.OriginTime]; ok {
			pd.inter, pd.old = true, tx
			delete(h.store[srv], req.OriginTime)
		}
	}
	return pd
}

func (p *peer) build(h *histState, idx int, pd pending) ntp.Packet {
	stx := realNow().Add(pd.theta)
	if !stx.After(pd.srx) {
		stx = pd.srx.Add(1)
	}
	rx64, tx64 := ntp.Time64FromTime(pd.srx), ntp.Time64FromTime(stx)
	h.store[pd.srv][rx64] = tx64
	h.handlings = append(h.handlings, handling{srx: pd.srx, stx: stx, theta: pd.theta, attempt: idx})
	var pkt ntp.Packet
	pkt.SetVersion(ntp.VersionMax)
	pkt.SetMode(ntp.ModeServer)
	pkt.Stratum = 1
	pkt.Poll = pd.req.Poll
	// the precision a server announces says nothing about how its timestamps are to be read
	precs := []int8{-32, -32, -29, -25, -20, -16, -10, -6, -1, 0, 1, 7, -128, 127}
	pkt.Precision = precs[(uint64(pd.srx.UnixNano()/1000)+uint64(idx))%uint64(len(precs))]
	pkt.RootDispersion = ntp.Time32{Seconds: 0, Fraction: 10}
	pkt.ReferenceID = 0x58535453
	pkt.ReferenceTime = tx64
	pkt.ReceiveTime = rx64
	if pd.inter {
		pkt.OriginTime = pd.req.ReceiveTime
		pkt.TransmitTime = pd.old
	} else {
		pkt.OriginTime = pd.req.TransmitTime
		pkt.TransmitTime = tx64
	}
	return pkt
}

// the server stamps the transmission, records it and (unless lost) sends the
// reply; before is called with the reply just before it is sent
func (p *peer) finish(h *histState, idx int, al *attemptLog, pd pending, back time.Duration, deliver bool,
	before func(*ntp.Packet)) ntp.Packet {
	pkt := p.build(h, idx, pd)
	if back > 0 {
		time.Sleep(back)
	}
	if before != nil {
		before(&pkt)
	}
	if deliver {
		p.send(al, pd.srv, pd.from, pkt)
	}
	return pkt
}

func (p *peer) finishMut(h *histState, idx int, al *attemptLog, pd pending, back time.Duration, mut func(*ntp.Packet)) {
	pkt := p.build(h, idx, pd)
	mut(&pkt)
	if back > 0 {
		time.Sleep(back)
	}
	p.send(al, pd.srv, pd.from, pkt)
}

// the reply as it goes on the wire: NTP, with NTS fields when the history uses
// NTS, in a SCION/UDP packet when it is a SCION history
func (p *peer) encode(al *attemptLog, pkt ntp.Packet, now time.Time) []byte {
	var b []byte
	ntp.EncodePacket(&b, &pkt)
	h := p.h
	if h.script.nts && al.uid != nil {
		ck := make([]byte, 100)
		crand.Read(ck)
		resp := nts.NewResponsePacket([][]byte{ck}, p.ke.s2cKey(), al.uid)
		nts.EncodePacket(&b, &resp)
	}
	if h.script.scion {
		// the receive-timestamp option, when present, says "received now"; a hop-by-hop
		// option of the same type (which the client must ignore) says something else
		b = wrapSCION(al.reqRaw, b, scionOpts{tsForm: h.script.tsopt, ts: now, hbh: h.script.hbh})
	}
	return b
}

func (p *peer) send(al *attemptLog, srv int, to netip.AddrPort, pkt ntp.Packet) {
	t := realNow()
	b := p.encode(al, pkt, t)
	p.conn(srv).WriteToUDPAddrPort(b, to)
	al.dgrams = append(al.dgrams, sentDgram{pkt: pkt, sendReal: t})
	p.h.replies = append(p.h.replies, sentReply{pkt: pkt, req: al.req})
}

// a datagram the client cannot use
func (p *peer) sendRaw(al *attemptLog, srv int, to netip.AddrPort, flavour int) {
	h := p.h
	c := p.conn(srv)
	var b []byte
	switch {
	case h.script.scion && flavour == junkForeign:
		// a well-formed reply from another AS whose receive-timestamp option names a
		// time one second ago: it must be refused and must leave no trace
		var fb []byte
		ntp.EncodePacket(&fb, &ntp.Packet{LVM: 0x24, Stratum: 1, OriginTime: al.req.TransmitTime,
			ReceiveTime: ntp.Time64FromTime(realNow()), TransmitTime: ntp.Time64FromTime(realNow())})
		b = wrapSCION(al.reqRaw, fb, scionOpts{foreign: true, tsForm: 1 + len(al.reqRaw)%2, ts: realNow().Add(-time.Second)})
	case h.script.scion:
		b = wrapSCION(al.reqRaw, []byte{0x24, 1, 2, 3, 4, 5, 6, 7, 8, 9}, scionOpts{})
	case flavour == junkForeign && !h.script.v6:
		ntp.EncodePacket(&b, &ntp.Packet{LVM: 0x24, Stratum: 1, OriginTime: al.req.TransmitTime,
			ReceiveTime: ntp.Time64FromTime(realNow()), TransmitTime: ntp.Time64FromTime(realNow())})
		c = p.foreign
	case flavour == junkOversize && !h.script.nts:
		// longer than the 48 bytes the client reads into: the kernel reports truncation
		ntp.EncodePacket(&b, &ntp.Packet{LVM: 0x24, Stratum: 1, OriginTime: al.req.TransmitTime,
			ReceiveTime: ntp.Time64FromTime(realNow()), TransmitTime: ntp.Time64FromTime(realNow())})
		b = append(b, make([]byte, 20)...)
	default:
		b = []byte{0x24, 1, 2, 3, 4, 5, 6, 7, 8, 9}
	}
	t := realNow()
	c.WriteToUDPAddrPort(b, to)
	al.dgrams = append(al.dgrams, sentDgram{junk: true, sendReal: t})
}

// a well-formed reply that answers some other request: an earlier reply of this
// run, or the genuine reply with its origin field off target
func (p *peer) stale(h *histState, req ntp.Packet, genuine ntp.Packet, variant int) ntp.Packet {
	interReq := req.ReceiveTime != ntp.Time64{} || req.OriginTime != ntp.Time64{}
	matches := func(o ntp.Time64) bool { return o == req.TransmitTime || interReq && o == req.ReceiveTime }
	if variant%2 == 0 {
		// the newest reply to an earlier request that differed from this one: a
		// delayed duplicate re-addressed to the new socket; the client must tell
		// it from the reply it is waiting for by the origin field alone
		for i := len(h.replies) - 1; i >= 0; i-- {
			q := h.replies[i].req
			if q.OriginTime != req.OriginTime || q.ReceiveTime != req.ReceiveTime || q.TransmitTime != req.TransmitTime {
				return h.replies[i].pkt
			}
		}
	}
	st := genuine
	cands := []ntp.Time64{
		{Seconds: req.TransmitTime.Seconds, Fraction: req.TransmitTime.Fraction + 1},
		{Seconds: req.TransmitTime.Seconds + 1, Fraction: req.TransmitTime.Fraction},
		req.OriginTime,
		{Seconds: req.ReceiveTime.Seconds, Fraction: req.ReceiveTime.Fraction - 1},
		{Seconds: req.ReceiveTime.Fraction, Fraction: req.ReceiveTime.Seconds},
		{},
		{Seconds: req.TransmitTime.Seconds, Fraction: req.ReceiveTime.Fraction},
	}
	for k := 0; k < len(cands); k++ {
		o := cands[(variant+k)%len(cands)]
		if !matches(o) {
			st.OriginTime = o
			return st
		}
	}
	st.OriginTime = ntp.Time64{Seconds: 1, Fraction: 1}
	return st
}
