package main

// A scripted NTS-KE responder (TLS 1.3, run-time certificate) for the NTS
// histories: every key exchange hands out ONE cookie and names the server the
// script currently announces, so that the client has to run a new key exchange
// whenever a reply (and with it the replacement cookie) is lost - and may then be
// told to talk to another server.  (Written after the responder of
// harness/cmd/c05; nothing is imported from there.)

import (
	"crypto/ecdsa"
	"crypto/elliptic"
	crand "crypto/rand"
	"crypto/tls"
	"crypto/x509"
	"crypto/x509/pkix"
	"io"
	"math/big"
	"net"
	"net/netip"
	"sync"
	"time"

	"example.com/scion-time/net/ntske"
)

type keServer struct {
	p    *peer
	ln   net.Listener
	port int
	addr netip.Addr

	mu       sync.Mutex
	announce int // index of the server the next key exchange names
	last     int // ... the latest key exchange named
	s2c      []byte
	count    int
}

func selfSigned() tls.Certificate {
	key, err := ecdsa.GenerateKey(elliptic.P256(), crand.Reader)
	if err != nil {
		panic(err)
	}
	tmpl := x509.Certificate{
		SerialNumber: big.NewInt(3),
		Subject:      pkix.Name{CommonName: "c03.test"},
		NotBefore:    time.Now().Add(-time.Hour),
		NotAfter:     time.Now().Add(48 * time.Hour),
		KeyUsage:     x509.KeyUsageDigitalSignature,
		ExtKeyUsage:  []x509.ExtKeyUsage{x509.ExtKeyUsageServerAuth},
		DNSNames:     []string{"c03.test"},
	}
	der, err := x509.CreateCertificate(crand.Reader, &tmpl, &tmpl, &key.PublicKey, key)
	if err != nil {
		panic(err)
	}
	return tls.Certificate{Certificate: [][]byte{der}, PrivateKey: key}
}

func newKEServer(p *peer, addr netip.Addr) *keServer {
	ln, err := tls.Listen("tcp4", netip.AddrPortFrom(addr, 0).String(), &tls.Config{
		Certificates: []tls.Certificate{selfSigned()}, MinVersion: tls.VersionTLS13, NextProtos: []string{"ntske/1"}})
	if err != nil {
		panic(err)
	}
	k := &keServer{p: p, ln: ln, port: ln.Addr().(*net.TCPAddr).Port, addr: addr}
	go k.loop()
	return k
}

func (k *keServer) setAnnounce(srv int) {
	k.mu.Lock()
	k.announce = srv
	k.mu.Unlock()
}
func (k *keServer) lastSrv() int {
	k.mu.Lock()
	defer k.mu.Unlock()
	return k.last
}
func (k *keServer) s2cKey() []byte {
	k.mu.Lock()
	defer k.mu.Unlock()
	return k.s2c
}
func (k *keServer) exchanges() int {
	k.mu.Lock()
	defer k.mu.Unlock()
	return k.count
}

func (k *keServer) loop() {
	for {
		c, err := k.ln.Accept()
		if err != nil {
			return
		}
		go func(c net.Conn) {
			defer c.Close()
			tc := c.(*tls.Conn)
			_ = tc.SetDeadline(time.Now().Add(30 * time.Second))
			if err := tc.Handshake(); err != nil {
				return
			}
			req := make([]byte, 16)
			if _, err := io.ReadFull(tc, req); err != nil {
				return
			}
			var d ntske.Data
			if err := ntske.ExportKeys(tc.ConnectionState(), &d); err != nil {
				return
			}
			var msg ntske.ExchangeMsg
			msg.AddRecord(ntske.NextProto{NextProto: ntske.NTPv4})
			msg.AddRecord(ntske.Algorithm{Algo: []uint16{ntske.AES_SIV_CMAC_256}})
			ck := make([]byte, 100)
			crand.Read(ck)
			msg.AddRecord(ntske.Cookie{Cookie: ck})
			k.mu.Lock()
			k.s2c = d.S2cKey
			k.last = k.announce
			k.count++
			port := k.p.addr(k.announce).Port
			k.mu.Unlock()
			msg.AddRecord(ntske.Server{Addr: []byte(k.addr.String())})
			msg.AddRecord(ntske.Port{Port: uint16(port)})
			msg.AddRecord(ntske.End{})
			buf, err := msg.Pack()
			if err != nil {
				return
			}
			_, _ = tc.Write(buf.Bytes())
			_, _ = tc.Read(req) // until the client closes
		}(c)
	}
}
