// C03: drives the REAL client.IPClient through client.MeasureClockOffsetIP
// against a scripted conformant peer on loopback (peer.go) and records, per
// history of calls, what the client did: the request fields on the wire, the
// four timestamps it combined (recording measurements.Filter), the offset and
// round-trip delay it computed (its log records), the result of every call and
// its state between exchanges (read by reflection).  The case file holds one
// line per history; the extracted model replays it and the property oracle is
// evaluated on the recorded observations (coq/Extract/GlueC03.v).
//
// The parent process starts worker processes (one recording clock per process,
// everything inside a worker is sequential, each worker has its own loopback
// address) and merges their case files.
package main

import (
	"context"
	"errors"
	"flag"
	"fmt"
	"log/slog"
	"net"
	"net/netip"
	"os"
	"os/exec"
	"strings"
	"time"

	"example.com/scion-time/core/client"
	"example.com/scion-time/core/timebase"
	"example.com/scion-time/net/ntp"
	"example.com/scion-time/net/udp"

	"github.com/scionproto/scion/pkg/addr"
	"github.com/scionproto/scion/pkg/snet"
	spath "github.com/scionproto/scion/pkg/snet/path"

	"verifharness/lib"
)

const (
	numWorkers   = 16
	dropWait     = 60 * time.Millisecond
	dropMargin   = 30 * time.Millisecond
	longWait     = 5 * time.Second
	eraBoundary  = int64(2085978496) // 2036-02-07T06:28:16Z, start of NTP era 1
	maxThetaSecs = int64(60 * 365 * 86400)
)

type gapKind int

const (
	gapNone gapKind = iota
	gapShort
	gapOverride // the client's clock reads exactly 3 s + delta after its previous transmit stamp
	gapReal3s   // wait in real time until the 3 s window has passed
	gapFuture   // the client's clock reads a time after the NTP era rollover of 2036
)

type callScript struct {
	reset bool
	srv   int
	gap   gapKind
	delta int64
	acts  []action
}

type histScript struct {
	seed  uint64
	scion bool
	tsopt int // SCION: replies carry a receive-timestamp option (1 software form, 2 hardware form)
	im    bool
	calls []callScript
}

var worker = flag.Int("worker", -1, "internal: run as worker i")

func main() {
	a := lib.ParseArgs()
	if *worker >= 0 {
		runWorker(a, *worker)
		return
	}
	runParent(a)
}

func counts(tier string) int {
	if tier == "thorough" {
		return 1400
	}
	return 160
}

func runParent(a lib.Args) {
	self, err := os.Executable()
	if err != nil {
		panic(err)
	}
	type res struct {
		out []byte
		err error
	}
	ch := make(chan res, numWorkers)
	files := make([]string, numWorkers)
	for i := 0; i < numWorkers; i++ {
		files[i] = fmt.Sprintf("%s.w%d", a.Out, i)
		args := []string{"-worker", fmt.Sprint(i), "-tier", a.Tier, "-seed", fmt.Sprint(a.Seed), "-out", files[i]}
		if a.Replay != "" {
			args = append(args, "-replay", a.Replay)
		}
		cmd := exec.Command(self, args...)
		go func() {
			out, err := cmd.CombinedOutput()
			ch <- res{out, err}
		}()
	}
	failed := false
	for i := 0; i < numWorkers; i++ {
		r := <-ch
		os.Stdout.Write(r.out)
		if r.err != nil {
			fmt.Println("worker failed:", r.err)
			failed = true
		}
	}
	w := lib.NewWriter(a.Out)
	for _, f := range files {
		data, err := os.ReadFile(f)
		if err != nil {
			continue
		}
		for _, line := range strings.Split(string(data), "\n") {
			if line == "" || line[0] == '#' {
				continue
			}
			p := strings.Split(line, "\t")
			if len(p) == 4 {
				w.Case(p[0], p[1], p[2], p[3])
			}
		}
		os.Remove(f)
	}
	w.Close()
	if failed {
		os.Exit(1)
	}
}

var (
	thePeer   *peer
	localAddr *net.UDPAddr
	log0      = slog.New(recHandler{logger: 0})
	log1      = slog.New(recHandler{logger: 1})
)

func runWorker(a lib.Args, wi int) {
	pid := os.Getpid()
	addr := netip.AddrFrom4([4]byte{127, 3, byte(pid >> 8), byte(pid)})
	foreign := netip.AddrFrom4([4]byte{127, 103, byte(pid >> 8), byte(pid)})
	localAddr = &net.UDPAddr{IP: net.IP(addr.AsSlice())}
	timebase.RegisterClock(recClock{})
	thePeer = newPeer(addr, foreign)
	w := lib.NewWriter(a.Out)
	defer w.Close()

	var seeds []uint64
	if a.Replay != "" {
		lines := lib.ReplayLines(a.Replay)
		for i, l := range lines {
			if i%numWorkers != wi || l[0] != "c03.hist" {
				continue
			}
			f := strings.Fields(l[2])
			seeds = append(seeds, lib.ParseU(f[len(f)-1]))
		}
	} else {
		r := lib.NewRng(a.Seed*1000003 + uint64(wi)*7919 + 17)
		for i := 0; i < counts(a.Tier); i++ {
			seeds = append(seeds, r.U64()>>1)
		}
	}
	budget := 100 * time.Second
	if a.Tier == "thorough" {
		budget = 12 * time.Minute
	}
	start := time.Now()
	skipped, done := 0, 0
	for _, s := range seeds {
		if time.Since(start) > budget {
			fmt.Printf("NOTE worker %d stopped after %d of %d histories (time budget)\n", wi, done, len(seeds))
			break
		}
		hs := genHistory(s)
		if !runHistory(w, hs) {
			skipped++
		}
		done++
	}
	if a.Replay == "" && wi < 4 {
		r := lib.NewRng(a.Seed*31 + uint64(wi))
		for k := 0; k < 2; k++ {
			runFallback(w, k == 1, genThetaBase(r))
		}
	}
	if a.Replay == "" && (wi == 4 || wi == 5) {
		runMulti(w, time.Duration(2+wi)*time.Second+time.Duration(wi)*1234567)
	}
	if a.Replay == "" {
		w.Case("c03.kstamps", "", lib.V(lib.I(nAttempts), lib.I(nFbTx), lib.I(nFbRx)), "")
	}
	if skipped > 0 {
		fmt.Printf("NOTE worker %d: %d histories not recorded (peer and client disagree on the number of requests, or a scripted datagram was sent too close to a deadline)\n", wi, skipped)
	}
}

// ---- generation ----
func genThetaBase(r *lib.Rng) time.Duration {
	sign := time.Duration(1)
	if r.Bool() {
		sign = -1
	}
	switch r.Intn(9) {
	case 0:
		return 0
	case 1:
		return sign * time.Duration(r.Range(1, 999))
	case 2:
		return sign * time.Duration(r.Range(1, 999)) * time.Microsecond
	case 3:
		return sign * time.Duration(r.Range(1, 999)) * time.Millisecond
	case 4:
		return sign * time.Duration(r.Range(1, 3600)) * time.Second
	case 5:
		return sign * time.Duration(r.Range(1, 24*365)) * time.Hour
	case 6:
		return sign * time.Duration(r.Range(1, maxThetaSecs)) * time.Second
	case 7:
		// the peer's clock sits at the NTP era boundary of 2036
		return time.Duration(eraBoundary-time.Now().Unix())*time.Second + time.Duration(r.Range(-2000, 2000))*time.Millisecond
	default:
		return sign*time.Duration(r.Range(0, maxThetaSecs))*time.Second + time.Duration(r.Range(0, 999999999))
	}
}

func genDelay(r *lib.Rng) time.Duration {
	switch r.Intn(8) {
	case 0:
		return time.Duration(r.Range(1, 400)) * time.Microsecond
	case 1:
		return time.Duration(r.Range(1, 4)) * time.Millisecond
	default:
		return 0
	}
}

func genHistory(seed uint64) *histScript {
	r := lib.NewRng(seed)
	hs := &histScript{seed: seed, im: r.Intn(8) != 0, scion: r.Intn(100) < 35}
	if hs.scion {
		hs.tsopt = r.Intn(3)
	}
	base := genThetaBase(r)
	mode := r.Intn(4) // 0 constant, 1 jitter, 2 steps between exchanges, 3 unrelated per exchange
	cur := base
	nextTheta := func() time.Duration {
		switch mode {
		case 1:
			cur = base + time.Duration(r.Range(-20000, 20000))
		case 2:
			if r.Intn(2) == 0 {
				cur += time.Duration(r.Range(-5000, 5000)) * time.Millisecond
			}
		case 3:
			cur = genThetaBase(r)
		}
		lim := time.Duration(maxThetaSecs+86400) * time.Second
		if cur > lim {
			cur = lim
		}
		if cur < -lim {
			cur = -lim
		}
		return cur
	}
	ncalls := 2 + r.Intn(6)
	adversarial := r.Intn(3) // 0: calm, 1: some, 2: heavy
	real3s := r.Intn(10) == 0    // at most one real 3 s pause, in few histories
	for i := 0; i < ncalls; i++ {
		cs := callScript{}
		if i > 0 {
			switch x := r.Intn(100); {
			case x < 45:
				cs.gap = gapNone
			case x < 55:
				cs.gap = gapShort
			case x < 60:
				cs.gap = gapFuture
				cs.delta = lib.Pick(r, int64(0), 1, 3, 86400, 365*86400, r.Range(0, 50*365*86400), r.Range(0, 100000))
			case x < 98:
				cs.gap = gapOverride
				cs.delta = lib.Pick(r, int64(0), 0, 1, 1, -1, 2, -2, 1000, -1000, 1000000000, -1000000000, 999999999, -2999999999, r.Range(-3000000, 3000000))
			default:
				cs.gap = gapNone
				if real3s {
					cs.gap, real3s = gapReal3s, false
				}
			}
			cs.reset = r.Intn(12) == 0
		}
		if r.Intn(7) == 0 {
			cs.srv = 1
		}
		if i > 0 && r.Intn(3) != 0 {
			cs.srv = hs.calls[i-1].srv
		}
		for k := 0; k < 3; k++ {
			act := action{kind: aNormal, meta: r.Intn(1 << 20)}
			p := []int{10, 35, 65}[adversarial]
			if r.Intn(100) < p {
				act.kind = actKind(1 + r.Intn(int(numActKinds)-1))
			}
			for j := 0; j < 2; j++ {
				act.theta[j] = nextTheta()
				act.fwd[j] = genDelay(r)
				act.back[j] = genDelay(r)
			}
			cs.acts = append(cs.acts, act)
		}
		if cs.gap == gapFuture {
			// every stamp of the call must stay within 2^31 s of the client's clock reading
			ahead := eraBoundary + cs.delta - time.Now().Unix()
			for _, act := range cs.acts {
				for _, th := range act.theta {
					d := int64(th/time.Second) - ahead
					if d < -(1<<31)+86400 || d > (1<<31)-86400 {
						cs.gap = gapNone
					}
				}
			}
		}
		hs.calls = append(hs.calls, cs)
	}
	return hs
}

// ---- running one history ----
type attObs struct {
	now0     event
	fbTx     bool
	fbRx     bool
	recvAt   time.Time
	hasRecv  bool
	eval     *event
	filt     *event
	fail     *event
	end      time.Time
	deadline time.Time
}

func parseEvents(evs []event) ([]attObs, bool) {
	var out []attObs
	var cur *attObs
	for i := range evs {
		e := evs[i]
		if cur == nil {
			if e.kind == evNow {
				cur = &attObs{now0: e}
			} else if e.kind == evFilter || (e.kind == evLog && e.logger == 0 && e.level >= slog.LevelInfo) {
				return out, false
			}
			continue
		}
		switch {
		case e.kind == evLog && e.logger == 1 && e.level >= slog.LevelError && strings.Contains(e.msg, "tx timestamp"):
			cur.fbTx = true
		case e.kind == evLog && e.logger == 1 && e.level >= slog.LevelError && strings.Contains(e.msg, "rx timestamp"):
			cur.fbRx = true
		case e.kind == evLog && e.logger == 1 && e.level == slog.LevelDebug && e.hasOff:
			ee := e
			cur.eval = &ee
		case e.kind == evLog && e.logger == 1 && e.level == slog.LevelDebug && e.hasAt:
			cur.recvAt, cur.hasRecv = e.at, true
		case e.kind == evFilter:
			ee := e
			cur.filt = &ee
			cur.end = e.real
			out = append(out, *cur)
			cur = nil
		case e.kind == evLog && e.logger == 0 && e.level >= slog.LevelInfo:
			ee := e
			cur.fail = &ee
			cur.end = e.real
			out = append(out, *cur)
			cur = nil
		}
	}
	return out, cur == nil
}

func t64s(t ntp.Time64) string { return lib.U(uint64(t.Seconds)) + " " + lib.U(uint64(t.Fraction)) }

func refNum(s string) int64 {
	if s == "" {
		return 0
	}
	for i := 0; i < 2; i++ {
		if s == thePeer.addr(i).String() || s == theIA.String()+","+thePeer.addr(i).String() {
			return int64(i + 1)
		}
	}
	return 7
}

func prevStr(p prevSnap) string {
	return lib.L(lib.I(refNum(p.ref)), lib.Bool(p.interleaved), t64s(p.cTx), t64s(p.cRx), t64s(p.sRx))
}

// the client under test: the real IPClient or the real SCIONClient
type cli struct {
	ip   *client.IPClient
	sc   *client.SCIONClient
	zone string // interface name: requests hardware timestamping
}

func (c *cli) obj() any {
	if c.sc != nil {
		return c.sc
	}
	return c.ip
}
func (c *cli) reset() {
	if c.sc != nil {
		c.sc.ResetInterleavedMode()
	} else {
		c.ip.ResetInterleavedMode()
	}
}

const theIA = addr.IA(0x0001_ff00_0000_0110)

func scionRemote(srv int) udp.UDPAddr { return udp.UDPAddr{IA: theIA, Host: thePeer.addr(srv)} }

func (c *cli) measure(ctx context.Context, srv int) (time.Time, time.Duration, error) {
	if c.sc == nil {
		return client.MeasureClockOffsetIP(ctx, log0, c.ip, &net.UDPAddr{IP: localAddr.IP, Zone: c.zone}, thePeer.addr(srv))
	}
	la := udp.UDPAddr{IA: theIA, Host: &net.UDPAddr{IP: append(net.IP(nil), localAddr.IP...), Zone: c.zone}}
	p := spath.Path{Src: theIA, Dst: theIA, DataplanePath: spath.Empty{}, NextHop: thePeer.addr(srv)}
	ts, off, _ := client.MeasureClockOffsetSCION(ctx, log0, []*client.SCIONClient{c.sc}, la, scionRemote(srv), []snet.Path{p})
	if ts.IsZero() {
		return ts, off, errNoMeasurement
	}
	return ts, off, nil
}

var errNoMeasurement = errors.New("no measurement")

// how often the client fell back from a kernel timestamp to a clock reading
var nAttempts, nFbTx, nFbRx int64

func runHistory(w *lib.Writer, hs *histScript) bool {
	c := &cli{}
	if hs.scion {
		c.sc = &client.SCIONClient{Log: log1, InterleavedMode: hs.im, Filter: recFilter{}}
	} else {
		c.ip = &client.IPClient{Log: log1, InterleavedMode: hs.im, Filter: recFilter{}}
	}
	snapPrev := func() prevSnap { return snapPrevOf(c.obj()) }
	rec.snap = snapPrev
	thePeer.begin(hs)
	rec.take()

	tags := map[string]bool{}
	var callsIn, callsOut []string
	totalAttempts := 0
	var allAtt []attObs
	oracleOn := true
	lossSeen, ntHist, racy := false, false, false
	ok := true

	for i, cs := range hs.calls {
		before := snapPrev()
		switch cs.gap {
		case gapShort:
			time.Sleep(time.Duration(1+i%4) * time.Millisecond)
		case gapReal3s:
			if before.ref != "" {
				tags["real3s"] = true
				target := ntp.TimeFromTime64(before.cTx, realNow()).Add(3*time.Second + 20*time.Millisecond)
				if d := target.Sub(realNow()); d > 0 {
					time.Sleep(d)
				}
			}
		}
		if cs.reset {
			c.reset()
			tags["reset"] = true
		}
		if cs.gap == gapFuture {
			v := time.Unix(eraBoundary+cs.delta, int64(i)*1000).UTC()
			rec.mu.Lock()
			rec.override = &v
			rec.mu.Unlock()
			tags["clock2036"] = true
		}
		if cs.gap == gapOverride && before.ref != "" {
			v := ntp.TimeFromTime64(before.cTx, realNow()).Add(3*time.Second + time.Duration(cs.delta))
			rec.mu.Lock()
			rec.override = &v
			rec.mu.Unlock()
			tags["override"] = true
			if cs.delta >= -2 && cs.delta <= 2 {
				tags["edge3s"] = true
			}
		}
		thePeer.setCall(i)
		waits := false
		for k, act := range cs.acts {
			if (hs.im || k == 0) && act.kind.waits() {
				waits = true
			}
		}
		var ctx context.Context
		var cancel context.CancelFunc = func() {}
		var sctx *scriptCtx
		if waits || hs.scion {
			sctx = &scriptCtx{}
			sctx.wait = func() time.Duration {
				// the peer must have dealt with every request sent so far (it may lag behind a
				// client that has already given up on a short deadline) before the class of the
				// next attempt is looked up
				rec.mu.Lock()
				ends := 0
				for _, e := range rec.events {
					if e.kind == evFilter || (e.kind == evLog && e.logger == 0 && e.level >= slog.LevelInfo) {
						ends++
					}
				}
				rec.mu.Unlock()
				thePeer.waitDone(totalAttempts+ends, 5*time.Second)
				d := longWait
				if thePeer.nextWaits() {
					d = dropWait
				}
				thePeer.mu.Lock()
				thePeer.h.deadlineOf[len(thePeer.h.attempts)] = time.Now().Add(d)
				thePeer.mu.Unlock()
				return d
			}
			ctx = sctx
		} else {
			ctx, cancel = context.WithTimeout(context.Background(), longWait)
		}
		ts, off, err := c.measure(ctx, cs.srv)
		cancel()
		rec.mu.Lock()
		rec.override = nil
		rec.mu.Unlock()
		evs := rec.take()
		after := snapPrev()
		atts, complete := parseEvents(evs)
		if !complete {
			ok = false
			break
		}
		totalAttempts += len(atts)
		if !thePeer.waitDone(totalAttempts, 5*time.Second) {
			ok = false
			break
		}
		base := totalAttempts - len(atts)
		thePeer.mu.Lock()
		h := thePeer.h
		var attIn, attOut []string
		for k := range atts {
			at := &atts[k]
			al := h.attempts[base+k]
			tags[actNames[al.act]] = true
			if al.act != aNormal && al.act != aForceBasic {
				lossSeen = true
			}
			nAttempts++
			if at.fbTx {
				nFbTx++
			}
			if at.fbRx {
				nFbRx++
			}
			if at.fbTx || at.fbRx {
				oracleOn = false
				tags["fallback"] = true
			}
			// a scripted datagram of a waiting attempt sent too close to that attempt's deadline
			// makes the run inconclusive
			if dl, has := h.deadlineOf[base+k]; has && al.act.waits() {
				for _, d := range al.dgrams {
					if d.sendReal.After(dl.Add(-dropMargin)) {
						racy = true
					}
				}
			}
			// inputs
			ctx1 := at.now0.real
			if at.filt != nil && at.eval != nil {
				if !at.eval.inter {
					ctx1 = at.filt.t0
				} else {
					cand := ntp.TimeFromTime64(at.filt.prev.cTx, at.now0.val)
					if ntp.Time64FromTime(cand) != at.filt.prev.cTx {
						cand = cand.Add(1)
					}
					ctx1 = cand
				}
			}
			crx := int64(0)
			if at.hasRecv {
				crx = ns(at.recvAt)
			}
			var ds []string
			for _, d := range al.dgrams {
				if d.junk {
					ds = append(ds, lib.L("0"))
				} else {
					dcrx := crx
					if hs.scion && hs.tsopt != 0 {
						// the receive time is an input here: the timestamp option of this datagram
						dcrx = ns(d.sendReal)
					}
					ds = append(ds, lib.L("1", lib.U(uint64(d.pkt.LVM)), lib.U(uint64(d.pkt.Stratum)),
						t64s(d.pkt.OriginTime), t64s(d.pkt.ReceiveTime), t64s(d.pkt.TransmitTime), lib.I(dcrx)))
				}
			}
			attIn = append(attIn, lib.L(lib.I(ns(at.now0.val)), lib.I(ns(ctx1)), lib.L(ds...)))
			// observations
			var resStr string
			switch {
			case at.filt != nil && at.eval != nil:
				resStr = lib.L("1", lib.Bool(at.eval.inter), lib.I(ns(at.filt.t0)), lib.I(ns(at.filt.t1)), lib.I(ns(at.filt.t2)), lib.I(ns(at.filt.t3)),
					lib.I(int64(at.eval.off)), lib.I(int64(at.eval.rtd)), lib.I(ns(at.eval.at)), prevStr(at.filt.prev))
				if at.eval.inter {
					tags["inter"] = true
					if lossSeen {
						ntHist = true
					}
				} else {
					tags["basic"] = true
				}
			case at.fail != nil:
				ec := errClass(at.fail.err)
				if ec == 9 && hs.scion {
					ec = 4 // a SCION packet the client could not decode
				}
				resStr = lib.L("0", lib.I(ec))
				tags[fmt.Sprintf("err%d", ec)] = true
			default:
				resStr = lib.L("3")
			}
			attOut = append(attOut, lib.L(lib.U(uint64(al.req.LVM)), t64s(al.req.OriginTime), t64s(al.req.ReceiveTime), t64s(al.req.TransmitTime), resStr))
			if al.req.ReceiveTime != (ntp.Time64{}) {
				tags["ireq"] = true
			}
		}
		thePeer.mu.Unlock()
		allAtt = append(allAtt, atts...)
		callsIn = append(callsIn, lib.L(lib.Bool(cs.reset), lib.I(int64(cs.srv+1)), lib.L(attIn...)))
		okCall := err == nil
		tsn, offn, ec := int64(0), int64(0), int64(0)
		if okCall {
			tsn, offn = ns(ts), int64(off)
		} else {
			ec = errClass(err)
			if hs.scion {
				ec = 0
			}
		}
		callsOut = append(callsOut, lib.L(lib.L(attOut...), lib.Bool(okCall), lib.I(tsn), lib.I(offn), lib.I(ec), prevStr(after)))
	}
	if !ok {
		return false
	}
	// the scripted exchanges, for the oracle
	thePeer.mu.Lock()
	var xds []string
	for _, hd := range thePeer.h.handlings {
		if hd.attempt >= len(allAtt) {
			continue
		}
		at := allAtt[hd.attempt]
		xds = append(xds, lib.L(lib.I(ns(at.now0.real)), lib.I(ns(hd.srx)), lib.I(ns(hd.stx)), lib.I(int64(hd.theta)), lib.I(ns(at.end))))
		if hd.theta > 365*24*time.Hour || hd.theta < -365*24*time.Hour {
			tags["bigtheta"] = true
		}
		if s := hd.srx.Unix(); s > eraBoundary-5 && s < eraBoundary+5 {
			tags["era2036"] = true
		}
	}
	thePeer.mu.Unlock()
	if racy {
		return false
	}
	if hs.tsopt != 0 {
		tags[fmt.Sprintf("tsopt%d", hs.tsopt)] = true
	}
	if hs.scion {
		tags["scion"] = true
	} else {
		tags["ip"] = true
	}
	if hs.im {
		tags["im"] = true
	} else {
		tags["noim"] = true
	}
	if ntHist {
		tags["nt"] = true
	}
	var tl []string
	for t := range tags {
		tl = append(tl, t)
	}
	args := lib.V(lib.Bool(hs.scion), lib.Bool(hs.im), lib.L(callsIn...), lib.L(xds...), lib.Bool(oracleOn), lib.U(hs.seed))
	w.Case("c03.hist", strings.Join(sortStrings(tl), ","), args, lib.V(callsOut...))
	return true
}

func sortStrings(s []string) []string {
	for i := 1; i < len(s); i++ {
		for j := i; j > 0 && s[j] < s[j-1]; j-- {
			s[j], s[j-1] = s[j-1], s[j]
		}
	}
	return s
}

// c03.fallback: one basic exchange of a client that cannot read kernel
// timestamps (hardware timestamping requested on the loopback interface, which
// has none): udp.ReadTXTimestamp gives up after its 1 ms poll and the client
// takes cTxTime1 = timebase.Now() - after the poll, i.e. about 1 ms after the
// request left.  Same peer, same oracle as c03.hist.
func runFallback(w *lib.Writer, scn bool, theta time.Duration) {
	lim := time.Duration(maxThetaSecs) * time.Second
	if theta > lim || theta < -lim {
		theta = 2 * time.Second
	}
	hs := &histScript{scion: scn, calls: []callScript{{acts: []action{{kind: aNormal, theta: [2]time.Duration{theta, theta}}}}}}
	c := &cli{zone: "lo"}
	if scn {
		c.sc = &client.SCIONClient{Log: log1, Filter: recFilter{}}
	} else {
		c.ip = &client.IPClient{Log: log1, Filter: recFilter{}}
	}
	rec.snap = func() prevSnap { return snapPrevOf(c.obj()) }
	thePeer.begin(hs)
	thePeer.setCall(0)
	rec.take()
	sctx := &scriptCtx{wait: func() time.Duration { return longWait }}
	_, off, err := c.measure(sctx, 0)
	evs := rec.take()
	atts, complete := parseEvents(evs)
	if err != nil || !complete || len(atts) != 1 || atts[0].filt == nil || !atts[0].hasRecv || !thePeer.waitDone(1, 5*time.Second) {
		fmt.Printf("NOTE c03.fallback: exchange not completed (err=%v)\n", err)
		return
	}
	at := atts[0]
	thePeer.mu.Lock()
	defer thePeer.mu.Unlock()
	h := thePeer.h
	if len(h.handlings) != 1 || len(h.attempts[0].dgrams) != 1 {
		return
	}
	hd, d := h.handlings[0], h.attempts[0].dgrams[0]
	tags := "fallback-forced"
	if at.fbTx {
		tags += ",fbtx"
	}
	if at.fbRx {
		tags += ",fbrx"
	}
	f := at.filt
	late := ns(f.t0) - ns(at.now0.real)
	errAbs := int64(off) - int64(theta)
	if errAbs < 0 {
		errAbs = -errAbs
	}
	args := lib.V(lib.Bool(scn), lib.I(ns(at.now0.val)), lib.I(ns(f.t0)),
		lib.L("1", lib.U(uint64(d.pkt.LVM)), lib.U(uint64(d.pkt.Stratum)), t64s(d.pkt.OriginTime), t64s(d.pkt.ReceiveTime), t64s(d.pkt.TransmitTime), lib.I(ns(at.recvAt))),
		lib.I(ns(at.now0.real)), lib.I(ns(hd.srx)), lib.I(ns(hd.stx)), lib.I(int64(hd.theta)), lib.I(ns(at.end)))
	outs := lib.V(lib.I(ns(f.t0)), lib.I(ns(f.t1)), lib.I(ns(f.t2)), lib.I(ns(f.t3)), lib.I(int64(off)), lib.I(late), lib.I(errAbs))
	w.Case("c03.fallback", tags, args, outs)
}

// c03.multi: MeasureClockOffsetSCION with two clients and two paths, one of which
// leads to a next hop that answers every request with garbage at once, so that
// this client's failure is reported before the other client's measurement
// (whose replies the peer delays).  The offset reported for the round must be
// the one successful measurement.
func runMulti(w *lib.Writer, theta time.Duration) {
	bad, err := net.ListenUDP("udp", &net.UDPAddr{IP: localAddr.IP})
	if err != nil {
		panic(err)
	}
	defer bad.Close()
	go func() {
		buf := make([]byte, 2048)
		for {
			_, from, err := bad.ReadFromUDPAddrPort(buf)
			if err != nil {
				return
			}
			bad.WriteToUDPAddrPort([]byte{1, 2, 3}, from)
			bad.WriteToUDPAddrPort([]byte{4, 5, 6, 7}, from)
		}
	}()
	act := action{kind: aNormal, theta: [2]time.Duration{theta, theta}, fwd: [2]time.Duration{15 * time.Millisecond, 0}}
	hs := &histScript{scion: true, im: true, calls: []callScript{{acts: []action{act, act, act}}}}
	cs := []*client.SCIONClient{
		{Log: log1, InterleavedMode: true, Filter: recFilter{}},
		{Log: log1, InterleavedMode: true, Filter: recFilter{}},
	}
	rec.snap = func() prevSnap { return prevSnap{} }
	thePeer.begin(hs)
	thePeer.setCall(0)
	rec.take()
	la := udp.UDPAddr{IA: theIA, Host: &net.UDPAddr{IP: append(net.IP(nil), localAddr.IP...)}}
	ps := []snet.Path{
		spath.Path{Src: theIA, Dst: theIA, DataplanePath: spath.Empty{}, NextHop: thePeer.addr(0)},
		spath.Path{Src: theIA, Dst: theIA, DataplanePath: spath.Empty{}, NextHop: bad.LocalAddr().(*net.UDPAddr)},
	}
	sctx := &scriptCtx{wait: func() time.Duration { return longWait }}
	start := realNow()
	ts, off, merr := client.MeasureClockOffsetSCION(sctx, log0, cs, la, scionRemote(0), ps)
	end := realNow()
	evs := rec.take()
	var last *event
	nfail := 0
	for i := range evs {
		if evs[i].kind == evFilter {
			last = &evs[i]
		}
		if evs[i].kind == evLog && evs[i].logger == 0 && evs[i].level >= slog.LevelInfo {
			nfail++
		}
	}
	time.Sleep(5 * time.Millisecond)
	thePeer.mu.Lock()
	defer thePeer.mu.Unlock()
	if last == nil || nfail < 3 {
		fmt.Printf("NOTE c03.multi: no measurement on the good path or no failure on the other (%d failures)\n", nfail)
		return
	}
	var xds []string
	for _, hd := range thePeer.h.handlings {
		xds = append(xds, lib.L(lib.I(ns(start)), lib.I(ns(hd.srx)), lib.I(ns(hd.stx)), lib.I(int64(hd.theta)), lib.I(ns(end))))
	}
	okv, tsn := merr == nil, int64(0)
	if !ts.IsZero() {
		tsn = ns(ts)
	}
	args := lib.V(lib.I(ns(last.t0)), lib.I(ns(last.t1)), lib.I(ns(last.t2)), lib.I(ns(last.t3)), lib.L(xds...))
	w.Case("c03.multi", "multi,nt", args, lib.V(lib.Bool(okv), lib.I(int64(off)), lib.I(tsn)))
}
