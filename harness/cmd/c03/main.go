// C03: drives the REAL client.IPClient through client.MeasureClockOffsetIP
// against a scripted conformant peer on loopback (peer.go) and records, per
// history of calls, what the client did: the request fields on the wire, the
// four timestamps it combined (recording measurements.Filter), the offset and
// round-trip delay it computed (its log records), the result of every call and
// its state between exchanges (read by reflection).  The case file holds one
// line per history; the extracted model replays it and the property oracle is
// evaluated on the recorded observations (coq/Extract/GlueC03.v).
//
// The parent process starts worker processes (one recording clock per process,
// everything inside a worker is sequential, each worker has its own loopback
// address) and merges their case files.
package main

import (
	"context"
	"crypto/tls"
	"errors"
	"flag"
	"fmt"
	"io"
	"log/slog"
	"net"
	"net/netip"
	"os"
	"os/exec"
	"strings"
	"time"

	"github.com/HdrHistogram/hdrhistogram-go"

	"example.com/scion-time/core/client"
	"example.com/scion-time/core/measurements"
	"example.com/scion-time/core/timebase"
	"example.com/scion-time/net/ntp"
	"example.com/scion-time/net/udp"

	"github.com/scionproto/scion/pkg/addr"
	"github.com/scionproto/scion/pkg/snet"
	spath "github.com/scionproto/scion/pkg/snet/path"

	"verifharness/lib"
)

const (
	numWorkers   = 16
	dropWait     = 150 * time.Millisecond // length of a real loss (1 in 5 silent attempts); no decision hangs on it
	longWait     = 8 * time.Second
	maxTries     = 3                      // a history the harness could not record is run again
	eraBoundary  = int64(2085978496)      // 2036-02-07T06:28:16Z, start of NTP era 1
	maxThetaSecs = int64(60 * 365 * 86400)
)

type gapKind int

const (
	gapNone gapKind = iota
	gapShort
	gapOverride // the client's clock reads exactly 3 s + delta after its previous transmit stamp
	gapReal3s   // wait in real time until the 3 s window has passed
	gapFuture   // the client's clock reads a time after the NTP era rollover of 2036
	gapPause    // a real pause of delta nanoseconds
)

type callScript struct {
	zoneLo bool // this call requests hardware timestamps on lo: its exchanges fall back to the clock
	reset bool
	srv   int
	gap   gapKind
	delta int64
	acts  []action
}

type histScript struct {
	seed  uint64
	scion bool
	tsopt int  // SCION: replies carry a receive-timestamp option (1 software form, 2 hardware form)
	hbh   bool // SCION: replies carry a hop-by-hop option of the same type with a wrong time
	v6    bool // IP over the IPv6 loopback address
	nts   bool // IP with NTS: the server is the one the key exchange names
	im    bool
	lport bool          // the caller configures a non-zero local port (the clients must not use it)
	kind  string        // case kind; "" = c03.hist
	shift time.Duration // the client's clock (timebase) is this far from the clock that stamps the packets
	calls []callScript
	multi map[int]action // c03.multi: the action per server instead of per attempt
}

var worker = flag.Int("worker", -1, "internal: run as worker i")

func main() {
	a := lib.ParseArgs()
	if *worker >= 0 {
		runWorker(a, *worker)
		return
	}
	runParent(a)
}

func counts(tier string) int {
	if tier == "thorough" {
		return 1400
	}
	return 160
}

func runParent(a lib.Args) {
	self, err := os.Executable()
	if err != nil {
		panic(err)
	}
	type res struct {
		out []byte
		err error
	}
	ch := make(chan res, numWorkers)
	files := make([]string, numWorkers)
	for i := 0; i < numWorkers; i++ {
		files[i] = fmt.Sprintf("%s.w%d", a.Out, i)
		args := []string{"-worker", fmt.Sprint(i), "-tier", a.Tier, "-seed", fmt.Sprint(a.Seed), "-out", files[i]}
		if a.Replay != "" {
			args = append(args, "-replay", a.Replay)
		}
		cmd := exec.Command(self, args...)
		go func() {
			out, err := cmd.CombinedOutput()
			ch <- res{out, err}
		}()
	}
	failed := false
	for i := 0; i < numWorkers; i++ {
		r := <-ch
		os.Stdout.Write(r.out)
		if r.err != nil {
			fmt.Println("worker failed:", r.err)
			failed = true
		}
	}
	w := lib.NewWriter(a.Out)
	for _, f := range files {
		data, err := os.ReadFile(f)
		if err != nil {
			continue
		}
		for _, line := range strings.Split(string(data), "\n") {
			if line == "" || line[0] == '#' {
				continue
			}
			p := strings.Split(line, "\t")
			if len(p) == 4 {
				w.Case(p[0], p[1], p[2], p[3])
			}
		}
		os.Remove(f)
	}
	w.Close()
	if failed {
		os.Exit(1)
	}
}

var (
	thePeer    *peer
	localAddr  *net.UDPAddr
	localAddr6 = &net.UDPAddr{IP: net.IPv6loopback}
	log0       = slog.New(recHandler{logger: 0})
	log1       = slog.New(recHandler{logger: 1})
	quiet      = slog.New(slog.NewTextHandler(io.Discard, nil))
)

// what the worker reports about itself at the end (case kind c03.kstamps)
var stat struct {
	attempts, fbTx, fbRx   int64 // ordinary attempts; those whose transmit / receive stamp was a clock reading
	famN, famFb            [3]int64 // ... per family (IPv4, IPv6, SCION), calls that ask for the fallback left out
	histories, dropped     int64 // histories scripted; histories that could not be recorded in maxTries runs
	retried                int64
	shiftFb                int64 // clock-shift histories with a clock fallback: judged by the model only
	portPairs, samePorts   int64 // consecutive requests of one call; those sent from the same source port
}

func runWorker(a lib.Args, wi int) {
	pid := os.Getpid()
	addr := netip.AddrFrom4([4]byte{127, 3, byte(pid >> 8), byte(pid)})
	foreign := netip.AddrFrom4([4]byte{127, 103, byte(pid >> 8), byte(pid)})
	localAddr = &net.UDPAddr{IP: net.IP(addr.AsSlice())}
	timebase.RegisterClock(recClock{})
	thePeer = newPeer(addr, foreign)
	w := lib.NewWriter(a.Out)
	defer w.Close()
	calibrate()

	var seeds []uint64
	if a.Replay != "" {
		lines := lib.ReplayLines(a.Replay)
		for i, l := range lines {
			if i%numWorkers != wi || l[0] != "c03.hist" {
				continue
			}
			f := strings.Fields(l[2])
			seeds = append(seeds, lib.ParseU(f[len(f)-1]))
		}
	} else {
		r := lib.NewRng(a.Seed*1000003 + uint64(wi)*7919 + 17)
		for i := 0; i < counts(a.Tier); i++ {
			seeds = append(seeds, r.U64()>>1)
		}
	}
	// generous: the quick tier takes about 20 s on an idle machine
	budget := 8 * time.Minute
	if a.Tier == "thorough" {
		budget = 35 * time.Minute
	}
	start := time.Now()
	for n, s := range seeds {
		if time.Since(start) > budget {
			fmt.Printf("NOTE worker %d stopped after %d of %d histories (time budget)\n", wi, n, len(seeds))
			break
		}
		stat.histories++
		okRun := false
		for try := 0; try < maxTries && !okRun; try++ {
			if try > 0 {
				stat.retried++
			}
			okRun = runHistory(w, genHistory(s))
		}
		if !okRun {
			stat.dropped++
		}
		if stat.dropped >= 3 && stat.dropped*2 > stat.histories {
			// most histories cannot be recorded: more of them will not change the verdict
			fmt.Printf("NOTE worker %d gave up after %d histories, %d of them not recordable\n", wi, stat.histories, stat.dropped)
			break
		}
	}
	if a.Replay == "" {
		r := lib.NewRng(a.Seed*31 + uint64(wi))
		if wi < 4 {
			for k := 0; k < 2; k++ {
				theta := genThetaBase(r)
				for try := 0; try < maxTries && !runFallback(w, k == 1, theta); try++ {
				}
			}
		}
		if wi == 4 || wi == 5 {
			for try := 0; try < maxTries && !runMulti(w, wi); try++ {
			}
		}
		for v := 0; v < numWindowVariants; v++ {
			for try := 0; try < maxTries && !runHistory(w, genWindow(v, wi)); try++ {
			}
		}
		for k := 0; k < 6; k++ {
			theta := genThetaBase(r)
			for try := 0; try < maxTries && !runNoFilter(w, k%2 == 1, k, theta); try++ {
			}
		}
		w.Case("c03.kstamps", "", lib.V(lib.I(stat.attempts), lib.I(stat.fbTx), lib.I(stat.fbRx),
			lib.I(stat.histories), lib.I(stat.dropped), lib.I(stat.portPairs), lib.I(stat.samePorts),
			lib.I(stat.famN[0]), lib.I(stat.famFb[0]), lib.I(stat.famN[1]), lib.I(stat.famFb[1]), lib.I(stat.famN[2]), lib.I(stat.famFb[2])), "")
	}
	if stat.shiftFb > 0 {
		fmt.Printf("NOTE worker %d: %d clock-shift histories had a clock fallback (kernel timestamp not readable): oracle off for them, model agreement still required\n", wi, stat.shiftFb)
	}
	if stat.dropped > 0 || stat.retried > 0 {
		fmt.Printf("NOTE worker %d: %d histories run again, %d of %d not recorded after %d runs (peer and client disagree on the number of requests, or an unscripted timeout)\n",
			wi, stat.retried, stat.dropped, stat.histories, maxTries)
	}
}

// the error values of core/client, learnt from exchanges whose outcome is scripted
func calibrate() {
	one := func(kind actKind, junk int, class int64) {
		for try := 0; try < maxTries; try++ {
			act := action{kind: kind, junk: junk}
			hs := &histScript{calls: []callScript{{acts: []action{act}}}}
			c := &client.IPClient{Log: quiet, Filter: recFilter{}}
			rec.snap = func() prevSnap { return prevSnap{} }
			thePeer.begin(hs)
			thePeer.setCall(0)
			ctx, cancel := context.WithTimeout(context.Background(), longWait)
			_, _, err := client.MeasureClockOffsetIP(ctx, quiet, c, &net.UDPAddr{IP: localAddr.IP}, thePeer.addr(0))
			cancel()
			rec.take()
			thePeer.waitDone(1, longWait)
			if err != nil && errClass(err) != 1 {
				learn(err, class)
				return
			}
		}
	}
	one(aTwoStale, 0, 2)
	one(aTwoJunk, junkForeign, 4)
	one(aTwoJunk, junkOversize, 4)
}

// ---- generation ----
func genThetaBase(r *lib.Rng) time.Duration {
	sign := time.Duration(1)
	if r.Bool() {
		sign = -1
	}
	switch r.Intn(9) {
	case 0:
		return 0
	case 1:
		return sign * time.Duration(r.Range(1, 999))
	case 2:
		return sign * time.Duration(r.Range(1, 999)) * time.Microsecond
	case 3:
		return sign * time.Duration(r.Range(1, 999)) * time.Millisecond
	case 4:
		return sign * time.Duration(r.Range(1, 3600)) * time.Second
	case 5:
		return sign * time.Duration(r.Range(1, 24*365)) * time.Hour
	case 6:
		return sign * time.Duration(r.Range(1, maxThetaSecs)) * time.Second
	case 7:
		// the peer's clock sits at the NTP era boundary of 2036
		return time.Duration(eraBoundary-time.Now().Unix())*time.Second + time.Duration(r.Range(-2000, 2000))*time.Millisecond
	default:
		return sign*time.Duration(r.Range(0, maxThetaSecs))*time.Second + time.Duration(r.Range(0, 999999999))
	}
}

func genDelay(r *lib.Rng) time.Duration {
	switch r.Intn(8) {
	case 0:
		return time.Duration(r.Range(1, 400)) * time.Microsecond
	case 1:
		return time.Duration(r.Range(1, 4)) * time.Millisecond
	default:
		return 0
	}
}

func genHistory(seed uint64) *histScript {
	r := lib.NewRng(seed)
	hs := &histScript{seed: seed, im: r.Intn(8) != 0, scion: r.Intn(100) < 35}
	if hs.scion {
		hs.tsopt = r.Intn(3)
		hs.hbh = r.Intn(4) == 0
	} else {
		switch x := r.Intn(100); {
		case x < 15:
			hs.v6 = true
		case x < 32:
			hs.nts = true
		}
	}
	hs.lport = r.Intn(5) < 2
	base := genThetaBase(r)
	mode := r.Intn(4) // 0 constant, 1 jitter, 2 steps between exchanges, 3 unrelated per exchange
	cur := base
	nextTheta := func() time.Duration {
		switch mode {
		case 1:
			cur = base + time.Duration(r.Range(-20000, 20000))
		case 2:
			if r.Intn(2) == 0 {
				cur += time.Duration(r.Range(-5000, 5000)) * time.Millisecond
			}
		case 3:
			cur = genThetaBase(r)
		}
		lim := time.Duration(maxThetaSecs+86400) * time.Second
		if cur > lim {
			cur = lim
		}
		if cur < -lim {
			cur = -lim
		}
		return cur
	}
	ncalls := 2 + r.Intn(6)
	adversarial := r.Intn(3) // 0: calm, 1: some, 2: heavy
	real3s := r.Intn(10) == 0    // at most one real 3 s pause, in few histories
	for i := 0; i < ncalls; i++ {
		cs := callScript{}
		if i > 0 {
			switch x := r.Intn(100); {
			case x < 45:
				cs.gap = gapNone
			case x < 55:
				cs.gap = gapShort
			case x < 60:
				cs.gap = gapFuture
				cs.delta = lib.Pick(r, int64(0), 1, 3, 86400, 365*86400, r.Range(0, 50*365*86400), r.Range(0, 100000))
			case x < 98:
				cs.gap = gapOverride
				cs.delta = lib.Pick(r, int64(0), 0, 1, 1, -1, 2, -2, 1000, -1000, 1000000000, -1000000000, 999999999, -2999999999, r.Range(-3000000, 3000000))
			default:
				cs.gap = gapNone
				if real3s {
					cs.gap, real3s = gapReal3s, false
				}
			}
			cs.reset = r.Intn(12) == 0
			cs.zoneLo = hs.im && r.Intn(16) == 0
		}
		if r.Intn(7) == 0 {
			cs.srv = 1
		}
		if i > 0 && r.Intn(3) != 0 {
			cs.srv = hs.calls[i-1].srv
		}
		for k := 0; k < 3; k++ {
			act := action{kind: aNormal, meta: r.Intn(1 << 20)}
			p := []int{10, 35, 65}[adversarial]
			if r.Intn(100) < p {
				act.kind = actKind(1 + r.Intn(int(numActKinds)-1))
			}
			act.junk = r.Intn(3)
			if hs.scion && act.kind == aTwoJunk {
				act.junk = junkShort // a SCION datagram from another AS is an "unexpected packet", not junk, when it ends the attempt
			}
			act.unblock = r.Intn(5) != 0
			if hs.nts {
				// replies of other exchanges fail the NTS checks before the NTP fields are looked at: C05/C10
				switch act.kind {
				case aStaleFirst, aTwoStale, aStaleOnly, aForeignFirst:
					act.kind = aNormal
				}
				act.unblock = true
			}
			for j := 0; j < 2; j++ {
				act.theta[j] = nextTheta()
				act.fwd[j] = genDelay(r)
				act.back[j] = genDelay(r)
			}
			cs.acts = append(cs.acts, act)
		}
		if cs.gap == gapFuture {
			// every stamp of the call must stay within 2^31 s of the client's clock reading
			ahead := eraBoundary + cs.delta - time.Now().Unix()
			for _, act := range cs.acts {
				for _, th := range act.theta {
					d := int64(th/time.Second) - ahead
					if d < -(1<<31)+86400 || d > (1<<31)-86400 {
						cs.gap = gapNone
					}
				}
			}
		}
		hs.calls = append(hs.calls, cs)
	}
	return hs
}

// c03.window: the server's clock sits at the edge of the window of 2^31 s around the
// client's clock reading within which NTP timestamps are unfolded, or the
// client's clock is far from the clock that stamps the packets.  What the code must
// use as the reference of the unfolding is the clock reading cTxTime0 of the
// CURRENT exchange:
//  0..3  interleaved evaluation across whole-second boundaries: exchange 2 (interleaved
//        request) is handled by the server with its clock 2^31 s + 0.2 s ahead
//        (2^31 s - 3.2 s behind) of the client; its stamps are evaluated by the next
//        call, whose clock reading is 3 s - 1 ns after exchange 2's transmit stamp:
//        they lie in the last seconds of THAT window - and outside the window
//        around the transmit stamp of exchange 2 itself; IP and SCION;
//  4..6  the client's clock (timebase) reads 70 years ahead of (behind) the clock the
//        kernel stamps packets with, the server agrees with the client's clock:
//        the server's stamps are within reach of cTxTime0 and out of reach of the
//        kernel transmit stamp cTxTime1; basic mode (the stored client stamps of
//        interleaved mode would be out of reach of cTxTime0 themselves);
//  7     as 0, with a real pause of 2.2 s instead of a scripted clock reading.
//  8..11 the client's clock reads 1980 / 2000 / 2024 (a clock that was never set), the
//        server is 47..68 years behind it (45 years ahead), still within the window; IP and SCION.
const numWindowVariants = 12

func genWindow(v, wi int) *histScript {
	const W = time.Duration(1<<31) * time.Second
	ms := time.Millisecond
	jit := time.Duration(wi*7919+v*104729) * time.Microsecond % (50 * ms)
	norm := func(th time.Duration) action { return action{kind: aNormal, theta: [2]time.Duration{th, th}} }
	hs := &histScript{seed: uint64(v), kind: "c03.window", im: true, scion: v == 1 || v == 3 || v == 4 || v == 6, lport: (v+wi)%2 == 0}
	switch v {
	case 0, 1, 2, 3, 7:
		inside, edge := W-10*time.Second-jit, W+200*ms+jit
		if v == 2 || v == 3 {
			inside, edge = -W+10*time.Second+jit, -W+3200*ms+jit
		}
		c1 := callScript{acts: []action{norm(inside), norm(edge), norm(inside)}}
		c2 := callScript{gap: gapOverride, delta: -1, acts: []action{norm(inside), norm(inside), norm(inside)}}
		if v == 7 {
			c2.gap, c2.delta = gapPause, int64(2200*ms)
		}
		c3 := callScript{acts: []action{norm(inside), norm(inside), norm(inside)}}
		hs.calls = []callScript{c1, c2, c3}
	case 8, 9, 10, 11:
		hs.im = false
		hs.scion = v == 9 || v == 11
		year := time.Duration(365*86400) * time.Second
		at := []time.Time{time.Date(1980, 3, 1, 0, 0, 0, 0, time.UTC), time.Date(2000, 7, 1, 0, 0, 0, 0, time.UTC),
			time.Date(2024, 6, 1, 0, 0, 0, 0, time.UTC), time.Date(2000, 2, 1, 0, 0, 0, 0, time.UTC)}[v-8]
		hs.shift = at.Sub(time.Now()) + time.Duration(wi)*time.Hour
		d := []time.Duration{-47 * year, -50 * year, -67*year - 300*24*time.Hour, 45 * year}[v-8]
		for i := 0; i < 3; i++ {
			th := hs.shift + d + time.Duration(i)*jit
			hs.calls = append(hs.calls, callScript{acts: []action{norm(th), norm(th), norm(th)}})
		}
	default:
		hs.im = false
		hs.shift = time.Duration(70*365*86400+wi*3600) * time.Second
		if v == 6 {
			hs.shift = -hs.shift
		}
		for i := 0; i < 3; i++ {
			th := hs.shift + time.Duration(i)*jit - jit
			hs.calls = append(hs.calls, callScript{acts: []action{norm(th), norm(th), norm(th)}})
		}
	}
	return hs
}

// ---- running one history ----
type attObs struct {
	now0    event
	fbTxVal time.Time // the clock reading taken instead of the kernel transmit stamp
	fbTx    bool
	fbRx    bool
	recvAt  time.Time
	hasRecv bool
	eval    *event
	filt    *event
	fail    *event
	end     time.Time
}

// Cuts the event list of one call into exchange attempts.  An attempt starts with
// the client's clock reading cTxTime0 and ends with the call of the measurement
// filter (accepted) or with a record of level Info on the logger handed to
// MeasureClockOffset* (failed).  The client's own log records are used where they
// exist (clock fallback, receive time, offset and delay as computed); nothing
// breaks when their wording changes.
func parseEvents(evs []event) ([]attObs, bool) {
	var out []attObs
	var cur *attObs
	prevNow := false
	for i := range evs {
		e := evs[i]
		wasNow := prevNow
		prevNow = e.kind == evNow
		if cur == nil {
			if e.kind == evNow {
				cur = &attObs{now0: e}
			} else if e.kind == evFilter || (e.kind == evLog && e.logger == 0 && e.level >= slog.LevelInfo) {
				return out, false
			}
			continue
		}
		switch {
		case e.kind == evLog && e.logger == 1 && e.level >= slog.LevelError && wasNow:
			// a clock reading followed by an error record: a kernel timestamp was not available
			switch {
			case strings.Contains(e.msg, "rx"):
				cur.fbRx = true
			case strings.Contains(e.msg, "tx"):
				cur.fbTx, cur.fbTxVal = true, evs[i-1].val
			default:
				cur.fbTx, cur.fbRx = true, true
				if cur.fbTxVal.IsZero() {
					cur.fbTxVal = evs[i-1].val
				}
			}
		case e.kind == evLog && e.logger == 1 && e.level == slog.LevelDebug && e.hasOff:
			ee := e
			cur.eval = &ee
		case e.kind == evLog && e.logger == 1 && e.level == slog.LevelDebug && e.hasAt:
			cur.recvAt, cur.hasRecv = e.at, true
		case e.kind == evFilter:
			ee := e
			cur.filt = &ee
			cur.end = e.real
			out = append(out, *cur)
			cur = nil
		case e.kind == evLog && e.logger == 0 && e.level >= slog.LevelInfo:
			ee := e
			cur.fail = &ee
			cur.end = e.real
			out = append(out, *cur)
			cur = nil
		}
	}
	return out, cur == nil
}

func t64s(t ntp.Time64) string { return lib.U(uint64(t.Seconds)) + " " + lib.U(uint64(t.Fraction)) }

func refNum(s string) int64 {
	if s == "" {
		return 0
	}
	for i := 0; i < 2; i++ {
		for _, a := range []*net.UDPAddr{thePeer.addr(i), thePeer.addr6(i)} {
			if s == a.String() || s == theIA.String()+","+a.String() {
				return int64(i + 1)
			}
		}
	}
	return 7
}

func prevStr(p prevSnap) string {
	return lib.L(lib.I(refNum(p.ref)), lib.Bool(p.interleaved), t64s(p.cTx), t64s(p.cRx), t64s(p.sRx))
}

// a time whose Time64 value is x (the model needs some such time, not the exact one)
func timeOf64(x ntp.Time64, ref time.Time) time.Time {
	cand := ntp.TimeFromTime64(x, ref)
	if ntp.Time64FromTime(cand) != x {
		cand = cand.Add(1)
	}
	return cand
}

// the client under test: the real IPClient or the real SCIONClient
type cli struct {
	ip   *client.IPClient
	sc   *client.SCIONClient
	zone string // interface name: requests hardware timestamping
	v6   bool
	nts  bool
	port int // configured local port
}

func (c *cli) obj() any {
	if c.sc != nil {
		return c.sc
	}
	return c.ip
}
func (c *cli) reset() {
	if c.sc != nil {
		c.sc.ResetInterleavedMode()
	} else {
		c.ip.ResetInterleavedMode()
	}
}

const theIA = addr.IA(0x0001_ff00_0000_0110)

func scionRemote(srv int) udp.UDPAddr { return udp.UDPAddr{IA: theIA, Host: thePeer.addr(srv)} }

func (c *cli) measure(ctx context.Context, srv int) (time.Time, time.Duration, error) {
	if c.sc == nil {
		la, ra := &net.UDPAddr{IP: localAddr.IP, Zone: c.zone, Port: c.port}, thePeer.addr(srv)
		if c.v6 {
			la, ra = &net.UDPAddr{IP: localAddr6.IP, Port: c.port}, thePeer.addr6(srv)
		}
		if c.nts {
			ra = thePeer.addr(0) // the configured address; the key exchange decides
		}
		return client.MeasureClockOffsetIP(ctx, log0, c.ip, la, ra)
	}
	la := udp.UDPAddr{IA: theIA, Host: &net.UDPAddr{IP: append(net.IP(nil), localAddr.IP...), Zone: c.zone, Port: c.port}}
	p := spath.Path{Src: theIA, Dst: theIA, DataplanePath: spath.Empty{}, NextHop: thePeer.addr(srv)}
	ts, off, err := client.MeasureClockOffsetSCION(ctx, log0, []*client.SCIONClient{c.sc}, la, scionRemote(srv), []snet.Path{p})
	if err == nil && ts.IsZero() {
		err = errNoMeasurement
	}
	return ts, off, err
}

var errNoMeasurement = errors.New("no measurement")

// a port that is free right now, for a caller that "configures" its local port
func freePort(v6 bool) int {
	ip := localAddr.IP
	if v6 {
		ip = localAddr6.IP
	}
	c, err := net.ListenUDP("udp", &net.UDPAddr{IP: ip})
	if err != nil {
		return 0
	}
	defer c.Close()
	return c.LocalAddr().(*net.UDPAddr).Port
}

func newClient(hs *histScript, filter bool) *cli {
	c := &cli{v6: hs.v6, nts: hs.nts}
	if hs.lport {
		c.port = freePort(hs.v6)
	}
	var f measurements.Filter
	if filter {
		f = recFilter{}
	}
	if hs.scion {
		c.sc = &client.SCIONClient{Log: log1, InterleavedMode: hs.im, Filter: f}
	} else {
		c.ip = &client.IPClient{Log: log1, InterleavedMode: hs.im, Filter: f}
		if hs.nts {
			c.ip.Auth.Enabled = true
			ke := &c.ip.Auth.NTSKEFetcher
			ke.Log = quiet
			ke.TLSConfig.InsecureSkipVerify = true
			ke.TLSConfig.ServerName = thePeer.ke.addr.String()
			ke.TLSConfig.MinVersion = tls.VersionTLS13
			ke.Port = fmt.Sprint(thePeer.ke.port)
		}
	}
	return c
}

func runHistory(w *lib.Writer, hs *histScript) bool {
	c := newClient(hs, true)
	snapPrev := func() prevSnap { return snapPrevOf(c.obj()) }
	rec.snap = snapPrev
	thePeer.begin(hs)
	rec.mu.Lock()
	rec.shift = hs.shift
	rec.mu.Unlock()
	defer func() {
		rec.mu.Lock()
		rec.shift = 0
		rec.mu.Unlock()
	}()
	rec.take()

	tags := map[string]bool{}
	var callsIn, callsOut []string
	totalAttempts := 0
	var allAtt []attObs
	lossSeen, ntHist := false, false
	var hAttempts, hFbTx, hFbRx, hPairs, hSame int64
	var hFamN, hFamFb [3]int64
	shiftFb := false

	for i, cs := range hs.calls {
		before := snapPrev()
		switch cs.gap {
		case gapShort:
			time.Sleep(time.Duration(1+i%4) * time.Millisecond)
		case gapPause:
			time.Sleep(time.Duration(cs.delta))
		case gapReal3s:
			if before.ref != "" {
				tags["real3s"] = true
				target := ntp.TimeFromTime64(before.cTx, realNow()).Add(3*time.Second + 20*time.Millisecond)
				if d := target.Sub(realNow()); d > 0 {
					if d > 4*time.Second {
						d = 4 * time.Second // whatever the client stored, the harness does not wait longer
					}
					time.Sleep(d)
				}
			}
		}
		if cs.reset {
			c.reset()
			tags["reset"] = true
		}
		if cs.gap == gapFuture {
			v := time.Unix(eraBoundary+cs.delta, int64(i)*1000).UTC()
			rec.mu.Lock()
			rec.override = &v
			rec.mu.Unlock()
			tags["clock2036"] = true
		}
		if cs.gap == gapOverride && before.ref != "" {
			v := ntp.TimeFromTime64(before.cTx, realNow()).Add(3*time.Second + time.Duration(cs.delta))
			rec.mu.Lock()
			rec.override = &v
			rec.mu.Unlock()
			tags["override"] = true
			if cs.delta >= -2 && cs.delta <= 2 {
				tags["edge3s"] = true
			}
		}
		thePeer.setCall(i)
		if hs.nts {
			thePeer.ke.setAnnounce(cs.srv)
		}
		waits := false
		for k, act := range cs.acts {
			if (hs.im || k == 0) && act.waits() {
				waits = true
			}
		}
		var ctx context.Context
		var cancel context.CancelFunc = func() {}
		if waits || hs.scion {
			sctx := &scriptCtx{}
			sctx.wait = func() time.Duration {
				// the peer must have dealt with every request sent so far (it may lag behind a
				// client that has already given up on a short deadline) before the class of the
				// next attempt is looked up
				rec.mu.Lock()
				ends := 0
				for _, e := range rec.events {
					if e.kind == evFilter || (e.kind == evLog && e.logger == 0 && e.level >= slog.LevelInfo) {
						ends++
					}
				}
				rec.mu.Unlock()
				thePeer.waitDone(totalAttempts+ends, longWait)
				if thePeer.nextWaits() {
					return dropWait
				}
				return longWait
			}
			ctx = sctx
		} else {
			ctx, cancel = context.WithTimeout(context.Background(), longWait)
		}
		c.zone = ""
		if cs.zoneLo || (os.Getenv("C03_FORCE_FALLBACK") != "" && hs.kind == "c03.window") {
			c.zone = "lo"
			tags["fallback-midchain"] = true
		}
		ts, off, err := c.measure(ctx, cs.srv)
		cancel()
		rec.mu.Lock()
		rec.override = nil
		rec.mu.Unlock()
		evs := rec.take()
		after := snapPrev()
		atts, complete := parseEvents(evs)
		if !complete {
			return false
		}
		totalAttempts += len(atts)
		if !thePeer.waitDone(totalAttempts, longWait) {
			return false
		}
		base := totalAttempts - len(atts)
		lastOK := -1
		for k := range atts {
			if atts[k].filt != nil {
				lastOK = k
			}
		}
		thePeer.mu.Lock()
		h := thePeer.h
		var attIn, attOut []string
		for k := range atts {
			at := &atts[k]
			al := h.attempts[base+k]
			act := action{kind: al.act}
			if k < len(cs.acts) {
				act = cs.acts[k]
			}
			tags[actNames[al.act]] = true
			if al.act != aNormal && al.act != aForceBasic {
				lossSeen = true
			}
			if act.kind.silent() && act.unblock {
				tags["unblocked"] = true
			}
			hAttempts++
			if !cs.zoneLo {
				fam := 0
				if hs.v6 {
					fam = 1
				} else if hs.scion {
					fam = 2
				}
				hFamN[fam]++
				if at.fbTx {
					hFamFb[fam]++
				}
			}
			if at.fbTx {
				hFbTx++
			}
			if at.fbRx {
				hFbRx++
			}
			if at.fbTx || at.fbRx {
				tags["fallback"] = true
				if hs.shift != 0 {
					// the client's clock and the clock that stamps the packets are decades apart in
					// this history: an exchange that mixes a clock reading with kernel stamps has no
					// meaningful bracket; the model still has to agree with what the client did
					shiftFb = true
					tags["clockshift-fallback"] = true
				}
			}
			if k > 0 {
				hPairs++
				if al.port == h.attempts[base+k-1].port {
					hSame++
				}
			}
			// a timeout although something decisive had been sent: the machine, not the client
			if at.fail != nil && errClass(at.fail.err) == 1 && !act.waits() {
				thePeer.mu.Unlock()
				return false
			}
			accepted := at.filt != nil
			inter := false
			if accepted {
				if at.eval != nil {
					inter = at.eval.inter
				} else {
					inter = hs.im && at.filt.prev.interleaved
				}
			}
			// inputs of the model: the clock reading, the transmit stamp, the reference, the datagrams
			ctx1 := at.now0.real
			if at.fbTx && !at.fbTxVal.IsZero() {
				ctx1 = at.fbTxVal
			}
			crxT := at.end
			if at.hasRecv {
				crxT = at.recvAt
			}
			if accepted {
				if !inter {
					ctx1, crxT = at.filt.t0, at.filt.t3
				} else {
					ctx1 = timeOf64(at.filt.prev.cTx, at.now0.val)
					switch {
					case k == lastOK && err == nil:
						crxT = ts
					case at.hasRecv:
					default:
						crxT = timeOf64(at.filt.prev.cRx, at.now0.val)
					}
				}
			}
			ref := int64(cs.srv + 1)
			if hs.nts {
				ref = int64(al.keSrv + 1)
			}
			var ds []string
			for _, d := range al.dgrams {
				if d.junk {
					ds = append(ds, lib.L("0"))
				} else {
					dcrx := ns(crxT)
					if hs.scion && hs.tsopt != 0 {
						// the receive time is an input here: the timestamp option of this datagram
						dcrx = ns(d.sendReal)
					}
					ds = append(ds, lib.L("1", lib.U(uint64(d.pkt.LVM)), lib.U(uint64(d.pkt.Stratum)),
						t64s(d.pkt.OriginTime), t64s(d.pkt.ReceiveTime), t64s(d.pkt.TransmitTime), lib.I(dcrx)))
				}
			}
			attIn = append(attIn, lib.L(lib.I(ns(at.now0.val)), lib.I(ns(ctx1)), lib.I(ref), lib.L(ds...)))
			// observations
			var resStr string
			switch {
			case accepted:
				f := at.filt
				offObs, rtdObs := ntp.ClockOffset(f.t0, f.t1, f.t2, f.t3), ntp.RoundTripDelay(f.t0, f.t1, f.t2, f.t3)
				atObs := crxT
				if at.eval != nil {
					offObs, rtdObs = at.eval.off, at.eval.rtd
					if at.eval.hasAt {
						atObs = at.eval.at
					}
				} else {
					tags["nolog"] = true
				}
				if hs.scion && hs.tsopt != 0 && !at.hasRecv && at.eval == nil {
					atObs = crxT
				}
				resStr = lib.L("1", lib.Bool(inter), lib.I(ns(f.t0)), lib.I(ns(f.t1)), lib.I(ns(f.t2)), lib.I(ns(f.t3)),
					lib.I(int64(offObs)), lib.I(int64(rtdObs)), lib.I(ns(atObs)), prevStr(f.prev))
				if inter {
					tags["inter"] = true
					if lossSeen {
						ntHist = true
					}
				} else {
					tags["basic"] = true
				}
			case at.fail != nil:
				ec := errClass(at.fail.err)
				if ec == 9 && (hs.scion || hs.nts) {
					ec = 4 // a packet the client could not decode or authenticate
				}
				resStr = lib.L("0", lib.I(ec))
				tags[fmt.Sprintf("err%d", ec)] = true
			default:
				resStr = lib.L("3")
			}
			// the receive time the client worked with cannot precede the departure of the
			// first datagram of this attempt
			rxok := true
			if (accepted || at.hasRecv) && len(al.dgrams) > 0 {
				first := al.dgrams[0].sendReal
				for _, d := range al.dgrams {
					if d.sendReal.Before(first) {
						first = d.sendReal
					}
				}
				cmp := crxT
				if at.fbRx {
					// a receive time read from the client's clock is in that clock's time base
					cmp = crxT.Add(-hs.shift)
				}
				rxok = !cmp.Before(first.Add(-time.Microsecond))
			}
			attOut = append(attOut, lib.L(lib.I(int64(al.srv+1)), lib.Bool(rxok), lib.U(uint64(al.req.LVM)), t64s(al.req.OriginTime), t64s(al.req.ReceiveTime), t64s(al.req.TransmitTime), resStr))
			if al.req.ReceiveTime != (ntp.Time64{}) {
				tags["ireq"] = true
			}
			if hs.nts && al.keSrv != 0 {
				tags["ke-other-server"] = true
			}
		}
		thePeer.mu.Unlock()
		allAtt = append(allAtt, atts...)
		callsIn = append(callsIn, lib.L(lib.Bool(cs.reset), lib.L(attIn...)))
		okCall := err == nil
		tsn, offn, ec := int64(0), int64(0), int64(0)
		if okCall {
			tsn, offn = ns(ts), int64(off)
		} else {
			ec = errClass(err)
			if hs.scion {
				ec = 0
			} else if ec == 9 && hs.nts {
				ec = 4
			}
		}
		callsOut = append(callsOut, lib.L(lib.L(attOut...), lib.Bool(okCall), lib.I(tsn), lib.I(offn), lib.I(ec), prevStr(after)))
	}
	// the scripted exchanges, for the oracle
	thePeer.mu.Lock()
	var xds []string
	for _, hd := range thePeer.h.handlings {
		if hd.attempt >= len(allAtt) {
			continue
		}
		at := allAtt[hd.attempt]
		xds = append(xds, lib.L(lib.I(ns(at.now0.real)), lib.I(ns(hd.srx)), lib.I(ns(hd.stx)), lib.I(int64(hd.theta)), lib.I(ns(at.end)),
			lib.Bool(at.fbTx || at.fbRx)))
		if hd.theta > 365*24*time.Hour || hd.theta < -365*24*time.Hour {
			tags["bigtheta"] = true
		}
		if s := hd.srx.Unix(); s > eraBoundary-5 && s < eraBoundary+5 {
			tags["era2036"] = true
		}
	}
	thePeer.mu.Unlock()
	if shiftFb {
		stat.shiftFb++
	}
	stat.attempts += hAttempts
	for i := range hFamN {
		stat.famN[i] += hFamN[i]
		stat.famFb[i] += hFamFb[i]
	}
	stat.fbTx += hFbTx
	stat.fbRx += hFbRx
	stat.portPairs += hPairs
	stat.samePorts += hSame
	for t, on := range map[string]bool{"scion": hs.scion, "ip": !hs.scion, "ipv6": hs.v6, "nts": hs.nts, "hbhopt": hs.hbh,
		"im": hs.im, "noim": !hs.im, "nt": ntHist, "localport": hs.lport, "clockshift": hs.shift != 0, fmt.Sprintf("tsopt%d", hs.tsopt): hs.tsopt != 0} {
		if on {
			tags[t] = true
		}
	}
	var tl []string
	for t := range tags {
		tl = append(tl, t)
	}
	args := lib.V(lib.Bool(hs.scion), lib.Bool(hs.im), lib.L(callsIn...), lib.L(xds...), lib.Bool(!shiftFb), lib.U(hs.seed))
	kind := hs.kind
	if kind == "" {
		kind = "c03.hist"
	}
	w.Case(kind, strings.Join(sortStrings(tl), ","), args, lib.V(callsOut...))
	return true
}

func sortStrings(s []string) []string {
	for i := 1; i < len(s); i++ {
		for j := i; j > 0 && s[j] < s[j-1]; j-- {
			s[j], s[j-1] = s[j-1], s[j]
		}
	}
	return s
}

// one basic exchange with the scripted peer; returns what the harness saw of it
type oneExchange struct {
	at       attObs
	hd       handling
	d        sentDgram
	off      time.Duration
	ts       time.Time
	err      error
	hasEvent bool
}

func runOne(c *cli, hs *histScript) (oneExchange, bool) {
	var x oneExchange
	rec.snap = func() prevSnap { return snapPrevOf(c.obj()) }
	thePeer.begin(hs)
	thePeer.setCall(0)
	rec.take()
	sctx := &scriptCtx{wait: func() time.Duration { return longWait }}
	x.ts, x.off, x.err = c.measure(sctx, 0)
	evs := rec.take()
	if !thePeer.waitDone(1, longWait) {
		return x, false
	}
	for _, e := range evs {
		if e.kind == evNow {
			x.at.now0, x.hasEvent = e, true
			break
		}
	}
	if atts, complete := parseEvents(evs); complete && len(atts) == 1 {
		x.at = atts[0]
	}
	thePeer.mu.Lock()
	defer thePeer.mu.Unlock()
	h := thePeer.h
	if x.err != nil || !x.hasEvent || len(h.handlings) != 1 || len(h.attempts) != 1 || len(h.attempts[0].dgrams) != 1 {
		return x, false
	}
	x.hd, x.d = h.handlings[0], h.attempts[0].dgrams[0]
	return x, true
}

func dgramStr(d sentDgram, crx time.Time) string {
	return lib.L("1", lib.U(uint64(d.pkt.LVM)), lib.U(uint64(d.pkt.Stratum)), t64s(d.pkt.OriginTime), t64s(d.pkt.ReceiveTime), t64s(d.pkt.TransmitTime), lib.I(ns(crx)))
}

// c03.fallback: one basic exchange of a client that cannot read kernel
// timestamps (hardware timestamping requested on the loopback interface, which
// has none): udp.ReadTXTimestamp gives up after its 1 ms poll and the client
// takes cTxTime1 = timebase.Now() - after the poll, i.e. about 1 ms after the
// request left.  Same peer, same strict oracle as c03.hist.  On a machine where
// the kernel still delivers timestamps the case is an ordinary exchange.
func runFallback(w *lib.Writer, scn bool, theta time.Duration) bool {
	lim := time.Duration(maxThetaSecs) * time.Second
	if theta > lim || theta < -lim {
		theta = 2 * time.Second
	}
	hs := &histScript{scion: scn, calls: []callScript{{acts: []action{{kind: aNormal, theta: [2]time.Duration{theta, theta}}}}}}
	c := newClient(hs, true)
	c.zone = "lo"
	x, ok := runOne(c, hs)
	if !ok || x.at.filt == nil {
		fmt.Printf("NOTE c03.fallback: exchange not completed (err=%v)\n", x.err)
		return false
	}
	tags := "fallback-forced"
	if x.at.fbTx {
		tags += ",fbtx"
	}
	if x.at.fbRx {
		tags += ",fbrx"
	}
	f := x.at.filt
	late := ns(f.t0) - ns(x.at.now0.real)
	errAbs := int64(x.off) - int64(theta)
	if errAbs < 0 {
		errAbs = -errAbs
	}
	args := lib.V(lib.Bool(scn), lib.I(ns(x.at.now0.val)), lib.I(ns(f.t0)), dgramStr(x.d, f.t3),
		lib.I(ns(x.at.now0.real)), lib.I(ns(x.hd.srx)), lib.I(ns(x.hd.stx)), lib.I(int64(x.hd.theta)), lib.I(ns(x.at.end)))
	outs := lib.V(lib.I(ns(f.t0)), lib.I(ns(f.t1)), lib.I(ns(f.t2)), lib.I(ns(f.t3)), lib.I(int64(x.off)), lib.I(late), lib.I(errAbs))
	w.Case("c03.fallback", tags, args, outs)
	return true
}

// c03.nofilter: one basic exchange of a client WITHOUT a measurement filter (the
// tool and benchmark modes): the offset returned is the client's own `off`; with
// a histogram, which must then hold the round-trip delay of this exchange.  The
// four stamps are not observable; the transmit stamp is the one that explains the
// offset returned, and it has to lie in the bracket of the exchange.
func runNoFilter(w *lib.Writer, scn bool, k int, theta time.Duration) bool {
	lim := time.Duration(maxThetaSecs) * time.Second
	if theta > lim || theta < -lim || (theta < time.Millisecond && theta > -time.Millisecond) {
		theta = time.Duration(3+k) * time.Second
	}
	act := action{kind: aNormal, theta: [2]time.Duration{theta, theta}}
	if k >= 2 {
		act.fwd[0] = time.Duration(k) * 300 * time.Microsecond
	}
	if k >= 4 {
		act.back[0] = time.Duration(k) * 500 * time.Microsecond
	}
	hs := &histScript{scion: scn, v6: !scn && k == 4, calls: []callScript{{acts: []action{act}}}}
	c := newClient(hs, false)
	hist := hdrhistogram.New(1, 3600_000_000, 4)
	if scn {
		c.sc.Histogram = hist
	} else {
		c.ip.Histogram = hist
	}
	x, ok := runOne(c, hs)
	if !ok {
		fmt.Printf("NOTE c03.nofilter: exchange not completed (err=%v)\n", x.err)
		return false
	}
	end := realNow()
	tags := "nofilter,histogram"
	if scn {
		tags += ",scion"
	} else if hs.v6 {
		tags += ",ipv6"
	} else {
		tags += ",ip"
	}
	if x.at.fbTx || x.at.fbRx {
		return false // rare; run again
	}
	args := lib.V(lib.Bool(scn), lib.I(ns(x.at.now0.val)), dgramStr(x.d, x.ts),
		lib.I(ns(x.at.now0.real)), lib.I(ns(x.hd.srx)), lib.I(ns(x.hd.stx)), lib.I(int64(x.hd.theta)), lib.I(ns(end)))
	outs := lib.V(lib.I(int64(x.off)), lib.I(ns(x.ts)), lib.I(hist.TotalCount()), lib.I(hist.Max()))
	w.Case("c03.nofilter", tags, args, outs)
	return true
}

// c03.multi: three rounds of MeasureClockOffsetSCION with two clients and two
// paths; in every round exactly one measurement succeeds before the round
// returns, and that one must be what the round reports:
//   round 1: the reply on path B is held back; when A's measurement is in, the
//            round's context ends; B's reply is released afterwards (a straggler
//            whose late result must not show up anywhere);
//   round 2: path B leads to a next hop that answers garbage; A is measured;
//   round 3: as round 2, and A's reply is held until B's failure has been reported
//            (a failure is collected BEFORE the success).
// The peer's clock offset differs from round to round, so a result of another
// round is off by seconds.  No step depends on a race: the peer waits for the
// events it needs.
func runMulti(w *lib.Writer, wi int) bool {
	bad, err := net.ListenUDP("udp", &net.UDPAddr{IP: localAddr.IP})
	if err != nil {
		panic(err)
	}
	defer bad.Close()
	go func() {
		buf := make([]byte, 2048)
		for {
			_, from, err := bad.ReadFromUDPAddrPort(buf)
			if err != nil {
				return
			}
			bad.WriteToUDPAddrPort([]byte{1, 2, 3}, from)
			bad.WriteToUDPAddrPort([]byte{4, 5, 6, 7}, from)
		}
	}()
	cs := []*client.SCIONClient{
		{Log: log1, Filter: recFilter{}},
		{Log: log1, Filter: recFilter{}},
	}
	rec.snap = func() prevSnap { return prevSnap{} }
	countEv := func(pred func(event) bool) int {
		rec.mu.Lock()
		defer rec.mu.Unlock()
		n := 0
		for _, e := range rec.events {
			if pred(e) {
				n++
			}
		}
		return n
	}
	isFilter := func(e event) bool { return e.kind == evFilter }
	isFail := func(e event) bool { return e.kind == evLog && e.logger == 0 && e.level >= slog.LevelInfo }
	waitFor := func(cond func() bool) bool {
		for t := time.Now(); time.Since(t) < longWait; time.Sleep(200 * time.Microsecond) {
			if cond() {
				return true
			}
		}
		return false
	}
	la := udp.UDPAddr{IA: theIA, Host: &net.UDPAddr{IP: append(net.IP(nil), localAddr.IP...)}}
	okAll := true
	var lines [][2]string
	for round := 1; round <= 3; round++ {
		theta := time.Duration(round*3+wi)*time.Second + time.Duration(wi*1234567)
		release := make(chan struct{})
		actA := action{kind: aNormal, theta: [2]time.Duration{theta, theta}}
		actB := action{kind: aNormal, theta: [2]time.Duration{theta, theta}, gate: func() { <-release }}
		if round == 3 {
			actA.gate = func() { waitFor(func() bool { return countEv(isFail) >= 1 }) }
		}
		hs := &histScript{scion: true, calls: []callScript{{acts: []action{actA}}}, multi: map[int]action{0: actA, 1: actB}}
		thePeer.begin(hs)
		thePeer.setCall(0)
		rec.take()
		hopB := bad.LocalAddr().(*net.UDPAddr)
		if round == 1 {
			hopB = thePeer.addr(1)
		}
		ps := []snet.Path{
			spath.Path{Src: theIA, Dst: theIA, DataplanePath: spath.Empty{}, NextHop: thePeer.addr(0)},
			spath.Path{Src: theIA, Dst: theIA, DataplanePath: spath.Empty{}, NextHop: hopB},
		}
		sctx := &scriptCtx{wait: func() time.Duration { return longWait }, done: make(chan struct{})}
		if round == 1 {
			go func() {
				// A's measurement is in: the round's context ends while B is still waiting
				if waitFor(func() bool { return countEv(isFilter) >= 1 }) {
					time.Sleep(2 * time.Millisecond)
				}
				close(sctx.done)
			}()
		}
		start := realNow()
		ts, off, merr := client.MeasureClockOffsetSCION(sctx, log0, cs, la, scionRemote(0), ps)
		end := realNow()
		rec.mu.Lock()
		evs := append([]event(nil), rec.events...)
		rec.mu.Unlock()
		var last *event
		for i := range evs {
			if evs[i].kind == evFilter {
				last = &evs[i]
			}
		}
		nFilterAtReturn := countEv(isFilter)
		close(release)
		if round == 1 {
			// the straggler finishes now; its result belongs to no round
			waitFor(func() bool { return countEv(isFilter) > nFilterAtReturn || countEv(isFail) >= 1 })
			time.Sleep(2 * time.Millisecond)
		}
		thePeer.mu.Lock()
		var xds []string
		for _, hd := range thePeer.h.handlings {
			xds = append(xds, lib.L(lib.I(ns(start)), lib.I(ns(hd.srx)), lib.I(ns(hd.stx)), lib.I(int64(hd.theta)), lib.I(ns(end)), "0"))
		}
		thePeer.mu.Unlock()
		if last == nil || nFilterAtReturn != 1 {
			fmt.Printf("NOTE c03.multi: round %d: %d measurements were in when the round returned (err=%v)\n", round, nFilterAtReturn, merr)
			okAll = false
			break
		}
		tsn := int64(0)
		if !ts.IsZero() {
			tsn = ns(ts)
		}
		args := lib.V(lib.I(int64(round)), lib.I(ns(last.t0)), lib.I(ns(last.t1)), lib.I(ns(last.t2)), lib.I(ns(last.t3)), lib.L(xds...))
		lines = append(lines, [2]string{args, lib.V(lib.Bool(merr == nil), lib.I(int64(off)), lib.I(tsn))})
	}
	if !okAll {
		return false
	}
	for i, l := range lines {
		w.Case("c03.multi", fmt.Sprintf("multi,nt,round%d", i+1), l[0], l[1])
	}
	return true
}
