package main

// SCION framing for the scripted peer: requests of the real SCIONClient arrive
// as SCION/UDP packets over an empty (AS-internal) path; replies are built the
// way the project's own listener builds them (addresses and ports swapped, path
// reversed).

import (
	"encoding/binary"
	"time"

	"github.com/google/gopacket"
	"github.com/scionproto/scion/pkg/slayers"
	"golang.org/x/sys/unix"

	"example.com/scion-time/net/scion"
)

// the control message SO_TIMESTAMPING delivers, as the SCION timestamp option
// (type 253) carries it: form 1 = software stamp (first timespec), form 2 = raw
// hardware stamp (third timespec)
func tsOptData(form int, t time.Time) []byte {
	b := make([]byte, unix.CmsgSpace(3*16))
	binary.LittleEndian.PutUint64(b[0:], uint64(len(b)))
	binary.LittleEndian.PutUint32(b[8:], uint32(unix.SOL_SOCKET))
	binary.LittleEndian.PutUint32(b[12:], uint32(unix.SO_TIMESTAMPING_NEW))
	o := unix.CmsgSpace(0)
	if form == 2 {
		o = unix.CmsgSpace(32)
	}
	binary.LittleEndian.PutUint64(b[o:], uint64(t.Unix()))
	binary.LittleEndian.PutUint64(b[o+8:], uint64(t.Nanosecond()))
	return b
}

func parseSCIONReq(raw []byte) (sl *slayers.SCION, ul *slayers.UDP, ok bool) {
	defer func() {
		if recover() != nil {
			ok = false
		}
	}()
	sl, ul = &slayers.SCION{}, &slayers.UDP{}
	var hbh slayers.HopByHopExtnSkipper
	var e2e slayers.EndToEndExtn
	sl.RecyclePaths()
	ul.SetNetworkLayerForChecksum(sl)
	parser := gopacket.NewDecodingLayerParser(slayers.LayerTypeSCION, sl, &hbh, &e2e, ul)
	parser.IgnoreUnsupported = true
	decoded := make([]gopacket.LayerType, 4)
	if err := parser.DecodeLayers(append([]byte(nil), raw...), &decoded); err != nil {
		return nil, nil, false
	}
	if len(decoded) < 2 || decoded[len(decoded)-1] != slayers.LayerTypeSCIONUDP {
		return nil, nil, false
	}
	return sl, ul, true
}

// a SCION/UDP packet answering the request reqRaw with the given UDP payload;
// foreign: from another AS than the one the request went to
type scionOpts struct {
	foreign bool      // from another AS than the one the request went to
	tsForm  int       // end-to-end receive-timestamp option (1 software, 2 hardware form)
	ts      time.Time // its value
	hbh     bool      // a hop-by-hop option of the same type with another value
}

func wrapSCION(reqRaw []byte, payload []byte, o scionOpts) []byte {
	foreign, tsForm, ts := o.foreign, o.tsForm, o.ts
	sl, ul, ok := parseSCIONReq(reqRaw)
	if !ok {
		panic("c03: cannot parse the client's SCION request")
	}
	sl.DstIA, sl.SrcIA = sl.SrcIA, sl.DstIA
	sl.DstAddrType, sl.SrcAddrType = sl.SrcAddrType, sl.DstAddrType
	sl.RawDstAddr, sl.RawSrcAddr = sl.RawSrcAddr, sl.RawDstAddr
	var err error
	sl.Path, err = sl.Path.Reverse()
	if err != nil {
		panic(err)
	}
	sl.PathType = sl.Path.Type()
	sl.NextHdr = slayers.L4UDP
	if foreign {
		sl.SrcIA ^= 1 << 20
	}
	ul.DstPort, ul.SrcPort = ul.SrcPort, ul.DstPort
	ul.Payload = payload
	buffer := gopacket.NewSerializeBuffer()
	options := gopacket.SerializeOptions{ComputeChecksums: true, FixLengths: true}
	pl := gopacket.Payload(payload)
	if err := pl.SerializeTo(buffer, options); err != nil {
		panic(err)
	}
	buffer.PushLayer(pl.LayerType())
	if err := ul.SerializeTo(buffer, options); err != nil {
		panic(err)
	}
	buffer.PushLayer(ul.LayerType())
	if tsForm != 0 {
		e2e := slayers.EndToEndExtn{}
		e2e.NextHdr = slayers.L4UDP
		e2e.Options = []*slayers.EndToEndOption{{OptType: scion.OptTypeTimestamp, OptData: tsOptData(tsForm, ts)}}
		if err := e2e.SerializeTo(buffer, options); err != nil {
			panic(err)
		}
		buffer.PushLayer(e2e.LayerType())
		sl.NextHdr = slayers.End2EndClass
	}
	if o.hbh {
		hbh := slayers.HopByHopExtn{}
		hbh.NextHdr = sl.NextHdr
		hbh.Options = []*slayers.HopByHopOption{{OptType: scion.OptTypeTimestamp,
			OptData: tsOptData(1+len(payload)%2, realNow().Add(-3*time.Second))}}
		if err := hbh.SerializeTo(buffer, options); err != nil {
			panic(err)
		}
		buffer.PushLayer(hbh.LayerType())
		sl.NextHdr = slayers.HopByHopClass
	}
	if err := sl.SerializeTo(buffer, options); err != nil {
		panic(err)
	}
	return append([]byte(nil), buffer.Bytes()...)
}
