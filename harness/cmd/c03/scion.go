package main

// SCION framing for the scripted peer: requests of the real SCIONClient arrive
// as SCION/UDP packets over an empty (AS-internal) path; replies are built the
// way the project's own listener builds them (addresses and ports swapped, path
// reversed).

import (
	"github.com/google/gopacket"
	"github.com/scionproto/scion/pkg/slayers"
)

func parseSCIONReq(raw []byte) (sl *slayers.SCION, ul *slayers.UDP, ok bool) {
	defer func() {
		if recover() != nil {
			ok = false
		}
	}()
	sl, ul = &slayers.SCION{}, &slayers.UDP{}
	var hbh slayers.HopByHopExtnSkipper
	var e2e slayers.EndToEndExtn
	sl.RecyclePaths()
	ul.SetNetworkLayerForChecksum(sl)
	parser := gopacket.NewDecodingLayerParser(slayers.LayerTypeSCION, sl, &hbh, &e2e, ul)
	parser.IgnoreUnsupported = true
	decoded := make([]gopacket.LayerType, 4)
	if err := parser.DecodeLayers(append([]byte(nil), raw...), &decoded); err != nil {
		return nil, nil, false
	}
	if len(decoded) < 2 || decoded[len(decoded)-1] != slayers.LayerTypeSCIONUDP {
		return nil, nil, false
	}
	return sl, ul, true
}

// a SCION/UDP packet answering the request reqRaw with the given UDP payload;
// foreign: from another AS than the one the request went to
func wrapSCION(reqRaw []byte, payload []byte, foreign bool) []byte {
	sl, ul, ok := parseSCIONReq(reqRaw)
	if !ok {
		panic("c03: cannot parse the client's SCION request")
	}
	sl.DstIA, sl.SrcIA = sl.SrcIA, sl.DstIA
	sl.DstAddrType, sl.SrcAddrType = sl.SrcAddrType, sl.DstAddrType
	sl.RawDstAddr, sl.RawSrcAddr = sl.RawSrcAddr, sl.RawDstAddr
	var err error
	sl.Path, err = sl.Path.Reverse()
	if err != nil {
		panic(err)
	}
	sl.PathType = sl.Path.Type()
	sl.NextHdr = slayers.L4UDP
	if foreign {
		sl.SrcIA ^= 1 << 20
	}
	ul.DstPort, ul.SrcPort = ul.SrcPort, ul.DstPort
	ul.Payload = payload
	buffer := gopacket.NewSerializeBuffer()
	options := gopacket.SerializeOptions{ComputeChecksums: true, FixLengths: true}
	pl := gopacket.Payload(payload)
	if err := pl.SerializeTo(buffer, options); err != nil {
		panic(err)
	}
	buffer.PushLayer(pl.LayerType())
	if err := ul.SerializeTo(buffer, options); err != nil {
		panic(err)
	}
	buffer.PushLayer(ul.LayerType())
	if err := sl.SerializeTo(buffer, options); err != nil {
		panic(err)
	}
	return append([]byte(nil), buffer.Bytes()...)
}
