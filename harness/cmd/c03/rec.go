package main

// Recorders: everything the harness learns about what the real client did comes
// through these: the clock the client reads (timebase), the two loggers it
// writes to, the measurement filter it hands its four timestamps to, and the
// context it takes its deadline from.  All of them run on the client's
// goroutine, so the event list is in program order.

import (
	"context"
	"errors"
	"log/slog"
	"reflect"
	"strings"
	"sync"
	"time"

	"golang.org/x/sys/unix"

	"example.com/scion-time/net/ntp"
)

func realNow() time.Time {
	var ts unix.Timespec
	if err := unix.ClockGettime(unix.CLOCK_REALTIME, &ts); err != nil {
		panic(err)
	}
	return time.Unix(ts.Unix()).UTC()
}

func ns(t time.Time) int64 { return t.UnixNano() }

const (
	evNow = iota
	evLog
	evFilter
)

type prevSnap struct {
	ref         string
	interleaved bool
	cTx, cRx    ntp.Time64
	sRx         ntp.Time64
}

type event struct {
	kind int
	real time.Time // real time of the event
	// evNow
	val time.Time
	// evLog
	logger int // 0 = logger given to MeasureClockOffset*, 1 = client.Log
	level  slog.Level
	msg    string
	err    error
	at     time.Time
	hasAt  bool
	inter  bool
	off    time.Duration
	rtd    time.Duration
	hasOff bool
	// evFilter
	t0, t1, t2, t3 time.Time
	prev           prevSnap
	ret            time.Duration
}

type recorder struct {
	mu       sync.Mutex
	events   []event
	override *time.Time // value returned by the next Now() instead of the real time
	shift    time.Duration // the client's clock runs this far from the clock the kernel stamps packets with
	snap     func() prevSnap
}

var rec = &recorder{}

func (r *recorder) add(e event) {
	r.mu.Lock()
	r.events = append(r.events, e)
	r.mu.Unlock()
}

func (r *recorder) take() []event {
	r.mu.Lock()
	defer r.mu.Unlock()
	ev := r.events
	r.events = nil
	return ev
}

// ---- the system clock registered with timebase ----
type recClock struct{}

func (recClock) Epoch() uint64 { return 0 }
func (recClock) Now() time.Time {
	real := realNow()
	rec.mu.Lock()
	v := real.Add(rec.shift)
	if rec.override != nil {
		v = *rec.override
		rec.override = nil
	}
	rec.events = append(rec.events, event{kind: evNow, real: real, val: v})
	rec.mu.Unlock()
	return v
}
func (recClock) Drift(d time.Duration) time.Duration              { return 0 }
func (recClock) Step(offset time.Duration)                        {}
func (recClock) Adjust(offset, duration time.Duration, f float64) {}
func (recClock) Sleep(d time.Duration)                            { time.Sleep(d) }

// ---- slog handler ----
type recHandler struct{ logger int }

func (h recHandler) Enabled(context.Context, slog.Level) bool { return true }
func (h recHandler) Handle(_ context.Context, r slog.Record) error {
	e := event{kind: evLog, real: realNow(), logger: h.logger, level: r.Level, msg: r.Message}
	r.Attrs(func(a slog.Attr) bool {
		switch a.Key {
		case "error":
			if err, ok := a.Value.Any().(error); ok {
				e.err = err
			}
		case "at":
			if a.Value.Kind() == slog.KindTime {
				e.at, e.hasAt = a.Value.Time(), true
			}
		case "interleaved":
			if a.Value.Kind() == slog.KindBool {
				e.inter = a.Value.Bool()
			}
		case "clock offset":
			if a.Value.Kind() == slog.KindDuration {
				e.off, e.hasOff = a.Value.Duration(), true
			}
		case "round trip delay":
			if a.Value.Kind() == slog.KindDuration {
				e.rtd = a.Value.Duration()
			}
		}
		return true
	})
	rec.add(e)
	return nil
}
func (h recHandler) WithAttrs([]slog.Attr) slog.Handler { return h }
func (h recHandler) WithGroup(string) slog.Handler      { return h }

// ---- measurement filter ----
// Receives exactly the four timestamps the client combined; returns the offset
// computed from them by the real ntp.ClockOffset, which is what the client then
// reports.
type recFilter struct{}

func (recFilter) Do(t0, t1, t2, t3 time.Time) time.Duration {
	ret := ntp.ClockOffset(t0, t1, t2, t3)
	rec.add(event{kind: evFilter, real: realNow(), t0: t0, t1: t1, t2: t2, t3: t3, prev: rec.snap(), ret: ret})
	return ret
}
func (recFilter) Reset() {}

// ---- client state by reflection (read-only; no hook in /repo) ----
func snapPrevOf(c any) prevSnap {
	v := reflect.ValueOf(c).Elem().FieldByName("prev")
	if !v.IsValid() {
		panic("c03: the client has no field prev any more")
	}
	f := func(name string) reflect.Value {
		x := v.FieldByName(name)
		if !x.IsValid() {
			panic("c03: client.prev has no field " + name + " any more")
		}
		return x
	}
	t64 := func(name string) ntp.Time64 {
		x := f(name)
		return ntp.Time64{Seconds: uint32(x.FieldByName("Seconds").Uint()), Fraction: uint32(x.FieldByName("Fraction").Uint())}
	}
	return prevSnap{
		ref:         f("reference").String(),
		interleaved: f("interleaved").Bool(),
		cTx:         t64("cTxTime"),
		cRx:         t64("cRxTime"),
		sRx:         t64("sRxTime"),
	}
}

// ---- context with a deadline per exchange attempt ----
// The client reads ctx.Deadline() once at the start of every attempt.  For an
// attempt whose scripted reply is withheld the deadline is short, otherwise it
// is generous; a plain context.WithTimeout is used for calls without losses.
type scriptCtx struct {
	wait func() time.Duration
	done chan struct{} // nil: never cancelled
}

func (c *scriptCtx) Deadline() (time.Time, bool) { return time.Now().Add(c.wait()), true }
func (c *scriptCtx) Done() <-chan struct{}       { return c.done }
func (c *scriptCtx) Err() error {
	select {
	case <-c.done:
		return context.Canceled
	default:
		return nil
	}
}
func (c *scriptCtx) Value(any) any { return nil }

// error classes of the model.  The error values are unexported variables of
// the packages under test; the harness learns them once per process - the ones of
// net/ntp by calling the exported validators, the ones of core/client from
// calibration exchanges (calibrate in main.go) - and compares by identity; the
// message text is only the last resort.
var sentinels = map[error]int64{}

func learn(err error, class int64) {
	if err != nil {
		if _, has := sentinels[err]; !has {
			sentinels[err] = class
		}
	}
}

func init() {
	learn(ntp.ValidateResponseMetadata(&ntp.Packet{}), 3)
	t := time.Unix(1700000000, 0)
	learn(ntp.ValidateResponseTimestamps(t, t, t.Add(-1), t), 3)
	learn(ntp.ValidateResponseTimestamps(t, t, t, t.Add(-1)), 5)
	var p ntp.Packet
	learn(ntp.DecodePacket(&p, []byte{1}), 4)
}

func errClass(err error) int64 {
	if err == nil {
		return 0
	}
	type timeout interface{ Timeout() bool }
	if t, ok := err.(timeout); ok && t.Timeout() {
		return 1
	}
	for e, c := range sentinels {
		if errors.Is(err, e) {
			return c
		}
	}
	s := err.Error()
	switch {
	case strings.Contains(s, "i/o timeout"):
		return 1
	case strings.Contains(s, "unexpected type or structure"):
		return 2
	case strings.Contains(s, "unexpected response structure"):
		return 3
	case strings.Contains(s, "unexpected packet size"), strings.Contains(s, "unexpected source"), strings.Contains(s, "unexpected flags"):
		return 4
	case strings.Contains(s, "unexpected system clock behavior"):
		return 5
	}
	return 9
}
