package c06lib

// Case kind tss.full: operations on the store at its REAL capacity (2^20
// clients).  Every operation is recorded with the client's item as it is in
// the real store immediately before and immediately after (hook
// VerifTSSClient: one map read under the lock), so the oracle's "exchanges
// kept for this client before the call" is an observation, not the previous
// post-state: a client that was evicted by somebody else's request in between
// is seen as unknown.  The family concentrates on what the 2^20 floods do not
// reach: known clients with several (up to 8) exchanges on record while the
// store is full, next to newcomers that evict or are served without state.

import (
	"strings"

	"example.com/scion-time/core/server"
	"example.com/scion-time/net/ntp"

	"verifharness/lib"
)

// nsOf64 is the least time (ns) whose Time64 stamp is x (Time64FromTime rounds the fraction down).
func nsOf64(x ntp.Time64) int64 {
	nsec := (int64(x.Fraction)*1e9 + (1<<32 - 1)) >> 32
	return (int64(x.Seconds)-2208988800)*1e9 + nsec
}

func clientItem(cid int64) (server.VerifTSSItem, bool) {
	return server.VerifTSSClient(key(cid))
}

func fmtClientItem(it server.VerifTSSItem, ok bool) string {
	if !ok {
		return "[]"
	}
	es := make([]string, len(it.Entries))
	for i, e := range it.Entries {
		es[i] = lib.L(lib.U(t64num(e.Rxt)), lib.U(t64num(e.Txt)))
	}
	return lib.L(lib.U(t64num(it.Qval)), lib.I(int64(it.Qidx)), lib.L(es...))
}

// recHandle runs one request and returns its record
// [0 cid org rx tx rxt now pre rorg rrx rtx rref rxt' txt' post adm]; adm (for a client without an
// item): number of clients, key and queue value of the root of the priority queue before the call,
// and whether that client has lost its item after it.
func recHandle(o op) (rec string, r handleResult, pre, post server.VerifTSSItem, preOK, postOK bool) {
	pre, preOK = clientItem(o.cid)
	adm := "[]"
	var hk string
	var hq ntp.Time64
	var n int
	if !preOK {
		n, _ = server.VerifTSSLen()
		hk, hq, _ = server.VerifTSSQueueHead()
	}
	r = doHandle(o)
	post, postOK = clientItem(o.cid)
	if !preOK {
		gone := false
		hcid := int64(-1)
		if hk != "" {
			_, still := server.VerifTSSClient(hk)
			gone = !still
			hcid = cidOf(hk)
		}
		adm = lib.L(lib.I(int64(n)), lib.I(hcid), lib.U(t64num(hq)), lib.Bool(gone))
	}
	rec = lib.L("0", lib.I(o.cid), lib.U(o.org), lib.U(o.rx), lib.U(o.tx), lib.I(o.rxt), lib.I(o.now),
		fmtClientItem(pre, preOK),
		lib.U(r.org), lib.U(r.rx), lib.U(r.tx), lib.U(r.ref), lib.I(r.rxt), lib.I(r.txt),
		fmtClientItem(post, postOK), adm)
	return
}

// recUpdate runs one transmit-timestamp report: [1 cid rxt txt pre txt' post].
func recUpdate(o op) (rec string, pre, post server.VerifTSSItem, preOK, postOK bool) {
	pre, preOK = clientItem(o.cid)
	t := doUpdate(o)
	post, postOK = clientItem(o.cid)
	rec = lib.L("1", lib.I(o.cid), lib.I(o.rxt), lib.I(o.txt), fmtClientItem(pre, preOK), lib.I(t), fmtClientItem(post, postOK))
	return
}

const fullPartOps = 60

type fullPend struct {
	cid      int64
	rxt, txt int64
}

func fullFamily(variant, nparts, salt int64) {
	server.VerifResetTSS()
	capN := int64(server.VerifTSSCap)
	r := lib.NewRng(uint64(salt)*104729 + uint64(variant) + 17)
	step := int64(1000 + r.Intn(3000))
	t0 := baseSec*1e9 + 7e8
	now := t0 + capN*step + 5e9
	for i := int64(0); i < capN; i++ {
		doHandle(op{kind: 0, cid: i, org: 0, rx: 7, tx: 7, rxt: t0 + i*step, now: now})
	}
	// participants: known clients from the recent half of the store (never the least recently
	// active one), given several exchanges before the recorded part starts
	np := 6 + r.Intn(10)
	part := make([]int64, np)
	rxts := map[int64][]int64{} // receive times (ns, final) used per participant
	t := t0 + capN*step
	for j := range part {
		part[j] = capN/2 + int64(r.Intn(int(capN/2)))
		extra := r.Intn(11) // 0..10 further exchanges: items of 1..8 entries, some wrapped around
		for e := 0; e < extra; e++ {
			t += r.Range(1, 5000)
			res := doHandle(op{kind: 0, cid: part[j], org: 0, rx: 7, tx: 7, rxt: t, now: now})
			rxts[part[j]] = append(rxts[part[j]], res.rxt)
		}
	}
	// the least recently active clients hold several exchanges as well, and some of them had their
	// most recent one dropped again (queue value lowered at the root of the queue): these are the
	// items the newcomers below evict
	for i := int64(0); i < 60; i++ {
		extra := r.Intn(5)
		var last handleResult
		for e := 0; e < extra; e++ {
			last = doHandle(op{kind: 0, cid: i, org: 0, rx: 7, tx: 7, rxt: t0 + i*step + int64(e+1)*(step/8), now: now})
		}
		if extra > 0 && r.Bool() {
			doUpdate(op{kind: 1, cid: i, rxt: last.rxt, txt: last.txt}) // unread: dropped, the client is ranked by the exchange before
		}
	}
	var recs []string
	var pend []fullPend
	newcomer := capN
	var stateless, evictedBase []int64
	nInter, nInterMulti, nColl, nDrop, nUpd, nEvict, nStateless, nFullItem, nCross, nReturn := 0, 0, 0, 0, 0, 0, 0, 0, 0, 0
	pickRxt := func(cid int64) int64 {
		switch r.Intn(10) {
		case 0, 1:
			if l := rxts[cid]; len(l) > 0 {
				return l[r.Intn(len(l))]
			}
		case 2:
			if l := rxts[cid]; len(l) > 0 {
				return l[r.Intn(len(l))] + 1
			}
		case 3:
			if l := rxts[cid]; len(l) > 0 {
				return l[len(l)-1] - r.Range(1, 3000)
			}
		}
		t += r.Range(1, 100000)
		return t
	}
	pickNow := func(rxt int64) int64 {
		switch r.Intn(8) {
		case 0:
			return rxt - r.Range(0, 2000)
		case 1:
			return rxt
		case 2:
			return rxt + 1
		}
		return rxt + r.Range(2, 100000)
	}
	for part_i := int64(0); part_i < nparts; part_i++ {
		recs = recs[:0]
		nInter, nInterMulti, nColl, nDrop, nUpd, nEvict, nStateless, nFullItem, nCross, nReturn = 0, 0, 0, 0, 0, 0, 0, 0, 0, 0
		for len(recs) < fullPartOps {
			c := r.Intn(100)
			switch {
			case c < 50: // request of a known client
				cid := part[r.Intn(len(part))]
				pre, ok := clientItem(cid)
				var org uint64
				cross := false
				switch k := r.Intn(10); {
				case k < 6 && ok && len(pre.Entries) > 0:
					org = t64num(pre.Entries[r.Intn(len(pre.Entries))].Rxt)
				case k < 8:
					other := part[r.Intn(len(part))]
					if it, ok2 := clientItem(other); ok2 && other != cid && len(it.Entries) > 0 {
						org = t64num(it.Entries[r.Intn(len(it.Entries))].Rxt)
						cross = true
					}
				case k < 9:
					org = r.U64()
				}
				crx, ctx := r.U64(), r.U64()
				if r.Intn(6) == 0 {
					ctx = crx
				}
				rxt := pickRxt(cid)
				o := op{kind: 0, cid: cid, org: org, rx: crx, tx: ctx, rxt: rxt, now: pickNow(rxt)}
				rec, res, p, _, pok, _ := recHandle(o)
				recs = append(recs, rec)
				rxts[cid] = append(rxts[cid], res.rxt)
				pend = append(pend, fullPend{cid, res.rxt, res.txt})
				if crx != ctx && res.org == crx {
					nInter++
					if pok && len(p.Entries) >= 2 {
						nInterMulti++
					}
				}
				if res.rxt != rxt {
					nColl++
				}
				if pok && len(p.Entries) == server.VerifTSSItemCap {
					nFullItem++
				}
				if cross {
					nCross++
				}
			case c < 75 && len(pend) > 0: // transmit-timestamp report
				j := 0
				if r.Intn(3) == 0 {
					j = r.Intn(len(pend))
				}
				p := pend[j]
				pend = append(pend[:j], pend[j+1:]...)
				var txt int64
				switch r.Intn(8) {
				case 0, 1, 2:
					txt = p.txt
				case 3:
					txt = p.rxt - r.Range(0, 50)
				case 4:
					txt = p.rxt + 1
				default:
					txt = p.txt + r.Range(1, 50000)
				}
				rec, pre, post, pok, postok := recUpdate(op{kind: 1, cid: p.cid, rxt: p.rxt, txt: txt})
				recs = append(recs, rec)
				if pok && (!postok || len(post.Entries) < len(pre.Entries)) {
					nDrop++
				} else if pok {
					nUpd++
				}
			case c < 90: // a client never seen before: older than, as recent as, or newer than the least recently active one
				cid := newcomer
				newcomer++
				hk, hq, _ := server.VerifTSSQueueHead()
				minNs := nsOf64(hq)
				var rxt int64
				switch r.Intn(4) {
				case 0:
					rxt = minNs - r.Range(1, 100000)
				case 1:
					rxt = minNs
				case 2:
					rxt = minNs - 1
				default:
					t += r.Range(1, 100000)
					rxt = t
				}
				var org uint64
				if it, ok := clientItem(part[r.Intn(len(part))]); ok && len(it.Entries) > 0 && r.Bool() {
					org = t64num(it.Entries[0].Rxt)
				}
				rec, res, _, _, _, postok := recHandle(op{kind: 0, cid: cid, org: org, rx: r.U64(), tx: r.U64(), rxt: rxt, now: pickNow(rxt)})
				recs = append(recs, rec)
				if postok {
					nEvict++
					if _, still := server.VerifTSSClient(hk); !still {
						evictedBase = append(evictedBase, cidOf(hk))
					}
					part = append(part, cid)
					rxts[cid] = append(rxts[cid], res.rxt)
					pend = append(pend, fullPend{cid, res.rxt, res.txt})
				} else {
					nStateless++
					stateless = append(stateless, cid)
					rxts[cid] = append(rxts[cid], res.rxt)
				}
			default: // somebody without state comes back naming its earlier exchange as origin
				var cid int64
				switch {
				case len(stateless) > 0 && r.Bool():
					cid = stateless[r.Intn(len(stateless))]
				case len(evictedBase) > 0:
					cid = evictedBase[r.Intn(len(evictedBase))]
				default:
					continue
				}
				var org uint64
				if l := rxts[cid]; len(l) > 0 {
					org = t64num(ntp.Time64FromTime(tm(l[len(l)-1])))
				} else {
					org = t64num(ntp.Time64FromTime(tm(t0 + cid*step)))
				}
				_, hq, _ := server.VerifTSSQueueHead()
				rxt := nsOf64(hq) - r.Range(1, 50000) // older than everybody: stays without state
				rec, _, _, _, _, _ := recHandle(op{kind: 0, cid: cid, org: org, rx: r.U64(), tx: r.U64(), rxt: rxt, now: pickNow(rxt)})
				recs = append(recs, rec)
				nReturn++
			}
		}
		li, lq := server.VerifTSSLen()
		var tags []string
		add := func(c bool, s string) {
			if c {
				tags = append(tags, s)
			}
		}
		add(nInter > 0, "inter")
		add(nInterMulti > 0, "inter-multi")
		add(nColl > 0, "collision")
		add(nDrop > 0, "removed")
		add(nUpd > 0, "txupdated")
		add(nEvict > 0, "evict")
		add(nStateless > 0, "stateless")
		add(nFullItem > 0, "item-full")
		add(nCross > 0, "cross")
		add(nReturn > 0, "returning")
		add(int64(li) == capN && int64(lq) == capN, "at-capacity")
		add(nInterMulti > 0 && nColl > 0 && nDrop > 0 && int64(li) == capN, "nt")
		w.Case("tss.full", strings.Join(tags, ","), lib.V(lib.I(variant), lib.I(nparts), lib.I(salt), lib.I(part_i)), lib.L(recs...))
	}
	server.VerifResetTSS()
}
