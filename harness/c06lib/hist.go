// C06/C07: drives the real handleRequest / updateTXTimestamp of core/server
// through the verif hook with a scripted clock, on generated histories of
// requests and transmit-timestamp updates from several clients, and records
// every reply together with the client's stored exchanges and the priority
// queue after every operation.
package c06lib

import (
	"fmt"
	"os"
	"sort"
	"strconv"
	"strings"
	"time"

	"example.com/scion-time/core/server"
	"example.com/scion-time/core/timebase"
	"example.com/scion-time/net/ntp"

	"verifharness/lib"
)

type fakeClock struct{ now time.Time }

func (c *fakeClock) Epoch() uint64                                    { return 0 }
func (c *fakeClock) Now() time.Time                                   { return c.now }
func (c *fakeClock) Drift(d time.Duration) time.Duration              { return 0 }
func (c *fakeClock) Step(offset time.Duration)                        {}
func (c *fakeClock) Adjust(offset, duration time.Duration, f float64) {}
func (c *fakeClock) Sleep(d time.Duration)                            {}

var (
	clk = &fakeClock{}
	w   *lib.Writer
)

const baseSec = int64(1717171717) // 2024-05-31

func t64num(t ntp.Time64) uint64 { return uint64(t.Seconds)<<32 | uint64(t.Fraction) }
func t64of(x uint64) ntp.Time64  { return ntp.Time64{Seconds: uint32(x >> 32), Fraction: uint32(x)} }
func ns(t time.Time) int64       { return t.Unix()*1e9 + int64(t.Nanosecond()) }
func tm(n int64) time.Time       { return time.Unix(n/1e9, n%1e9).UTC() }
func key(cid int64) string       { return "c" + strconv.FormatInt(cid, 10) }
func cidOf(k string) int64       { v, _ := strconv.ParseInt(k[1:], 10, 64); return v }

type op struct {
	kind          int // 0 handle, 1 update
	cid           int64
	org, rx, tx   uint64 // request fields (handle)
	rxt, now, txt int64  // ns
}

func fmtItem(s server.VerifTSSSnapshot, cid int64) string {
	k := key(cid)
	for _, it := range s.Items {
		if it.Key == k {
			es := make([]string, len(it.Entries))
			for i, e := range it.Entries {
				es[i] = lib.L(lib.U(t64num(e.Rxt)), lib.U(t64num(e.Txt)))
			}
			return lib.L(lib.U(t64num(it.Qval)), lib.I(int64(it.Qidx)), lib.L(es...))
		}
	}
	return "[]"
}

func fmtQueue(s server.VerifTSSSnapshot) string {
	qv := map[string]uint64{}
	for _, it := range s.Items {
		qv[it.Key] = t64num(it.Qval)
	}
	q := make([]string, len(s.Queue))
	for i, k := range s.Queue {
		q[i] = lib.L(lib.I(cidOf(k)), lib.U(qv[k]))
	}
	return lib.L(q...)
}

func fmtFinal(s server.VerifTSSSnapshot) string {
	items := append([]server.VerifTSSItem(nil), s.Items...)
	sort.Slice(items, func(i, j int) bool { return cidOf(items[i].Key) < cidOf(items[j].Key) })
	out := make([]string, len(items))
	for i, it := range items {
		es := make([]string, len(it.Entries))
		for j, e := range it.Entries {
			es[j] = lib.L(lib.U(t64num(e.Rxt)), lib.U(t64num(e.Txt)))
		}
		out[i] = lib.L(lib.I(cidOf(it.Key)), lib.U(t64num(it.Qval)), lib.I(int64(it.Qidx)), lib.L(es...))
	}
	return lib.L(out...)
}

type handleResult struct {
	org, rx, tx, ref uint64
	rxt, txt         int64
}

func doHandle(o op) handleResult {
	clk.now = tm(o.now)
	var req ntp.Packet
	req.SetVersion(ntp.VersionMax)
	req.SetMode(ntp.ModeClient)
	req.OriginTime, req.ReceiveTime, req.TransmitTime = t64of(o.org), t64of(o.rx), t64of(o.tx)
	rxt := tm(o.rxt)
	var txt time.Time
	var resp ntp.Packet
	server.VerifHandleRequest(key(o.cid), &req, &rxt, &txt, &resp)
	return handleResult{t64num(resp.OriginTime), t64num(resp.ReceiveTime), t64num(resp.TransmitTime), t64num(resp.ReferenceTime), ns(rxt), ns(txt)}
}

func doUpdate(o op) int64 {
	txt := tm(o.txt)
	server.VerifUpdateTXTimestamp(key(o.cid), tm(o.rxt), &txt)
	return ns(txt)
}

func fmtOps(ops []op) string {
	s := make([]string, len(ops))
	for i, o := range ops {
		if o.kind == 0 {
			s[i] = lib.L("0", lib.I(o.cid), lib.U(o.org), lib.U(o.rx), lib.U(o.tx), lib.I(o.rxt), lib.I(o.now))
		} else {
			s[i] = lib.L("1", lib.I(o.cid), lib.I(o.rxt), lib.I(o.txt))
		}
	}
	return lib.L(s...)
}

// runHistory executes the ops on a fresh store and writes one case.
// gen, when non-nil, is asked for the next op after each step (model-based generation).
func runHistory(kind string, ops []op, gen func(i int, last *handleResult, lastTxt int64) (op, bool), tagsExtra []string) {
	server.VerifResetTSS()
	// the replay in Coq starts every history from the empty store: make sure the real one is empty
	// (a history that follows a 2^20-client flood must not inherit anything)
	if li, lq := server.VerifTSSLen(); li != 0 || lq != 0 {
		panic(fmt.Sprintf("timestamp store not empty at the start of a history: %d items, %d queue entries", li, lq))
	}
	var obs []string
	var done []op
	nInter, nIncr, nRemoved, nUpdated, nStateful, nWrap := 0, 0, 0, 0, 0, 0
	i := 0
	var last *handleResult
	var lastTxt int64
	for {
		var o op
		if gen != nil {
			var ok bool
			o, ok = gen(i, last, lastTxt)
			if !ok {
				break
			}
		} else {
			if i >= len(ops) {
				break
			}
			o = ops[i]
		}
		done = append(done, o)
		if o.kind == 0 && o.rxt < eraRollover*1e9 && o.now >= eraRollover*1e9 || o.kind == 1 && o.rxt < eraRollover*1e9 && o.txt >= eraRollover*1e9 {
			nWrap++
		}
		if o.kind == 0 {
			before := server.VerifSnapshotTSS()
			r := doHandle(o)
			last = &r
			after := server.VerifSnapshotTSS()
			if o.rx != o.tx && r.org == o.rx {
				nInter++
			}
			if r.rxt != o.rxt {
				nIncr++
			}
			_ = before
			it := fmtItem(after, o.cid)
			if it != "[]" {
				nStateful++
			}
			obs = append(obs, lib.L("0", lib.U(r.org), lib.U(r.rx), lib.U(r.tx), lib.U(r.ref), lib.I(r.rxt), lib.I(r.txt), it, fmtQueue(after)))
		} else {
			before := fmtItem(server.VerifSnapshotTSS(), o.cid)
			t := doUpdate(o)
			lastTxt = t
			last = nil
			after := server.VerifSnapshotTSS()
			it := fmtItem(after, o.cid)
			if it != before {
				if len(it) < len(before) {
					nRemoved++
				} else {
					nUpdated++
				}
			}
			obs = append(obs, lib.L("1", lib.I(t), it, fmtQueue(after)))
		}
		i++
	}
	final := server.VerifSnapshotTSS()
	tags := append([]string{}, tagsExtra...)
	if nInter > 0 {
		tags = append(tags, "inter")
	}
	if nIncr > 0 {
		tags = append(tags, "collision")
	}
	if nRemoved > 0 {
		tags = append(tags, "removed")
	}
	if nUpdated > 0 {
		tags = append(tags, "txupdated")
	}
	if nWrap > 0 {
		tags = append(tags, "across-rollover")
	}
	if nInter > 0 && nIncr > 0 && nRemoved > 0 && (kind != "tss.era" || nWrap > 0) {
		tags = append(tags, "nt")
	}
	w.Case(kind, strings.Join(tags, ","), fmtOps(done), lib.V(lib.L(obs...), fmtFinal(final)))
}

// ---- model-based generator ----

type pending struct {
	cid      int64
	rxt, txt int64
}

type genState struct {
	r        *lib.Rng
	nclients int
	nops     int
	t        int64              // current base time (ns)
	replies  map[int64][]uint64 // rx stamps handed out per client
	lastRxt  map[int64]int64    // last (final) receive time per client, ns
	allRxt   map[int64][]int64  // receive times used per client
	pend     []pending
	lastOp   *op
	burst    int64        // client id currently sending a burst (fills the 8 slots), or -1
	eraOps   map[int]bool // era family: operations that are forced to straddle the rollover
}

func (g *genState) pickRxt(cid int64) int64 {
	r := g.r
	switch r.Intn(10) {
	case 0, 1: // collide with an earlier receive time of this client
		if l := g.allRxt[cid]; len(l) > 0 {
			return l[r.Intn(len(l))]
		}
	case 2: // one ns after an earlier one
		if l := g.allRxt[cid]; len(l) > 0 {
			return l[r.Intn(len(l))] + 1
		}
	case 3: // earlier than before (decreasing)
		if v, ok := g.lastRxt[cid]; ok {
			return v - r.Range(1, 2000)
		}
	case 4: // collide with another client's receive time
		for c2, l := range g.allRxt {
			if c2 != cid && len(l) > 0 {
				return l[len(l)-1]
			}
		}
	}
	g.t += r.Range(1, 1000000)
	return g.t
}

func (g *genState) next(i int, last *handleResult, lastTxt int64) (op, bool) {
	r := g.r
	if g.lastOp != nil && g.lastOp.kind == 0 && last != nil {
		// record what the previous handle produced
		c := g.lastOp.cid
		g.replies[c] = append(g.replies[c], last.rx)
		g.lastRxt[c] = last.rxt
		g.allRxt[c] = append(g.allRxt[c], last.rxt)
		g.pend = append(g.pend, pending{c, last.rxt, last.txt})
	}
	if i >= g.nops {
		return op{}, false
	}
	var o op
	doUpdate := len(g.pend) > 0 && (r.Intn(100) < 45 || len(g.pend) > 6)
	if r.Intn(40) == 0 {
		// stray update for a receive time that is not on record
		o = op{kind: 1, cid: int64(r.Intn(g.nclients)), rxt: g.t - 12345, txt: g.t}
	} else if doUpdate {
		j := 0
		if r.Intn(3) == 0 {
			j = r.Intn(len(g.pend)) // delayed past later operations
		}
		p := g.pend[j]
		g.pend = append(g.pend[:j], g.pend[j+1:]...)
		var txt int64
		switch r.Intn(8) {
		case 0, 1, 2: // transmit timestamp could not be read: the value handleRequest reported
			txt = p.txt
		case 3: // not later than the receive time
			txt = p.rxt - r.Range(0, 50)
		case 4:
			txt = p.rxt + 1
		default: // kernel timestamp a little later
			txt = p.txt + r.Range(1, 50000)
		}
		o = op{kind: 1, cid: p.cid, rxt: p.rxt, txt: txt}
		if r.Intn(25) == 0 {
			// the same update reported twice (second one finds the value unchanged)
			g.pend = append(g.pend, p)
		}
	} else {
		var cid int64
		if g.burst >= 0 && r.Intn(10) < 8 {
			cid = g.burst
		} else {
			cid = int64(r.Intn(g.nclients))
			if r.Intn(6) == 0 {
				g.burst = cid
			} else if r.Intn(4) == 0 {
				g.burst = -1
			}
		}
		rxt := g.pickRxt(cid)
		var now int64
		if g.eraOps[i] {
			// received just before the rollover, handled just after it
			rxt = eraRollover*1e9 - r.Range(1, 20000)
			if g.t < rxt {
				g.t = rxt
			}
		}
		switch r.Intn(8) {
		case 0:
			now = rxt - r.Range(0, 2000) // clock reading not later than the receive stamp
		case 1:
			now = rxt
		case 2:
			now = rxt + 1
		case 3:
			now = rxt + 2
		default:
			now = rxt + r.Range(1, 100000)
		}
		if g.eraOps[i] && r.Intn(4) != 0 {
			now = eraRollover*1e9 + r.Range(0, 50000)
		}
		var org uint64
		switch r.Intn(10) {
		case 0, 1, 2, 3, 4: // receive stamp of an earlier reply to this client
			if l := g.replies[cid]; len(l) > 0 {
				if r.Intn(3) == 0 {
					org = l[r.Intn(len(l))]
				} else {
					org = l[len(l)-1-r.Intn(min(len(l), 3))]
				}
			}
		case 5, 6: // receive stamp handed to another client
			for c2, l := range g.replies {
				if c2 != cid && len(l) > 0 {
					org = l[r.Intn(len(l))]
					break
				}
			}
		case 7:
			org = r.U64()
		default:
			org = 0
		}
		crx := uint64(r.U64())
		ctx := uint64(r.U64())
		switch r.Intn(6) {
		case 0:
			ctx = crx // receive == transmit: never interleaved
		case 1:
			crx, ctx = 0, uint64(r.U64())
		}
		o = op{kind: 0, cid: cid, org: org, rx: crx, tx: ctx, rxt: rxt, now: now}
	}
	g.lastOp = &o
	return o, true
}

func genHistory(r *lib.Rng, nclients, nops int) {
	g := &genState{r: r, nclients: nclients, nops: nops, t: baseSec*1e9 + r.Range(0, 1e9), replies: map[int64][]uint64{},
		lastRxt: map[int64]int64{}, allRxt: map[int64][]int64{}, burst: -1}
	runHistory("tss.hist", nil, g.next, nil)
}

// eraRollover is the instant the 32-bit seconds of an NTP timestamp wrap: 2036-02-07 06:28:16 UTC.
const eraRollover = int64(2085978496)

// genEraHistory: the same generator with the clock just before the NTP era rollover, so that
// requests are received before and answered (or their transmit time reported) after it.
func genEraHistory(r *lib.Rng, nclients, nops int) {
	g := &genState{r: r, nclients: nclients, nops: nops, t: eraRollover*1e9 - r.Range(0, int64(nops)*300000), replies: map[int64][]uint64{},
		lastRxt: map[int64]int64{}, allRxt: map[int64][]int64{}, burst: -1, eraOps: map[int]bool{}}
	for k := 0; k < 1+r.Intn(3); k++ {
		g.eraOps[r.Intn(nops)] = true
	}
	runHistory("tss.era", nil, g.next, []string{"era"})
}

// parse a replay line's ops
func parseOps(s string) []op {
	s = strings.TrimSpace(s)
	s = strings.TrimPrefix(s, "[")
	s = strings.TrimSuffix(s, "]")
	var ops []op
	for _, part := range strings.Split(s, "]") {
		part = strings.TrimSpace(part)
		part = strings.TrimPrefix(part, "[")
		f := strings.Fields(part)
		if len(f) == 0 {
			continue
		}
		if f[0] == "0" && len(f) == 7 {
			ops = append(ops, op{kind: 0, cid: lib.ParseI(f[1]), org: lib.ParseU(f[2]), rx: lib.ParseU(f[3]), tx: lib.ParseU(f[4]), rxt: lib.ParseI(f[5]), now: lib.ParseI(f[6])})
		} else if f[0] == "1" && len(f) == 4 {
			ops = append(ops, op{kind: 1, cid: lib.ParseI(f[1]), rxt: lib.ParseI(f[2]), txt: lib.ParseI(f[3])})
		} else {
			panic("bad op in replay: " + part)
		}
	}
	return ops
}

// Main runs the harness.  c06only: also emit the case kinds that only the C06
// dispatcher knows (tss.full, lsn.hist); cmd/c06 (used by C07) passes false.
func Main(c06only bool) {
	a := lib.ParseArgs()
	if v := os.Getenv(lsnChildEnv); v != "" {
		switch v {
		case "slow":
			lsnSlowChild(a)
		case "fallback":
			lsnFallbackChild(a)
		default:
			lsnChild(a)
		}
		return
	}
	timebase.RegisterClock(clk)
	w = lib.NewWriter(a.Out)
	defer w.Close()
	if a.Replay != "" {
		var lsnLines, slowLines, fbLines [][3]string
		fullSeen := map[string]bool{}
		for _, l := range lib.ReplayLines(a.Replay) {
			switch l[0] {
			case "tss.hist":
				runHistory("tss.hist", parseOps(l[2]), nil, nil)
			case "tss.era":
				runHistory("tss.era", parseOps(l[2]), nil, []string{"era"})
			case "tss.flood":
				f := lib.Fields(l[2])
				flood(lib.ParseI(f[0]), lib.ParseI(f[1]), lib.ParseI(f[2]))
			case "tss.full":
				// one fill carries all parts of a family: re-run the family once
				f := lib.Fields(l[2])
				id := f[0] + " " + f[1] + " " + f[2]
				if !fullSeen[id] {
					fullSeen[id] = true
					fullFamily(lib.ParseI(f[0]), lib.ParseI(f[1]), lib.ParseI(f[2]))
				}
			case "tss.conc":
				f := lib.Fields(l[2])
				concCase(int(lib.ParseI(f[0])), int(lib.ParseI(f[1])), lib.ParseU(f[2]))
			case "lsn.hist", "lsn.noreply":
				lsnLines = append(lsnLines, l)
			case "lsn.slowlink":
				slowLines = append(slowLines, l)
			case "lsn.fallback":
				fbLines = append(fbLines, l)
			case "tss.lockdiscipline":
				lockDiscipline()
			}
		}
		if len(lsnLines) > 0 {
			lsnParent(a, "")()
		}
		if len(slowLines) > 0 {
			lsnParent(a, "slow")()
		}
		if len(fbLines) > 0 {
			lsnParent(a, "fallback")()
		}
		return
	}
	// the listener histories run in a child process (real clock, real sockets) next to the
	// store-level kinds of this process
	wait, waitSlow, waitFb := func() {}, func() {}, func() {}
	if c06only {
		wait = lsnParent(a, "")
		waitSlow = lsnParent(a, "slow")
		waitFb = lsnParent(a, "fallback")
	} else {
		wait = lsnParent(a, "few")
	}
	lockDiscipline()
	r := lib.NewRng(a.Seed)
	n := 700
	if a.Tier == "thorough" {
		n = 6000
	}
	for i := 0; i < n; i++ {
		nclients := 1 + r.Intn(6)
		nops := 5 + r.Intn(60)
		if i%10 == 0 {
			nops = 100 + r.Intn(300)
		}
		genHistory(r.Fork(), nclients, nops)
	}
	nf := 1
	if a.Tier == "thorough" {
		nf = 4
	}
	for i := 0; i < nf; i++ {
		// the kind of newcomer j is (j + variant) mod 4 (older than everybody / newer / exactly as recent as /
		// 1 ns older than the least recently active client): the LAST newcomer's kind rotates over the floods
		// of a run (and with the seed), so that each kind ends a flood; what every single newcomer did to the
		// store is recorded as well
		variant, nextra := int64(i%4), int64(3+r.Intn(40))
		for (variant+nextra-1)%4 != (int64(a.Seed%4)+int64(i))%4 {
			nextra++
		}
		flood(variant, nextra, int64(r.Intn(1<<30)))
	}
	if c06only {
		ne := 100
		if a.Tier == "thorough" {
			ne = 1000
		}
		for i := 0; i < ne; i++ {
			genEraHistory(r.Fork(), 1+r.Intn(4), 5+r.Intn(60))
		}
	}
	{
		// one fill of the 2^20 clients carries several recorded parts of 60 operations each
		nfam, nparts := 1, 5
		if a.Tier == "thorough" {
			nfam, nparts = 3, 40
		}
		for i := 0; i < nfam; i++ {
			fullFamily(int64(i), int64(nparts), int64(r.Intn(1<<30)))
		}
	}
	concCase(8, 1500, a.Seed)
	if a.Tier == "thorough" {
		concCase(16, 6000, a.Seed+1)
		concCase(32, 1000, a.Seed+2)
	}
	wait()
	waitSlow()
	waitFb()
	fmt.Fprintf(os.Stderr, "c06: %d cases\n", w.N())
}
