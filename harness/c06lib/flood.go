package c06lib

import (
	"example.com/scion-time/core/server"
	"example.com/scion-time/net/ntp"

	"verifharness/lib"
)

// flood fills the store to its real capacity with distinct clients whose
// receive times ascend, then sends nextra further unknown clients that are
// older than, equal to, or newer than the least recently active client, and
// records who has state afterwards.  The expectation is computed by the
// property oracle in Coq, not here.
func flood(variant, nextra, salt int64) {
	server.VerifResetTSS()
	capN := int64(server.VerifTSSCap)
	r := lib.NewRng(uint64(salt)*7919 + uint64(variant))
	step := int64(1000 + r.Intn(5000))
	t0 := baseSec*1e9 + 5e8
	now := t0 + capN*step + 3e9 // the clock reading is later than every receive time used
	basic := func(cid, rxt int64) handleResult {
		return doHandle(op{kind: 0, cid: cid, org: 0, rx: 7, tx: 7, rxt: rxt, now: now})
	}
	for i := int64(0); i < capN; i++ {
		basic(i, t0+i*step)
	}
	li, lq := server.VerifTSSLen()
	window := nextra + 5
	type extra struct {
		cid, rxt int64
		li, lq   int
		rx, ref  uint64 // receive and reference (= software transmit) stamp of the one reply this newcomer got
	}
	// small copy of the part of the store that can hold the minimum, used only to aim the next receive time
	type ent struct{ cid, rxt int64 }
	var small []ent
	for i := int64(0); i < window && i < capN; i++ {
		small = append(small, ent{i, t0 + i*step})
	}
	minOf := func() (int, int64) {
		mi := 0
		for i, e := range small {
			if e.rxt < small[mi].rxt {
				mi = i
			}
		}
		return mi, small[mi].rxt
	}
	var ex []extra
	var exReplies, exAdm []string
	// candidates for the least recently active position: the window of base clients and the newcomers so far
	present := map[int64]bool{}
	for i := int64(0); i < window && i < capN; i++ {
		present[i] = true
	}
	for j := int64(0); j < nextra; j++ {
		cid := capN + j
		var rxt int64
		mi, minT := minOf()
		switch (j + variant) % 4 {
		case 0: // older than everybody
			rxt = t0 - (j+1)*step
		case 1: // newer than everybody
			rxt = t0 + (capN+j)*step
		case 2: // exactly as recent as the least recently active client
			rxt = minT
		default: // just older than the least recently active client
			rxt = minT - 1
		}
		// the newcomer's request names as origin the receive stamp on record for ANOTHER client (a base
		// client of the window or an earlier newcomer), receive and transmit field differ: nothing is
		// on record for the newcomer itself, the reply must be basic
		var org uint64
		switch j % 3 {
		case 0:
			org = t64num(ntp.Time64FromTime(tm(t0 + (j%window)*step)))
		case 1:
			if len(ex) > 0 {
				org = ex[r.Intn(len(ex))].rx
			}
		}
		q := op{kind: 0, cid: cid, org: org, rx: r.U64(), tx: r.U64(), rxt: rxt, now: now}
		if j%7 == 3 {
			q.tx = q.rx
		}
		rep := doHandle(q)
		exReplies = append(exReplies, lib.L(lib.I(cid), lib.U(q.org), lib.U(q.rx), lib.U(q.tx), lib.I(q.rxt), lib.I(q.now),
			lib.U(rep.org), lib.U(rep.rx), lib.U(rep.tx), lib.U(rep.ref), lib.I(rep.rxt), lib.I(rep.txt)))
		if rxt >= minT {
			small[mi] = ent{cid, rxt}
		}
		a, b := server.VerifTSSLen()
		ex = append(ex, extra{cid, rxt, a, b, rep.rx, rep.ref})
		// what this newcomer did to the store: did it get state, and who lost it (cheap per-client reads)
		_, admitted := clientItem(cid)
		victim := int64(-1)
		for c := range present {
			if _, ok := clientItem(c); !ok {
				victim = c
				delete(present, c)
			}
		}
		if admitted {
			present[cid] = true
		}
		exAdm = append(exAdm, lib.L(lib.Bool(admitted), lib.I(victim)))
	}
	snap := server.VerifSnapshotTSS()
	have := map[int64]server.VerifTSSItem{}
	for _, it := range snap.Items {
		have[cidOf(it.Key)] = it
	}
	var baseSurv, extraState []string
	for i := int64(0); i < window && i < capN; i++ {
		if _, ok := have[i]; ok {
			baseSurv = append(baseSurv, lib.I(i))
		}
	}
	for _, e := range ex {
		if _, ok := have[e.cid]; ok {
			extraState = append(extraState, lib.I(e.cid))
		}
	}
	// what is on record for the newcomers that got state
	var exState []string
	for _, e := range ex {
		if it, ok := have[e.cid]; ok {
			es := make([]string, len(it.Entries))
			for j, en := range it.Entries {
				es[j] = lib.L(lib.U(t64num(en.Rxt)), lib.U(t64num(en.Txt)))
			}
			exState = append(exState, lib.L(lib.I(e.cid), lib.L(lib.U(e.rx), lib.U(e.ref)), lib.L(es...)))
		}
	}
	// probes: requests with receive != transmit field that name an origin, from clients with and
	// without state, each with the client's real item before and after
	var probes []string
	probe := func(cid int64, org uint64, rxt int64) {
		rec, _, _, _, _, _ := recHandle(op{kind: 0, cid: cid, org: org, rx: r.U64(), tx: r.U64(), rxt: rxt, now: now})
		probes = append(probes, rec)
	}
	newest := t0 + (capN+nextra+10)*step
	for i, e := range ex {
		if it, ok := have[e.cid]; ok && len(it.Entries) > 0 {
			// a newcomer that got state asks interleaved with its own exchange (no transmit stamp was reported: the software one is served)
			newest += step
			probe(e.cid, t64num(it.Entries[0].Rxt), newest)
			if i%2 == 0 { // and once more, now naming the exchange that the first probe replaced
				newest += step
				probe(e.cid, t64num(it.Entries[0].Rxt), newest)
			}
		} else {
			// a newcomer served without state names the receive stamp of its reply: nothing is on record
			_, hq, _ := server.VerifTSSQueueHead()
			old := nsOf64(hq) - int64(1+i)
			probe(e.cid, e.rx, old)
		}
	}
	for i := int64(0); i < window && i < capN; i++ {
		own := t64num(ntp.Time64FromTime(tm(t0 + i*step)))
		if _, ok := have[i]; ok {
			newest += step
			if i%3 == 0 {
				probe(i, t64num(ntp.Time64FromTime(tm(t0+(i+1)*step))), newest) // another client's stamp
			} else {
				probe(i, own, newest)
			}
		} else {
			// a base client that lost its state comes back naming its old exchange
			_, hq, _ := server.VerifTSSQueueHead()
			probe(i, own, nsOf64(hq)-1000-i)
		}
	}
	for k := int64(0); k < 6; k++ { // far from the minimum: recent base clients
		cid := capN - 1 - k*977
		newest += step
		probe(cid, t64num(ntp.Time64FromTime(tm(t0+cid*step))), newest)
	}
	// structural observations on the real queue
	heapViol, qidxViol, qvalViol := 0, 0, 0
	qv := make([]ntp.Time64, len(snap.Queue))
	for i, k := range snap.Queue {
		it, ok := have[cidOf(k)]
		if !ok {
			qidxViol++
			continue
		}
		qv[i] = it.Qval
		if it.Qidx != i {
			qidxViol++
		}
		for _, e := range it.Entries {
			if it.Qval.Before(e.Rxt) {
				qvalViol++
			}
		}
	}
	for i := 1; i < len(qv); i++ {
		if qv[i].Before(qv[(i-1)/2]) {
			heapViol++
		}
	}
	exs := make([]string, len(ex))
	lens := make([]string, len(ex))
	for i, e := range ex {
		exs[i] = lib.L(lib.I(e.cid), lib.U(t64num(ntp.Time64FromTime(tm(e.rxt)))))
		lens[i] = lib.L(lib.I(int64(e.li)), lib.I(int64(e.lq)))
	}
	q0 := uint64(0)
	if len(qv) > 0 {
		q0 = t64num(qv[0])
	}
	w.Case("tss.flood", "nt,flood",
		lib.V(lib.I(variant), lib.I(nextra), lib.I(salt)),
		lib.V(lib.I(capN), lib.U(t64num(ntp.Time64FromTime(tm(t0)))), lib.I(window),
			lib.L(lib.I(int64(li)), lib.I(int64(lq))),
			lib.L(exs...), lib.L(lens...), lib.L(baseSurv...), lib.L(extraState...),
			lib.L(lib.I(int64(len(snap.Items))), lib.I(int64(len(snap.Queue))), lib.I(int64(heapViol)), lib.I(int64(qidxViol)), lib.I(int64(qvalViol)), lib.U(q0)),
			baseInputs(t0, step, window, capN),
			lib.L(lib.L(exState...), lib.L(exReplies...), lib.L(probes...), lib.L(exAdm...))))
	server.VerifResetTSS()
}

// the receive stamps given to the first window base clients (inputs, echoed for the oracle)
func baseInputs(t0, step, window, capN int64) string {
	var s []string
	for i := int64(0); i < window && i < capN; i++ {
		s = append(s, lib.L(lib.I(i), lib.U(t64num(ntp.Time64FromTime(tm(t0+i*step))))))
	}
	return lib.L(s...)
}
