package c06lib

// Case kind lsn.fallback: requests that reach the real listeners WITHOUT a
// kernel receive timestamp.  The harness switches the receive timestamps of the
// listener sockets off (SO_TIMESTAMPING with SOF_TIMESTAMPING_OPT_RX_FILTER and
// without RX_SOFTWARE: transmit stamps and their ids keep working), so that the
// listeners take their `rxt = timebase.Now()` path, and scripts the clock the
// listeners read: the receive time and the handling time of such an exchange are
// chosen by the harness - equal to the receive time of an exchange that is on
// record for the client (the uniqueness loop of handleRequest then runs at the
// listener and moves the receive time, and the transmit-timestamp report must be
// made for the MOVED time), 1 ns before it, or somewhere else in the past;
// handling time not later than / 1 ns after / well after the receive time.
// One client socket per history (one listener goroutine).

import (
	"bufio"
	"encoding/binary"
	"fmt"
	"os"
	"strings"
	"time"

	"golang.org/x/sys/unix"

	"example.com/scion-time/core/server"
	"example.com/scion-time/net/ntp"

	"verifharness/lib"
)

const sofTimestampingOptRxFilter = 1 << 17 // SOF_TIMESTAMPING_OPT_RX_FILTER (Linux 6.12)

// listenerFds finds the sockets of the listeners in this process (bound to the listener address).
func (d *lsnDrv) listenerFds() []int {
	ents, err := os.ReadDir("/proc/self/fd")
	if err != nil {
		return nil
	}
	var fds []int
	want := d.srv.To4()
	for _, e := range ents {
		var fd int
		if _, err := fmt.Sscanf(e.Name(), "%d", &fd); err != nil {
			continue
		}
		sa, err := unix.Getsockname(fd)
		if err != nil {
			continue
		}
		if a, ok := sa.(*unix.SockaddrInet4); ok && (a.Port == lsnIPPort || a.Port == lsnScionPort) &&
			a.Addr[0] == want[0] && a.Addr[1] == want[1] && a.Addr[2] == want[2] && a.Addr[3] == want[3] {
			if t, err := unix.GetsockoptInt(fd, unix.SOL_SOCKET, unix.SO_TYPE); err == nil && t == unix.SOCK_DGRAM {
				fds = append(fds, fd)
			}
		}
	}
	return fds
}

// rxStamps switches the kernel receive timestamps of the listener sockets on or off; transmit
// timestamps (and the id counter) stay as udp.EnableTimestamping set them.
func (d *lsnDrv) rxStamps(fds []int, on bool) error {
	flags := unix.SOF_TIMESTAMPING_OPT_ID | unix.SOF_TIMESTAMPING_OPT_TSONLY |
		unix.SOF_TIMESTAMPING_SOFTWARE | unix.SOF_TIMESTAMPING_TX_SOFTWARE
	if on {
		flags |= unix.SOF_TIMESTAMPING_RX_SOFTWARE
	} else {
		flags |= sofTimestampingOptRxFilter
	}
	for _, fd := range fds {
		if err := unix.SetsockoptInt(fd, unix.SOL_SOCKET, unix.SO_TIMESTAMPING_NEW, flags); err != nil {
			return err
		}
	}
	return nil
}

// a scripted step: an lstepS; fb 1: sent while the receive stamps are off, with the two clock readings
// vsel/voff, wsel/woff: V = (receive time of step vk's reply, or of the first reply) + voff ns, W = V + woff ns
type fstep struct {
	lstepS
	fb         int
	vk         int
	voff, woff int64
}

func (s fstep) String() string {
	return lib.L(lib.I(int64(s.lsn)), lib.I(int64(s.a)), lib.I(int64(s.b)), lib.I(int64(s.c)), lib.I(int64(s.u)),
		lib.I(int64(s.mode)), lib.I(int64(s.k)), lib.U(s.x), lib.U(s.y), lib.U(s.z),
		lib.I(int64(s.fb)), lib.I(int64(s.vk)), lib.I(s.voff), lib.I(s.woff))
}

func (d *lsnDrv) runFallbackHistory(fds []int, steps []fstep) {
	ss := make([]string, len(steps))
	for i, s := range steps {
		ss[i] = s.String()
	}
	args := lib.L(ss...)
	lsnEmit("CUR", "lsn.fallback", "", args, "")
	time.Sleep(5 * time.Millisecond)
	d.rxStamps(fds, true)
	server.VerifResetTSS()
	d.fl.take()
	reps := make([]lsnRep, len(steps))
	off := false
	nInter, nFb, nColl, nClockNotLater, nInterFb := 0, 0, 0, 0, 0
	for i, s := range steps {
		if d.lost {
			break
		}
		if (s.fb == 1) != off {
			off = s.fb == 1
			if err := d.rxStamps(fds, !off); err != nil {
				lsnNote("c06: cannot switch the listeners' receive timestamps: " + err.Error())
				d.lost = true
				break
			}
		}
		req := make([]byte, ntp.PacketLen)
		req[0] = 4<<3 | 3
		org, rx, tx := s.x, s.y, s.z
		if s.mode != 0 && s.k >= 0 && s.k < i && reps[s.k].got {
			p := reps[s.k]
			switch s.mode {
			case 1:
				org, rx = p.rx, p.tx
				if tx == rx {
					tx++
				}
			case 2:
				org, rx = p.rx, tx
			case 3:
				org, rx, tx = p.qorg, p.qrx, p.qtx
			case 4:
				org = p.rx
			}
		}
		binary.BigEndian.PutUint64(req[24:], org)
		binary.BigEndian.PutUint64(req[32:], rx)
		binary.BigEndian.PutUint64(req[40:], tx)
		r := lsnRep{qorg: org, qrx: rx, qtx: tx}
		if s.fb == 1 {
			// the two readings of the listener's clock for this exchange, both in the past
			base := int64(0)
			if s.vk >= 0 && s.vk < i && reps[s.vk].got {
				base = nsOf64(t64of(reps[s.vk].rx))
			} else {
				for j := 0; j < i; j++ {
					if reps[j].got {
						base = nsOf64(t64of(reps[j].rx))
						break
					}
				}
			}
			if base == 0 {
				t := time.Now().Add(-time.Second)
				base = t.Unix()*1e9 + int64(t.Nanosecond())
			}
			r.fb, r.fv, r.fw = true, base+s.voff, base+s.voff+s.woff
			d.clk.setScript(tm(r.fv), tm(r.fw))
			nFb++
			if s.woff <= 0 {
				nClockNotLater++
			}
		}
		rep, crx, ok := d.exchange(s.lstepS, req)
		if s.fb == 1 {
			if n := d.clk.pending(); n != 0 {
				// the listener did not read the clock twice: it did not take the fallback path
				lsnNote(fmt.Sprintf("c06: %d scripted clock readings were not consumed by the listener", n))
				d.clk.setScript()
				r.fb = false
			}
		}
		r.got, r.crx = ok, crx
		if ok {
			r.ref, r.org, r.rx, r.tx = be64(rep[16:]), be64(rep[24:]), be64(rep[32:]), be64(rep[40:])
			if r.fb && r.rx != t64num(ntp.Time64FromTime(tm(r.fv))) {
				nColl++
			}
			if rx != tx && r.org == rx {
				nInter++
				if s.k >= 0 && s.k < i && reps[s.k].fb {
					nInterFb++
				}
			}
		}
		reps[i] = r
	}
	d.rxStamps(fds, true)
	time.Sleep(2 * time.Millisecond)
	nfail := attributeUnread(reps, d.fl.take(), nil)
	var outs []string
	for i, s := range steps {
		outs = append(outs, wireRow(s.lstepS, reps[i]))
	}
	var tags []string
	add := func(c bool, t string) {
		if c {
			tags = append(tags, t)
		}
	}
	add(nInter > 0, "inter")
	add(nFb > 0, "no-rx-stamp")
	add(nColl > 0, "collision")
	add(nClockNotLater > 0, "clock-not-later")
	add(nInterFb > 0, "inter-names-fallback")
	add(nfail > 0, "tx-unread")
	add(steps[0].lsn == 1, "scion")
	add(steps[0].lsn == 0, "ip")
	add(nFb > 0 && nColl > 0 && nInter > 0, "nt")
	lsnEmit("CASE", "lsn.fallback", strings.Join(tags, ","), args, lib.V(lib.L(outs...), "1", "0"))
}

func genFallbackHistory(r *lib.Rng) []fstep {
	base := lstepS{lsn: r.Intn(2)}
	if base.lsn == 0 {
		base.a, base.b = r.Intn(lsnNAddr), r.Intn(lsnNPort)
	} else {
		base.a, base.b, base.c, base.u = r.Intn(lsnNIA), r.Intn(lsnNHost), r.Intn(lsnNScionPort), r.Intn(lsnNUnderlay)
	}
	var steps []fstep
	used := map[int]bool{}
	pick := func() (int, int) { // a request naming an earlier exchange at most once (it is replaced when served)
		n := len(steps)
		if n == 0 {
			return 0, -1
		}
		switch c := r.Intn(10); {
		case c < 6:
			k := n - 1 - r.Intn(min(n, 4))
			if !used[k] {
				used[k] = true
				return 1, k
			}
		case c < 7:
			return 3, r.Intn(n)
		case c < 8:
			return 4, r.Intn(n)
		}
		return 0, -1
	}
	phases := 2 + r.Intn(3)
	for ph := 0; ph < phases; ph++ {
		fb := ph % 2
		n := 2 + r.Intn(5)
		for i := 0; i < n; i++ {
			s := fstep{lstepS: base, fb: fb, vk: -1}
			s.x, s.y, s.z = r.U64(), r.U64(), r.U64()
			s.mode, s.k = pick()
			if fb == 1 {
				if len(steps) > 0 {
					s.vk = len(steps) - 1 - r.Intn(min(len(steps), 5))
				}
				s.voff = lib.Pick(r, int64(0), 0, 0, 1, -1, 2, -1000, -int64(r.Intn(1000000)))
				s.woff = lib.Pick(r, int64(0), -5, 1, 2, int64(1+r.Intn(100000)), int64(1+r.Intn(100000)))
			}
			steps = append(steps, s)
		}
	}
	return steps
}

func parseFallbackScript(sv string) []fstep {
	sv = strings.TrimSpace(sv)
	sv = strings.TrimPrefix(sv, "[")
	sv = strings.TrimSuffix(sv, "]")
	var steps []fstep
	for _, part := range strings.Split(sv, "]") {
		part = strings.TrimSpace(part)
		part = strings.TrimPrefix(part, "[")
		f := strings.Fields(part)
		if len(f) == 0 {
			continue
		}
		if len(f) != 14 {
			panic("bad fallback step in replay: " + part)
		}
		steps = append(steps, fstep{lstepS: lstepS{lsn: int(lib.ParseI(f[0])), a: int(lib.ParseI(f[1])), b: int(lib.ParseI(f[2])), c: int(lib.ParseI(f[3])),
			u: int(lib.ParseI(f[4])), mode: int(lib.ParseI(f[5])), k: int(lib.ParseI(f[6])), x: lib.ParseU(f[7]), y: lib.ParseU(f[8]), z: lib.ParseU(f[9])},
			fb: int(lib.ParseI(f[10])), vk: int(lib.ParseI(f[11])), voff: lib.ParseI(f[12]), woff: lib.ParseI(f[13])})
	}
	return steps
}

func lsnFallbackChild(a lib.Args) {
	lout = bufio.NewWriterSize(os.Stdout, 1<<20)
	defer lout.Flush()
	d := newLsnDrv()
	fds := d.listenerFds()
	if len(fds) == 0 {
		lsnNote("c06: lsn.fallback skipped: the listener sockets were not found in /proc/self/fd")
		return
	}
	if err := d.rxStamps(fds, false); err != nil {
		lsnNote("c06: lsn.fallback skipped: this kernel cannot filter receive timestamps per socket (SOF_TIMESTAMPING_OPT_RX_FILTER): " + err.Error())
		return
	}
	d.rxStamps(fds, true)
	if a.Replay != "" {
		for _, l := range lib.ReplayLines(a.Replay) {
			if l[0] == "lsn.fallback" && !d.lost {
				d.runFallbackHistory(fds, parseFallbackScript(l[2]))
			}
		}
		return
	}
	r := lib.NewRng(a.Seed ^ 0x66616c6c)
	n := 60
	if a.Tier == "thorough" {
		n = 800
	}
	for i := 0; i < n && !d.lost; i++ {
		d.runFallbackHistory(fds, genFallbackHistory(r.Fork()))
	}
}
