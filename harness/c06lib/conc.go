package c06lib

// Case kinds tss.conc (every run) and tss.race (thorough tier, binary built with
// -race): handleRequest / updateTXTimestamp called from many goroutines at once
// on a store that was filled to its real capacity first, so that the eviction
// (heap.Pop), the stateless path and the ordinary paths run concurrently.
//
// Every client is driven by one goroutine only.  Its calls are recorded with
// inputs and outputs in that goroutine's program order, together with the
// client's item before the goroutines start and after they have finished; the
// model is then run per client on its own calls (Coq: conc_client).  The clock
// is frozen at one reading later than every receive time used, so the
// transmit time of a call does not depend on the schedule.

import (
	"fmt"
	"sync"
	"time"

	"github.com/prometheus/client_golang/prometheus"

	"example.com/scion-time/core/server"
	"example.com/scion-time/core/timebase"
	"example.com/scion-time/net/ntp"

	"verifharness/lib"
)

type concClient struct {
	cid   int64
	old   bool
	pre   string
	calls []string
	rxts  []int64  // receive times used (final), ns
	reps  []uint64 // receive stamps of the replies
	pend  []fullPend
	kept  int // lower bound of the number of exchanges on record for the client
}

// ConcRun fills the store, runs ng goroutines with nops calls each and returns the observations
// (clients, counts) in case-file syntax.
func ConcRun(ng, nops int, seed uint64) (clients, counts string) {
	server.VerifResetTSS()
	capN := int64(server.VerifTSSCap)
	step := int64(2000)
	t0 := baseSec*1e9 + 9e8
	now := t0 + capN*step + int64(ng+10)*1e9 // later than every receive time used below (each goroutine stays within its own second)
	clk.now = tm(now)                        // frozen for the whole run: later than every receive time below
	call := func(cid int64, org, rx, tx uint64, rxt int64) handleResult {
		var req ntp.Packet
		req.SetVersion(ntp.VersionMax)
		req.SetMode(ntp.ModeClient)
		req.OriginTime, req.ReceiveTime, req.TransmitTime = t64of(org), t64of(rx), t64of(tx)
		r := tm(rxt)
		var txt time.Time
		var resp ntp.Packet
		server.VerifHandleRequest(key(cid), &req, &r, &txt, &resp)
		return handleResult{t64num(resp.OriginTime), t64num(resp.ReceiveTime), t64num(resp.TransmitTime), t64num(resp.ReferenceTime), ns(r), ns(txt)}
	}
	for i := int64(0); i < capN; i++ {
		call(i, 0, 7, 7, t0+i*step)
	}
	const perG = 6
	all := make([][]*concClient, ng)
	newest := t0 + capN*step
	for g := 0; g < ng; g++ {
		for k := 0; k < perG; k++ {
			c := &concClient{cid: capN/2 + int64(g*perG+k)*2039, kept: 1}
			it, ok := clientItem(c.cid)
			c.pre = fmtClientItem(it, ok)
			c.rxts = append(c.rxts, t0+c.cid*step)
			c.reps = append(c.reps, t64num(ntp.Time64FromTime(tm(t0+c.cid*step))))
			all[g] = append(all[g], c)
		}
		// clients never seen before: two that are more recent than everybody (admitted, they evict the
		// least recently active clients), two that are older than everybody (served without state)
		for k := 0; k < 4; k++ {
			c := &concClient{cid: capN + int64(g*4+k), old: k >= 2, pre: "[]"}
			all[g] = append(all[g], c)
		}
	}
	var wg sync.WaitGroup
	for g := 0; g < ng; g++ {
		wg.Add(1)
		go func(g int) {
			defer wg.Done()
			r := lib.NewRng(seed*7919 + uint64(g)*104729 + 3)
			mine := all[g]
			t := newest + int64(g+1)*1e9 // this goroutine's own range of receive times
			for i := 0; i < nops; i++ {
				c := mine[r.Intn(len(mine))]
				if len(c.pend) > 0 && r.Intn(100) < 40 {
					j := r.Intn(len(c.pend))
					p := c.pend[j]
					c.pend = append(c.pend[:j], c.pend[j+1:]...)
					txt := p.txt + r.Range(1, 50000)
					switch r.Intn(6) {
					case 0, 1:
						// unread: the exchange is dropped - but never the last one of a client: an item that
						// disappears would leave the store below its capacity, and which unknown client is
						// then admitted depends on the schedule
						if c.kept >= 2 {
							txt = p.txt
							c.kept--
						}
					case 2:
						txt = p.rxt - r.Range(0, 30)
					}
					tt := tm(txt)
					server.VerifUpdateTXTimestamp(key(c.cid), tm(p.rxt), &tt)
					c.calls = append(c.calls, lib.L("1", lib.I(p.rxt), lib.I(txt), lib.I(ns(tt))))
					continue
				}
				var rxt int64
				switch {
				case c.old:
					rxt = t0 - int64(1+r.Intn(1000000)) // older than every client of the store
				case len(c.rxts) > 0 && r.Intn(5) == 0:
					rxt = c.rxts[r.Intn(len(c.rxts))] // collides with an earlier one of this client
				case len(c.rxts) > 0 && r.Intn(8) == 0:
					rxt = c.rxts[len(c.rxts)-1] - r.Range(1, 500)
				default:
					t += r.Range(1, 100000)
					rxt = t
				}
				if !c.old && len(c.rxts) == 0 {
					t += r.Range(1, 100000)
					rxt = t // first request of a new client: more recent than everybody
				}
				var org uint64
				if len(c.reps) > 0 && r.Intn(10) < 6 {
					org = c.reps[len(c.reps)-1-r.Intn(min(len(c.reps), 3))]
				} else if r.Intn(4) == 0 {
					org = r.U64()
				}
				rx, tx := r.U64(), r.U64()
				if r.Intn(6) == 0 {
					tx = rx
				}
				res := call(c.cid, org, rx, tx, rxt)
				c.calls = append(c.calls, lib.L("0", lib.U(org), lib.U(rx), lib.U(tx), lib.I(rxt), lib.I(now),
					lib.U(res.org), lib.U(res.rx), lib.U(res.tx), lib.U(res.ref), lib.I(res.rxt), lib.I(res.txt)))
				named := false
				for _, x := range c.reps {
					if x == org {
						named = true
					}
				}
				if !named && c.kept < server.VerifTSSItemCap {
					c.kept++
				}
				c.rxts = append(c.rxts, res.rxt)
				c.reps = append(c.reps, res.rx)
				if !c.old {
					c.pend = append(c.pend, fullPend{c.cid, res.rxt, res.txt})
				}
			}
		}(g)
	}
	wg.Wait()
	var cs []string
	for g := 0; g < ng; g++ {
		for _, c := range all[g] {
			if len(c.calls) == 0 {
				continue
			}
			it, ok := clientItem(c.cid)
			cs = append(cs, lib.L(lib.I(c.cid), lib.Bool(c.old), c.pre, lib.L(c.calls...), fmtClientItem(it, ok)))
		}
	}
	// structure of the real queue array afterwards
	snap := server.VerifSnapshotTSS()
	have := map[string]server.VerifTSSItem{}
	for _, it := range snap.Items {
		have[it.Key] = it
	}
	heapViol, qidxViol, qvalViol := 0, 0, 0
	qv := make([]ntp.Time64, len(snap.Queue))
	for i, k := range snap.Queue {
		it, ok := have[k]
		if !ok {
			qidxViol++
			continue
		}
		qv[i] = it.Qval
		if it.Qidx != i {
			qidxViol++
		}
		for _, e := range it.Entries {
			if it.Qval.Before(e.Rxt) {
				qvalViol++
			}
		}
	}
	for i := 1; i < len(qv); i++ {
		if qv[i].Before(qv[(i-1)/2]) {
			heapViol++
		}
	}
	server.VerifResetTSS()
	return lib.L(cs...), lib.L(lib.I(int64(len(snap.Items))), lib.I(int64(len(snap.Queue))), lib.I(int64(heapViol)), lib.I(int64(qidxViol)), lib.I(int64(qvalViol)))
}

func concCase(ng, nops int, seed uint64) {
	clients, counts := ConcRun(ng, nops, seed)
	w.Case("tss.conc", "nt,concurrent", lib.V(lib.I(int64(ng)), lib.I(int64(nops)), lib.U(seed)), lib.V(clients, counts))
}

// RaceChild is the body of the child process of cmd/c07race (built with -race): it prints the observations.
func RaceChild(ng, nops int, seed uint64) {
	timebase.RegisterClock(clk)
	// a metrics scrape at the same time: whatever the package registered with the default registry is
	// collected over and over while clients are added and removed, so that the race detector sees any
	// collector that reads the store without the lock
	stop := make(chan struct{})
	scraped := make(chan int)
	go func() {
		n := 0
		for {
			select {
			case <-stop:
				scraped <- n
				return
			default:
				prometheus.DefaultGatherer.Gather()
				n++
			}
		}
	}()
	clients, counts := ConcRun(ng, nops, seed)
	close(stop)
	fmt.Printf("NOTE c07race: %d metrics scrapes during the concurrent run\n", <-scraped)
	fmt.Printf("CONC\t%s\t%s\n", clients, counts)
}
