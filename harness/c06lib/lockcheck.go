package c06lib

import (
	"fmt"
	"go/ast"
	"go/parser"
	"go/token"
	"os"
	"path/filepath"
	"sort"
	"strings"

	"verifharness/lib"
)

// lockDiscipline checks, on the source of core/server as it is now, the premise
// of the serialisability theorem: every function (in non-test files, hook file
// excluded) that mentions the shared store (tss, tssQ) takes tssMu at the top
// level of its body with `tssMu.Lock(); defer tssMu.Unlock()` before the first
// mention, and never unlocks otherwise.  Methods of tssQueue are exempt: they
// only run inside container/heap calls made under the lock.
func lockDiscipline() {
	repo := os.Getenv("VERIF_REPO")
	if repo == "" {
		repo = "/repo"
	}
	dir := filepath.Join(repo, "core", "server")
	fset := token.NewFileSet()
	entries, err := os.ReadDir(dir)
	if err != nil {
		panic(err)
	}
	var viol []string
	nfuncs, nguarded, muDecls := 0, 0, 0
	shared := map[string]bool{"tss": true, "tssQ": true}
	for _, e := range entries {
		n := e.Name()
		if !strings.HasSuffix(n, ".go") || strings.HasSuffix(n, "_test.go") || strings.HasSuffix(n, "_verif.go") {
			continue
		}
		f, err := parser.ParseFile(fset, filepath.Join(dir, n), nil, 0)
		if err != nil {
			panic(err)
		}
		for _, d := range f.Decls {
			if gd, ok := d.(*ast.GenDecl); ok && gd.Tok != token.IMPORT {
				// outside function declarations (initialisers of package-level variables, function literals in
				// them, type and constant declarations) the store and its mutex must not be mentioned at all:
				// such code runs whenever somebody calls it (a metrics callback, say), not under the lock
				for _, sp := range gd.Specs {
					var exprs []ast.Node
					switch x := sp.(type) {
					case *ast.ValueSpec:
						if x.Type != nil {
							exprs = append(exprs, x.Type)
						}
						for _, v := range x.Values {
							exprs = append(exprs, v)
						}
					case *ast.TypeSpec:
						exprs = append(exprs, x.Type)
					}
					for _, e := range exprs {
						ast.Inspect(e, func(m ast.Node) bool {
							if id, ok := m.(*ast.Ident); ok && (shared[id.Name] || id.Name == "tssMu") {
								viol = append(viol, n+fmt.Sprintf(": `%s` is mentioned outside any function declaration (%s): code there does not run under tssMu",
									id.Name, fset.Position(id.Pos()).String()[len(dir)+1:]))
							}
							return true
						})
					}
				}
			}
			if gd, ok := d.(*ast.GenDecl); ok && gd.Tok == token.VAR {
				for _, sp := range gd.Specs {
					vs, ok := sp.(*ast.ValueSpec)
					if !ok {
						continue
					}
					for _, nm := range vs.Names {
						if nm.Name != "tssMu" {
							continue
						}
						muDecls++
						se, ok := vs.Type.(*ast.SelectorExpr)
						pk, ok2 := interface{}(nil), false
						if ok {
							pk, ok2 = se.X.(*ast.Ident)
						}
						isSync := false
						for _, im := range f.Imports {
							if im.Path.Value == `"sync"` && (im.Name == nil || im.Name.Name == "sync") {
								isSync = true
							}
						}
						if !ok || !ok2 || pk.(*ast.Ident).Name != "sync" || se.Sel.Name != "Mutex" || !isSync || len(vs.Values) != 0 {
							viol = append(viol, n+": tssMu is not declared as a plain `sync.Mutex` of the standard library")
						}
					}
				}
			}
			fd, ok := d.(*ast.FuncDecl)
			if !ok || fd.Body == nil {
				continue
			}
			nfuncs++
			if fd.Recv != nil && len(fd.Recv.List) == 1 {
				t := fd.Recv.List[0].Type
				if st, ok := t.(*ast.StarExpr); ok {
					t = st.X
				}
				if id, ok := t.(*ast.Ident); ok && id.Name == "tssQueue" {
					continue
				}
			}
			// position of the first mention of the shared store (shadowing declarations would be
			// reported as violations too: conservative)
			first := token.NoPos
			var unlocks, locks []token.Pos
			var goStmts, funcLits, otherMu, itemMentions int
			// the item type, its distinctive fields and the queue type may be named only by the two
			// functions that work under the lock (and the queue's own methods): nothing else can hold,
			// take or return a *tssItem and write to it outside the critical section
			mentionsItem := func(nd ast.Node) {
				ast.Inspect(nd, func(m ast.Node) bool {
					switch y := m.(type) {
					case *ast.Ident:
						if y.Name == "tssItem" || y.Name == "tssQueue" {
							itemMentions++
						}
					case *ast.SelectorExpr:
						if y.Sel.Name == "buf" || y.Sel.Name == "qval" || y.Sel.Name == "qidx" {
							itemMentions++
						}
					}
					return true
				})
			}
			// (other queue types of the package have fields of the same names: their methods are not looked at)
			if fd.Recv == nil {
				mentionsItem(fd.Type)
				mentionsItem(fd.Body)
			} else {
				ast.Inspect(fd, func(m ast.Node) bool {
					if y, ok := m.(*ast.Ident); ok && (y.Name == "tssItem" || y.Name == "tssQueue") {
						itemMentions++
					}
					return true
				})
			}
			ast.Inspect(fd.Body, func(nd ast.Node) bool {
				switch x := nd.(type) {
				case *ast.GoStmt:
					goStmts++
				case *ast.FuncLit:
					funcLits++
				case *ast.SelectorExpr:
					if id, ok := x.X.(*ast.Ident); ok && id.Name == "tssMu" && x.Sel.Name != "Lock" && x.Sel.Name != "Unlock" {
						otherMu++
					}
				}
				switch x := nd.(type) {
				case *ast.Ident:
					if shared[x.Name] && x.Obj == nil || (shared[x.Name] && x.Obj != nil && x.Obj.Kind == ast.Var && x.Obj.Pos() < fd.Pos()) {
						if first == token.NoPos || x.Pos() < first {
							first = x.Pos()
						}
					}
				case *ast.CallExpr:
					if se, ok := x.Fun.(*ast.SelectorExpr); ok {
						if id, ok := se.X.(*ast.Ident); ok && id.Name == "tssMu" {
							if se.Sel.Name == "Lock" {
								locks = append(locks, x.Pos())
							} else if se.Sel.Name == "Unlock" {
								unlocks = append(unlocks, x.Pos())
							}
						}
					}
				}
				return true
			})
			if first == token.NoPos && len(locks) == 0 && len(unlocks) == 0 && otherMu == 0 {
				if itemMentions > 0 {
					viol = append(viol, n+":"+fd.Name.Name+": names the item or queue type of the store (or its fields buf/qval/qidx) outside the functions that hold tssMu")
				}
				continue
			}
			nguarded++
			if goStmts > 0 || funcLits > 0 {
				viol = append(viol, n+":"+fd.Name.Name+fmt.Sprintf(": %d go statements and %d function literals inside a function that works under tssMu (code that may run outside the critical section)", goStmts, funcLits))
			}
			if otherMu > 0 {
				viol = append(viol, n+":"+fd.Name.Name+": tssMu used other than by Lock/Unlock (TryLock, copy, address taken)")
			}
			// the lock must be taken by a top-level statement of the body, immediately followed by the deferred unlock
			lockPos := token.NoPos
			for i, st := range fd.Body.List {
				es, ok := st.(*ast.ExprStmt)
				if !ok {
					continue
				}
				ce, ok := es.X.(*ast.CallExpr)
				if !ok {
					continue
				}
				se, ok := ce.Fun.(*ast.SelectorExpr)
				if !ok {
					continue
				}
				id, ok := se.X.(*ast.Ident)
				if !ok || id.Name != "tssMu" || se.Sel.Name != "Lock" {
					continue
				}
				if i+1 < len(fd.Body.List) {
					if ds, ok := fd.Body.List[i+1].(*ast.DeferStmt); ok {
						if se2, ok := ds.Call.Fun.(*ast.SelectorExpr); ok {
							if id2, ok := se2.X.(*ast.Ident); ok && id2.Name == "tssMu" && se2.Sel.Name == "Unlock" {
								lockPos = ce.Pos()
							}
						}
					}
				}
				break
			}
			name := n + ":" + fd.Name.Name
			switch {
			case lockPos == token.NoPos:
				viol = append(viol, name+": shared store used without `tssMu.Lock(); defer tssMu.Unlock()` at the top level of the function")
			case first != token.NoPos && first < lockPos:
				viol = append(viol, name+": shared store mentioned before the lock is taken")
			case len(locks) != 1 || len(unlocks) != 1:
				viol = append(viol, name+fmt.Sprintf(": %d Lock and %d Unlock calls (expected exactly the top-level pair)", len(locks), len(unlocks)))
			}
		}
	}
	if muDecls != 1 {
		viol = append(viol, fmt.Sprintf("core/server declares tssMu %d times (expected one package-level sync.Mutex)", muDecls))
	}
	sort.Strings(viol)
	vs := make([]string, len(viol))
	for i, v := range viol {
		vs[i] = lib.B([]byte(v))
	}
	w.Case("tss.lockdiscipline", "nt", lib.V(lib.I(int64(nfuncs)), lib.I(int64(nguarded))), lib.V(lib.L(vs...)))
	for _, v := range viol {
		fmt.Println("NOTE lock discipline: " + v)
	}
}
