package c06lib

import (
	"fmt"
	"go/ast"
	"go/parser"
	"go/token"
	"os"
	"path/filepath"
	"sort"
	"strings"

	"verifharness/lib"
)

// lockDiscipline checks, on the source of core/server as it is now, the premise
// of the serialisability theorem: every function (in non-test files, hook file
// excluded) that mentions the shared store (tss, tssQ) takes tssMu at the top
// level of its body with `tssMu.Lock(); defer tssMu.Unlock()` before the first
// mention, and never unlocks otherwise.  Methods of tssQueue are exempt: they
// only run inside container/heap calls made under the lock.
func lockDiscipline() {
	repo := os.Getenv("VERIF_REPO")
	if repo == "" {
		repo = "/repo"
	}
	dir := filepath.Join(repo, "core", "server")
	fset := token.NewFileSet()
	entries, err := os.ReadDir(dir)
	if err != nil {
		panic(err)
	}
	var viol []string
	nfuncs, nguarded := 0, 0
	shared := map[string]bool{"tss": true, "tssQ": true}
	for _, e := range entries {
		n := e.Name()
		if !strings.HasSuffix(n, ".go") || strings.HasSuffix(n, "_test.go") || strings.HasSuffix(n, "_verif.go") {
			continue
		}
		f, err := parser.ParseFile(fset, filepath.Join(dir, n), nil, 0)
		if err != nil {
			panic(err)
		}
		for _, d := range f.Decls {
			fd, ok := d.(*ast.FuncDecl)
			if !ok || fd.Body == nil {
				continue
			}
			nfuncs++
			if fd.Recv != nil && len(fd.Recv.List) == 1 {
				t := fd.Recv.List[0].Type
				if st, ok := t.(*ast.StarExpr); ok {
					t = st.X
				}
				if id, ok := t.(*ast.Ident); ok && id.Name == "tssQueue" {
					continue
				}
			}
			// position of the first mention of the shared store (shadowing declarations would be
			// reported as violations too: conservative)
			first := token.NoPos
			var unlocks, locks []token.Pos
			ast.Inspect(fd.Body, func(nd ast.Node) bool {
				switch x := nd.(type) {
				case *ast.Ident:
					if shared[x.Name] && x.Obj == nil || (shared[x.Name] && x.Obj != nil && x.Obj.Kind == ast.Var && x.Obj.Pos() < fd.Pos()) {
						if first == token.NoPos || x.Pos() < first {
							first = x.Pos()
						}
					}
				case *ast.CallExpr:
					if se, ok := x.Fun.(*ast.SelectorExpr); ok {
						if id, ok := se.X.(*ast.Ident); ok && id.Name == "tssMu" {
							if se.Sel.Name == "Lock" {
								locks = append(locks, x.Pos())
							} else if se.Sel.Name == "Unlock" {
								unlocks = append(unlocks, x.Pos())
							}
						}
					}
				}
				return true
			})
			if first == token.NoPos && len(locks) == 0 && len(unlocks) == 0 {
				continue
			}
			nguarded++
			// the lock must be taken by a top-level statement of the body, immediately followed by the deferred unlock
			lockPos := token.NoPos
			for i, st := range fd.Body.List {
				es, ok := st.(*ast.ExprStmt)
				if !ok {
					continue
				}
				ce, ok := es.X.(*ast.CallExpr)
				if !ok {
					continue
				}
				se, ok := ce.Fun.(*ast.SelectorExpr)
				if !ok {
					continue
				}
				id, ok := se.X.(*ast.Ident)
				if !ok || id.Name != "tssMu" || se.Sel.Name != "Lock" {
					continue
				}
				if i+1 < len(fd.Body.List) {
					if ds, ok := fd.Body.List[i+1].(*ast.DeferStmt); ok {
						if se2, ok := ds.Call.Fun.(*ast.SelectorExpr); ok {
							if id2, ok := se2.X.(*ast.Ident); ok && id2.Name == "tssMu" && se2.Sel.Name == "Unlock" {
								lockPos = ce.Pos()
							}
						}
					}
				}
				break
			}
			name := n + ":" + fd.Name.Name
			switch {
			case lockPos == token.NoPos:
				viol = append(viol, name+": shared store used without `tssMu.Lock(); defer tssMu.Unlock()` at the top level of the function")
			case first != token.NoPos && first < lockPos:
				viol = append(viol, name+": shared store mentioned before the lock is taken")
			case len(locks) != 1 || len(unlocks) != 1:
				viol = append(viol, name+fmt.Sprintf(": %d Lock and %d Unlock calls (expected exactly the top-level pair)", len(locks), len(unlocks)))
			}
		}
	}
	sort.Strings(viol)
	vs := make([]string, len(viol))
	for i, v := range viol {
		vs[i] = lib.B([]byte(v))
	}
	w.Case("tss.lockdiscipline", "nt", lib.V(lib.I(int64(nfuncs)), lib.I(int64(nguarded))), lib.V(lib.L(vs...)))
	for _, v := range viol {
		fmt.Println("NOTE lock discipline: " + v)
	}
}
