package c06lib

// Case kind lsn.slowlink: the real listeners behind a rate-limited loopback
// (token bucket filter in a network namespace of the child's own).  A reply that
// finds the bucket empty leaves the interface some milliseconds after sendmsg,
// and only then does the kernel generate its software transmit timestamp: the
// listener, which waits 1 ms for it, finds none ("failed to read packet tx
// timestamp"), and the stamp turns up in the socket's error queue later.  The
// histories send bursts of requests back to back from ONE client socket (one
// listener goroutine serves them in order), pause so that the bucket refills,
// and continue in interleaved mode with the receive stamps of earlier replies.
//
// Observed per exchange: the request fields, the reply's origin / receive /
// transmit / reference stamp, the harness's own clock reading after it read the
// reply, and whether the listener logged that it could not read the transmit
// timestamp of that exchange (log records are attributed by time: the record
// of exchange i is written after the software transmit time of i, which every
// reply carries as its reference stamp, and before that of exchange i+1).

import (
	"bufio"
	"context"
	"encoding/binary"
	"log/slog"
	"os"
	"sort"
	"strings"
	"sync"
	"time"

	"example.com/scion-time/core/server"
	"example.com/scion-time/net/ntp"

	"verifharness/lib"
)

type txFailLog struct {
	mu sync.Mutex
	at []int64 // ns
}

func (h *txFailLog) Enabled(_ context.Context, l slog.Level) bool { return l >= slog.LevelError }
func (h *txFailLog) Handle(_ context.Context, r slog.Record) error {
	if r.Message == "failed to read packet tx timestamp" {
		t := time.Now()
		h.mu.Lock()
		h.at = append(h.at, t.Unix()*1e9+int64(t.Nanosecond()))
		h.mu.Unlock()
	}
	return nil
}
func (h *txFailLog) WithAttrs([]slog.Attr) slog.Handler { return h }
func (h *txFailLog) WithGroup(string) slog.Handler      { return h }
func (h *txFailLog) take() []int64 {
	h.mu.Lock()
	defer h.mu.Unlock()
	r := h.at
	h.at = nil
	return r
}

// a scripted step of a slow-link history: an lstepS plus the burst it belongs to (steps of one
// burst are sent back to back before any of their replies is read) and the pause before the burst
type sstep struct {
	lstepS
	g, pause int
}

func (s sstep) String() string {
	return lib.L(lib.I(int64(s.lsn)), lib.I(int64(s.a)), lib.I(int64(s.b)), lib.I(int64(s.c)), lib.I(int64(s.u)),
		lib.I(int64(s.mode)), lib.I(int64(s.k)), lib.U(s.x), lib.U(s.y), lib.U(s.z), lib.I(int64(s.g)), lib.I(int64(s.pause)))
}

func (d *lsnDrv) runSlowHistory(steps []sstep) {
	fl := d.fl
	ss := make([]string, len(steps))
	for i, s := range steps {
		ss[i] = s.String()
	}
	args := lib.L(ss...)
	lsnEmit("CUR", "lsn.slowlink", "", args, "")
	time.Sleep(150 * time.Millisecond) // let the bucket refill and the listeners finish the previous history
	server.VerifResetTSS()
	fl.take()
	reps := make([]lsnRep, len(steps))
	var echoAt []int64 // harness clock (ns) just before each SCMP echo request was sent
	for i := 0; i < len(steps) && !d.lost; {
		j := i
		for j < len(steps) && steps[j].g == steps[i].g {
			j++
		}
		if steps[i].pause > 0 {
			time.Sleep(time.Duration(steps[i].pause) * time.Millisecond)
		}
		if steps[i].mode == 5 { // an SCMP echo (a burst of its own), not an NTP exchange
			if steps[i].lsn == 1 {
				t := time.Now()
				echoAt = append(echoAt, t.Unix()*1e9+int64(t.Nanosecond()))
				d.scmpEcho(steps[i].lstepS)
			}
			i = j
			continue
		}
		c, _ := d.conn(steps[i].lstepS)
		d.drain(c)
		for x := i; x < j; x++ {
			s := steps[x]
			req := make([]byte, ntp.PacketLen)
			req[0] = 4<<3 | 3
			org, rx, tx := s.x, s.y, s.z
			if s.mode != 0 && s.k >= 0 && s.k < i && reps[s.k].got { // only replies of earlier bursts are known
				p := reps[s.k]
				switch s.mode {
				case 1:
					org, rx = p.rx, p.tx
					if tx == rx {
						tx++
					}
				case 2:
					org, rx = p.rx, tx
				case 3:
					org, rx, tx = p.qorg, p.qrx, p.qtx
				case 4:
					org = p.rx
				}
			}
			binary.BigEndian.PutUint64(req[24:], org)
			binary.BigEndian.PutUint64(req[32:], rx)
			binary.BigEndian.PutUint64(req[40:], tx)
			reps[x] = lsnRep{qorg: org, qrx: rx, qtx: tx}
			d.send(s.lstepS, req)
		}
		// the datagrams of a burst may overtake each other on the way (the queue of the rate limiter is
		// emptied from more than one CPU): a reply is matched to its request by its origin, which is the
		// request's transmit field (basic) or its receive field (interleaved)
		for n := i; n < j; n++ {
			rep, at, ok := d.recv(steps[i].lstepS)
			if !ok {
				break
			}
			org := be64(rep[24:])
			m := -1
			for x := i; x < j && m < 0; x++ {
				if !reps[x].got && reps[x].qtx == org {
					m = x
				}
			}
			for x := i; x < j && m < 0; x++ {
				if !reps[x].got && reps[x].qrx == org && reps[x].qrx != reps[x].qtx {
					m = x
				}
			}
			if m < 0 {
				lsnNote("c06: a reply on the slow link matches no request of its burst")
				d.lost = true
				break
			}
			r := &reps[m]
			r.got = true
			r.crx = at
			r.ref, r.org, r.rx, r.tx = be64(rep[16:]), org, be64(rep[32:]), be64(rep[40:])
		}
		i = j
	}
	time.Sleep(30 * time.Millisecond) // the record of the last exchange
	attributeUnread(reps, fl.take(), echoAt)
	unread := make([]bool, len(steps))
	for i := range reps {
		unread[i] = reps[i].unread
	}
	// the observations are listed in the order in which the listener goroutine handled the requests:
	// the order of their kernel receive stamps (exchanges without a reply last)
	order := make([]int, len(steps))
	for i := range order {
		order[i] = i
	}
	sort.SliceStable(order, func(x, y int) bool {
		a, b := reps[order[x]], reps[order[y]]
		if a.got != b.got {
			return a.got
		}
		return a.got && a.rx < b.rx
	})
	var outs []string
	nInter, nLate, nAfterLate, nDropped := 0, 0, 0, 0
	seenLate := false
	for _, i := range order {
		s := steps[i]
		r := reps[i]
		if s.mode == 5 {
			continue
		}
		inter := r.got && r.qrx != r.qtx && r.org == r.qrx
		if inter {
			nInter++
			if seenLate {
				nAfterLate++
			}
		}
		if unread[i] {
			nLate++
			seenLate = true
		}
		if r.got && !inter && s.mode == 1 && s.k >= 0 && s.k < i && unread[s.k] {
			nDropped++
		}
		outs = append(outs, wireRow(s.lstepS, r))
	}
	var tags []string
	add := func(c bool, t string) {
		if c {
			tags = append(tags, t)
		}
	}
	add(nInter > 0, "inter")
	add(nLate > 0, "tx-unread")
	add(nLate < len(steps), "tx-read")
	add(nDropped > 0, "dropped-not-served")
	add(nAfterLate > 0, "inter-after-unread")
	add(steps[0].lsn == 1, "scion")
	add(steps[0].lsn == 0, "ip")
	add(nAfterLate > 0 && nLate > 0, "nt")
	// one client socket = one listener goroutine: every report is attributed, nothing is tolerated
	lsnEmit("CASE", "lsn.slowlink", strings.Join(tags, ","), args, lib.V(lib.L(outs...), "1", "0"))
}

// one client socket per history; bursts of 2..6 requests, then the replies of the burst are
// named as origins by the next bursts
func genSlowHistory(r *lib.Rng, nbursts int) []sstep {
	base := lstepS{lsn: r.Intn(2)}
	if base.lsn == 0 {
		base.a, base.b = r.Intn(lsnNAddr), r.Intn(lsnNPort)
	} else {
		base.a, base.b, base.c, base.u = r.Intn(lsnNIA), r.Intn(lsnNHost), r.Intn(lsnNScionPort), r.Intn(lsnNUnderlay)
	}
	var steps []sstep
	var prev []int // steps of the previous burst
	var older []int
	for g := 0; g < nbursts; g++ {
		if base.lsn == 1 && g > 0 && r.Intn(5) == 0 {
			e := sstep{lstepS: base, g: g, pause: lib.Pick(r, 0, 20, 250)}
			e.mode, e.k, e.x, e.y = 5, -1, r.U64(), r.U64()
			steps = append(steps, e)
			continue
		}
		n := 1 + r.Intn(6)
		pause := lib.Pick(r, 0, 0, 0, 5, 20, 120, 250)
		var cur []int
		used := map[int]bool{}
		for i := 0; i < n; i++ {
			s := sstep{lstepS: base, g: g}
			s.k = -1
			s.x, s.y, s.z = r.U64(), r.U64(), r.U64()
			if i == 0 {
				s.pause = pause
			}
			switch c := r.Intn(10); {
			case c < 6 && len(prev) > 0: // interleaved from a reply of the previous burst (each at most once: the exchange is replaced when it is served)
				k := prev[r.Intn(len(prev))]
				if !used[k] {
					used[k] = true
					s.mode, s.k = 1, k
				}
			case c < 7 && len(older) > 0:
				s.mode, s.k = 1, older[r.Intn(len(older))]
			case c < 8 && len(prev) > 0:
				s.mode, s.k = 3, prev[r.Intn(len(prev))]
			}
			cur = append(cur, len(steps))
			steps = append(steps, s)
		}
		older = append(older, prev...)
		prev = cur
	}
	return steps
}

func parseSlowScript(sv string) []sstep {
	sv = strings.TrimSpace(sv)
	sv = strings.TrimPrefix(sv, "[")
	sv = strings.TrimSuffix(sv, "]")
	var steps []sstep
	for _, part := range strings.Split(sv, "]") {
		part = strings.TrimSpace(part)
		part = strings.TrimPrefix(part, "[")
		f := strings.Fields(part)
		if len(f) == 0 {
			continue
		}
		if len(f) != 12 {
			panic("bad slow-link step in replay: " + part)
		}
		steps = append(steps, sstep{lstepS: lstepS{lsn: int(lib.ParseI(f[0])), a: int(lib.ParseI(f[1])), b: int(lib.ParseI(f[2])), c: int(lib.ParseI(f[3])),
			u: int(lib.ParseI(f[4])), mode: int(lib.ParseI(f[5])), k: int(lib.ParseI(f[6])), x: lib.ParseU(f[7]), y: lib.ParseU(f[8]), z: lib.ParseU(f[9])},
			g: int(lib.ParseI(f[10])), pause: int(lib.ParseI(f[11]))})
	}
	return steps
}

func lsnSlowChild(a lib.Args) {
	lout = bufio.NewWriterSize(os.Stdout, 1<<20)
	defer lout.Flush()
	d := newLsnDrv()
	if a.Replay != "" {
		for _, l := range lib.ReplayLines(a.Replay) {
			if l[0] == "lsn.slowlink" && !d.lost {
				d.runSlowHistory(parseSlowScript(l[2]))
			}
		}
		return
	}
	r := lib.NewRng(a.Seed ^ 0x736c6f77)
	n := 14
	if a.Tier == "thorough" {
		n = 60
	}
	for i := 0; i < n && !d.lost; i++ {
		d.runSlowHistory(genSlowHistory(r.Fork(), 4+r.Intn(5)))
	}
}
