package c06lib

// Listener-level histories (case kind lsn.hist): the real IP and SCION
// listeners of core/server run in a child process on loopback with the real
// clock and kernel timestamps; the harness plays NTP request histories from
// several client sockets, one request in flight at a time, and records the
// request fields and the reply datagram (origin, receive, transmit and
// reference stamp) of every step.
//
// Who is a client: what the listeners key the timestamp store with.  IP:
// the source address (not the port): sockets on one address are one client.
// SCION: (source ISD-AS, source host address) of the SCION header, not the
// UDP port, not the underlay socket.

import (
	"bufio"
	"context"
	"crypto/rand"
	"encoding/binary"
	"fmt"
	"io"
	"log/slog"
	"net"
	"net/netip"
	"os"
	"os/exec"
	"sort"
	"strings"
	"sync"
	"syscall"
	"time"

	"github.com/google/gopacket"
	"github.com/scionproto/scion/pkg/addr"
	"github.com/scionproto/scion/pkg/slayers"
	"github.com/scionproto/scion/pkg/slayers/path/empty"

	"example.com/scion-time/core/server"
	"example.com/scion-time/core/timebase"
	"example.com/scion-time/net/ntp"
	"example.com/scion-time/net/nts"
	"example.com/scion-time/net/ntske"
	"example.com/scion-time/net/udp"
	"golang.org/x/sys/unix"

	"verifharness/lib"
)

const (
	lsnChildEnv   = "C06_LSN_CHILD"
	lsnIPPort     = 21123
	lsnScionPort  = 11123
	lsnReadTmo    = 20 * time.Second
	lsnNAddr      = 4 // IP client addresses
	lsnNPort      = 6 // sockets (ports) per address; the same port numbers on every address
	lsnPortBase   = 42100
	lsnNUnderlay  = 2
	lsnNIA        = 3
	lsnNHost      = 3
	lsnNScionPort = 2
	// lsn.slowlink: token bucket on the loopback of the child's own network namespace.  A datagram that
	// finds the bucket empty waits for its tokens (a few ms per datagram), and its software transmit
	// timestamp is generated only when it leaves the queue: later than the 1 ms the listener waits for it.
	slowRate  = "256kbit"
	slowBurst = "1540"
)

// the clock the listeners read: the system clock, unless readings have been scripted (lsn.fallback)
type sysClock struct {
	mu     sync.Mutex
	script []time.Time
}

func (c *sysClock) Epoch() uint64 { return 0 }
func (c *sysClock) Now() time.Time {
	c.mu.Lock()
	defer c.mu.Unlock()
	if len(c.script) > 0 {
		t := c.script[0]
		c.script = c.script[1:]
		return t
	}
	return time.Now().UTC()
}
func (c *sysClock) Drift(d time.Duration) time.Duration              { return 0 }
func (c *sysClock) Step(offset time.Duration)                        {}
func (c *sysClock) Adjust(offset, duration time.Duration, f float64) {}
func (c *sysClock) Sleep(d time.Duration)                            { time.Sleep(d) }
func (c *sysClock) setScript(ts ...time.Time) {
	c.mu.Lock()
	c.script = append([]time.Time(nil), ts...)
	c.mu.Unlock()
}
func (c *sysClock) pending() int {
	c.mu.Lock()
	defer c.mu.Unlock()
	return len(c.script)
}

// ---- parent side ----

// lsnParent starts the child that runs the listeners and returns the function
// that waits for it and writes its cases.
func lsnParent(a lib.Args, variant string) func() {
	exe, err := os.Executable()
	if err != nil {
		panic(err)
	}
	args := []string{"-tier", a.Tier, "-seed", fmt.Sprint(a.Seed), "-out", a.Out}
	if a.Replay != "" {
		args = append(args, "-replay", a.Replay)
	}
	kind := "lsn.hist"
	cmd := exec.Command(exe, args...)
	cmd.Env = append(os.Environ(), lsnChildEnv+"=1", "USE_MOCK_KEYS=true")
	switch variant {
	case "few":
		cmd.Env = append(os.Environ(), lsnChildEnv+"=few", "USE_MOCK_KEYS=true")
	case "fallback":
		kind = "lsn.fallback"
		cmd.Env = append(os.Environ(), lsnChildEnv+"=fallback", "USE_MOCK_KEYS=true")
	case "slow":
		// the same process, but in a network namespace of its own whose loopback is rate-limited
		kind = "lsn.slowlink"
		setup := "ip link set lo up && tc qdisc add dev lo root tbf rate " + slowRate + " burst " + slowBurst + " latency 2s"
		probe := exec.Command("unshare", "-n", "--", "sh", "-c", setup)
		if out, err := probe.CombinedOutput(); err != nil {
			fmt.Printf("NOTE c06: lsn.slowlink skipped: no network namespace with a rate-limited loopback here (%v: %s)\n",
				err, strings.TrimSpace(strings.ReplaceAll(string(out), "\n", " | ")))
			return func() {}
		}
		cmd = exec.Command("unshare", append([]string{"-n", "--", "sh", "-c", setup + ` && exec "$0" "$@"`, exe}, args...)...)
		cmd.Env = append(os.Environ(), lsnChildEnv+"=slow", "USE_MOCK_KEYS=true")
	}
	stdout, err := cmd.StdoutPipe()
	if err != nil {
		panic(err)
	}
	stderrFile, _ := os.CreateTemp("", "c06-child-stderr-*")
	if stderrFile != nil {
		cmd.Stderr = stderrFile
	}
	if err := cmd.Start(); err != nil {
		panic(err)
	}
	var mu sync.Mutex
	var cases [][]string
	var cur []string
	last := time.Now()
	done := make(chan struct{})
	go func() {
		defer close(done)
		rd := bufio.NewReaderSize(stdout, 1<<20)
		for {
			line, err := rd.ReadString('\n')
			if len(line) > 0 && line[len(line)-1] == '\n' {
				p := strings.Split(line[:len(line)-1], "\t")
				mu.Lock()
				last = time.Now()
				switch {
				case p[0] == "CUR" && len(p) == 4:
					cur = p[1:]
				case p[0] == "CASE" && len(p) == 5:
					cases = append(cases, p[1:])
					cur = nil
				case p[0] == "NOTE" && len(p) == 2:
					fmt.Println("NOTE " + p[1])
				}
				mu.Unlock()
			}
			if err != nil {
				if err != io.EOF {
					fmt.Println("NOTE c06 listener child pipe:", err)
				}
				return
			}
		}
	}()
	return func() {
		hung := false
		tick := time.NewTicker(time.Second)
		defer tick.Stop()
	loop:
		for {
			select {
			case <-done:
				break loop
			case <-tick.C:
				mu.Lock()
				idle := time.Since(last)
				mu.Unlock()
				if idle > 120*time.Second {
					hung = true
					cmd.Process.Kill()
				}
			}
		}
		werr := cmd.Wait()
		mu.Lock()
		defer mu.Unlock()
		for _, c := range cases {
			w.Case(c[0], c[1], c[2], c[3])
		}
		if werr != nil || hung {
			tail := ""
			if stderrFile != nil {
				b, _ := os.ReadFile(stderrFile.Name())
				if len(b) > 1500 {
					b = b[len(b)-1500:]
				}
				tail = strings.ReplaceAll(strings.ReplaceAll(string(b), "\n", " | "), "\t", " ")
			}
			fmt.Printf("NOTE c06: the process that runs the listeners died or hung (%v, hung=%v): %s\n", werr, hung, tail)
			if cur != nil {
				w.Case(cur[0], cur[1]+",crash", cur[2], "0")
			} else {
				w.Case(kind, "crash", "[]", "0")
			}
		}
		if stderrFile != nil {
			os.Remove(stderrFile.Name())
		}
	}
}

// ---- child side ----

var lout *bufio.Writer

func lsnEmit(tag, kind, tags, args, outs string) {
	if tag == "CUR" {
		fmt.Fprintf(lout, "CUR\t%s\t%s\t%s\n", kind, tags, args)
	} else {
		fmt.Fprintf(lout, "CASE\t%s\t%s\t%s\t%s\n", kind, tags, args, outs)
	}
	lout.Flush()
}

func lsnNote(s string) {
	if lout == nil {
		fmt.Println("NOTE " + s)
		return
	}
	fmt.Fprintf(lout, "NOTE\t%s\n", s)
	lout.Flush()
}

func lsnOwnAddr(second byte) net.IP {
	pid := os.Getpid()
	return net.IPv4(127, second, byte(pid>>8), byte(pid))
}

type lsnDrv struct {
	srv   net.IP
	ip    [lsnNAddr][lsnNPort]*net.UDPConn
	under [lsnNUnderlay]*net.UDPConn
	hosts [lsnNHost][]byte
	ias   [lsnNIA]addr.IA
	buf   []byte
	lost  bool

	provider *ntske.Provider
	fl       *txFailLog
	clk      *sysClock
}

// one scripted step.  lsn 0: IP, a = address, b = port.  lsn 1: SCION, a = ISD-AS, b = host,
// c = UDP source port, u = underlay socket.  mode 0: literal fields x y z; 1: interleaved from step
// k (origin = its reply's receive stamp, receive field = its reply's transmit stamp, transmit = z);
// 2: origin from step k, receive = transmit = z; 3: the request datagram of step k again;
// 4: origin from step k, receive = y, transmit = z.
type lstepS struct {
	lsn, a, b, c, u int
	mode, k         int
	x, y, z         uint64
}

func (s lstepS) ident() int64 {
	if s.lsn == 0 {
		return int64(s.a)
	}
	return int64(10 + s.a*lsnNHost + s.b)
}

// clientID is the id under which the listeners keep the state of the step's client.
func (d *lsnDrv) clientID(s lstepS) string {
	if s.lsn == 0 {
		return lsnOwnAddr(byte(60 + s.a)).String()
	}
	h, _ := netip.AddrFromSlice(d.hosts[s.b])
	return d.ias[s.a].String() + "," + h.String()
}

func (s lstepS) sock() int64 {
	if s.lsn == 0 {
		return int64(s.a*lsnNPort + s.b)
	}
	return int64(100 + s.u)
}

func (s lstepS) String() string {
	return lib.L(lib.I(int64(s.lsn)), lib.I(int64(s.a)), lib.I(int64(s.b)), lib.I(int64(s.c)), lib.I(int64(s.u)),
		lib.I(int64(s.mode)), lib.I(int64(s.k)), lib.U(s.x), lib.U(s.y), lib.U(s.z))
}

// clientRxStamps asks the kernel for software receive timestamps on a client socket (receive only:
// transmit stamps would pile up in the socket's error queue).
func clientRxStamps(c *net.UDPConn) {
	rc, err := c.SyscallConn()
	if err != nil {
		return
	}
	rc.Control(func(fd uintptr) {
		unix.SetsockoptInt(int(fd), unix.SOL_SOCKET, unix.SO_TIMESTAMPING_NEW,
			unix.SOF_TIMESTAMPING_SOFTWARE|unix.SOF_TIMESTAMPING_RX_SOFTWARE)
	})
}

func newLsnDrv() *lsnDrv {
	d := &lsnDrv{buf: make([]byte, 65536), fl: &txFailLog{}, clk: &sysClock{}}
	log := slog.New(d.fl)
	timebase.RegisterClock(d.clk)
	provider := ntske.NewProvider()
	d.provider = provider
	d.srv = lsnOwnAddr(6)
	ctx := context.Background()
	server.StartIPServer(ctx, log, &net.UDPAddr{IP: d.srv, Port: lsnIPPort}, 0, provider)
	server.StartSCIONServer(ctx, log, "" /* daemon */, &net.UDPAddr{IP: d.srv, Port: lsnScionPort}, 0, provider)
	for i := 0; i < lsnNAddr; i++ {
		ip := lsnOwnAddr(byte(60 + i))
		for j := 0; j < lsnNPort; j++ {
			c, err := net.ListenUDP("udp4", &net.UDPAddr{IP: ip, Port: lsnPortBase + j})
			if err != nil {
				panic(err)
			}
			c.SetReadBuffer(1 << 20)
			clientRxStamps(c)
			d.ip[i][j] = c
		}
	}
	for i := 0; i < lsnNUnderlay; i++ {
		c, err := net.ListenUDP("udp4", &net.UDPAddr{IP: lsnOwnAddr(byte(70 + i)), Port: 0})
		if err != nil {
			panic(err)
		}
		c.SetReadBuffer(1 << 20)
		clientRxStamps(c)
		d.under[i] = c
	}
	d.hosts[0] = []byte{10, 1, 2, 3}
	d.hosts[1] = []byte{10, 1, 2, 4}
	d.hosts[2] = []byte(lsnOwnAddr(60).To4()) // the address of IP client 0
	d.ias[0] = addr.IA(0x0001ff0000000111)
	d.ias[1] = addr.IA(0x0001ff0000000112)
	d.ias[2] = addr.IA(0x0002ff0000000111)
	return d
}

func (d *lsnDrv) drain(c *net.UDPConn) int {
	rc, err := c.SyscallConn()
	if err != nil {
		return 0
	}
	cnt := 0
	for {
		n := -1
		rc.Read(func(fd uintptr) bool {
			m, _, err := syscall.Recvfrom(int(fd), d.buf, syscall.MSG_DONTWAIT)
			if err == nil {
				n = m
			}
			return true
		})
		if n < 0 {
			return cnt
		}
		cnt++
	}
}

func (d *lsnDrv) scionPkt(s lstepS, payload []byte) []byte {
	var scn slayers.SCION
	scn.Version = 0
	scn.FlowID = 1
	scn.NextHdr = slayers.L4UDP
	scn.PathType = empty.PathType
	scn.Path = empty.Path{}
	scn.DstIA, scn.SrcIA = addr.IA(0x0001ff0000000110), d.ias[s.a]
	scn.DstAddrType, scn.SrcAddrType = slayers.T4Ip, slayers.T4Ip
	scn.RawDstAddr, scn.RawSrcAddr = []byte(d.srv.To4()), d.hosts[s.b]
	var udp slayers.UDP
	udp.SrcPort, udp.DstPort = uint16(40123+s.c), lsnScionPort
	udp.SetNetworkLayerForChecksum(&scn)
	sb := gopacket.NewSerializeBuffer()
	err := gopacket.SerializeLayers(sb, gopacket.SerializeOptions{ComputeChecksums: true, FixLengths: true},
		&scn, &udp, gopacket.Payload(payload))
	if err != nil {
		panic(err)
	}
	return append([]byte(nil), sb.Bytes()...)
}

// scmpEcho sends an SCMP echo request as the step's SCION client through the step's underlay socket
// (the listener goroutine that owns this socket answers it from the same loop, with the same
// transmit-timestamp bookkeeping as for NTP replies) and waits for the echo reply.
func (d *lsnDrv) scmpEcho(s lstepS) bool {
	var scn slayers.SCION
	scn.FlowID = 1
	scn.NextHdr = slayers.L4SCMP
	scn.PathType = empty.PathType
	scn.Path = empty.Path{}
	scn.DstIA, scn.SrcIA = addr.IA(0x0001ff0000000110), d.ias[s.a]
	scn.DstAddrType, scn.SrcAddrType = slayers.T4Ip, slayers.T4Ip
	scn.RawDstAddr, scn.RawSrcAddr = []byte(d.srv.To4()), d.hosts[s.b]
	sc := &slayers.SCMP{TypeCode: slayers.CreateSCMPTypeCode(slayers.SCMPTypeEchoRequest, 0)}
	sc.SetNetworkLayerForChecksum(&scn)
	sb := gopacket.NewSerializeBuffer()
	err := gopacket.SerializeLayers(sb, gopacket.SerializeOptions{ComputeChecksums: true, FixLengths: true},
		&scn, sc, &slayers.SCMPEcho{Identifier: uint16(s.x), SeqNumber: uint16(s.y)}, gopacket.Payload([]byte("c06 echo")))
	if err != nil {
		panic(err)
	}
	c, dst := d.conn(s)
	d.drain(c)
	if _, err := c.WriteToUDP(sb.Bytes(), dst); err != nil {
		return false
	}
	c.SetReadDeadline(time.Now().Add(lsnReadTmo))
	buf := make([]byte, 2048)
	n, _, err := c.ReadFromUDP(buf)
	if err != nil {
		d.lost = true
		return false
	}
	var rep slayers.SCION
	if err := rep.DecodeFromBytes(buf[:n], gopacket.NilDecodeFeedback); err != nil || rep.NextHdr != slayers.L4SCMP {
		return false
	}
	return true
}

func scionPayload(b []byte) (pl []byte, ok bool) {
	defer func() {
		if recover() != nil {
			ok = false
		}
	}()
	var scn slayers.SCION
	if err := scn.DecodeFromBytes(b, gopacket.NilDecodeFeedback); err != nil {
		return nil, false
	}
	if scn.NextHdr != slayers.L4UDP {
		return nil, false
	}
	var udp slayers.UDP
	if err := udp.DecodeFromBytes(scn.Payload, gopacket.NilDecodeFeedback); err != nil {
		return nil, false
	}
	return udp.Payload, true
}

// conn returns the socket and the listener address of a step's client.
func (d *lsnDrv) conn(s lstepS) (*net.UDPConn, *net.UDPAddr) {
	if s.lsn == 0 {
		return d.ip[s.a][s.b], &net.UDPAddr{IP: d.srv, Port: lsnIPPort}
	}
	return d.under[s.u], &net.UDPAddr{IP: d.srv, Port: lsnScionPort}
}

// send sends one NTP payload as the step's client.
func (d *lsnDrv) send(s lstepS, payload []byte) bool {
	c, dst := d.conn(s)
	pkt := payload
	if s.lsn == 1 {
		pkt = d.scionPkt(s, payload)
	}
	if _, err := c.WriteToUDP(pkt, dst); err != nil {
		lsnNote("c06: write failed: " + err.Error())
		return false
	}
	return true
}

// recv returns the NTP header of the next datagram on the step's socket and the client's receive
// stamp of it: the kernel's (software receive timestamp) or, when the kernel gave none, the clock
// reading after the read - either way not earlier than the moment the kernel transmitted it.
func (d *lsnDrv) recv(s lstepS) ([]byte, uint64, bool) {
	c, _ := d.conn(s)
	tmo := lsnReadTmo
	if d.lost {
		tmo = time.Second
	}
	c.SetReadDeadline(time.Now().Add(tmo))
	buf := make([]byte, 4096)
	oob := make([]byte, udp.TimestampLen())
	n, oobn, _, _, err := c.ReadMsgUDP(buf, oob)
	at := time.Now().UTC()
	if err != nil {
		d.lost = true
		return nil, 0, false
	}
	if ts, err := udp.TimestampFromOOBData(oob[:oobn]); err == nil {
		at = ts
	}
	crx := t64num(ntp.Time64FromTime(at))
	b := buf[:n]
	if s.lsn == 1 {
		pl, ok := scionPayload(b)
		if !ok {
			return nil, crx, false
		}
		b = pl
	}
	if len(b) < ntp.PacketLen {
		return nil, crx, false
	}
	return b[:ntp.PacketLen], crx, true
}

// exchange sends one NTP payload as the step's client and returns the NTP payload of the reply.
func (d *lsnDrv) exchange(s lstepS, payload []byte) ([]byte, uint64, bool) {
	c, _ := d.conn(s)
	if n := d.drain(c); n > 0 {
		lsnNote(fmt.Sprintf("c06: %d unexpected datagrams were queued on a client socket", n))
	}
	if !d.send(s, payload) {
		return nil, 0, false
	}
	return d.recv(s)
}

func be64(b []byte) uint64 { return binary.BigEndian.Uint64(b) }

type lsnRep struct {
	got              bool
	req              []byte
	org, rx, tx, ref uint64
	qorg, qrx, qtx   uint64
	crx              uint64 // the client's receive stamp of the reply
	unread           bool   // the listener reported that it could not read the transmit timestamp of this exchange
	fb               bool   // the request reached the listener without kernel receive stamp
	fv, fw           int64  // ... and these were the clock readings it was given (ns)
}

// wireRow is one observation of the kinds lsn.hist / lsn.slowlink / lsn.fallback.
func wireRow(s lstepS, r lsnRep) string {
	return lib.L(lib.I(s.ident()), lib.I(s.sock()), lib.U(r.qorg), lib.U(r.qrx), lib.U(r.qtx), lib.Bool(r.got),
		lib.U(r.org), lib.U(r.rx), lib.U(r.tx), lib.U(r.ref), lib.U(r.crx), lib.Bool(r.unread),
		lib.Bool(r.fb), lib.I(r.fv), lib.I(r.fw))
}

// ntsWrap turns a 48-byte request header into a real NTS-authenticated request: a cookie sealed
// under the provider's current key, fresh session keys, unique identifier, authenticator.
func (d *lsnDrv) ntsWrap(hdr []byte) []byte {
	key := d.provider.Current()
	c2s, s2c := make([]byte, 32), make([]byte, 32)
	rand.Read(c2s)
	rand.Read(s2c)
	sc := ntske.ServerCookie{Algo: 15, S2C: s2c, C2S: c2s}
	ec, err := sc.EncryptWithNonce(key.Value, key.ID)
	if err != nil {
		panic(err)
	}
	data := ntske.Data{C2sKey: c2s, S2cKey: s2c, Algo: 15}
	data.Cookie = append(data.Cookie, ec.Encode())
	pkt, _ := nts.NewRequestPacket(data)
	buf := append([]byte(nil), hdr...)
	nts.EncodePacket(&buf, &pkt)
	return buf
}

// attribute marks the exchanges for which the listener reported a failed read of the transmit
// timestamp: a report belongs to the last exchange whose software transmit time (the reference stamp
// of its reply) is not later than the report.  Returns the number of reports.
func attributeUnread(reps []lsnRep, fails []int64, echoAt []int64) int {
	for _, l := range fails {
		at, atTime := -1, int64(-1)
		for i := range reps {
			if !reps[i].got {
				continue
			}
			t := nsOf64(t64of(reps[i].ref))
			if reps[i].fb {
				t = reps[i].fw - 1<<62 // scripted readings say nothing about real time: never chosen by time
			}
			if t <= l && t > atTime {
				at, atTime = i, t
			}
		}
		for _, t := range echoAt {
			if t <= l && t > atTime {
				at, atTime = -1, t
			}
		}
		if at >= 0 {
			reps[at].unread = true
		}
	}
	return len(fails)
}

func (d *lsnDrv) runLsnHistory(steps []lstepS) {
	args := ""
	{
		ss := make([]string, len(steps))
		for i, s := range steps {
			ss[i] = s.String()
		}
		args = lib.L(ss...)
	}
	lsnEmit("CUR", "lsn.hist", "", args, "")
	server.VerifResetTSS()
	d.fl.take()
	reps := make([]lsnRep, len(steps))
	var echoAt []int64
	nNTS := 0
	nInter, nCross, nCrossInter, nDup, nScion, nIP, nOwn, nOtherSock := 0, 0, 0, 0, 0, 0, 0, 0
	nEcho := 0
	for i, s := range steps {
		if s.mode == 5 {
			// not an NTP exchange: an SCMP echo through the same listener loop (no row in the observations)
			t := time.Now()
			echoAt = append(echoAt, t.Unix()*1e9+int64(t.Nanosecond()))
			if s.lsn == 1 && d.scmpEcho(s) {
				nEcho++
			}
			continue
		}
		ntsReq := s.mode&16 != 0 // the same request, NTS-authenticated
		s.mode &= 15
		req := make([]byte, ntp.PacketLen)
		req[0] = 4<<3 | 3 // version 4, client
		ref := func() (lsnRep, bool) {
			if s.k >= 0 && s.k < i && reps[s.k].got {
				return reps[s.k], true
			}
			return lsnRep{}, false
		}
		var org, rx, tx uint64
		switch s.mode {
		case 1:
			if p, ok := ref(); ok {
				org, rx, tx = p.rx, p.tx, s.z
				if tx == rx {
					tx++
				}
			} else {
				org, rx, tx = s.x, s.y, s.z
			}
		case 2:
			if p, ok := ref(); ok {
				org, rx, tx = p.rx, s.z, s.z
			} else {
				org, rx, tx = s.x, s.z, s.z
			}
		case 3:
			if p, ok := ref(); ok {
				org, rx, tx = p.qorg, p.qrx, p.qtx
			} else {
				org, rx, tx = s.x, s.y, s.z
			}
		case 4:
			if p, ok := ref(); ok {
				org, rx, tx = p.rx, s.y, s.z
			} else {
				org, rx, tx = s.x, s.y, s.z
			}
		default:
			org, rx, tx = s.x, s.y, s.z
		}
		binary.BigEndian.PutUint64(req[24:], org)
		binary.BigEndian.PutUint64(req[32:], rx)
		binary.BigEndian.PutUint64(req[40:], tx)
		wire := req
		if ntsReq {
			wire = d.ntsWrap(req)
			nNTS++
		}
		rep, crx, ok := d.exchange(s, wire)
		r := lsnRep{got: ok, req: req, qorg: org, qrx: rx, qtx: tx, crx: crx}
		if ok {
			r.ref, r.org, r.rx, r.tx = be64(rep[16:]), be64(rep[24:]), be64(rep[32:]), be64(rep[40:])
		}
		reps[i] = r
		if s.lsn == 0 {
			nIP++
		} else {
			nScion++
		}
		inter := ok && rx != tx && r.org == rx
		if inter {
			nInter++
		}
		// whose exchange does the origin name?  (receive stamps of all earlier replies, per client)
		ownRec, otherRec := false, false
		for j := 0; j < i; j++ {
			if reps[j].got && reps[j].rx == org {
				if steps[j].ident() == s.ident() && steps[j].lsn == s.lsn {
					ownRec = true
					if steps[j].sock() != s.sock() {
						nOtherSock++
					}
				} else {
					otherRec = true
				}
			}
		}
		if ownRec {
			nOwn++
		}
		if otherRec && !ownRec {
			nCross++
			if inter {
				nCrossInter++
			}
		}
		if s.mode == 3 {
			nDup++
		}
	}
	// the listeners' own reports of transmit stamps they could not read (none on an ordinary loopback)
	time.Sleep(2 * time.Millisecond)
	nfail := attributeUnread(reps, d.fl.take(), echoAt)
	var outs []string
	for i, s := range steps {
		if s.mode != 5 {
			outs = append(outs, wireRow(s, reps[i]))
		}
	}
	var tags []string
	add := func(c bool, t string) {
		if c {
			tags = append(tags, t)
		}
	}
	add(nInter > 0, "inter")
	add(nCross > 0, "cross")
	add(nCrossInter > 0, "cross-served")
	add(nDup > 0, "dup")
	add(nScion > 0, "scion")
	add(nIP > 0, "ip")
	add(nOtherSock > 0, "othersock")
	add(nEcho > 0, "scmp-echo")
	add(nNTS > 0, "nts")
	add(nfail > 0, "tx-unread")
	add(nInter > 0 && nCross > 0, "nt")
	// with several listener goroutines a report cannot be attributed with certainty: the strict clauses
	// are evaluated only when there was none
	// the store the history leaves behind: the key of every item, and the ids of the clients that were answered
	snap := server.VerifSnapshotTSS()
	var obsKeys, expKeys []string
	for _, it := range snap.Items {
		obsKeys = append(obsKeys, it.Key)
	}
	seenID := map[string]bool{}
	for i, s := range steps {
		if s.mode == 5 || !reps[i].got {
			continue
		}
		id := d.clientID(s)
		if !seenID[id] {
			seenID[id] = true
			expKeys = append(expKeys, id)
		}
	}
	sort.Strings(obsKeys)
	sort.Strings(expKeys)
	bs := func(l []string) string {
		o := make([]string, len(l))
		for i, k := range l {
			o[i] = lib.B([]byte(k))
		}
		return lib.L(o...)
	}
	add(len(expKeys) >= 2, "several-clients")
	lsnEmit("CASE", "lsn.hist", strings.Join(tags, ","), args,
		lib.V(lib.L(outs...), lib.Bool(nfail == 0), lib.I(int64(nfail)), bs(obsKeys), bs(expKeys)))
}

// ---- generator ----

func genLsnHistory(r *lib.Rng, n int) []lstepS {
	// participants of this history: a few identities, each with several sockets
	type who struct{ lsn, a, b int }
	var part []who
	np := 2 + r.Intn(4)
	flavour := r.Intn(4) // 0: mixed, 1: IP only, 2: SCION only, 3: SCION identities that share host or ISD-AS
	for len(part) < np {
		var p who
		switch {
		case flavour == 1 || flavour == 0 && r.Bool():
			p = who{0, r.Intn(lsnNAddr), 0}
		case flavour == 3 && len(part) > 0 && part[0].lsn == 1:
			if r.Bool() {
				p = who{1, r.Intn(lsnNIA), part[0].b} // same host, maybe another ISD-AS
			} else {
				p = who{1, part[0].a, r.Intn(lsnNHost)} // same ISD-AS, maybe another host
			}
		default:
			p = who{1, r.Intn(lsnNIA), r.Intn(lsnNHost)}
		}
		dup := false
		for _, q := range part {
			if q == p {
				dup = true
			}
		}
		if !dup || r.Intn(8) == 0 {
			part = append(part, p)
		}
		if dup && len(part) >= 2 && r.Intn(3) == 0 {
			break
		}
	}
	var steps []lstepS
	lastOf := func(id int64, lsn int) []int {
		var l []int
		for i, s := range steps {
			if s.ident() == id && s.lsn == lsn {
				l = append(l, i)
			}
		}
		return l
	}
	otherOf := func(id int64, lsn int) []int {
		var l []int
		for i, s := range steps {
			if s.ident() != id || s.lsn != lsn {
				l = append(l, i)
			}
		}
		return l
	}
	burst := -1
	for len(steps) < n {
		pi := r.Intn(len(part))
		if burst >= 0 && r.Intn(10) < 7 {
			pi = burst
		} else if r.Intn(6) == 0 {
			burst = pi
		} else if r.Intn(5) == 0 {
			burst = -1
		}
		p := part[pi]
		s := lstepS{lsn: p.lsn, a: p.a, k: -1, x: r.U64(), y: r.U64(), z: r.U64()}
		if p.lsn == 0 {
			s.b = r.Intn(lsnNPort)
			if r.Intn(3) == 0 {
				s.b = 0
			}
		} else {
			s.b = p.b
			s.c = r.Intn(lsnNScionPort)
			s.u = r.Intn(lsnNUnderlay)
			if r.Intn(3) != 0 {
				s.c, s.u = 0, 0
			}
		}
		if r.Intn(5) == 0 {
			s.y = s.z // receive == transmit field
		}
		if r.Intn(7) == 0 {
			s.x = 0
		}
		if p.lsn == 1 && r.Intn(12) == 0 {
			// an SCMP echo request in between, answered by the same listener loop
			s.mode = 5
			steps = append(steps, s)
			continue
		}
		own := lastOf(s.ident(), s.lsn)
		oth := otherOf(s.ident(), s.lsn)
		switch c := r.Intn(20); {
		case c < 9 && len(own) > 0: // interleaved from an earlier exchange of this client
			s.mode = 1
			if r.Intn(4) != 0 {
				s.k = own[len(own)-1]
			} else {
				s.k = own[r.Intn(len(own))]
			}
		case c < 13 && len(oth) > 0: // the origin belongs to another client's exchange
			s.mode = lib.Pick(r, 1, 1, 4)
			if r.Bool() {
				s.k = oth[len(oth)-1]
			} else {
				s.k = oth[r.Intn(len(oth))]
			}
		case c < 15 && len(steps) > 0: // the same request datagram again (from this client)
			s.mode = 3
			if len(own) > 0 && r.Bool() {
				s.k = own[len(own)-1]
			} else {
				s.k = r.Intn(len(steps))
			}
		case c < 17 && len(own) > 0: // origin on record but receive == transmit field
			s.mode = 2
			s.k = own[len(own)-1]
		case c < 18 && len(own) > 0:
			s.mode = 4
			s.k = own[r.Intn(len(own))]
		default:
			s.mode = 0
		}
		if r.Intn(9) == 0 {
			s.mode |= 16 // NTS-authenticated
		}
		steps = append(steps, s)
	}
	return steps
}

func parseLsnScript(sv string) []lstepS {
	sv = strings.TrimSpace(sv)
	sv = strings.TrimPrefix(sv, "[")
	sv = strings.TrimSuffix(sv, "]")
	var steps []lstepS
	for _, part := range strings.Split(sv, "]") {
		part = strings.TrimSpace(part)
		part = strings.TrimPrefix(part, "[")
		f := strings.Fields(part)
		if len(f) == 0 {
			continue
		}
		if len(f) != 10 {
			panic("bad listener step in replay: " + part)
		}
		steps = append(steps, lstepS{lsn: int(lib.ParseI(f[0])), a: int(lib.ParseI(f[1])), b: int(lib.ParseI(f[2])), c: int(lib.ParseI(f[3])),
			u: int(lib.ParseI(f[4])), mode: int(lib.ParseI(f[5])), k: int(lib.ParseI(f[6])), x: lib.ParseU(f[7]), y: lib.ParseU(f[8]), z: lib.ParseU(f[9])})
	}
	return steps
}

func lsnChild(a lib.Args) {
	lout = bufio.NewWriterSize(os.Stdout, 1<<20)
	defer lout.Flush()
	d := newLsnDrv()
	if a.Replay != "" {
		for _, l := range lib.ReplayLines(a.Replay) {
			if l[0] == "lsn.hist" && !d.lost {
				d.runLsnHistory(parseLsnScript(l[2]))
			}
			if l[0] == "lsn.noreply" && !d.lost {
				d.replayNoReply(l[2])
			}
		}
		return
	}
	r := lib.NewRng(a.Seed ^ 0x6c736e)
	n := 160
	if a.Tier == "thorough" {
		n = 2500
	}
	if os.Getenv(lsnChildEnv) == "few" { // C07 only looks at the store the histories leave behind
		n /= 4
	} else {
		// exchanges the listener cannot answer (kind lsn.noreply, known to the C06 dispatcher only)
		nn := 18
		if a.Tier == "thorough" {
			nn = 100
		}
		d.genNoReply(r.Fork(), nn)
	}
	for i := 0; i < n && !d.lost; i++ {
		ln := 6 + r.Intn(30)
		if i%8 == 0 {
			ln = 40 + r.Intn(60)
		}
		d.runLsnHistory(genLsnHistory(r.Fork(), ln))
	}
}
