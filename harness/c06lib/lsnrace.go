package c06lib

// Case kind lsn.race (thorough tier, binary built with -race): the real IP and
// SCION listeners serve many clients AT THE SAME TIME - one goroutine of the
// harness per client identity, each with its own socket and one request in
// flight - so that handleRequest of one listener goroutine runs concurrently
// with handleRequest / updateTXTimestamp of the others, under the race detector.
// The exchanges of one client are sequential; a client's item is touched by
// nobody else (C06_frame), so every client's history is judged on its own, as in
// lsn.hist (property oracle and replay on the model from the empty record).

import (
	"encoding/binary"
	"fmt"
	"sync"
	"time"

	"example.com/scion-time/core/server"
	"example.com/scion-time/net/ntp"

	"verifharness/lib"
)

// LsnRaceChild is the body of the child process of cmd/c06race.
func LsnRaceChild(nex int, seed uint64) {
	d := newLsnDrv()
	server.VerifResetTSS()
	d.fl.take()
	var ids []lstepS
	for a := 0; a < lsnNAddr; a++ {
		ids = append(ids, lstepS{lsn: 0, a: a, b: a % lsnNPort})
	}
	// SCION identities share the two underlay sockets: one goroutine per underlay socket, which
	// alternates between its identities
	type worker struct {
		steps []lstepS // the identities this goroutine plays (all through one socket)
	}
	var ws []worker
	for _, s := range ids {
		ws = append(ws, worker{steps: []lstepS{s}})
	}
	for u := 0; u < lsnNUnderlay; u++ {
		var l []lstepS
		for ia := 0; ia < lsnNIA; ia++ {
			for h := 0; h < lsnNHost; h++ {
				if (ia*lsnNHost+h)%lsnNUnderlay == u {
					l = append(l, lstepS{lsn: 1, a: ia, b: h, c: 0, u: u})
				}
			}
		}
		ws = append(ws, worker{steps: l})
	}
	type hist struct {
		s    lstepS
		reps []lsnRep
	}
	res := make([][]*hist, len(ws))
	var mu sync.Mutex // the note writer
	var wg sync.WaitGroup
	for wi, wk := range ws {
		wg.Add(1)
		go func(wi int, wk worker) {
			defer wg.Done()
			r := lib.NewRng(seed*31 + uint64(wi)*7919 + 11)
			hs := make([]*hist, len(wk.steps))
			for i, s := range wk.steps {
				hs[i] = &hist{s: s}
			}
			for n := 0; n < nex*len(hs); n++ {
				h := hs[r.Intn(len(hs))]
				org, rx, tx := r.U64(), r.U64(), r.U64()
				if l := len(h.reps); l > 0 && r.Intn(10) < 6 {
					p := h.reps[l-1-r.Intn(min(l, 3))]
					if p.got {
						org, rx = p.rx, p.tx
						if tx == rx {
							tx++
						}
					}
				} else if r.Intn(5) == 0 {
					tx = rx
				}
				req := make([]byte, ntp.PacketLen)
				req[0] = 4<<3 | 3
				binary.BigEndian.PutUint64(req[24:], org)
				binary.BigEndian.PutUint64(req[32:], rx)
				binary.BigEndian.PutUint64(req[40:], tx)
				rep := lsnRep{qorg: org, qrx: rx, qtx: tx}
				if d.send(h.s, req) {
					if b, crx, ok := d.recv(h.s); ok {
						rep.got, rep.crx = true, crx
						rep.ref, rep.org, rep.rx, rep.tx = be64(b[16:]), be64(b[24:]), be64(b[32:]), be64(b[40:])
					}
				}
				h.reps = append(h.reps, rep)
				if !rep.got {
					mu.Lock()
					fmt.Println("NOTE c06: a request of the concurrent listener run went unanswered")
					mu.Unlock()
					break
				}
			}
			res[wi] = hs
		}(wi, wk)
	}
	wg.Wait()
	time.Sleep(5 * time.Millisecond)
	nfail := len(d.fl.take())
	var cs []string
	for _, hs := range res {
		for _, h := range hs {
			rows := make([]string, len(h.reps))
			for i, rp := range h.reps {
				rows[i] = wireRow(h.s, rp)
			}
			// reports of unread transmit stamps cannot be attributed to a client here: with any report the
			// strict clauses are off and that many unexplained basic replies are tolerated
			cs = append(cs, lib.L(lib.L(rows...), lib.Bool(nfail == 0), lib.I(int64(nfail))))
		}
	}
	fmt.Printf("LSNRACE\t%s\n", lib.L(cs...))
}
