package c06lib

// Case kind lsn.noreply: an exchange for which the listener sends no reply.
//
// Request A reaches the REAL SCION listener with a path the listener cannot
// reverse (variant 0: path type SCION whose meta header has SegLen {0,0,0};
// variant 1: an unknown path type, decoded as a raw path): the request is
// accepted and handled, but no reply can be built.  Then request B of the same
// client (valid empty path) claims the interleaved continuation of A: its
// origin is the receive stamp the store holds for the client after A (read
// through the hook, since no reply carried it; a literal when the store holds
// nothing), receive != transmit field.  Observed: whether A was answered, the
// client's record after A, B's request fields and reply datagram, the client's
// record after B.
//
// Variant 2 (tag ip-port0), the REAL IP listener: A is a raw IPv4/UDP datagram
// from one of the client addresses with UDP source port 0; the listener
// handles it, and its reply to port 0 is refused by the kernel (EINVAL).  B is
// an ordinary request from a socket on the same address (the IP listener's
// client id is the source address, not the port).

import (
	"encoding/binary"
	"errors"
	"net"
	"syscall"
	"time"

	"github.com/google/gopacket"
	"github.com/scionproto/scion/pkg/addr"
	"github.com/scionproto/scion/pkg/slayers"
	"github.com/scionproto/scion/pkg/slayers/path"
	"github.com/scionproto/scion/pkg/slayers/path/scion"

	"example.com/scion-time/core/server"
	"example.com/scion-time/net/ntp"

	"verifharness/lib"
)

// a path of a type the listener does not know: it keeps the bytes and cannot reverse them
type opaquePath struct {
	t path.Type
	b []byte
}

func (p *opaquePath) SerializeTo(b []byte) error {
	copy(b, p.b)
	return nil
}
func (p *opaquePath) DecodeFromBytes(b []byte) error { p.b = append([]byte(nil), b...); return nil }
func (p *opaquePath) Reverse() (path.Path, error)    { return nil, errors.New("opaque") }
func (p *opaquePath) Len() int                       { return len(p.b) }
func (p *opaquePath) Type() path.Type                { return p.t }

func (d *lsnDrv) scionPktPath(s lstepS, payload []byte, p path.Path) []byte {
	var scn slayers.SCION
	scn.Version = 0
	scn.FlowID = 1
	scn.NextHdr = slayers.L4UDP
	scn.PathType = p.Type()
	scn.Path = p
	scn.DstIA, scn.SrcIA = addr.IA(0x0001ff0000000110), d.ias[s.a]
	scn.DstAddrType, scn.SrcAddrType = slayers.T4Ip, slayers.T4Ip
	scn.RawDstAddr, scn.RawSrcAddr = []byte(d.srv.To4()), d.hosts[s.b]
	var udp slayers.UDP
	udp.SrcPort, udp.DstPort = uint16(40123+s.c), lsnScionPort
	udp.SetNetworkLayerForChecksum(&scn)
	sb := gopacket.NewSerializeBuffer()
	err := gopacket.SerializeLayers(sb, gopacket.SerializeOptions{ComputeChecksums: true, FixLengths: true},
		&scn, &udp, gopacket.Payload(payload))
	if err != nil {
		panic(err)
	}
	return append([]byte(nil), sb.Bytes()...)
}

func fmtEntries(id string) string {
	it, ok := server.VerifTSSClient(id)
	if !ok {
		return "[]"
	}
	es := make([]string, len(it.Entries))
	for i, e := range it.Entries {
		es[i] = lib.L(lib.U(t64num(e.Rxt)), lib.U(t64num(e.Txt)))
	}
	return lib.L(es...)
}

// sendPort0 sends payload as a UDP datagram with source port 0 from src to the IP listener (raw
// socket: the kernel builds the IP header, the UDP header is ours; no UDP checksum).
func (d *lsnDrv) sendPort0(src net.IP, payload []byte) error {
	fd, err := syscall.Socket(syscall.AF_INET, syscall.SOCK_RAW, syscall.IPPROTO_UDP)
	if err != nil {
		return err
	}
	defer syscall.Close(fd)
	var sa, da syscall.SockaddrInet4
	copy(sa.Addr[:], src.To4())
	copy(da.Addr[:], d.srv.To4())
	if err := syscall.Bind(fd, &sa); err != nil {
		return err
	}
	pkt := make([]byte, 8+len(payload))
	binary.BigEndian.PutUint16(pkt[0:], 0)
	binary.BigEndian.PutUint16(pkt[2:], lsnIPPort)
	binary.BigEndian.PutUint16(pkt[4:], uint16(len(pkt)))
	copy(pkt[8:], payload)
	return syscall.Sendto(fd, pkt, 0, &da)
}

func (d *lsnDrv) runNoReply(variant, a, b, c, u int, z uint64) {
	s := lstepS{lsn: 1, a: a, b: b, c: c, u: u}
	if variant == 2 {
		s = lstepS{lsn: 0, a: a, b: b}
	}
	args := lib.V(lib.I(int64(variant)), lib.I(int64(a)), lib.I(int64(b)), lib.I(int64(c)), lib.I(int64(u)), lib.U(z))
	lsnEmit("CUR", "lsn.noreply", "", args, "")
	server.VerifResetTSS()
	d.fl.take()
	id := d.clientID(s)
	conn, dst := d.conn(s)
	d.drain(conn)

	// A: a basic request on a path that cannot be reversed
	reqA := make([]byte, ntp.PacketLen)
	reqA[0] = 4<<3 | 3
	binary.BigEndian.PutUint64(reqA[40:], z)
	if variant == 2 {
		// A: a basic request from UDP source port 0
		if err := d.sendPort0(lsnOwnAddr(byte(60+a)), reqA); err != nil {
			lsnNote("c06: lsn.noreply ip-port0 skipped: raw socket: " + err.Error())
			return
		}
	} else {
		var p path.Path
		if variant == 0 {
			raw := &scion.Raw{}
			if err := raw.DecodeFromBytes(make([]byte, 4)); err != nil {
				panic(err)
			}
			p = raw
		} else {
			p = &opaquePath{t: path.Type(200), b: []byte{1, 2, 3, 4, 5, 6, 7, 8}}
		}
		if _, err := conn.WriteToUDP(d.scionPktPath(s, reqA, p), dst); err != nil {
			lsnNote("c06: write failed: " + err.Error())
			return
		}
	}
	// is A answered?  (B, sent afterwards through the same socket, is handled after A in any case)
	gotA := false
	conn.SetReadDeadline(time.Now().Add(150 * time.Millisecond))
	if n, _, err := conn.ReadFromUDP(d.buf); err == nil && n > 0 {
		gotA = true
	}
	// the record the listener keeps for the client once A has been dealt with: wait until the item shows
	// up (at most 150 ms more), let the listener finish, then look
	for t0 := time.Now(); time.Since(t0) < 150*time.Millisecond; time.Sleep(time.Millisecond) {
		if _, ok := server.VerifTSSClient(id); ok {
			break
		}
	}
	time.Sleep(20 * time.Millisecond)
	entA := fmtEntries(id)
	var org uint64
	if it, ok := server.VerifTSSClient(id); ok && len(it.Entries) > 0 {
		org = t64num(it.Entries[len(it.Entries)-1].Rxt)
	} else {
		org = t64num(ntp.Time64FromTime(time.Now().UTC().Add(-time.Millisecond)))
	}

	// B: the same client claims the interleaved continuation of A
	rx, tx := z+12345, z+54321
	reqB := make([]byte, ntp.PacketLen)
	reqB[0] = 4<<3 | 3
	binary.BigEndian.PutUint64(reqB[24:], org)
	binary.BigEndian.PutUint64(reqB[32:], rx)
	binary.BigEndian.PutUint64(reqB[40:], tx)
	rep, _, gotB := d.exchange(s, reqB)
	repB := lib.L("0", "0", "0", "0")
	inter := false
	if gotB {
		repB = lib.L(lib.U(be64(rep[24:])), lib.U(be64(rep[32:])), lib.U(be64(rep[40:])), lib.U(be64(rep[16:])))
		inter = be64(rep[24:]) == rx
	}
	time.Sleep(5 * time.Millisecond) // the listener records the kernel transmit stamp of B
	entB := fmtEntries(id)
	tags := "noreply"
	switch variant {
	case 0:
		tags += ",scion-seglen0"
	case 1:
		tags += ",unknown-pathtype"
	default:
		tags += ",ip-port0"
	}
	if !gotA && gotB {
		tags += ",nt"
	}
	if inter {
		tags += ",inter"
	}
	lsnEmit("CASE", "lsn.noreply", tags, args,
		lib.V(lib.Bool(gotA), entA, lib.L(lib.U(org), lib.U(rx), lib.U(tx)), lib.Bool(gotB), repB, entB))
	server.VerifResetTSS()
}

func (d *lsnDrv) genNoReply(r *lib.Rng, n int) {
	for i := 0; i < n && !d.lost; i++ {
		z := uint64(r.U64())>>1 | 1
		if i%3 == 2 {
			d.runNoReply(2, r.Intn(lsnNAddr), r.Intn(lsnNPort), 0, 0, z)
		} else {
			d.runNoReply(i%3, r.Intn(lsnNIA), r.Intn(lsnNHost), r.Intn(lsnNScionPort), r.Intn(lsnNUnderlay), z)
		}
	}
}

func (d *lsnDrv) replayNoReply(argv string) {
	f := lib.Fields(argv)
	if len(f) != 6 {
		panic("bad lsn.noreply line: " + argv)
	}
	d.runNoReply(int(lib.ParseI(f[0])), int(lib.ParseI(f[1])), int(lib.ParseI(f[2])), int(lib.ParseI(f[3])), int(lib.ParseI(f[4])), lib.ParseU(f[5]))
}
