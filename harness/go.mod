module verifharness

go 1.24.2

require example.com/scion-time v0.0.0

replace example.com/scion-time => /repo
