module verifharness

go 1.24.2

require (
	example.com/scion-time v0.0.0
	github.com/HdrHistogram/hdrhistogram-go v1.1.2
	github.com/google/gopacket v1.1.19
	github.com/miscreant/miscreant.go v0.0.0-20200214223636-26d376326b75
	github.com/prometheus/client_golang v1.21.1
	github.com/quic-go/quic-go v0.50.1
	github.com/scionproto/scion v0.12.0
	golang.org/x/sys v0.31.0
	google.golang.org/grpc v1.71.1
	google.golang.org/protobuf v1.36.6
)

require (
	github.com/beorn7/perks v1.0.1 // indirect
	github.com/cespare/xxhash/v2 v2.3.0 // indirect
	github.com/dchest/cmac v1.0.0 // indirect
	github.com/dustin/go-humanize v1.0.1 // indirect
	github.com/google/uuid v1.6.0 // indirect
	github.com/grpc-ecosystem/go-grpc-middleware v1.4.0 // indirect
	github.com/grpc-ecosystem/go-grpc-prometheus v1.2.0 // indirect
	github.com/grpc-ecosystem/grpc-opentracing v0.0.0-20180507213350-8e809c8a8645 // indirect
	github.com/munnerz/goautoneg v0.0.0-20191010083416-a7dc8b61c822 // indirect
	github.com/opentracing/opentracing-go v1.2.0 // indirect
	github.com/pelletier/go-toml/v2 v2.2.3 // indirect
	github.com/prometheus/client_model v0.6.1 // indirect
	github.com/prometheus/common v0.63.0 // indirect
	github.com/prometheus/procfs v0.16.0 // indirect
	github.com/remyoudompheng/bigfft v0.0.0-20230129092748-24d4a6f8daec // indirect
	github.com/uber/jaeger-client-go v2.30.0+incompatible // indirect
	github.com/uber/jaeger-lib v2.4.1+incompatible // indirect
	go.uber.org/atomic v1.11.0 // indirect
	go.uber.org/multierr v1.11.0 // indirect
	go.uber.org/zap v1.27.0 // indirect
	golang.org/x/crypto v0.36.0 // indirect
	golang.org/x/exp v0.0.0-20250305212735-054e65f0b394 // indirect
	golang.org/x/net v0.38.0 // indirect
	golang.org/x/text v0.23.0 // indirect
	google.golang.org/genproto/googleapis/rpc v0.0.0-20250324211829-b45e905df463 // indirect
	modernc.org/libc v1.62.1 // indirect
	modernc.org/mathutil v1.7.1 // indirect
	modernc.org/memory v1.9.1 // indirect
	modernc.org/sqlite v1.37.0 // indirect
)

replace example.com/scion-time => /repo
