module verifharness

go 1.24.2

require example.com/scion-time v0.0.0

require golang.org/x/sys v0.31.0 // indirect

replace example.com/scion-time => /repo
