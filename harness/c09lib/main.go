// C09: drives the real NTP listeners of /repo (server.StartIPServer and
// server.StartSCIONServer) on loopback, plus ntp.DecodePacket /
// ntp.ValidateRequest / ntp.EncodePacket and handleRequest (through the
// existing hook) directly.
//
// The listeners run in a child process (a panic in a listener goroutine ends
// the process); the parent relays the cases into the case file and turns a dead
// or silent child into a case that says so.  Reply / no reply is decided by a
// sentinel request sent afterwards from the same socket, never by waiting.
package c09lib

import (
	"bufio"
	"fmt"
	"io"
	"os"
	"os/exec"
	"strings"
	"sync"
	"time"

	"verifharness/lib"
)

const childEnv = "C09_CHILD"

// ---- child -> parent protocol (stdout): "CUR\tkind\ttags\targs" announces the
// case being driven, "CASE\tkind\ttags\targs\touts" is a finished case.

var out *bufio.Writer

func emitCur(kind, tags, args string) {
	fmt.Fprintf(out, "CUR\t%s\t%s\t%s\n", kind, tags, args)
	out.Flush()
}

func emitCase(kind, tags, args, outs string) {
	fmt.Fprintf(out, "CASE\t%s\t%s\t%s\t%s\n", kind, tags, args, outs)
	out.Flush()
}

func note(s string) {
	fmt.Fprintf(out, "NOTE\t%s\n", s)
	out.Flush()
}

func parent(a lib.Args) {
	w := lib.NewWriter(a.Out)
	defer w.Close()
	exe, err := os.Executable()
	if err != nil {
		panic(err)
	}
	args := []string{"-tier", a.Tier, "-seed", fmt.Sprint(a.Seed), "-out", a.Out}
	if a.Replay != "" {
		args = append(args, "-replay", a.Replay)
	}
	cmd := exec.Command(exe, args...)
	cmd.Env = append(os.Environ(), childEnv+"=1", "USE_MOCK_KEYS=true")
	if raceMode {
		// the detector reports and goes on; the reports are counted below
		cmd.Env = append(cmd.Env, "GORACE=exitcode=0 halt_on_error=0")
	}
	stdout, err := cmd.StdoutPipe()
	if err != nil {
		panic(err)
	}
	stderrFile, _ := os.CreateTemp("", "c09-child-stderr-*")
	if stderrFile != nil {
		cmd.Stderr = stderrFile
		defer os.Remove(stderrFile.Name())
	}
	if err := cmd.Start(); err != nil {
		panic(err)
	}
	var mu sync.Mutex
	var cur []string
	last := time.Now()
	done := make(chan struct{})
	go func() {
		defer close(done)
		rd := bufio.NewReaderSize(stdout, 1<<20)
		for {
			line, err := rd.ReadString('\n')
			if len(line) > 0 && line[len(line)-1] == '\n' {
				p := strings.Split(line[:len(line)-1], "\t")
				mu.Lock()
				last = time.Now()
				switch {
				case p[0] == "CUR" && len(p) == 4:
					cur = p[1:]
				case p[0] == "CASE" && len(p) == 5:
					w.Case(p[1], p[2], p[3], p[4])
					cur = nil
				case p[0] == "NOTE" && len(p) == 2:
					fmt.Println("NOTE " + p[1])
				}
				mu.Unlock()
			}
			if err != nil {
				if err != io.EOF {
					fmt.Println("NOTE child pipe:", err)
				}
				return
			}
		}
	}()
	// watchdog: a child that reports nothing for two minutes hangs
	hung := false
	tick := time.NewTicker(time.Second)
	defer tick.Stop()
loop:
	for {
		select {
		case <-done:
			break loop
		case <-tick.C:
			mu.Lock()
			idle := time.Since(last)
			mu.Unlock()
			if idle > 120*time.Second {
				hung = true
				cmd.Process.Kill()
			}
		}
	}
	werr := cmd.Wait()
	mu.Lock()
	defer mu.Unlock()
	if raceMode {
		races, first := 0, ""
		if stderrFile != nil {
			b, _ := os.ReadFile(stderrFile.Name())
			races = strings.Count(string(b), "WARNING: DATA RACE")
			if i := strings.Index(string(b), "WARNING: DATA RACE"); i >= 0 {
				first = string(b[i:])
				if len(first) > 2500 {
					first = first[:2500]
				}
				fmt.Println("NOTE race detector: " + strings.ReplaceAll(strings.ReplaceAll(first, "\n", " | "), "\t", " "))
			}
		}
		w.Case("srv.race", "nt", fmt.Sprint(a.Seed), fmt.Sprint(races))
	}
	if werr != nil || hung {
		what := "died"
		if hung {
			what = "hung"
		}
		tail := ""
		if stderrFile != nil {
			b, _ := os.ReadFile(stderrFile.Name())
			if len(b) > 1500 {
				b = b[len(b)-1500:]
			}
			tail = strings.ReplaceAll(strings.ReplaceAll(string(b), "\n", " | "), "\t", " ")
		}
		fmt.Printf("NOTE listener process %s (%v) while driving %v: %s\n", what, werr, cur != nil, tail)
		if cur != nil {
			// the case in flight: the process that runs the listeners is gone
			w.Case(cur[0], cur[1]+",crash", cur[2], "1 []")
		} else {
			w.Case("ip", "crash", "[]", "1 []")
		}
	}
}

// raceMode: the binary was built with the race detector (command c09race, thorough tier):
// the child drives the listeners concurrently (mixed parallel steps on both listeners) and the
// parent turns the detector's reports into one case of kind srv.race.
var raceMode bool

func Main(race bool) {
	raceMode = race
	a := lib.ParseArgs()
	if os.Getenv(childEnv) == "" {
		parent(a)
		return
	}
	out = bufio.NewWriterSize(os.Stdout, 1<<20)
	defer out.Flush()
	child(a)
}
