package c09lib

import (
	"encoding/binary"
	"fmt"
	"strings"
	"time"

	"github.com/google/gopacket"
	"github.com/scionproto/scion/pkg/addr"
	"github.com/scionproto/scion/pkg/slayers"
	"github.com/scionproto/scion/pkg/slayers/path"
	"github.com/scionproto/scion/pkg/slayers/path/onehop"
	scionpath "github.com/scionproto/scion/pkg/slayers/path/scion"

	"example.com/scion-time/core/server"
	"example.com/scion-time/net/ntp"
	"example.com/scion-time/net/nts"
	"example.com/scion-time/net/scion"

	"verifharness/lib"
)

func addrIA(x uint64) addr.IA { return addr.IA(x) }

var validFirst = []byte{8, 19, 27, 35, 200, 211, 219, 227}

func wfFirst(b0 byte) bool {
	li, vn, m := b0>>6, (b0>>3)&7, b0&7
	return (li == 0 || li == 3) && ((vn >= 2 && vn <= 4 && m == 3) || (vn == 1 && m == 0))
}

// ---- payload generators ----

// header returns a 48-byte NTP header with the given first byte; flavour
// selects what the rest looks like.
func header(r *lib.Rng, b0 byte, flavour int) []byte {
	p := make([]byte, 48)
	switch flavour {
	case 0: // zeros
	case 1: // random
		copy(p, r.Bytes(48))
	case 2: // what a stratum-1 server emits
		p[1] = 1
		p[3] = 0xe0
		p[11] = 10
		copy(p[12:], "XSTS")
		copy(p[16:], r.Bytes(32))
	case 3: // a client request: transmit stamp only, receive = transmit
		t := r.Bytes(8)
		copy(p[32:], t)
		copy(p[40:], t)
		p[2] = byte(r.Intn(18))
	default: // receive != transmit (interleaved-capable client), random origin
		copy(p[24:], r.Bytes(24))
	}
	p[0] = b0
	if binary.BigEndian.Uint32(p[40:]) == sentinelSecs {
		p[40] ^= 0x80
	}
	if binary.BigEndian.Uint32(p[32:]) == sentinelSecs {
		p[32] ^= 0x80
	}
	return p
}

// trailing data classes for payloads longer than the header
func trailing(r *lib.Rng, n int, class int) []byte {
	t := make([]byte, n)
	switch class {
	case 0: // zeros
	case 1:
		copy(t, r.Bytes(n))
	case 2: // looks like NTS extension fields: unique id, cookie, authenticator headers
		copy(t, r.Bytes(n))
		put := func(off int, typ, l uint16) {
			if off+4 <= n {
				binary.BigEndian.PutUint16(t[off:], typ)
				binary.BigEndian.PutUint16(t[off+2:], l)
			}
		}
		put(0, 0x104, 36)
		put(36, 0x204, 104)
		put(140, 0x404, 40)
	default: // a second NTP header
		copy(t, header(r, 0x23, 3))
	}
	return t
}

func firstByte(r *lib.Rng) byte {
	switch r.Intn(4) {
	case 0:
		return byte(r.Intn(256))
	case 1: // one field off a valid byte
		b := lib.Pick(r, validFirst...)
		return b ^ byte(1<<r.Intn(8))
	default:
		return lib.Pick(r, validFirst...)
	}
}

func genPayload(r *lib.Rng) ([]byte, string) {
	b0 := firstByte(r)
	switch r.Intn(10) {
	case 0: // short
		n := lib.Pick(r, 0, 1, 4, 16, 40, 46, 47)
		return header(r, b0, r.Intn(5))[:n], "short"
	case 1, 2: // trailing data
		n := lib.Pick(r, 1, 2, 4, 8, 27, 28, 36, 52, 100, 180, 400, 976, 977, 1200, 2000)
		return append(header(r, b0, r.Intn(5)), trailing(r, n, r.Intn(4))...), "trailing"
	default:
		return header(r, b0, r.Intn(5)), "plain"
	}
}

func classify(p []byte) string {
	switch {
	case len(p) < 48:
		return "short"
	case !wfFirst(p[0]):
		return "badlvm"
	case len(p) == 48:
		return "valid48"
	default:
		return "long"
	}
}

func tagsOf(steps []step, extra ...string) string {
	set := map[string]bool{}
	nt := false
	ntsBy := map[int]bool{} // sockets that have sent a valid NTS request so far
	for _, s := range steps {
		if s.k == kLiteral && classify(s.data) == "valid48" && len(ntsBy) > 0 {
			// a plain well-formed request after a valid NTS request: from the same socket (same
			// listener goroutine for sure) or from another one (same goroutine for one in eight)
			if ntsBy[s.sender] {
				set["nts-then-plain-same"] = true
			} else {
				set["nts-then-plain-other"] = true
			}
		}
		if s.k == kNTS && ntsLabelOf(s.a) == ntsYes && len(s.data) > 0 && wfFirst(s.data[0]) {
			ntsBy[s.sender] = true
		}
		switch s.k {
		case kLiteral:
			set[classify(s.data)] = true
			if len(s.data) >= 48 {
				nt = true
			}
			if len(s.data) > 2048 {
				set["oversize"] = true
			}
		case kReflect:
			set["reflect"] = true
			nt = true
		case kInterleaved:
			set["interleaved"] = true
			nt = true
		case kBurst:
			set["burst"] = true
			nt = true
		case kParallel:
			set["parallel"] = true
			nt = true
		case kRaw:
			nt = true
			set[[]string{"raw-garbage", "raw-scmp-request", "raw-scmp-other"}[s.a%3]] = true
		case kNTS:
			nt = true
			if s.a == 14 {
				_, idLen, np, phLen := sizedParams(s.data)
				switch n := sizedLen(idLen, np, phLen); {
				case n > 2048:
					set["nts-size-over-buffer"] = true
				case n > 1024:
					set["nts-size-over-1024"] = true
				case n >= 1016:
					set["nts-size-1016-1024"] = true
				default:
					set["nts-size-below-1016"] = true
				}
				if len(s.data) > 0 && wfFirst(s.data[0]) && sizedLen(idLen, np, phLen) <= 1024 {
					set["ntsvalid"] = true
				}
				break
			}
			if s.a == 12 {
				set["nts-older-key"] = true
			}
			if s.a == 13 {
				set["nts-expired-key"] = true
			}
			if ntsLabelOf(s.a) == ntsYes {
				if len(s.data) > 0 && wfFirst(s.data[0]) {
					set["ntsvalid"] = true
				} else {
					set["ntsvalid-badlvm"] = true
				}
			} else {
				set["ntsbad"] = true
			}
		}
		if s.sender >= nSameAddr {
			set["other-addr"] = true
		}
		if s.sender >= nSameAddr+nOther {
			set["privileged-port"] = true
		}
		if s.hdr != nil && s.k != kRaw {
			if s.hdr.udpSrc < 1024 {
				set["privileged-port"] = true
			}
			if n := len(s.hdr.srcRaw); n != 4 && n != 16 {
				set["odd-host-address"] = true
			}
			if n := len(s.hdr.dstRaw); n != 4 && n != 16 {
				set["odd-host-address"] = true
			}
			if s.hdr.spao != 0 {
				set[[]string{"", "spao-valid", "spao-bad", "spao-bad", "spao-other-spi"}[s.hdr.spao%5]] = true
			}
			if s.hdr.via == 1 {
				set["dispatcher"] = true
			}
			if s.hdr.via == 2 {
				set["no-tx-timestamp"] = true
			}
			if s.hdr.ulen != 0 {
				set[[]string{"", "udplen-0", "udplen-8", "udplen-56", "udplen-tiny"}[s.hdr.ulen%5]] = true
			}
		}
		if s.hdr != nil {
			if len(s.hdr.dstRaw) != len(s.hdr.srcRaw) {
				set["mixed-family"] = true
			}
			if s.hdr.pathType != 0 {
				set[fmt.Sprintf("path%d", s.hdr.pathType)] = true
			}
			if s.hdr.underlay == endhostPort {
				set["via-endhost-port"] = true
			}
			if s.hdr.udpDst != scionPort && s.hdr.fwd == 0 && s.k != kRaw {
				set["wrong-l4-port"] = true
			}
			if s.hdr.fwd > 0 {
				set["forward"] = true
			}
			if s.hdr.ext != 0 && s.k != kRaw {
				set[[]string{"", "ext-e2e", "ext-e2e", "ext-hbh-e2e", "ext-hbh", "ext-e2e"}[s.hdr.ext%6]] = true
			}
		}
	}
	if len(steps) > 1 {
		set["multi"] = true
	}
	var t []string
	if nt {
		t = append(t, "nt")
	}
	for k := range set {
		t = append(t, k)
	}
	t = append(t, extra...)
	// deterministic order
	for i := 1; i < len(t); i++ {
		for j := i; j > 0 && t[j] < t[j-1] && t[j-1] != "nt"; j-- {
			t[j], t[j-1] = t[j-1], t[j]
		}
	}
	return strings.Join(t, ",")
}

// ---- SCION header generators ----

func genHost(r *lib.Rng, v6 bool) (uint8, []byte) {
	if v6 {
		b := r.Bytes(16)
		b[0] = 0xfd
		return 3, b // T16Ip
	}
	b := r.Bytes(4)
	b[0] = 10
	return 0, b // T4Ip
}

func genPath(r *lib.Rng) (uint8, []byte) {
	switch r.Intn(6) {
	case 0, 1: // SCION path with 1..3 segments
		nseg := 1 + r.Intn(3)
		var dp scionpath.Decoded
		total := 0
		for i := 0; i < nseg; i++ {
			l := 1 + r.Intn(4)
			dp.PathMeta.SegLen[i] = uint8(l)
			total += l
			dp.InfoFields = append(dp.InfoFields, path.InfoField{ConsDir: r.Bool(), Peer: false, SegID: uint16(r.U64()), Timestamp: uint32(r.U64())})
		}
		for i := 0; i < total; i++ {
			hf := path.HopField{ExpTime: uint8(r.U64()), ConsIngress: uint16(r.U64()), ConsEgress: uint16(r.U64())}
			copy(hf.Mac[:], r.Bytes(6))
			dp.HopFields = append(dp.HopFields, hf)
		}
		dp.NumINF, dp.NumHops = nseg, total
		// the packet has arrived: the last hop of the last segment is current
		dp.PathMeta.CurrINF = uint8(nseg - 1)
		dp.PathMeta.CurrHF = uint8(total - 1)
		if r.Intn(3) == 0 { // or somewhere consistent in the middle
			hf := r.Intn(total)
			inf, acc := 0, 0
			for i := 0; i < nseg; i++ {
				acc += int(dp.PathMeta.SegLen[i])
				if hf < acc {
					inf = i
					break
				}
			}
			dp.PathMeta.CurrINF, dp.PathMeta.CurrHF = uint8(inf), uint8(hf)
		}
		b := make([]byte, dp.Len())
		if err := dp.SerializeTo(b); err != nil {
			return 0, nil
		}
		return uint8(scionpath.PathType), b
	case 2: // one-hop path, second hop filled in (reversible) or not
		var p onehop.Path
		p.Info = path.InfoField{ConsDir: true, SegID: uint16(r.U64()), Timestamp: uint32(r.U64())}
		p.FirstHop = path.HopField{ExpTime: 63, ConsEgress: uint16(1 + r.Intn(100))}
		copy(p.FirstHop.Mac[:], r.Bytes(6))
		if r.Intn(4) != 0 {
			p.SecondHop = path.HopField{ExpTime: 63, ConsIngress: uint16(1 + r.Intn(100))}
			copy(p.SecondHop.Mac[:], r.Bytes(6))
		}
		b := make([]byte, p.Len())
		if err := p.SerializeTo(b); err != nil {
			return 0, nil
		}
		return uint8(onehop.PathType), b
	default:
		return 0, nil
	}
}

func genHdr(r *lib.Rng) *hdrSpec {
	h := &hdrSpec{}
	h.dstIA = uint64(1+r.Intn(3))<<48 | 0xff0000000100 | uint64(r.Intn(64))
	h.srcIA = uint64(1+r.Intn(3))<<48 | 0xff0000000200 | uint64(r.Intn(64))
	if r.Intn(8) == 0 {
		h.srcIA = h.dstIA
	}
	fam := r.Intn(4) // v4/v4, v6/v6, v4 -> v6, v6 -> v4
	h.srcType, h.srcRaw = genHost(r, fam == 1 || fam == 3)
	h.dstType, h.dstRaw = genHost(r, fam == 1 || fam == 2)
	if r.Intn(16) == 0 { // service address as source: 4 bytes, still an address the listener can parse
		h.srcType, h.srcRaw = 4, []byte{0, 2, 0, 0}
	}
	h.pathType, h.pathRaw = genPath(r)
	h.udpSrc = uint16(1024 + r.Intn(60000))
	h.udpDst = scionPort
	h.underlay = scionPort
	switch r.Intn(12) {
	case 0: // reaches the listener through the end-host port
		h.underlay = endhostPort
	case 1: // not for this listener: L4 port differs (arrives on the listener's own port: dropped)
		h.udpDst = uint16(lib.Pick(r, scionPort+1, ipPort, endhostPort, 123))
	case 2: // for another application on this host, through the end-host port: relayed, not answered
		h.underlay = endhostPort
		h.fwd = 1 + r.Intn(nSameAddr)
		h.udpDst = 1 // replaced by the port of that socket when the packet is built
	case 3: // through the end-host port and for the end-host port: dropped
		h.underlay = endhostPort
		h.udpDst = endhostPort
	}
	if r.Intn(3) == 0 {
		h.ext = uint8(1 + r.Intn(5))
	}
	switch r.Intn(8) {
	case 0:
		h.udpSrc = scionPort // same port on both sides
	case 1: // privileged source ports, the NTP port among them
		h.udpSrc = uint16(lib.Pick(r, 123, 123, 1, 319, 1023, 0))
	}
	switch r.Intn(24) {
	case 0: // host addresses of 8 or 12 bytes: the SCION header allows them, no IP address has that length
		h.srcType = uint8(lib.Pick(r, 1, 2))
		h.srcRaw = r.Bytes(4 * (int(h.srcType) + 1))
	case 1:
		h.dstType = uint8(lib.Pick(r, 1, 2))
		h.dstRaw = r.Bytes(4 * (int(h.dstType) + 1))
	}
	if h.fwd == 0 && r.Intn(12) == 0 {
		h.ulen = uint8(1 + r.Intn(4))
	}
	if h.ext == 0 && h.fwd == 0 && h.ulen == 0 && r.Intn(5) == 0 {
		h.spao = uint8(lib.Pick(r, spaoValid, spaoValid, spaoBadMAC, spaoWrongKey, spaoOtherSPI))
	}
	return h
}

// genDispHdr: a packet for the stand-alone dispatcher: either for an application on the
// host (relayed to one of the harness's sockets) or for the end-host port itself, which
// nobody serves (dropped: the dispatcher is not an NTP server, whatever the payload).
func genDispHdr(r *lib.Rng) *hdrSpec {
	h := genHdr(r)
	h.via, h.underlay, h.spao, h.fwd = 1, endhostPort, 0, 0
	if len(h.srcRaw) != 4 && len(h.srcRaw) != 16 {
		h.srcType, h.srcRaw = genHost(r, false)
	}
	if r.Intn(3) == 0 {
		h.udpDst = endhostPort
		h.dstType, h.dstRaw = genHost(r, r.Bool())
	} else {
		h.fwd = 1 + r.Intn(nSameAddr)
		h.udpDst = 1
	}
	return h
}

// genMixed: one datagram from each of many sockets, for the IP listener (no header) and
// for the SCION listener, to be fired at the same time.
func genMixed(r *lib.Rng) []step {
	var steps []step
	n := 8 + r.Intn(40)
	first, stride := r.Intn(nSocks), lib.Pick(r, 1, 3, 5, 7, 11, 13)
	for j := 0; j < n; j++ {
		s := step{sender: (first + j*stride) % nSocks, k: kLiteral}
		switch r.Intn(8) {
		case 0:
			s.data, _ = genPayload(r)
		case 1:
			s.k, s.a, s.data = kNTS, int64(lib.Pick(r, 0, 0, 12, 8, 1, 2, 13)), []byte{lib.Pick(r, validFirst...)}
		default:
			s.data = header(r, lib.Pick(r, validFirst...), 3+r.Intn(2))
		}
		if r.Intn(2) == 0 {
			s.hdr = genHdr(r)
			s.hdr.fwd = 0
			if s.hdr.underlay == endhostPort && s.hdr.udpDst != endhostPort {
				s.hdr.udpDst = scionPort
			}
		}
		steps = append(steps, s)
	}
	return steps
}

// ---- direct kinds ----

func directValidate(b []byte) {
	var p ntp.Packet
	err := ntp.DecodePacket(&p, b)
	if err != nil {
		emitCase("ntp.validate", "short", lib.B(b), lib.V("0", "0", "0", "0", "0"))
		return
	}
	verr := ntp.ValidateRequest(&p, 0)
	tags := "nt,badlvm"
	if verr == nil {
		tags = "nt,validlvm"
	}
	emitCase("ntp.validate", tags, lib.B(b), lib.V("1", lib.Bool(verr == nil),
		lib.U(uint64(p.LeapIndicator())), lib.U(uint64(p.Version())), lib.U(uint64(p.Mode()))))
}

func t64(t ntp.Time64) string { return lib.L(lib.U(uint64(t.Seconds)), lib.U(uint64(t.Fraction))) }

func directCodec(b []byte) {
	var p ntp.Packet
	if ntp.DecodePacket(&p, b) != nil {
		return
	}
	var enc []byte
	ntp.EncodePacket(&enc, &p)
	emitCase("ntp.codec", "", lib.B(b), lib.V(lib.B(enc), t64(p.OriginTime), t64(p.ReceiveTime), t64(p.TransmitTime),
		lib.I(int64(p.Poll)), lib.U(uint64(p.Stratum))))
}

func directHandle(b []byte, client string) {
	var req, resp ntp.Packet
	if ntp.DecodePacket(&req, b) != nil {
		return
	}
	rxt := time.Now().UTC()
	var txt time.Time
	server.VerifHandleRequest(client, &req, &rxt, &txt, &resp)
	var enc []byte
	ntp.EncodePacket(&enc, &resp)
	emitCase("srv.handle", "nt", lib.B(b), lib.B(enc))
}

func consts() {
	emitCase("consts", "", "", lib.V(lib.I(ntp.PacketLen), lib.I(ntp.VersionMin), lib.I(ntp.VersionMax), lib.I(ntp.ModeReserved0),
		lib.I(ntp.ModeClient), lib.I(ntp.ModeServer), lib.I(ntp.LeapIndicatorNoWarning), lib.I(ntp.LeapIndicatorUnknown),
		lib.I(scion.EndhostPort), lib.I(scion.MTU), lib.I(nts.MaxPacketLen)))
}

// ---- histories ----

func genParallel(r *lib.Rng) []byte {
	var data []byte
	nsnd := 2 + r.Intn(7)
	first := r.Intn(nSocks)
	for i := 0; i < nsnd; i++ {
		snd := (first + i) % nSocks
		for j := 1 + r.Intn(4); j > 0; j-- {
			var p []byte
			if r.Intn(2) == 0 {
				p = header(r, lib.Pick(r, validFirst...), 3+r.Intn(2))
			} else {
				p, _ = genPayload(r)
			}
			data = append(data, byte(snd), byte(len(p)>>8), byte(len(p)))
			data = append(data, p...)
		}
	}
	return data
}

func genBurst(r *lib.Rng) []byte {
	var data []byte
	n := 2 + r.Intn(6)
	for i := 0; i < n; i++ {
		if r.Intn(6) == 0 {
			data = append(data, 0xff, 0xff, byte(lib.Pick(r, 0, 0, 1, 2, 3, 5, 8, 9, 12, 13)), firstByte(r))
			continue
		}
		var p []byte
		if r.Intn(3) == 0 {
			p = header(r, lib.Pick(r, validFirst...), 3+r.Intn(2))
		} else {
			p, _ = genPayload(r)
		}
		data = append(data, byte(len(p)>>8), byte(len(p)))
		data = append(data, p...)
	}
	return data
}

func genHistory(r *lib.Rng, n int, withHdr bool) []step {
	var steps []step
	for i := 0; i < n; i++ {
		s := step{sender: r.Intn(nSocks)}
		switch k := r.Intn(10); {
		case k < 2 && i > 0: // send a reply seen earlier back to the listener
			s.k, s.a = kReflect, int64(r.Intn(i))
			s.data = header(r, 0x24, 2)
		case k < 4 && i > 0: // interleaved follow-up of an earlier exchange
			s.k, s.a = kInterleaved, int64(r.Intn(i))
			s.data = header(r, lib.Pick(r, validFirst...), 4)
			s.sender = steps[s.a].sender
		case k == 9 && !withHdr:
			s.k, s.data = kBurst, genBurst(r)
		case k < 5:
			s.k, s.a = kNTS, int64(lib.Pick(r, 0, 0, 0, 12, 1, 2, 3, 4, 5, 6, 7, 8, 9, 10, 11, 12, 13, 14))
			s.data = []byte{firstByte(r)}
			if s.a == 14 {
				s.data = []byte{firstByte(r), byte(lib.Pick(r, 32, 36, 40, 64)), byte(lib.Pick(r, 0, 3, 6, 6, 7)), 0, 124}
			}
		default:
			s.k = kLiteral
			s.data, _ = genPayload(r)
			if r.Intn(3) == 0 { // make sure valid requests are frequent: they are what later steps build on
				s.data = header(r, lib.Pick(r, validFirst...), 3+r.Intn(2))
			}
		}
		if withHdr {
			s.hdr = genHdr(r)
			if s.k == kInterleaved && r.Intn(4) != 0 { // same SCION client as the exchange it follows
				h := *steps[s.a].hdr
				s.hdr = &h
			}
		}
		steps = append(steps, s)
	}
	return steps
}

// genNTSThenPlain: a valid NTS request from one socket, then plain requests from the same
// socket and from many other source ports (the kernel's SO_REUSEPORT hash puts about one in
// eight of them on the goroutine that handled the NTS request), with a few other datagrams
// mixed in.  Every well-formed request of such a history must be answered once, whatever the
// goroutine that serves it handled before.
func genNTSThenPlain(r *lib.Rng, withHdr bool, maxOthers int) []step {
	var steps []step
	var hdrA *hdrSpec
	if withHdr {
		hdrA = genHdr(r)
	}
	add := func(s step, own bool) {
		if withHdr {
			if own && r.Intn(3) != 0 {
				h := *hdrA
				s.hdr = &h
			} else {
				s.hdr = genHdr(r)
			}
		}
		steps = append(steps, s)
	}
	plain := func() []byte { return header(r, lib.Pick(r, validFirst...), 3+r.Intn(2)) }
	a := r.Intn(nSocks)
	if r.Intn(3) == 0 { // the socket is already known to the listener as a plain client
		add(step{sender: a, k: kLiteral, data: plain()}, true)
	}
	add(step{sender: a, k: kNTS, a: int64(lib.Pick(r, 0, 0, 12, 8)), data: []byte{lib.Pick(r, validFirst...)}}, true)
	add(step{sender: a, k: kLiteral, data: plain()}, true)
	n := 4 + r.Intn(maxOthers)
	first, stride := r.Intn(nSocks), lib.Pick(r, 1, 3, 5, 7, 11, 13)
	for j := 0; j < n; j++ {
		snd := (first + j*stride) % nSocks
		switch r.Intn(10) {
		case 0: // anything
			p, _ := genPayload(r)
			add(step{sender: snd, k: kLiteral, data: p}, false)
		case 1: // another NTS request, valid or damaged, on some goroutine
			add(step{sender: snd, k: kNTS, a: int64(lib.Pick(r, 0, 12, 1, 2, 5, 8, 13)), data: []byte{lib.Pick(r, validFirst...)}}, false)
		default:
			add(step{sender: snd, k: kLiteral, data: plain()}, false)
		}
	}
	add(step{sender: a, k: kLiteral, data: plain()}, true)
	return steps
}

// sizedSteps: intact NTS requests of total length total (a multiple of 4, at least 256) in
// several shapes: one placeholder that makes up the length (identifier 32..64 bytes), and,
// where the length allows it, the shapes of a real client (36-byte identifier with six
// 124-byte placeholders is exactly 1024).
func sizedSteps(r *lib.Rng, total int, withHdr bool) [][]step {
	var out [][]step
	mk := func(idLen, np, phLen int) {
		if sizedLen(idLen, np, phLen) != total || phLen < 0 || phLen > 4000 {
			return
		}
		s := step{sender: r.Intn(nSocks), k: kNTS, a: 14,
			data: []byte{byte(lib.Pick(r, 0x23, 0x23, 0xe3, 0x1b)), byte(idLen), byte(np), byte(phLen >> 8), byte(phLen)}}
		if withHdr {
			s.hdr = genHdr(r)
			s.hdr.fwd, s.hdr.spao = 0, 0
			if s.hdr.underlay == endhostPort && s.hdr.udpDst != endhostPort {
				s.hdr.udpDst = scionPort
			}
		}
		out = append(out, []step{s})
	}
	for _, idLen := range []int{32, 33, 36, 48, 64} {
		pad := (idLen + 3) &^ 3
		mk(idLen, 1, total-224-pad)
	}
	for np := 0; np <= 7; np++ {
		for _, idLen := range []int{32, 36, 40, 44, 64} {
			mk(idLen, np, 124)
		}
	}
	return out
}

func sizedTotals(thorough bool) []int {
	var ts []int
	step := 64
	if thorough {
		step = 4
	}
	for t := 256; t < 960; t += step {
		ts = append(ts, t)
	}
	for t := 960; t <= 1100; t += 4 { // every length around nts.MaxPacketLen
		ts = append(ts, t)
	}
	for t := 1104; t <= 2060; t += step {
		ts = append(ts, t)
	}
	return append(ts, 2040, 2044, 2048, 2052, 2056)
}

// udpLenSteps: the same payloads (plain 48-byte request, request followed by garbage, intact
// NTS request) under every form of the UDP length field.
func udpLenSteps(r *lib.Rng) [][]step {
	var out [][]step
	for mode := uint8(ulenExact); mode <= ulenTiny; mode++ {
		for kind := 0; kind < 4; kind++ {
			s := step{sender: r.Intn(nSocks), k: kLiteral}
			b0 := lib.Pick(r, validFirst...)
			switch kind {
			case 0:
				s.data = header(r, b0, 3+r.Intn(2))
			case 1:
				s.data = append(header(r, b0, 3), trailing(r, lib.Pick(r, 1, 4, 28, 100, 400, 976), r.Intn(4))...)
			case 2:
				s.k, s.a, s.data = kNTS, int64(lib.Pick(r, 0, 8, 12)), []byte{b0}
			default:
				s.k, s.a, s.data = kNTS, int64(lib.Pick(r, 1, 2, 5, 13)), []byte{b0}
			}
			s.hdr = genHdr(r)
			s.hdr.fwd, s.hdr.spao, s.hdr.ulen = 0, 0, mode
			if r.Intn(4) != 0 { // mostly addressed to the listener, with readable host addresses
				s.hdr.udpDst = scionPort
				if len(s.hdr.srcRaw)%12 != 4 {
					s.hdr.srcType, s.hdr.srcRaw = genHost(r, false)
				}
				if len(s.hdr.dstRaw)%12 != 4 {
					s.hdr.dstType, s.hdr.dstRaw = genHost(r, false)
				}
			} else if s.hdr.underlay == endhostPort && s.hdr.udpDst != endhostPort {
				s.hdr.udpDst = scionPort
			}
			out = append(out, []step{s})
		}
	}
	return out
}

// genRaw: datagrams for the SCION ports that are no SCION/UDP packets: garbage of many
// shapes and SCMP messages.  Each is followed by a sentinel from the same socket (so on the
// goroutine that got the datagram); more of them than a port has goroutines.
func genRaw(r *lib.Rng, underlay uint16) []step {
	var steps []step
	reversible := func() *hdrSpec {
		for {
			h := genHdr(r)
			if h.pathType != 2 {
				h.ext, h.fwd, h.udpDst, h.underlay, h.spao, h.ulen = 0, 0, scionPort, underlay, 0, 0
				if len(h.srcRaw)%12 != 4 || len(h.dstRaw)%12 != 4 {
					continue
				}
				return h
			}
		}
	}
	n := 4 + r.Intn(9)
	for i := 0; i < n; i++ {
		s := step{sender: r.Intn(nSocks), k: kRaw, a: rawGarbage, hdr: &hdrSpec{underlay: underlay}}
		switch r.Intn(13) {
		case 0: // nothing at all / a few bytes
			s.data = r.Bytes(lib.Pick(r, 0, 1, 2, 4, 11))
		case 1, 2: // random bytes of many sizes
			s.data = r.Bytes(lib.Pick(r, 12, 36, 48, 100, 576, 1500, 4000))
		case 3: // a plain NTP request sent to the SCION port
			s.data = header(r, lib.Pick(r, validFirst...), 3)
		case 4: // a valid SCION/UDP request cut off inside its headers
			b, err := buildSCION(reversible(), header(r, 0x23, 3))
			if err == nil {
				s.data = b[:r.Intn(36)]
			}
		case 5: // SCION header whose header-length field is wrong (the version field is not checked by
			// the SCION library, so a damaged version does not make a packet garbage)
			b, err := buildSCION(reversible(), header(r, 0x23, 3))
			if err == nil {
				b[5] = byte(lib.Pick(r, 0, 1, 255))
				s.data = b
			}
		case 6: // SCION packet carrying an upper-layer protocol no listener knows
			b, err := serializeSCION(reversible(), 6, func(*slayers.SCION) []gopacket.SerializableLayer {
				return []gopacket.SerializableLayer{gopacket.Payload(r.Bytes(40))}
			})
			if err == nil {
				s.data = b
			}
		case 7, 8: // SCMP echo / traceroute request: answered with SCMP, never with NTP
			h := reversible()
			body := r.Bytes(lib.Pick(r, 4, 20, 60))
			if r.Bool() {
				// right after a UDP packet with the same header that the goroutine dropped (a server-mode
				// payload; no sentinel in between), and with an NTP client header as echo data, which then lies where the UDP
				// layer's payload was: whatever the decoder still holds from the UDP packet, the answer
				// is one SCMP message and nothing else
				hc := *h
				s.hdr = &hc // (a raw step with a full header: runSCION sends the dropped UDP packet first)
				body = append(r.Bytes(4), header(r, lib.Pick(r, validFirst...), 3)...)
			}
			b, err := buildSCMP(h, uint8(lib.Pick(r, 128, 130)), body)
			if err == nil {
				s.data, s.a = b, rawSCMPReq
			}
		case 9, 10: // other SCMP messages (errors, replies)
			b, err := buildSCMP(reversible(), uint8(lib.Pick(r, 1, 2, 4, 129, 131, 200)), r.Bytes(lib.Pick(r, 4, 20, 60)))
			if err == nil {
				s.data, s.a = b, rawSCMPOther
			}
		case 11: // a valid request whose UDP length field claims more bytes than the datagram has
			p := header(r, 0x23, 3)
			b, err := buildSCION(reversible(), p)
			if err == nil {
				off := len(b) - len(p) - 8 + 4
				binary.BigEndian.PutUint16(b[off:], uint16(lib.Pick(r, len(b)+1, len(b)+100, 0xffff)))
				s.data = b
			}
		default: // an NTP server reply, bare
			s.data = header(r, 0x24, 2)
		}
		steps = append(steps, s)
	}
	return steps
}

func child(a lib.Args) {
	d := newDrv()
	r := lib.NewRng(a.Seed)
	thorough := a.Tier == "thorough"

	if a.Replay != "" {
		for _, c := range lib.ReplayLines(a.Replay) {
			switch c[0] {
			case "ip":
				d.runIP(c[1], stepsFromArgs(c[2]), r)
			case "ip.hwts":
				d.runIPTo("ip.hwts", d.hwIP, c[1], stepsFromArgs(c[2]), r)
			case "scion", "scion.onehop":
				steps := stepsFromArgs(c[2])
				okAll := true
				for _, s := range steps {
					if s.hdr == nil {
						okAll = false
					}
				}
				if okAll {
					d.runSCION(c[1], steps, r)
				}
			case "mixed":
				d.runMixed(c[1], stepsFromArgs(c[2]), r)
			case "ntp.validate":
				directValidate(lib.ParseB(c[2]))
			case "ntp.codec":
				directCodec(lib.ParseB(c[2]))
			case "srv.handle":
				directHandle(lib.ParseB(c[2]), "replay")
			case "consts":
				consts()
			}
			if d.lost {
				return
			}
		}
		return
	}

	consts()

	if raceMode {
		// the listeners of both kinds busy on all goroutines at once, under the race detector
		for i := 0; i < 5000 && !d.lost; i++ {
			steps := genMixed(r)
			d.runMixed(tagsOf(steps, "race"), steps, r)
		}
		for i := 0; i < 1000 && !d.lost; i++ {
			steps := []step{{sender: 0, k: kParallel, data: genParallel(r)}}
			d.runIP(tagsOf(steps, "race"), steps, r)
		}
		d.finish()
		return
	}

	// 1. functions: every first byte, several remainders and lengths
	for b0 := 0; b0 < 256; b0++ {
		for f := 0; f < 5; f++ {
			directValidate(header(r, byte(b0), f))
		}
		directValidate(append(header(r, byte(b0), 1), trailing(r, 1+r.Intn(60), 1)...))
		directValidate(header(r, byte(b0), 1)[:r.Intn(48)])
		directCodec(append(header(r, byte(b0), 1), trailing(r, r.Intn(3), 1)...))
		directHandle(header(r, byte(b0), 3+r.Intn(2)), fmt.Sprintf("c%d", b0%7))
	}

	one := func(sender int, p []byte, extra ...string) {
		steps := []step{{sender: sender, k: kLiteral, data: p}}
		d.runIP(tagsOf(steps, extra...), steps, r)
	}
	oneS := func(sender int, p []byte, h *hdrSpec, extra ...string) {
		steps := []step{{sender: sender, k: kLiteral, data: p, hdr: h}}
		d.runSCION(tagsOf(steps, extra...), steps, r)
	}

	// 2. IP listener: all 256 first bytes x lengths
	lengths := []int{48, 0, 47, 49, 50, 75, 76, 100}
	if thorough {
		lengths = nil
		for n := 0; n <= 50; n++ {
			lengths = append(lengths, n)
		}
		lengths = append(lengths, 76, 100, 1024, 2048)
	}
	for b0 := 0; b0 < 256 && !d.lost; b0++ {
		one(b0%nSocks, header(r, byte(b0), 2), "sweep") // looks like a server reply apart from the first byte
		for _, n := range lengths {
			if d.lost {
				break
			}
			p := header(r, byte(b0), r.Intn(5))
			if n <= 48 {
				p = p[:n]
			} else {
				p = append(p, trailing(r, n-48, r.Intn(4))...)
			}
			one(r.Intn(nSocks), p, "sweep")
		}
	}
	// 3. all lengths around the header size and the buffer sizes, valid and invalid first byte
	for _, b0 := range []byte{0x23, 0xe3, 0x08, 0x24, 0x1b} {
		var ls []int
		for n := 0; n <= 64; n++ {
			ls = append(ls, n)
		}
		ls = append(ls, 1023, 1024, 1025, 2047, 2048, 2049, 2100, 4000)
		for _, n := range ls {
			if d.lost {
				break
			}
			p := header(r, b0, 3)
			if n <= 48 {
				p = p[:n]
			} else {
				p = append(p, trailing(r, n-48, r.Intn(4))...)
			}
			one(r.Intn(nSocks), p, "lengths")
		}
	}
	// 3b. a valid NTS request, then plain requests from the same and from many other source ports
	// (before the single NTS steps: if the listener stops serving after an NTS request, the case
	// that reports it shows the plain requests that follow as well)
	nFan := 150
	if thorough {
		nFan = 3000
	}
	for i := 0; i < nFan && !d.lost; i++ {
		steps := genNTSThenPlain(r, false, 40)
		d.runIP(tagsOf(steps, "history", "fan"), steps, r)
	}
	// 4. NTS: real requests, intact and damaged, with valid and invalid first bytes
	nNTS := 6
	if thorough {
		nNTS = 40
	}
	for rep := 0; rep < nNTS && !d.lost; rep++ {
		for v := int64(0); v <= 13; v++ {
			for _, b0 := range []byte{0x23, 0xe3, 0x1b, 0x08, 0x24, 0x63, 0x22, byte(r.Intn(256))} {
				steps := []step{{sender: r.Intn(nSocks), k: kNTS, a: v, data: []byte{b0}}}
				d.runIP(tagsOf(steps, "nts"), steps, r)
			}
		}
	}
	// 4c. intact NTS requests of every total length, in particular around nts.MaxPacketLen
	for _, total := range sizedTotals(thorough) {
		for _, steps := range sizedSteps(r, total, false) {
			d.runIP(tagsOf(steps, "nts", "nts-size"), steps, r)
		}
	}
	// 4d. listeners that never get a transmit timestamp back (configured with an interface):
	// they log the failure and go on; every well-formed request is still answered
	nHw := 120
	if thorough {
		nHw = 2500
	}
	for i := 0; i < nHw && !d.lost; i++ {
		steps := genHistory(r, 2+r.Intn(7), false)
		if i%4 == 0 {
			steps = genNTSThenPlain(r, false, 12)
		}
		d.runIPTo("ip.hwts", d.hwIP, tagsOf(steps, "history", "no-tx-timestamp"), steps, r)
		steps = genHistory(r, 2+r.Intn(6), true)
		for j := range steps {
			steps[j].hdr.via = 2
		}
		d.runSCION(tagsOf(steps, "history"), steps, r)
	}
	// 5. histories
	nHist := 1000
	if thorough {
		nHist = 30000
	}
	for i := 0; i < nHist && !d.lost; i++ {
		steps := genHistory(r, 2+r.Intn(7), false)
		d.runIP(tagsOf(steps, "history"), steps, r)
	}

	nBurst := 300
	if thorough {
		nBurst = 12000
	}
	for i := 0; i < nBurst && !d.lost; i++ {
		steps := []step{{sender: r.Intn(nSocks), k: kBurst, data: genBurst(r)}}
		d.runIP(tagsOf(steps, "bursts"), steps, r)
		steps = []step{{sender: 0, k: kParallel, data: genParallel(r)}}
		d.runIP(tagsOf(steps, "bursts"), steps, r)
	}

	// 6. SCION listener: all first bytes x lengths, over mixed headers
	slengths := []int{48, 47, 49, 76}
	if thorough {
		slengths = []int{48, 0, 1, 47, 49, 50, 76, 100, 1024}
	}
	for b0 := 0; b0 < 256 && !d.lost; b0++ {
		for _, n := range slengths {
			if d.lost {
				break
			}
			p := header(r, byte(b0), r.Intn(5))
			if n <= 48 {
				p = p[:n]
			} else {
				p = append(p, trailing(r, n-48, r.Intn(4))...)
			}
			oneS(r.Intn(nSocks), p, genHdr(r), "sweep")
		}
	}
	// valid requests over every combination of address families and path kinds
	nAddr := 600
	if thorough {
		nAddr = 15000
	}
	for i := 0; i < nAddr && !d.lost; i++ {
		oneS(r.Intn(nSocks), header(r, lib.Pick(r, validFirst...), 3+r.Intn(2)), genHdr(r), "addressing")
	}
	for rep := 0; rep < nNTS && !d.lost; rep++ {
		for v := int64(0); v <= 13; v++ {
			for _, b0 := range []byte{0x23, 0xe3, 0x24, 0x22} {
				steps := []step{{sender: r.Intn(nSocks), k: kNTS, a: v, data: []byte{b0}, hdr: genHdr(r)}}
				d.runSCION(tagsOf(steps, "nts"), steps, r)
			}
		}
	}
	for _, total := range sizedTotals(thorough) {
		for _, steps := range sizedSteps(r, total, true) {
			d.runSCION(tagsOf(steps, "nts", "nts-size"), steps, r)
		}
	}
	// every form of the UDP length field
	nLen := 15
	if thorough {
		nLen = 300
	}
	for i := 0; i < nLen && !d.lost; i++ {
		for _, steps := range udpLenSteps(r) {
			d.runSCION(tagsOf(steps, "udplen"), steps, r)
		}
	}
	// garbage and SCMP on both ports of the SCION listener
	nRaw := 40
	if thorough {
		nRaw = 600
	}
	for i := 0; i < nRaw && !d.lost; i++ {
		for _, port := range []uint16{scionPort, endhostPort} {
			steps := genRaw(r, port)
			d.runSCION(tagsOf(steps, "history", "raw"), steps, r)
		}
	}
	// all goroutines of both listeners at once
	nMixed := 120
	if thorough {
		nMixed = 2500
	}
	for i := 0; i < nMixed && !d.lost; i++ {
		steps := genMixed(r)
		d.runMixed(tagsOf(steps, "mixed"), steps, r)
	}
	// the stand-alone dispatcher
	nDisp := 150
	if thorough {
		nDisp = 2000
	}
	for i := 0; i < nDisp && !d.lost; i++ {
		var steps []step
		for j := 1 + r.Intn(4); j > 0; j-- {
			s := step{sender: r.Intn(nSocks), k: kLiteral, hdr: genDispHdr(r)}
			switch r.Intn(6) {
			case 0:
				s.data, _ = genPayload(r)
			case 1:
				s.k, s.a, s.data = kNTS, 0, []byte{0x23}
			default:
				s.data = header(r, lib.Pick(r, validFirst...), 3+r.Intn(2))
			}
			steps = append(steps, s)
		}
		d.runSCION(tagsOf(steps, "history"), steps, r)
	}
	nFanS := 40
	if thorough {
		nFanS = 1000
	}
	for i := 0; i < nFanS && !d.lost; i++ {
		steps := genNTSThenPlain(r, true, 12)
		d.runSCION(tagsOf(steps, "history", "fan"), steps, r)
	}
	nHistS := 400
	if thorough {
		nHistS = 12000
	}
	for i := 0; i < nHistS && !d.lost; i++ {
		steps := genHistory(r, 2+r.Intn(6), true)
		d.runSCION(tagsOf(steps, "history"), steps, r)
	}
	d.finish()
}

func (d *drv) finish() {
	if d.lost {
		note("a sentinel request went unanswered; stopped driving")
	}
	if d.tooManyRetries() {
		note("too many sentinels had to be sent again; stopped driving")
	}
	if d.nRetried > 0 {
		note(fmt.Sprintf("%d sentinels were sent more than once before they were answered", d.nRetried))
	}
	// steps that could not even be built were not exercised: more than a handful fails the run
	emitCase("harness.skipped", "", lib.I(maxSkipped), lib.I(int64(d.skipped)))
}
