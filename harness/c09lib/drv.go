package c09lib

import (
	"context"
	"crypto/rand"
	"encoding/binary"
	"fmt"
	"log/slog"
	"net"
	"os"
	"syscall"
	"time"

	"github.com/google/gopacket"
	"github.com/miscreant/miscreant.go"
	"github.com/scionproto/scion/pkg/slayers"
	"github.com/scionproto/scion/pkg/slayers/path"
	"github.com/scionproto/scion/pkg/slayers/path/empty"
	"github.com/scionproto/scion/pkg/slayers/path/onehop"
	scionpath "github.com/scionproto/scion/pkg/slayers/path/scion"

	"github.com/prometheus/client_golang/prometheus"
	"github.com/scionproto/scion/pkg/spao"

	"example.com/scion-time/core/server"
	"example.com/scion-time/core/timebase"
	"example.com/scion-time/net/ntp"
	"example.com/scion-time/net/nts"
	"example.com/scion-time/net/ntske"
	"example.com/scion-time/net/scion"

	"verifharness/lib"
)

const (
	ipPort       = 20123
	scionPort    = 10123
	endhostPort  = 30041
	sentinelSecs = 0x5E471E00
	// a sentinel is sent up to three times (6 s, 6 s, 8 s) before it counts as unanswered:
	// one datagram lost on a loaded machine must not end the run
	afterLossTimeout = 1500 * time.Millisecond
	maxAfterLoss     = 6
	// sending sockets: many source ports, so that every listener goroutine (the kernel hashes
	// the source port over the SO_REUSEPORT group of 8) is reached from several sockets;
	// nSameAddr on the listener's address, nOther on a second address, and nPriv bound to
	// privileged source ports (123, 319, 1, 1023) on two further addresses
	nSameAddr = 56
	nOther    = 8
	nPriv     = 4
	nSocks    = nSameAddr + nOther + nPriv
	// more steps than this that could not even be built fail the run (kind harness.skipped)
	maxSkipped = 5
	maxRetried = 20
)

var sentinelWaits = []time.Duration{6 * time.Second, 6 * time.Second, 8 * time.Second}

type sysClock struct{}

func (sysClock) Epoch() uint64                                    { return 0 }
func (sysClock) Now() time.Time                                   { return time.Now().UTC() }
func (sysClock) Drift(d time.Duration) time.Duration              { return 0 }
func (sysClock) Step(offset time.Duration)                        {}
func (sysClock) Adjust(offset, duration time.Duration, f float64) {}
func (sysClock) Sleep(d time.Duration)                            { time.Sleep(d) }

// obs: a datagram seen on one of the harness's sockets; from = it came from the address and
// port the exchange in flight sent its datagrams to
type obs struct {
	rcv  int
	from bool
	data []byte
}

type drv struct {
	provider *ntske.Provider
	srvIP    net.IP
	dispIP   net.IP // address of the stand-alone dispatcher (StartSCIONDispatcher)
	hwIP     net.IP // address of the listeners started with a network interface (zone "lo"): hardware timestamping is asked for, no transmit timestamp ever arrives
	socks    []*net.UDPConn
	seq      uint32
	lost     bool // a sentinel went unanswered: finish the history in flight quickly, then stop driving
	dbuf     []byte
	// sentinels that were sent more than once: a second answer may arrive late and is dropped
	retried  map[uint32]bool
	nRetried int
	skipped  int // steps that could not be built
	// keys of the provider: one that has expired and is gone, one that is no longer the
	// current one but still valid, and the current one
	keyExpired, keyOlder ntske.Key
	// traps: sockets that never send anything, bound where a stray copy of a reply would
	// plausibly go (the NTP port and the listener ports on the senders' addresses); their
	// index in observations continues after the sending sockets.  Anything that arrives
	// there is charged to the exchange in flight.
	traps []*net.UDPConn
}

func ownAddr(second byte) net.IP {
	pid := os.Getpid()
	return net.IPv4(127, second, byte(pid>>8), byte(pid))
}

// privileged source ports of the last nPriv sending sockets
var privPorts = [nPriv]int{123, 319, 1, 1023}

func newDrv() *drv {
	d := &drv{dbuf: make([]byte, 65536), retried: map[uint32]bool{}}
	timebase.RegisterClock(sysClock{})
	d.provider = ntske.NewProvider()
	// let the provider live through three days (hook VerifAge moves its keys into the past):
	// the first key expires and is dropped, the second stays valid next to the current one
	d.keyExpired = d.provider.Current()
	d.provider.VerifAge(25 * time.Hour)
	d.keyOlder = d.provider.Current()
	d.provider.VerifAge(50 * time.Hour)
	if cur := d.provider.Current(); cur.ID == d.keyOlder.ID || d.keyOlder.ID == d.keyExpired.ID {
		panic("key provider did not rotate")
	}
	d.srvIP = ownAddr(9)
	d.dispIP = ownAddr(109)
	log := slog.New(slog.DiscardHandler)
	ctx := context.Background()
	server.StartIPServer(ctx, log, &net.UDPAddr{IP: d.srvIP, Port: ipPort}, 0, d.provider)
	server.StartSCIONServer(ctx, log, "" /* daemon */, &net.UDPAddr{IP: d.srvIP, Port: scionPort}, 0, d.provider)
	// a stand-alone dispatcher (the same loop with localHostPort = 30041, no provider) on its
	// own address; it registers the listener metrics a second time, so on its own registry
	prometheus.DefaultRegisterer = prometheus.NewRegistry()
	server.StartSCIONDispatcher(ctx, log, &net.UDPAddr{IP: d.dispIP, Port: scionPort})
	// a second pair of listeners configured with a network interface (the zone of the local
	// address): EnableTimestamping asks for hardware stamps, which the loopback device never
	// delivers, so every reply goes out without a transmit timestamp coming back
	d.hwIP = ownAddr(59)
	prometheus.DefaultRegisterer = prometheus.NewRegistry()
	server.StartIPServer(ctx, log, &net.UDPAddr{IP: d.hwIP, Port: ipPort, Zone: "lo"}, 0, d.provider)
	prometheus.DefaultRegisterer = prometheus.NewRegistry()
	server.StartSCIONServer(ctx, log, "" /* daemon */, &net.UDPAddr{IP: d.hwIP, Port: scionPort, Zone: "lo"}, 0, d.provider)
	for i := 0; i < nSocks; i++ {
		a := &net.UDPAddr{IP: d.srvIP, Port: 0}
		switch {
		case i >= nSameAddr+nOther:
			k := i - nSameAddr - nOther
			a = &net.UDPAddr{IP: ownAddr(byte(210 + k/2)), Port: privPorts[k]}
		case i >= nSameAddr:
			a.IP = ownAddr(209)
		}
		c, err := net.ListenUDP("udp4", a)
		if err != nil && a.Port != 0 {
			// not root, or the port is taken by a daemon bound to 0.0.0.0: an ordinary source port
			note(fmt.Sprintf("cannot bind source port %d (%v): socket %d uses an ephemeral port", a.Port, err, i))
			a.Port = 0
			c, err = net.ListenUDP("udp4", a)
		}
		if err != nil {
			panic(err)
		}
		c.SetReadBuffer(1 << 20)
		d.socks = append(d.socks, c)
	}
	for _, a := range []*net.UDPAddr{
		{IP: d.srvIP, Port: 123}, {IP: ownAddr(209), Port: 123},
		{IP: ownAddr(209), Port: ipPort}, {IP: ownAddr(209), Port: scionPort}, {IP: ownAddr(209), Port: endhostPort},
	} {
		c, err := net.ListenUDP("udp4", a)
		if err != nil {
			note(fmt.Sprintf("trap socket %v not bound (%v): stray copies sent there are not seen in this run", a, err))
			continue
		}
		d.traps = append(d.traps, c)
	}
	return d
}

// everywhere lists every socket a datagram of the listeners could be seen on.
func (d *drv) everywhere() []*net.UDPConn {
	return append(append([]*net.UDPConn(nil), d.socks...), d.traps...)
}

func sameEndpoint(ip net.IP, port int, dst *net.UDPAddr) bool {
	return dst != nil && port == dst.Port && ip.Equal(dst.IP)
}

// drain returns what is queued on a socket right now without waiting.
func (d *drv) drain(c *net.UDPConn, rcv int, dst *net.UDPAddr) []obs {
	var res []obs
	rc, err := c.SyscallConn()
	if err != nil {
		return nil
	}
	buf := d.dbuf
	for {
		n := -1
		var from syscall.Sockaddr
		rc.Read(func(fd uintptr) bool {
			m, sa, err := syscall.Recvfrom(int(fd), buf, syscall.MSG_DONTWAIT)
			if err == nil {
				n, from = m, sa
			}
			return true
		})
		if n < 0 {
			return res
		}
		o := obs{rcv: rcv, data: append([]byte(nil), buf[:n]...)}
		if sa, ok := from.(*syscall.SockaddrInet4); ok {
			o.from = sameEndpoint(net.IP(sa.Addr[:]), sa.Port, dst)
		}
		res = append(res, o)
	}
}

func (d *drv) nextSentinel() []byte {
	d.seq++
	s := make([]byte, ntp.PacketLen)
	s[0] = 4<<3 | 3
	binary.BigEndian.PutUint32(s[32:], sentinelSecs)
	binary.BigEndian.PutUint32(s[36:], d.seq)
	binary.BigEndian.PutUint32(s[40:], sentinelSecs)
	binary.BigEndian.PutUint32(s[44:], d.seq)
	return s
}

// replySeq: the sequence number of the sentinel an NTP payload answers (origin field).
func replySeq(ntpPayload []byte) (uint32, bool) {
	if len(ntpPayload) >= ntp.PacketLen && binary.BigEndian.Uint32(ntpPayload[24:]) == sentinelSecs {
		return binary.BigEndian.Uint32(ntpPayload[28:]), true
	}
	return 0, false
}

// relaySeq: the sequence number of a sentinel that comes back unchanged (relayed by a dispatcher).
func relaySeq(ntpPayload []byte) (uint32, bool) {
	if len(ntpPayload) >= ntp.PacketLen && ntpPayload[0] == 4<<3|3 && binary.BigEndian.Uint32(ntpPayload[40:]) == sentinelSecs {
		return binary.BigEndian.Uint32(ntpPayload[44:]), true
	}
	return 0, false
}

func ipSeq(b []byte) (uint32, bool) { return replySeq(b) }

// collector sorts the datagrams of one exchange: before the sentinel's answer, the answer,
// and answers to sentinels of earlier exchanges that were sent more than once (dropped).
type collector struct {
	d         *drv
	seq       uint32
	seqOf     func([]byte) (uint32, bool)
	reps      []obs
	sreps     []obs
	gotAnswer bool
}

func (c *collector) add(o obs) (answer bool) {
	if q, ok := c.seqOf(o.data); ok {
		if q == c.seq {
			if c.gotAnswer && c.d.retried[q] {
				return false // the answer to the second copy of a sentinel that was sent again
			}
			c.gotAnswer = true
			c.sreps = append(c.sreps, o)
			return true
		}
		if c.d.retried[q] {
			return false // late answer to an earlier sentinel that was sent again
		}
	}
	c.reps = append(c.reps, o)
	return false
}

// awaitSentinel reads from socket c until the answer to the sentinel arrives; the sentinel
// is sent again after 6 s and after 12 s; after 20 s it counts as unanswered.
func (d *drv) awaitSentinel(c *net.UDPConn, rcv int, dst *net.UDPAddr, sentinelPkt []byte, col *collector) {
	waits := sentinelWaits
	if d.lost {
		waits = []time.Duration{afterLossTimeout}
	}
	buf := make([]byte, 65536)
	for a, w := range waits {
		if a > 0 {
			d.retried[col.seq] = true
			d.nRetried++
			c.WriteToUDP(sentinelPkt, dst)
		}
		deadline := time.Now().Add(w)
		for {
			c.SetReadDeadline(deadline)
			n, src, err := c.ReadFromUDP(buf)
			if err != nil {
				break
			}
			o := obs{rcv: rcv, data: append([]byte(nil), buf[:n]...), from: src != nil && sameEndpoint(src.IP, src.Port, dst)}
			if col.add(o) {
				return
			}
		}
	}
	// the sentinel, a well-formed plain request, was not answered
	d.lost = true
}

// tooManyRetries: sentinels that need re-sending are rare (6 s without an answer on
// loopback); a listener that garbles or drops every few replies would otherwise cost the
// run minutes per case.  The cases driven so far stand.
func (d *drv) tooManyRetries() bool { return d.nRetried > maxRetried }

// exchange sends pkt and then sentinelPkt from socket sender to dst and returns
// every datagram that arrived at any of the sockets up to and including the
// answer to the sentinel (recognised by seqOf), in two groups.
func (d *drv) exchange(sender int, dst *net.UDPAddr, pkt, sentinelPkt []byte,
	seqOf func([]byte) (uint32, bool)) (reps, sreps []obs) {
	c := d.socks[sender]
	if _, err := c.WriteToUDP(pkt, dst); err != nil {
		note(fmt.Sprintf("write failed: %v (len %d)", err, len(pkt)))
	}
	if _, err := c.WriteToUDP(sentinelPkt, dst); err != nil {
		note(fmt.Sprintf("write failed: %v", err))
	}
	col := &collector{d: d, seq: d.seq, seqOf: seqOf}
	d.awaitSentinel(c, sender, dst, sentinelPkt, col)
	for i, s := range d.everywhere() {
		for _, o := range d.drain(s, i, dst) {
			col.add(o)
		}
	}
	return col.reps, col.sreps
}

// ---- NTS ----

// ntsValid is the NTS verdict for a payload: the six calls the listeners make,
// in their order, on the same key provider.
func (d *drv) ntsValid(b []byte) (ok bool) {
	defer func() {
		if recover() != nil {
			ok = false
		}
	}()
	if len(b) <= ntp.PacketLen {
		return false
	}
	var p nts.Packet
	if nts.DecodePacket(&p, b) != nil {
		return false
	}
	cookie, err := p.FirstCookie()
	if err != nil {
		return false
	}
	var ec ntske.EncryptedServerCookie
	if ec.Decode(cookie) != nil {
		return false
	}
	key, found := d.provider.Get(int(ec.ID))
	if !found {
		return false
	}
	sc, err := ec.Decrypt(key.Value)
	if err != nil {
		return false
	}
	return nts.ProcessRequest(b, sc.C2S, &p) == nil
}

// ntsRequest builds a real NTS request (real cookie under the provider's
// current key, nts.NewRequestPacket, nts.EncodePacket) with first header byte
// b0 and then damages it according to the variant.
func (d *drv) ntsRequest(b0 byte, variant int64, r *lib.Rng) []byte {
	key := d.provider.Current()
	switch variant {
	case 12: // cookie sealed under a key that is not the current one any more, but still valid
		key = d.keyOlder
	case 13: // cookie sealed under a key that has expired
		key = d.keyExpired
	}
	// fresh session keys for every request, as every client has its own
	c2s, s2c := make([]byte, 32), make([]byte, 32)
	rand.Read(c2s)
	rand.Read(s2c)
	sc := ntske.ServerCookie{Algo: 15, S2C: s2c, C2S: c2s}
	ec, err := sc.EncryptWithNonce(key.Value, key.ID)
	if err != nil {
		panic(err)
	}
	switch variant {
	case 2: // cookie that does not open (damaged before the request is authenticated)
		ec.Ciphertext[5] ^= 0x80
	case 3: // cookie sealed under the current key but labelled with an unknown key id
		ec.ID ^= 0x4000
	}
	nCookies := 1
	if variant == 8 {
		nCookies = 8 // no placeholders
	}
	data := ntske.Data{C2sKey: c2s, S2cKey: s2c, Algo: 15}
	for i := 0; i < nCookies; i++ {
		data.Cookie = append(data.Cookie, ec.Encode())
	}
	pkt, _ := nts.NewRequestPacket(data)
	buf := make([]byte, ntp.PacketLen)
	buf[0] = b0
	tx := r.Bytes(8)
	copy(buf[40:], tx)
	copy(buf[32:], tx)
	if variant == 9 {
		// authenticated with a key the cookie does not carry
		pkt.Auth.Key = s2c
	}
	nts.EncodePacket(&buf, &pkt)
	switch variant {
	case 1: // authenticator tag damaged
		buf[len(buf)-1] ^= 0x01
	case 10: // cookie ciphertext damaged after authentication
		buf[48+36+4+40] ^= 0x80
	case 11: // key id changed after authentication
		buf[48+36+4+4] ^= 0x40
	case 4: // truncated
		buf = buf[:len(buf)-4]
	case 5: // header changed after authentication (the header is authenticated data)
		buf[1] ^= 0xff
	case 6: // trailing bytes after the authenticator
		buf = append(buf, 0, 0, 0, 0)
	case 7: // only the NTP header and the unique identifier
		buf = buf[:48+36]
	}
	return buf
}

// sizedLen is the total length of the request ntsSized builds.
func sizedLen(idLen, np, phLen int) int {
	pad4 := func(n int) int { return (n + 3) &^ 3 }
	return ntp.PacketLen + 4 + pad4(idLen) + 4 + 124 + np*(4+pad4(phLen)) + 40
}

func sizedParams(data []byte) (b0 byte, idLen, np, phLen int) {
	b0, idLen = 0x23, 32
	if len(data) >= 5 {
		b0, idLen, np, phLen = data[0], int(data[1]), int(data[2]), int(data[3])<<8|int(data[4])
	}
	if idLen < 32 {
		idLen = 32
	}
	return
}

// ntsSized builds an intact NTS request of a chosen total length with an encoder of the
// harness's own (not nts.EncodePacket, which cannot exceed 1024 bytes): unique identifier of
// idLen bytes, one real cookie under the current key, np cookie placeholders of phLen bytes,
// authenticator (AES-SIV-CMAC-256 under the cookie's C2S key over everything before it).
func (d *drv) ntsSized(data []byte, r *lib.Rng) []byte {
	b0, idLen, np, phLen := sizedParams(data)
	key := d.provider.Current()
	c2s, s2c := make([]byte, 32), make([]byte, 32)
	rand.Read(c2s)
	rand.Read(s2c)
	sc := ntske.ServerCookie{Algo: 15, S2C: s2c, C2S: c2s}
	ec, err := sc.EncryptWithNonce(key.Value, key.ID)
	if err != nil {
		panic(err)
	}
	buf := make([]byte, ntp.PacketLen, 4096)
	buf[0] = b0
	tx := r.Bytes(8)
	copy(buf[40:], tx)
	copy(buf[32:], tx)
	ext := func(typ uint16, val []byte) {
		n := (len(val) + 3) &^ 3
		buf = binary.BigEndian.AppendUint16(buf, typ)
		buf = binary.BigEndian.AppendUint16(buf, uint16(4+n))
		buf = append(buf, val...)
		buf = append(buf, make([]byte, n-len(val))...)
	}
	id := make([]byte, idLen)
	rand.Read(id)
	ext(0x104, id)
	ext(0x204, ec.Encode())
	for i := 0; i < np; i++ {
		ext(0x304, make([]byte, phLen))
	}
	aead, err := miscreant.NewAEAD("AES-CMAC-SIV", c2s, 16)
	if err != nil {
		panic(err)
	}
	nonce := make([]byte, 16)
	rand.Read(nonce)
	ct := aead.Seal(nil, nonce, nil, buf)
	a := binary.BigEndian.AppendUint16(nil, uint16(len(nonce)))
	a = binary.BigEndian.AppendUint16(a, uint16(len(ct)))
	a = append(append(a, nonce...), ct...)
	ext(0x404, a)
	if len(buf) != sizedLen(idLen, np, phLen) {
		panic(fmt.Sprintf("sized NTS request: %d bytes, expected %d", len(buf), sizedLen(idLen, np, phLen)))
	}
	return buf
}

// NTS label of a request by construction, independent of what the NTS code of /repo says
// about it: the harness knows how it built the datagram.
const (
	ntsNo     = 0 // not a valid NTS request: no cookie of this server, or damaged in a protected place
	ntsYes    = 1 // intact: real cookie under a valid key, authenticated with its C2S key, untouched
	ntsEither = 2 // the property text does not decide (bytes after the authenticator)
)

func ntsLabelOf(variant int64) int {
	switch variant {
	case 0, 8, 12:
		return ntsYes
	case 6:
		return ntsEither
	}
	return ntsNo
}

// ntsField is what an observation says about a payload: 2*label + (verdict recomputed
// with the six calls the listeners make).  The oracle uses the label; the recomputed
// verdict is the model's input and must agree with the label.
func (d *drv) ntsField(label int, payload []byte) string {
	f := int64(2 * label)
	if d.ntsValid(payload) {
		f++
	}
	return lib.I(f)
}

// labelOf is the by-construction label of a scripted step's payload.
func labelOf(s step) int {
	if s.k == kNTS && s.a == 14 {
		// intact by construction; the NTS code of /repo admits packets of up to nts.MaxPacketLen
		// = 1024 bytes (consts pins the constant), a longer one is no valid request to it
		_, idLen, np, phLen := sizedParams(s.data)
		if sizedLen(idLen, np, phLen) <= 1024 {
			return ntsYes
		}
		return ntsNo
	}
	if s.k == kNTS {
		return ntsLabelOf(s.a)
	}
	return ntsNo // literal, reflected and follow-up payloads never carry a cookie of this server
}

// ---- IP ----

func obsList(os []obs) string {
	items := make([]string, len(os))
	for i, o := range os {
		items[i] = lib.L(lib.I(int64(o.rcv)), lib.Bool(o.from), lib.B(o.data))
	}
	return lib.L(items...)
}

// payloadOf turns a scripted step into the bytes to send, given what earlier
// steps of the history observed.
func (d *drv) payloadOf(s step, firstReply [][]byte, r *lib.Rng) []byte {
	switch s.k {
	case kReflect:
		if int(s.a) < len(firstReply) && firstReply[s.a] != nil {
			return firstReply[s.a]
		}
		return s.data
	case kInterleaved:
		if int(s.a) < len(firstReply) && len(firstReply[s.a]) >= ntp.PacketLen {
			rep := firstReply[s.a]
			p := append([]byte(nil), s.data...)
			if len(p) < ntp.PacketLen {
				p = append(p, make([]byte, ntp.PacketLen-len(p))...)
			}
			copy(p[24:32], rep[32:40]) // origin   := reply.receive
			copy(p[32:40], rep[40:48]) // receive  := reply.transmit
			return p
		}
		return s.data
	case kNTS:
		if s.a == 14 {
			return d.ntsSized(s.data, r)
		}
		b0 := byte(0x23)
		if len(s.data) > 0 {
			b0 = s.data[0]
		}
		return d.ntsRequest(b0, s.a, r)
	}
	return s.data
}

// burstItems decodes the items of a burst step.
func (d *drv) burstItems(data []byte, r *lib.Rng) (items [][]byte, labels []int) {
	for len(data) >= 2 {
		n := int(binary.BigEndian.Uint16(data))
		data = data[2:]
		if n == 0xffff {
			if len(data) < 2 {
				break
			}
			items = append(items, d.ntsRequest(data[1], int64(data[0]), r))
			labels = append(labels, ntsLabelOf(int64(data[0])))
			data = data[2:]
			continue
		}
		if n > len(data) {
			n = len(data)
		}
		items = append(items, data[:n])
		labels = append(labels, ntsNo)
		data = data[n:]
	}
	return items, labels
}

// exchangeBurst is exchange with several datagrams before the sentinel.
func (d *drv) exchangeBurst(sender int, dst *net.UDPAddr, pkts [][]byte, sentinelPkt []byte) (reps, sreps []obs) {
	c := d.socks[sender]
	for _, p := range pkts[:len(pkts)-1] {
		if _, err := c.WriteToUDP(p, dst); err != nil {
			note(fmt.Sprintf("write failed: %v (len %d)", err, len(p)))
		}
	}
	return d.exchange(sender, dst, pkts[len(pkts)-1], sentinelPkt, ipSeq)
}

// runParallel writes the items of several sockets interleaved, so that several
// listener goroutines work at the same time, then one sentinel per socket, and
// collects per socket.  Returns one observed burst per socket.
func (d *drv) runParallel(data []byte, dst *net.UDPAddr) []string {
	groups := map[int][][]byte{}
	var order []int
	for len(data) >= 3 {
		snd := int(data[0]) % nSocks
		n := int(binary.BigEndian.Uint16(data[1:]))
		data = data[3:]
		if n > len(data) {
			n = len(data)
		}
		if _, ok := groups[snd]; !ok {
			order = append(order, snd)
		}
		groups[snd] = append(groups[snd], data[:n])
		data = data[n:]
	}
	if len(order) == 0 {
		return nil
	}
	for idx := 0; ; idx++ {
		any := false
		for _, snd := range order {
			if idx < len(groups[snd]) {
				any = true
				d.socks[snd].WriteToUDP(groups[snd][idx], dst)
			}
		}
		if !any {
			break
		}
	}
	sentinels := map[int][]byte{}
	cols := map[int]*collector{}
	for _, snd := range order {
		sentinels[snd] = d.nextSentinel()
		cols[snd] = &collector{d: d, seq: d.seq, seqOf: ipSeq}
		d.socks[snd].WriteToUDP(sentinels[snd], dst)
	}
	for _, snd := range order {
		d.awaitSentinel(d.socks[snd], snd, dst, sentinels[snd], cols[snd])
	}
	// anything left anywhere: late, duplicated or misdirected datagrams; charge them to the
	// socket they arrived at when it took part, else to the first one
	for i, s := range d.everywhere() {
		for _, o := range d.drain(s, i, dst) {
			g := order[0]
			if _, ok := groups[i]; ok {
				g = i
			}
			if q, ok := ipSeq(o.data); ok && q != cols[g].seq {
				if c2 := colOfSeq(cols, q); c2 != nil {
					c2.add(o) // the answer to another socket's sentinel arriving here: charged to that sentinel
					continue
				}
			}
			cols[g].add(o)
		}
	}
	var outs []string
	for _, snd := range order {
		var ps []string
		for _, p := range groups[snd] {
			ps = append(ps, lib.L(lib.B(p), d.ntsField(ntsNo, p)))
		}
		outs = append(outs, lib.L(lib.I(int64(snd)), lib.L(ps...), obsList(cols[snd].reps), lib.B(sentinels[snd]), obsList(cols[snd].sreps)))
	}
	return outs
}

func colOfSeq(cols map[int]*collector, q uint32) *collector {
	for _, c := range cols {
		if c.seq == q {
			return c
		}
	}
	return nil
}

// afterLoss decides whether one more step of the history in flight is driven after a
// sentinel has gone unanswered.
func (d *drv) afterLoss(n *int, s step) bool {
	*n++
	return *n <= maxAfterLoss && s.k != kParallel && s.k != kBurst
}

func (d *drv) runIP(tags string, steps []step, r *lib.Rng) { d.runIPTo("ip", d.srvIP, tags, steps, r) }

// runIPTo drives an IP listener: kind "ip" the ordinary one, "ip.hwts" the one that never gets
// transmit timestamps.
func (d *drv) runIPTo(kind string, ip net.IP, tags string, steps []step, r *lib.Rng) {
	if d.lost || d.tooManyRetries() {
		return
	}
	args := stepsString(steps)
	emitCur(kind, tags, args)
	dst := &net.UDPAddr{IP: ip, Port: ipPort}
	firstReply := make([][]byte, len(steps))
	var outs []string
	after := 0
	for i, s := range steps {
		if d.lost && !d.afterLoss(&after, s) {
			break
		}
		if s.k == kParallel {
			outs = append(outs, d.runParallel(s.data, dst)...)
			if d.lost {
				break
			}
			continue
		}
		if s.k == kBurst {
			items, labels := d.burstItems(s.data, r)
			if len(items) == 0 {
				continue
			}
			var ps []string
			for j, p := range items {
				ps = append(ps, lib.L(lib.B(p), d.ntsField(labels[j], p)))
			}
			sentinel := d.nextSentinel()
			reps, sreps := d.exchangeBurst(s.sender, dst, items, sentinel)
			if len(reps) > 0 {
				firstReply[i] = reps[0].data
			}
			outs = append(outs, lib.L(lib.I(int64(s.sender)), lib.L(ps...), obsList(reps), lib.B(sentinel), obsList(sreps)))
			if d.lost {
				break
			}
			continue
		}
		payload := d.payloadOf(s, firstReply, r)
		ntsok := d.ntsField(labelOf(s), payload)
		sentinel := d.nextSentinel()
		reps, sreps := d.exchange(s.sender, dst, payload, sentinel, ipSeq)
		if len(reps) > 0 {
			firstReply[i] = reps[0].data
		}
		outs = append(outs, lib.L(lib.I(int64(s.sender)), lib.B(payload), ntsok, obsList(reps), lib.B(sentinel), obsList(sreps)))
	}
	emitCase(kind, tags, args, lib.V("0", lib.L(outs...)))
}

// ---- SCION ----

func buildPath(t uint8, raw []byte) (path.Path, error) {
	switch path.Type(t) {
	case empty.PathType:
		return empty.Path{}, nil
	case scionpath.PathType:
		p := &scionpath.Raw{}
		return p, p.DecodeFromBytes(append([]byte(nil), raw...))
	case onehop.PathType:
		p := &onehop.Path{}
		return p, p.DecodeFromBytes(append([]byte(nil), raw...))
	}
	return nil, fmt.Errorf("unsupported path type %d", t)
}

func pathBytes(p path.Path) (uint8, []byte) {
	b := make([]byte, p.Len())
	if err := p.SerializeTo(b); err != nil {
		return uint8(p.Type()), nil
	}
	return uint8(p.Type()), b
}

// reversed is the answer of Path.Reverse() for the request path, computed on a
// copy with the same library the listener uses.
func reversed(t uint8, raw []byte) string {
	p, err := buildPath(t, raw)
	if err != nil {
		return lib.L()
	}
	rp, err := p.Reverse()
	if err != nil {
		return lib.L()
	}
	rt, rb := pathBytes(rp)
	return lib.L(lib.U(uint64(rt)), lib.B(rb))
}

func (h *hdrSpec) modelString() string {
	return lib.L(lib.U(h.dstIA), lib.U(h.srcIA), lib.U(uint64(h.dstType)), lib.U(uint64(h.srcType)),
		lib.B(h.dstRaw), lib.B(h.srcRaw), lib.U(uint64(h.pathType)), lib.B(h.pathRaw),
		lib.U(uint64(h.udpSrc)), lib.U(uint64(h.udpDst)))
}

// extension headers of a request (hdrSpec.ext):
//
//	0 none
//	1 E2E with the timestamp option (253) the dispatcher adds when it relays a packet
//	2 E2E with an option of unknown type
//	3 HBH (unknown option) + E2E (timestamp option and an unknown one)
//	4 HBH only
//	5 E2E with padding options only
func extLayers(ext uint8) (hbh *slayers.HopByHopExtn, e2e *slayers.EndToEndExtn) {
	ts := &slayers.EndToEndOption{OptType: 253, OptData: []byte{0x11, 0x22, 0x33, 0x44, 0x55, 0x66, 0x77, 0x88, 9, 10, 11, 12, 13, 14, 15, 16}}
	unk := &slayers.EndToEndOption{OptType: 200, OptData: []byte{0xde, 0xad, 0xbe, 0xef, 0x01}}
	switch ext {
	case 1:
		e2e = &slayers.EndToEndExtn{Options: []*slayers.EndToEndOption{ts}}
	case 2:
		e2e = &slayers.EndToEndExtn{Options: []*slayers.EndToEndOption{unk}}
	case 3:
		hbh = &slayers.HopByHopExtn{Options: []*slayers.HopByHopOption{{OptType: 201, OptData: []byte{1, 2, 3, 4, 5, 6}}}}
		e2e = &slayers.EndToEndExtn{Options: []*slayers.EndToEndOption{ts, unk}}
	case 4:
		hbh = &slayers.HopByHopExtn{Options: []*slayers.HopByHopOption{{OptType: 201, OptData: []byte{9, 8, 7}}}}
	case 5:
		e2e = &slayers.EndToEndExtn{Options: []*slayers.EndToEndOption{{OptType: slayers.OptTypePad1}, {OptType: slayers.OptTypePadN, OptData: []byte{0, 0, 0}}}}
	}
	return hbh, e2e
}

func newSCION(h *hdrSpec, next slayers.L4ProtocolType) (*slayers.SCION, error) {
	p, err := buildPath(h.pathType, h.pathRaw)
	if err != nil {
		return nil, err
	}
	scn := &slayers.SCION{}
	scn.Version = 0
	scn.FlowID = 1
	scn.NextHdr = next
	scn.PathType = path.Type(h.pathType)
	scn.Path = p
	scn.DstIA, scn.SrcIA = addrIA(h.dstIA), addrIA(h.srcIA)
	scn.DstAddrType, scn.SrcAddrType = slayers.AddrType(h.dstType), slayers.AddrType(h.srcType)
	scn.RawDstAddr, scn.RawSrcAddr = h.dstRaw, h.srcRaw
	return scn, nil
}

// serializeSCION puts the SCION header (with the extension headers h.ext asks for) in
// front of an L4 part: UDP + payload, or SCMP.
func serializeSCION(h *hdrSpec, l4proto slayers.L4ProtocolType, l4 func(scn *slayers.SCION) []gopacket.SerializableLayer) ([]byte, error) {
	scn, err := newSCION(h, l4proto)
	if err != nil {
		return nil, err
	}
	layers := []gopacket.SerializableLayer{scn}
	hbh, e2e := extLayers(h.ext)
	if e2e != nil {
		e2e.NextHdr = l4proto
		scn.NextHdr = slayers.End2EndClass
	}
	if hbh != nil {
		hbh.NextHdr = scn.NextHdr
		scn.NextHdr = slayers.HopByHopClass
		layers = append(layers, hbh)
	}
	if e2e != nil {
		layers = append(layers, e2e)
	}
	layers = append(layers, l4(scn)...)
	sb := gopacket.NewSerializeBuffer()
	err = gopacket.SerializeLayers(sb, gopacket.SerializeOptions{ComputeChecksums: true, FixLengths: true}, layers...)
	if err != nil {
		return nil, err
	}
	return append([]byte(nil), sb.Bytes()...), nil
}

// packet authenticator of a request (hdrSpec.spao), under the mock key the listeners use
// when USE_MOCK_KEYS is set (all zero):
//
//	0 none
//	1 valid: SPI of a client, AES-CMAC under the mock key over the packet as sent
//	2 the MAC damaged after it was computed
//	3 computed under another key
//	4 SPI of a server: the listener does not take it for a client authenticator and serves
//	  the request as an unauthenticated one
const (
	spaoNone     = 0
	spaoValid    = 1
	spaoBadMAC   = 2
	spaoWrongKey = 3
	spaoOtherSPI = 4
)

// spaoClass: what an observation says about the authenticator: 0 none (or not one of a
// client), 1 valid, 2 invalid
func spaoClass(v uint8) int64 {
	switch v {
	case spaoValid:
		return 1
	case spaoBadMAC, spaoWrongKey:
		return 2
	}
	return 0
}

func buildSCION(h *hdrSpec, payload []byte) ([]byte, error) {
	if h.spao != spaoNone {
		return buildSCIONAuth(h, payload)
	}
	return serializeSCION(h, slayers.L4UDP, func(scn *slayers.SCION) []gopacket.SerializableLayer {
		var udp slayers.UDP
		udp.SrcPort, udp.DstPort = h.udpSrc, h.udpDst
		udp.SetNetworkLayerForChecksum(scn)
		return []gopacket.SerializableLayer{&udp, gopacket.Payload(payload)}
	})
}

// buildSCIONAuth: SCION / E2E(authenticator option) / UDP / payload, layer by layer as the
// SCION client of /repo does it.
func buildSCIONAuth(h *hdrSpec, payload []byte) ([]byte, error) {
	scn, err := newSCION(h, slayers.L4UDP)
	if err != nil {
		return nil, err
	}
	opts := gopacket.SerializeOptions{ComputeChecksums: true, FixLengths: true}
	sb := gopacket.NewSerializeBuffer()
	if err := gopacket.Payload(payload).SerializeTo(sb, opts); err != nil {
		return nil, err
	}
	var udp slayers.UDP
	udp.SrcPort, udp.DstPort = h.udpSrc, h.udpDst
	udp.SetNetworkLayerForChecksum(scn)
	if err := udp.SerializeTo(sb, opts); err != nil {
		return nil, err
	}
	opt := &slayers.EndToEndOption{OptData: make([]byte, scion.PacketAuthOptDataLen)}
	spi := scion.PacketAuthSPIClient
	if h.spao == spaoOtherSPI {
		spi = scion.PacketAuthSPIServer
	}
	scion.PreparePacketAuthOpt(opt, spi, scion.PacketAuthAlgorithm)
	key := make([]byte, 16)
	if h.spao == spaoWrongKey {
		key[7] = 0x42
	}
	_, err = spao.ComputeAuthCMAC(spao.MACInput{Key: key, Header: slayers.PacketAuthOption{EndToEndOption: opt},
		ScionLayer: scn, PldType: slayers.L4UDP, Pld: sb.Bytes()}, make([]byte, spao.MACBufferSize), scion.PacketAuthOptMAC(opt))
	if err != nil {
		return nil, err
	}
	if h.spao == spaoBadMAC {
		scion.PacketAuthOptMAC(opt)[3] ^= 0x10
	}
	e2e := slayers.EndToEndExtn{}
	e2e.NextHdr = slayers.L4UDP
	e2e.Options = []*slayers.EndToEndOption{opt}
	if err := e2e.SerializeTo(sb, opts); err != nil {
		return nil, err
	}
	scn.NextHdr = slayers.End2EndClass
	if err := scn.SerializeTo(sb, opts); err != nil {
		return nil, err
	}
	return append([]byte(nil), sb.Bytes()...), nil
}

// buildSCMP: an SCMP message of the given type with an echo-style body.
func buildSCMP(h *hdrSpec, typ uint8, body []byte) ([]byte, error) {
	return serializeSCION(h, slayers.L4SCMP, func(scn *slayers.SCION) []gopacket.SerializableLayer {
		scmp := &slayers.SCMP{TypeCode: slayers.CreateSCMPTypeCode(slayers.SCMPType(typ), 0)}
		scmp.SetNetworkLayerForChecksum(scn)
		return []gopacket.SerializableLayer{scmp, gopacket.Payload(body)}
	})
}

// classes of a datagram received from a SCION listener
const (
	clsNone = 0 // not a SCION packet, or the next-header chain does not lead to UDP or SCMP
	clsUDP  = 1 // SCION [HBH] [E2E] UDP with consistent length and valid checksum: carries an NTP payload
	clsSCMP = 2 // SCION [HBH] [E2E] SCMP
	clsBad  = 3 // SCION ... UDP whose length or checksum is wrong
)

// udpChecksumOK verifies the checksum of a SCION/UDP datagram over the pseudo header
// (source and destination ISD-AS and host address, upper-layer length, protocol) and the
// UDP header and payload, written out here independently of the serialisation code.
func udpChecksumOK(scn *slayers.SCION, l4 []byte) bool {
	var sum uint32
	add := func(b []byte) {
		for i := 0; i+1 < len(b); i += 2 {
			sum += uint32(b[i])<<8 | uint32(b[i+1])
		}
		if len(b)%2 == 1 {
			sum += uint32(b[len(b)-1]) << 8
		}
	}
	var ia [16]byte
	binary.BigEndian.PutUint64(ia[:8], uint64(scn.DstIA))
	binary.BigEndian.PutUint64(ia[8:], uint64(scn.SrcIA))
	add(ia[:])
	add(scn.RawDstAddr)
	add(scn.RawSrcAddr)
	sum += uint32(len(l4))>>16 + uint32(len(l4))&0xffff
	sum += uint32(slayers.L4UDP)
	add(l4)
	for sum>>16 != 0 {
		sum = sum>>16 + sum&0xffff
	}
	return sum == 0xffff
}

// extension headers of a datagram received from a listener
const (
	rextNone  = 0 // SCION / UDP
	rextAuth  = 1 // SCION / E2E with exactly one option: an authenticator with the SPI of a server whose MAC verifies under the mock key / UDP
	rextOther = 2 // anything else
)

// parseSCION decodes a datagram received from the listener completely: SCION header, the
// chain of next-header fields through the extension headers, UDP (length and checksum
// verified) and the NTP payload.
func parseSCION(b []byte) (cls int, rext int, h hdrSpec, payload []byte) {
	defer func() {
		if recover() != nil {
			cls = clsNone
		}
	}()
	var scn slayers.SCION
	if err := scn.DecodeFromBytes(b, gopacket.NilDecodeFeedback); err != nil {
		return clsNone, rextNone, hdrSpec{}, nil
	}
	h.dstIA, h.srcIA = uint64(scn.DstIA), uint64(scn.SrcIA)
	h.dstType, h.srcType = uint8(scn.DstAddrType), uint8(scn.SrcAddrType)
	h.dstRaw, h.srcRaw = scn.RawDstAddr, scn.RawSrcAddr
	h.pathType, h.pathRaw = pathBytes(scn.Path)
	next, rest := scn.NextHdr, scn.Payload
	if next == slayers.HopByHopClass {
		var hbh slayers.HopByHopExtn
		if err := hbh.DecodeFromBytes(rest, gopacket.NilDecodeFeedback); err != nil {
			return clsNone, rextOther, h, nil
		}
		next, rest = hbh.NextHdr, hbh.Payload
		rext = rextOther
	}
	if next == slayers.End2EndClass {
		var e2e slayers.EndToEndExtn
		if err := e2e.DecodeFromBytes(rest, gopacket.NilDecodeFeedback); err != nil {
			return clsNone, rextOther, h, nil
		}
		next, rest = e2e.NextHdr, e2e.Payload
		if rext == rextNone && len(e2e.Options) == 1 && serverAuthOK(&scn, e2e.Options[0], next, rest) {
			rext = rextAuth
		} else {
			rext = rextOther
		}
	}
	switch next {
	case slayers.L4SCMP:
		return clsSCMP, rext, h, rest
	case slayers.L4UDP:
		var udp slayers.UDP
		if err := udp.DecodeFromBytes(rest, gopacket.NilDecodeFeedback); err != nil {
			return clsNone, rext, h, nil
		}
		h.udpSrc, h.udpDst = udp.SrcPort, udp.DstPort
		if int(udp.Length) != len(rest) || !udpChecksumOK(&scn, rest) {
			return clsBad, rext, h, udp.Payload
		}
		return clsUDP, rext, h, udp.Payload
	}
	return clsNone, rext, h, nil
}

// serverAuthOK: opt is an authenticator option with the SPI of a server and the AES-CMAC of
// the packet under the mock key.
func serverAuthOK(scn *slayers.SCION, opt *slayers.EndToEndOption, next slayers.L4ProtocolType, pld []byte) (ok bool) {
	defer func() {
		if recover() != nil {
			ok = false
		}
	}()
	if opt.OptType != slayers.OptTypeAuthenticator || len(opt.OptData) != scion.PacketAuthOptDataLen {
		return false
	}
	spi, algo := scion.PacketAuthOptMetadata(opt)
	if spi != scion.PacketAuthSPIServer || algo != scion.PacketAuthAlgorithm {
		return false
	}
	mac := make([]byte, scion.PacketAuthMACLen)
	_, err := spao.ComputeAuthCMAC(spao.MACInput{Key: make([]byte, 16), Header: slayers.PacketAuthOption{EndToEndOption: opt},
		ScionLayer: scn, PldType: next, Pld: pld}, make([]byte, spao.MACBufferSize), mac)
	return err == nil && string(mac) == string(scion.PacketAuthOptMAC(opt))
}

func scionNTP(b []byte) []byte {
	if cls, _, _, pl := parseSCION(b); cls == clsUDP {
		return pl
	}
	return nil
}

func scionSeq(b []byte) (uint32, bool)      { return replySeq(scionNTP(b)) }
func scionRelaySeq(b []byte) (uint32, bool) { return relaySeq(scionNTP(b)) }

func scionObsList(os []obs) string {
	items := make([]string, len(os))
	for i, o := range os {
		cls, rext, h, pl := parseSCION(o.data)
		items[i] = lib.L(lib.I(int64(o.rcv)), lib.Bool(o.from), lib.I(int64(cls)), lib.I(int64(rext)), h.modelString(), lib.B(pl))
	}
	return lib.L(items...)
}

func (d *drv) sentinelHdr() *hdrSpec {
	return &hdrSpec{dstIA: 0x0001ff0000000112, srcIA: 0x0001ff0000000111, dstType: 0, srcType: 0,
		dstRaw: []byte{10, 9, 8, 7}, srcRaw: []byte{10, 1, 2, 3}, pathType: 0, pathRaw: nil,
		udpSrc: 40123, udpDst: scionPort, underlay: scionPort}
}

// Histories that use a one-hop path have their own case kind (a complete
// one-hop path is reversed into a SCION path, see the C09 notes).
func scionKind(steps []step) string {
	for _, s := range steps {
		if s.hdr != nil && s.hdr.pathType == 2 {
			return "scion.onehop"
		}
	}
	return "scion"
}

// scionTarget: where the datagrams of a SCION step go, the listener's view of itself
// (port of the socket, port it serves) and the sentinel that proves the goroutine went on:
// for the listener a plain request (answered), for the stand-alone dispatcher, which answers
// nothing, a packet for the sending socket itself (relayed back unchanged).
func (d *drv) scionTarget(s step, sentinel []byte) (dst *net.UDPAddr, cp, lp int, sh *hdrSpec, spkt []byte, seqOf func([]byte) (uint32, bool)) {
	sh = d.sentinelHdr()
	if s.hdr.via == 1 {
		la := d.socks[s.sender].LocalAddr().(*net.UDPAddr)
		sh.underlay = endhostPort
		sh.udpDst = uint16(la.Port)
		sh.dstType, sh.dstRaw = 0, []byte(la.IP.To4())
		dst, cp, lp, seqOf = &net.UDPAddr{IP: d.dispIP, Port: endhostPort}, endhostPort, endhostPort, scionRelaySeq
	} else {
		ip := d.srvIP
		if s.hdr.via == 2 { // the listener that never gets transmit timestamps
			ip = d.hwIP
		}
		sh.underlay = s.hdr.underlay
		dst, cp, lp, seqOf = &net.UDPAddr{IP: ip, Port: int(s.hdr.underlay)}, int(s.hdr.underlay), scionPort, scionSeq
	}
	spkt, err := buildSCION(sh, sentinel)
	if err != nil {
		panic(err)
	}
	return
}

// UDP length field of a request (hdrSpec.ulen): 0 the true length; otherwise the field is
// overwritten after the packet was built (the checksum, which no listener verifies, stays)
const (
	ulenExact   = 0
	ulenZero    = 1 // 0: "the entire rest of the datagram"
	ulenHdrOnly = 2 // 8: no payload at all, whatever follows
	ulenNTPOnly = 3 // 8+48: the NTP header is the payload, what follows it is not
	ulenTiny    = 4 // 1..7: no UDP datagram has such a length
)

// ulenField: the value of the length field, and the payload it delimits (nil, false: none).
func ulenField(mode uint8, after []byte) (field int, eff []byte, ok bool) {
	switch mode {
	case ulenZero:
		return 0, after, true
	case ulenHdrOnly:
		return 8, nil, true
	case ulenNTPOnly:
		if len(after) >= ntp.PacketLen {
			return 8 + ntp.PacketLen, after[:ntp.PacketLen], true
		}
	case ulenTiny:
		return 1 + len(after)%7, nil, false
	}
	return 8 + len(after), after, true
}

// scionProbe builds the datagram of a scripted SCION step.  payload is what follows the UDP
// header; ntsok describes the payload the length field delimits.
func (d *drv) scionProbe(s step, firstReply [][]byte, r *lib.Rng) (hdr hdrSpec, payload []byte, ntsok string, pkt []byte, err error) {
	hdr = *s.hdr
	if hdr.fwd > 0 {
		// a packet for another application on this host: L4 destination port and host address of
		// one of the harness's own sockets, so that what the listener relays can be seen
		la := d.socks[(hdr.fwd-1)%nSameAddr].LocalAddr().(*net.UDPAddr)
		hdr.udpDst = uint16(la.Port)
		hdr.dstType, hdr.dstRaw = 0, []byte(la.IP.To4())
	}
	payload = d.payloadOf(s, firstReply, r)
	field, eff, _ := ulenField(hdr.ulen, payload)
	label := labelOf(s)
	if len(eff) != len(payload) {
		label = ntsNo // cut off at the NTP header (or before): no NTS request left
	}
	ntsok = d.ntsField(label, eff)
	pkt, err = buildSCION(&hdr, payload)
	if err == nil && hdr.ulen != ulenExact {
		binary.BigEndian.PutUint16(pkt[len(pkt)-len(payload)-8+4:], uint16(field))
	}
	return
}

func scionStepObs(cp, lp, sender int, hdr *hdrSpec, payload []byte, dlen int, ntsok string, reps []obs, sh *hdrSpec, sentinel []byte, sreps []obs) string {
	field, _, _ := ulenField(hdr.ulen, payload)
	return lib.L(lib.I(int64(cp)), lib.I(int64(lp)), lib.I(int64(sender)),
		hdr.modelString(), lib.B(payload), lib.I(int64(field)), lib.I(int64(dlen)), ntsok, lib.I(spaoClass(hdr.spao)), reversed(hdr.pathType, hdr.pathRaw), scionObsList(reps),
		sh.modelString(), lib.B(sentinel), reversed(sh.pathType, sh.pathRaw), scionObsList(sreps))
}

func (d *drv) skip(what string, err error) {
	d.skipped++
	note(fmt.Sprintf("%s: %v (step skipped, %d so far)", what, err, d.skipped))
}

func (d *drv) runSCION(tags string, steps []step, r *lib.Rng) {
	if d.lost || d.tooManyRetries() {
		return
	}
	args := stepsString(steps)
	kind := scionKind(steps)
	emitCur(kind, tags, args)
	firstReply := make([][]byte, len(steps))
	var outs []string
	after := 0
	for i, s := range steps {
		if d.lost && !d.afterLoss(&after, s) {
			break
		}
		sentinel := d.nextSentinel()
		dst, cp, lp, sh, spkt, seqOf := d.scionTarget(s, sentinel)
		if s.k == kRaw {
			// a datagram that is no SCION/UDP packet at all (garbage, SCMP), then the sentinel from
			// the same socket: the goroutine that got the datagram must still be serving
			if s.hdr.srcIA != 0 {
				// a raw step that comes with a full header: first a SCION/UDP packet with that header for
				// the server port that the listener decodes and drops (a server-mode NTP packet), then,
				// as the very next datagram of the socket, the raw one
				hp := *s.hdr
				hp.udpDst, hp.fwd, hp.ext, hp.spao, hp.ulen = scionPort, 0, 0, 0, 0
				dropped := make([]byte, ntp.PacketLen)
				dropped[0], dropped[1] = 0x24, 1
				if pre, err := buildSCION(&hp, dropped); err == nil {
					d.socks[s.sender].WriteToUDP(pre, dst)
				} else {
					d.skip("cannot build SCION packet", err)
				}
			}
			reps, sreps := d.exchange(s.sender, dst, s.data, spkt, seqOf)
			outs = append(outs, lib.L(lib.B(s.data), lib.I(s.a), lib.I(int64(cp)), lib.I(int64(lp)), lib.I(int64(s.sender)),
				scionObsList(reps), sh.modelString(), lib.B(sentinel), reversed(sh.pathType, sh.pathRaw), scionObsList(sreps)))
			continue
		}
		hdr, payload, ntsok, pkt, err := d.scionProbe(s, firstReply, r)
		if err != nil {
			d.skip("cannot build SCION packet", err)
			continue
		}
		reps, sreps := d.exchange(s.sender, dst, pkt, spkt, seqOf)
		if len(reps) > 0 && hdr.fwd == 0 { // (what comes back from a relayed packet is the request itself, not a reply)
			if pl := scionNTP(reps[0].data); pl != nil {
				firstReply[i] = pl
			}
		}
		outs = append(outs, scionStepObs(cp, lp, s.sender, &hdr, payload, len(pkt), ntsok, reps, sh, sentinel, sreps))
	}
	emitCase(kind, tags, args, lib.V("0", lib.L(outs...)))
}

// runMixed fires one datagram from each of many sockets at once, some at the IP listener
// and some at the SCION listener (steps with a header), then one sentinel per socket, and
// collects per socket: all listener goroutines of both listeners work at the same time.
func (d *drv) runMixed(tags string, steps []step, r *lib.Rng) {
	if d.lost || d.tooManyRetries() {
		return
	}
	args := stepsString(steps)
	emitCur("mixed", tags, args)
	type item struct {
		s        step
		dst      *net.UDPAddr
		cp, lp   int
		hdr      hdrSpec
		sh       *hdrSpec
		payload  []byte
		ntsok    string
		pkt      []byte
		sentinel []byte
		spkt     []byte
		col      *collector
	}
	var items []*item
	bySender := map[int]*item{}
	for _, s := range steps {
		if bySender[s.sender] != nil || (s.k != kLiteral && s.k != kNTS) {
			continue
		}
		it := &item{s: s}
		it.sentinel = d.nextSentinel()
		if s.hdr == nil {
			it.dst = &net.UDPAddr{IP: d.srvIP, Port: ipPort}
			it.payload = d.payloadOf(s, nil, r)
			it.ntsok = d.ntsField(labelOf(s), it.payload)
			it.pkt, it.spkt = it.payload, it.sentinel
			it.col = &collector{d: d, seq: d.seq, seqOf: ipSeq}
		} else {
			var seqOf func([]byte) (uint32, bool)
			it.dst, it.cp, it.lp, it.sh, it.spkt, seqOf = d.scionTarget(s, it.sentinel)
			var err error
			it.hdr, it.payload, it.ntsok, it.pkt, err = d.scionProbe(s, nil, r)
			if err != nil {
				d.skip("cannot build SCION packet", err)
				continue
			}
			it.col = &collector{d: d, seq: d.seq, seqOf: seqOf}
		}
		items = append(items, it)
		bySender[s.sender] = it
	}
	if len(items) == 0 {
		return
	}
	for _, it := range items {
		d.socks[it.s.sender].WriteToUDP(it.pkt, it.dst)
	}
	for _, it := range items {
		d.socks[it.s.sender].WriteToUDP(it.spkt, it.dst)
	}
	for _, it := range items {
		d.awaitSentinel(d.socks[it.s.sender], it.s.sender, it.dst, it.spkt, it.col)
	}
	for i, c := range d.everywhere() {
		it := items[0]
		if x := bySender[i]; x != nil {
			it = x
		}
		for _, o := range d.drain(c, i, it.dst) {
			it.col.add(o)
		}
	}
	var outs []string
	for _, it := range items {
		if it.s.hdr == nil {
			outs = append(outs, lib.L(lib.I(int64(it.s.sender)), lib.B(it.payload), it.ntsok, obsList(it.col.reps), lib.B(it.sentinel), obsList(it.col.sreps)))
		} else {
			outs = append(outs, scionStepObs(it.cp, it.lp, it.s.sender, &it.hdr, it.payload, len(it.pkt), it.ntsok, it.col.reps, it.sh, it.sentinel, it.col.sreps))
		}
	}
	emitCase("mixed", tags, args, lib.V("0", lib.L(outs...)))
}
