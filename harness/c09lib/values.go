package c09lib

import (
	"encoding/hex"
	"strconv"
	"strings"

	"verifharness/lib"
)

// val is a parsed case-file value: integer, byte string or list.
type val struct {
	isList bool
	isB    bool
	z      int64
	b      []byte
	l      []val
}

func parseVals(s string) []val {
	pos := 0
	var list func(closing bool) []val
	list = func(closing bool) []val {
		var out []val
		for {
			for pos < len(s) && s[pos] == ' ' {
				pos++
			}
			if pos >= len(s) {
				return out
			}
			if s[pos] == ']' {
				if closing {
					pos++
				}
				return out
			}
			if s[pos] == '[' {
				pos++
				out = append(out, val{isList: true, l: list(true)})
				continue
			}
			st := pos
			for pos < len(s) && s[pos] != ' ' && s[pos] != ']' && s[pos] != '[' {
				pos++
			}
			tok := s[st:pos]
			if strings.HasPrefix(tok, "x") {
				b, err := hex.DecodeString(tok[1:])
				if err != nil {
					panic(err)
				}
				out = append(out, val{isB: true, b: b})
			} else {
				z, err := strconv.ParseInt(tok, 10, 64)
				if err != nil {
					u, err2 := strconv.ParseUint(tok, 10, 64)
					if err2 != nil {
						panic(err)
					}
					z = int64(u)
				}
				out = append(out, val{z: z})
			}
		}
	}
	return list(false)
}

// ---- scripted steps ----

const (
	kLiteral     = 0 // data = payload
	kReflect     = 1 // a = index of an earlier step; payload = the first reply seen there (else data)
	kInterleaved = 2 // a = index of an earlier step; follow-up request built from its reply (else data)
	kNTS         = 3 // a = variant; data[0] = first header byte
	kParallel    = 5 // data = items (1-byte sender, 2-byte length, payload): written round-robin to several listener goroutines at once
	kBurst       = 4 // data = items (2-byte length, payload) or (0xffff, NTS variant, first byte): sent back to back
	kRaw         = 6 // SCION listener only: data = the whole underlay datagram (garbage or SCMP); a = what it is (rawGarbage ...)
)

// what a raw datagram is, by construction
const (
	rawGarbage   = 0 // not a SCION packet, or not one a listener handles: nothing comes back
	rawSCMPReq   = 1 // SCMP echo or traceroute request over a reversible path: one SCMP reply, no NTP reply
	rawSCMPOther = 2 // any other SCMP message: nothing comes back
)

type hdrSpec struct {
	dstIA, srcIA     uint64
	dstType, srcType uint8
	dstRaw, srcRaw   []byte
	pathType         uint8
	pathRaw          []byte
	udpSrc, udpDst   uint16
	underlay         uint16
	ext              uint8 // extension headers of the request, see extLayers
	fwd              int   // > 0: addressed to the harness socket fwd-1 on the listener's host (dispatcher forwarding)
	spao             uint8 // packet authenticator, see buildSCIONAuth
	via              uint8 // 1: sent to the stand-alone dispatcher (port 30041 on its own address)
	ulen             uint8 // what the UDP length field says, see ulenField
}

type step struct {
	sender int
	k      int
	a      int64
	data   []byte
	hdr    *hdrSpec
}

func (h *hdrSpec) String() string {
	return lib.L(lib.U(h.dstIA), lib.U(h.srcIA), lib.U(uint64(h.dstType)), lib.U(uint64(h.srcType)),
		lib.B(h.dstRaw), lib.B(h.srcRaw), lib.U(uint64(h.pathType)), lib.B(h.pathRaw),
		lib.U(uint64(h.udpSrc)), lib.U(uint64(h.udpDst)), lib.U(uint64(h.underlay)), lib.U(uint64(h.ext)), lib.I(int64(h.fwd)), lib.U(uint64(h.spao)), lib.U(uint64(h.via)), lib.U(uint64(h.ulen)))
}

func stepsString(steps []step) string {
	items := make([]string, len(steps))
	for i, s := range steps {
		f := []string{lib.I(int64(s.sender)), lib.I(int64(s.k)), lib.I(s.a), lib.B(s.data)}
		if s.hdr != nil {
			f = append(f, s.hdr.String())
		}
		items[i] = lib.L(f...)
	}
	return lib.L(items...)
}

func stepsFromArgs(args string) []step {
	vs := parseVals(args)
	if len(vs) != 1 || !vs[0].isList {
		return nil
	}
	var steps []step
	for _, v := range vs[0].l {
		if !v.isList || len(v.l) < 4 {
			continue
		}
		s := step{sender: int(v.l[0].z), k: int(v.l[1].z), a: v.l[2].z, data: v.l[3].b}
		if len(v.l) >= 5 && v.l[4].isList && len(v.l[4].l) >= 11 {
			h := v.l[4].l
			s.hdr = &hdrSpec{dstIA: uint64(h[0].z), srcIA: uint64(h[1].z), dstType: uint8(h[2].z), srcType: uint8(h[3].z),
				dstRaw: h[4].b, srcRaw: h[5].b, pathType: uint8(h[6].z), pathRaw: h[7].b,
				udpSrc: uint16(h[8].z), udpDst: uint16(h[9].z), underlay: uint16(h[10].z)}
			if len(h) >= 13 {
				s.hdr.ext, s.hdr.fwd = uint8(h[11].z), int(h[12].z)
			}
			if len(h) >= 15 {
				s.hdr.spao, s.hdr.via = uint8(h[13].z), uint8(h[14].z)
			}
			if len(h) >= 16 {
				s.hdr.ulen = uint8(h[15].z)
			}
		}
		steps = append(steps, s)
	}
	return steps
}
