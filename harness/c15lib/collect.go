package c15lib

// mp.collect: the collection step of MeasureClockOffsetSCION on its own (hook client.VerifCollectMeasurements =
// collectMeasurements): n participants deliver their results one after the other; after `cut` deliveries the
// context is cancelled (cut = n: never).  Observed: how many successful measurements were collected, the
// fault-tolerant midpoint over them, and whether the late participants could still deliver (they are drained).

import (
	"context"
	"errors"
	"time"

	"example.com/scion-time/core/client"
	"example.com/scion-time/core/measurements"

	"verifharness/lib"
)

var errScripted = errors.New("scripted failure")

func caseCollect(tags string, oks []bool, vals []int64, cut int) {
	n := len(oks)
	ms := make([]measurements.Measurement, n)
	msc := make(chan measurements.Measurement)
	ctx, cancel := context.WithCancel(context.Background())
	defer cancel()
	res := make(chan int, 1)
	go func() { res <- client.VerifCollectMeasurements(ctx, ms, msc) }()
	mk := func(i int) measurements.Measurement {
		m := measurements.Measurement{Timestamp: time.Unix(1700000000+int64(i), 0), Offset: time.Duration(vals[i])}
		if !oks[i] {
			m = measurements.Measurement{Error: errScripted}
		}
		return m
	}
	for i := 0; i < cut && i < n; i++ {
		msc <- mk(i) // returns when the collector has taken it
	}
	if cut < n {
		cancel()
	}
	got := <-res
	// the late participants must not block for ever
	drained := int64(1)
	done := make(chan struct{})
	go func() {
		for i := cut; i < n; i++ {
			msc <- mk(i)
		}
		close(done)
	}()
	select {
	case <-done:
	case <-time.After(5 * time.Second):
		drained = 0
	}
	cls, off := int64(4), int64(0)
	if got > 0 && got <= n {
		m := measurements.FaultTolerantMidpoint(ms[:got])
		cls, off = 0, int64(m.Offset)
	}
	arr := make([]string, n)
	for i := range oks {
		arr[i] = lib.L(lib.Bool(oks[i]), lib.I(vals[i]))
	}
	w.Case("mp.collect", tags, lib.V(lib.L(arr...), lib.I(int64(cut))), lib.V(lib.I(int64(got)), lib.I(cls), lib.I(off), lib.I(drained)))
}

func genCollect(r *lib.Rng, count int) {
	for c := 0; c < count; c++ {
		n := 1 + r.Intn(9)
		if r.Intn(10) == 0 {
			n = 10 + r.Intn(15)
		}
		oks := make([]bool, n)
		vals := genValsN(r, n)
		for i := range oks {
			oks[i] = r.Intn(4) != 0
		}
		cut := n
		tags := ""
		if r.Intn(3) != 0 {
			cut = r.Intn(n + 1)
			tags = "cut"
		}
		nok := 0
		for i := 0; i < cut; i++ {
			if oks[i] {
				nok++
			}
		}
		if cut < n && nok > 0 {
			tags += ",nt"
		}
		caseCollect(tags, oks, vals, cut)
	}
}

func genValsN(r *lib.Rng, n int) []int64 {
	var out []int64
	for len(out) < n {
		out = append(out, genVals(r)...)
	}
	return out[:n]
}

func replayCollect(tags, args string) {
	vs := parseValues(args)
	var oks []bool
	var vals []int64
	for _, a := range vs[0].l {
		oks = append(oks, a.l[0].i64() != 0)
		vals = append(vals, a.l[1].i64())
	}
	caseCollect(tags, oks, vals, vs[1].int())
}
