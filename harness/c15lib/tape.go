package c15lib

import (
	"context"
	crand "crypto/rand"
	"encoding/binary"
	"fmt"
	"math/big"
	"sync"

	"example.com/scion-time/base/crypto"

	"verifharness/lib"
)

// tapeReader replaces crypto/rand.Reader: the scripted 32-bit words first
// (little endian, as base/crypto decodes them), then the default word forever.
type tapeReader struct {
	mu    sync.Mutex
	words []uint32
	pos   int
	d     uint32
	last  *big.Int // the bytes of the last Read as a little-endian integer
	bad   bool     // a Read whose length is not a multiple of 4
	reads int      // number of Read calls
	only4 bool     // histories: only the 4-byte reads (the draws of RandIntn below 2^31) take words from the tape;
	               // the NTS code of a client also reads crypto/rand.Reader (unique identifier, nonce)
}

func (t *tapeReader) Read(p []byte) (int, error) {
	if t.only4 && len(p) != 4 {
		return realReader.Read(p)
	}
	t.mu.Lock()
	defer t.mu.Unlock()
	if len(p)%4 != 0 {
		t.bad = true
	}
	t.reads++
	for i := 0; i+4 <= len(p); i += 4 {
		w := t.d
		if t.pos < len(t.words) {
			w = t.words[t.pos]
			t.pos++
		}
		binary.LittleEndian.PutUint32(p[i:], w)
	}
	rev := make([]byte, len(p))
	for i := range p {
		rev[len(p)-1-i] = p[i]
	}
	t.last = new(big.Int).SetBytes(rev)
	return len(p), nil
}

var realReader = crand.Reader

// switchReader is installed as crypto/rand.Reader once, before any goroutine runs: it reads from the scripted
// tape of the current draw / sample / round, and from the real generator otherwise.  (Replacing the variable
// crand.Reader around every round would race with client goroutines that are still reading it.)
type switchReader struct {
	mu  sync.Mutex
	cur *tapeReader
}

func (s *switchReader) Read(p []byte) (int, error) {
	s.mu.Lock()
	t := s.cur
	s.mu.Unlock()
	if t == nil {
		return realReader.Read(p)
	}
	return t.Read(p)
}

var theSwitch = &switchReader{}

func installTape() { crand.Reader = theSwitch }

func runWith(t *tapeReader, f func()) *tapeReader {
	theSwitch.mu.Lock()
	theSwitch.cur = t
	theSwitch.mu.Unlock()
	defer func() {
		theSwitch.mu.Lock()
		theSwitch.cur = nil
		theSwitch.mu.Unlock()
	}()
	f()
	return t
}

func withTape(words []uint32, d uint32, f func()) *tapeReader {
	return runWith(&tapeReader{words: words, d: d, last: new(big.Int)}, f)
}

func withTape4(words []uint32, d uint32, f func()) *tapeReader {
	return runWith(&tapeReader{words: words, d: d, last: new(big.Int), only4: true}, f)
}

func wordsStr(ws []uint32) string {
	s := make([]string, len(ws))
	for i, x := range ws {
		s[i] = lib.U(uint64(x))
	}
	return lib.L(s...)
}

func ctxFor(cancelled bool) context.Context {
	if !cancelled {
		return context.Background()
	}
	ctx, cancel := context.WithCancel(context.Background())
	cancel()
	return ctx
}

// rand.intn: args n cancelled default [tape]; outs class value consumed lastword reads
func caseIntn(tags string, n int64, cancelled bool, d uint32, words []uint32) {
	var v int
	var err error
	panicked := false
	t := withTape(words, d, func() {
		defer func() {
			if recover() != nil {
				panicked = true
			}
		}()
		v, err = crypto.RandIntn(ctxFor(cancelled), int(n))
	})
	cls := 0
	if panicked {
		cls = 2
	} else if err != nil {
		cls = 1
	}
	if t.bad {
		cls = 9
	}
	w.Case("rand.intn", tags, lib.V(lib.I(n), lib.Bool(cancelled), lib.U(uint64(d)), wordsStr(words)),
		lib.V(lib.I(int64(cls)), lib.I(int64(v)), lib.I(int64(t.pos)), t.last.String(), lib.I(int64(t.reads))))
}

// rand.sample: args k n cancelled default [tape]; outs class k' [[dst src]...] consumed reads
func caseSample(tags string, k, n int64, cancelled bool, d uint32, words []uint32) {
	var kk int
	var err error
	var picks []string
	panicked := false
	t := withTape(words, d, func() {
		defer func() {
			if recover() != nil {
				panicked = true
			}
		}()
		kk, err = crypto.Sample(ctxFor(cancelled), int(k), int(n), func(dst, src int) {
			picks = append(picks, lib.L(lib.I(int64(dst)), lib.I(int64(src))))
		})
	})
	cls := 0
	if panicked {
		cls = 2
	} else if err != nil {
		cls = 1
	}
	if t.bad {
		cls = 9
	}
	w.Case("rand.sample", tags, lib.V(lib.I(k), lib.I(n), lib.Bool(cancelled), lib.U(uint64(d)), wordsStr(words)),
		lib.V(lib.I(int64(cls)), lib.I(int64(kk)), lib.L(picks...), lib.I(int64(t.pos)), lib.I(int64(t.reads))))
}

// ---- generators ----

// a word for a draw below n: at / next to the rejection threshold 2^32 mod n, multiples of n, extremes, random
func wordFor(r *lib.Rng, n uint64) uint32 {
	if n < 2 || n >= uint64(1)<<32 {
		return uint32(r.U64())
	}
	t := (uint64(1) << 32) % n
	switch r.Intn(9) {
	case 0:
		return uint32(t)
	case 1:
		return uint32(t + 1)
	case 2:
		if t > 0 {
			return uint32(t - 1)
		}
		return 0
	case 3:
		return uint32(r.U64() % (t + 1)) // rejected
	case 4:
		return 0xFFFFFFFF - uint32(r.Intn(3))
	case 5:
		return uint32(r.Intn(4))
	case 6:
		return uint32((r.U64() % ((uint64(1) << 32) / n)) * n) // residue 0
	default:
		return uint32(r.U64())
	}
}

func genN31(r *lib.Rng) int64 {
	switch r.Intn(8) {
	case 0:
		return r.Range(1, 12)
	case 1:
		return int64(1)<<uint(r.Range(1, 30)) + r.Range(-1, 1)
	case 2:
		return 2147483647 - r.Range(0, 3)
	case 3:
		return r.Range(2, 70000)
	case 4:
		return 3 * (int64(1) << uint(r.Range(0, 29)))
	default:
		return r.Range(2, 2147483647)
	}
}

func genIntn(r *lib.Rng, count int) {
	for i := 0; i < count; i++ {
		var n int64
		tags := ""
		big63 := false
		switch r.Intn(20) {
		case 0:
			n = r.Range(-3, 1) // panic for n <= 0, 0 for n = 1
			tags = "edge"
		case 1, 2:
			big63 = true
			n = lib.Pick(r, int64(2147483648), int64(2147483649), int64(1)<<32, int64(1)<<32+1, int64(1)<<62,
				int64(9223372036854775807), int64(9223372036854775807-24), r.Range(2147483648, 9223372036854775807),
				3*(int64(1)<<40), int64(1)<<33-1)
			tags = "n63"
		default:
			n = genN31(r)
		}
		cancelled := r.Intn(8) == 0
		var words []uint32
		nw := r.Intn(7)
		for j := 0; j < nw; j++ {
			if big63 {
				t := (^uint64(0)-uint64(n))%uint64(n) + 1 // 2^64 mod n (for n not a power of two; else wraps to n -> handled by % below)
				t %= uint64(n)
				var x uint64
				switch r.Intn(5) {
				case 0:
					x = t
				case 1:
					x = t + 1
				case 2:
					x = r.U64() % (t + 1)
				default:
					x = r.U64()
				}
				words = append(words, uint32(x), uint32(x>>32))
			} else {
				words = append(words, wordFor(r, uint64(n)))
			}
		}
		if big63 && r.Intn(4) == 0 && len(words) > 0 {
			words = words[:len(words)-1] // odd number of words: the last draw is completed by the default word
		}
		rejected := false
		if n >= 2 && !big63 {
			t := uint32((uint64(1) << 32) % uint64(n))
			for _, x := range words {
				if x <= t {
					rejected = true
				}
				break
			}
		}
		if rejected {
			tags += ",rej,nt"
		}
		if cancelled {
			tags += ",cancelled"
		}
		caseIntn(tags, n, cancelled, 0xFFFFFFFF, words)
	}
}

func genSample(r *lib.Rng, count int) {
	for i := 0; i < count; i++ {
		var k, n int64
		tags := ""
		switch r.Intn(12) {
		case 0:
			k, n = r.Range(-2, 3), r.Range(-2, 3)
			tags = "edge"
		case 1:
			k, n = r.Range(0, 8), r.Range(0, 8)
		case 2:
			n = r.Range(0, 40)
			k = n + r.Range(-1, 1)
		case 3:
			k, n = 0, r.Range(0, 12)
		default:
			n = r.Range(1, 24)
			k = r.Range(0, n)
		}
		cancelled := r.Intn(10) == 0
		var words []uint32
		kk := k
		if n < kk {
			kk = n
		}
		rej := false
		for i := kk; i < n && i >= 0; i++ {
			for {
				x := wordFor(r, uint64(i+1))
				if r.Intn(3) == 0 {
					x = uint32(r.U64())
				}
				words = append(words, x)
				t := uint32((uint64(1) << 32) % uint64(i+1))
				if i+1 < 2 || x > t {
					break
				}
				rej = true
				if len(words) > 200 {
					break
				}
			}
		}
		if r.Intn(5) == 0 && len(words) > 0 {
			words = words[:r.Intn(len(words))] // short tape: the rest are default words
		}
		if kk > 0 && kk < n {
			tags += ",nt"
		}
		if rej {
			tags += ",rej"
		}
		if cancelled {
			tags += ",cancelled"
		}
		caseSample(tags, k, n, cancelled, 0xFFFFFFFF, words)
	}
}

func replayRand(kind, tags, args string) bool {
	vs := parseValues(args)
	toWords := func(v val) []uint32 {
		out := make([]uint32, len(v.l))
		for i, x := range v.l {
			out[i] = uint32(x.u64())
		}
		return out
	}
	switch kind {
	case "rand.intn":
		caseIntn(tags, vs[0].i64(), vs[1].i64() != 0, uint32(vs[2].u64()), toWords(vs[3]))
		return true
	case "rand.sample":
		caseSample(tags, vs[0].i64(), vs[1].i64(), vs[2].i64() != 0, uint32(vs[3].u64()), toWords(vs[4]))
		return true
	}
	return false
}

var _ = fmt.Sprint
