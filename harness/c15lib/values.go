package c15lib

import (
	"math/big"
	"strings"
)

// val is a parsed case-file value: an integer or a list (byte strings are not used by C15).
type val struct {
	isList bool
	z      *big.Int
	l      []val
}

func (v val) i64() int64   { return v.z.Int64() }
func (v val) u64() uint64  { return new(big.Int).And(v.z, new(big.Int).SetUint64(^uint64(0))).Uint64() }
func (v val) int() int     { return int(v.z.Int64()) }
func (v val) i64s() []int64 {
	out := make([]int64, len(v.l))
	for i, x := range v.l {
		out[i] = x.i64()
	}
	return out
}

// parseValues parses the space-separated value syntax of the case file.
func parseValues(s string) []val {
	toks := strings.Fields(strings.NewReplacer("[", " [ ", "]", " ] ").Replace(s))
	pos := 0
	var parse func() val
	parse = func() val {
		t := toks[pos]
		pos++
		if t == "[" {
			v := val{isList: true}
			for toks[pos] != "]" {
				v.l = append(v.l, parse())
			}
			pos++
			return v
		}
		z, ok := new(big.Int).SetString(t, 10)
		if !ok {
			panic("bad value token " + t)
		}
		return val{z: z}
	}
	var out []val
	for pos < len(toks) {
		out = append(out, parse())
	}
	return out
}
