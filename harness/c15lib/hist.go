package c15lib

import (
	"context"
	"crypto/ecdsa"
	"crypto/elliptic"
	"crypto/tls"
	"crypto/x509"
	"crypto/x509/pkix"
	"encoding/binary"
	"errors"
	"fmt"
	"io"
	"log/slog"
	"math/big"
	"net"
	"os"
	"sort"
	"strings"
	"sync"
	"time"

	"github.com/google/gopacket"
	"github.com/scionproto/scion/pkg/addr"
	"github.com/scionproto/scion/pkg/daemon"
	"github.com/scionproto/scion/pkg/segment/iface"
	"github.com/scionproto/scion/pkg/slayers"
	scpath "github.com/scionproto/scion/pkg/slayers/path"
	"github.com/scionproto/scion/pkg/slayers/path/empty"
	scionpath "github.com/scionproto/scion/pkg/slayers/path/scion"
	"github.com/scionproto/scion/pkg/snet"
	spath "github.com/scionproto/scion/pkg/snet/path"

	"example.com/scion-time/core/client"
	"example.com/scion-time/core/timebase"
	"example.com/scion-time/net/ntp"
	"example.com/scion-time/net/nts"
	"example.com/scion-time/net/ntske"
	"example.com/scion-time/net/scion"
	"example.com/scion-time/net/udp"

	"verifharness/lib"
)

const (
	maxPaths   = 128 // sockets of the peer = paths that can be offered in one round
	maxFp      = 127
	maxClients = 24 // told apart by their DSCP value (6 bits)
	serverPort = 10123
	noPathMsg  = "failed to measure clock offset: no path"
	noMeasMsg  = "failed to measure clock offset: no successful measurement"
)

type sysClock struct{}

func (sysClock) Epoch() uint64                                    { return 0 }
func (sysClock) Now() time.Time                                   { return time.Now().UTC() }
func (sysClock) Drift(d time.Duration) time.Duration              { return 0 }
func (sysClock) Step(offset time.Duration)                        {}
func (sysClock) Adjust(offset, duration time.Duration, f float64) {}
func (sysClock) Sleep(d time.Duration)                            { time.Sleep(d) }

// capHandler records the errors of failed exchanges (logged by MeasureClockOffsetSCION).  The scripted peer
// makes an exchange fail only with a reply that fails the metadata check; any other exchange error (a late
// fallback transmit timestamp on a loaded machine, a socket error) is a disturbance of the environment: such
// a round is not recorded and ends its history.
type capHandler struct {
	mu   sync.Mutex
	errs []string
}

func (h *capHandler) Enabled(_ context.Context, l slog.Level) bool { return l >= slog.LevelInfo }
func (h *capHandler) Handle(_ context.Context, r slog.Record) error {
	if r.Message != "failed to measure clock offset" {
		if debugLog {
			s := r.Message
			r.Attrs(func(a slog.Attr) bool { s += " " + a.Key + "=" + a.Value.String(); return true })
			fmt.Fprintln(os.Stderr, "LOG", time.Now().Format("15:04:05.000"), s)
		}
		return nil
	}
	r.Attrs(func(a slog.Attr) bool {
		if a.Key == "error" {
			h.mu.Lock()
			h.errs = append(h.errs, a.Value.String())
			h.mu.Unlock()
		}
		return true
	})
	return nil
}
func (h *capHandler) WithAttrs([]slog.Attr) slog.Handler { return h }
func (h *capHandler) WithGroup(string) slog.Handler      { return h }
func (h *capHandler) take() []string {
	h.mu.Lock()
	defer h.mu.Unlock()
	e := h.errs
	h.errs = nil
	return e
}

var debugLog = os.Getenv("C15_DEBUG") != ""

const expectedExchangeError = "unexpected response structure"

// recFilter is the recording measurements.Filter of one client: Do returns the scripted values.
type recFilter struct {
	mu     sync.Mutex
	script []int64
	vals   []int64
	resets int
}

func (f *recFilter) Do(t0, t1, t2, t3 time.Time) time.Duration {
	f.mu.Lock()
	defer f.mu.Unlock()
	var v int64
	if len(f.vals) < len(f.script) {
		v = f.script[len(f.vals)]
	}
	f.vals = append(f.vals, v)
	return time.Duration(v)
}
func (f *recFilter) Reset() {
	f.mu.Lock()
	f.resets++
	f.mu.Unlock()
}

// peer is the scripted SCION NTP server: one UDP socket per offered path (the
// underlay next hop of that path).  It records which socket every request of
// every client (told apart by the DSCP value in the SCION header) arrives at.
type peer struct {
	mu    sync.Mutex
	ip    net.IP // 16-byte form (net.IPv4), as net.ParseIP gives it
	socks []*net.UDPConn
	ports []int
	// per round
	modes [][]int64          // per client: behaviour per request (0 conformant, 1 basic reply, 2 rejected reply)
	nreq  []int              // per client: requests seen this round
	hops  [][]int            // per client: socket index of every request
	forms [][]int64          // per client: form of every request (1 interleaved, 0 basic)
	dps   [][]int            // per client: the offered path whose SCION path every request carried (by its socket index)
	lastReply time.Time      // when the last reply of this round was handed to the kernel
	txOf  []map[ntp.Time64]ntp.Time64 // per client: receive stamp -> transmit stamp of earlier replies
	bad   int
	// NTS: the key exchange server of the peer and the keys of every session it served
	keLn   net.Listener
	kePort int
	sess   map[uint64]ntske.Data
	nsess  uint64
	ntsOK  int // authenticated NTS requests answered
}

func ownAddr() net.IP {
	pid := os.Getpid()
	return net.IPv4(127, 15, byte(pid>>8), byte(pid))
}

func newPeer() *peer {
	p := &peer{ip: ownAddr()}
	for k := 0; k < maxPaths; k++ {
		c, err := net.ListenUDP("udp4", &net.UDPAddr{IP: p.ip, Port: 0})
		if err != nil {
			panic(err)
		}
		p.socks = append(p.socks, c)
		p.ports = append(p.ports, c.LocalAddr().(*net.UDPAddr).Port)
		go p.serve(k, c)
	}
	return p
}

const cookieLen = 64

func selfSigned() tls.Certificate {
	key, err := ecdsa.GenerateKey(elliptic.P256(), realReader)
	if err != nil {
		panic(err)
	}
	tmpl := x509.Certificate{
		SerialNumber: big.NewInt(15),
		Subject:      pkix.Name{CommonName: "c15.test"},
		NotBefore:    time.Now().Add(-time.Hour),
		NotAfter:     time.Now().Add(48 * time.Hour),
		KeyUsage:     x509.KeyUsageDigitalSignature,
		ExtKeyUsage:  []x509.ExtKeyUsage{x509.ExtKeyUsageServerAuth},
		DNSNames:     []string{"c15.test"},
	}
	der, err := x509.CreateCertificate(realReader, &tmpl, &tmpl, &key.PublicKey, key)
	if err != nil {
		panic(err)
	}
	return tls.Certificate{Certificate: [][]byte{der}, PrivateKey: key}
}

// startKE starts the peer's NTS key exchange server (TLS over TCP): every exchange gets eight cookies that
// name the session, and the address and port the NTP requests are addressed to.
func (p *peer) startKE() {
	ln, err := tls.Listen("tcp4", (&net.TCPAddr{IP: p.ip, Port: 0}).String(), &tls.Config{
		Certificates: []tls.Certificate{selfSigned()}, MinVersion: tls.VersionTLS13, NextProtos: []string{"ntske/1"},
		Rand: realReader})
	if err != nil {
		panic(err)
	}
	p.keLn = ln
	p.kePort = ln.Addr().(*net.TCPAddr).Port
	p.sess = map[uint64]ntske.Data{}
	go func() {
		for {
			c, err := ln.Accept()
			if err != nil {
				return
			}
			go func(c net.Conn) {
				defer c.Close()
				tc := c.(*tls.Conn)
				_ = tc.SetDeadline(time.Now().Add(20 * time.Second))
				if err := tc.Handshake(); err != nil {
					return
				}
				req := make([]byte, 16)
				if _, err := io.ReadFull(tc, req); err != nil {
					return
				}
				var d ntske.Data
				if err := ntske.ExportKeys(tc.ConnectionState(), &d); err != nil {
					return
				}
				p.mu.Lock()
				p.nsess++
				id := p.nsess
				p.sess[id] = d
				p.mu.Unlock()
				var msg ntske.ExchangeMsg
				msg.AddRecord(ntske.NextProto{NextProto: ntske.NTPv4})
				msg.AddRecord(ntske.Algorithm{Algo: []uint16{ntske.AES_SIV_CMAC_256}})
				for i := 0; i < 8; i++ {
					ck := make([]byte, cookieLen)
					binary.BigEndian.PutUint64(ck, id)
					realReader.Read(ck[8:])
					msg.AddRecord(ntske.Cookie{Cookie: ck})
				}
				msg.AddRecord(ntske.Server{Addr: []byte(p.ip.String())})
				msg.AddRecord(ntske.Port{Port: uint16(serverPort)})
				msg.AddRecord(ntske.End{})
				buf, err := msg.Pack()
				if err != nil {
					return
				}
				_, _ = tc.Write(buf.Bytes())
				_, _ = tc.Read(req) // wait for the client to close
			}(c)
		}
	}()
}

func (p *peer) newRound(modes [][]int64, fresh bool) {
	p.mu.Lock()
	defer p.mu.Unlock()
	n := len(modes)
	p.modes = modes
	p.nreq = make([]int, n)
	p.hops = make([][]int, n)
	p.forms = make([][]int64, n)
	p.dps = make([][]int, n)
	p.lastReply = time.Time{}
	if fresh {
		p.sess = map[uint64]ntske.Data{} // sessions of earlier histories are over
		p.txOf = make([]map[ntp.Time64]ntp.Time64, n)
		for i := range p.txOf {
			p.txOf[i] = map[ntp.Time64]ntp.Time64{}
		}
	}
}

// quiesce waits until no request has arrived for 40 ms (at most 2 s): the exchanges of a round that was
// started with a cancelled context go on after the call has returned.
func (p *peer) quiesce() {
	total := func() int {
		p.mu.Lock()
		defer p.mu.Unlock()
		n := 0
		for _, x := range p.nreq {
			n += x
		}
		return n
	}
	last, since := total(), time.Now()
	for start := time.Now(); time.Since(start) < 2*time.Second; {
		time.Sleep(10 * time.Millisecond)
		if n := total(); n != last {
			last, since = n, time.Now()
		} else if time.Since(since) > 40*time.Millisecond {
			return
		}
	}
}

func (p *peer) serve(k int, c *net.UDPConn) {
	buf := make([]byte, 2048)
	for {
		n, from, err := c.ReadFromUDPAddrPort(buf)
		if err != nil {
			return
		}
		rx := time.Now().UTC()
		reply := p.handle(k, buf[:n], rx)
		if reply != nil {
			c.WriteToUDPAddrPort(reply, from)
			p.mu.Lock()
			p.lastReply = time.Now()
			p.mu.Unlock()
		}
	}
}

func (p *peer) handle(k int, b []byte, rx time.Time) []byte {
	var scn slayers.SCION
	if err := scn.DecodeFromBytes(b, gopacket.NilDecodeFeedback); err != nil || scn.NextHdr != slayers.L4UDP {
		p.mu.Lock()
		p.bad++
		p.mu.Unlock()
		return nil
	}
	var u slayers.UDP
	if err := u.DecodeFromBytes(scn.Payload, gopacket.NilDecodeFeedback); err != nil {
		return nil
	}
	var req ntp.Packet
	if err := ntp.DecodePacket(&req, u.Payload); err != nil {
		return nil
	}
	ci := int(scn.TrafficClass >> 2)
	p.mu.Lock()
	defer p.mu.Unlock()
	// a request with extension fields is an NTS request: it must carry a cookie of one of the peer's key
	// exchanges and be authentic under that session's C2S key
	var ntsreq nts.Packet
	var sess ntske.Data
	isNTS := len(u.Payload) > 48
	if isNTS {
		if err := nts.DecodePacket(&ntsreq, u.Payload); err != nil {
			p.bad++
			return nil
		}
		ck, err := ntsreq.FirstCookie()
		if err != nil || len(ck) != cookieLen {
			p.bad++
			return nil
		}
		var ok bool
		sess, ok = p.sess[binary.BigEndian.Uint64(ck)]
		if !ok || nts.ProcessRequest(u.Payload, sess.C2sKey, &ntsreq) != nil {
			p.bad++
			return nil
		}
		p.ntsOK++
	}
	if ci >= len(p.nreq) {
		p.bad++
		return nil
	}
	j := p.nreq[ci]
	p.nreq[ci]++
	mode := int64(0)
	if j < len(p.modes[ci]) {
		mode = p.modes[ci][j]
	}
	ilvForm := req.OriginTime != (ntp.Time64{}) || req.ReceiveTime != (ntp.Time64{})
	p.hops[ci] = append(p.hops[ci], k)
	// which offered path's SCION path the request carries: the paths with metadata have a one-segment path whose
	// first hop field names the path (1000 + socket index); a request with an empty path counts for its next hop
	dp := k
	if scn.PathType == scionpath.PathType {
		dp = -1
		if raw, ok := scn.Path.(*scionpath.Raw); ok {
			if hf, err := raw.GetHopField(0); err == nil {
				dp = int(hf.ConsEgress) - 1000
			}
		}
	}
	p.dps[ci] = append(p.dps[ci], dp)
	if ilvForm {
		p.forms[ci] = append(p.forms[ci], 1)
	} else {
		p.forms[ci] = append(p.forms[ci], 0)
	}

	var resp ntp.Packet
	resp.SetVersion(4)
	resp.SetMode(4)
	resp.Stratum = 1
	resp.ReceiveTime = ntp.Time64FromTime(rx)
	interleaved := false
	if mode == 0 && ilvForm {
		if tx, ok := p.txOf[ci][req.OriginTime]; ok {
			interleaved = true
			resp.OriginTime = req.ReceiveTime
			resp.TransmitTime = tx
		}
	}
	if mode == 3 {
		return nil // this path does not answer
	}
	if mode == 2 {
		resp.Stratum = 0 // fails the client's metadata check at once
	}
	txNow := ntp.Time64FromTime(time.Now().UTC())
	if !interleaved {
		resp.OriginTime = req.TransmitTime
		resp.TransmitTime = txNow
	}
	if len(p.txOf[ci]) > 512 {
		p.txOf[ci] = map[ntp.Time64]ntp.Time64{}
	}
	p.txOf[ci][resp.ReceiveTime] = txNow

	var payload []byte
	ntp.EncodePacket(&payload, &resp)
	if isNTS {
		ck, _ := ntsreq.FirstCookie()
		var cookies [][]byte
		for i := 0; i < 1+len(ntsreq.CookiePlaceholders); i++ {
			c := make([]byte, cookieLen)
			copy(c, ck[:8])
			realReader.Read(c[8:])
			cookies = append(cookies, c)
		}
		ntsresp := nts.NewResponsePacket(cookies, sess.S2cKey, ntsreq.UniqueID.ID)
		// the authenticator's nonce is drawn from crypto/rand.Reader, which is the scripted tape during a
		// round: reads of other sizes than 4 bytes are served from the real generator (tapeReader.only4)
		nts.EncodePacket(&payload, &ntsresp)
	}
	var out slayers.SCION
	out.Version = 0
	out.TrafficClass = scn.TrafficClass
	out.FlowID = 1
	out.NextHdr = slayers.L4UDP
	out.PathType = empty.PathType
	out.Path = empty.Path{}
	out.DstIA, out.SrcIA = scn.SrcIA, scn.DstIA
	out.DstAddrType, out.SrcAddrType = scn.SrcAddrType, scn.DstAddrType
	out.RawDstAddr, out.RawSrcAddr = scn.RawSrcAddr, scn.RawDstAddr
	var ou slayers.UDP
	ou.SrcPort, ou.DstPort = u.DstPort, u.SrcPort
	ou.SetNetworkLayerForChecksum(&out)
	sb := gopacket.NewSerializeBuffer()
	err := gopacket.SerializeLayers(sb, gopacket.SerializeOptions{ComputeChecksums: true, FixLengths: true},
		&out, &ou, gopacket.Payload(payload))
	if err != nil {
		p.bad++
		return nil
	}
	return append([]byte(nil), sb.Bytes()...)
}

// ---- histories ----

type clientCfg struct {
	en   bool // InterleavedMode
	hasf bool // has a (recording) filter
	nts  bool // Auth.NTSEnabled
}

// one answer of the scripted daemon: the paths to one destination IA
type answerIn struct {
	ia  int64
	ok  bool    // false: the lookup fails
	fps []int64 // fingerprint id of every path
}

type refreshIn struct {
	liaOK   bool // false: the daemon's LocalIA fails
	answers []answerIn
}

type roundIn struct {
	refresh *refreshIn // pather histories: a refresh of the Pather before the round (nil: none)
	fps     []int64    // plain histories: fingerprint id of every offered path
	d       uint32     // default word
	tape    []uint32   // scripted random words
	modes   [][]int64  // per client, per request (0 conformant, 1 basic reply, 2 rejected reply, 3 no reply)
	vals    [][]int64  // per client, per accepted exchange: what its filter returns
	pause   bool       // 3.3 s pass before the round
	cancel  bool       // the round is started with a context that is already cancelled
}

func (r *roundIn) flags() int64 {
	f := int64(0)
	if r.pause {
		f |= 1
	}
	if r.cancel {
		f |= 2
	}
	return f
}

func (r *roundIn) hasSilent() bool {
	for _, m := range r.modes {
		for _, x := range m {
			if x == 3 {
				return true
			}
		}
	}
	return false
}

type histIn struct {
	cfg    []clientCfg
	pather bool    // the offered paths come from a scion.Pather fed by a scripted daemon
	dstIAs []int64 // pather histories: the destination IAs the Pather is started with
	q      int64   // pather histories: the IA of the server
	rounds []roundIn
}

func (h *histIn) anyNTS() bool {
	for _, c := range h.cfg {
		if c.nts {
			return true
		}
	}
	return false
}

var (
	thePeer *peer
	ia      = addr.MustParseIA("1-ff00:0:110")
	fpIDs   map[string]int64
	capH    = &capHandler{}
	dlog    = slog.New(capH)
	quiet   = slog.New(nullHandler{})
	disturbed = map[string]int{}
	roundsRun int
	slowRounds, abandoned, deadlineHits, slowSilent int
)

type nullHandler struct{}

func (nullHandler) Enabled(context.Context, slog.Level) bool  { return false }
func (nullHandler) Handle(context.Context, slog.Record) error { return nil }
func (h nullHandler) WithAttrs([]slog.Attr) slog.Handler      { return h }
func (h nullHandler) WithGroup(string) slog.Handler           { return h }

// offHandler is the log handler of a client without a filter: the offset such a client reports is the raw
// offset of its exchange, which the client logs ("evaluated response", at debug level) on its own logger.
type offHandler struct {
	mu   sync.Mutex
	offs []int64
}

func (h *offHandler) Enabled(_ context.Context, l slog.Level) bool { return true }
func (h *offHandler) Handle(_ context.Context, r slog.Record) error {
	if r.Message != "evaluated response" {
		return nil
	}
	r.Attrs(func(a slog.Attr) bool {
		if a.Key == "clock offset" {
			h.mu.Lock()
			h.offs = append(h.offs, int64(a.Value.Duration()))
			h.mu.Unlock()
			return false
		}
		return true
	})
	return nil
}
func (h *offHandler) WithAttrs([]slog.Attr) slog.Handler { return h }
func (h *offHandler) WithGroup(string) slog.Handler      { return h }
func (h *offHandler) take() []int64 {
	h.mu.Lock()
	defer h.mu.Unlock()
	o := h.offs
	h.offs = nil
	return o
}

const roundTimeout = 10 * time.Second

// a round in which a path may stay silent gets a short context: the client on that path waits for its end
const silentTimeout = 300 * time.Millisecond

// in such a round every reply must have left the peer this long after the start of the round; otherwise the
// machine is too slow to tell a silent path from a late answer and the round is not recorded
const silentReplyBy = 120 * time.Millisecond

const pauseLen = 3300 * time.Millisecond

// the IA with id n (ids of destination IAs in pather histories; id 0 is also the server's IA of a plain
// history with NTS clients, where the server must be in another AS than the client)
func iaOf(n int64) addr.IA { return addr.MustIAFrom(1, addr.AS(0xff0000000200+uint64(n))) }

// rawPath is a serialized one-segment SCION path whose hop fields name the offered path k.
func rawPath(k int) []byte {
	dec := scionpath.Decoded{
		Base: scionpath.Base{PathMeta: scionpath.MetaHdr{SegLen: [3]uint8{2, 0, 0}}, NumINF: 1, NumHops: 2},
		InfoFields: []scpath.InfoField{{ConsDir: true, SegID: uint16(k), Timestamp: 1}},
		HopFields: []scpath.HopField{
			{ExpTime: 63, ConsIngress: 0, ConsEgress: uint16(1000 + k)},
			{ExpTime: 63, ConsIngress: uint16(2000 + k), ConsEgress: 0},
		},
	}
	raw := make([]byte, dec.Len())
	if err := dec.SerializeTo(raw); err != nil {
		panic(err)
	}
	return raw
}

// mkPathTo: offered path k with fingerprint id fp.  A path with metadata has its own SCION path (so that the
// peer sees which path a request was built from, not only where it was sent) and differing MTU / latency /
// bandwidth / expiry (nothing of which may influence the assignment); fingerprint 0 is the metadata-less path
// with the empty dataplane path, as timeservice.go builds it for a server in the own AS.
func mkPathTo(dst addr.IA, k int, fp int64) snet.Path {
	p := spath.Path{
		Src: ia, Dst: dst,
		DataplanePath: spath.Empty{},
		NextHop:       &net.UDPAddr{IP: thePeer.ip, Port: thePeer.ports[k]},
	}
	if fp != 0 {
		p.DataplanePath = spath.SCION{Raw: rawPath(k)}
		q := (k*7919 + int(fp)*104729) % 97
		p.Meta = snet.PathMetadata{
			Interfaces: []snet.PathInterface{{ID: iface.ID(fp), IA: ia}, {ID: iface.ID(1000 + fp), IA: ia}},
			MTU:        uint16(1200 + 8*(96-q)),
			Expiry:     time.Now().Add(time.Duration(1+q) * time.Hour),
			Latency:    []time.Duration{time.Duration(1+q) * time.Millisecond},
			Bandwidth:  []uint64{uint64(1000 * (100 - q))},
		}
	}
	return p
}

func mkPath(k int, fp int64) snet.Path { return mkPathTo(ia, k, fp) }

func setupHist() {
	timebase.RegisterClock(sysClock{})
	installTape()
	thePeer = newPeer()
	thePeer.startKE()
	fpIDs = map[string]int64{}
	for f := int64(0); f <= maxFp; f++ {
		fpIDs[snet.Fingerprint(mkPath(0, f)).String()] = f
	}
}

func fpID(s string) int64 {
	if id, ok := fpIDs[s]; ok {
		return id
	}
	return -1
}

func sockOf(p snet.Path) int64 {
	nh := p.UnderlayNextHop()
	if nh == nil {
		return -1
	}
	for k, port := range thePeer.ports {
		if port == nh.Port {
			return int64(k)
		}
	}
	return -1
}

// fakeDaemon is the scripted daemon.Connector of one refresh.
type fakeDaemon struct {
	daemon.Connector
	liaOK   bool
	answers map[addr.IA][]snet.Path
	fails   map[addr.IA]bool
	odd     int // lookups with another source than the local IA or without the refresh flag
}

var errDaemon = errors.New("scripted daemon: lookup failed")

func (f *fakeDaemon) LocalIA(ctx context.Context) (addr.IA, error) {
	if !f.liaOK {
		return 0, errDaemon
	}
	return ia, nil
}

func (f *fakeDaemon) Paths(ctx context.Context, dst, src addr.IA, fl daemon.PathReqFlags) ([]snet.Path, error) {
	if src != ia {
		f.odd++
		return nil, errDaemon // a daemon has no paths from another AS than its own
	}
	if !fl.Refresh {
		f.odd++
	}
	if f.fails[dst] {
		return nil, errDaemon
	}
	return append([]snet.Path(nil), f.answers[dst]...), nil
}

func i64sStr(xs []int64) string { return lib.IL(xs) }
func nested(xss [][]int64) string {
	s := make([]string, len(xss))
	for i, xs := range xss {
		s[i] = lib.IL(xs)
	}
	return lib.L(s...)
}

func (h *histIn) argsStr(nrounds int) string {
	cfg := make([]string, len(h.cfg))
	for i, c := range h.cfg {
		cfg[i] = lib.L(lib.Bool(c.en), lib.Bool(c.hasf), lib.Bool(c.nts))
	}
	rs := make([]string, nrounds)
	for i := 0; i < nrounds; i++ {
		r := &h.rounds[i]
		first := lib.IL(r.fps)
		if h.pather {
			first = lib.L()
			if r.refresh != nil {
				as := make([]string, len(r.refresh.answers))
				for j, a := range r.refresh.answers {
					as[j] = lib.L(lib.I(a.ia), lib.Bool(a.ok), lib.IL(a.fps))
				}
				first = lib.L(lib.Bool(r.refresh.liaOK), lib.L(as...))
			}
		}
		rs[i] = lib.L(first, lib.U(uint64(r.d)), wordsStr(r.tape), nested(r.modes), nested(r.vals), lib.I(r.flags()))
	}
	if h.pather {
		return lib.V(lib.L(cfg...), lib.IL(h.dstIAs), lib.I(h.q), lib.L(rs...))
	}
	return lib.V(lib.L(cfg...), lib.L(rs...))
}

func (h *histIn) kind() string {
	if !h.pather {
		return "mp.hist"
	}
	seen := map[int64]bool{}
	for _, d := range h.dstIAs {
		if seen[d] {
			return "mp.pather.dupia" // an IA is listed more than once
		}
		seen[d] = true
	}
	return "mp.pather"
}

var statKeys = []string{"keep", "keepempty", "ilvreset", "fewpaths", "manypaths", "nopaths", "drawn", "nofilt", "nofiltilv", "nts", "ntsilv",
	"refresh", "liafail", "lookupfail", "gone", "shared", "silent", "pause", "keepold", "cancel", "ctxerr"}

// runHist drives the real MeasureClockOffsetSCION through the rounds of h and writes one case.
func runHist(tags string, h *histIn) {
	nc := len(h.cfg)
	ntpcs := make([]*client.SCIONClient, nc)
	filters := make([]*recFilter, nc)
	offH := make([]*offHandler, nc)
	for i := 0; i < nc; i++ {
		c := &client.SCIONClient{Log: dlog, DSCP: uint8(i), InterleavedMode: h.cfg[i].en}
		if h.cfg[i].hasf {
			filters[i] = &recFilter{}
			c.Filter = filters[i]
		} else {
			offH[i] = &offHandler{}
			c.Log = slog.New(offH[i])
		}
		if h.cfg[i].nts {
			c.Auth.NTSEnabled = true
			c.Auth.NTSKEFetcher.Log = quiet
			c.Auth.NTSKEFetcher.TLSConfig = tls.Config{InsecureSkipVerify: true, ServerName: thePeer.ip.String(),
				MinVersion: tls.VersionTLS13, Rand: realReader}
			c.Auth.NTSKEFetcher.Port = fmt.Sprint(thePeer.kePort)
		}
		ntpcs[i] = c
	}
	// the server is in the client's AS (the paths are empty paths) unless the paths come from a Pather or a
	// client uses NTS: an NTS client replaces the path to a server in its own AS by the direct one
	dstIA := ia
	if h.pather {
		dstIA = iaOf(h.q)
	} else if h.anyNTS() {
		dstIA = iaOf(0)
	}
	// All clients of a round (and all rounds of a history) share remoteAddr.Host; the server address is handed
	// over in 16-byte form, and an NTS client replaces it by net.ParseIP(<server named by the key exchange>):
	// each client has to work on its own copy (097c4ec of /repo; before, a torn read of the shared slice header
	// sent a request to 0.0.0.0 and the round blocked until its deadline - the race detector run c15race
	// watches this).
	hostIP := thePeer.ip
	laddr := udp.UDPAddr{IA: ia, Host: &net.UDPAddr{IP: hostIP, Port: 0}}
	raddr := udp.UDPAddr{IA: dstIA, Host: &net.UDPAddr{IP: hostIP, Port: serverPort}}
	var pather *scion.Pather
	var dstIAs []addr.IA
	if h.pather {
		pather = scion.VerifNewPather(quiet)
		for _, d := range h.dstIAs {
			dstIAs = append(dstIAs, iaOf(d))
		}
	}
	old := make([]bool, nc) // for the tags: the client's previous accepted exchange is more than 3 s old
	var truth []int64       // pather histories: fingerprints of the paths the daemon last reported for the server's IA

	var outs []string
	stat := map[string]bool{}
	done := 0
	histStart := time.Now()
	histWall := time.Now().Round(0) // wall clock only: the clients' 3 s window is taken on the wall clock
	for ri := range h.rounds {
		r := &h.rounds[ri]
		if r.pause {
			// more than 3 s without an exchange: afterwards no client may send an interleaved request before it
			// has completed another exchange; the 2 s limit of the history starts anew
			for p0 := time.Now(); time.Since(p0) < pauseLen; {
				if !idleWork() {
					time.Sleep(pauseLen - time.Since(p0))
				}
			}
			histStart = time.Now()
			histWall = time.Now().Round(0)
			stat["pause"] = true
		}
		// what the exported getters say before the round (for the tags only)
		preIlv := make([]bool, nc)
		preFp := make([]int64, nc)
		for i, c := range ntpcs {
			preIlv[i] = c.InInterleavedMode()
			preFp[i] = fpID(c.InterleavedModePath())
		}
		for i := 0; i < nc; i++ {
			if filters[i] != nil {
				filters[i].mu.Lock()
				filters[i].script = r.vals[i]
				filters[i].vals = nil
				filters[i].resets = 0
				filters[i].mu.Unlock()
			} else {
				offH[i].take()
			}
		}
		thePeer.newRound(r.modes, ri == 0)
		var ps []snet.Path
		var offered []string
		var ofps []int64 // fingerprint of the path behind every socket offered in this round
		oddLookups := 0  // lookups of this round's refresh with another source than the local IA or without the refresh flag
		if h.pather {
			if r.refresh != nil {
				fd := &fakeDaemon{liaOK: r.refresh.liaOK, answers: map[addr.IA][]snet.Path{}, fails: map[addr.IA]bool{}}
				k := 0
				for _, a := range r.refresh.answers {
					if !a.ok {
						fd.fails[iaOf(a.ia)] = true
						stat["lookupfail"] = true
						continue
					}
					for _, f := range a.fps {
						fd.answers[iaOf(a.ia)] = append(fd.answers[iaOf(a.ia)], mkPathTo(iaOf(a.ia), k, f))
						k++
					}
				}
				scion.VerifUpdate(context.Background(), pather, fd, dstIAs)
				stat["refresh"] = true
				if !r.refresh.liaOK {
					stat["liafail"] = true
				} else {
					var nt []int64
					for _, a := range r.refresh.answers {
						if a.ia == h.q && a.ok {
							nt = a.fps
						}
					}
					listed := false
					for _, d := range h.dstIAs {
						listed = listed || d == h.q
					}
					if !listed {
						nt = nil
					}
					if len(nt) < len(truth) {
						stat["gone"] = true
					}
					truth = nt
				}
				oddLookups = fd.odd
			}
			ps = pather.Paths(dstIA)
			ofps = make([]int64, maxPaths)
			for _, p := range ps {
				k, f := sockOf(p), fpID(snet.Fingerprint(p).String())
				offered = append(offered, lib.L(lib.I(k), lib.I(f)))
				if k >= 0 {
					ofps[k] = f
				}
			}
		} else {
			ps = make([]snet.Path, len(r.fps))
			for k, f := range r.fps {
				ps[k] = mkPathTo(dstIA, k, f)
			}
			ofps = r.fps
		}
		noffered := len(ps)
		capH.take()
		roundsRun++
		start := time.Now()
		var off time.Duration
		var err error
		panicked := false
		timeout := roundTimeout
		silent := r.hasSilent()
		if silent {
			timeout = silentTimeout
		}
		t := withTape4(r.tape, r.d, func() {
			ctx, cancel := context.WithTimeout(context.Background(), timeout)
			defer cancel()
			if r.cancel {
				ctx, cancel = context.WithCancel(context.Background())
				cancel()
			}
			defer func() {
				if recover() != nil {
					panicked = true
				}
			}()
			_, off, err = client.MeasureClockOffsetSCION(ctx, dlog, ntpcs, laddr, raddr, ps)
		})
		hitDeadline := time.Since(start) >= timeout
		lingering := r.cancel && !errors.Is(err, context.Canceled) && !(err != nil && err.Error() == noPathMsg) && !panicked
		if lingering {
			// with a cancelled context the collection ends at once while the exchanges go on (they have no
			// deadline): wait for them before looking at the clients
			thePeer.quiesce()
		}
		if silent {
			// give the exchanges that ended with the context a moment to return; a reply that left the peer late
			// means the machine is too slow for this round: not recorded, the history ends
			time.Sleep(20 * time.Millisecond)
			thePeer.mu.Lock()
			late := !thePeer.lastReply.IsZero() && thePeer.lastReply.Sub(start) > silentReplyBy
			thePeer.mu.Unlock()
			if late || time.Since(start) > 2*silentTimeout {
				slowSilent++
				break
			}
			if hitDeadline {
				stat["silent"] = true
			}
		}
		unexpected := ""
		errsSeen := capH.take()
		if os.Getenv("C15_DEBUG") != "" && time.Since(start) >= roundTimeout {
			fmt.Fprintf(os.Stderr, "DEADLINE errors: %q\n", errsSeen)
		}
		for _, e := range errsSeen {
			if e != expectedExchangeError && !(silent && hitDeadline && strings.Contains(e, "i/o timeout")) {
				unexpected = e
			}
		}
		if unexpected != "" && !hitDeadline && !panicked {
			disturbed[unexpected]++
			break
		}
		if hitDeadline && silent {
			// expected: a client waited on a silent path until the context ended
		} else if hitDeadline {
			// the round did not end before its context did although every request is answered at once:
			// recorded as it is (the clients that never probed show up as non-participants)
			deadlineHits++
			if os.Getenv("C15_DEBUG") != "" {
				thePeer.mu.Lock()
				fmt.Fprintf(os.Stderr, "DEADLINE round %d err=%v nreq=%v hops=%v bad=%d cfg=%v\n  args=%s\n", ri, err, thePeer.nreq, thePeer.hops, thePeer.bad, h.cfg, h.argsStr(ri+1))
				thePeer.mu.Unlock()
			}
		} else if wall := time.Now().Round(0).Sub(histWall); time.Since(histStart) > 2*time.Second || wall > 2*time.Second || wall < 0 {
			// every earlier exchange of this history is at most this old; beyond 2 s the 3 s interleaving
			// window of a client may have passed and the request forms are no longer determined by the
			// history (a history normally takes some 10 ms); the same if the wall clock, which the clients
			// use, was stepped or the machine was paused meanwhile: drop this round and end the history here
			slowRounds++
			break
		}
		cls := 0
		if err != nil {
			cls = 2
			if err.Error() == noPathMsg {
				cls = 1
			} else if err.Error() == noMeasMsg {
				cls = 4
			} else if errors.Is(err, context.Canceled) {
				cls = 5
				stat["ctxerr"] = true
			}
		}
		if panicked {
			cls, off = 3, 0
			time.Sleep(50 * time.Millisecond) // let exchanges that were already started end
		}
		thePeer.mu.Lock()
		cl := make([]string, nc)
		used := map[int64]int{}
		for i := 0; i < nc; i++ {
			hs := map[int]bool{}
			for _, k := range thePeer.hops[i] {
				hs[k] = true
			}
			var hl []int64
			for k := range hs {
				hl = append(hl, int64(k))
				used[int64(k)]++
			}
			sort.Slice(hl, func(a, b int) bool { return hl[a] < hl[b] })
			var vals []int64
			resets := 0
			if filters[i] != nil {
				filters[i].mu.Lock()
				vals = append([]int64(nil), filters[i].vals...)
				resets = filters[i].resets
				filters[i].mu.Unlock()
			} else {
				// without a filter the client reports the raw offsets of its accepted exchanges
				vals = offH[i].take()
			}
			postIlv := ntpcs[i].InInterleavedMode()
			postFp := fpID(ntpcs[i].InterleavedModePath())
			ds := map[int]bool{}
			for _, k := range thePeer.dps[i] {
				ds[k] = true
			}
			var dl []int64
			for k := range ds {
				dl = append(dl, int64(k))
			}
			sort.Slice(dl, func(a, b int) bool { return dl[a] < dl[b] })
			cl[i] = lib.L(lib.IL(hl), lib.I(int64(resets)), lib.IL(thePeer.forms[i]), lib.IL(vals), lib.Bool(postIlv), lib.I(postFp), lib.IL(dl))
			// statistics for the tags
			kept := preIlv[i] && len(hl) == 1 && int(hl[0]) < len(ofps) && ofps[hl[0]] == preFp[i] &&
				len(thePeer.forms[i]) > 0 && thePeer.forms[i][0] == 1
			if r.pause {
				old[i] = true
			}
			if old[i] && preIlv[i] && len(hl) == 1 && int(hl[0]) < len(ofps) && ofps[hl[0]] == preFp[i] && resets == 0 &&
				len(thePeer.forms[i]) > 0 && thePeer.forms[i][0] == 0 {
				stat["keepold"] = true // kept its path although its previous exchange is more than 3 s old
			}
			if len(vals) > 0 {
				old[i] = false
			}
			if kept && (resets == 0) {
				stat["keep"] = true
				if preFp[i] == 0 {
					stat["keepempty"] = true
				}
				if filters[i] == nil {
					stat["nofiltilv"] = true
				}
				if h.cfg[i].nts {
					stat["ntsilv"] = true
				}
			}
			if preIlv[i] && (resets > 0 || (filters[i] == nil && !kept)) {
				stat["ilvreset"] = true
			}
			if filters[i] == nil && len(vals) > 0 {
				stat["nofilt"] = true
			}
			if h.cfg[i].nts && len(vals) > 0 {
				stat["nts"] = true
			}
		}
		thePeer.mu.Unlock()
		for _, n := range used {
			if n > 1 {
				stat["shared"] = true // two clients probed over the same path
			}
		}
		if nc > noffered {
			stat["fewpaths"] = true
		}
		if noffered >= 40 {
			stat["manypaths"] = true
		}
		if noffered == 0 {
			stat["nopaths"] = true
		}
		if t.pos > 0 {
			stat["drawn"] = true
		}
		ro := []string{lib.L(cl...), lib.I(int64(cls)), lib.I(int64(off)), lib.I(int64(t.pos))}
		if h.pather {
			ro = append([]string{lib.L(offered...), lib.I(int64(oddLookups))}, ro...)
		}
		if r.cancel {
			stat["cancel"] = true
		}
		outs = append(outs, lib.L(ro...))
		done++
		if panicked || (hitDeadline && !silent) {
			break // the clients' state is no longer defined by the history
		}
		if lingering {
			break // the clients' state is no longer defined by the history
		}
	}
	if done == 0 {
		abandoned++
		return
	}
	for _, k := range statKeys {
		if stat[k] {
			tags += "," + k
		}
	}
	if h.pather {
		// non-trivial: a refresh took paths away from a client in interleaved mode and random words were consumed
		if stat["refresh"] && stat["keep"] && stat["ilvreset"] && stat["drawn"] {
			tags += ",nt"
		}
	} else if stat["keep"] && stat["ilvreset"] && stat["drawn"] {
		tags += ",nt"
	}
	countTags(h.kind(), tags)
	w.Case(h.kind(), tags, h.argsStr(done), lib.L(outs...))
}

func parseRounds(h *histIn, rvs []val) {
	for _, rv := range rvs {
		var r roundIn
		if h.pather {
			if len(rv.l[0].l) > 0 {
				rf := &refreshIn{liaOK: rv.l[0].l[0].i64() != 0}
				for _, a := range rv.l[0].l[1].l {
					rf.answers = append(rf.answers, answerIn{ia: a.l[0].i64(), ok: a.l[1].i64() != 0, fps: a.l[2].i64s()})
				}
				r.refresh = rf
			}
		} else {
			r.fps = rv.l[0].i64s()
		}
		r.d = uint32(rv.l[1].u64())
		for _, x := range rv.l[2].l {
			r.tape = append(r.tape, uint32(x.u64()))
		}
		for _, m := range rv.l[3].l {
			r.modes = append(r.modes, m.i64s())
		}
		for _, m := range rv.l[4].l {
			r.vals = append(r.vals, m.i64s())
		}
		if len(rv.l) > 5 {
			fl := rv.l[5].i64()
			r.pause, r.cancel = fl&1 != 0, fl&2 != 0
		}
		h.rounds = append(h.rounds, r)
	}
}

func replayHist(kind, tags, args string) {
	vs := parseValues(args)
	h := &histIn{}
	for _, c := range vs[0].l {
		cc := clientCfg{en: c.l[0].i64() != 0, hasf: c.l[1].i64() != 0}
		if len(c.l) > 2 {
			cc.nts = c.l[2].i64() != 0
		}
		h.cfg = append(h.cfg, cc)
	}
	if kind == "mp.hist" {
		parseRounds(h, vs[1].l)
	} else {
		h.pather = true
		h.dstIAs = vs[1].i64s()
		h.q = vs[2].i64()
		parseRounds(h, vs[3].l)
	}
	// strip the statistics tags: they are recomputed
	runHist(baseTags(tags), h)
}

func baseTags(tags string) string {
	out := ""
	for _, t := range splitTags(tags) {
		drop := t == "" || t == "nt" || t == "oddlookup"
		for _, k := range statKeys {
			drop = drop || t == k
		}
		if !drop {
			if out != "" {
				out += ","
			}
			out += t
		}
	}
	return out
}

func splitTags(s string) []string {
	var out []string
	cur := ""
	for _, ch := range s {
		if ch == ',' {
			out = append(out, cur)
			cur = ""
		} else {
			cur += string(ch)
		}
	}
	return append(out, cur)
}

var _ = fmt.Sprint
