package c15lib

// mp.service: the time service's own wiring - loadConfig, createClocks (which starts scion.StartPather against
// the configured daemon address: first update at once, then every 15 s), ntpReferenceClockSCION.MeasureClockOffset
// (Pather.Paths, the seven clients of a reference clock) - run in a child process (the service binary built with
// -tags verif, hook SCION_TIME_VERIF_MP in /repo/timeservice_mp_verif.go) against the scripted peer of this
// process and a scripted SCION daemon that listens on a loopback gRPC address.
//
// All clients of the service use one DSCP value, so the peer cannot tell them apart: the observation of a round
// is the set of next hops that received requests and the largest number of requests one next hop received.

import (
	"bufio"
	"context"
	"fmt"
	"io"
	"net"
	"os"
	"os/exec"
	"path/filepath"
	"sort"
	"strings"
	"sync"
	"time"

	"github.com/scionproto/scion/pkg/addr"
	sdpb "github.com/scionproto/scion/pkg/proto/daemon"
	"google.golang.org/grpc"
	"google.golang.org/grpc/codes"
	"google.golang.org/grpc/status"
	"google.golang.org/protobuf/types/known/durationpb"
	"google.golang.org/protobuf/types/known/timestamppb"

	"verifharness/lib"
)

type svcPath struct {
	sock int   // socket of the peer = underlay next hop
	fp   int64 // fingerprint id (interface ids)
}

// grpcDaemon is the scripted SCION daemon.
type grpcDaemon struct {
	sdpb.UnimplementedDaemonServiceServer
	mu        sync.Mutex
	answers   map[addr.IA][]svcPath
	failAS    int            // the next failAS calls of AS fail
	served    map[addr.IA]int // Paths calls served per destination
	asCalls   int
	odd       int // lookups from another source than the local IA or without the refresh flag
}

func (d *grpcDaemon) AS(ctx context.Context, req *sdpb.ASRequest) (*sdpb.ASResponse, error) {
	d.mu.Lock()
	defer d.mu.Unlock()
	d.asCalls++
	if d.failAS > 0 {
		d.failAS--
		return nil, status.Error(codes.Unavailable, "scripted daemon: AS fails")
	}
	return &sdpb.ASResponse{IsdAs: uint64(ia), Mtu: 1472}, nil
}

func (d *grpcDaemon) Paths(ctx context.Context, req *sdpb.PathsRequest) (*sdpb.PathsResponse, error) {
	d.mu.Lock()
	defer d.mu.Unlock()
	dst := addr.IA(req.DestinationIsdAs)
	if addr.IA(req.SourceIsdAs) != ia {
		d.odd++
		return nil, status.Error(codes.InvalidArgument, "scripted daemon: not the local IA")
	}
	if !req.Refresh {
		d.odd++
	}
	d.served[dst]++
	resp := &sdpb.PathsResponse{}
	for _, p := range d.answers[dst] {
		q := (p.sock*7919 + int(p.fp)*104729) % 97
		resp.Paths = append(resp.Paths, &sdpb.Path{
			Raw: rawPath(p.sock),
			Interface: &sdpb.Interface{Address: &sdpb.Underlay{
				Address: (&net.UDPAddr{IP: thePeer.ip, Port: thePeer.ports[p.sock]}).String(),
			}},
			Interfaces: []*sdpb.PathInterface{
				{IsdAs: uint64(ia), Id: uint64(p.fp)},
				{IsdAs: uint64(ia), Id: uint64(1000 + p.fp)},
			},
			Mtu:        uint32(1200 + 8*(96-q)),
			Expiration: timestamppb.New(time.Now().Add(time.Duration(1+q) * time.Hour)),
			Latency:    []*durationpb.Duration{durationpb.New(time.Duration(1+q) * time.Millisecond)},
			Bandwidth:  []uint64{uint64(1000 * (100 - q))},
		})
	}
	return resp, nil
}

func (d *grpcDaemon) snapshot() (as int, served map[addr.IA]int) {
	d.mu.Lock()
	defer d.mu.Unlock()
	served = map[addr.IA]int{}
	for k, v := range d.served {
		served[k] = v
	}
	return d.asCalls, served
}

func repoDir() string {
	repo := os.Getenv("VERIF_REPO")
	if repo == "" {
		repo = "/repo"
	}
	return repo
}

// svcRound: one round asked of the child
type svcRound struct {
	clock int
	truth []svcPath // what the daemon last reported for that clock's IA at a refresh that has taken effect
}

type svcObs struct {
	cls    int64
	hops   []int64
	maxRq  int64
	first  []int64 // per next hop: form of the first request it received in this round (1 interleaved, 0 basic)
	recent int64   // the clock's previous round ended less than 2 s ago
}

type svcChild struct {
	cmd *exec.Cmd
	in  io.WriteCloser
	out *bufio.Scanner
}

// update asks the child to refresh its Pather at once (hook line "u"); false: the hook does not know the line
func (c *svcChild) update() bool {
	fmt.Fprintln(c.in, "u")
	for c.out.Scan() {
		if c.out.Text() == "verif-mp updated" {
			return true
		}
		if strings.HasPrefix(c.out.Text(), "verif-mp bad") {
			return false
		}
	}
	return false
}

func (c *svcChild) round(clock int, ms int) (cls int64, ok bool) {
	fmt.Fprintf(c.in, "%d %d\n", clock, ms)
	for c.out.Scan() {
		f := strings.SplitN(c.out.Text(), " ", 4)
		if len(f) == 4 && f[0] == "verif-mp" && f[1] != "ready" {
			switch {
			case f[3] == "-":
				return 0, true
			case strings.Contains(f[3], "no path"):
				return 1, true
			case strings.Contains(f[3], "no successful measurement"):
				return 4, true
			}
			return 2, true
		}
	}
	return 0, false
}

// runService writes the cases of kind mp.service; wait: also sit through two ticks of the Pather's 15 s refresh
// (the first with a daemon whose AS call fails) - thorough tier.
func runService(r *lib.Rng, wait bool) {
	repo := repoDir()
	if _, err := os.Stat(filepath.Join(repo, "timeservice_mp_verif.go")); err != nil {
		fmt.Printf("NOTE %s/timeservice_mp_verif.go not present: kind mp.service skipped\n", repo)
		return
	}
	dir, err := os.MkdirTemp("", "c15svc")
	if err != nil {
		panic(err)
	}
	defer os.RemoveAll(dir)
	bin := filepath.Join(dir, "timeservice-verif")
	build := exec.Command("go", "build", "-tags", "verif", "-o", bin, ".")
	build.Dir = repo
	if out, err := build.CombinedOutput(); err != nil {
		fmt.Printf("NOTE building the time service with -tags verif failed: %v %s\n", err, strings.ReplaceAll(string(out), "\n", " | "))
		w.Case("mp.service", "nt", lib.L(), lib.V(lib.L(lib.L(lib.I(9), lib.L(), lib.I(0))), lib.I(0)))
		return
	}

	runServiceNoDaemon(dir, bin)

	// the scripted daemon
	lis, err := net.Listen("tcp4", (&net.TCPAddr{IP: thePeer.ip, Port: 0}).String())
	if err != nil {
		panic(err)
	}
	d := &grpcDaemon{answers: map[addr.IA][]svcPath{}, served: map[addr.IA]int{}}
	srv := grpc.NewServer()
	sdpb.RegisterDaemonServiceServer(srv, d)
	go func() { _ = srv.Serve(lis) }()
	defer srv.Stop()

	// three clocks: reference clocks in the IAs 1 and 2, a peer clock in IA 1 again (the destination list of the
	// Pather is [1, 2, 1]); the paths of the two IAs use disjoint sockets
	iaOfClock := []int64{1, 2, 1}
	mk := func(first, n int) []svcPath {
		var ps []svcPath
		for i := 0; i < n; i++ {
			ps = append(ps, svcPath{sock: first + i, fp: int64(1 + (first+i)%maxFp)})
		}
		return ps
	}
	n1, n2 := lib.Pick(r, 2, 3, 7, 9, 12, 20), lib.Pick(r, 1, 2, 5, 8)
	d.answers[iaOf(1)] = mk(0, n1)
	d.answers[iaOf(2)] = mk(40, n2)
	effective := map[int64][]svcPath{1: d.answers[iaOf(1)], 2: d.answers[iaOf(2)]}

	cfg := fmt.Sprintf("local_address = \"%s,%s\"\nscion_daemon_address = \"%s\"\nntp_reference_clocks = [\"%s,%s:%d\", \"%s,%s:%d\"]\nscion_peer_clocks = [\"%s,%s:%d\"]\ndscp = 0\n",
		ia, thePeer.ip, lis.Addr().String(),
		iaOf(1), thePeer.ip, serverPort, iaOf(2), thePeer.ip, serverPort, iaOf(1), thePeer.ip, serverPort+1)
	cfgFile := filepath.Join(dir, "mp.toml")
	if err := os.WriteFile(cfgFile, []byte(cfg), 0o600); err != nil {
		panic(err)
	}
	cmd := exec.Command(bin)
	cmd.Env = append(os.Environ(), "SCION_TIME_VERIF_MP="+cfgFile)
	cmd.Stderr = io.Discard
	stdin, _ := cmd.StdinPipe()
	stdout, _ := cmd.StdoutPipe()
	if err := cmd.Start(); err != nil {
		panic(err)
	}
	ch := &svcChild{cmd: cmd, in: stdin, out: bufio.NewScanner(stdout)}
	defer func() {
		stdin.Close()
		done := make(chan struct{})
		go func() { cmd.Wait(); close(done) }()
		select {
		case <-done:
		case <-time.After(3 * time.Second):
			cmd.Process.Kill()
		}
	}()
	ready := false
	for ch.out.Scan() {
		if strings.HasPrefix(ch.out.Text(), "verif-mp ready") {
			ready = true
			break
		}
	}
	if !ready {
		fmt.Println("NOTE the time service did not come up with SCION_TIME_VERIF_MP")
		w.Case("mp.service", "nt", lib.L(), lib.V(lib.L(lib.L(lib.I(9), lib.L(), lib.I(0))), lib.I(0)))
		return
	}

	var rounds []svcRound
	var obs []svcObs
	tags := "nt"
	lastEnd := map[int]time.Time{}
	do := func(clock int) bool {
		thePeer.newRound([][]int64{nil}, len(rounds) == 0)
		begin := time.Now()
		cls, ok := ch.round(clock, 3000)
		if !ok {
			return false
		}
		time.Sleep(5 * time.Millisecond)
		thePeer.mu.Lock()
		cnt := map[int]int64{}
		firstForm := map[int]int64{}
		for j, k := range thePeer.hops[0] {
			if cnt[k] == 0 {
				firstForm[k] = thePeer.forms[0][j]
			}
			cnt[k]++
		}
		thePeer.mu.Unlock()
		o := svcObs{cls: cls}
		if t, ok := lastEnd[clock]; ok && begin.Sub(t) < 2*time.Second && time.Since(begin) < time.Second {
			o.recent = 1
		}
		lastEnd[clock] = time.Now()
		for k, n := range cnt {
			o.hops = append(o.hops, int64(k))
			if n > o.maxRq {
				o.maxRq = n
			}
		}
		sort.Slice(o.hops, func(a, b int) bool { return o.hops[a] < o.hops[b] })
		for _, k := range o.hops {
			o.first = append(o.first, firstForm[int(k)])
		}
		rounds = append(rounds, svcRound{clock: clock, truth: effective[iaOfClock[clock]]})
		obs = append(obs, o)
		return true
	}
	alive := true
	for _, c := range []int{0, 0, 1, 0, 2, 1, 0, 2, 0} {
		alive = alive && do(c)
	}
	// refreshes on demand (hook line "u"): the daemon's answer for IA 1 shrinks to some of the paths that were
	// just probed - a single survivor, a prefix, a suffix, every other one -; the clients that hold the surviving
	// paths must go on with them (interleaved requests), whatever their position in the clock's client list
	probed := func(clock int) []svcPath {
		for i := len(rounds) - 1; i >= 0; i-- {
			if rounds[i].clock == clock {
				var ps []svcPath
				for _, h := range obs[i].hops {
					for _, p := range rounds[i].truth {
						if int64(p.sock) == h {
							ps = append(ps, p)
						}
					}
				}
				return ps
			}
		}
		return nil
	}
	shrink := func(ps []svcPath, how int) []svcPath {
		if len(ps) == 0 {
			return ps
		}
		switch how {
		case 0:
			return []svcPath{ps[r.Intn(len(ps))]}
		case 1:
			return ps[:1+r.Intn(len(ps))]
		case 2:
			return ps[r.Intn(len(ps)):]
		}
		var out []svcPath
		for i := r.Intn(2); i < len(ps); i += 2 {
			out = append(out, ps[i])
		}
		return out
	}
	for step := 0; alive && step < 6; step++ {
		clock := []int{0, 2, 0, 2, 0, 2}[step]
		var next []svcPath
		if step%2 == 0 {
			next = shrink(probed(clock), (step/2+r.Intn(4))%4) // shrink to survivors
		} else {
			next = append(shrink(probed(clock), 3), mk(100+step*3, 3)...) // some stay, fresh ones appear
			for f := 20; len(next) < 9; f++ { // wide again, with sockets not yet in the answer
				dup := false
				for _, p := range next {
					dup = dup || p.sock == f
				}
				if !dup {
					next = append(next, mk(f, 1)...)
				}
			}
		}
		d.mu.Lock()
		d.answers[iaOf(1)] = next
		d.mu.Unlock()
		if !ch.update() {
			fmt.Println("NOTE the hook SCION_TIME_VERIF_MP has no refresh line \"u\": on-demand refreshes of mp.service skipped")
			d.mu.Lock()
			d.answers[iaOf(1)] = effective[1]
			d.mu.Unlock()
			break
		}
		effective[1] = next
		tags += ",shrink"
		alive = alive && do(0) && do(2) && do(clock)
	}
	if wait && alive {
		// the daemon's answers change: paths in use are withdrawn, new ones appear; the first tick meets a
		// daemon whose AS call fails (nothing may change), the second one takes the new answers over
		tags += ",ticker"
		d.mu.Lock()
		d.answers[iaOf(1)] = append(mk(2, 3), mk(60, 6)...)
		d.answers[iaOf(2)] = mk(90, 4)
		d.failAS = 1
		d.mu.Unlock()
		as0, _ := d.snapshot()
		until := func(cond func() bool, limit time.Duration) bool {
			for t0 := time.Now(); time.Since(t0) < limit; time.Sleep(100 * time.Millisecond) {
				if cond() {
					return true
				}
			}
			return false
		}
		tick1 := until(func() bool { as, _ := d.snapshot(); return as > as0 }, 17*time.Second)
		time.Sleep(300 * time.Millisecond)
		for _, c := range []int{0, 1, 2} {
			alive = alive && do(c) // still the old paths
		}
		_, s0 := d.snapshot()
		tick2 := until(func() bool {
			_, s := d.snapshot()
			return s[iaOf(1)] > s0[iaOf(1)] && s[iaOf(2)] > s0[iaOf(2)]
		}, 17*time.Second)
		time.Sleep(300 * time.Millisecond)
		if tick1 && tick2 {
			effective[1], effective[2] = d.answers[iaOf(1)], d.answers[iaOf(2)]
		} else {
			tags += ",noticker" // the refresh goroutine did not ask the daemon again: the rounds below are judged
			// against the new answers all the same
			effective[1], effective[2] = d.answers[iaOf(1)], d.answers[iaOf(2)]
		}
		for _, c := range []int{0, 1, 2, 0, 1} {
			alive = alive && do(c)
		}
	}
	if d.odd > 0 {
		tags += ",oddlookup"
	}
	// args: per round [clock [[sock fp] ...]]; outs: per round [class [next hops] most requests at one next hop]; odd lookups
	as := make([]string, len(rounds))
	os_ := make([]string, len(obs))
	for i, rd := range rounds {
		ps := make([]string, len(rd.truth))
		for j, p := range rd.truth {
			ps[j] = lib.L(lib.I(int64(p.sock)), lib.I(p.fp))
		}
		as[i] = lib.L(lib.I(int64(rd.clock)), lib.L(ps...))
		os_[i] = lib.L(lib.I(obs[i].cls), lib.IL(obs[i].hops), lib.I(obs[i].maxRq), lib.IL(obs[i].first), lib.I(obs[i].recent))
	}
	if !alive {
		os_ = append(os_, lib.L(lib.I(9), lib.L(), lib.I(0))) // the child died
	}
	w.Case("mp.service", tags, lib.L(as...), lib.V(lib.L(os_...), lib.I(int64(d.odd))))
}

// runServiceNoDaemon: a configuration without scion_daemon_address and with a reference clock in another AS
// (createClocks supports the empty daemon address: no Pather is started).  No path can be available, so every
// round has to report an error (errNoPath); a child that dies in the round - a nil Pather dereferenced - is the
// observation class 9, which the oracle rejects.  One case of kind mp.service, tag nodaemon.
func runServiceNoDaemon(dir, bin string) {
	cfg := fmt.Sprintf("local_address = \"%s,%s\"\nntp_reference_clocks = [\"%s,%s:%d\"]\nscion_peer_clocks = [\"%s,%s:%d\"]\ndscp = 0\n",
		ia, thePeer.ip, iaOf(1), thePeer.ip, serverPort, iaOf(2), thePeer.ip, serverPort)
	cfgFile := filepath.Join(dir, "nodaemon.toml")
	if err := os.WriteFile(cfgFile, []byte(cfg), 0o600); err != nil {
		panic(err)
	}
	run := func(clock int) int64 {
		// a fresh child per round: a child that died cannot be asked again
		cmd := exec.Command(bin)
		cmd.Env = append(os.Environ(), "SCION_TIME_VERIF_MP="+cfgFile)
		cmd.Stderr = io.Discard
		stdin, _ := cmd.StdinPipe()
		stdout, _ := cmd.StdoutPipe()
		if err := cmd.Start(); err != nil {
			panic(err)
		}
		ch := &svcChild{cmd: cmd, in: stdin, out: bufio.NewScanner(stdout)}
		cls := int64(9)
		for ch.out.Scan() {
			if strings.HasPrefix(ch.out.Text(), "verif-mp ready") {
				thePeer.newRound([][]int64{nil}, true)
				if c, ok := ch.round(clock, 500); ok {
					cls = c
				}
				break
			}
		}
		stdin.Close()
		done := make(chan struct{})
		go func() { cmd.Wait(); close(done) }()
		select {
		case <-done:
		case <-time.After(3 * time.Second):
			cmd.Process.Kill()
		}
		return cls
	}
	var as, os_ []string
	for _, clock := range []int{0, 1} { // the reference clock and the peer clock
		cls := run(clock)
		thePeer.mu.Lock()
		var hops []int64
		for _, k := range thePeer.hops[0] {
			hops = append(hops, int64(k))
		}
		thePeer.mu.Unlock()
		as = append(as, lib.L(lib.I(int64(clock)), lib.L()))
		os_ = append(os_, lib.L(lib.I(cls), lib.IL(hops), lib.I(0), lib.IL(make([]int64, len(hops))), lib.I(0)))
	}
	w.Case("mp.service", "nt,nodaemon", lib.L(as...), lib.V(lib.L(os_...), lib.I(0)))
}
