// C15: drives base/crypto (RandIntn, Sample) on scripted random tapes and the
// real client.MeasureClockOffsetSCION with real SCIONClients against a
// scripted SCION NTP peer on loopback (one UDP socket per offered path), with
// crypto/rand.Reader replaced by a scripted tape and a recording filter per
// client.
package c15lib

import (
	"context"
	"fmt"
	"math"
	"os"
	"os/exec"
	"sort"
	"strings"

	"example.com/scion-time/base/crypto"

	"verifharness/lib"
)

var w *lib.Writer

// forceNTS: every history has NTS clients and at least two clients (race detector run)
var forceNTS bool

func genVals(r *lib.Rng) []int64 {
	out := make([]int64, 3)
	base := r.Range(-1000000, 1000000)
	for i := range out {
		switch r.Intn(10) {
		case 0:
			out[i] = math.MinInt64 + r.Range(0, 2)
		case 1:
			out[i] = math.MaxInt64 - r.Range(0, 2)
		case 2:
			out[i] = r.I64()
		case 3:
			out[i] = 0
		case 4:
			out[i] = base // equal offsets in one round
		default:
			out[i] = base + r.Range(-5000, 5000)
		}
	}
	return out
}

func genModes(r *lib.Rng) []int64 {
	switch r.Intn(12) {
	case 0:
		return []int64{1, 1, 1}
	case 1:
		return []int64{2, 2, 2}
	case 2, 3:
		return []int64{int64(r.Intn(3)), int64(r.Intn(3)), int64(r.Intn(3))}
	case 4:
		return []int64{0, 2, 0}
	default:
		return []int64{0, 0, 0}
	}
}

func genClients(r *lib.Rng, h *histIn, small bool) int {
	var nc int
	switch x := r.Intn(40); {
	case x == 0:
		nc = 0
	case x <= 18:
		nc = 1 + r.Intn(3)
	case x <= 34 || small:
		nc = 4 + r.Intn(5)
	default:
		nc = 9 + r.Intn(maxClients-8) // many clients
	}
	if forceNTS && nc < 2 {
		nc = 2 + r.Intn(4)
	}
	allEn := r.Intn(3) != 0
	ntsHist := forceNTS || r.Intn(6) == 0
	for i := 0; i < nc; i++ {
		h.cfg = append(h.cfg, clientCfg{
			en:   allEn || r.Intn(4) != 0,
			hasf: r.Intn(5) != 0,
			nts:  ntsHist && (forceNTS && i < 2 || r.Intn(2) == 0),
		})
	}
	return nc
}

// fingerprint ids 0..alpha-1: a small alphabet gives equal fingerprints
func genAlpha(r *lib.Rng) int64 {
	if r.Intn(4) == 0 {
		return int64(1 + r.Intn(maxFp+1))
	}
	return int64(1 + r.Intn(8))
}

func evolve(r *lib.Rng, cur []int64, newFp func() int64, wide bool) []int64 {
	switch r.Intn(10) {
	case 0:
		return nil // everything withdrawn
	case 1, 2:
		return cur
	}
	var nxt []int64
	for _, f := range cur {
		if r.Intn(4) != 0 {
			nxt = append(nxt, f)
		}
	}
	add := r.Intn(4)
	if wide {
		add = r.Intn(30)
	}
	for i := add; i > 0; i-- {
		nxt = append(nxt, newFp())
	}
	if len(nxt) > 0 && r.Intn(8) == 0 {
		nxt = append(nxt, nxt[r.Intn(len(nxt))]) // a second path with the same fingerprint
	}
	if r.Intn(5) == 0 {
		for i := len(nxt) - 1; i > 0; i-- {
			j := r.Intn(i + 1)
			nxt[i], nxt[j] = nxt[j], nxt[i]
		}
	}
	return nxt
}

func genTape(r *lib.Rng, npaths int) []uint32 {
	var tape []uint32
	nw := r.Intn(npaths + 3)
	for j := 0; j < nw; j++ {
		if r.Intn(3) == 0 {
			tape = append(tape, uint32(r.U64()))
		} else {
			tape = append(tape, wordFor(r, uint64(1+r.Intn(npaths+1))))
		}
	}
	return tape
}

// budgets of the expensive rounds of one run (a silent path costs the round's 0.4 s context, a pause 3.3 s)
var silentBudget, pauseBudget int

// idleWork does a chunk of other generation work while a history pauses; false: nothing left
var idleWork = func() bool { return false }

func genPeer(r *lib.Rng, h *histIn, rd *roundIn) {
	for range h.cfg {
		rd.modes = append(rd.modes, genModes(r))
		rd.vals = append(rd.vals, genVals(r))
	}
	if len(h.cfg) > 0 && silentBudget > 0 && r.Intn(40) == 0 {
		// one or two paths do not answer (at the first, second or third request of their client)
		silentBudget--
		for n := 1 + r.Intn(2); n > 0; n-- {
			i := r.Intn(len(h.cfg))
			// (not after an accepted reply: a client that has measured and then waits on a silent path is cut off
			// by the end of the context or not, whichever the scheduler picks - C15_ftm_cut covers every cut)
			rd.modes[i] = lib.Pick(r, []int64{3, 0, 0}, []int64{3, 3, 3}, []int64{2, 3, 0}, []int64{2, 2, 3}, []int64{2, 3, 3})
		}
	}
	if !forceNTS && r.Intn(40) == 0 {
		// the context is already cancelled: RandIntn gives up at the first rejected word (0 is rejected for every
		// bound); with another first word the round may get past the sampling
		rd.cancel = true
		for _, ms := range rd.modes {
			for j := range ms {
				if ms[j] == 3 {
					ms[j] = 2 // without a deadline a client would wait for a silent path for ever
				}
			}
		}
		if r.Intn(10) != 0 {
			rd.tape = append([]uint32{0}, rd.tape...)
		}
	}
}

// genPauseHist: two to five clients in interleaved mode on paths with pairwise distinct fingerprints enter
// interleaved mode in the first rounds; then more than 3 s pass; in the rounds after the pause most paths are
// still offered (the clients must keep them, without a reset, and start with a basic-mode request), some are not
func genPauseHist(r *lib.Rng) *histIn {
	h := &histIn{}
	nc := 2 + r.Intn(4)
	for i := 0; i < nc; i++ {
		h.cfg = append(h.cfg, clientCfg{en: r.Intn(8) != 0, hasf: r.Intn(4) != 0})
	}
	var cur []int64
	for f := int64(1); f <= int64(nc+r.Intn(3)); f++ {
		cur = append(cur, f)
	}
	nr := 3 + r.Intn(3)
	pauseAt := 2 + r.Intn(nr-2)
	for ri := 0; ri < nr; ri++ {
		if ri == pauseAt && r.Intn(2) == 0 && len(cur) > 1 {
			cur = append([]int64(nil), cur[1:]...) // one path is withdrawn during the pause
		}
		var rd roundIn
		rd.fps = append([]int64(nil), cur...)
		rd.d = 0xFFFFFFFF
		rd.tape = genTape(r, len(cur))
		for range h.cfg {
			if ri < pauseAt || r.Intn(4) != 0 {
				rd.modes = append(rd.modes, []int64{0, 0, 0})
			} else {
				rd.modes = append(rd.modes, genModes(r))
			}
			rd.vals = append(rd.vals, genVals(r))
		}
		rd.pause = ri == pauseAt
		h.rounds = append(h.rounds, rd)
	}
	return h
}

// the number of paths offered at the start: around the number of clients, or far more (40, 100, up to 128)
func genWidth(r *lib.Rng, nc int) (int, bool) {
	switch r.Intn(10) {
	case 0:
		return lib.Pick(r, 13, 40, 100, maxPaths, 13+r.Intn(maxPaths-12)), true
	case 1:
		return nc + 4 + r.Intn(12), true
	}
	return r.Intn(nc + 4), false
}

func genHist(r *lib.Rng) *histIn {
	h := &histIn{}
	nc := genClients(r, h, false)
	alpha := genAlpha(r)
	newFp := func() int64 {
		if r.Intn(6) == 0 {
			return 0 // the metadata-less path
		}
		return r.Range(0, alpha-1)
	}
	var cur []int64
	n0, wide := genWidth(r, nc)
	for i := n0; i > 0; i-- {
		cur = append(cur, newFp())
	}
	nr := 2 + r.Intn(9)
	for ri := 0; ri < nr; ri++ {
		if ri > 0 {
			cur = evolve(r, cur, newFp, wide)
		}
		if len(cur) > maxPaths {
			cur = cur[:maxPaths]
		}
		var rd roundIn
		rd.fps = append([]int64(nil), cur...)
		rd.d = 0xFFFFFFFF
		rd.tape = genTape(r, len(cur))
		genPeer(r, h, &rd)
		h.rounds = append(h.rounds, rd)
	}
	return h
}

// genPather: the paths of every round are what a scion.Pather returns, which is refreshed between rounds from
// a scripted daemon; dup: an IA is listed more than once among the Pather's destinations (two servers or peers
// in the same AS)
func genPather(r *lib.Rng, dup bool) *histIn {
	h := &histIn{pather: true}
	nc := genClients(r, h, true)
	nia := 1 + r.Intn(4)
	perm := []int64{1, 2, 3, 4, 5}
	for i := len(perm) - 1; i > 0; i-- {
		j := r.Intn(i + 1)
		perm[i], perm[j] = perm[j], perm[i]
	}
	h.dstIAs = append(h.dstIAs, perm[:nia]...)
	h.q = h.dstIAs[r.Intn(nia)]
	if dup {
		// the server's IA or another destination is listed again (once or twice), anywhere in the list
		v := h.q
		if r.Intn(2) == 0 {
			v = h.dstIAs[r.Intn(nia)]
		}
		for i := 1 + r.Intn(2); i > 0; i-- {
			k := r.Intn(len(h.dstIAs) + 1)
			h.dstIAs = append(h.dstIAs[:k], append([]int64{v}, h.dstIAs[k:]...)...)
		}
	} else if r.Intn(12) == 0 {
		h.q = perm[4] // the server's IA is not among the destinations (nia <= 4)
	}
	alpha := genAlpha(r)
	newFp := func() int64 {
		if r.Intn(8) == 0 {
			return 0
		}
		return r.Range(0, alpha-1)
	}
	cur := map[int64][]int64{}
	wide := map[int64]bool{}
	for _, d := range perm {
		n0, w := genWidth(r, nc)
		if w && d != h.q && r.Intn(3) != 0 {
			n0, w = r.Intn(5), false
		}
		wide[d] = w
		for i := n0; i > 0; i-- {
			cur[d] = append(cur[d], newFp())
		}
	}
	nr := 2 + r.Intn(9)
	for ri := 0; ri < nr; ri++ {
		var rd roundIn
		npaths := 0
		if (ri == 0 && r.Intn(12) != 0) || (ri > 0 && r.Intn(3) != 0) {
			rf := &refreshIn{liaOK: r.Intn(10) != 0}
			total := 0
			for _, d := range perm {
				listed := false
				for _, x := range h.dstIAs {
					listed = listed || x == d
				}
				if !listed && r.Intn(4) != 0 {
					continue // the daemon is not asked for this IA anyway
				}
				if ri > 0 {
					cur[d] = evolve(r, cur[d], newFp, wide[d])
				}
				lim := maxPaths - total
				if d != h.q && lim > 20 {
					lim = 20
				}
				if len(cur[d]) > lim {
					cur[d] = cur[d][:lim]
				}
				total += len(cur[d])
				rf.answers = append(rf.answers, answerIn{ia: d, ok: r.Intn(10) != 0, fps: append([]int64(nil), cur[d]...)})
			}
			rd.refresh = rf
		}
		npaths = len(cur[h.q])
		if dup {
			npaths *= 3
		}
		rd.d = 0xFFFFFFFF
		rd.tape = genTape(r, npaths)
		genPeer(r, h, &rd)
		h.rounds = append(h.rounds, rd)
	}
	return h
}

// Main is the command c15 (race = false) and the command c15race (race = true: built with -race; histories with
// NTS clients only, run in a child process so that a report of the race detector is an observation).
func Main(race bool) {
	a := lib.ParseArgs()
	if race && os.Getenv("C15RACE_CHILD") == "" {
		raceParent(a)
		return
	}
	w = lib.NewWriter(a.Out)
	defer w.Close()
	setupHist()
	if a.Replay != "" {
		for _, l := range lib.ReplayLines(a.Replay) {
			if replayRand(l[0], l[1], l[2]) {
				continue
			}
			if l[0] == "mp.hist" || l[0] == "mp.pather" || l[0] == "mp.pather.dupia" {
				replayHist(l[0], l[1], l[2])
			}
			if l[0] == "stat.uniform" {
				replayStat(l[2])
			}
			if l[0] == "mp.collect" {
				replayCollect(l[1], l[2])
			}
		}
		return
	}
	r := lib.NewRng(a.Seed)
	if os.Getenv("C15_ONLY") == "service" { // development aid
		runService(r.Fork(), a.Tier == "thorough")
		return
	}
	nIntn, nSample, nHist, nPather, nDup := 30000, 10000, 2400, 1200, 150
	if a.Tier == "thorough" {
		nIntn, nSample, nHist, nPather, nDup = 300000, 100000, 30000, 15000, 1500
	}
	silentBudget, pauseBudget = 16, 2
	if a.Tier == "thorough" {
		silentBudget, pauseBudget = 300, 24
	}
	if race {
		silentBudget, pauseBudget = 0, 0
		forceNTS = true
		nIntn, nSample, nHist, nPather, nDup = 0, 0, raceHists(a.Tier), raceHists(a.Tier)/4, 0
	}
	// the single draws and samples are generated in chunks: first during the pauses of the pause histories
	// (nothing else runs then), the rest afterwards
	ir, sr := r.Fork(), r.Fork()
	idleWork = func() bool {
		switch {
		case nIntn > 0:
			n := min(nIntn, 400)
			genIntn(ir, n)
			nIntn -= n
		case nSample > 0:
			n := min(nSample, 200)
			genSample(sr, n)
			nSample -= n
		default:
			return false
		}
		return true
	}
	hr := r.Fork()
	for i := 0; i < pauseBudget && deadlineHits < 2; i++ {
		runHist("", genPauseHist(hr))
	}
	for idleWork() {
	}
	for i := 0; i < nHist && deadlineHits < 2; i++ {
		runHist("", genHist(hr))
	}
	pr := r.Fork()
	for i := 0; i < nPather && deadlineHits < 2; i++ {
		runHist("", genPather(pr, false))
	}
	dr := r.Fork()
	for i := 0; i < nDup && deadlineHits < 2; i++ {
		runHist("", genPather(dr, true))
	}
	if !race {
		nc := 2000
		if a.Tier == "thorough" {
			nc = 20000
		}
		genCollect(r.Fork(), nc)
		genStat()
		runService(r.Fork(), a.Tier == "thorough")
	}
	nd := 0
	for e, n := range disturbed {
		nd += n
		fmt.Printf("NOTE %d rounds not recorded because an exchange failed with an error the scripted peer does not cause: %s\n", n, e)
	}
	if nd*50 > roundsRun+50 {
		fmt.Printf("too many disturbed rounds: %d of %d\n", nd, roundsRun)
		w.Close()
		os.Exit(3)
	}
	if !race {
		checkCoverage()
	}
	fmt.Printf("NOTE authenticated NTS requests answered by the peer=%d\n", thePeer.ntsOK)
	fmt.Printf("NOTE histories=%d rounds dropped because their history was already more than 2 s old=%d histories dropped entirely=%d rounds that ran into their 10 s context deadline=%d malformed datagrams at the peer=%d rounds with a silent path dropped because the machine was slow=%d\n",
		nHist+nPather+nDup, slowRounds, abandoned, deadlineHits, thePeer.bad, slowSilent)
}

func raceHists(tier string) int {
	if tier == "thorough" {
		return 600
	}
	return 80
}

// raceParent runs this binary again as a child under the race detector (first report ends the child) and
// writes the child's cases plus one case mp.race: args = number of histories asked for, outs = 1 if the race
// detector reported a data race (0 otherwise) and 1 if the child ended abnormally otherwise.
func raceParent(a lib.Args) {
	childOut := a.Out + ".child"
	cmd := exec.Command(os.Args[0], "-tier", a.Tier, "-seed", fmt.Sprint(a.Seed), "-out", childOut)
	cmd.Env = append(os.Environ(), "C15RACE_CHILD=1", "GORACE=halt_on_error=1 exitcode=66")
	var stderr strings.Builder
	cmd.Stderr = &stderr
	cmd.Stdout = os.Stdout
	err := cmd.Run()
	raced, crashed := 0, 0
	if strings.Contains(stderr.String(), "WARNING: DATA RACE") {
		raced = 1
		lines := strings.Split(stderr.String(), "\n")
		if len(lines) > 14 {
			lines = lines[:14]
		}
		fmt.Printf("NOTE race detector: %s\n", strings.Join(lines, " | "))
	} else if err != nil {
		crashed = 1
		tail := stderr.String()
		if len(tail) > 600 {
			tail = tail[len(tail)-600:]
		}
		fmt.Printf("NOTE race run: child ended with %v: %s\n", err, strings.ReplaceAll(tail, "\n", " | "))
	}
	w = lib.NewWriter(a.Out)
	defer w.Close()
	if raced == 0 && crashed == 0 {
		copyCases(childOut)
	}
	os.Remove(childOut)
	n := raceHists(a.Tier)
	w.Case("mp.race", "nt", lib.V(lib.I(int64(n)), lib.I(int64(n/4)), lib.I(int64(a.Seed))), lib.V(lib.I(int64(raced)), lib.I(int64(crashed))))
}

// copyCases re-emits the case lines of a case file written by the child.
func copyCases(path string) {
	b, err := os.ReadFile(path)
	if err != nil {
		return
	}
	for _, line := range strings.Split(string(b), "\n") {
		f := strings.Split(line, "\t")
		if len(f) == 4 && !strings.HasPrefix(line, "#") {
			w.Case(f[0], f[1], f[2], f[3])
		}
	}
}

// ---- coverage floors ----
// kindCount / tagCount: histories written per kind and per (kind, tag).  A slow machine makes the harness drop
// rounds (2 s limit of a history): the clauses would go unexercised while the case counts stay up.  The run
// fails instead.
var kindCount = map[string]int{}
var tagCount = map[string]int{}

func countTags(kind, tags string) {
	kindCount[kind]++
	for _, t := range splitTags(tags) {
		if t != "" {
			tagCount[kind+":"+t]++
		}
	}
}

func checkCoverage() {
	floors := []struct {
		kind, tag string
		pct       int
	}{
		{"mp.hist", "keep", 50}, {"mp.hist", "ilvreset", 30}, {"mp.hist", "drawn", 40}, {"mp.hist", "nt", 20},
		{"mp.hist", "nofiltilv", 15}, {"mp.hist", "manypaths", 5}, {"mp.hist", "fewpaths", 30}, {"mp.hist", "nts", 5},
		{"mp.pather", "refresh", 80}, {"mp.pather", "keep", 35}, {"mp.pather", "ilvreset", 20}, {"mp.pather", "gone", 25},
		{"mp.pather", "nt", 10}, {"mp.pather.dupia", "refresh", 80}, {"mp.pather.dupia", "keep", 35},
	}
	bad := ""
	for _, f := range floors {
		n, c := kindCount[f.kind], tagCount[f.kind+":"+f.tag]
		if n > 0 && c*100 < n*f.pct {
			bad += fmt.Sprintf(" %s:%s=%d/%d(<%d%%)", f.kind, f.tag, c, n, f.pct)
		}
	}
	for _, t := range []string{"silent", "cancel", "ctxerr", "pause", "keepold"} {
		if tagCount["mp.hist:"+t]+tagCount["mp.pather:"+t] == 0 {
			bad += " no history with tag " + t
		}
	}
	total := kindCount["mp.hist"] + kindCount["mp.pather"] + kindCount["mp.pather.dupia"]
	if (slowRounds+abandoned+slowSilent)*20 > total {
		bad += fmt.Sprintf(" %d histories cut short because the machine is too slow (of %d)", slowRounds+abandoned+slowSilent, total)
	}
	if bad != "" {
		fmt.Printf("coverage collapsed:%s\n", bad)
		w.Close()
		os.Exit(4)
	}
}

// ---- stat.uniform: a statistical test on the real crypto/rand (not a proof) ----
// args: what (0 = Sample, subsets in lexicographic order; 1 = RandIntn) k n N; outs: the count of every outcome
func genStat() {
	statSample(1, 6, 20000)
	statSample(2, 5, 20000)
	statSample(3, 7, 42000)
	statIntn(6, 20000)
}

func subsetsOf(k, n int) [][]int {
	var out [][]int
	var rec func(start int, cur []int)
	rec = func(start int, cur []int) {
		if len(cur) == k {
			out = append(out, append([]int(nil), cur...))
			return
		}
		for i := start; i < n; i++ {
			rec(i+1, append(cur, i))
		}
	}
	rec(0, nil)
	return out
}

func statSample(k, n, total int) {
	idx := map[string]int{}
	subs := subsetsOf(k, n)
	for i, s := range subs {
		idx[fmt.Sprint(s)] = i
	}
	counts := make([]int64, len(subs))
	for t := 0; t < total; t++ {
		res := make([]int, k)
		_, err := crypto.Sample(context.Background(), k, n, func(dst, src int) { res[dst] = src })
		if err != nil {
			continue
		}
		sort.Ints(res)
		if i, ok := idx[fmt.Sprint(res)]; ok {
			counts[i]++
		}
	}
	w.Case("stat.uniform", "nt", lib.V(lib.I(0), lib.I(int64(k)), lib.I(int64(n)), lib.I(int64(total))), lib.IL(counts))
}

func statIntn(n, total int) {
	counts := make([]int64, n)
	for t := 0; t < total; t++ {
		v, err := crypto.RandIntn(context.Background(), n)
		if err == nil && v >= 0 && v < n {
			counts[v]++
		}
	}
	w.Case("stat.uniform", "nt", lib.V(lib.I(1), lib.I(0), lib.I(int64(n)), lib.I(int64(total))), lib.IL(counts))
}

func replayStat(args string) {
	vs := parseValues(args)
	if vs[0].i64() == 0 {
		statSample(vs[1].int(), vs[2].int(), vs[3].int())
	} else {
		statIntn(vs[2].int(), vs[3].int())
	}
}
