// Package c02lib: the case recorders and generators of the C02 check (timemath.{Midpoint,Median,
// FaultTolerantMidpoint,Sgn,Inv} and measurements.{Median,FaultTolerantMidpoint}), shared by cmd/c02 and
// cmd/c02race.  Every recorder runs the real function and returns the case line; nothing here touches shared
// state, so recorders may run concurrently.
package c02lib

import (
	"errors"
	"math"
	"math/big"
	"strings"
	"sync"
	"time"

	"example.com/scion-time/base/timemath"
	"example.com/scion-time/core/measurements"

	"verifharness/lib"
)

// Line is one case of the case file.
type Line struct{ Kind, Tags, Args, Outs string }

const Lim = int64(1) << 62

// seconds from January 1, year 1 to January 1, 1970 (time.UnixToInternal)
const UnixToInternal = int64(62135596800)

func durs(xs []int64) []time.Duration {
	d := make([]time.Duration, len(xs))
	for i, x := range xs {
		d[i] = time.Duration(x)
	}
	return d
}

func fmtDurs(d []time.Duration) string {
	s := make([]string, len(d))
	for i, x := range d {
		s[i] = lib.I(int64(x))
	}
	return lib.L(s...)
}

func nontrivial(vs, tags []int64) bool {
	if len(vs) < 4 {
		return false
	}
	lo, hi := int64(math.MaxInt64), int64(math.MinInt64)
	nb := 0
	for i, v := range vs {
		if tags[i] != 0 {
			if v < lo {
				lo = v
			}
			if v > hi {
				hi = v
			}
		} else {
			nb++
		}
	}
	if nb == 0 || nb > (len(vs)-1)/3 {
		return false
	}
	for i, v := range vs {
		if tags[i] == 0 && (v < lo || v > hi) {
			return true
		}
	}
	return false
}

func isFtm(kind string) bool { return len(kind) >= 3 && kind[:3] == "ftm" }

// extraCap is the number of elements the backing array of the slice handed to the implementation has beyond
// len (0..4, a function of the input so that a replay reproduces it): the project calls the functions on
// ms[:n] of a longer slice; what lies between len and cap belongs to the caller and must stay untouched.
func extraCap(n int, first int64) int {
	return int((uint64(n)*7 + uint64(first)) % 5)
}

const tailBase = math.MinInt64 + 7 // sentinels sort before every value: sorting ds[:cap(ds)] would move them in

func DurLine(kind string, vs, tags []int64) Line {
	n := len(vs)
	first := int64(0)
	if n > 0 {
		first = vs[0]
	}
	extra := extraCap(n, first)
	backing := make([]time.Duration, n+extra)
	for i, x := range vs {
		backing[i] = time.Duration(x)
	}
	for i := n; i < n+extra; i++ {
		backing[i] = time.Duration(tailBase + int64(i-n))
	}
	d := backing[:n]
	pan := false
	var res time.Duration
	func() {
		defer func() {
			if recover() != nil {
				pan = true
			}
		}()
		if isFtm(kind) {
			res = timemath.FaultTolerantMidpoint(d)
		} else {
			res = timemath.Median(d)
		}
	}()
	tail := true
	for i := n; i < n+extra; i++ {
		if backing[i] != time.Duration(tailBase+int64(i-n)) {
			tail = false
		}
	}
	t := ""
	if nontrivial(vs, tags) {
		t = "nt"
		if (len(vs)-1)/3 > 0 && countBad(tags) == (len(vs)-1)/3 {
			t += ",fmax"
		}
	}
	if extra > 0 {
		if t != "" {
			t += ","
		}
		t += "cap"
	}
	after := fmtDurs(d)
	if pan {
		after = "[]"
	}
	return Line{kind, t, lib.V(lib.IL(vs), lib.IL(tags)), lib.V(lib.Bool(pan), lib.I(int64(res)), after, lib.Bool(tail))}
}

func countBad(tags []int64) int {
	n := 0
	for _, t := range tags {
		if t == 0 {
			n++
		}
	}
	return n
}

func Shuffled(r *lib.Rng, vs []int64) []int64 {
	p := append([]int64(nil), vs...)
	for i := len(p) - 1; i > 0; i-- {
		j := r.Intn(i + 1)
		p[i], p[j] = p[j], p[i]
	}
	return p
}

func PermLine(vs, p []int64) (Line, bool) {
	if len(vs) == 0 {
		return Line{}, false
	}
	f1 := timemath.FaultTolerantMidpoint(durs(vs))
	m1 := timemath.Median(durs(vs))
	f2 := timemath.FaultTolerantMidpoint(durs(p))
	m2 := timemath.Median(durs(p))
	t := ""
	if len(vs) >= 4 {
		t = "nt"
	}
	return Line{"ftm.perm", t, lib.V(lib.IL(vs), lib.IL(p)), lib.V(lib.I(int64(f1)), lib.I(int64(m1)), lib.I(int64(f2)), lib.I(int64(m2)))}, true
}

// A measurement as it crosses the boundary: sec = seconds since January 1, year 1 (the ext field of a
// wall-clock time.Time, any int64), nsec = nanoseconds within the second, off = Offset, err = (Error != nil).
type Mrec struct {
	Sec, Nsec, Off int64
	Err            bool
}

var someErr = errors.New("measurement failed")

// mkTime builds the time.Time with the given internal seconds and nanoseconds the way the project obtains its
// timestamps (time.Unix(..).UTC(): no monotonic reading); (0, 0) is the zero time.Time{}.
func mkTime(sec, nsec int64) time.Time {
	if sec == 0 && nsec == 0 {
		return time.Time{}
	}
	return time.Unix(sec-UnixToInternal, nsec).UTC() // int64 subtraction wraps; unixTime adds the constant back
}

func obsTime(t time.Time) (int64, int64) {
	return t.Unix() + UnixToInternal, int64(t.Nanosecond())
}

func absNs(sec, nsec int64) *big.Int {
	x := new(big.Int).Mul(big.NewInt(sec), big.NewInt(1000000000))
	return x.Add(x, big.NewInt(nsec))
}

func fmtMeas(ms []measurements.Measurement) string {
	s := make([]string, len(ms))
	for i, m := range ms {
		sec, nsec := obsTime(m.Timestamp)
		s[i] = lib.L(lib.I(sec), lib.I(nsec), lib.I(int64(m.Offset)), lib.Bool(m.Error != nil))
	}
	return lib.L(s...)
}

var tailErr = errors.New("beyond len")

func tailMeas(i int) measurements.Measurement {
	return measurements.Measurement{Timestamp: time.Unix(12345, int64(i)).UTC(), Offset: time.Duration(tailBase + int64(i)), Error: tailErr}
}

func mkMeas(in []Mrec, extra int) (backing, ms []measurements.Measurement, anyErr bool) {
	n := len(in)
	backing = make([]measurements.Measurement, n+extra)
	for i, m := range in {
		backing[i] = measurements.Measurement{Timestamp: mkTime(m.Sec, m.Nsec), Offset: time.Duration(m.Off)}
		if m.Err {
			backing[i].Error = someErr
			anyErr = true
		}
	}
	for i := n; i < n+extra; i++ {
		backing[i] = tailMeas(i - n)
	}
	return backing, backing[:n], anyErr
}

func fmtOne(m measurements.Measurement) string {
	sec, nsec := obsTime(m.Timestamp)
	return lib.L(lib.I(sec), lib.I(nsec), lib.I(int64(m.Offset)), lib.Bool(m.Error != nil))
}

func MeasLine(kind string, in []Mrec, tags []int64) Line {
	first := int64(0)
	if len(in) > 0 {
		first = in[0].Off
	}
	extra := extraCap(len(in), first)
	backing, ms, anyErr := mkMeas(in, extra)
	before := fmtMeas(ms)
	pan := false
	var res measurements.Measurement
	func() {
		defer func() {
			if recover() != nil {
				pan = true
			}
		}()
		if isFtm(kind) {
			res = measurements.FaultTolerantMidpoint(ms)
		} else {
			res = measurements.Median(ms)
		}
	}()
	tail := true
	for i := len(in); i < len(backing); i++ {
		w := tailMeas(i - len(in))
		if !backing[i].Timestamp.Equal(w.Timestamp) || backing[i].Offset != w.Offset || backing[i].Error != w.Error {
			tail = false
		}
	}
	vs := make([]int64, len(in))
	for i, m := range in {
		vs[i] = m.Off
	}
	nt := nontrivial(vs, tags) || len(in) >= 4 && anyErr
	var tg []string
	n := len(ms)
	if !pan && n > 0 {
		// the two selected measurements, read off the slice as the implementation left it
		i, j := (n-1)/3, n-1-(n-1)/3
		if !isFtm(kind) {
			if n%2 == 0 {
				i, j = n/2-1, n/2
			} else {
				i, j = n/2, n/2
			}
		}
		x, y := ms[i], ms[j]
		xs, xn := obsTime(x.Timestamp)
		ys, yn := obsTime(y.Timestamp)
		d := new(big.Int).Sub(absNs(xs, xn), absNs(ys, yn))
		if d.Abs(d).Cmp(big.NewInt(math.MaxInt64)) > 0 {
			tg = append(tg, "sat") // Time.Sub saturates on the selected pair
			nt = true
		}
		if i != j && (x.Timestamp.IsZero() || y.Timestamp.IsZero()) {
			tg = append(tg, "zero")
			nt = true
		}
		if i != j && x.Timestamp.Equal(y.Timestamp) && x.Offset != y.Offset {
			tg = append(tg, "eqts")
			nt = true
		}
		if x.Error != nil || y.Error != nil {
			tg = append(tg, "errsel") // an errored measurement is selected: the result's Error must still be nil
		}
		if i > 0 && ms[i-1].Offset == x.Offset || j+1 < n && ms[j+1].Offset == y.Offset || i != j && x.Offset == y.Offset {
			tg = append(tg, "tie") // which record is selected is the unstable sort's choice
		}
	}
	if extra > 0 {
		tg = append(tg, "cap")
	}
	t := ""
	if nt {
		t = "nt"
	}
	for _, s := range tg {
		if t != "" {
			t += ","
		}
		t += s
	}
	after := fmtMeas(ms)
	resS := lib.L("0", "0", "0", "0")
	if !pan {
		resS = fmtOne(res)
	} else {
		after = "[]"
	}
	return Line{kind, t, lib.V(before, lib.IL(tags)), lib.V(lib.Bool(pan), resS, after, lib.Bool(tail))}
}

// MeasPermLine runs FaultTolerantMidpoint and Median on the measurements and on a permuted copy (perm[i] = index
// into in) and records the four results.  kind ftm.meas.perm: offset / nil error equal, timestamps equal when
// the offsets are pairwise distinct; kind ftm.meas.tieorder: the four results compared as the property text
// says ("independent of the order of the inputs"), timestamps included.
func MeasPermLine(kind string, in []Mrec, perm []int64) (Line, bool) {
	if len(in) == 0 {
		return Line{}, false
	}
	in2 := make([]Mrec, len(in))
	for i, p := range perm {
		in2[i] = in[p]
	}
	run := func(src []Mrec, ftm bool) measurements.Measurement {
		_, ms, _ := mkMeas(src, 0)
		if ftm {
			return measurements.FaultTolerantMidpoint(ms)
		}
		return measurements.Median(ms)
	}
	_, a, _ := mkMeas(in, 0)
	_, b, _ := mkMeas(in2, 0)
	f1, f2, m1, m2 := run(in, true), run(in2, true), run(in, false), run(in2, false)
	seen := map[int64]bool{}
	tie := false
	for _, m := range in {
		if seen[m.Off] {
			tie = true
		}
		seen[m.Off] = true
	}
	t := ""
	if len(in) >= 3 {
		t = "nt"
	}
	add := func(x string) {
		if t != "" {
			t += ","
		}
		t += x
	}
	if tie {
		add("tie")
	}
	if !f1.Timestamp.Equal(f2.Timestamp) || !m1.Timestamp.Equal(m2.Timestamp) {
		add("tsdiff") // the combined timestamp did depend on the order of the inputs
	}
	return Line{kind, t, lib.V(fmtMeas(a), fmtMeas(b)), lib.V(fmtOne(f1), fmtOne(f2), fmtOne(m1), fmtOne(m2))}, true
}

// UTCLine checks the assumption of the time model on the running toolchain: time.Now() carries a monotonic
// reading ("m=" in its String()), time.Now().UTC() does not.
func UTCLine() Line {
	mono := strings.Contains(time.Now().UTC().String(), " m=")
	t := ""
	if strings.Contains(time.Now().String(), " m=") {
		t = "nt"
	}
	return Line{"ftm.meas.utc", t, "", lib.Bool(mono)}
}

func MidLine(x, y int64) Line {
	r := int64(timemath.Midpoint(time.Duration(x), time.Duration(y)))
	in := func(v int64) bool { return v > -Lim && v < Lim }
	if in(x) && in(y) {
		t := ""
		if x != y {
			t = "nt"
		}
		return Line{"ftm.midpoint", t, lib.V(lib.I(x), lib.I(y)), lib.I(r)}
	}
	// outside the property's bound: compared with the model only
	t := "nt"
	d := new(big.Int).Sub(big.NewInt(y), big.NewInt(x))
	if !d.IsInt64() {
		t += ",wrap" // y-x does not fit int64
	}
	return Line{"ftm.midpoint.beyond", t, lib.V(lib.I(x), lib.I(y)), lib.I(r)}
}

func SgnInvLine(z int64) Line {
	return Line{"ftm.sgninv", "", lib.I(z), lib.V(lib.I(int64(timemath.Sgn(time.Duration(z)))), lib.I(int64(timemath.Inv(time.Duration(z)))))}
}

// IdentPerm / ShuffledPerm: index permutations for MeasPermLine
func ShuffledPerm(r *lib.Rng, n int) []int64 {
	p := make([]int64, n)
	for i := range p {
		p[i] = int64(i)
	}
	return Shuffled(r, p)
}

func GenVal(r *lib.Rng, base int64) int64 {
	switch r.Intn(10) {
	case 0:
		return lib.Pick(r, Lim-1, -(Lim - 1), Lim-2, -(Lim - 2))
	case 1:
		return base + r.Range(-3, 3)
	case 2:
		return base
	case 3:
		return r.Range(-(Lim - 1), Lim-1)
	case 4:
		return r.Range(-1000, 1000)
	case 5:
		return base + r.Range(-1000000, 1000000)*2 + 1 // odd values
	default:
		return base + r.Range(-1000000000, 1000000000)
	}
}

// GenTagged produces n values of which up to (n-1)/3 are tagged arbitrary
// and placed adversarially.
func GenTagged(r *lib.Rng, n int) ([]int64, []int64) {
	base := lib.Pick(r, int64(0), 1000000, -5000000000, r.Range(-(Lim / 2), Lim/2))
	vs := make([]int64, n)
	tags := make([]int64, n)
	for i := range vs {
		vs[i] = GenVal(r, base)
		tags[i] = 1
	}
	if n == 0 {
		return vs, tags
	}
	nb := r.Intn((n-1)/3 + 1)
	if r.Intn(3) > 0 {
		nb = (n - 1) / 3
	}
	mode := r.Intn(5)
	for k := 0; k < nb; k++ {
		i := r.Intn(n)
		tags[i] = 0
		switch mode {
		case 0:
			vs[i] = Lim - 1 - r.Range(0, 5)
		case 1:
			vs[i] = -(Lim - 1) + r.Range(0, 5)
		case 2:
			if k%2 == 0 {
				vs[i] = Lim - 1 - r.Range(0, 5)
			} else {
				vs[i] = -(Lim - 1) + r.Range(0, 5)
			}
		case 3:
			vs[i] = r.Range(-(Lim - 1), Lim-1)
		default:
			vs[i] = GenVal(r, base)
		}
	}
	return vs, tags
}

// GenBig: n values, EXACTLY f = (n-1)/3 of them arbitrary, at random positions of the slice, all of them
// above every correct value (place 0), all below (1), or split between both sides (2).  The arbitrary values
// are at the far end of the permitted range or just outside the range of the correct ones.
func GenBig(r *lib.Rng, n, place int) ([]int64, []int64) {
	base := lib.Pick(r, int64(0), 1000000, -5000000000, r.Range(-(Lim / 4), Lim/4))
	spread := lib.Pick(r, int64(0), 3, 1000, 1000000000)
	vs := make([]int64, n)
	tags := make([]int64, n)
	lo, hi := int64(math.MaxInt64), int64(math.MinInt64)
	f := (n - 1) / 3
	pos := make([]int64, n)
	for i := range pos {
		pos[i] = int64(i)
	}
	pos = Shuffled(r, pos)
	bad := map[int]bool{}
	for _, p := range pos[:f] {
		bad[int(p)] = true
	}
	for i := range vs {
		if bad[i] {
			continue
		}
		vs[i] = base + r.Range(-spread, spread)
		tags[i] = 1
		if vs[i] < lo {
			lo = vs[i]
		}
		if vs[i] > hi {
			hi = vs[i]
		}
	}
	near := r.Intn(3) == 0
	k := 0
	for i := range vs {
		if !bad[i] {
			continue
		}
		high := place == 0 || place == 2 && k%2 == 0
		k++
		switch {
		case high && near:
			vs[i] = hi + 1 + r.Range(0, 3)
		case high:
			vs[i] = Lim - 1 - r.Range(0, 1000)
		case near:
			vs[i] = lo - 1 - r.Range(0, 3)
		default:
			vs[i] = -(Lim - 1) + r.Range(0, 1000)
		}
	}
	return vs, tags
}

// modern wall-clock seconds since year 1 (about 2025)
const ModernSec = int64(63871000000)

// addNs returns (sec, nsec) + d nanoseconds, in int64 seconds arithmetic; ok is false when the seconds leave int64.
func addNs(sec, nsec int64, d *big.Int) (int64, int64, bool) {
	a := absNs(sec, nsec)
	a.Add(a, d)
	q, m := new(big.Int).DivMod(a, big.NewInt(1000000000), new(big.Int))
	if !q.IsInt64() {
		return 0, 0, false
	}
	return q.Int64(), m.Int64(), true
}

func genTime(r *lib.Rng, prev []Mrec) (int64, int64) {
	nsec := lib.Pick(r, int64(0), 999999999, 1, r.Range(0, 999999999))
	switch r.Intn(12) {
	case 0, 1:
		return 0, 0 // time.Time{}
	case 2, 3:
		return ModernSec + r.Range(-100000000, 100000000), nsec
	case 4: // a time exactly MaxInt64 ns (+- a few) from an earlier one: the edge of Sub's saturation
		if len(prev) > 0 {
			p := prev[r.Intn(len(prev))]
			d := new(big.Int).Add(big.NewInt(math.MaxInt64), big.NewInt(r.Range(-2, 2)))
			if r.Bool() {
				d.Neg(d)
			}
			if s, n, ok := addNs(p.Sec, p.Nsec, d); ok {
				return s, n
			}
		}
		return ModernSec + 9223372036, nsec
	case 5: // the ends of time.Time's range
		return lib.Pick(r, int64(math.MinInt64), math.MinInt64+1, math.MaxInt64, math.MaxInt64-1,
			math.MaxInt64-9223372036, math.MinInt64+9223372037, math.MaxInt64-9223372037, math.MinInt64+9223372036), nsec
	case 6: // Unix epoch, the ends of UnixNano's range
		return lib.Pick(r, UnixToInternal, UnixToInternal-9223372037, UnixToInternal+9223372036, UnixToInternal-1), nsec
	case 7:
		return r.I64(), nsec
	case 8, 9: // equal to an earlier timestamp, or in the same second
		if len(prev) > 0 {
			p := prev[r.Intn(len(prev))]
			if r.Bool() {
				return p.Sec, p.Nsec
			}
			return p.Sec, nsec
		}
		return ModernSec, nsec
	case 10: // a few hundred years around now
		return ModernSec + r.Range(-20000000000, 20000000000), nsec
	default:
		return r.Range(0, 1000), nsec
	}
}

// GenFar: few measurements whose timestamps are the zero time, far apart, at the ends of the range, or equal
func GenFar(r *lib.Rng, n int) ([]Mrec, []int64) {
	in := make([]Mrec, 0, n)
	tags := make([]int64, n)
	base := lib.Pick(r, int64(0), 1000000, -5000000000)
	for i := 0; i < n; i++ {
		sec, nsec := genTime(r, in)
		off := base + r.Range(-20, 20)
		if r.Intn(4) == 0 && i > 0 {
			off = in[r.Intn(i)].Off // ties
		}
		m := Mrec{Sec: sec, Nsec: nsec, Off: off, Err: r.Intn(6) == 0}
		if sec == 0 && nsec == 0 && r.Bool() {
			m.Err, m.Off = true, 0 // what a failed measurement looks like in the project
		}
		in = append(in, m)
		tags[i] = 1
	}
	return in, tags
}

func WithTimes(r *lib.Rng, vs []int64) []Mrec {
	in := make([]Mrec, len(vs))
	for j := range in {
		sec := lib.Pick(r, UnixToInternal+r.Range(0, 1000), ModernSec+r.Range(-100000000, 100000000), UnixToInternal+r.I64()/4000000000)
		in[j] = Mrec{Sec: sec, Nsec: r.Range(0, 999999999), Off: vs[j], Err: r.Intn(5) == 0}
		if r.Intn(40) == 0 {
			in[j].Sec, in[j].Nsec = 0, 0
		}
	}
	return in
}


// Concurrent runs g goroutines, each recording per rounds of the four slice functions on its own inputs, all
// started together; the lines are returned in a fixed order (goroutine by goroutine).
func Concurrent(r *lib.Rng, g, per int) []Line {
	rngs := make([]*lib.Rng, g)
	for i := range rngs {
		rngs[i] = r.Fork()
	}
	out := make([][]Line, g)
	start := make(chan struct{})
	var wg sync.WaitGroup
	for i := 0; i < g; i++ {
		wg.Add(1)
		go func(i int) {
			defer wg.Done()
			rr := rngs[i]
			<-start
			for k := 0; k < per; k++ {
				n := 1 + rr.Intn(24)
				if rr.Intn(8) == 0 {
					n = 1 + rr.Intn(300)
				}
				vs, tags := GenBig(rr, n, rr.Intn(3))
				if rr.Bool() {
					vs, tags = GenTagged(rr, n)
				}
				in := WithTimes(rr, vs)
				out[i] = append(out[i],
					DurLine("ftm.dur.conc", append([]int64(nil), vs...), tags),
					DurLine("median.dur.conc", append([]int64(nil), vs...), tags),
					MeasLine("ftm.meas.conc", in, tags),
					MeasLine("median.meas.conc", in, tags))
			}
		}(i)
	}
	close(start)
	wg.Wait()
	var all []Line
	for _, o := range out {
		all = append(all, o...)
	}
	return all
}
