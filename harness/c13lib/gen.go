package c13lib

import (
	"encoding/binary"
	"sort"
	"strings"

	"github.com/scionproto/scion/pkg/slayers"
	"github.com/scionproto/scion/pkg/slayers/path"
	"github.com/scionproto/scion/pkg/slayers/path/onehop"
	scionpath "github.com/scionproto/scion/pkg/slayers/path/scion"

	"example.com/scion-time/net/scion"

	"verifharness/lib"
)

type tagset map[string]bool

func (t tagset) String() string {
	var ks []string
	nt := false
	for k := range t {
		if k == "nt" {
			nt = true
		} else {
			ks = append(ks, k)
		}
	}
	sort.Strings(ks)
	if nt {
		ks = append([]string{"nt"}, ks...)
	}
	return strings.Join(ks, ",")
}

func genHost(r *lib.Rng, v6 bool) (uint8, []byte) {
	if v6 {
		b := r.Bytes(16)
		b[0] = 0xfd
		return 3, b // T16Ip
	}
	b := r.Bytes(4)
	b[0] = 10
	return 0, b // T4Ip
}

func genPath(r *lib.Rng, tags tagset) (uint8, []byte) {
	switch r.Intn(7) {
	case 0, 1, 2: // SCION path with 1..3 segments
		nseg := 1 + r.Intn(3)
		var dp scionpath.Decoded
		total := 0
		for i := 0; i < nseg; i++ {
			l := 1 + r.Intn(4)
			if r.Intn(8) == 0 {
				l = 1 + r.Intn(20)
			}
			dp.PathMeta.SegLen[i] = uint8(l)
			total += l
			dp.InfoFields = append(dp.InfoFields, path.InfoField{ConsDir: r.Bool(), Peer: false, SegID: uint16(r.U64()), Timestamp: uint32(r.U64())})
		}
		for i := 0; i < total; i++ {
			hf := path.HopField{ExpTime: uint8(r.U64()), ConsIngress: uint16(r.U64()), ConsEgress: uint16(r.U64())}
			copy(hf.Mac[:], r.Bytes(6))
			dp.HopFields = append(dp.HopFields, hf)
		}
		dp.NumINF, dp.NumHops = nseg, total
		dp.PathMeta.CurrINF = uint8(nseg - 1)
		dp.PathMeta.CurrHF = uint8(total - 1)
		if r.Intn(3) == 0 {
			hf := r.Intn(total)
			inf, acc := 0, 0
			for i := 0; i < nseg; i++ {
				acc += int(dp.PathMeta.SegLen[i])
				if hf < acc {
					inf = i
					break
				}
			}
			dp.PathMeta.CurrINF, dp.PathMeta.CurrHF = uint8(inf), uint8(hf)
		}
		b := make([]byte, dp.Len())
		if err := dp.SerializeTo(b); err != nil {
			return 0, nil
		}
		tags["path-scion"] = true
		if nseg > 1 {
			tags["path-multiseg"] = true
		}
		return uint8(scionpath.PathType), b
	case 3: // one-hop path, second hop filled in (reversible) or not
		var p onehop.Path
		p.Info = path.InfoField{ConsDir: true, SegID: uint16(r.U64()), Timestamp: uint32(r.U64())}
		p.FirstHop = path.HopField{ExpTime: 63, ConsEgress: uint16(1 + r.Intn(100))}
		copy(p.FirstHop.Mac[:], r.Bytes(6))
		if r.Intn(4) != 0 {
			p.SecondHop = path.HopField{ExpTime: 63, ConsIngress: uint16(1 + r.Intn(100))}
			copy(p.SecondHop.Mac[:], r.Bytes(6))
			tags["path-onehop"] = true
		} else {
			tags["path-onehop-incomplete"] = true
		}
		b := make([]byte, p.Len())
		if err := p.SerializeTo(b); err != nil {
			return 0, nil
		}
		return uint8(onehop.PathType), b
	default:
		tags["path-empty"] = true
		return 0, nil
	}
}

func ntpRequest(r *lib.Rng, kind int) []byte {
	b := make([]byte, 48)
	b[0] = lib.Pick(r, byte(0x23), 0x23, 0x1b, 0xe3)
	copy(b[40:], r.Bytes(8))
	switch kind {
	case 1: // not a request
		b[0] = lib.Pick(r, byte(0x24), 0x21, 0x3b, 0x63)
	case 2: // too short
		b = b[:lib.Pick(r, 0, 1, 40, 47)]
	case 3: // longer than an NTP header: NTS branch, garbage
		b = append(b, r.Bytes(4+4*r.Intn(8))...)
	}
	return b
}

// genSpec produces one mostly-valid packet for a listener.
//   listener 0: the server's own port, 1: the server's end-host port, 2: the dispatcher
func (d *drv) genSpec(r *lib.Rng, listener int, tags tagset) *pktSpec {
	h := &pktSpec{auth: -1}
	h.dstIA = uint64(1+r.Intn(3))<<48 | 0xff0000000100 | uint64(r.Intn(64))
	h.srcIA = uint64(1+r.Intn(3))<<48 | 0xff0000000200 | uint64(r.Intn(64))
	if r.Intn(8) == 0 {
		h.srcIA = h.dstIA
	}
	fam := r.Intn(4) // v4/v4, v6/v6, v4 -> v6, v6 -> v4
	h.srcType, h.srcRaw = genHost(r, fam == 1 || fam == 3)
	h.dstType, h.dstRaw = genHost(r, fam == 1 || fam == 2)
	if fam == 1 {
		tags["v6"] = true
	} else if fam >= 2 {
		tags["mixed-family"] = true
	}
	h.pathType, h.pathRaw = genPath(r, tags)
	h.tc = uint8(r.U64())
	h.flow = uint32(r.U64()) & 0xfffff
	h.udpSrc = uint16(1024 + r.Intn(60000))
	h.udpDst = uint16(scionPort)
	if r.Intn(6) == 0 {
		h.udpSrc = uint16(scionPort)
	}
	// sometimes the SCION source is a harness socket: a reply sent to the
	// source address instead of the previous hop becomes visible
	if r.Intn(5) == 0 {
		h.srcType, h.srcRaw = 0, append([]byte(nil), d.hIP...)
		h.udpSrc = 31002
		tags["src-is-harness-socket"] = true
	}
	// payload
	nk := 0
	if r.Intn(7) == 0 {
		nk = 1 + r.Intn(3)
		tags["ntp-invalid"] = true
	}
	h.payload = ntpRequest(r, nk)
	return h
}

// addAuth gives the packet an end-to-end extension with an authenticator.
//  mode 0 valid; 1 wrong MAC (random); 2 zero MAC; 3 SPI of the other direction (valid MAC);
//  4 other algorithm (valid MAC); 5 option of another length; 6 two authenticators bad,good;
//  7 two authenticators good,bad; 8 authenticator after another option; 9 extension without authenticator;
//  10 non-zero timestamp/sequence number (valid MAC); 11 some other SPI
func addAuth(r *lib.Rng, h *pktSpec, mode int, tags tagset) {
	addAuthDir(r, h, mode, tags, scion.PacketAuthSPIClient, scion.PacketAuthSPIServer)
}

// addAuthDir: spiOwn is the SPI the receiver expects, spiOther the one of the other direction.
func addAuthDir(r *lib.Rng, h *pktSpec, mode int, tags tagset, spiOwn, spiOther uint32) {
	h.e2e = true
	valid := func(spi uint32, algo uint8) optSpec { return optSpec{2, authMeta(spi, algo)} }
	switch mode {
	case 0:
		h.opts = []optSpec{valid(spiOwn, 0)}
		h.auth = 0
		tags["auth-valid"] = true
	case 1:
		o := valid(spiOwn, 0)
		copy(o.data[12:], r.Bytes(16))
		h.opts = []optSpec{o}
		tags["auth-badmac"] = true
	case 2:
		h.opts = []optSpec{valid(spiOwn, 0)}
		tags["auth-badmac"] = true
	case 3:
		h.opts = []optSpec{valid(spiOther, 0)}
		h.auth = 0
		tags["auth-other-spi"] = true
	case 4:
		h.opts = []optSpec{valid(spiOwn, uint8(1+r.Intn(255)))}
		h.auth = 0
		tags["auth-other-algo"] = true
	case 5:
		o := valid(spiOwn, 0)
		o.data = append(o.data, r.Bytes(16)...)[:lib.Pick(r, 12, 24, 27, 29, 32, 44)]
		h.opts = []optSpec{o}
		tags["auth-other-len"] = true
	case 6:
		bad := valid(spiOwn, 0)
		copy(bad.data[12:], r.Bytes(16))
		h.opts = []optSpec{bad, valid(spiOwn, 0)}
		h.auth = 1
		tags["auth-two"] = true
		tags["auth-badmac"] = true
	case 7:
		bad := valid(spiOwn, 0)
		copy(bad.data[12:], r.Bytes(16))
		h.opts = []optSpec{valid(spiOwn, 0), bad}
		h.auth = 0
		tags["auth-two"] = true
		tags["auth-valid"] = true
	case 8:
		h.opts = []optSpec{{253, r.Bytes(8 * (1 + r.Intn(3)))}, valid(spiOwn, 0)}
		h.auth = 1
		tags["auth-valid"] = true
		tags["auth-after-option"] = true
	case 9:
		h.opts = []optSpec{{253, r.Bytes(8)}}
		tags["e2e-noauth"] = true
	case 10:
		o := valid(spiOwn, 0)
		copy(o.data[5:12], r.Bytes(7))
		h.opts = []optSpec{o}
		h.auth = 0
		tags["auth-valid"] = true
		tags["auth-tssn"] = true
	case 11:
		h.opts = []optSpec{valid(uint32(r.U64()), 0)}
		h.auth = 0
		tags["auth-other-spi"] = true
	}
	if r.Intn(6) == 0 {
		h.hbh = true
		tags["hbh"] = true
	}
}

// mutate flips bits of a finished packet: in the MAC, the authenticator
// metadata, the SCION header, the path, the L4 header or the payload.
func mutate(r *lib.Rng, raw []byte, tags tagset) []byte {
	p := parse(raw)
	b := append([]byte(nil), raw...)
	if !p.ok || len(b) == 0 {
		return b
	}
	hdrLen := int(b[5]) * 4
	if hdrLen > len(b) {
		hdrLen = len(b)
	}
	addrEnd := 12 + 16 + len(p.scn.RawDstAddr) + len(p.scn.RawSrcAddr)
	// locate the authenticator option data in the raw bytes
	optOff := -1
	if p.authOpt != nil && len(p.authOpt.OptData) == 28 {
		for i := hdrLen; i+28 <= len(b); i++ {
			if string(b[i:i+28]) == string(p.authOpt.OptData) {
				optOff = i
				break
			}
		}
	}
	flip := func(off int) {
		if off >= 0 && off < len(b) {
			b[off] ^= byte(1 << uint(r.Intn(8)))
		}
	}
	switch k := r.Intn(12); {
	case k <= 2 && optOff >= 0: // MAC
		flip(optOff + 12 + r.Intn(16))
		tags["mut-mac"] = true
	case k == 3 && optOff >= 0: // metadata
		flip(optOff + r.Intn(12))
		tags["mut-meta"] = true
	case k == 4: // common header (traffic class, flow id, next header, lengths, path type, address types)
		flip(r.Intn(12))
		tags["mut-cmnhdr"] = true
	case k == 5: // address header
		flip(12 + r.Intn(addrEnd-12))
		tags["mut-addr"] = true
	case k == 6 && hdrLen > addrEnd: // path
		flip(addrEnd + r.Intn(hdrLen-addrEnd))
		tags["mut-path"] = true
	case k == 7 || k == 8: // payload
		if n := len(p.udp.Payload); p.isUDP && n > 0 {
			flip(len(b) - 1 - r.Intn(n))
			tags["mut-payload"] = true
		} else {
			flip(len(b) - 1)
		}
	case k == 9: // L4 header
		if p.isUDP && len(b) >= 8+len(p.udp.Payload) {
			flip(len(b) - len(p.udp.Payload) - 8 + r.Intn(8))
			tags["mut-l4hdr"] = true
		}
	default:
		flip(r.Intn(len(b)))
		tags["mut-any"] = true
	}
	return b
}

// genStep: one step of a history.
func (d *drv) genStep(r *lib.Rng, tags tagset) (step, bool) {
	listener := lib.Pick(r, 0, 0, 0, 0, 1, 1, 1, 2, 2)
	sender := r.Intn(nSenders)
	h := d.genSpec(r, listener, tags)
	class := r.Intn(20)
	switch {
	case class < 3: // SCMP
		h.scmp = true
		h.scmpType = lib.Pick(r, uint8(128), 128, 128, 130, 130, 129, 131, 1, 4)
		h.scmpCode = uint8(r.Intn(2) * r.Intn(3))
		h.payload = r.Bytes(lib.Pick(r, 0, 4, 8, 12, 13, 40, 64, 65, 257, 1200, 4000, 8800))
		if len(h.payload) == 12 {
			binary.BigEndian.PutUint32(h.payload[4:], 1) // never a sentinel
		}
		if h.scmpType == 128 || h.scmpType == 130 {
			tags["scmp-request"] = true
		} else {
			tags["scmp-other"] = true
		}
		if r.Intn(5) == 0 {
			addAuth(r, h, lib.Pick(r, 0, 1, 9), tagset{})
		}
	case class < 7 || listener == 2: // for another end-host port (or the local one, through the dispatcher)
		if listener == 0 {
			tags["wrong-port-on-own-listener"] = true
		}
		h.dstType, h.dstRaw = 0, append([]byte(nil), d.hIP...)
		h.udpDst = uint16(lib.Pick(r, 31000, 31000, 31001, 31001, endhostPort, scionPort, 31003))
		if r.Intn(10) == 0 {
			h.dstType, h.dstRaw = genHost(r, r.Bool()) // not one of ours: nothing to see
		}
		if r.Intn(3) == 0 {
			h.payload = r.Bytes(r.Intn(200))
			if r.Intn(4) == 0 { // up to what fits the listener's buffer (scion.MTU)
				h.payload = r.Bytes(lib.Pick(r, 255, 256, 257, 1000, 1472, 4000, 8000, 8900))
				tags["large-payload"] = true
			}
		}
		if r.Intn(3) == 0 {
			addAuth(r, h, r.Intn(12), tagset{})
		}
		if listener != 0 {
			tags["fwd-candidate"] = true
			if h.udpDst == endhostPort {
				tags["fwd-to-endhost-port"] = true
			}
		}
	case class < 9: // plain request
		tags["plain"] = true
	default: // authenticated in one of the ways
		addAuth(r, h, lib.Pick(r, 0, 0, 0, 0, 1, 2, 3, 4, 5, 6, 7, 8, 9, 10, 11), tags)
	}
	if listener == 1 {
		tags["via-endhost-port"] = true
	}
	if listener == 2 {
		tags["dispatcher"] = true
	}
	raw, err := h.build()
	if err != nil {
		return step{}, false
	}
	if h.auth >= 0 && r.Intn(3) == 0 || r.Intn(12) == 0 {
		raw = mutate(r, raw, tags)
	}
	return step{listener: listener, sender: sender, raw: raw}, true
}

func (d *drv) genHistory(r *lib.Rng, n int) ([]step, string) {
	tags := tagset{"nt": true}
	var steps []step
	for len(steps) < n {
		s, ok := d.genStep(r, tags)
		if !ok {
			continue
		}
		if probeCandidate(s.raw) {
			if len(d.probes) < 3 {
				d.probes = append(d.probes, s)
			}
			continue
		}
		// stick to one socket most of the time: one listener goroutine sees the whole history
		if len(steps) > 0 && r.Intn(4) != 0 {
			s.sender = steps[0].sender
		}
		steps = append(steps, s)
		// replay of the same datagram / a mutated copy of a verified one right after it
		if r.Intn(6) == 0 && len(steps) < n {
			t := s
			if r.Bool() {
				t.raw = mutate(r, s.raw, tags)
				if probeCandidate(t.raw) {
					t.raw = s.raw
				}
			}
			tags["repeat"] = true
			steps = append(steps, t)
		}
	}
	if len(steps) > 1 {
		tags["multi"] = true
	}
	return steps, tags.String()
}

func parseSteps(args string) []step {
	// [[listener sender xhex] ...]
	f := strings.Fields(strings.NewReplacer("[", " ", "]", " ").Replace(args))
	var steps []step
	for i := 0; i+2 < len(f); i += 3 {
		steps = append(steps, step{listener: int(lib.ParseI(f[i])), sender: int(lib.ParseI(f[i+1])), raw: lib.ParseB(f[i+2])})
	}
	return steps
}

func child(a lib.Args) {
	d := newDrv()
	mainDrv = d
	if a.Replay != "" {
		var svcArgs []string
		for _, l := range lib.ReplayLines(a.Replay) {
			if l[0] == "svc.spao" {
				svcArgs = append(svcArgs, l[2])
			}
		}
		if svcArgs != nil {
			runSvc(svcArgs)
		}
		var fw [][]string
		for _, l := range lib.ReplayLines(a.Replay) {
			if l[0] == "srv.fwdnots" || l[0] == "srv.fwdhbh" {
				fw = append(fw, l[:])
			}
		}
		if fw != nil {
			d.runFwdNoTs(nil, 0, fw)
		}
		for _, l := range lib.ReplayLines(a.Replay) {
			switch l[0] {
			case "srv":
				d.runSrv(l[1], parseSteps(l[2]))
			case "srv.scmpauth", "srv.tailmac", "srv.maclen", "srv.fwdbig":
				d.runSrvKind(l[0], l[1], parseSteps(l[2]))
			case "cli.tailmac":
				d.replayCli("cli.tailmac", l[1], l[2])
			case "scion.consts", "scion.authopt":
				emitConsts(lib.NewRng(a.Seed ^ 0x636f6e73))
			case "srv.probe":
				runProbe(strings.TrimSuffix(l[1], ",crash"), parseSteps(l[2]))
			case "cli":
				d.replayCli("cli", l[1], l[2])
			case "cli.probe":
				runProbeArgs("cli.probe", strings.TrimSuffix(l[1], ",crash"), l[2])
			}
		}
		return
	}
	emitConsts(lib.NewRng(a.Seed ^ 0x636f6e73))
	runSvc(nil)
	r := lib.NewRng(a.Seed)
	nSrv, nCli := 3000, 300
	if a.Tier == "thorough" {
		nSrv, nCli = 30000, 3000
	}
	rs := r.Fork()
	for i := 0; i < nSrv && !d.lost; i++ {
		n := 1
		if rs.Intn(3) == 0 {
			n = 2 + rs.Intn(5)
		}
		steps, tags := d.genHistory(rs, n)
		d.runSrv(tags, steps)
	}
	// datagrams that the listener cannot compute a MAC for: explicit ones and
	// those the mutations produced, each in a process of its own
	rp := r.Fork()
	for i := 0; i < 2; i++ {
		tags := tagset{"nt": true, "unknown-path-type": true}
		h := d.genSpec(rp, 0, tags)
		addAuth(rp, h, lib.Pick(rp, 0, 1), tags)
		if raw, err := h.build(); err == nil {
			raw[8] = byte(4 + rp.Intn(252))
			if probeCandidate(raw) {
				runProbe(tags.String(), []step{{listener: rp.Intn(2), sender: 0, raw: raw}})
			}
		}
	}
	for _, s := range d.probes {
		runProbe("nt,unknown-path-type,mutated", []step{s})
	}
	// kind srv.tailmac: a genuine authenticated request, then the same datagram with a forged
	// request spliced in front of its L4 part (the authenticator's MAC matches the TAIL of the
	// datagram, the L4 part that is parsed and served is the forged one)
	rt := r.Fork()
	ntm := 60
	if a.Tier == "thorough" {
		ntm = 600
	}
	for i := 0; i < ntm && !d.lost; {
		tags := tagset{"nt": true, "spliced-l4": true}
		listener := rt.Intn(2)
		h := d.genSpec(rt, listener, tags)
		h.payload = ntpRequest(rt, 0)
		addAuth(rt, h, lib.Pick(rt, 0, 0, 0, 8, 10), tagset{})
		h.hbh = false
		raw, err := h.build()
		if err != nil || probeCandidate(raw) {
			continue
		}
		sp := spliceTail(raw, ntpRequest(rt, 0))
		if sp == nil {
			continue
		}
		i++
		sender := rt.Intn(nSenders)
		steps := []step{{listener: listener, sender: sender, raw: sp}}
		if rt.Bool() {
			steps = []step{{listener: listener, sender: sender, raw: raw}, {listener: listener, sender: sender, raw: sp}}
			tags["genuine-first"] = true
		}
		d.runSrvKind("srv.tailmac", tags.String(), steps)
	}
	// kind srv.maclen: requests for the service whose authenticator has the time service's SPI and
	// algorithm but data of another length (a MAC of 0, 12, 15, 17, 20, 32 bytes): cannot verify
	rm := r.Fork()
	nml := 60
	if a.Tier == "thorough" {
		nml = 600
	}
	for i := 0; i < nml && !d.lost; {
		tags := tagset{"nt": true, "auth-other-len": true}
		listener := rm.Intn(2)
		h := d.genSpec(rm, listener, tags)
		h.payload = ntpRequest(rm, 0)
		h.e2e = true
		data := authMeta(scion.PacketAuthSPIClient, 0)[:12]
		data = append(data, rm.Bytes(lib.Pick(rm, 0, 12, 15, 17, 17, 20, 32))...)
		h.opts = []optSpec{{2, data}}
		if rm.Intn(4) == 0 { // behind another option
			h.opts = []optSpec{{253, rm.Bytes(8)}, {2, data}}
		}
		raw, err := h.build()
		if err != nil || probeCandidate(raw) {
			continue
		}
		i++
		d.runSrvKind("srv.maclen", tags.String(), []step{{listener: listener, sender: rm.Intn(nSenders), raw: raw}})
	}
	nf := 120
	if a.Tier == "thorough" {
		nf = 1200
	}
	d.runFwdNoTs(r.Fork(), nf, nil)
	// kind srv.fwdbig: packets for another end-host port whose end-to-end extension is (nearly) as
	// long as an extension can be (1024 bytes): the forwarder's 66-byte timestamp option fits or not
	rb := r.Fork()
	nfb := 40
	if a.Tier == "thorough" {
		nfb = 400
	}
	for i := 0; i < nfb && !d.lost; {
		tags := tagset{"nt": true, "fwd-candidate": true, "large-e2e-extension": true}
		listener := 1 + rb.Intn(2)
		h := d.genSpec(rb, listener, tags)
		h.dstType, h.dstRaw = 0, append([]byte(nil), d.hIP...)
		h.udpDst = uint16(lib.Pick(rb, 31000, 31001))
		h.e2e = true
		total := lib.Pick(rb, 1024, 1024, 1024, 1020, 960, 956, 952, 600)
		rest := total - 2
		if rb.Bool() {
			addAuth(rb, h, 0, tagset{})
			h.hbh = false
			rest -= 30
		} else {
			h.opts = nil
		}
		for rest >= 2 {
			c := rest
			if c > 255 {
				c = 255
			}
			if rest-c == 1 {
				c--
			}
			h.opts = append(h.opts, optSpec{200, rb.Bytes(c - 2)})
			rest -= c
		}
		raw, err := h.build()
		if err != nil || probeCandidate(raw) {
			continue
		}
		i++
		d.runSrvKind("srv.fwdbig", tags.String(), []step{{listener: listener, sender: rb.Intn(nSenders), raw: raw}})
	}
	// SCMP echo / traceroute requests that carry the time service's authenticator with a MAC that
	// does not verify (kind srv.scmpauth: C13's "never served" read literally; the listener does
	// not look at the authenticator of SCMP requests - KNOWN_FINDINGS)
	rsc := r.Fork()
	nsc := 40
	if a.Tier == "thorough" {
		nsc = 400
	}
	for i := 0; i < nsc && !d.lost; i++ {
		tags := tagset{"nt": true, "scmp-request": true, "scmp-with-authenticator": true}
		listener := rsc.Intn(2)
		h := d.genSpec(rsc, listener, tags)
		h.scmp = true
		h.scmpType = lib.Pick(rsc, uint8(128), 130)
		h.payload = rsc.Bytes(lib.Pick(rsc, 8, 12, 40, 64))
		if len(h.payload) == 12 {
			binary.BigEndian.PutUint32(h.payload[4:], 1)
		}
		addAuth(rsc, h, lib.Pick(rsc, 1, 1, 1, 2, 0), tagset{})
		if h.auth >= 0 { // a MAC that verifies over the SCMP message: nothing to object to
			tags["scmp-auth-valid"] = true
		} else {
			tags["scmp-auth-badmac"] = true
		}
		h.hbh = false
		raw, err := h.build()
		if err != nil || probeCandidate(raw) {
			continue
		}
		d.runSrvKind("srv.scmpauth", tags.String(), []step{{listener: listener, sender: rsc.Intn(nSenders), raw: raw}})
	}
	d.runTailmacCli(r.Fork(), nCli/10)
	rc := r.Fork()
	d.runCliAll(rc, nCli, a.Tier)
}

// emitConsts: the constants and the accessors of net/scion/auth.go and underlay.go (and the
// scionproto numbers the model repeats) against their hand-copied counterparts in the model.
func emitConsts(r *lib.Rng) {
	emitCase("scion.consts", "nt", "0", lib.V(
		lib.U(uint64(scion.PacketAuthSPIClient)), lib.U(uint64(scion.PacketAuthSPIServer)), lib.U(uint64(scion.PacketAuthAlgorithm)),
		lib.I(scion.PacketAuthMetadataLen), lib.I(scion.PacketAuthMACLen), lib.I(scion.PacketAuthOptDataLen),
		lib.I(scion.EndhostPort), lib.I(scion.DRKeyProtocolTS), lib.U(uint64(scion.OptTypeTimestamp)),
		lib.U(uint64(slayers.OptTypeAuthenticator)), lib.U(uint64(slayers.L4UDP)), lib.U(uint64(slayers.L4SCMP)),
		lib.U(uint64(slayers.HopByHopClass)), lib.U(uint64(slayers.End2EndClass)),
		lib.U(uint64(slayers.SCMPTypeEchoRequest)), lib.U(uint64(slayers.SCMPTypeEchoReply)),
		lib.U(uint64(slayers.SCMPTypeTracerouteRequest)), lib.U(uint64(slayers.SCMPTypeTracerouteReply)),
		lib.U(uint64(slayers.T4Ip)), lib.U(uint64(slayers.T16Ip))))
	for i := 0; i < 200; i++ {
		data := r.Bytes(28)
		spi, algo := uint32(r.U64()), uint8(r.U64())
		if i < 3 {
			spi, algo = []uint32{scion.PacketAuthSPIClient, scion.PacketAuthSPIServer, 0xffffffff}[i], 0
		}
		o := &slayers.EndToEndOption{OptData: append([]byte(nil), data...)}
		gs, ga := scion.PacketAuthOptMetadata(o)
		gm := append([]byte(nil), scion.PacketAuthOptMAC(o)...)
		p := &slayers.EndToEndOption{OptData: append([]byte(nil), data...)}
		scion.PreparePacketAuthOpt(p, spi, algo)
		emitCase("scion.authopt", "nt", lib.V(lib.B(data), lib.U(uint64(spi)), lib.U(uint64(algo))),
			lib.V(lib.U(uint64(gs)), lib.U(uint64(ga)), lib.B(gm), lib.U(uint64(p.OptType)), lib.B(p.OptData)))
	}
}
