// C13: drives the real SCION listener (server.StartSCIONServer, both its own
// port and the end-host port), the real dispatcher (server.StartSCIONDispatcher)
// and the real SCION client (client.MeasureClockOffsetSCION) of /repo on
// loopback with USE_MOCK_KEYS=true.
//
// Everything runs in a child process (re-executed with the environment
// variable set; a panic in a listener goroutine ends the process); the parent
// relays the cases into the case file and turns a dead or silent child into a
// case that says so.  Reply / no reply is decided by a sentinel request sent
// afterwards from the same socket, never by waiting.
package c13lib

import (
	"bufio"
	"fmt"
	"io"
	"os"
	"os/exec"
	"strings"
	"sync"
	"syscall"
	"time"

	"verifharness/lib"
)

const childEnv = "C13_CHILD"

// ---- child -> parent protocol (stdout): "CUR\tkind\ttags\targs" announces the
// case being driven, "CASE\tkind\ttags\targs\touts" is a finished case.

var out *bufio.Writer

func emitCur(kind, tags, args string) {
	fmt.Fprintf(out, "CUR\t%s\t%s\t%s\n", kind, tags, args)
	out.Flush()
}

func emitCase(kind, tags, args, outs string) {
	fmt.Fprintf(out, "CASE\t%s\t%s\t%s\t%s\n", kind, tags, args, outs)
	out.Flush()
}

func note(s string) {
	fmt.Fprintf(out, "NOTE\t%s\n", s)
	out.Flush()
}

func parent(a lib.Args) {
	w := lib.NewWriter(a.Out)
	defer w.Close()
	// the listeners and clients with mock DRKeys, then a listener whose keys come
	// from a fake DRKey daemon (they depend on the hosts)
	if raceMode {
		runChild(a, w, []string{childEnv + "=keyed", "USE_MOCK_KEYS=false", "GORACE=halt_on_error=1 exitcode=66"}, "srv.par")
		return
	}
	runChild(a, w, []string{childEnv + "=1", "USE_MOCK_KEYS=true"}, "srv")
	runChild(a, w, []string{childEnv + "=keyed", "USE_MOCK_KEYS=false"}, "srv.keyed")
	// a listener configured with the IPv6 wildcard address (dual-stack socket): IPv4 previous hops
	// appear as IPv4-mapped addresses (skipped with a NOTE where the host does not allow it)
	runChild(a, w, []string{childEnv + "=dual", "USE_MOCK_KEYS=true"}, "srv.dual")
}

func runChild(a lib.Args, w *lib.Writer, env []string, crashKind string) {
	exe, err := os.Executable()
	if err != nil {
		panic(err)
	}
	args := []string{"-tier", a.Tier, "-seed", fmt.Sprint(a.Seed), "-out", a.Out}
	if a.Replay != "" {
		args = append(args, "-replay", a.Replay)
	}
	cmd := exec.Command(exe, args...)
	cmd.Env = append(os.Environ(), env...)
	for _, e := range env {
		if e == childEnv+"=dual" { // a network namespace of its own: its loopback has no other sockets
			cmd.SysProcAttr = &syscall.SysProcAttr{Unshareflags: syscall.CLONE_NEWNET}
		}
	}
	stdout, err := cmd.StdoutPipe()
	if err != nil {
		panic(err)
	}
	stderrFile, _ := os.CreateTemp("", "c13-child-stderr-*")
	if stderrFile != nil {
		cmd.Stderr = stderrFile
		defer os.Remove(stderrFile.Name())
	}
	if err := cmd.Start(); err != nil {
		if cmd.SysProcAttr != nil { // no permission to create a network namespace: the kind is skipped
			fmt.Printf("NOTE %s skipped: the child cannot get a network namespace of its own (%v)\n", crashKind, err)
			return
		}
		panic(err)
	}
	var mu sync.Mutex
	var cur []string
	last := time.Now()
	done := make(chan struct{})
	go func() {
		defer close(done)
		rd := bufio.NewReaderSize(stdout, 1<<20)
		for {
			line, err := rd.ReadString('\n')
			if len(line) > 0 && line[len(line)-1] == '\n' {
				p := strings.Split(line[:len(line)-1], "\t")
				mu.Lock()
				last = time.Now()
				switch {
				case p[0] == "CUR" && len(p) == 4:
					cur = p[1:]
				case p[0] == "CASE" && len(p) == 5:
					w.Case(p[1], p[2], p[3], p[4])
					cur = nil
				case p[0] == "NOTE" && len(p) == 2:
					fmt.Println("NOTE " + p[1])
				}
				mu.Unlock()
			}
			if err != nil {
				if err != io.EOF {
					fmt.Println("NOTE child pipe:", err)
				}
				return
			}
		}
	}()
	// watchdog: a child that reports nothing for two minutes hangs
	hung := false
	tick := time.NewTicker(time.Second)
	defer tick.Stop()
loop:
	for {
		select {
		case <-done:
			break loop
		case <-tick.C:
			mu.Lock()
			idle := time.Since(last)
			mu.Unlock()
			if idle > 120*time.Second {
				hung = true
				cmd.Process.Kill()
			}
		}
	}
	werr := cmd.Wait()
	mu.Lock()
	defer mu.Unlock()
	if werr != nil || hung {
		what := "died"
		if hung {
			what = "hung"
		}
		tail := ""
		if stderrFile != nil {
			b, _ := os.ReadFile(stderrFile.Name())
			if len(b) > 1500 {
				b = b[len(b)-1500:]
			}
			tail = strings.ReplaceAll(strings.ReplaceAll(string(b), "\n", " | "), "\t", " ")
		}
		fmt.Printf("NOTE listener process %s (%v) while driving %v: %s\n", what, werr, cur != nil, tail)
		if cur != nil {
			// the case in flight: the process that runs the listeners is gone
			w.Case(cur[0], cur[1]+",crash", cur[2], "1 [] []")
		} else {
			w.Case(crashKind, "crash", "[]", "1 [] []")
		}
	}
}

// raceMode: built with the race detector (command c13race): only the parallel listener
// steps and the keyed clients are driven; a race report ends the child (GORACE halt_on_error).
var raceMode bool

func Main(race bool) {
	raceMode = race
	a := lib.ParseArgs()
	if os.Getenv(childEnv) == "" {
		parent(a)
		return
	}
	out = bufio.NewWriterSize(os.Stdout, 1<<20)
	defer out.Flush()
	if os.Getenv(probeEnv) != "" {
		probeMain()
		return
	}
	if os.Getenv(childEnv) == "keyed" {
		keyedChild(a)
		return
	}
	if os.Getenv(childEnv) == "dual" {
		dualChild(a)
		return
	}
	child(a)
}
