package c13lib

// The keyed child: the real listener and the real client fetch their DRKeys
// from a DRKey daemon (scion.NewDaemonConnector -> gRPC) that the harness runs
// itself (drkeyown.go: the harness' own key hierarchy, written from the DRKey
// specification, no project or scionproto derivation code).  The host-host key
// differs for every (server ISD-AS and host, client ISD-AS and host, epoch) -
// unlike USE_MOCK_KEYS, where every key is the zero key.  The listener takes
// the server host from the SCION destination host of the request, so one
// listener can be addressed under several host addresses.  The daemon treats
// some client ASes specially (modeOfIA): error, key of an epoch that is over,
// key of a wrong length.

import (
	"context"
	"encoding/binary"
	"net"
	"os"
	"strings"
	"sync"
	"time"

	"github.com/scionproto/scion/pkg/addr"
	"github.com/scionproto/scion/pkg/drkey"

	"example.com/scion-time/net/ntp"
	"example.com/scion-time/net/scion"

	"verifharness/lib"
)

var keyedDaemonAddr string // "" outside the keyed child

// strictOn: also emit the keyed cases under the strict kinds (cli.strict,
// srv.strict), whose oracle demands that authentication fails closed.  The
// pinned code does not (KNOWN_FINDINGS): on by C13_STRICT=1, or by default once
// the findings file has an entry for kind cli.strict of this property.
var strictOn = func() bool {
	switch os.Getenv("C13_STRICT") {
	case "1":
		return true
	case "0":
		return false
	}
	b, err := os.ReadFile(os.Getenv("VERIF_ROOT") + "/KNOWN_FINDINGS.txt")
	if err != nil {
		return false
	}
	for _, l := range strings.Split(string(b), "\n") {
		if strings.HasPrefix(l, "finding:") && strings.Contains(l, "property=C13 ") && strings.Contains(l, "kind=cli.strict ") {
			return true
		}
	}
	return false
}()

// hostHostKey: the key of the current epoch between a server and a client host.
func hostHostKey(srvIA, cliIA uint64, srvHost, cliHost []byte) []byte {
	return ownKey(srvIA, cliIA, srvHost, cliHost, epochServed(cliIA, srvIA))
}

// keyedKey: a datagram to the service port is a request (server = destination),
// anything else a reply (server = source).
func keyedKey(p *parsed) []byte {
	if !p.ok {
		return nil
	}
	if p.isUDP && int(p.udp.DstPort) == scionPort {
		return expectedKey(uint64(p.scn.DstIA), uint64(p.scn.SrcIA), p.scn.RawDstAddr, p.scn.RawSrcAddr)
	}
	return expectedKey(uint64(p.scn.SrcIA), uint64(p.scn.DstIA), p.scn.RawSrcAddr, p.scn.RawDstAddr)
}

// keyedFlags: for a request to the service, whether the daemon hands out a key
// for the client's AS and whether that key's epoch is the current one.
func keyedFlags(raw []byte) []string {
	p := parse(raw)
	keyok, epochok := true, true
	if p.ok && p.isUDP && int(p.udp.DstPort) == scionPort {
		switch modeOfPair(uint64(p.scn.SrcIA), uint64(p.scn.DstIA)) {
		case modeError, modeShort, modeLong:
			keyok = false
		case modeExpired:
			epochok = false
		}
	}
	// what the listener asked the daemon for during this step (nothing on a cache hit)
	reqs := theDaemon.takeReqs(func(r daemonReq) bool { return !r.hostHost })
	return []string{lib.Bool(keyok), lib.Bool(epochok), reqsString(reqs, stepStart.Add(-50*time.Millisecond), time.Now())}
}

// genKeyedHistory: one listener goroutine (one sending socket, so one
// Fetcher with its per-client-AS cache) is addressed under several server
// host addresses by clients of one or two ISD-ASes: authenticated requests
// with the key of the addressed host, with the key of another host of the
// server, of another client, with a damaged MAC, and plain ones.
func (d *drv) genKeyedHistory(r *lib.Rng) ([]step, string) {
	tags := tagset{"nt": true, "keyed": true}
	sender := r.Intn(nSenders)
	listener := r.Intn(2)
	srvIA := uint64(1+r.Intn(3))<<48 | 0xff0000000100 | uint64(r.Intn(64))
	// the second client AS is sometimes one the daemon refuses, or serves a stale or malformed key for
	mode2 := lib.Pick(r, 3, 3, 3, modeError, modeError, modeExpired, modeExpired, modeShort, modeLong)
	cliIAs := []uint64{uint64(1+r.Intn(3))<<48 | 0xff0000000200 | uint64(r.Intn(64)), uint64(1+r.Intn(3))<<48 | 0xff0000000000 | uint64(mode2)<<8 | uint64(r.Intn(64))}
	switch mode2 {
	case modeError:
		tags["daemon-error"] = true
	case modeExpired:
		tags["daemon-expired-epoch"] = true
	case modeShort, modeLong:
		tags["daemon-key-length"] = true
	}
	nHosts := 2 + r.Intn(2)
	type host struct {
		t   uint8
		raw []byte
	}
	var srvHosts, cliHosts []host
	for i := 0; i < nHosts; i++ {
		t, b := genHost(r, r.Intn(3) == 0)
		srvHosts = append(srvHosts, host{t, b})
		t, b = genHost(r, r.Intn(3) == 0)
		cliHosts = append(cliHosts, host{t, b})
	}
	n := 3 + r.Intn(6)
	var steps []step
	lastSrv := -1
	for len(steps) < n {
		si := r.Intn(nHosts)
		if len(steps) == 1 && si == lastSrv { // the second request goes to another address of the server
			si = (si + 1) % nHosts
		}
		ci := r.Intn(nHosts)
		cliIA := cliIAs[0]
		if r.Intn(4) == 0 || mode2 != 3 && r.Bool() {
			cliIA = cliIAs[1]
			tags["second-client-as"] = true
		}
		h := &pktSpec{auth: -1, dstIA: srvIA, srcIA: cliIA,
			dstType: srvHosts[si].t, dstRaw: srvHosts[si].raw, srcType: cliHosts[ci].t, srcRaw: cliHosts[ci].raw,
			tc: uint8(r.U64()), flow: uint32(r.U64()) & 0xfffff,
			udpSrc: uint16(20000 + r.Intn(10000)), udpDst: uint16(scionPort)}
		h.pathType, h.pathRaw = genPath(r, tagset{})
		h.payload = ntpRequest(r, 0)
		if r.Intn(4) == 0 { // NTS and packet authentication at once
			v := lib.Pick(r, 0, 0, 0, 1, 2, 3)
			h.payload = ntsRequest(r, v)
			if v == 0 {
				tags["nts-valid"] = true
			} else {
				tags["nts-invalid"] = true
			}
		}
		switch k := r.Intn(10); {
		case k < 5 || len(steps) < 2: // the key of the addressed host
			addAuth(r, h, lib.Pick(r, 0, 0, 0, 8, 10), tagset{})
			tags["key-of-addressed-host"] = true
			if expectedKey(srvIA, cliIA, srvHosts[si].raw, cliHosts[ci].raw) == nil && r.Bool() {
				h.key = ownKey(srvIA, cliIA, srvHosts[si].raw, cliHosts[ci].raw, epochOf(time.Now()))
				tags["key-the-daemon-withholds"] = true
			}
			if modeOfIA(cliIA) == modeExpired && r.Intn(3) == 0 {
				h.key = ownKey(srvIA, cliIA, srvHosts[si].raw, cliHosts[ci].raw, epochOf(time.Now()))
				tags["current-key-daemon-serves-stale"] = true
			}
		case k < 7: // the key of another address of the server
			oi := (si + 1 + r.Intn(nHosts-1)) % nHosts
			addAuth(r, h, 0, tagset{})
			h.key = hostHostKey(srvIA, cliIA, srvHosts[oi].raw, cliHosts[ci].raw)
			tags["key-of-other-server-host"] = true
		case k == 7: // the key of another client host / client AS
			addAuth(r, h, 0, tagset{})
			if r.Bool() {
				h.key = hostHostKey(srvIA, cliIA, srvHosts[si].raw, cliHosts[(ci+1)%nHosts].raw)
			} else {
				h.key = hostHostKey(srvIA, cliIAs[1]^cliIAs[0]^cliIA, srvHosts[si].raw, cliHosts[ci].raw)
			}
			tags["key-of-other-client"] = true
		case k == 8: // the mock key / a damaged MAC
			addAuth(r, h, lib.Pick(r, 1, 2), tagset{})
			if r.Bool() {
				h.opts[0].data = authMeta(scion.PacketAuthSPIClient, 0)
				h.auth, h.key = 0, zeroKey
			}
			tags["keyed-badmac"] = true
		default:
			tags["plain"] = true
		}
		raw, err := h.build()
		if err != nil || probeCandidate(raw) {
			continue
		}
		if r.Intn(10) == 0 {
			m := mutate(r, raw, tags)
			if !probeCandidate(m) {
				raw = m
			}
		}
		lastSrv = si
		steps = append(steps, step{listener: listener, sender: sender, raw: raw})
	}
	tags["multi"] = true
	return steps, tags.String()
}

// ---- the keyed client ----

func genKeyedItem(r *lib.Rng, tags tagset) item {
	var it item
	switch r.Intn(10) {
	case 0, 1, 2: // the real listener's answer (its key: derived from the daemon's host-AS key)
		it.base = 1
		tags["relayed"] = true
		if r.Intn(4) == 0 {
			it.reqFlip = 1 + r.Intn(1<<20)
			tags["request-damaged"] = true
		}
	default:
		it.auth = lib.Pick(r, 1, 1, 1, 1, 0, 0, 10, 2, 3, 13, 13, 14, 15, 16, 16, 4, 5, 6, 7, 8, 9, 11, 12)
		switch it.auth {
		case 1, 8, 9, 11:
			tags["resp-auth-valid"] = true
		case 2, 3, 7:
			tags["resp-auth-badmac"] = true
		case 13:
			tags["resp-mac-other-epoch"] = true
		case 14:
			tags["resp-mac-other-host-key"] = true
		case 15:
			tags["resp-mac-mock-key"] = true
		case 16:
			tags["resp-mac-previous-measurement-key"] = true
		case 0, 10:
			tags["resp-noauth"] = true
		default:
			tags["resp-auth-ignored"] = true
		}
		if r.Intn(8) == 0 {
			it.ntp = 1 + r.Intn(4)
			tags["resp-ntp-bad"] = true
		}
		if r.Intn(10) == 0 {
			it.addr = 1 + r.Intn(8)
			tags["resp-addr"] = true
		}
	}
	if r.Intn(4) == 0 { // the finished response (MAC included) is damaged on the way
		it.flip = 1 + r.Intn(1<<20)
		tags["resp-damaged"] = true
	}
	return it
}

func genKeyedCliCase(r *lib.Rng) (*cliCase, string) {
	tags := tagset{"nt": true, "keyed": true}
	cc := &cliCase{auth: r.Intn(8) != 0, seed: r.U64() >> 1, keyed: true}
	cc.mode = lib.Pick(r, modeOK, modeOK, modeOK, modeOK, modeOK, modeError, modeError, modeExpired, modeExpired, modeShort, modeLong)
	if cc.auth {
		tags["client-auth"] = true
		switch cc.scenario() {
		case 2:
			tags["client-without-key"] = true
		case 3:
			tags["client-stale-key"] = true
		}
	} else {
		tags["client-noauth"] = true
	}
	nx := lib.Pick(r, 1, 1, 2, 3)
	for i := 0; i < nx; i++ {
		n := lib.Pick(r, 1, 1, 2, 2, 2, 2, 3, 3)
		var s []item
		for j := 0; j < n; j++ {
			s = append(s, genKeyedItem(r, tags))
		}
		cc.scripts = append(cc.scripts, s)
	}
	return cc, tags.String()
}

func (d *drv) runKeyedCliAll(r *lib.Rng, n int) {
	type job struct {
		cc   *cliCase
		tags string
	}
	jobs := make(chan job)
	var wg sync.WaitGroup
	for w := 0; w < 16; w++ {
		wg.Add(1)
		go func(w int) {
			defer wg.Done()
			for j := range jobs {
				j.cc.worker = w
				d.runCli("cli.keyed", j.tags, j.cc, w%nSenders)
			}
		}(w)
	}
	for i := 0; i < n && !d.lost; i++ {
		cc, tags := genKeyedCliCase(r)
		jobs <- job{cc, tags}
	}
	close(jobs)
	wg.Wait()
}

// ---- the Fetcher's host-AS key cache, driven directly (kind drkey.cache) ----
// One real scion.Fetcher on the harness' daemon; calls with validity times across
// several epochs (the time is an argument of the call), several client ASes (one the
// daemon refuses), server hosts, and times going back and forth.  Observed: whether the
// daemon was asked, its answer, the result.  Times are offsets from the daemon's epoch base.

type cacheCall struct {
	proto        int
	srcIA, dstIA uint64
	srcHost      string
	off          int64 // ns from epochBase
}

func genCacheHistory(r *lib.Rng) []cacheCall {
	srcIA := uint64(1)<<48 | 0xff0000000100 | uint64(r.Intn(4))
	dstIAs := []uint64{uint64(1)<<48 | 0xff0000000200 | uint64(r.Intn(4)), uint64(2)<<48 | 0xff0000000300 | uint64(r.Intn(4)),
		uint64(1)<<48 | 0xff0000000000 | modeError<<8 | uint64(r.Intn(4))}
	hosts := []string{"10.1.1.1", "10.1.1.2", "fd00::7"}
	n := 4 + r.Intn(10)
	var cs []cacheCall
	t := int64(epochLen/2) + int64(r.Intn(1000))*int64(time.Second)
	for i := 0; i < n; i++ {
		switch r.Intn(8) {
		case 0, 1, 2: // a little later, same epoch most of the time
			t += int64(r.Intn(3600)) * int64(time.Second)
		case 3: // just before / at / after the end of the current epoch
			k := t / int64(epochLen)
			if t < 0 {
				k--
			}
			t = (k+1)*int64(epochLen) + int64(lib.Pick(r, -1, 0, 1, 1000))*int64(time.Millisecond)
		case 4: // a later epoch
			t += int64(epochLen) * int64(1+r.Intn(3))
		case 5: // back in time
			t -= int64(epochLen) * int64(1+r.Intn(2))
		}
		c := cacheCall{proto: tsProto, srcIA: srcIA, dstIA: lib.Pick(r, dstIAs[0], dstIAs[0], dstIAs[0], dstIAs[1], dstIAs[2]),
			srcHost: lib.Pick(r, hosts[0], hosts[0], hosts[0], hosts[1], hosts[2]), off: t}
		if r.Intn(12) == 0 {
			c.proto = tsProto + 1
		}
		if r.Intn(12) == 0 {
			c.srcIA ^= 1
		}
		cs = append(cs, c)
	}
	return cs
}

func cacheArgs(cs []cacheCall) string {
	var items []string
	for _, c := range cs {
		items = append(items, lib.L(lib.I(int64(c.proto)), lib.U(c.srcIA), lib.U(c.dstIA), lib.B([]byte(c.srcHost)), lib.I(c.off)))
	}
	return lib.L(items...)
}

func parseCacheArgs(args string) []cacheCall {
	f := strings.Fields(strings.NewReplacer("[", " ", "]", " ").Replace(args))
	var cs []cacheCall
	for i := 0; i+4 < len(f); i += 5 {
		cs = append(cs, cacheCall{proto: int(lib.ParseI(f[i])), srcIA: lib.ParseU(f[i+1]), dstIA: lib.ParseU(f[i+2]),
			srcHost: string(lib.ParseB(f[i+3])), off: lib.ParseI(f[i+4])})
	}
	return cs
}

func runCacheCase(tags string, cs []cacheCall) {
	f := scion.NewFetcher(scion.NewDaemonConnector(context.Background(), keyedDaemonAddr))
	keyStr := func(proto int, src, dst uint64, host string, nb, na time.Time, key []byte) string {
		return lib.L(lib.I(int64(proto)), lib.U(src), lib.U(dst), lib.B([]byte(host)),
			lib.I(int64(nb.Sub(epochBase))), lib.I(int64(na.Sub(epochBase))), lib.B(key))
	}
	var outs []string
	for _, c := range cs {
		val := epochBase.Add(time.Duration(c.off))
		theDaemon.mu.Lock()
		n0 := len(theDaemon.reqs)
		theDaemon.mu.Unlock()
		k, err := f.FetchHostASKey(context.Background(), drkey.HostASMeta{ProtoId: drkey.Protocol(c.proto), Validity: val,
			SrcIA: addr.IA(c.srcIA), DstIA: addr.IA(c.dstIA), SrcHost: c.srcHost})
		theDaemon.mu.Lock()
		asked := len(theDaemon.reqs) - n0
		theDaemon.mu.Unlock()
		// the daemon's answer to this request, recomputed (it is a function of the request)
		ans := lib.L()
		if modeOfPair(c.dstIA, c.srcIA) != modeError {
			e := epochOf(val)
			nb, na := epochBounds(e)
			hk := ownHostAS(ownLevel1(ownSV(c.srcIA, uint16(c.proto), e), c.dstIA), uint16(c.proto), parseHostString(c.srcHost))
			ans = keyStr(c.proto, c.srcIA, c.dstIA, c.srcHost, nb, na, hk)
		}
		res := lib.L()
		if err == nil {
			res = keyStr(int(k.ProtoId), uint64(k.SrcIA), uint64(k.DstIA), k.SrcHost, k.Epoch.NotBefore, k.Epoch.NotAfter, k.Key[:])
		}
		outs = append(outs, lib.L(lib.I(int64(asked)), ans, res))
	}
	theDaemon.takeReqs(func(daemonReq) bool { return true })
	emitCase("drkey.cache", tags, cacheArgs(cs), lib.V("0", lib.L(outs...)))
}

func keyedChild(a lib.Args) {
	ip := ownAddr(213)
	keyedDaemonAddr = startOwnDaemon(ip)
	keyFn = keyedKey
	stepFlags = keyedFlags
	srvKind = "srv.keyed"
	d := newDrvDaemon(keyedDaemonAddr)
	if a.Replay != "" {
		for _, l := range lib.ReplayLines(a.Replay) {
			switch l[0] {
			case "srv.keyed", "srv.strict", "srv.nokey":
				d.runSrvKind(l[0], l[1], parseSteps(l[2]))
			case "cli.keyed", "cli.strict", "cli.nokey":
				d.runCli(l[0], l[1], parseKeyedCliArgs(l[2]), 0)
			case "drkey.cache":
				runCacheCase(l[1], parseCacheArgs(l[2]))
			case "srv.par": // replayed one datagram after the other
				d.runSrvKind("srv.par", l[1], parseSteps(l[2]))
			}
		}
		return
	}
	r := lib.NewRng(a.Seed ^ 0x6b657965)
	n, nCli := 250, 250
	if a.Tier == "thorough" {
		n, nCli = 2500, 2500
	}
	if raceMode {
		rp := r.Fork()
		for i := 0; i < 150 && !d.lost; i++ {
			d.runParallel(rp)
		}
		d.runKeyedCliAll(r.Fork(), 300)
		return
	}
	rk := r.Fork()
	for i := 0; i < 2*n; i++ {
		runCacheCase("nt,key-cache", genCacheHistory(rk))
	}
	for i := 0; i < n && !d.lost; i++ {
		steps, tags := d.genKeyedHistory(r)
		d.runSrvKind("srv.keyed", tags, steps)
	}
	rp := r.Fork()
	for i := 0; i < n/10 && !d.lost; i++ {
		d.runParallel(rp)
	}
	// kind srv.nokey: authenticated requests of clients in ASes for which the daemon refuses the key
	// (error, key of a wrong length): the authenticator cannot verify
	rn := r.Fork()
	for i := 0; i < n/4 && !d.lost; {
		tags := tagset{"nt": true, "keyed": true, "daemon-refuses": true}
		listener := rn.Intn(2)
		h := d.genSpec(rn, listener, tags)
		h.srcIA = uint64(1+rn.Intn(3))<<48 | 0xff0000000000 | uint64(lib.Pick(rn, modeError, modeError, modeShort, modeLong))<<8 | uint64(rn.Intn(64))
		h.payload = ntpRequest(rn, 0)
		addAuth(rn, h, lib.Pick(rn, 0, 0, 1, 8), tagset{})
		h.hbh = false
		if h.auth >= 0 { // the MAC under the key the daemon withholds
			h.key = ownKey(h.dstIA, h.srcIA, h.dstRaw, h.srcRaw, epochOf(time.Now()))
		}
		raw, err := h.build()
		if err != nil || probeCandidate(raw) {
			continue
		}
		i++
		d.runSrvKind("srv.nokey", tags.String(), []step{{listener: listener, sender: rn.Intn(nSenders), raw: raw}})
	}
	// kind cli.nokey: clients with authentication enabled whose key the daemon refuses, answered with
	// responses that carry the server's authenticator (any MAC)
	rc := r.Fork()
	for i := 0; i < n/8 && !d.lost; i++ {
		cc := &cliCase{auth: true, seed: rc.U64() >> 1, keyed: true, mode: lib.Pick(rc, modeError, modeError, modeShort, modeLong)}
		cc.scripts = [][]item{{{auth: lib.Pick(rc, 2, 3, 15, 1)}}}
		if rc.Bool() {
			cc.scripts = append(cc.scripts, []item{{auth: lib.Pick(rc, 2, 15)}, {auth: 0}})
		}
		d.runCli("cli.nokey", "nt,client-auth,client-without-key,keyed,resp-auth-badmac", cc, rc.Intn(nSenders))
	}
	d.runKeyedCliAll(r.Fork(), nCli)
}

// ---- parallel steps (kind srv.par) ----
// All six sending sockets at once (six source 4-tuples: the kernel spreads them over the
// listener goroutines, which share nothing but the provider and the metrics), each sending
// 4..10 requests of clients with different hosts and keys - valid MAC, damaged MAC, the key
// of another host, plain - one after the other, each followed by its own sentinel.  Every
// (request, what came back at the sending socket) pair is one step of the case.
func (d *drv) runParallel(r *lib.Rng) {
	tags := tagset{"nt": true, "keyed": true, "parallel": true}
	srvIA := uint64(1+r.Intn(3))<<48 | 0xff0000000100 | uint64(r.Intn(64))
	_, srvHost := genHost(r, false)
	type job struct {
		steps []step
		outs  []string
	}
	jobs := make([]*job, nSenders)
	for s := 0; s < nSenders; s++ {
		j := &job{}
		cliIA := uint64(1+r.Intn(3))<<48 | 0xff0000000200 | uint64(r.Intn(64))
		n := 4 + r.Intn(7)
		for len(j.steps) < n {
			ct, ch := genHost(r, r.Intn(3) == 0)
			h := &pktSpec{auth: -1, dstIA: srvIA, srcIA: cliIA, dstType: 0, dstRaw: srvHost, srcType: ct, srcRaw: ch,
				tc: uint8(r.U64()), flow: uint32(r.U64()) & 0xfffff, udpSrc: uint16(20000 + r.Intn(10000)), udpDst: uint16(scionPort)}
			h.pathType, h.pathRaw = genPath(r, tagset{})
			h.payload = ntpRequest(r, 0)
			switch r.Intn(6) {
			case 0:
				addAuth(r, h, 1, tagset{})
				tags["keyed-badmac"] = true
			case 1:
				addAuth(r, h, 0, tagset{})
				other := append([]byte(nil), ch...)
				other[len(other)-1] ^= 1
				h.key = hostHostKey(srvIA, cliIA, srvHost, other)
				tags["key-of-other-client"] = true
			case 2:
				tags["plain"] = true
			default:
				addAuth(r, h, 0, tagset{})
				tags["key-of-addressed-host"] = true
			}
			raw, err := h.build()
			if err != nil || probeCandidate(raw) {
				continue
			}
			j.steps = append(j.steps, step{listener: 0, sender: s, raw: raw})
		}
		jobs[s] = j
	}
	base := d.seq
	d.seq += uint32(nSenders) * 1000
	d.carry = append(d.carry, d.drainAll()...)
	var wg sync.WaitGroup
	lost := make([]bool, nSenders)
	for s := 0; s < nSenders; s++ {
		wg.Add(1)
		go func(s int) {
			defer wg.Done()
			c := d.socks[s]
			dst := d.listenerAddr(0)
			buf := make([]byte, 65536)
			for i, st := range jobs[s].steps {
				seq := base + uint32(s)*1000 + uint32(i) + 1
				c.WriteToUDP(st.raw, dst)
				c.WriteToUDP(sentinelWithSeq(d.hIP, seq), dst)
				var reps []obs
				nsent := 0
				for attempts, deadline := 1, time.Now().Add(readTimeout); ; {
					c.SetReadDeadline(deadline)
					n, _, err := c.ReadFromUDP(buf)
					if err != nil {
						if attempts < 3 {
							attempts++
							deadline = time.Now().Add(readTimeout)
							c.WriteToUDP(sentinelWithSeq(d.hIP, seq), dst)
							continue
						}
						lost[s] = true
						break
					}
					b := append([]byte(nil), buf[:n]...)
					if x, ok := sentinelSeqOf(b); ok {
						if x == seq {
							nsent = 1
							break
						}
						continue // a late answer to an earlier sentinel of this socket
					}
					reps = append(reps, obs{s, b})
				}
				jobs[s].outs = append(jobs[s].outs, lib.L(view(st.raw), obsList(reps), lib.I(int64(nsent)), "1", "1", lib.L()))
				if lost[s] {
					return
				}
			}
		}(s)
	}
	wg.Wait()
	theDaemon.takeReqs(func(q daemonReq) bool { return !q.hostHost })
	var steps []step
	var outs []string
	for s := 0; s < nSenders; s++ {
		if lost[s] {
			d.lost = true
		}
		steps = append(steps, jobs[s].steps[:len(jobs[s].outs)]...)
		outs = append(outs, jobs[s].outs...)
	}
	emitCase("srv.par", tags.String(), stepsString(steps), lib.V("0", d.cfgString(), lib.L(outs...)))
}

func sentinelWithSeq(hIP net.IP, seq uint32) []byte {
	h := &pktSpec{dstIA: 0x0001ff0000000112, srcIA: 0x0001ff0000000111,
		dstRaw: []byte{10, 9, 8, 7}, srcRaw: append([]byte(nil), hIP...), auth: -1, udpSrc: 31002, udpDst: uint16(scionPort)}
	s := make([]byte, ntp.PacketLen)
	s[0] = 4<<3 | 3
	binary.BigEndian.PutUint32(s[40:], sentinelSecs)
	binary.BigEndian.PutUint32(s[44:], seq)
	h.payload = s
	raw, err := h.build()
	if err != nil {
		panic(err)
	}
	return raw
}

func sentinelSeqOf(b []byte) (uint32, bool) {
	p := parse(b)
	if !p.ok || !p.isUDP || len(p.udp.Payload) < ntp.PacketLen {
		return 0, false
	}
	pl := p.udp.Payload
	if binary.BigEndian.Uint32(pl[24:]) != sentinelSecs {
		return 0, false
	}
	return binary.BigEndian.Uint32(pl[28:]), true
}
