package c13lib

// Kind srv.fwdnots: packets for another end-host port reach the end-host port listeners
// WITHOUT a kernel receive timestamp: the harness switches the receive timestamps of the
// listener sockets off (SO_TIMESTAMPING with SOF_TIMESTAMPING_OPT_RX_FILTER and without
// RX_SOFTWARE, as C06's lsn.fallback does), so that the forwarder has no timestamp option to
// add.  What must be forwarded then is stated by C13_forward_extensions: an end-to-end
// extension that directly follows the SCION header goes out with all its options.
// Packets with a hop-by-hop extension are their own kind (srv.fwdhbh): before the repair of the
// forwarding branch NextHdr kept naming the hop-by-hop extension although none was written; now
// they go out as SCION/UDP and are judged by the same forward oracle.

import (
	"fmt"
	"os"
	"strings"

	"golang.org/x/sys/unix"

	"verifharness/lib"
)

const sofTimestampingOptRxFilter = 1 << 17 // SOF_TIMESTAMPING_OPT_RX_FILTER (Linux 6.12)

// listenerFds: the UDP sockets of this process bound to the end-host port of the server or the dispatcher.
func (d *drv) listenerFds() []int {
	ents, err := os.ReadDir("/proc/self/fd")
	if err != nil {
		return nil
	}
	var fds []int
	for _, e := range ents {
		var fd int
		if _, err := fmt.Sscanf(e.Name(), "%d", &fd); err != nil {
			continue
		}
		sa, err := unix.Getsockname(fd)
		if err != nil {
			continue
		}
		a, ok := sa.(*unix.SockaddrInet4)
		if !ok || a.Port != endhostPort {
			continue
		}
		ip := []byte{a.Addr[0], a.Addr[1], a.Addr[2], a.Addr[3]}
		if string(ip) != string(d.srvIP.To4()) && string(ip) != string(d.dispIP.To4()) {
			continue
		}
		if t, err := unix.GetsockoptInt(fd, unix.SOL_SOCKET, unix.SO_TYPE); err == nil && t == unix.SOCK_DGRAM {
			fds = append(fds, fd)
		}
	}
	return fds
}

func rxStamps(fds []int, on bool) error {
	flags := unix.SOF_TIMESTAMPING_OPT_ID | unix.SOF_TIMESTAMPING_OPT_TSONLY |
		unix.SOF_TIMESTAMPING_SOFTWARE | unix.SOF_TIMESTAMPING_TX_SOFTWARE
	if on {
		flags |= unix.SOF_TIMESTAMPING_RX_SOFTWARE
	} else {
		flags |= sofTimestampingOptRxFilter
	}
	for _, fd := range fds {
		if err := unix.SetsockoptInt(fd, unix.SOL_SOCKET, unix.SO_TIMESTAMPING_NEW, flags); err != nil {
			return err
		}
	}
	return nil
}

func (d *drv) genFwdNoTs(r *lib.Rng) (step, string, bool) {
	tags := tagset{"nt": true, "fwd-candidate": true, "no-rx-timestamp": true}
	listener := 1 + r.Intn(2)
	h := d.genSpec(r, listener, tags)
	h.dstType, h.dstRaw = 0, append([]byte(nil), d.hIP...)
	h.udpDst = uint16(lib.Pick(r, 31000, 31000, 31001, 31001, 31002, endhostPort))
	if r.Intn(3) == 0 {
		h.payload = r.Bytes(lib.Pick(r, 0, 1, 100, 257, 1472))
	}
	switch r.Intn(6) {
	case 0:
		tags["no-extension"] = true
	case 1: // an end-to-end extension behind a hop-by-hop extension
		addAuth(r, h, lib.Pick(r, 0, 1, 8, 9), tagset{})
		h.hbh = true
		tags["hbh"] = true
	default: // authenticated traffic: the end-to-end extension directly follows the SCION header
		addAuth(r, h, lib.Pick(r, 0, 0, 1, 3, 6, 8, 9, 10), tagset{})
		h.hbh = false
		tags["e2e-extension"] = true
	}
	if listener == 2 {
		tags["dispatcher"] = true
	} else {
		tags["via-endhost-port"] = true
	}
	raw, err := h.build()
	if err != nil || probeCandidate(raw) {
		return step{}, "", false
	}
	return step{listener: listener, sender: r.Intn(nSenders), raw: raw}, tags.String(), true
}

// runFwdNoTs: n single-step cases with the receive timestamps of the end-host port listeners off.
func (d *drv) runFwdNoTs(r *lib.Rng, n int, replay [][]string) {
	fds := d.listenerFds()
	if len(fds) == 0 {
		note("srv.fwdnots skipped: listener sockets not found")
		return
	}
	if err := rxStamps(fds, false); err != nil {
		note(fmt.Sprintf("srv.fwdnots skipped: receive timestamps cannot be switched off here (%v)", err))
		rxStamps(fds, true)
		return
	}
	defer rxStamps(fds, true)
	if replay != nil {
		for _, l := range replay {
			d.runSrvKind(l[0], l[1], parseSteps(l[2]))
		}
		return
	}
	for i := 0; i < n && !d.lost; {
		s, tags, ok := d.genFwdNoTs(r)
		if !ok {
			continue
		}
		i++
		kind := "srv.fwdnots"
		if strings.Contains(tags, ",hbh,") { // their own kind: found the malformed forward before its repair
			kind = "srv.fwdhbh"
		}
		d.runSrvKind(kind, tags, []step{s})
	}
}
