package c13lib

// Kind srv.dual: the listener is configured with the IPv6 wildcard address "::" (a dual-stack
// socket, net.ipv6.bindv6only = 0): the harness' IPv4 sockets appear to it as IPv4-mapped
// previous hops.  Every reply must still arrive at the sending socket (the previous hop: its
// address AND its port, which differs from the SCION/UDP source port of the request as it does
// behind a border router); requests whose SCION/UDP source port is the port of another harness
// socket at the same address make a reply to <previous hop address>:<L4 source port> visible.
// The child runs in a network namespace of its own (the wildcard address on the fixed end-host
// port 30041 cannot be bound while other processes hold that port on the host's loopback, and
// wildcard sockets of parallel runs would share their datagrams).
//
// Kind srv.fwdnots (fwdnots.go) is driven from the first child.

import (
	"net"
	"os"
	"strings"

	"golang.org/x/sys/unix"

	"verifharness/lib"
)

func dualStackOK() bool {
	b, err := os.ReadFile("/proc/sys/net/ipv6/bindv6only")
	if err != nil || strings.TrimSpace(string(b)) != "0" {
		return false
	}
	c, err := net.ListenUDP("udp6", &net.UDPAddr{IP: net.IPv6loopback})
	if err != nil {
		return false
	}
	c.Close()
	return true
}

// loUp brings the loopback interface of a fresh network namespace up.
func loUp() error {
	fd, err := unix.Socket(unix.AF_INET, unix.SOCK_DGRAM, 0)
	if err != nil {
		return err
	}
	defer unix.Close(fd)
	ifr, err := unix.NewIfreq("lo")
	if err != nil {
		return err
	}
	if err := unix.IoctlIfreq(fd, unix.SIOCGIFFLAGS, ifr); err != nil {
		return err
	}
	ifr.SetUint16(ifr.Uint16() | unix.IFF_UP)
	return unix.IoctlIfreq(fd, unix.SIOCSIFFLAGS, ifr)
}

func dualChild(a lib.Args) {
	if err := loUp(); err != nil {
		note("srv.dual skipped: loopback of the child's network namespace cannot be brought up: " + err.Error())
		return
	}
	if !dualStackOK() {
		note("srv.dual skipped: no IPv6 loopback or net.ipv6.bindv6only != 0")
		return
	}
	srvKind = "srv.dual"
	d := newDrvBind("", net.IPv6unspecified)
	if a.Replay != "" {
		for _, l := range lib.ReplayLines(a.Replay) {
			if l[0] == "srv.dual" {
				d.runSrvKind("srv.dual", l[1], parseSteps(l[2]))
			}
		}
		return
	}
	r := lib.NewRng(a.Seed ^ 0x6475616c)
	n := 200
	if a.Tier == "thorough" {
		n = 2000
	}
	for i := 0; i < n && !d.lost; i++ {
		tags := tagset{"nt": true, "dual-stack-listener": true}
		var steps []step
		for len(steps) < 1+r.Intn(3) {
			listener := lib.Pick(r, 0, 0, 0, 1)
			h := d.genSpec(r, listener, tags)
			switch r.Intn(5) {
			case 0:
				h.scmp = true
				h.scmpType = lib.Pick(r, uint8(128), 130)
				h.payload = r.Bytes(lib.Pick(r, 8, 40, 64))
				tags["scmp-request"] = true
			case 1, 2:
				addAuth(r, h, lib.Pick(r, 0, 0, 1), tags)
			}
			raw, err := h.build()
			if err != nil || probeCandidate(raw) {
				continue
			}
			steps = append(steps, step{listener: listener, sender: r.Intn(nSenders), raw: raw})
		}
		d.runSrvKind("srv.dual", tags.String(), steps)
	}
}
