package c13lib

// The harness' own DRKey hierarchy and DRKey daemon.
//
// Nothing in this file calls scionproto's pkg/drkey or the project's
// net/scion: the key hierarchy is written from the DRKey specification
// (docs.scion.org/en/latest/cryptography/drkey.html):
//
//   PRF            AES-128 CBC-MAC, zero IV, over the zero-padded input
//   SV_A           secret value of AS A per epoch and protocol (here: a hash of
//                  a harness secret; in SCION it never leaves A's control service)
//   K_{A->B}       = PRF_{SV_A}( 0x00 || B (8 bytes) )                               level 1
//   K_{A:HA->B}    = PRF_{K_{A->B}}( 0x02 || proto (2) || type(HA) || HA )           host-AS, generic derivation
//   K_{A:HA->B:HB} = PRF_{K_{A:HA->B}}( 0x03 || type(HB) || HB )                     host-host
//
// A is the fast side: for the time service the server (it derives the key on the fly
// from the host-AS key), B:HB the client (it asks its control service for the
// host-host key).  The daemon answers the two requests the project makes
// (DRKeyHostAS by the listener, DRKeyHostHost by the client) for whatever the
// request names; the key the oracle expects for a datagram is computed from
// the datagram's own address header with the roles above.

import (
	"context"
	"crypto/aes"
	"crypto/sha256"
	"encoding/binary"
	"errors"
	"net"
	"net/netip"
	"sync"
	"time"

	"google.golang.org/grpc"
	"google.golang.org/protobuf/types/known/timestamppb"

	sdpb "github.com/scionproto/scion/pkg/proto/daemon"

	"verifharness/lib"
)

const (
	tsProto     = 123 // protocol number of the time service (SPI low 16 bits)
	epochLen    = 12 * time.Hour
	modeOK      = 0
	modeError   = 5 // the daemon answers with an error
	modeExpired = 6 // the daemon answers with the key of an epoch that ended 18 h ago
	modeShort   = 7 // ... with an 8-byte key
	modeLong    = 8 // ... with a 32-byte key
)

var epochBase time.Time // epoch k = [epochBase + k*epochLen, epochBase + (k+1)*epochLen)

func epochOf(t time.Time) int64 {
	d := t.Sub(epochBase)
	k := int64(d / epochLen)
	if d < 0 && d%epochLen != 0 {
		k--
	}
	return k
}

func epochBounds(k int64) (time.Time, time.Time) {
	b := epochBase.Add(time.Duration(k) * epochLen)
	return b, b.Add(epochLen)
}

// modeOfIA: how the daemon treats requests that name this AS (as the slow side, the
// client, or - if the client's AS is an ordinary one - as the fast side, the server).
func modeOfIA(ia uint64) int {
	switch m := int(ia>>8) & 0xff; m {
	case modeError, modeExpired, modeShort, modeLong:
		return m
	}
	return modeOK
}

func modeOfPair(cliIA, srvIA uint64) int {
	if m := modeOfIA(cliIA); m != modeOK {
		return m
	}
	return modeOfIA(srvIA)
}

func cbcMacAES(key, input []byte) []byte {
	if len(key) != 16 || len(input) == 0 || len(input)%16 != 0 {
		panic("cbcMacAES: bad lengths")
	}
	blk, err := aes.NewCipher(key)
	if err != nil {
		panic(err)
	}
	x := make([]byte, 16)
	for off := 0; off < len(input); off += 16 {
		for i := 0; i < 16; i++ {
			x[i] ^= input[off+i]
		}
		blk.Encrypt(x, x)
	}
	return x
}

func pad16(b []byte) []byte {
	n := (len(b) + 15) / 16 * 16
	return append(b, make([]byte, n-len(b))...)
}

// hostType: the 4-bit SCION address type of an IP host address (T4Ip = 0, T16Ip = 3).
func hostType(raw []byte) (byte, bool) {
	switch len(raw) {
	case 4:
		return 0, true
	case 16:
		return 3, true
	}
	return 0, false
}

func ownSV(ia uint64, proto uint16, epoch int64) []byte {
	var b [8 + 2 + 8]byte
	binary.BigEndian.PutUint64(b[0:], ia)
	binary.BigEndian.PutUint16(b[8:], proto)
	binary.BigEndian.PutUint64(b[10:], uint64(epoch))
	h := sha256.Sum256(append([]byte("c13 harness secret value/"), b[:]...))
	return h[:16]
}

func ownLevel1(sv []byte, slowIA uint64) []byte {
	in := make([]byte, 9)
	in[0] = 0
	binary.BigEndian.PutUint64(in[1:], slowIA)
	return cbcMacAES(sv, pad16(in))
}

func ownHostAS(l1 []byte, proto uint16, fastHost []byte) []byte {
	t, ok := hostType(fastHost)
	if !ok {
		return nil
	}
	in := []byte{2, byte(proto >> 8), byte(proto), t}
	in = append(in, fastHost...)
	return cbcMacAES(l1, pad16(in))
}

func ownHostHost(hostAS []byte, slowHost []byte) []byte {
	t, ok := hostType(slowHost)
	if !ok || hostAS == nil {
		return nil
	}
	in := []byte{3, t}
	in = append(in, slowHost...)
	return cbcMacAES(hostAS, pad16(in))
}

// ownKey: the host-host key of the time service between server host srvHost in
// srvIA and client host cliHost in cliIA in the given epoch.
func ownKey(srvIA, cliIA uint64, srvHost, cliHost []byte, epoch int64) []byte {
	return ownHostHost(ownHostAS(ownLevel1(ownSV(srvIA, tsProto, epoch), cliIA), tsProto, srvHost), cliHost)
}

// epochServed: the epoch whose key the daemon hands out for a request of this client AS now.
func epochServed(cliIA, srvIA uint64) int64 {
	k := epochOf(time.Now())
	if modeOfPair(cliIA, srvIA) == modeExpired {
		return k - 2
	}
	return k
}

// expectedKey: the key both ends hold for a datagram exchanged between this
// server and client, nil if the daemon does not hand one out.
func expectedKey(srvIA, cliIA uint64, srvHost, cliHost []byte) []byte {
	switch modeOfPair(cliIA, srvIA) {
	case modeError, modeShort, modeLong:
		return nil
	}
	return ownKey(srvIA, cliIA, srvHost, cliHost, epochServed(cliIA, srvIA))
}

// ---- the daemon ----

type daemonReq struct {
	val              time.Time
	hostHost         bool
	proto            int32
	srcIA, dstIA     uint64
	srcHost, dstHost string
}

type ownDaemon struct {
	sdpb.UnimplementedDaemonServiceServer
	mu   sync.Mutex
	reqs []daemonReq
}

var theDaemon = &ownDaemon{}

func parseHostString(s string) []byte {
	a, err := netip.ParseAddr(s)
	if err != nil {
		return nil
	}
	if a.Is4() {
		b := a.As4()
		return b[:]
	}
	b := a.As16()
	return b[:]
}

func (d *ownDaemon) answer(val time.Time, cliIA, srvIA uint64, key func(epoch int64) []byte) (*timestamppb.Timestamp, *timestamppb.Timestamp, []byte, error) {
	k := epochOf(val)
	mode := modeOfPair(cliIA, srvIA)
	switch mode {
	case modeError:
		return nil, nil, nil, errors.New("drkey: no key for this AS")
	case modeExpired:
		k -= 2
	}
	kb := key(k)
	if kb == nil {
		return nil, nil, nil, errors.New("drkey: unsupported host address")
	}
	switch mode {
	case modeShort:
		kb = kb[:8]
	case modeLong:
		kb = append(kb, kb...)
	}
	b, e := epochBounds(k)
	return timestamppb.New(b), timestamppb.New(e), kb, nil
}

func (d *ownDaemon) DRKeyHostAS(ctx context.Context, req *sdpb.DRKeyHostASRequest) (*sdpb.DRKeyHostASResponse, error) {
	d.mu.Lock()
	d.reqs = append(d.reqs, daemonReq{req.ValTime.AsTime(), false, int32(req.ProtocolId), req.SrcIa, req.DstIa, req.SrcHost, ""})
	d.mu.Unlock()
	b, e, k, err := d.answer(req.ValTime.AsTime(), req.DstIa, req.SrcIa, func(epoch int64) []byte {
		return ownHostAS(ownLevel1(ownSV(req.SrcIa, uint16(req.ProtocolId), epoch), req.DstIa), uint16(req.ProtocolId), parseHostString(req.SrcHost))
	})
	if err != nil {
		return nil, err
	}
	return &sdpb.DRKeyHostASResponse{EpochBegin: b, EpochEnd: e, Key: k}, nil
}

func (d *ownDaemon) DRKeyHostHost(ctx context.Context, req *sdpb.DRKeyHostHostRequest) (*sdpb.DRKeyHostHostResponse, error) {
	d.mu.Lock()
	d.reqs = append(d.reqs, daemonReq{req.ValTime.AsTime(), true, int32(req.ProtocolId), req.SrcIa, req.DstIa, req.SrcHost, req.DstHost})
	d.mu.Unlock()
	b, e, k, err := d.answer(req.ValTime.AsTime(), req.DstIa, req.SrcIa, func(epoch int64) []byte {
		return ownHostHost(ownHostAS(ownLevel1(ownSV(req.SrcIa, uint16(req.ProtocolId), epoch), req.DstIa), uint16(req.ProtocolId),
			parseHostString(req.SrcHost)), parseHostString(req.DstHost))
	})
	if err != nil {
		return nil, err
	}
	return &sdpb.DRKeyHostHostResponse{EpochBegin: b, EpochEnd: e, Key: k}, nil
}

func startOwnDaemon(ip net.IP) string {
	epochBase = time.Now().Add(-epochLen / 2)
	l, err := net.Listen("tcp", net.JoinHostPort(ip.String(), "0"))
	if err != nil {
		panic(err)
	}
	s := grpc.NewServer()
	sdpb.RegisterDaemonServiceServer(s, theDaemon)
	go s.Serve(l)
	return l.Addr().String()
}

// takeReqs removes and returns the logged requests that satisfy sel.
func (d *ownDaemon) takeReqs(sel func(daemonReq) bool) []daemonReq {
	d.mu.Lock()
	defer d.mu.Unlock()
	var res, rest []daemonReq
	for _, r := range d.reqs {
		if sel(r) {
			res = append(res, r)
		} else {
			rest = append(rest, r)
		}
	}
	d.reqs = rest
	return res
}

// reqsString: [[hostHost proto fastIA slowIA fastHost slowHost timeOK] ...]; timeOK: the
// validity time asked for lies in [from, to]
func reqsString(rs []daemonReq, from, to time.Time) string {
	var items []string
	for _, r := range rs {
		ok := !r.val.Before(from) && !r.val.After(to)
		items = append(items, lib.L(lib.Bool(r.hostHost), lib.I(int64(r.proto)), lib.U(r.srcIA), lib.U(r.dstIA),
			lib.B(parseHostString(r.srcHost)), lib.B(parseHostString(r.dstHost)), lib.Bool(ok)))
	}
	return lib.L(items...)
}
