package c13lib

import (
	"bytes"
	"context"
	"encoding/binary"
	"fmt"
	"log/slog"
	"net"
	"os"
	"os/exec"
	"strings"
	"syscall"
	"time"

	"github.com/google/gopacket"
	"github.com/prometheus/client_golang/prometheus"
	"github.com/scionproto/scion/pkg/addr"
	"github.com/scionproto/scion/pkg/slayers"
	"github.com/scionproto/scion/pkg/slayers/path"
	"github.com/scionproto/scion/pkg/slayers/path/empty"
	"github.com/scionproto/scion/pkg/slayers/path/onehop"
	scionpath "github.com/scionproto/scion/pkg/slayers/path/scion"
	"github.com/scionproto/scion/pkg/spao"

	"example.com/scion-time/core/server"
	"example.com/scion-time/core/timebase"
	"example.com/scion-time/net/ntp"
	"example.com/scion-time/net/ntske"
	"example.com/scion-time/net/scion"

	"verifharness/lib"
)

const (
	endhostPort  = 30041
	srvDSCP      = 10
	sentinelSecs = 0x5E471E13
	readTimeout  = 10 * time.Second
	nSenders     = 6
)

// scionPort: the listener's own port (localHostPort); the dual-stack child uses a port of its own
var scionPort = 10123

// ports of the harness sockets that can be the target of a forwarded packet
// (or of a reply that wrongly goes to the SCION source instead of the previous hop)
var targetPorts = []int{31000, 31001, endhostPort, 10123, 31002}

type sysClock struct{}

func (sysClock) Epoch() uint64                                    { return 0 }
func (sysClock) Now() time.Time                                   { return time.Now().UTC() }
func (sysClock) Drift(d time.Duration) time.Duration              { return 0 }
func (sysClock) Step(offset time.Duration)                        {}
func (sysClock) Adjust(offset, duration time.Duration, f float64) {}
func (sysClock) Sleep(d time.Duration)                            { time.Sleep(d) }

type obs struct {
	rcv  int
	data []byte
}

type drv struct {
	provider *ntske.Provider
	srvIP    net.IP // StartSCIONServer: srvIP:scionPort and srvIP:endhostPort
	dispIP   net.IP // StartSCIONDispatcher: dispIP:endhostPort
	hIP      net.IP // harness sockets
	socks    []*net.UDPConn
	seq      uint32
	lost     bool // a sentinel went unanswered three times: stop driving
	seqLo    uint32 // != 0: sentinels seqLo..seq belong to the step in progress
	srvReg   *prometheus.Registry
	dispReg  *prometheus.Registry
	probes   []step
	carry    []obs // datagrams found queued before a throw-away process ran: part of the next step's observation
}

// mainDrv is the driver of this process when it can start throw-away processes
// (nil inside a throw-away process).
var mainDrv *drv

func (d *drv) drainAll() (res []obs) {
	for i, s := range d.socks {
		for _, b := range drain(s) {
			res = append(res, obs{i, b})
		}
	}
	return res
}

func ownAddr(second byte) net.IP {
	pid := os.Getpid()
	return net.IPv4(127, second, byte(pid>>8), byte(pid)).To4()
}

func newDrv() *drv { return newDrvDaemon("") }

// newDrvDaemon: the listeners fetch their DRKeys from the daemon at daemonAddr ("" = none: mock keys only).
func newDrvDaemon(daemonAddr string) *drv { return newDrvBind(daemonAddr, nil) }

// newDrvBind: bind != nil: the listener's configured local address (e.g. the IPv6 wildcard: a
// dual-stack socket); datagrams are sent to srvIP, which then has no socket of its own.
func newDrvBind(daemonAddr string, bind net.IP) *drv {
	d := &drv{}
	timebase.RegisterClock(sysClock{})
	d.provider = ntske.NewProvider()
	theProvider = d.provider
	d.srvIP = ownAddr(13)
	d.dispIP = ownAddr(113)
	d.hIP = ownAddr(213)
	log := slog.New(slog.DiscardHandler)
	if os.Getenv("C13_LOG") != "" { // debugging aid: the listeners' log on stderr
		log = slog.New(slog.NewTextHandler(os.Stderr, nil))
	}
	ctx := context.Background()
	// the server and the dispatcher register the same collectors
	defReg := prometheus.DefaultRegisterer
	d.srvReg = prometheus.NewRegistry()
	prometheus.DefaultRegisterer = d.srvReg
	srvBind := d.srvIP
	if bind != nil {
		srvBind = bind
		d.srvIP = ownAddr(16)
	}
	server.StartSCIONServer(ctx, log, daemonAddr, &net.UDPAddr{IP: srvBind, Port: scionPort}, srvDSCP, d.provider)
	d.dispReg = prometheus.NewRegistry()
	prometheus.DefaultRegisterer = d.dispReg
	ports := targetPorts
	if bind == nil {
		server.StartSCIONDispatcher(ctx, log, &net.UDPAddr{IP: d.dispIP, Port: scionPort})
	} else {
		// the wildcard sockets of the listener own ports 10123 and 30041 of every local address:
		// no dispatcher, no harness socket on these ports
		ports = []int{31000, 31001, 31003, 31004, 31002}
	}
	prometheus.DefaultRegisterer = defReg
	for i := 0; i < nSenders+len(targetPorts); i++ {
		port := 0
		if i >= nSenders {
			port = ports[i-nSenders]
		}
		c, err := net.ListenUDP("udp4", &net.UDPAddr{IP: d.hIP, Port: port})
		if err != nil {
			panic(err)
		}
		c.SetReadBuffer(1 << 20)
		d.socks = append(d.socks, c)
	}
	return d
}

// cfgString: what the model needs to know about the set-up.
func (d *drv) cfgString() string {
	var socks []string
	for _, s := range d.socks {
		a := s.LocalAddr().(*net.UDPAddr)
		socks = append(socks, lib.L(lib.B(a.IP.To4()), lib.I(int64(a.Port))))
	}
	return lib.L(lib.I(int64(scionPort)), lib.I(srvDSCP), lib.I(nSenders), lib.L(socks...))
}

// drain returns what is queued on a socket right now without waiting.
func drain(c *net.UDPConn) [][]byte {
	var res [][]byte
	rc, err := c.SyscallConn()
	if err != nil {
		return nil
	}
	buf := make([]byte, 65536)
	for {
		n := -1
		rc.Read(func(fd uintptr) bool {
			m, _, err := syscall.Recvfrom(int(fd), buf, syscall.MSG_DONTWAIT)
			if err == nil {
				n = m
			}
			return true
		})
		if n < 0 {
			return res
		}
		res = append(res, append([]byte(nil), buf[:n]...))
	}
}

// ---- parsing exactly as the listener and the client do ----

type parsed struct {
	ok      bool
	layers  []gopacket.LayerType
	scn     slayers.SCION
	e2e     slayers.EndToEndExtn
	udp     slayers.UDP
	scmp    slayers.SCMP
	buflen  int
	hasE2E  bool
	isUDP   bool
	isSCMP  bool
	authOpt *slayers.EndToEndOption // first authenticator option, if any
}

func parse(raw []byte) (p *parsed) { return parseAs(raw, true) }

// parseAs: the listener recycles path objects (unknown path types then decode
// into a raw path), the client does not (unknown path types fail to decode).
func parseAs(raw []byte, recycle bool) (p *parsed) {
	p = &parsed{buflen: len(raw)}
	defer func() {
		if recover() != nil {
			p.ok = false
		}
	}()
	buf := append([]byte(nil), raw...)
	var hbh slayers.HopByHopExtnSkipper
	if recycle {
		p.scn.RecyclePaths()
	}
	p.udp.SetNetworkLayerForChecksum(&p.scn)
	p.scmp.SetNetworkLayerForChecksum(&p.scn)
	parser := gopacket.NewDecodingLayerParser(
		slayers.LayerTypeSCION, &p.scn, &hbh, &p.e2e, &p.udp, &p.scmp,
	)
	parser.IgnoreUnsupported = true
	decoded := make([]gopacket.LayerType, 4)
	err := parser.DecodeLayers(buf, &decoded)
	if err != nil {
		return p
	}
	p.ok = true
	p.layers = decoded
	n := len(decoded)
	if n >= 1 {
		p.isUDP = decoded[n-1] == slayers.LayerTypeSCIONUDP
		p.isSCMP = decoded[n-1] == slayers.LayerTypeSCMP
	}
	for _, l := range decoded {
		if l == slayers.LayerTypeEndToEndExtn {
			p.hasE2E = true
		}
	}
	if p.hasE2E {
		if o, err := p.e2e.FindOption(slayers.OptTypeAuthenticator); err == nil {
			p.authOpt = o
		}
	}
	return p
}

func layerCode(l gopacket.LayerType) int64 {
	switch l {
	case slayers.LayerTypeSCION:
		return 1
	case slayers.LayerTypeHopByHopExtn:
		return 2
	case slayers.LayerTypeEndToEndExtn:
		return 3
	case slayers.LayerTypeSCIONUDP:
		return 4
	case slayers.LayerTypeSCMP:
		return 5
	}
	return 9
}

func pathBytes(p path.Path) (uint8, []byte) {
	if p == nil {
		return 255, nil
	}
	b := make([]byte, p.Len())
	if err := p.SerializeTo(b); err != nil {
		return uint8(p.Type()), nil
	}
	return uint8(p.Type()), b
}

func buildPath(t uint8, raw []byte) (path.Path, error) {
	switch path.Type(t) {
	case empty.PathType:
		return empty.Path{}, nil
	case scionpath.PathType:
		p := &scionpath.Raw{}
		return p, p.DecodeFromBytes(append([]byte(nil), raw...))
	case onehop.PathType:
		p := &onehop.Path{}
		return p, p.DecodeFromBytes(append([]byte(nil), raw...))
	}
	return nil, fmt.Errorf("unsupported path type %d", t)
}

// reversed is the answer of Path.Reverse() for a path, computed on a copy with
// the library the listener uses: [] (error) or [type raw].
func reversed(t uint8, raw []byte) (res string) {
	defer func() {
		if recover() != nil {
			res = lib.L()
		}
	}()
	p, err := buildPath(t, raw)
	if err != nil {
		return lib.L()
	}
	rp, err := p.Reverse()
	if err != nil {
		return lib.L()
	}
	rt, rb := pathBytes(rp)
	return lib.L(lib.U(uint64(rt)), lib.B(rb))
}

var zeroKey = make([]byte, 16)

// macOf recomputes, with the scionproto library and the mock DRKey, the MAC of
// the first authenticator option of a datagram the way both ends do it
// (payload type UDP, payload = the last udp.Length bytes of the datagram).
// Empty when there is nothing to compute it for.
func macOf(p *parsed, raw []byte) []byte { return macOfKey(p, raw, nil) }

// keyFn is the host-host key both ends use for a datagram: the mock key, or in
// the keyed child the key the fake DRKey daemon hands out for the addressed
// server host and the client host (keyed.go).
var keyFn = func(p *parsed) []byte { return zeroKey }

func macOfKey(p *parsed, raw []byte, key []byte) (mac []byte) {
	defer func() {
		if recover() != nil {
			mac = nil
		}
	}()
	if !p.ok || !(p.isUDP || p.isSCMP) || p.authOpt == nil || len(p.authOpt.OptData) != scion.PacketAuthOptDataLen {
		return nil
	}
	// the L4 part AS PARSED: the UDP header and the payload the length field delimits (what the
	// receiver evaluates), not the tail of the datagram
	pldType := slayers.L4UDP
	pld := append(append([]byte(nil), p.udp.Contents...), p.udp.Payload...)
	if p.isSCMP { // nobody verifies these; the MAC an end would compute over the SCMP message
		pldType = slayers.L4SCMP
		pld = append(append([]byte(nil), p.scmp.Contents...), p.scmp.Payload...)
	}

	if key == nil {
		key = keyFn(p)
	}
	if len(key) == 0 { // nil: this datagram has no key; empty: the caller says there is none
		return nil
	}
	out := make([]byte, 16)
	aux := make([]byte, spao.MACBufferSize)
	_, err := spao.ComputeAuthCMAC(spao.MACInput{
		Key:        key,
		Header:     slayers.PacketAuthOption{EndToEndOption: p.authOpt},
		ScionLayer: &p.scn,
		PldType:    pldType,
		Pld:        pld,
	}, aux, out)
	if err != nil {
		return nil
	}
	return out
}

func ntpRequestOK(b []byte) bool {
	if len(b) > ntp.PacketLen {
		return ntsValid(b) // the NTS branch
	}
	if len(b) != ntp.PacketLen {
		return false
	}
	var q ntp.Packet
	if ntp.DecodePacket(&q, b) != nil {
		return false
	}
	return ntp.ValidateRequest(&q, 0) == nil
}

// view is the projection of a datagram that the model and the oracle work on:
// [ok layers hdr e2e l4 buflen reversed mac]
func view(raw []byte) string { return viewAs(raw, true) }

func viewAs(raw []byte, recycle bool) string { return viewKey(raw, recycle, nil) }

// viewKey: the MAC is recomputed under key (nil: the key keyFn names for the datagram, empty: none).
func viewKey(raw []byte, recycle bool, key []byte) string {
	p := parseAs(raw, recycle)
	if !p.ok {
		return lib.L("0", lib.L(), lib.L(), lib.L(), lib.L(), lib.I(int64(len(raw))), lib.L(), lib.B(nil))
	}
	var ls []string
	for _, l := range p.layers {
		ls = append(ls, lib.I(layerCode(l)))
	}
	pt, pb := pathBytes(p.scn.Path)
	hdr := lib.L(lib.U(uint64(p.scn.DstIA)), lib.U(uint64(p.scn.SrcIA)),
		lib.U(uint64(p.scn.DstAddrType)), lib.U(uint64(p.scn.SrcAddrType)),
		lib.B(p.scn.RawDstAddr), lib.B(p.scn.RawSrcAddr),
		lib.U(uint64(p.scn.PathType)), lib.B(pb),
		lib.U(uint64(p.scn.TrafficClass)), lib.U(uint64(p.scn.FlowID)), lib.U(uint64(p.scn.NextHdr)))
	_ = pt
	var opts []string
	if p.hasE2E {
		for _, o := range p.e2e.Options {
			opts = append(opts, lib.L(lib.U(uint64(o.OptType)), lib.B(o.OptData)))
		}
	}
	l4 := lib.L()
	if p.isUDP {
		l4 = lib.L("0", lib.U(uint64(p.udp.SrcPort)), lib.U(uint64(p.udp.DstPort)), lib.U(uint64(p.udp.Length)),
			lib.B(p.udp.Payload), lib.Bool(ntpRequestOK(p.udp.Payload)))
	} else if p.isSCMP {
		l4 = lib.L("1", lib.U(uint64(p.scmp.TypeCode.Type())), lib.U(uint64(p.scmp.TypeCode.Code())), lib.B(p.scmp.Payload))
	}
	return lib.L("1", lib.L(ls...), hdr, lib.L(opts...), l4, lib.I(int64(len(raw))),
		reversed(uint8(p.scn.PathType), pb), lib.B(macOfKey(p, raw, key)))
}

func obsList(os []obs) string {
	items := make([]string, len(os))
	for i, o := range os {
		items[i] = lib.L(lib.I(int64(o.rcv)), view(o.data))
	}
	return lib.L(items...)
}

// ---- building packets ----

type optSpec struct {
	typ  uint8
	data []byte
}

type pktSpec struct {
	dstIA, srcIA     uint64
	dstType, srcType uint8
	dstRaw, srcRaw   []byte
	pathType         uint8
	pathRaw          []byte
	tc               uint8
	flow             uint32
	hbh              bool
	e2e              bool
	opts             []optSpec
	auth             int // index into opts of the authenticator whose MAC is to be filled in, or -1
	key              []byte // key for that MAC; nil: the key both ends use for this datagram
	scmp             bool
	scmpType         uint8
	scmpCode         uint8
	udpSrc, udpDst   uint16
	payload          []byte
}

func (h *pktSpec) serialize() ([]byte, error) {
	p, err := buildPath(h.pathType, h.pathRaw)
	if err != nil {
		return nil, err
	}
	var scn slayers.SCION
	scn.Version = 0
	scn.TrafficClass = h.tc
	scn.FlowID = h.flow
	scn.PathType = path.Type(h.pathType)
	scn.Path = p
	scn.DstIA, scn.SrcIA = addr.IA(h.dstIA), addr.IA(h.srcIA)
	scn.DstAddrType, scn.SrcAddrType = slayers.AddrType(h.dstType), slayers.AddrType(h.srcType)
	scn.RawDstAddr, scn.RawSrcAddr = h.dstRaw, h.srcRaw
	l4type := slayers.L4UDP
	if h.scmp {
		l4type = slayers.L4SCMP
	}
	var ls []gopacket.SerializableLayer
	ls = append(ls, &scn)
	scn.NextHdr = l4type
	var hbh slayers.HopByHopExtn
	var e2e slayers.EndToEndExtn
	if h.e2e {
		e2e.NextHdr = l4type
		for _, o := range h.opts {
			e2e.Options = append(e2e.Options, &slayers.EndToEndOption{OptType: slayers.OptionType(o.typ), OptData: o.data})
		}
	}
	if h.hbh {
		scn.NextHdr = slayers.HopByHopClass
		hbh.NextHdr = l4type
		if h.e2e {
			hbh.NextHdr = slayers.End2EndClass
		}
		hbh.Options = []*slayers.HopByHopOption{{OptType: slayers.OptTypePadN, OptData: []byte{0, 0}}}
		ls = append(ls, &hbh)
	} else if h.e2e {
		scn.NextHdr = slayers.End2EndClass
	}
	if h.e2e {
		ls = append(ls, &e2e)
	}
	var udp slayers.UDP
	var scmp slayers.SCMP
	if h.scmp {
		scmp.TypeCode = slayers.CreateSCMPTypeCode(slayers.SCMPType(h.scmpType), slayers.SCMPCode(h.scmpCode))
		scmp.SetNetworkLayerForChecksum(&scn)
		ls = append(ls, &scmp)
	} else {
		udp.SrcPort, udp.DstPort = h.udpSrc, h.udpDst
		udp.SetNetworkLayerForChecksum(&scn)
		ls = append(ls, &udp)
	}
	ls = append(ls, gopacket.Payload(h.payload))
	sb := gopacket.NewSerializeBuffer()
	err = gopacket.SerializeLayers(sb, gopacket.SerializeOptions{ComputeChecksums: true, FixLengths: true}, ls...)
	if err != nil {
		return nil, err
	}
	return append([]byte(nil), sb.Bytes()...), nil
}

// build serialises the packet; if an authenticator is designated its MAC is
// computed (mock key) over the packet as the receiver will parse it and filled in.
func (h *pktSpec) build() (raw []byte, err error) {
	defer func() {
		if r := recover(); r != nil {
			raw, err = nil, fmt.Errorf("panic while building: %v", r)
		}
	}()
	raw, err = h.serialize()
	if err != nil || h.auth < 0 || !h.e2e {
		return raw, err
	}
	p := parse(raw)
	mac := macOfKey(p, raw, h.key)
	if mac == nil || len(h.opts[h.auth].data) != 28 {
		return raw, nil
	}
	// the designated option must be the first authenticator for macOf to describe it
	d := append([]byte(nil), h.opts[h.auth].data...)
	// compute over the designated option's own metadata
	if p.authOpt == nil || !bytes.Equal(p.authOpt.OptData[:12], d[:12]) {
		q := *h
		q.opts = append([]optSpec(nil), h.opts...)
		// move the designated option first for the computation
		q.opts[0], q.opts[h.auth] = q.opts[h.auth], q.opts[0]
		r2, err2 := q.serialize()
		if err2 != nil {
			return raw, nil
		}
		mac = macOfKey(parse(r2), r2, h.key)
		if mac == nil {
			return raw, nil
		}
	}
	copy(d[12:], mac)
	h.opts[h.auth].data = d
	return h.serialize()
}

func authMeta(spi uint32, algo uint8) []byte {
	d := make([]byte, 28)
	binary.BigEndian.PutUint32(d, spi)
	d[4] = algo
	return d
}

// ---- sentinels ----

func (d *drv) nextSentinelNTP() []byte {
	d.seq++
	s := make([]byte, ntp.PacketLen)
	s[0] = 4<<3 | 3
	binary.BigEndian.PutUint32(s[40:], sentinelSecs)
	binary.BigEndian.PutUint32(s[44:], d.seq)
	return s
}

func (d *drv) sentinelFor(listener int) []byte {
	h := &pktSpec{dstIA: 0x0001ff0000000112, srcIA: 0x0001ff0000000111,
		dstRaw: append([]byte(nil), d.hIP...), srcRaw: append([]byte(nil), d.hIP...), auth: -1,
		udpSrc: 31002, udpDst: uint16(scionPort)}
	if listener == 2 {
		d.seq++
		h.scmp, h.scmpType = true, uint8(slayers.SCMPTypeEchoRequest)
		h.payload = make([]byte, 12)
		binary.BigEndian.PutUint32(h.payload[4:], sentinelSecs)
		binary.BigEndian.PutUint32(h.payload[8:], d.seq)
	} else {
		h.payload = d.nextSentinelNTP()
	}
	raw, err := h.build()
	if err != nil {
		panic(err)
	}
	return raw
}

func (d *drv) seqOK(x uint32) bool {
	if d.seqLo != 0 {
		return d.seqLo <= x && x <= d.seq
	}
	return x == d.seq
}

// isSentinelAny: the sentinel request itself (forwarded) or an answer to it
func (d *drv) isSentinelAny(b []byte) bool {
	if d.isSentinelReply(b) {
		return true
	}
	p := parse(b)
	if p.ok && p.isUDP && len(p.udp.Payload) >= ntp.PacketLen {
		pl := p.udp.Payload
		return binary.BigEndian.Uint32(pl[40:]) == sentinelSecs && d.seqOK(binary.BigEndian.Uint32(pl[44:]))
	}
	return false
}

func (d *drv) isSentinelReply(b []byte) bool {
	p := parse(b)
	if !p.ok {
		return false
	}
	if p.isUDP && len(p.udp.Payload) >= ntp.PacketLen {
		pl := p.udp.Payload
		return binary.BigEndian.Uint32(pl[24:]) == sentinelSecs && d.seqOK(binary.BigEndian.Uint32(pl[28:]))
	}
	if p.isSCMP && len(p.scmp.Payload) == 12 {
		pl := p.scmp.Payload
		return binary.BigEndian.Uint32(pl[4:]) == sentinelSecs && d.seqOK(binary.BigEndian.Uint32(pl[8:]))
	}
	return false
}

func (d *drv) listenerAddr(listener int) *net.UDPAddr {
	switch listener {
	case 0:
		return &net.UDPAddr{IP: d.srvIP, Port: scionPort}
	case 1:
		return &net.UDPAddr{IP: d.srvIP, Port: endhostPort}
	}
	return &net.UDPAddr{IP: d.dispIP, Port: endhostPort}
}

// exchange sends pkt and then a sentinel from socket sender to the listener
// and returns every datagram that arrived at any harness socket up to and
// including the answer to the sentinel, the sentinel's answers apart.
var stepStart time.Time // when the step in progress began

func (d *drv) exchange(sender, listener int, pkt []byte) (reps []obs, nsent int) {
	reps, d.carry = d.carry, nil
	stepStart = time.Now()
	c := d.socks[sender]
	dst := d.listenerAddr(listener)
	if _, err := c.WriteToUDP(pkt, dst); err != nil {
		note(fmt.Sprintf("write failed: %v (len %d)", err, len(pkt)))
	}
	if _, err := c.WriteToUDP(d.sentinelFor(listener), dst); err != nil {
		note(fmt.Sprintf("write failed: %v", err))
	}
	buf := make([]byte, 65536)
	// a sentinel that goes unanswered (a datagram lost under load) is sent again, twice;
	// the answers to all of them count as one
	firstSeq, attempts := d.seq, 1
	d.seqLo = firstSeq
	defer func() {
		d.seqLo = 0
		if attempts > 1 && nsent > 1 {
			nsent = 1
		}
	}()
	deadline := time.Now().Add(readTimeout)
	// the sentinel's SCION source is the harness socket srcSock: an answer that
	// goes there instead of to the previous hop ends the wait (reported as -1)
	misdirected := false
	for !misdirected {
		c.SetReadDeadline(time.Now().Add(200 * time.Millisecond))
		n, _, err := c.ReadFromUDP(buf)
		if err != nil {
			// the sentinel (or its answer) turning up at another harness socket - the SCION source
			// address of the sentinel, or the socket at <SCION destination host>:<service port> when the
			// listener forwards instead of serving - ends the wait: misdirected
			for i := nSenders; i < len(d.socks); i++ {
				if i == sender {
					continue
				}
				for _, b := range drain(d.socks[i]) {
					if d.isSentinelAny(b) {
						misdirected = true
					} else {
						reps = append(reps, obs{i, b})
					}
				}
			}
			if time.Now().After(deadline) {
				if attempts < 3 {
					attempts++
					note(fmt.Sprintf("sentinel unanswered after %v: sent again (attempt %d)", readTimeout, attempts))
					c.WriteToUDP(d.sentinelFor(listener), dst)
					deadline = time.Now().Add(readTimeout)
					continue
				}
				d.lost = true
				break
			}
			continue
		}
		b := append([]byte(nil), buf[:n]...)
		if d.isSentinelReply(b) {
			nsent++
			break
		}
		reps = append(reps, obs{sender, b})
	}
	if misdirected {
		nsent = -1
	}
	for i, s := range d.socks {
		for _, b := range drain(s) {
			if d.isSentinelReply(b) {
				if nsent >= 0 {
					nsent++
				}
			} else if d.isSentinelAny(b) {
				nsent = -1
			} else {
				reps = append(reps, obs{i, b})
			}
		}
	}
	return reps, nsent
}

type step struct {
	listener int
	sender   int
	raw      []byte
}

func stepsString(steps []step) string {
	items := make([]string, len(steps))
	for i, s := range steps {
		items[i] = lib.L(lib.I(int64(s.listener)), lib.I(int64(s.sender)), lib.B(s.raw))
	}
	return lib.L(items...)
}

// stepFlags: further observables of a step.  Keyed child: whether the daemon hands
// out a key for the request's client AS, and whether that key's epoch is the current one.
var stepFlags = func(raw []byte) []string { return nil }

// srvKind: the case kind of listener histories in this process.
var srvKind = "srv"

func stepOut(s step, reps []obs, nsent int) string {
	// a datagram longer than the listener's buffer (scion.MTU) is truncated by the kernel, which
	// the listener notices (MSG_TRUNC) and drops it: not a received packet
	qv := view(s.raw)
	if len(s.raw) > scion.MTU {
		qv = view(nil)
	}
	items := []string{qv, obsList(reps), lib.I(int64(nsent))}
	return lib.L(append(items, stepFlags(s.raw)...)...)
}

// runSrv drives one history against the listeners.
func (d *drv) runSrv(tags string, steps []step) { d.runSrvKind("srv", tags, steps) }

func (d *drv) runSrvKind(kind, tags string, steps []step) {
	args := stepsString(steps)
	emitCur(kind, tags, args)
	var outs []string
	for _, s := range steps {
		reps, nsent := d.exchange(s.sender, s.listener, s.raw)
		outs = append(outs, stepOut(s, reps, nsent))
		if d.lost {
			break
		}
	}
	emitCase(kind, tags, args, lib.V("0", d.cfgString(), lib.L(outs...)))
	if strictOn && kind == "srv.keyed" && !d.lost {
		emitCase("srv.strict", tags, args, lib.V("0", d.cfgString(), lib.L(outs...)))
	}
}

// A datagram with an unregistered path type and an authenticator option makes
// spao.ComputeAuthCMAC fail, which the listener turns into a panic.  Such
// datagrams are sent to listeners of a throw-away process (case kind srv.probe).
func probeCandidate(raw []byte) bool {
	p := parse(raw)
	return p.ok && p.scn.PathType >= 4 && p.authOpt != nil
}

const probeEnv = "C13_PROBE"

// runProbeArgs runs one case in a process of its own and relays its case; a
// process that dies yields the case with status 1.
func runProbeArgs(kind, tags, args string) {
	exe, err := os.Executable()
	if err != nil {
		panic(err)
	}
	cmd := exec.Command(exe, "-out", os.DevNull)
	cmd.Env = append(os.Environ(), probeEnv+"="+kind+"\t"+tags+"\t"+args)
	// The datagrams of the case carry this process' harness addresses: the
	// dispatcher of the throw-away process forwards them to the sockets of this
	// process, where they would be taken for the effect of the next step driven
	// here.  What arrives while the throw-away process runs is its output (its
	// case describes it), not an observation of this process' listeners; what was
	// queued before it started is kept for the next step.
	if mainDrv != nil {
		mainDrv.carry = append(mainDrv.carry, mainDrv.drainAll()...)
	}
	outb, _ := cmd.Output()
	if mainDrv != nil {
		if n := len(mainDrv.drainAll()); n > 0 {
			note(fmt.Sprintf("%d datagram(s) sent by the throw-away process to this process' sockets discarded", n))
		}
	}
	relayed := false
	for _, line := range strings.Split(string(outb), "\n") {
		p := strings.Split(line, "\t")
		if p[0] == "CASE" && len(p) == 5 {
			emitCase(p[1], p[2], p[3], p[4])
			if p[1] == kind {
				relayed = true
			}
		}
	}
	if !relayed {
		emitCase(kind, tags+",crash", args, "1 [] []")
	}
}

func runProbe(tags string, steps []step) { runProbeArgs("srv.probe", tags, stepsString(steps)) }
func runProbeCli(tags string, cc *cliCase) { runProbeArgs("cli.probe", tags, cc.args()) }

func probeMain() {
	v := strings.SplitN(os.Getenv(probeEnv), "\t", 3)
	d := newDrv()
	if v[0] == "cli.probe" {
		d.runCli("cli.probe", v[1], parseCliArgs(v[2]), 0)
		return
	}
	d.runSrvKind("srv.probe", v[1], parseSteps(v[2]))
}

// spliceTail builds the datagram  SCION header | extensions | UDP'(length 8+len(forged)) | forged |
// UDP header of raw | payload of raw  from a genuine datagram raw: the tail of the result is the
// genuine L4 part, the L4 part a receiver parses is UDP' | forged.  The SCION payload length is
// adjusted (it is not covered by the authenticator's MAC); everything the MAC covers is as in raw.
func spliceTail(raw, forged []byte) []byte {
	p := parse(raw)
	if !p.ok || !p.isUDP || len(raw) < 8+len(p.udp.Payload) || int(p.udp.Length) != 8+len(p.udp.Payload) {
		return nil
	}
	l4 := len(raw) - 8 - len(p.udp.Payload)
	b := append([]byte(nil), raw[:l4]...)
	hdr := append([]byte(nil), raw[l4:l4+8]...)
	binary.BigEndian.PutUint16(hdr[4:], uint16(8+len(forged)))
	b = append(b, hdr...)
	b = append(b, forged...)
	b = append(b, raw[l4:]...)
	binary.BigEndian.PutUint16(b[6:], binary.BigEndian.Uint16(raw[6:])+uint16(8+len(forged)))
	return b
}
