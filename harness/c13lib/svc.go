package c13lib

// Kind svc.spao: "authentication enabled on either side" is enabled by configuration.  The
// service's own loadConfig and createClocks (harness/svclib: the real timeservice binary with the
// wiring hook; nothing is started) build the clocks of configurations with 0-3 SCION reference
// clocks, 0-3 SCION peer clocks and every list of auth_modes over {"nts","spao"} (all subsets,
// both orders, repetitions); observed for every client of every clock: SPAO enabled, DRKey
// fetcher set, which fetcher.

import (
	"fmt"
	"os"
	"path/filepath"
	"strings"

	"verifharness/lib"
	"verifharness/svclib"
)

var authModeLists = [][]int{{}, {1}, {2}, {1, 2}, {2, 1}, {2, 2}, {1, 1}, {1, 2, 1}, {2, 1, 2}}

func svcConfig(modes []int, nrefs, npeers int) string {
	var b strings.Builder
	b.WriteString("local_address = \"1-ff00:0:111,10.1.1.11\"\n")
	b.WriteString("scion_daemon_address = \"@DAEMON@\"\n")
	var ms []string
	for _, m := range modes {
		ms = append(ms, map[int]string{1: "\"nts\"", 2: "\"spao\""}[m])
	}
	fmt.Fprintf(&b, "auth_modes = [%s]\n", strings.Join(ms, ", "))
	list := func(base, n int) string {
		var xs []string
		for i := 0; i < n; i++ {
			xs = append(xs, fmt.Sprintf("\"1-ff00:0:%d,10.1.%d.%d:10123\"", 112+base+i, base+1, 12+i))
		}
		return "[" + strings.Join(xs, ", ") + "]"
	}
	if nrefs > 0 {
		fmt.Fprintf(&b, "ntp_reference_clocks = %s\n", list(0, nrefs))
	}
	if npeers > 0 {
		fmt.Fprintf(&b, "scion_peer_clocks = %s\n", list(10, npeers))
	}
	return b.String()
}

func svcCase(bin string, modes []int, nrefs, npeers int) {
	var mv []string
	tags := tagset{"nt": true, "service-wiring": true}
	for _, m := range modes {
		mv = append(mv, lib.I(int64(m)))
		if m == 2 {
			tags["spao-configured"] = true
		}
	}
	if npeers > 0 {
		tags["peer-clocks"] = true
	}
	args := lib.V(lib.L(mv...), lib.I(int64(nrefs)), lib.I(int64(npeers)))
	res, err := svclib.Wiring(bin, svcConfig(modes, nrefs, npeers))
	if err != nil {
		note(fmt.Sprintf("svc.spao: %v", err))
		emitCase("svc.spao", tags.String()+",machinery", args, lib.V("0", lib.L()))
		return
	}
	ptr := map[string]int64{}
	var clocks []string
	for _, c := range res.Clocks {
		if c.Kind != "ntp-scion" {
			continue
		}
		var cl []string
		for _, ci := range c.Clients {
			id := int64(0)
			if ci.DRKeyPtr != "" {
				if _, ok := ptr[ci.DRKeyPtr]; !ok {
					ptr[ci.DRKeyPtr] = int64(len(ptr) + 1)
				}
				id = ptr[ci.DRKeyPtr]
			}
			cl = append(cl, lib.L(lib.Bool(ci.Auth && !ci.Nil), lib.Bool(ci.DRKey), lib.I(id)))
		}
		clocks = append(clocks, lib.L(lib.Bool(c.Role == "peer"), lib.L(cl...)))
	}
	emitCase("svc.spao", tags.String(), args, lib.V(lib.Bool(!res.Fatal), lib.L(clocks...)))
}

func parseSvcArgs(args string) (modes []int, nrefs, npeers int) {
	f := strings.Fields(strings.NewReplacer("[", " ", "]", " ").Replace(args))
	if len(f) < 2 {
		return nil, 0, 0
	}
	for _, x := range f[:len(f)-2] {
		modes = append(modes, int(lib.ParseI(x)))
	}
	return modes, int(lib.ParseI(f[len(f)-2])), int(lib.ParseI(f[len(f)-1]))
}

// runSvc: all mode lists x 0..3 reference clocks x 0..3 peers (replay: the given arguments only).
func runSvc(replay []string) {
	repo := svclib.RepoDir()
	if !svclib.HasHook(repo, "timeservice_wiring_verif.go") {
		note("svc.spao skipped: this checkout has no wiring hook (timeservice_wiring_verif.go)")
		return
	}
	bin, err := svclib.Build(repo)
	if err != nil {
		note("svc.spao: the service no longer builds: " + strings.ReplaceAll(err.Error(), "\n", " | "))
		emitCase("svc.spao", "nt,service-wiring,build-failed", lib.V(lib.L(), "0", "0"), lib.V("0", lib.L()))
		return
	}
	defer os.RemoveAll(filepath.Dir(bin))
	if replay != nil {
		for _, a := range replay {
			m, n, p := parseSvcArgs(a)
			svcCase(bin, m, n, p)
		}
		return
	}
	for _, modes := range authModeLists {
		for nrefs := 0; nrefs <= 3; nrefs++ {
			for npeers := 0; npeers <= 3; npeers++ {
				svcCase(bin, modes, nrefs, npeers)
			}
		}
	}
}
