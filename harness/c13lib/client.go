package c13lib

import (
	"context"
	"encoding/binary"
	"fmt"
	"log/slog"
	"net"
	"strings"
	"sync"
	"time"

	"github.com/scionproto/scion/pkg/addr"
	"github.com/scionproto/scion/pkg/slayers/path"
	"github.com/scionproto/scion/pkg/slayers/path/onehop"
	"github.com/scionproto/scion/pkg/snet"
	spath "github.com/scionproto/scion/pkg/snet/path"

	"example.com/scion-time/core/client"
	"example.com/scion-time/net/ntp"
	"example.com/scion-time/net/scion"
	"example.com/scion-time/net/udp"

	"verifharness/lib"
)

// ---- observation points of the client: the filter and the log ----

type recFilter struct {
	mu    sync.Mutex
	calls [][4]time.Time
}

func (f *recFilter) Do(t0, t1, t2, t3 time.Time) time.Duration {
	f.mu.Lock()
	f.calls = append(f.calls, [4]time.Time{t0, t1, t2, t3})
	f.mu.Unlock()
	return ntp.ClockOffset(t0, t1, t2, t3)
}
func (f *recFilter) Reset() {}

type recLog struct {
	mu   sync.Mutex
	errs []string // errors of failed measurements
	auth []bool   // "auth" attribute of every "received response" record
}

func (l *recLog) Enabled(context.Context, slog.Level) bool { return true }
func (l *recLog) WithAttrs([]slog.Attr) slog.Handler       { return l }
func (l *recLog) WithGroup(string) slog.Handler            { return l }
func (l *recLog) Handle(_ context.Context, r slog.Record) error {
	l.mu.Lock()
	defer l.mu.Unlock()
	switch r.Message {
	case "failed to measure clock offset":
		r.Attrs(func(a slog.Attr) bool {
			if a.Key == "error" {
				l.errs = append(l.errs, fmt.Sprint(a.Value.Any()))
			}
			return true
		})
	case "received response":
		r.Attrs(func(a slog.Attr) bool {
			if a.Key == "auth" {
				l.auth = append(l.auth, a.Value.Bool())
			}
			return true
		})
	}
	return nil
}

func errClass(s string) int64 {
	switch {
	case strings.Contains(s, "invalid authenticator"):
		return 3
	case strings.Contains(s, "unexpected type or structure"):
		return 2
	case strings.Contains(s, "unexpected packet size"):
		return 4
	case strings.Contains(s, "unexpected response structure"):
		return 5
	case strings.Contains(s, "timeout"):
		return 6
	}
	return 1
}

// ---- scripts ----

// one scripted response
//   base 0: built by the harness from the request; 1: the real listener's answer to the
//           request, relayed (reqFlip != 0: the request is damaged on its way to the listener)
type item struct {
	base, auth, ntp, addr int
	scmp                  int
	flip                  int // 0 none, else the seed of a mutation of the finished response
	reqFlip               int
	pt                    int // != 0: path type byte of the response set to this (>= 4: unknown path type)
}

func (it item) String() string {
	return lib.L(lib.I(int64(it.base)), lib.I(int64(it.auth)), lib.I(int64(it.ntp)), lib.I(int64(it.addr)),
		lib.I(int64(it.scmp)), lib.I(int64(it.flip)), lib.I(int64(it.reqFlip)), lib.I(int64(it.pt)))
}

type cliCase struct {
	auth    bool
	seed    uint64
	scripts [][]item
	keyed   bool // keyed child: the client fetches its key from the harness' DRKey daemon
	worker  int  // keyed: the client's host address is the worker's own (its daemon requests are told apart by it)
	mode    int  // keyed: how the daemon treats the client's AS (modeOK, modeError, ...)
}

// scenario of a keyed case (first argument; the known-finding patterns of the strict kind refer to it):
// 1 key available, 2 no key (daemon error / key of a wrong length), 3 key of an epoch that is over
func (c *cliCase) scenario() int {
	switch c.mode {
	case modeError, modeShort, modeLong:
		return 2
	case modeExpired:
		return 3
	}
	return 1
}

func (c *cliCase) args() string {
	var ss []string
	for _, s := range c.scripts {
		var is []string
		for _, it := range s {
			is = append(is, it.String())
		}
		ss = append(ss, lib.L(is...))
	}
	if c.keyed {
		return lib.V(lib.I(int64(c.scenario())), lib.Bool(c.auth), lib.U(c.seed), lib.I(int64(c.mode)), lib.L(ss...))
	}
	return lib.V(lib.Bool(c.auth), lib.U(c.seed), lib.L(ss...))
}

// parseKeyedCliArgs: scenario auth seed mode scripts
func parseKeyedCliArgs(args string) *cliCase {
	f := strings.Fields(args)
	c := parseCliArgs(strings.Join(append([]string{f[1], f[2]}, f[4:]...), " "))
	c.keyed = true
	c.mode = int(lib.ParseI(f[3]))
	return c
}

func parseCliArgs(args string) *cliCase {
	// auth seed [[[8 ints] ...] ...]
	f := strings.Fields(strings.NewReplacer("[", " [ ", "]", " ] ").Replace(args))
	c := &cliCase{auth: f[0] != "0", seed: lib.ParseU(f[1])}
	depth := 0
	var cur []item
	var nums []int
	for _, t := range f[2:] {
		switch t {
		case "[":
			depth++
			if depth == 2 {
				cur = nil
			}
			if depth == 3 {
				nums = nil
			}
		case "]":
			if depth == 3 && len(nums) == 8 {
				cur = append(cur, item{nums[0], nums[1], nums[2], nums[3], nums[4], nums[5], nums[6], nums[7]})
			}
			if depth == 2 {
				c.scripts = append(c.scripts, cur)
			}
			depth--
		default:
			nums = append(nums, int(lib.ParseI(t)))
		}
	}
	return c
}

var v6ok = func() bool {
	c, err := net.ListenUDP("udp6", &net.UDPAddr{IP: net.IPv6loopback})
	if err != nil {
		return false
	}
	c.Close()
	return true
}()

var emitMu sync.Mutex

func ntpResponse(r *lib.Rng, req []byte, k int, mode int) []byte {
	b := make([]byte, 48)
	b[0] = 0x24 // no warning, version 4, server
	b[1] = 1
	if len(req) >= 48 {
		copy(b[24:32], req[40:48])
		if mode == 5 { // interleaved answer: origin = the request's receive timestamp
			copy(b[24:32], req[32:40])
		}
	}
	t := time.Now().Add(time.Duration(k+1) * 4096 * time.Second)
	rx := ntp.Time64FromTime(t)
	tx := ntp.Time64FromTime(t.Add(time.Microsecond))
	switch mode {
	case 2:
		b[24+r.Intn(8)] ^= byte(1 << uint(r.Intn(8)))
	case 3:
		switch r.Intn(3) {
		case 0:
			b[1] = lib.Pick(r, byte(0), 16, 255)
		case 1:
			b[0] = lib.Pick(r, byte(0x23), 0x25, 0x21)
		case 2:
			b[0] = 0xe4
		}
	case 4:
		rx, tx = tx, rx
	}
	put := func(off int, t ntp.Time64) {
		b[off], b[off+1], b[off+2], b[off+3] = byte(t.Seconds>>24), byte(t.Seconds>>16), byte(t.Seconds>>8), byte(t.Seconds)
		b[off+4], b[off+5], b[off+6], b[off+7] = byte(t.Fraction>>24), byte(t.Fraction>>16), byte(t.Fraction>>8), byte(t.Fraction)
	}
	put(32, rx)
	put(40, tx)
	if mode == 1 {
		b = b[:lib.Pick(r, 0, 8, 47)]
	}
	return b
}

// ntpClass: the verdict of the NTP part of the client on a delivered response
func ntpClass(raw, reqPayload []byte) int64 {
	p := parseAs(raw, false)
	if !p.ok || !p.isUDP {
		return 0
	}
	var resp ntp.Packet
	if ntp.DecodePacket(&resp, p.udp.Payload) != nil {
		return 1
	}
	var req ntp.Packet
	if ntp.DecodePacket(&req, reqPayload) != nil {
		return 0
	}
	interleaved := req.OriginTime != (ntp.Time64{}) && resp.OriginTime == req.ReceiveTime
	if !interleaved && resp.OriginTime != req.TransmitTime {
		return 2
	}
	if ntp.ValidateResponseMetadata(&resp) != nil {
		return 3
	}
	now := time.Now()
	t1 := ntp.TimeFromTime64(resp.ReceiveTime, now)
	if interleaved { // the receive timestamp the client kept from its previous exchange (it is in the request)
		t1 = ntp.TimeFromTime64(req.OriginTime, now)
	}
	t2 := ntp.TimeFromTime64(resp.TransmitTime, now)
	if t2.Sub(t1) < 0 {
		return 4
	}
	return 0
}

type cliEnv struct {
	d      *drv
	sender int // the harness socket used as the relay towards the real listener
}

// craft builds scripted response k to the request.
func (d *drv) craft(r *lib.Rng, q *parsed, it item, k int, prevKey []byte) []byte {
	tags := tagset{}
	h := &pktSpec{auth: -1}
	h.dstIA, h.srcIA = uint64(q.scn.SrcIA), uint64(q.scn.DstIA)
	h.dstType, h.srcType = uint8(q.scn.SrcAddrType), uint8(q.scn.DstAddrType)
	h.dstRaw = append([]byte(nil), q.scn.RawSrcAddr...)
	h.srcRaw = append([]byte(nil), q.scn.RawDstAddr...)
	h.pathType, h.pathRaw = genPath(r, tags) // the client does not look at the path of a response
	h.tc = uint8(r.U64())
	h.flow = uint32(r.U64()) & 0xfffff
	h.udpSrc, h.udpDst = q.udp.DstPort, q.udp.SrcPort
	// responses come from the queried port: since the repair of the clients' source check a response
	// from another SCION/UDP source port is skipped (C05's clause; not modelled here)
	switch it.addr {
	case 1:
		h.srcIA ^= 1 << uint(r.Intn(64))
	case 2:
		h.srcRaw[r.Intn(len(h.srcRaw))] ^= byte(1 << uint(r.Intn(8)))
	case 3:
		h.dstIA ^= 1 << uint(r.Intn(64))
	case 4:
		h.dstRaw[r.Intn(len(h.dstRaw))] ^= byte(1 << uint(r.Intn(8)))
	case 5: // IPv4 source written as an IPv4-mapped IPv6 address: the same host
		if len(h.srcRaw) == 4 {
			h.srcRaw = append([]byte{0, 0, 0, 0, 0, 0, 0, 0, 0, 0, 0xff, 0xff}, h.srcRaw...)
			h.srcType = 3
		}
	case 6: // an 8-byte host address
		h.srcRaw = append(h.srcRaw, h.srcRaw...)[:8]
		h.srcType = 1
	case 7: // the server's address bytes declared as a service address (T4Svc / a 16-byte non-IP type): not the host
		h.srcType = h.srcType | 4
	case 8: // the same for the destination
		h.dstType = h.dstType | 4
	}
	h.payload = ntpResponse(r, q.udp.Payload, k, it.ntp)
	if it.scmp != 0 {
		h.scmp = true
		h.scmpType = lib.Pick(r, uint8(1), 2, 4, 129)
	}
	if it.auth != 0 {
		mode := it.auth - 1
		if it.auth >= 13 {
			mode = 0
		}
		_ = prevKey
		addAuthDir(r, h, mode, tags, scion.PacketAuthSPIServer, scion.PacketAuthSPIClient)
		// keyed client: a well-formed authenticator whose MAC is computed under a key that is not the
		// one of this exchange: of the previous epoch, of another client host, the mock key
		srvIA, cliIA := uint64(q.scn.DstIA), uint64(q.scn.SrcIA)
		srvHost, cliHost := q.scn.RawDstAddr, q.scn.RawSrcAddr
		switch it.auth {
		case 13:
			h.key = ownKey(srvIA, cliIA, srvHost, cliHost, epochServed(cliIA, srvIA)-1)
		case 14:
			other := append([]byte(nil), cliHost...)
			other[len(other)-1] ^= 1
			h.key = ownKey(srvIA, cliIA, srvHost, other, epochServed(cliIA, srvIA))
		case 15:
			h.key = zeroKey
		case 16: // the key of this client's previous measurement (another server host / AS / daemon answer)
			h.key = prevKey
			if len(h.key) == 0 {
				h.key = zeroKey
			}
		}
		// the key of this exchange (the response's own address header may name other hosts)
		if keyedDaemonAddr != "" && h.key == nil {
			if h.key = keyedKey(q); h.key == nil {
				h.key = []byte{}
			}
		}
	}
	raw, err := h.build()
	if err != nil {
		h.pathType, h.pathRaw = 0, nil
		raw, err = h.build()
		if err != nil {
			panic(err)
		}
	}
	return raw
}

// interState: what an interleaved-mode client may legitimately remember: the receive
// timestamp of the response it accepted last
type interState struct {
	have  bool
	accRx ntp.Time64
}

type exchangeObs struct {
	req      []byte
	resps    [][]byte
	classes  []int64
	result   string
	late     bool
	interReq, interReqOK bool // the request is an interleaved one; its origin field is the last accepted receive timestamp
}

// runExchange: one measurement of the client against the script.
func (d *drv) runExchange(r *lib.Rng, c *client.SCIONClient, flt *recFilter, lg *recLog,
	localAddr, remoteAddr udp.UDPAddr, dp snet.DataplanePath, v6 bool, script []item, sender int, probe bool, prevKey []byte, ist *interState) (eo exchangeObs) {
	// the scripted next hop
	var peer *net.UDPConn
	var err error
	if v6 {
		peer, err = net.ListenUDP("udp6", &net.UDPAddr{IP: net.IPv6loopback})
	} else {
		peer, err = net.ListenUDP("udp4", &net.UDPAddr{IP: d.hIP})
	}
	if err != nil {
		panic(err)
	}
	defer peer.Close()
	p := spath.Path{Src: localAddr.IA, Dst: remoteAddr.IA, DataplanePath: dp, NextHop: peer.LocalAddr().(*net.UDPAddr)}

	nSure := 0
	for _, it := range script {
		if !(it.base >= 1 && it.reqFlip != 0) {
			nSure++
		}
	}
	timeout := 25 * time.Second
	if nSure < 2 {
		timeout = 2 * time.Second
	}
	flt.calls = nil
	lg.errs, lg.auth = nil, nil
	start := time.Now()
	var sentAll time.Time
	done := make(chan struct{})
	go func() {
		defer close(done)
		buf := make([]byte, 65536)
		peer.SetReadDeadline(start.Add(10 * time.Second))
		n, from, err := peer.ReadFromUDP(buf)
		if err != nil {
			return
		}
		eo.req = append([]byte(nil), buf[:n]...)
		q := parse(eo.req)
		if !q.ok || !q.isUDP {
			return
		}
		var rq ntp.Packet
		if ist != nil && ntp.DecodePacket(&rq, q.udp.Payload) == nil && rq.OriginTime != (ntp.Time64{}) {
			eo.interReq = true
			eo.interReqOK = ist.have && rq.OriginTime == ist.accRx
		}
		for k, it := range script {
			rr := lib.NewRng(uint64(it.flip)*7919 + uint64(it.reqFlip)*104729 + uint64(k))
			var raw []byte
			if it.base >= 1 {
				req := eo.req
				if it.reqFlip != 0 {
					req = mutate(rr, req, tagset{})
					if probeCandidate(req) {
						req = eo.req
					}
				}
				emitMu.Lock()
				reps := d.runSrvRet("nt,relayed-client-request", []step{{listener: 0, sender: sender, raw: req}})
				emitMu.Unlock()
				for _, o := range reps {
					if o.rcv == sender {
						raw = o.data
					}
				}
				if raw == nil {
					continue // the listener did not answer: nothing to relay
				}
				if it.base == 2 {
					// the listener's authenticated answer with a forged NTP response spliced in front of
					// its L4 part: same origin timestamp (the client checks it), other server timestamps
					if pa := parse(raw); pa.ok && pa.isUDP && len(pa.udp.Payload) >= 48 {
						forged := append([]byte(nil), pa.udp.Payload[:48]...)
						t := ntp.Time64FromTime(time.Now().Add(time.Duration(1000+k) * time.Second))
						for _, off := range []int{32, 40} {
							binary.BigEndian.PutUint32(forged[off:], t.Seconds)
							binary.BigEndian.PutUint32(forged[off+4:], t.Fraction+uint32(off))
						}
						if sp := spliceTail(raw, forged); sp != nil {
							raw = sp
						}
					}
				}
			} else {
				raw = d.craft(rr, q, it, k, prevKey)
			}
			if it.pt != 0 && len(raw) > 8 {
				raw = append([]byte(nil), raw...)
				raw[8] = byte(it.pt)
			}
			if it.flip != 0 {
				m := mutate(rr, raw, tagset{})
				// a flipped bit in the SCION/UDP source port makes it a response from another port, which
				// the clients skip since the repair of their source check (C05's clause; not modelled here)
				if pm := parseAs(m, false); pm.ok && pm.isUDP && pm.udp.SrcPort != q.udp.DstPort {
					m = raw
				}
				if !probeCandidate(m) || probe {
					raw = m
				}
			}
			if probeCandidate(raw) && !probe {
				continue
			}
			eo.resps = append(eo.resps, raw)
			eo.classes = append(eo.classes, ntpClass(raw, q.udp.Payload))
			peer.WriteToUDP(raw, from)
		}
		sentAll = time.Now()
	}()

	ctx, cancel := context.WithTimeout(context.Background(), timeout)
	log := slog.New(lg)
	client.MeasureClockOffsetSCION(ctx, log, []*client.SCIONClient{c}, localAddr, remoteAddr, []snet.Path{p})
	cancel()
	returned := time.Now()
	// at the deadline MeasureClockOffsetSCION returns when its context ends, possibly before
	// the measuring goroutine has reported: wait for the report
	for i := 0; i < 4000; i++ {
		flt.mu.Lock()
		lg.mu.Lock()
		have := len(flt.calls) > 0 || len(lg.errs) > 0
		lg.mu.Unlock()
		flt.mu.Unlock()
		if have {
			break
		}
		time.Sleep(5 * time.Millisecond)
	}
	peer.SetReadDeadline(time.Now()) // a peer still waiting for a request gives up
	<-done

	flt.mu.Lock()
	lg.mu.Lock()
	defer flt.mu.Unlock()
	defer lg.mu.Unlock()
	switch {
	case len(flt.calls) == 1:
		idx := -1
		now := time.Now()
		tsok := false
		for k, raw := range eo.resps {
			pr := parseAs(raw, false)
			var resp ntp.Packet
			if !pr.ok || !pr.isUDP || ntp.DecodePacket(&resp, pr.udp.Payload) != nil {
				continue
			}
			if !ntp.TimeFromTime64(resp.TransmitTime, now).Equal(flt.calls[0][2]) {
				continue
			}
			// t1 is this response's receive timestamp, or - interleaved mode - that of the response
			// this client accepted before; never a timestamp of a datagram that was not accepted
			basic := ntp.TimeFromTime64(resp.ReceiveTime, now).Equal(flt.calls[0][1])
			inter := ist != nil && ist.have && ntp.TimeFromTime64(ist.accRx, now).Equal(flt.calls[0][1])
			idx, tsok = k, basic || inter
			if ist != nil {
				ist.have, ist.accRx = true, resp.ReceiveTime
			}
			break
		}
		a := false
		if n := len(lg.auth); n > 0 {
			a = lg.auth[n-1]
		}
		eo.result = lib.L("0", lib.I(int64(idx)), lib.Bool(a), lib.Bool(tsok))
	case len(lg.errs) > 0:
		cls := errClass(lg.errs[0])
		if cls == 6 {
			eo.result = lib.L("2")
			// a response that left after the client had given up was not part of this exchange
			if sentAll.IsZero() || sentAll.After(returned.Add(-500*time.Millisecond)) && len(eo.resps) > 0 {
				eo.late = true
			}
		} else {
			eo.result = lib.L("1", lib.I(cls))
		}
	default:
		eo.result = lib.L("9")
	}
	return eo
}

// runSrvRet is runSrv that also returns what was observed for the (single) step.
func (d *drv) runSrvRet(tags string, steps []step) []obs {
	args := stepsString(steps)
	var outs []string
	var last []obs
	for _, s := range steps {
		reps, nsent := d.exchange(s.sender, s.listener, s.raw)
		last = reps
		outs = append(outs, stepOut(s, reps, nsent))
	}
	emitCase(srvKind, tags, args, lib.V("0", d.cfgString(), lib.L(outs...)))
	return last
}

// runCli: a case whose scripted responses left too late (the machine is busy: the client had
// already given up) is driven again, up to three times.
func (d *drv) runCli(kind, tags string, cc *cliCase, sender int) {
	for try := 1; try <= 3; try++ {
		if d.runCliTry(kind, tags, cc, sender) {
			return
		}
	}
	emitMu.Lock()
	note("client case dropped after three attempts (scripted responses left too late or no request seen)")
	emitMu.Unlock()
}

func (d *drv) runCliTry(kind, tags string, cc *cliCase, sender int) bool {
	args := cc.args()
	probe := kind == "cli.probe"
	r := lib.NewRng(cc.seed)
	v6 := v6ok && r.Intn(4) == 0 && !cc.keyed
	localIA := addr.IA(uint64(1+r.Intn(3))<<48 | 0xff0000000300 | uint64(r.Intn(64)))
	if cc.keyed && cc.mode != modeOK {
		localIA = addr.IA(uint64(localIA)&^0xff00 | uint64(cc.mode)<<8)
	}
	remoteIA := addr.IA(uint64(1+r.Intn(3))<<48 | 0xff0000000400 | uint64(r.Intn(64)))
	if r.Intn(6) == 0 {
		remoteIA = localIA
	}
	localIP := d.hIP
	if cc.keyed {
		localIP = ownAddr(byte(220 + cc.worker))
	}
	if v6 {
		localIP = net.IPv6loopback
	}
	_, rh := genHost(r, r.Intn(3) == 0)
	remoteIP := net.IP(rh)
	given := remoteIP
	if len(rh) == 4 && r.Intn(3) == 0 {
		given = remoteIP.To16() // the configured address in its 16-byte form: normalised by the client
	}
	localAddr := udp.UDPAddr{IA: localIA, Host: &net.UDPAddr{IP: localIP}}
	remoteAddr := udp.UDPAddr{IA: remoteIA, Host: &net.UDPAddr{IP: given, Port: scionPort}}
	var dp snet.DataplanePath = spath.Empty{}
	ptags := tagset{}
	switch pt, pb := genPath(r, ptags); pt {
	case 1:
		dp = spath.SCION{Raw: pb}
	case 2:
		var ohp onehop.Path
		if ohp.DecodeFromBytes(pb) == nil {
			dp = spath.OneHop{Info: ohp.Info, FirstHop: ohp.FirstHop, SecondHop: ohp.SecondHop}
		}
	}
	_ = path.Type(0)
	flt := &recFilter{}
	lg := &recLog{}
	c := &client.SCIONClient{DSCP: uint8(r.Intn(64)), InterleavedMode: false, Filter: flt}
	// Interleaved mode stays off: with it one MeasureClockOffsetSCION call makes up to three
	// request/response rounds, which the one-request-per-exchange script of this harness does not
	// serve; the interleaved exchange logic is the subject of C05 (interState is kept for it).
	var ist *interState
	c.Log = slog.New(lg)
	c.Auth.Enabled = cc.auth
	c.Auth.DRKeyFetcher = scion.NewFetcher(nil)
	if cc.keyed {
		c.Auth.DRKeyFetcher = scion.NewFetcher(scion.NewDaemonConnector(context.Background(), keyedDaemonAddr))
	}

	if cc.keyed { // requests a discarded attempt of this worker left in the daemon's log
		lhs := localIP.String()
		theDaemon.takeReqs(func(q daemonReq) bool { return q.hostHost && q.dstHost == lhs })
	}
	var exs []string
	var prevKey []byte
	for xi, script := range cc.scripts {
		start := time.Now()
		if cc.keyed && xi > 0 && r.Bool() && ist == nil {
			// the next measurement of the same client goes to another server host, possibly in an AS
			// the daemon treats differently
			_, rh = genHost(r, r.Intn(3) == 0)
			remoteIA = addr.IA(uint64(1+r.Intn(3))<<48 | 0xff0000000000 |
				uint64(lib.Pick(r, 4, 4, 4, modeError, modeExpired, modeShort))<<8 | uint64(r.Intn(64)))
			remoteAddr = udp.UDPAddr{IA: remoteIA, Host: &net.UDPAddr{IP: net.IP(rh), Port: scionPort}}
		}
		eo := d.runExchange(r.Fork(), c, flt, lg, localAddr, remoteAddr, dp, v6, script, sender, probe, prevKey, ist)
		if eo.late || eo.req == nil {
			return false
		}
		var xkey []byte // the key of this exchange: nil = the mock key
		if cc.keyed {
			if xkey = keyedKey(parse(eo.req)); xkey == nil {
				xkey = []byte{}
			}
			prevKey = xkey
		}
		var rs []string
		for k, raw := range eo.resps {
			rs = append(rs, lib.L(viewKey(raw, false, xkey), lib.I(eo.classes[k])))
		}
		if cc.keyed {
			lhs := localIP.String()
			reqs := theDaemon.takeReqs(func(q daemonReq) bool { return q.hostHost && q.dstHost == lhs })
			mode := modeOfPair(uint64(localIA), uint64(remoteIA))
			keyok := mode != modeError && mode != modeShort && mode != modeLong
			xcfg := lib.L(lib.U(uint64(remoteIA)), lib.B(rh), lib.Bool(keyok), lib.Bool(mode != modeExpired),
				reqsString(reqs, start.Add(-50*time.Millisecond), time.Now()))
			if eo.interReq && !eo.interReqOK { // reported as a result no model produces
				eo.result = lib.L("8")
			}
			exs = append(exs, lib.L(viewKey(eo.req, true, xkey), lib.L(rs...), eo.result, xcfg))
		} else {
			exs = append(exs, lib.L(viewKey(eo.req, true, xkey), lib.L(rs...), eo.result))
		}
	}
	lh := []byte(localIP.To4())
	if v6 {
		lh = []byte(localIP.To16())
	}
	cfg := lib.L(lib.U(uint64(localIA)), lib.B(lh), lib.U(uint64(remoteIA)), lib.B(rh))
	if cc.keyed {
		cfg = lib.L(lib.U(uint64(localIA)), lib.B(lh))
	}
	emitMu.Lock()
	emitCase(kind, tags, args, lib.V("0", cfg, lib.L(exs...)))
	if strictOn && kind == "cli.keyed" {
		emitCase("cli.strict", tags, args, lib.V("0", cfg, lib.L(exs...)))
	}
	emitMu.Unlock()
	return true
}

func genItem(r *lib.Rng, tags tagset, auth bool) item {
	var it item
	switch r.Intn(10) {
	case 0, 1, 2: // the real listener's answer
		it.base = 1
		tags["relayed"] = true
		if r.Intn(3) == 0 {
			it.reqFlip = 1 + r.Intn(1<<20)
			tags["request-damaged"] = true
		}
	default:
		it.auth = lib.Pick(r, 0, 1, 1, 1, 2, 3, 4, 5, 6, 7, 8, 9, 10, 11, 12)
		switch {
		case it.auth == 1 || it.auth == 8 || it.auth == 9 || it.auth == 11:
			tags["resp-auth-valid"] = true
		case it.auth == 2 || it.auth == 3 || it.auth == 7:
			tags["resp-auth-badmac"] = true
		case it.auth == 0:
			tags["resp-noauth"] = true
		default:
			tags["resp-auth-ignored"] = true
		}
		if r.Intn(6) == 0 {
			it.ntp = 1 + r.Intn(4)
			tags["resp-ntp-bad"] = true
		}
		if r.Intn(7) == 0 {
			it.addr = 1 + r.Intn(8)
			tags["resp-addr"] = true
		}
		if r.Intn(20) == 0 {
			it.scmp = 1
			tags["resp-scmp"] = true
		}
	}
	if r.Intn(3) == 0 {
		it.flip = 1 + r.Intn(1<<20)
		tags["resp-damaged"] = true
	}
	return it
}

func genCliCase(r *lib.Rng) (*cliCase, string) {
	tags := tagset{"nt": true}
	cc := &cliCase{auth: r.Intn(4) != 0, seed: r.U64() >> 1}
	if cc.auth {
		tags["client-auth"] = true
	} else {
		tags["client-noauth"] = true
	}
	nx := lib.Pick(r, 1, 1, 2, 3)
	for i := 0; i < nx; i++ {
		n := lib.Pick(r, 0, 1, 2, 2, 2, 2, 2, 3, 3, 3)
		var s []item
		for j := 0; j < n; j++ {
			s = append(s, genItem(r, tags, cc.auth))
		}
		cc.scripts = append(cc.scripts, s)
	}
	if nx > 1 {
		tags["multi"] = true
	}
	return cc, tags.String()
}

// runTailmacCli: clients with authentication whose one or two responses are the real listener's
// answer with a forged response spliced in front of its L4 part (kind cli.tailmac)
func (d *drv) runTailmacCli(r *lib.Rng, n int) {
	jobs := make(chan *cliCase)
	var wg sync.WaitGroup
	for w := 0; w < 12; w++ { // a client whose response is refused waits for its deadline: several at once
		wg.Add(1)
		go func(sender int) {
			defer wg.Done()
			for cc := range jobs {
				d.runCli("cli.tailmac", "nt,client-auth,relayed,spliced-l4", cc, sender)
			}
		}(w % nSenders)
	}
	for i := 0; i < n && !d.lost; i++ {
		cc := &cliCase{auth: true, seed: r.U64() >> 1}
		cc.scripts = [][]item{{{base: 2}}}
		if r.Bool() {
			cc.scripts = [][]item{{{base: 2}}, {{base: 1}, {base: 2}}}
		}
		jobs <- cc
	}
	close(jobs)
	wg.Wait()
}

func (d *drv) replayCli(kind, tags, args string) {
	d.runCli(kind, tags, parseCliArgs(args), 0)
}

func (d *drv) runCliAll(r *lib.Rng, n int, tier string) {
	type job struct {
		cc   *cliCase
		tags string
	}
	jobs := make(chan job)
	var wg sync.WaitGroup
	for w := 0; w < 16; w++ {
		wg.Add(1)
		go func(sender int) {
			defer wg.Done()
			for j := range jobs {
				d.runCli("cli", j.tags, j.cc, sender)
			}
		}(w % nSenders)
	}
	for i := 0; i < n && !d.lost; i++ {
		cc, tags := genCliCase(r)
		jobs <- job{cc, tags}
	}
	close(jobs)
	wg.Wait()
	// responses with an unknown path type and an authenticator, in processes of their own
	for i := 0; i < 2; i++ {
		cc := &cliCase{auth: true, seed: r.U64() >> 1}
		cc.scripts = [][]item{{{auth: lib.Pick(r, 1, 2), pt: 4 + r.Intn(252)}, {auth: 1}}}
		runProbeCli("nt,unknown-path-type,client-auth", cc)
	}
}
