package c13lib

// NTS requests for the listener that also authenticates SCION packets (both
// mechanisms at once): a real cookie under the provider's current key, a real
// NTS request packet, damaged or not.

import (
	"crypto/rand"

	"example.com/scion-time/net/ntp"
	"example.com/scion-time/net/nts"
	"example.com/scion-time/net/ntske"

	"verifharness/lib"
)

var theProvider *ntske.Provider

// ntsValid is the NTS verdict of the listener for a payload longer than an NTP
// header: the calls the listener makes, in its order, on the same key provider
// (the NTS part itself is the subject of C08-C10).
func ntsValid(b []byte) (ok bool) {
	defer func() {
		if recover() != nil {
			ok = false
		}
	}()
	if theProvider == nil || len(b) <= ntp.PacketLen {
		return false
	}
	var q ntp.Packet
	if ntp.DecodePacket(&q, b) != nil || ntp.ValidateRequest(&q, 0) != nil {
		return false
	}
	var p nts.Packet
	if nts.DecodePacket(&p, b) != nil {
		return false
	}
	cookie, err := p.FirstCookie()
	if err != nil {
		return false
	}
	var ec ntske.EncryptedServerCookie
	if ec.Decode(cookie) != nil {
		return false
	}
	key, found := theProvider.Get(int(ec.ID))
	if !found {
		return false
	}
	sc, err := ec.Decrypt(key.Value)
	if err != nil {
		return false
	}
	return nts.ProcessRequest(b, sc.C2S, &p) == nil
}

// ntsRequest: variant 0 intact, 1 authenticator tag damaged, 2 cookie that does not open,
// 3 NTP header changed after authentication
func ntsRequest(r *lib.Rng, variant int) []byte {
	key := theProvider.Current()
	c2s, s2c := make([]byte, 32), make([]byte, 32)
	rand.Read(c2s)
	rand.Read(s2c)
	sc := ntske.ServerCookie{Algo: 15, S2C: s2c, C2S: c2s}
	ec, err := sc.EncryptWithNonce(key.Value, key.ID)
	if err != nil {
		panic(err)
	}
	if variant == 2 {
		ec.Ciphertext[5] ^= 0x80
	}
	data := ntske.Data{C2sKey: c2s, S2cKey: s2c, Algo: 15, Cookie: [][]byte{ec.Encode()}}
	pkt, _ := nts.NewRequestPacket(data)
	buf := make([]byte, ntp.PacketLen)
	buf[0] = 0x23
	copy(buf[40:], r.Bytes(8))
	nts.EncodePacket(&buf, &pkt)
	switch variant {
	case 1:
		buf[len(buf)-1] ^= 0x01
	case 3:
		buf[1] ^= 0xff
	}
	return buf
}
