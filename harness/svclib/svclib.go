// Package svclib drives the wiring of the time service (package main of
// /repo, timeservice.go) for the verification harnesses: it builds the real
// service binary with -tags verif, runs it with the hook
// /repo/timeservice_wiring_verif.go (environment variable
// SCION_TIME_VERIF_WIRING = a TOML configuration file) and parses what the
// hook prints about the clock lists that the service's own loadConfig,
// localAddress and createClocks build: for every reference clock and peer its
// kind and origin, and for every NTP client inside it the settings
// createClocks gave it (interleaved mode, DSCP, NTS / SPAO flags, NTS-KE
// fetcher settings, DRKey fetcher, filter type and identity, ...).
//
// Nothing is started by the hook: clocks are constructed, printed, and the
// process exits. A configuration with scion_daemon_address needs a daemon at
// that address while createClocks runs; write the placeholder @DAEMON@ as the
// address and Wiring starts a stub daemon (every call fails at once) on a
// loopback port for the duration of the call.
//
// See tools/BUILDING.md, section "Service wiring (harness/svclib)".
package svclib

import (
	"bufio"
	"errors"
	"fmt"
	"net"
	"os"
	"os/exec"
	"path/filepath"
	"strconv"
	"strings"

	sdpb "github.com/scionproto/scion/pkg/proto/daemon"
	"google.golang.org/grpc"
)

// ErrNoHook: the checkout has no timeservice_wiring_verif.go (a scratch
// worktree made before the hook was committed): skip the wiring cases.
var ErrNoHook = errors.New("svclib: timeservice_wiring_verif.go is not part of the checkout")

// RepoDir is the checkout the check runs against (VERIF_REPO, default /repo).
func RepoDir() string {
	if r := os.Getenv("VERIF_REPO"); r != "" {
		return r
	}
	return "/repo"
}

// HasHook reports whether the hook file <name> (e.g. "timeservice_wiring_verif.go") is part of the checkout.
func HasHook(repo, name string) bool {
	_, err := os.Stat(filepath.Join(repo, name))
	return err == nil
}

// Build builds the service of the checkout repo with -tags verif into a new
// temporary directory and returns the path of the binary. The caller removes
// filepath.Dir(bin) when done. A build failure is an error with the compiler
// output (report it as a failing case, do not panic: a seeded change may break
// package main only).
func Build(repo string) (bin string, err error) {
	dir, err := os.MkdirTemp("", "svclib")
	if err != nil {
		return "", err
	}
	bin = filepath.Join(dir, "timeservice-verif")
	cmd := exec.Command("go", "build", "-tags", "verif", "-o", bin, ".")
	cmd.Dir = repo
	out, err := cmd.CombinedOutput()
	if err != nil {
		os.RemoveAll(dir)
		return "", fmt.Errorf("svclib: go build -tags verif in %s failed: %v\n%s", repo, err, out)
	}
	return bin, nil
}

// ClientInfo is one NTP client inside a clock, as createClocks configured it.
type ClientInfo struct {
	Index       int  // position in the clock (ntp-ip: 0; ntp-scion: 0..6, one per path slot)
	Nil         bool // the slot holds no client
	Interleaved bool
	DSCP        int
	Auth        bool   // IP client: NTS enabled (Auth.Enabled); SCION client: SPAO enabled (Auth.Enabled)
	NTS         bool   // NTS enabled (SCION client: Auth.NTSEnabled; IP client: same as Auth)
	NTSKEPort   string // Auth.NTSKEFetcher.Port ("" if unset)
	NTSKEServer string // Auth.NTSKEFetcher.TLSConfig.ServerName
	NTSKEQUIC   bool   // Auth.NTSKEFetcher.QUIC.Enabled
	NTSKELog    bool   // the fetcher has a logger
	DRKey       bool   // SCION client: Auth.DRKeyFetcher set
	DRKeyPtr    string // its pointer ("" if unset): one fetcher is shared by all clients
	Pather      bool   // SCION clock: a pather is set
	PatherPtr   string
	Filter      string // dynamic type of Filter ("" if nil)
	FilterPtr   string // pointer identity of the filter: equal pointers = one shared filter
	Histogram   bool
	Log         bool
	Raw         map[string]string // every key=value the hook printed
}

// Clock is one element of the reference clock list or the peer list.
type Clock struct {
	Role    string // "ref" or "peer"
	Pos     int    // position in its list
	Kind    string // "ntp-ip", "ntp-scion", or the Go type ("*mbg.ReferenceClock", "*phc.ReferenceClock", "*shm.ReferenceClock")
	ID      string // remote address ("192.0.2.1:123", "1-ff00:0:112,10.1.1.12:10123"), device, or SHM unit
	Clients []ClientInfo
}

// Result of one run of the hook.
type Result struct {
	Clocks []Clock // reference clocks in list order, then peers in list order
	NRef   int     // lengths reported by the hook's last line
	NPeer  int
	Fatal  bool   // the service refused the configuration (logbase.Fatal) or did not finish: Output says why
	Output string // everything the process printed
}

// Refs and Peers select by role.
func (r *Result) Refs() []Clock  { return r.byRole("ref") }
func (r *Result) Peers() []Clock { return r.byRole("peer") }
func (r *Result) byRole(role string) []Clock {
	var out []Clock
	for _, c := range r.Clocks {
		if c.Role == role {
			out = append(out, c)
		}
	}
	return out
}

type stubDaemon struct {
	sdpb.UnimplementedDaemonServiceServer
}

// StubDaemon starts a SCION daemon stub on a loopback port: every call fails
// at once (Unimplemented), which is all createClocks needs to get through its
// daemon-dependent part. stop() shuts it down.
func StubDaemon() (addr string, stop func(), err error) {
	lis, err := net.Listen("tcp4", "127.0.0.1:0")
	if err != nil {
		return "", nil, err
	}
	srv := grpc.NewServer()
	sdpb.RegisterDaemonServiceServer(srv, &stubDaemon{})
	go func() { _ = srv.Serve(lis) }()
	return lis.Addr().String(), srv.Stop, nil
}

// Wiring writes tomlText to a file next to the binary, runs the hook and
// parses its output. The placeholder @DAEMON@ in tomlText is replaced by the
// address of a stub daemon that lives for the duration of the call.
// A configuration the service refuses gives Result.Fatal = true and no error;
// err is for failures of the machinery (cannot write the file, cannot start
// the process, output that is not the hook's).
func Wiring(bin, tomlText string) (*Result, error) {
	if strings.Contains(tomlText, "@DAEMON@") {
		addr, stop, err := StubDaemon()
		if err != nil {
			return nil, err
		}
		defer stop()
		tomlText = strings.ReplaceAll(tomlText, "@DAEMON@", addr)
	}
	f, err := os.CreateTemp(filepath.Dir(bin), "wiring-*.toml")
	if err != nil {
		return nil, err
	}
	defer os.Remove(f.Name())
	if _, err := f.WriteString(tomlText); err != nil {
		f.Close()
		return nil, err
	}
	f.Close()
	cmd := exec.Command(bin)
	cmd.Env = append(os.Environ(), "SCION_TIME_VERIF_WIRING="+f.Name())
	out, runErr := cmd.CombinedOutput()
	res, perr := Parse(string(out))
	if perr != nil {
		return res, perr
	}
	if runErr != nil {
		var ee *exec.ExitError
		if !errors.As(runErr, &ee) {
			return res, runErr
		}
		res.Fatal = true
	}
	return res, nil
}

// Parse reads the hook's output ("verif-wiring", "verif-wiring-client",
// "verif-wiring-done" lines; everything else, e.g. log lines, is kept in
// Output only). A run without the final "verif-wiring-done" line is Fatal.
func Parse(out string) (*Result, error) {
	res := &Result{Output: out}
	done := false
	sc := bufio.NewScanner(strings.NewReader(out))
	sc.Buffer(make([]byte, 1<<20), 1<<20)
	for sc.Scan() {
		f := strings.Fields(sc.Text())
		if len(f) == 0 {
			continue
		}
		switch f[0] {
		case "verif-wiring":
			if len(f) < 5 {
				return res, fmt.Errorf("svclib: short verif-wiring line %q", sc.Text())
			}
			pos, err := strconv.Atoi(f[2])
			if err != nil {
				return res, fmt.Errorf("svclib: bad position in %q", sc.Text())
			}
			res.Clocks = append(res.Clocks, Clock{Role: f[1], Pos: pos, Kind: f[3], ID: strings.Join(f[4:], " ")})
		case "verif-wiring-client":
			if len(f) < 4 {
				return res, fmt.Errorf("svclib: short verif-wiring-client line %q", sc.Text())
			}
			pos, err1 := strconv.Atoi(f[2])
			idx, err2 := strconv.Atoi(f[3])
			if err1 != nil || err2 != nil {
				return res, fmt.Errorf("svclib: bad numbers in %q", sc.Text())
			}
			var clk *Clock
			for i := range res.Clocks {
				if res.Clocks[i].Role == f[1] && res.Clocks[i].Pos == pos {
					clk = &res.Clocks[i]
				}
			}
			if clk == nil {
				return res, fmt.Errorf("svclib: client line without its clock: %q", sc.Text())
			}
			ci := ClientInfo{Index: idx, Raw: map[string]string{}}
			for _, kv := range f[4:] {
				k, v, ok := strings.Cut(kv, "=")
				if !ok {
					continue
				}
				if v == "-" {
					v = ""
				}
				ci.Raw[k] = v
			}
			b := func(k string) bool { return ci.Raw[k] == "true" }
			ci.Nil = b("nil")
			ci.Interleaved = b("interleaved")
			ci.DSCP, _ = strconv.Atoi(ci.Raw["dscp"])
			ci.Auth, ci.NTS = b("auth"), b("nts")
			ci.NTSKEPort, ci.NTSKEServer = ci.Raw["ntske_port"], ci.Raw["ntske_server"]
			ci.NTSKEQUIC, ci.NTSKELog = b("ntske_quic"), b("ntske_log")
			ci.DRKey, ci.DRKeyPtr = b("drkey"), ci.Raw["drkeyp"]
			ci.Pather, ci.PatherPtr = b("pather"), ci.Raw["patherp"]
			ci.Filter, ci.FilterPtr = ci.Raw["filter"], ci.Raw["filterp"]
			ci.Histogram, ci.Log = b("hist"), b("log")
			clk.Clients = append(clk.Clients, ci)
		case "verif-wiring-done":
			if len(f) == 3 {
				res.NRef, _ = strconv.Atoi(f[1])
				res.NPeer, _ = strconv.Atoi(f[2])
				done = true
			}
		}
	}
	if !done {
		res.Fatal = true
	}
	return res, nil
}
