// Package lib holds what every per-property harness shares: the PRNG all
// random choices derive from, the case-file writer and value formatting.
package lib

import (
	"bufio"
	"encoding/hex"
	"flag"
	"fmt"
	"math/big"
	"os"
	"sort"
	"strconv"
	"strings"
)

// Rng is splitmix64; every random choice of a run derives from one seed.
type Rng struct{ s uint64 }

// NewRng scrambles the seed so that the streams of neighbouring seeds are unrelated
// (the state advances by a constant per draw: unscrambled, seed k+1 would be seed k one draw later).
func NewRng(seed uint64) *Rng {
	z := seed + 0x9E3779B97F4A7C15
	z = (z ^ (z >> 30)) * 0xBF58476D1CE4E5B9
	z = (z ^ (z >> 27)) * 0x94D049BB133111EB
	return &Rng{s: (z ^ (z >> 31)) + 0x1234567}
}

func (r *Rng) U64() uint64 {
	r.s += 0x9E3779B97F4A7C15
	z := r.s
	z = (z ^ (z >> 30)) * 0xBF58476D1CE4E5B9
	z = (z ^ (z >> 27)) * 0x94D049BB133111EB
	return z ^ (z >> 31)
}
func (r *Rng) Intn(n int) int {
	if n <= 0 {
		return 0
	}
	return int(r.U64() % uint64(n))
}
func (r *Rng) I64() int64       { return int64(r.U64()) }
func (r *Rng) Bool() bool       { return r.U64()&1 == 1 }
func (r *Rng) Range(lo, hi int64) int64 { // inclusive
	if hi <= lo {
		return lo
	}
	span := uint64(hi-lo) + 1
	if span == 0 {
		return int64(r.U64())
	}
	return lo + int64(r.U64()%span)
}
func (r *Rng) Bytes(n int) []byte {
	b := make([]byte, n)
	for i := range b {
		b[i] = byte(r.U64())
	}
	return b
}
func (r *Rng) Fork() *Rng { return NewRng(r.U64()) }

// Pick returns one of the given values.
func Pick[T any](r *Rng, xs ...T) T { return xs[r.Intn(len(xs))] }

// Value formatting for the case file.
func I(x int64) string    { return strconv.FormatInt(x, 10) }
func U(x uint64) string   { return strconv.FormatUint(x, 10) }
func Big(x *big.Int) string { return x.String() }
func B(b []byte) string   { return "x" + hex.EncodeToString(b) }
func Bool(b bool) string {
	if b {
		return "1"
	}
	return "0"
}
func L(items ...string) string { return "[" + strings.Join(items, " ") + "]" }
func IL(xs []int64) string {
	s := make([]string, len(xs))
	for i, x := range xs {
		s[i] = I(x)
	}
	return L(s...)
}
func V(items ...string) string { return strings.Join(items, " ") }

// Writer writes the case file and keeps the per-tag statistics that end up in
// the evidence file.
type Writer struct {
	f       *os.File
	w       *bufio.Writer
	n       int
	tags    map[string]int
	kinds   map[string]int
	samples []string
	MaxSamples int
}

func NewWriter(path string) *Writer {
	f, err := os.Create(path)
	if err != nil {
		panic(err)
	}
	return &Writer{f: f, w: bufio.NewWriterSize(f, 1<<20), tags: map[string]int{}, kinds: map[string]int{}, MaxSamples: 6}
}

// Case records one case: kind, comma-separated tags ("nt" marks a case that
// is non-trivial by the property's stated rule), inputs and observed outputs.
func (w *Writer) Case(kind, tags, args, outs string) {
	w.n++
	w.kinds[kind]++
	for _, t := range strings.Split(tags, ",") {
		if t != "" {
			w.tags[t]++
		}
	}
	fmt.Fprintf(w.w, "%s\t%s\t%s\t%s\n", kind, tags, args, outs)
}

func (w *Writer) Comment(s string) { fmt.Fprintf(w.w, "# %s\n", s) }

func (w *Writer) Close() {
	keys := make([]string, 0, len(w.tags))
	for k := range w.tags {
		keys = append(keys, k)
	}
	sort.Strings(keys)
	for _, k := range keys {
		fmt.Fprintf(w.w, "#TAG\t%s\t%d\n", k, w.tags[k])
	}
	w.w.Flush()
	w.f.Close()
}

func (w *Writer) N() int { return w.n }

// Args are the flags every harness command takes.
type Args struct {
	Tier   string
	Seed   uint64
	Out    string
	Replay string
}

func ParseArgs() Args {
	var a Args
	flag.StringVar(&a.Tier, "tier", "quick", "quick|thorough")
	flag.Uint64Var(&a.Seed, "seed", 1, "seed")
	flag.StringVar(&a.Out, "out", "cases.txt", "case file to write")
	flag.StringVar(&a.Replay, "replay", "", "replay file: re-run the inputs of these case lines")
	flag.Parse()
	return a
}

// ReplayLines returns the (kind, tags, args) of the case lines in a replay file.
func ReplayLines(path string) [][3]string {
	data, err := os.ReadFile(path)
	if err != nil {
		panic(err)
	}
	var out [][3]string
	for _, line := range strings.Split(string(data), "\n") {
		if line == "" || line[0] == '#' {
			continue
		}
		p := strings.Split(line, "\t")
		if len(p) >= 3 {
			out = append(out, [3]string{p[0], p[1], p[2]})
		}
	}
	return out
}

// Fields splits an args string into top-level tokens (no nested lists needed by callers that use it).
func Fields(s string) []string { return strings.Fields(s) }

func ParseI(s string) int64 {
	v, err := strconv.ParseInt(s, 10, 64)
	if err != nil {
		panic(err)
	}
	return v
}
func ParseU(s string) uint64 {
	v, err := strconv.ParseUint(s, 10, 64)
	if err != nil {
		panic(err)
	}
	return v
}
func ParseB(s string) []byte {
	b, err := hex.DecodeString(strings.TrimPrefix(s, "x"))
	if err != nil {
		panic(err)
	}
	return b
}
