#!/bin/bash
# tools/rebaseseeds.sh: after a fix: commit in /repo some seeded patches no longer apply with `git apply`
# (strict context).  For each such seed: try `git apply --3way`-free fuzzy application (patch --fuzz=3) in a
# scratch worktree of HEAD; if that succeeds and the tree still builds, install the regenerated diff as
# patch.diff (the original is kept as patch.orig-<old head>.diff) and note it in meta.json.  Seeds that
# need a hand are listed at the end.
set -u
cd /verif
export GOFLAGS=-mod=mod GOPROXY=off
HEAD=$(git -C /repo rev-parse --short HEAD)
need=()
for d in seeded/C??-m*; do
  s=$(basename $d)
  git -C /repo apply --check /verif/$d/patch.diff 2>/dev/null && continue
  WT=/tmp/rebwt.$$.$s
  git -C /repo worktree add -q --detach $WT HEAD || { need+=($s); continue; }
  if (cd $WT && patch -p1 --fuzz=3 --no-backup-if-mismatch -s < /verif/$d/patch.diff >/dev/null 2>&1) && (cd $WT && find . -name '*.orig' -o -name '*.rej' | grep -q . ; test $? -ne 0) && (cd $WT && go build ./... >/dev/null 2>&1); then
    (cd $WT && git diff) > /tmp/reb.$$.diff
    if [ -s /tmp/reb.$$.diff ]; then
      cp $d/patch.diff $d/patch.orig-before-$HEAD.diff
      cp /tmp/reb.$$.diff $d/patch.diff
      python3 - "$d/meta.json" "$HEAD" <<'PY'
import json,sys
p,h=sys.argv[1],sys.argv[2]
m=json.load(open(p))
m['rebased']=(m.get('rebased','')+' | ' if m.get('rebased') else '')+'re-applied with fuzz onto /repo %s after a fix: commit changed neighbouring lines; same change, original kept as patch.orig-before-%s.diff'%(h,h)
json.dump(m,open(p,'w'),indent=1)
PY
      echo "rebased $s"
    else need+=($s); fi
  else need+=($s); fi
  git -C /repo worktree remove --force $WT
  rm -f /tmp/reb.$$.diff
done
echo "need a hand: ${need[*]:-none}"
