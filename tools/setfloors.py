#!/usr/bin/env python3
"""Writes a coverage floor (min_cases) into tools/props/Cxx.py from the case counts of the
current quick-tier evidence: 30% of what the quick run produced per kind (kinds with fewer
than 3 cases get a floor of 1; kinds listed in the CONF key no_floor get none).  usage: tools/setfloors.py [Cxx ...]"""
import json, os, re, sys
ROOT = os.path.dirname(os.path.dirname(os.path.abspath(__file__)))
ids = sys.argv[1:] or [l.strip() for l in open(os.path.join(ROOT, "tools", "claimed.txt")) if l.strip()]
for pid in ids:
    ev = json.load(open(os.path.join(ROOT, "evidence", pid + ".json")))
    if ev.get("tier") != "quick":
        print(pid, "evidence is not from the quick tier; skipped"); continue
    kinds = ev["coverage"].get("case_kinds", {})
    p = os.path.join(ROOT, "tools", "props", pid + ".py")
    s = open(p).read()
    # CONF key no_floor=[...]: case kinds that a run may legitimately skip on some hosts (with a NOTE): never floored
    m = re.search(r"\n    no_floor=\[([^\]]*)\]", s)
    no_floor = set(re.findall(r"'([^']+)'", m.group(1))) if m else set()
    floors = {k: (max(1, int(v * 0.3)) if v >= 3 else 1) for k, v in sorted(kinds.items()) if k not in no_floor}
    s = re.sub(r"\n    min_cases=\{[^}]*\},", "", s)
    i = s.rindex(")")
    s = s[:i].rstrip()
    if not s.endswith(","):
        s += ","
    s += "\n    min_cases=%r,\n)\n" % floors
    open(p, "w").write(s)
    print(pid, floors)
