#!/bin/bash
# usage: tools/confirmseed.sh <ID> <k>   -- confirms seeded change /tmp/seed/<ID>/out/<ID>-m<k>.* in the scratch worktree
# (at /repo's current HEAD) and, if everything holds, stores it under /verif/seeded/<ID>-m<k>/
set -u
ID="$1"; K="$2"
WT=/tmp/seed/$ID/wt; OUT=/tmp/seed/$ID/out; N=$ID-m$K
export GOFLAGS=-mod=mod GOPROXY=off GOEXPERIMENT=synctest
cd "$WT" || exit 2
git checkout -q -- . ; git clean -fdq -e 'testnet/*/m' ; git checkout -q --detach "$(git -C /repo rev-parse HEAD)" || exit 2
META=$OUT/$N.json
DEMODIR=$(python3 -c "import json;print(json.load(open('$META'))['demo_dir'])")
DEMOCMD=$(python3 -c "import json;print(json.load(open('$META'))['demo_cmd'])")
DEMOFILE=$N"_demo_test.go"
res() { echo "confirmseed $N: $*"; }
git apply --check "$OUT/$N.diff" || { res "patch does not apply to current HEAD"; exit 1; }
git apply "$OUT/$N.diff"
go build ./... || { res "does not build"; git checkout -q -- .; exit 1; }
if ! go test -vet=off -count=1 ./... > /tmp/seed/$ID/suite.log 2>&1; then res "existing suite FAILS with patch"; git checkout -q -- .; exit 1; fi
cp "$OUT/$DEMOFILE" "$WT/$DEMODIR/" 
( cd "$WT" && eval "$DEMOCMD" ) > /tmp/seed/$ID/demo_mut.log 2>&1; rc_mut=$?
git checkout -q -- .
( cd "$WT" && eval "$DEMOCMD" ) > /tmp/seed/$ID/demo_clean.log 2>&1; rc_clean=$?
rm -f "$WT/$DEMODIR/$DEMOFILE"
git status --short | grep -v 'testnet/.*/m' 
if [ $rc_mut -ne 0 ] && [ $rc_clean -eq 0 ]; then
  D=/verif/seeded/$N; mkdir -p $D
  cp "$OUT/$N.diff" $D/patch.diff; cp "$OUT/$DEMOFILE" $D/
  python3 - "$META" "$D/meta.json" <<PY
import json,sys
m=json.load(open(sys.argv[1]))
m["confirmed_by_me"]={"repo_head":"$(git -C /repo rev-parse --short HEAD)","build":"go build ./... ok","existing_suite":"go test -vet=off -count=1 ./... passes with the patch","demo_with_patch":"fails (exit $rc_mut)","demo_without_patch":"passes (exit 0)","ran":"tools/confirmseed.sh $ID $K in scratch worktree /tmp/seed/$ID/wt (removed afterwards)"}
json.dump(m,open(sys.argv[2],"w"),indent=1)
PY
  res "CONFIRMED (demo fails with patch, passes without; suite passes) -> $D"
else
  res "NOT confirmed: demo rc with patch=$rc_mut, clean=$rc_clean"; tail -5 /tmp/seed/$ID/demo_mut.log /tmp/seed/$ID/demo_clean.log
fi
