#!/usr/bin/env python3
"""Builds the runner and the harness command of every claimed property (used by setup.sh)."""
import importlib.machinery, importlib.util, os, sys
ROOT = os.path.dirname(os.path.dirname(os.path.abspath(__file__)))
loader = importlib.machinery.SourceFileLoader("checkdrv", os.path.join(ROOT, "check"))
spec = importlib.util.spec_from_loader("checkdrv", loader)
drv = importlib.util.module_from_spec(spec)
sys.argv = ["check"]
loader.exec_module(drv)
bad = 0
claimed = set(l.strip() for l in open(os.path.join(ROOT, 'tools', 'claimed.txt')) if l.strip())
for pid in sorted(p for p in drv.PROPS if p in claimed):
    ok, log = drv.build_coq(pid)
    if not ok:
        print("setup: Coq/runner build failed for %s:\n%s" % (pid, log[-2000:])); bad += 1
    hok, hlog, _ = drv.build_harness(pid)
    if not hok:
        print("setup: harness for %s did not build:\n%s" % (pid, hlog[-2000:])); bad += 1
# translated functions: warm the per-source cache of the equivalence lemmas (./check runs the same command)
import subprocess
for pid in sorted(p for p in drv.PROPS if p in claimed):
    if os.path.exists(os.path.join(ROOT, 'tools', 'gen', pid + '.spec')):
        r = subprocess.run([os.path.join(ROOT, 'tools', 'genequiv.sh'), pid], cwd=ROOT, stdout=subprocess.PIPE, stderr=subprocess.STDOUT, text=True)
        print((r.stdout.strip().splitlines() or ['GENEQUIV %s: no output' % pid])[-1])
sys.exit(1 if bad else 0)
