"""Per-property configuration of the check driver."""

# axioms declared by Coq's standard library that the brief allows, provided they are named
STD_AXIOMS = {
    "ClassicalDedekindReals.sig_forall_dec",
    "ClassicalDedekindReals.sig_not_dec",
    "FunctionalExtensionality.functional_extensionality_dep",
    "Classical_Prop.classic",
    "functional_extensionality_dep",
    "sig_forall_dec", "sig_not_dec", "classic",
}

COMMON_TRUSTED = [
    "Coq 8.16.1 kernel (coqc, full .vo build; vm_compute used in witness lemmas and finite sweeps; no native_compute)",
    "hand-written Gallina model of the anchored Go code (coq/Model/*.v), tied to /repo only by the correspondence check of this run",
    "extraction: ExtrOcamlBasic only (its Extract Inductive for bool/option/unit/list/prod/sumbool/sumor and Extract Inlined Constant andb/orb); Z, positive, nat, string stay inductive; OCaml 4.13.1 ocamlfind ocamlopt",
    "correspondence check = differential testing: Go harness (generators, recorders), ocaml/driver.ml (parser, comparison), this python driver",
    "Go compiler/runtime semantics (int64 wrap-around, truncating division, slice bounds) as written into the model",
]

PROPS = {
    "C04": dict(
        cmd="c04", props="Props/C04.v",
        rule="(time, reference) pairs: references 1970-2450 dense around the NTP era boundaries, time-reference distance at the window edges +-2^31 s, near 0 and random, nanoseconds at 0/999999999/next to every change of the 2^-32 fraction/random; a case is non-trivial when time and reference lie in different NTP eras inside the window; distinct = distinct (kind, input)",
        assumptions=[
            "time.Time modelled as unbounded nanoseconds since the Unix epoch (Unix() = floor division, Nanosecond() = remainder)",
            "reference times from 1970 up to Unix second 2^60; the window is taken on whole seconds, as the code uses the reference",
        ],
        trusted=["modelled, not verified: time.Unix / Time.Unix / Time.Nanosecond of the Go standard library"],
        technique="Coq proof (lia over Euclidean division) of the round-trip and order theorems on a Gallina model of Time64FromTime/TimeFromTime64 with explicit int64 wrap; model tied to the code by differential execution of the extracted model against the exported Go functions",
        level_text="Machine-checked theorems for all reference times 1970..Unix second 2^60 and all times in the +-2^31 s window at nanosecond granularity (no sampling); the model is tied to the Go code by running both on era-boundary-dense inputs every run, and the property oracle is evaluated on the implementation's own outputs",
        level_note="Trusted: Coq kernel, the hand-written model (validated by the correspondence run), extraction with ExtrOcamlBasic, the harness. Window taken on whole seconds as the code does. No axioms (Closed under the global context).",
    ),
}

PROPS["C18"] = dict(
    cmd="c18", props="Props/C18.v",
    rule="int64 nanosecond counts (extremes, multiples of a second +-1, powers of two +-2, random) for the timeval split; all-range and boundary scaled-ppm values; drift (drift, interval) pairs; 48-bit CSPTP seconds x nanoseconds incl. range ends and out-of-range times; 64-bit correction fields; (t0,t2,theta,delta,c1,c3) tuples for the offset/delay formulas. Non-trivial: negative nanosecond counts, non-zero in-range ppm values, non-zero drift, wire round trips, negative correction fields with sub-ns bits, formula recovery cases; distinct = distinct (kind, input)",
    assumptions=[
        "float64 arithmetic of Go on amd64 = IEEE-754 binary64 round-to-nearest-even without FMA contraction (Flocq BinarySingleNaN); int64(float64) = CVTTSD2SI (-2^63 when out of range)",
        "CSPTP formula theorems: all magnitudes below 2^60 ns so that no int64 operation wraps (the property's 'combinations that do not overflow')",
    ],
    trusted=["Flocq 4 (IEEE754.BinarySingleNaN/Binary/Bits) as the float64 semantics; theorems of this property that are purely integer are closed under the global context",
             "modelled, not verified: golang.org/x/sys/unix.Timeval layout, time.Duration.Seconds, Go float<->int conversions"],
    technique="Coq proofs (lia with Euclidean division; Flocq for the float clauses) over a Gallina model of TimevalFromNsec, ScaledPPM/Freq, SystemClock.Drift and the csptp conversion/offset formulas; differential execution of the extracted model (bit-exact floats) against the Go functions",
    level_text="Theorems quantify over all int64 nanosecond counts, all 48-bit/ns CSPTP timestamps, all 64-bit correction fields and all non-overflowing offset/delay combinations; the float functions are modelled bit-exactly with Flocq and compared bit-for-bit with Go every run; the property oracle (normalisation, +-1 ulp ppm round trip, floor of correction fields, exact recovery of offset/delay) is evaluated on the implementation's outputs",
    level_note="Trusted: Coq kernel, Flocq as float semantics, hand-written model validated by the correspondence run, extraction, harness. The +-1 ppm round-trip clause is proved by Flocq error analysis where listed in the evidence theorems, otherwise enforced by the oracle on the sampled range only (named _partial).",
)

PROPS["C02"] = dict(
    cmd="c02", props="Props/C02.v",
    rule="slices of n = 0..40 int64 offsets (mostly n <= 12) around a common base with clustered duplicates, odd values, +-(2^62-1) extremes; up to floor((n-1)/3) positions tagged arbitrary and placed all-high / all-low / split / random; random permutations of the same multiset; measurement variants with timestamps and error flags. Non-trivial: n >= 4 with at least one arbitrary value outside the range of the correct ones (or a permuted copy / errored measurement with n >= 4); distinct = distinct (kind, input)",
    assumptions=[
        "slices.Sort / slices.SortFunc return a sorted permutation (their contract); for measurements the model is relational in the order of equal offsets",
        "time.Time as unbounded nanoseconds; Time.Sub saturates, Time.Add exact",
    ],
    trusted=["modelled, not verified: Go's slices.Sort/SortFunc (pdqsort) by contract; the observed slice after each call is checked to be a sorted permutation"],
    technique="Coq proof: counting argument on sorted tagged lists (among the f+1 smallest and the f+1 largest there is a correct value), uniqueness of sorted permutations, int64 no-overflow lemma below 2^62; relational model for the unstable measurement sort; differential execution against timemath/measurements",
    level_text="Theorems hold for every n >= 1, every multiset with |v| < 2^62, every placement of <= floor((n-1)/3) arbitrary values and every permutation; measurement theorems hold for every sorted permutation the unstable sort may produce. Model tied to the Go functions by running both on adversarially placed inputs; the containment/permutation/sortedness oracle is evaluated on the implementation's outputs",
    level_note="Trusted: Coq kernel, model validated by the correspondence run, extraction, harness; slices.Sort by contract (checked on every observed output). No axioms.",
)

NOT_YET = {}
