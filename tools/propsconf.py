"""Per-property configuration of the check driver: one file tools/props/Cxx.py
per claimed property, each defining CONF = dict(cmd=<harness command under
harness/cmd>, props=<Props file>, glue=<Extract/GlueCxx.v, default by id>,
rule, assumptions, trusted, technique, level_text, level_note, ...)."""
import importlib.util, os

# axioms declared by Coq's standard library that the brief allows, provided they are named
STD_AXIOMS = {
    "ClassicalDedekindReals.sig_forall_dec",
    "ClassicalDedekindReals.sig_not_dec",
    "FunctionalExtensionality.functional_extensionality_dep",
    "Classical_Prop.classic",
    "functional_extensionality_dep",
    "sig_forall_dec", "sig_not_dec", "classic",
}

COMMON_TRUSTED = [
    "Coq 8.16.1 kernel (coqc, full .vo build; vm_compute used in witness lemmas and finite sweeps; no native_compute)",
    "hand-written Gallina model of the anchored Go code (coq/Model/*.v), tied to /repo only by the correspondence check of this run",
    "extraction: ExtrOcamlBasic only (its Extract Inductive for bool/option/unit/list/prod/sumbool/sumor and Extract Inlined Constant andb/orb); Z, positive, nat, string stay inductive; OCaml 4.13.1 ocamlfind ocamlopt",
    "correspondence check = differential testing: Go harness (generators, recorders), ocaml/driver.ml (parser, comparison), this python driver",
    "Go compiler/runtime semantics (int64 wrap-around, truncating division, slice bounds) as written into the model",
]

PROPS = {}
BROKEN = {}   # property id -> why its configuration file could not be loaded
_d = os.path.join(os.path.dirname(os.path.abspath(__file__)), "props")
for _f in sorted(os.listdir(_d)):
    if _f.endswith(".py") and _f[0] == "C":
        _spec = importlib.util.spec_from_file_location("props_" + _f[:-3], os.path.join(_d, _f))
        _m = importlib.util.module_from_spec(_spec)
        try:
            _spec.loader.exec_module(_m)
            _c = dict(_m.CONF)
        except Exception as _e:  # a broken configuration of one property must not stop the checks of the others
            BROKEN[_f[:-3]] = "%s: %s" % (type(_e).__name__, _e)
            continue
        _c.setdefault("glue", "Extract/Glue%s.v" % _f[:-3])
        _c.setdefault("props", "Props/%s.v" % _f[:-3])
        PROPS[_f[:-3]] = _c

# properties not claimed, with the reason (none: every property is meant to be claimed)
NOT_YET = {}
