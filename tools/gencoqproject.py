#!/usr/bin/env python3
"""Project files for the Coq development.

closure(roots) follows the `From ST Require ... .` lines from the given .v
files (paths relative to coq/) and returns every file of this development they
depend on.  write_project(name, files) writes coq/_CoqProject.<name> (only
when it changed) so that each property is built from a Makefile that mentions
only the files it needs: a file that is being edited for another property can
never break this one's build.  Run as a script it writes coq/_CoqProject for
the union of all claimed properties (used by setup.sh and for coqchk)."""
import os, re, sys
ROOT = os.path.dirname(os.path.dirname(os.path.abspath(__file__)))
COQ = os.path.join(ROOT, "coq")
REQ = re.compile(r"From\s+ST\s+Require\s+(?:Import|Export)?\s*([^.]*(?:\.[A-Za-z_][^.\s]*)*)\s*\.(?:\s|$)", re.S)


def requires(path):
    text = open(os.path.join(COQ, path)).read()
    text = re.sub(r"\(\*.*?\*\)", "", text, flags=re.S)
    out = []
    for m in re.finditer(r"From\s+ST\s+Require\s+(?:Import\s+|Export\s+)?(.*?)\.(?=\s)", text, flags=re.S):
        for mod in m.group(1).split():
            out.append(mod.replace(".", "/") + ".v")
    return out


def closure(roots):
    seen, todo = [], list(roots)
    while todo:
        f = todo.pop()
        if f in seen:
            continue
        if not os.path.exists(os.path.join(COQ, f)):
            continue
        seen.append(f)
        todo += requires(f)
    return sorted(seen)


def write_project(name, files):
    text = "-Q . ST\n" + "".join(f + "\n" for f in files)
    path = os.path.join(COQ, "_CoqProject" + ("." + name if name else ""))
    if not os.path.exists(path) or open(path).read() != text:
        with open(path, "w") as f:
            f.write(text)
    return path


if __name__ == "__main__":
    sys.path.insert(0, os.path.join(ROOT, "tools"))
    from propsconf import PROPS
    claimed = set(l.strip() for l in open(os.path.join(ROOT, "tools", "claimed.txt")) if l.strip())
    roots = []
    for c in (v for k, v in PROPS.items() if k in claimed):
        roots += [c["props"], c["glue"]]
    files = closure(roots)
    write_project("", files)
    print("_CoqProject: %d files" % len(files))
