#!/bin/sh
# usage: tools/seedtest.sh <patch.diff> <property id> [tier]
# applies a seeded change to /repo, runs the check, and always restores /repo
set -u
P="$(realpath "$1")"; ID="$2"; TIER="${3:-quick}"
cd /verif
if ! git -C /repo apply --check "$P" 2>/dev/null; then echo "seedtest: patch does not apply: $P"; exit 3; fi
git -C /repo apply "$P"
./check "$ID" --tier "$TIER" > build/seedtest.$$.log 2>&1; rc=$?
git -C /repo checkout -- . 
grep -E "^VIOLATION|^KNOWN|tier=" build/seedtest.$$.log
echo "seedtest: $P on $ID -> exit $rc"
rm -f build/seedtest.$$.log
exit $rc
