#!/bin/sh
# usage: tools/seedtest.sh <patch.diff> <property id> [tier]
# Runs the check of a property against a scratch worktree of /repo's HEAD with a
# seeded change applied (VERIF_REPO); /repo itself is never touched, no
# evidence is written, and the worktree is removed afterwards.
set -u
P="$(realpath "$1")"; ID="$2"; TIER="${3:-quick}"
WT=/tmp/seedwt.$$
cd /verif
git -C /repo worktree add -q --detach "$WT" HEAD || exit 3
if ! git -C "$WT" apply --check "$P" 2>/dev/null; then echo "seedtest: patch does not apply: $P"; git -C /repo worktree remove --force "$WT"; exit 3; fi
git -C "$WT" apply "$P"
VERIF_REPO="$WT" ./check "$ID" --tier "$TIER" > build/seedtest.$$.log 2>&1; rc=$?
git -C /repo worktree remove --force "$WT"
grep -E "^VIOLATION|^KNOWN|tier=" build/seedtest.$$.log
echo "seedtest: $P on $ID -> exit $rc"
rm -f build/seedtest.$$.log
exit $rc
