#!/bin/bash
# tools/genequiv.sh Cxx [repo-dir]
#
# Second tie between model and code for the scalar functions of property Cxx:
#  1. builds the translator (harness/cmd/go2coq) and runs it on tools/gen/Cxx.spec against the
#     CURRENT source of the repository (default /repo) -> Gen.v (logical name STGen.Gen);
#  2. compiles Gen.v and a copy of coq/GenEquiv/Cxx.v (lemmas  forall inputs, Gen.f .. = Model.f ..)
#     in build/gen/Cxx.<first 12 hex of sha256(Gen.v)>/ with  coqc -Q /verif/coq ST -Q . STGen ;
#  3. requires every lemma to be followed by Print Assumptions and to be closed under the global
#     context; writes the Print Assumptions output to assumptions.txt in that directory.
# Prints  GENEQUIV Cxx ok lemmas=<n> functions=<n> hash=<h>   (exit 0)
#    or   GENEQUIV Cxx FAIL <first error, one line>             (exit 1).
# The .vo files of the models must exist (run ./check Cxx or ./setup.sh before).
set -u
ROOT="$(cd "$(dirname "$0")/.." && pwd)"
PID="${1:?usage: tools/genequiv.sh Cxx [repo-dir]}"
REPO="${2:-/repo}"
COQ="$ROOT/coq"
SPEC="$ROOT/tools/gen/$PID.spec"
EQUIV="$COQ/GenEquiv/$PID.v"
GEN="$ROOT/build/gen"
export GOFLAGS=-mod=mod GOPROXY=off
unset GOSUMDB GOTOOLCHAIN

fail() { echo "GENEQUIV $PID FAIL $(echo "$*" | tr '\n' ' ' | cut -c1-400)"; exit 1; }

[ -f "$SPEC" ] || fail "no spec file tools/gen/$PID.spec"
[ -f "$EQUIV" ] || fail "no equivalence file coq/GenEquiv/$PID.v"
[ -d "$REPO" ] || fail "no repository at $REPO"
mkdir -p "$GEN" "$ROOT/build/bin"

# 1. translator (serialised: several checks may run at once)
(
  flock 9
  cd "$ROOT/harness" && go build -o ../build/bin/go2coq ./cmd/go2coq
) 9>"$ROOT/build/.go2coq.lock" >"$GEN/.build.$$.log" 2>&1 || { msg="$(head -5 "$GEN/.build.$$.log")"; rm -f "$GEN/.build.$$.log"; fail "go build of go2coq: $msg"; }
rm -f "$GEN/.build.$$.log"

TMP="$GEN/tmp.$PID.$$"
rm -rf "$TMP"; mkdir -p "$TMP"
trap 'rm -rf "$TMP"' EXIT
if ! "$ROOT/build/bin/go2coq" -repo "$REPO" -spec "$SPEC" -out "$TMP/Gen.v" >"$TMP/go2coq.log" 2>&1; then
  fail "translator: $(grep -m1 'REFUSED\|go2coq:' "$TMP/go2coq.log")"
fi
NFUNC="$(sed -n 's/^go2coq: \([0-9]*\) functions.*/\1/p' "$TMP/go2coq.log")"
H="$(sha256sum "$TMP/Gen.v" | cut -c1-12)"
DIR="$GEN/$PID.$H"

# 2. what the equivalence file needs from the hand-written development
CLOSURE="$(cd "$ROOT" && python3 - "$PID" <<'EOF'
import sys
sys.path.insert(0, "tools")
import gencoqproject
for f in gencoqproject.closure(["GenEquiv/%s.v" % sys.argv[1]]):
    if not f.startswith("GenEquiv/"):
        print(f)
EOF
)" || fail "cannot compute the Require closure"
# coq/GenLib (GoSem, GoSemBridge) is ours: (re)compile what is missing or older than its source
# a GenLib .vo is out of date when it is missing, older than its source or GoSem.v, or older than the
# .vo of a model it requires (a model file has been edited and rebuilt since)
genlib_stale() {
  local f="$1" g
  [ ! -f "$COQ/${f}o" ] && return 0
  [ "$COQ/${f}o" -ot "$COQ/$f" ] && return 0
  [ "$COQ/${f}o" -ot "$COQ/GenLib/GoSem.v" ] && return 0
  for g in $(cd "$ROOT" && python3 -c "
import sys; sys.path.insert(0,'tools'); import gencoqproject
print(' '.join(x for x in gencoqproject.closure(['$f']) if x != '$f'))"); do
    [ -f "$COQ/${g}o" ] && [ "$COQ/${f}o" -ot "$COQ/${g}o" ] && return 0
    [ "$COQ/${f}o" -ot "$COQ/$g" ] && return 0
  done
  return 1
}
for f in GenLib/GoSem.v $(echo "$CLOSURE" | grep '^GenLib/' | grep -v '^GenLib/GoSem.v$'); do
  if genlib_stale "$f"; then
    (
      flock 9
      if genlib_stale "$f"; then
        for g in $(cd "$ROOT" && python3 -c "
import sys; sys.path.insert(0,'tools'); import gencoqproject
print(' '.join(x for x in gencoqproject.closure(['$f']) if not x.startswith('GenLib/')))"); do
          [ -f "$COQ/${g}o" ] || { echo "File $g: missing .vo: run ./check $PID (or ./setup.sh) first"; exit 1; }
        done
        cd "$COQ" && timeout 600 coqc -Q . ST "$f"
      fi
    ) 9>"$ROOT/build/.gosem.lock" >"$TMP/genlib.log" 2>&1 || fail "$f: $(grep -m1 -A3 '^Error\|^File' "$TMP/genlib.log")"
  fi
done
# the models' .vo files: up to date w.r.t. their sources and their dependencies?  If not, build exactly
# those targets with the property's own Makefile under the lock ./check uses for it.
stale() {
  cd "$ROOT" && python3 - $CLOSURE <<'EOF2'
import os, sys
sys.path.insert(0, "tools")
import gencoqproject
COQ = gencoqproject.COQ
bad = []
for f in sys.argv[1:]:
    if f.startswith("GenLib/"):
        continue
    vo = os.path.join(COQ, f + "o")
    if not os.path.exists(vo) or os.path.getmtime(vo) < os.path.getmtime(os.path.join(COQ, f)):
        bad.append(f + "o"); continue
    for g in gencoqproject.requires(f):
        gvo = os.path.join(COQ, g + "o")
        if os.path.exists(os.path.join(COQ, g)) and (not os.path.exists(gvo) or os.path.getmtime(vo) < os.path.getmtime(gvo)):
            bad.append(f + "o"); break
print(" ".join(bad))
EOF2
}
BAD="$(stale)"
if [ -n "$BAD" ]; then
  [ -f "$COQ/Makefile.$PID" ] || fail "stale or missing $BAD and no coq/Makefile.$PID: run ./check $PID (or ./setup.sh) first"
  TARGETS="$(for f in $CLOSURE; do case "$f" in GenLib/*) ;; *) echo "${f}o";; esac; done)"
  (
    flock 9
    cd "$COQ" && timeout 3000 make -f "Makefile.$PID" -j4 $TARGETS
  ) 9>"$ROOT/build/.coq.$PID.lock" >"$TMP/make.log" 2>&1 || fail "cannot bring $BAD up to date with coq/Makefile.$PID ($(grep -m1 'Error\|\*\*\*' "$TMP/make.log")): run ./check $PID first"
  BAD="$(stale)"
  [ -z "$BAD" ] || fail "still stale after make: $BAD: run ./check $PID first"
  # GenLib files compiled against the old .vo must follow
  for f in $(echo "$CLOSURE" | grep '^GenLib/' | grep -v '^GenLib/GoSem.v$'); do
    ( flock 9; cd "$COQ" && timeout 600 coqc -Q . ST "$f" ) 9>"$ROOT/build/.gosem.lock" >"$TMP/genlib.log" 2>&1 || fail "$f: $(grep -m1 -A3 '^Error\|^File' "$TMP/genlib.log")"
  done
fi
# fingerprint of everything the result depends on
FP="$( { cat "$TMP/Gen.v" "$EQUIV"; for f in $CLOSURE; do sha256sum "$COQ/$f" | cut -c1-64; done; } | sha256sum | cut -c1-64)"

if grep -qwE 'Admitted|admit|Axiom|Axioms|Parameter|Parameters|Conjecture' "$EQUIV" "$TMP/Gen.v"; then
  fail "forbidden word in GenEquiv/$PID.v or Gen.v: $(grep -nwE -m1 'Admitted|admit|Axiom|Axioms|Parameter|Parameters|Conjecture' "$EQUIV" "$TMP/Gen.v" | head -1)"
fi
NLEM="$(grep -cE '^(Lemma|Theorem) gen_' "$EQUIV")"
NPA="$(grep -cE '^Print Assumptions gen_' "$EQUIV")"
[ "$NLEM" -ge 1 ] || fail "no lemma gen_* in coq/GenEquiv/$PID.v"
# every translated function must be the subject of a lemma gen_<name>_* or be called (transitively) by one that is
UNCOV="$(python3 - "$TMP/Gen.v" "$EQUIV" <<'EOF3'
import re, sys
gen = open(sys.argv[1]).read()
eq = open(sys.argv[2]).read()
defs = {}
for m in re.finditer(r"^(?:Definition|Fixpoint) (\w+)((?:.|\n)*?)\n\n", gen + "\n\n", re.M):
    name, body = m.group(1), m.group(2)
    if name.startswith(("zero_", "err_")) or ":=" not in body:
        continue
    if re.match(r"\s*:\s*\w+\s*:=\s*(Build_|\d)", body):
        continue
    defs[name] = body
roots = set(n for n in defs if re.search(r"^(?:Lemma|Theorem) gen_%s(?:_\w+)? " % re.escape(n), eq, re.M) or re.search(r"^(?:Lemma|Theorem) gen_%s(?:_\w+)?$" % re.escape(n), eq, re.M))
seen, todo = set(roots), list(roots)
while todo:
    n = todo.pop()
    for k in defs:
        if k not in seen and re.search(r"\b%s\b" % re.escape(k), defs[n]):
            seen.add(k); todo.append(k)
print(" ".join(sorted(set(defs) - seen)))
EOF3
)"
[ -z "$UNCOV" ] || fail "translated functions without an equivalence lemma (gen_<name>_*) in coq/GenEquiv/$PID.v: $UNCOV"
[ "$NLEM" = "$NPA" ] || fail "$NLEM lemmas gen_* but $NPA Print Assumptions in coq/GenEquiv/$PID.v"

if [ -f "$DIR/.ok" ] && [ "$(cat "$DIR/.ok")" = "$FP" ]; then
  echo "GENEQUIV $PID ok lemmas=$NLEM functions=$NFUNC hash=$H"
  exit 0
fi

# 3. compile in the scratch directory
rm -rf "$DIR"; mkdir -p "$DIR"
cp "$TMP/Gen.v" "$DIR/Gen.v"; cp "$EQUIV" "$DIR/$PID.v"; cp "$TMP/go2coq.log" "$DIR/go2coq.log"
cd "$DIR" || fail "cannot enter $DIR"
if ! timeout 600 coqc -Q "$COQ" ST -Q . STGen Gen.v >gen.log 2>&1; then
  fail "Gen.v does not compile: $(grep -m1 -A4 '^File' gen.log)"
fi
timeout "${GENEQUIV_TIMEOUT:-600}" coqc -Q "$COQ" ST -Q . STGen "$PID.v" >equiv.log 2>&1; rc=$?
[ $rc = 124 ] && fail "coq/GenEquiv/$PID.v (against $REPO): coqc timed out (a proof no longer goes through quickly)"
if [ $rc != 0 ]; then
  fail "coq/GenEquiv/$PID.v (against $REPO): $(grep -m1 -A6 '^File' equiv.log)"
fi
cp equiv.log assumptions.txt
NCLOSED="$(grep -c '^Closed under the global context' assumptions.txt)"
if [ "$NCLOSED" != "$NLEM" ]; then
  fail "$NLEM lemmas but only $NCLOSED closed under the global context: $(grep -m1 -A3 '^Axioms:' assumptions.txt)"
fi
echo "$FP" > .ok
echo "GENEQUIV $PID ok lemmas=$NLEM functions=$NFUNC hash=$H"
exit 0
