#!/bin/bash
# tools/genequiv.sh Cxx [repo-dir]
#
# Second tie between model and code for the scalar functions of property Cxx:
#  1. builds the translator (harness/cmd/go2coq) and runs it on tools/gen/Cxx.spec against the
#     CURRENT source of the repository (default /repo) -> Gen.v (logical name STGen.Gen);
#  2. compiles Gen.v and a copy of coq/GenEquiv/Cxx.v (lemmas  forall inputs, Gen.f .. = Model.f ..)
#     in build/gen/Cxx.<first 12 hex of sha256(Gen.v)>/ with  coqc -Q /verif/coq ST -Q . STGen ;
#  3. requires every lemma to be followed by Print Assumptions and to be closed under the global
#     context; writes the Print Assumptions output to assumptions.txt in that directory.
# Prints  GENEQUIV Cxx ok lemmas=<n> functions=<n> hash=<h>   (exit 0)
#    or   GENEQUIV Cxx FAIL <first error, one line>             (exit 1).
# The .vo files of the models must exist (run ./check Cxx or ./setup.sh before).
set -u
ROOT="$(cd "$(dirname "$0")/.." && pwd)"
PID="${1:?usage: tools/genequiv.sh Cxx [repo-dir]}"
REPO="${2:-/repo}"
COQ="$ROOT/coq"
SPEC="$ROOT/tools/gen/$PID.spec"
EQUIV="$COQ/GenEquiv/$PID.v"
GEN="$ROOT/build/gen"
export GOFLAGS=-mod=mod GOPROXY=off
unset GOSUMDB GOTOOLCHAIN

fail() { echo "GENEQUIV $PID FAIL $(echo "$*" | tr '\n' ' ' | cut -c1-400)"; exit 1; }

[ -f "$SPEC" ] || fail "no spec file tools/gen/$PID.spec"
[ -f "$EQUIV" ] || fail "no equivalence file coq/GenEquiv/$PID.v"
[ -d "$REPO" ] || fail "no repository at $REPO"
mkdir -p "$GEN" "$ROOT/build/bin"

# 1. translator (serialised: several checks may run at once)
(
  flock 9
  cd "$ROOT/harness" && go build -o ../build/bin/go2coq ./cmd/go2coq
) 9>"$ROOT/build/.go2coq.lock" >"$GEN/.build.$$.log" 2>&1 || { msg="$(head -5 "$GEN/.build.$$.log")"; rm -f "$GEN/.build.$$.log"; fail "go build of go2coq: $msg"; }
rm -f "$GEN/.build.$$.log"

TMP="$GEN/tmp.$PID.$$"
rm -rf "$TMP"; mkdir -p "$TMP"
trap 'rm -rf "$TMP"' EXIT
if ! "$ROOT/build/bin/go2coq" -repo "$REPO" -spec "$SPEC" -out "$TMP/Gen.v" >"$TMP/go2coq.log" 2>&1; then
  fail "translator: $(grep -m1 'REFUSED\|go2coq:' "$TMP/go2coq.log")"
fi
NFUNC="$(sed -n 's/^go2coq: \([0-9]*\) functions.*/\1/p' "$TMP/go2coq.log")"
H="$(sha256sum "$TMP/Gen.v" | cut -c1-12)"
DIR="$GEN/$PID.$H"

# 2. what the equivalence file needs from the hand-written development
CLOSURE="$(cd "$ROOT" && python3 - "$PID" <<'EOF'
import sys
sys.path.insert(0, "tools")
import gencoqproject
for f in gencoqproject.closure(["GenEquiv/%s.v" % sys.argv[1]]):
    if not f.startswith("GenEquiv/"):
        print(f)
EOF
)" || fail "cannot compute the Require closure"
# GoSem is ours: (re)compile it when its .vo is missing or older than the source
if [ ! -f "$COQ/GenLib/GoSem.vo" ] || [ "$COQ/GenLib/GoSem.vo" -ot "$COQ/GenLib/GoSem.v" ]; then
  (
    flock 9
    if [ ! -f "$COQ/GenLib/GoSem.vo" ] || [ "$COQ/GenLib/GoSem.vo" -ot "$COQ/GenLib/GoSem.v" ]; then
      cd "$COQ" && timeout 600 coqc -Q . ST GenLib/GoSem.v
    fi
  ) 9>"$ROOT/build/.gosem.lock" >"$TMP/gosem.log" 2>&1 || fail "GenLib/GoSem.v: $(grep -m1 -A3 '^Error\|^File' "$TMP/gosem.log")"
fi
for f in $CLOSURE; do
  vo="$COQ/${f}o"
  [ -f "$vo" ] || fail "missing $vo: run ./check $PID (or ./setup.sh) first"
  [ "$vo" -ot "$COQ/$f" ] && fail "$vo is older than its source: run ./check $PID first"
done
# fingerprint of everything the result depends on
FP="$( { cat "$TMP/Gen.v" "$EQUIV"; for f in $CLOSURE; do sha256sum "$COQ/$f" | cut -c1-64; done; } | sha256sum | cut -c1-64)"

if grep -qwE 'Admitted|admit|Axiom|Axioms|Parameter|Parameters|Conjecture' "$EQUIV" "$TMP/Gen.v"; then
  fail "forbidden word in GenEquiv/$PID.v or Gen.v: $(grep -nwE -m1 'Admitted|admit|Axiom|Axioms|Parameter|Parameters|Conjecture' "$EQUIV" "$TMP/Gen.v" | head -1)"
fi
NLEM="$(grep -cE '^(Lemma|Theorem) gen_' "$EQUIV")"
NPA="$(grep -cE '^Print Assumptions gen_' "$EQUIV")"
[ "$NLEM" -ge 1 ] || fail "no lemma gen_* in coq/GenEquiv/$PID.v"
[ "$NLEM" = "$NPA" ] || fail "$NLEM lemmas gen_* but $NPA Print Assumptions in coq/GenEquiv/$PID.v"

if [ -f "$DIR/.ok" ] && [ "$(cat "$DIR/.ok")" = "$FP" ]; then
  echo "GENEQUIV $PID ok lemmas=$NLEM functions=$NFUNC hash=$H"
  exit 0
fi

# 3. compile in the scratch directory
rm -rf "$DIR"; mkdir -p "$DIR"
cp "$TMP/Gen.v" "$DIR/Gen.v"; cp "$EQUIV" "$DIR/$PID.v"; cp "$TMP/go2coq.log" "$DIR/go2coq.log"
cd "$DIR" || fail "cannot enter $DIR"
if ! timeout 600 coqc -Q "$COQ" ST -Q . STGen Gen.v >gen.log 2>&1; then
  fail "Gen.v does not compile: $(grep -m1 -A4 '^File' gen.log)"
fi
if ! timeout 600 coqc -Q "$COQ" ST -Q . STGen "$PID.v" >equiv.log 2>&1; then
  fail "coq/GenEquiv/$PID.v (against $REPO): $(grep -m1 -A6 '^File' equiv.log)"
fi
cp equiv.log assumptions.txt
NCLOSED="$(grep -c '^Closed under the global context' assumptions.txt)"
if [ "$NCLOSED" != "$NLEM" ]; then
  fail "$NLEM lemmas but only $NCLOSED closed under the global context: $(grep -m1 -A3 '^Axioms:' assumptions.txt)"
fi
echo "$FP" > .ok
echo "GENEQUIV $PID ok lemmas=$NLEM functions=$NFUNC hash=$H"
exit 0
