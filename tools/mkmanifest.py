#!/usr/bin/env python3
"""Regenerates MANIFEST.json from tools/propsconf.py (run after adding a property)."""
import json, os, sys
ROOT = os.path.dirname(os.path.dirname(os.path.abspath(__file__)))
sys.path.insert(0, os.path.join(ROOT, "tools"))
from propsconf import PROPS, COMMON_TRUSTED, NOT_YET  # noqa

ids = [json.loads(l)["id"] for l in open(os.path.join(ROOT, "properties.jsonl"))]
# properties whose check is integrated and committed (one id per line); files of
# properties still being built are ignored until their id is added here
CLAIMED = set(l.strip() for l in open(os.path.join(ROOT, "tools", "claimed.txt")) if l.strip())
_missing = sorted(k for k in CLAIMED if k not in PROPS)
if _missing:
    sys.exit("mkmanifest: configuration of claimed properties does not load: %s (fix tools/props/<id>.py first; MANIFEST.json left unchanged)" % _missing)
PROPS = {k: v for k, v in PROPS.items() if k in CLAIMED}
def translated(pid):
    """names of the Go functions that are translated from the current source on every run (tools/gen/<pid>.spec)"""
    sp = os.path.join(ROOT, "tools", "gen", pid + ".spec")
    if not os.path.exists(sp):
        return ""
    fs = []
    for l in open(sp):
        l = l.split("#")[0].split()
        if len(l) >= 2:
            fs += [os.path.basename(os.path.dirname(l[0])) + "." + f for f in l[1:]]
    return ("; translation: the scalar functions %s are translated from /repo's current source to Gallina on every run (harness/cmd/go2coq) and "
            "proved equal to the model for all inputs (coq/GenEquiv/%s.v, re-checked by tools/genequiv.sh)" % (", ".join(fs), pid))


checks = []
for pid in ids:
    if pid not in PROPS:
        continue
    c = PROPS[pid]
    checks.append(dict(
        property_id=pid,
        quick_cmd="./check %s --tier quick" % pid,
        thorough_cmd="./check %s --tier thorough" % pid,
        evidence_file="evidence/%s.json" % pid,
        replay_cmd_template="./check %s --replay {path}" % pid,
        engine="coq-model+correspondence",
        level_claimed=dict(category="proof", text=c["level_text"], design_ref=c.get("design_ref", "DESIGN.md section 6, " + pid)),
        level_note=c["level_note"],
        technique=c["technique"] + translated(pid),
    ))
man = dict(
    version=1,
    setup_cmd="./setup.sh",
    hooks=dict(
        guard="verif",
        enable="harness commands are built with `go build -tags verif` (GOFLAGS=-mod=mod GOPROXY=off GOEXPERIMENT=synctest) from /verif/harness, whose go.mod replaces example.com/scion-time by /repo",
        baseline_off_cmd="cd /repo && GOFLAGS=-mod=mod GOPROXY=off go test -json -vet=off -count=1 -timeout 25m ./...",
        source_commits=HOOK_COMMITS if (HOOK_COMMITS := [l.split()[0] for l in open(os.path.join(ROOT, "HOOK_COMMITS.txt")) if l.strip() and not l.startswith("#")]) is not None else [],
        add_only=True,
    ),
    engines=[dict(name="coq-model+correspondence", path="check",
                  serves_properties=[c["property_id"] for c in checks],
                  kind_free_text="Coq 8.16.1 theorems over hand-written Gallina models (coq/), the same definitions extracted to OCaml (build/runner) and compared with the real Go code driven by per-property harness commands (harness/cmd/*) on generated inputs/histories; property oracles evaluated on the implementation's observations produce the concrete failing input")],
    checks=checks,
    notes="See DESIGN.md. KNOWN_FINDINGS.txt lists recorded findings and fixed defects; seeded/ holds the breaking changes used to test the checks.",
    not_applicable=[dict(property_id=pid, reason=NOT_YET.get(pid, "no check built yet in this revision of /verif (machine-checked proof applies; see DESIGN.md section 6)")) for pid in ids if pid not in PROPS],
)
with open(os.path.join(ROOT, "MANIFEST.json"), "w") as f:
    json.dump(man, f, indent=1)
print("MANIFEST.json: %d checks, %d not claimed" % (len(checks), len(man["not_applicable"])))
