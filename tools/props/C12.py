"""Configuration of the C12 check (read by ./check and tools/mkmanifest.py)."""

CONF = dict(
    cmd='c12',
    props='Props/C12.v',
    race=True,
    rule=('histories of the real ntske.Provider under the virtual clock of testing/synctest: NewProvider at t0 (2000-01-01 + 0..400 days), then 1..300 Current/Get calls '
 'at chosen virtual instants spanning up to many months: steps of 0/1 ns .. hours, idle gaps of 24/48/72/96 h, 10 and 30 days (+-1 ns), and instants placed on '
 'the boundaries of keys seen earlier (generation + 24 h, NotAfter, hand-out + 48 h, each +-1 ns / +-seconds); Get of ids handed out earlier, of the id just '
 'handed out, and of ids never issued (0, -1, current+1, current+2, 2^16.., MinInt/MaxInt); sparse-traffic and steady-traffic styles; concurrent histories: at '
 'each instant 1..8 goroutines released together, each making 1..5 calls (incl. Get of the id a rotation at that very instant would create and of the key '
 "its own Current just returned); a share of the histories starts up to five days before a daylight-saving change of the process's local zone "
 '(Europe/Zurich, zone database compiled in); one history (thorough: three) with > 65536 rotations and Gets around the 2^16-th key (kind prov.long, one-pass '
 'oracle); listener histories (kind prov.lsn, one child process each): the real NTS-KE server and the real IP and SCION listeners on one provider, key '
 'exchanges through the real Fetcher, NTS requests with old and with re-issued cookies, the provider aged by Provider.VerifAge between steps (minutes to '
 'days, +-1 s around generation + 24 h, generation + 72 h and hand-out + 48 h), observed: answered or not and the key id on every cookie handed out. '
 'Also Key.IsValidAt '
 'on (NotBefore, NotAfter, t) triples at the edges, and one source check of the lock discipline. Non-trivial: a history with at least one rotation and at least '
 'one Get of a key that Current had handed out (tags b24/b48/b72/exp/gap/weird count the boundary hits); IsValidAt within 1 ns of an edge; distinct = distinct '
 '(kind, input)'),
    assumptions=['validity is judged on the monotonic clock: time.Time is modelled as one number, which is faithful only while every time the provider compares is a time.Now() reading moved by Add (time.Now() carries a monotonic reading, so wall-clock steps - this daemon steps the clock itself - do not move key lifetimes); enforced on the code by the source rule monotonic-reading-preserved (no Round/Truncate/UTC/In/AddDate/Unix round trips/time.Date in provider.go and the methods of Provider and Key) and observed on every returned key (its Validity times still carry the monotonic reading)',
 'non-decreasing clock readings (the monotone clock the property names); time.Time modelled as unbounded nanoseconds, Add exact, Before/After = < / >',
 'a call that does not generate a key reads the clock once (as the code does); its unread second reading is taken equal to the first',
 'no-panic theorem: history shorter than 2^63 - 2 days (panic("ID overflow") needs 2^63 - 1 rotations, each more than 24 h after the previous)',
 'crypto/rand.Read modelled as a tape: the k-th generated key carries value k (the harness installs such a tape as crypto/rand.Reader)'],
    trusted=['modelled, not verified: sync.Mutex (mutual exclusion; the interleaving model lock_run), Go maps (association list), time.Time comparison and Add, '
 'testing/synctest virtual time (time does not advance while a goroutine of the bubble runs or waits for a mutex)',
 'prov.lsn: virtual time = real time + Provider.VerifAge (committed hook net/ntske/hooks_verif.go); TLS, AES-SIV and the packet codecs are used, not modelled (C10/C14/C20); requests are honest',
 'data-race freedom of the real binary is partial: lock-discipline theorem over the interleaving model + syntactic source check (prov.lock) + the harness is built '
 'with the race detector and drives up to 8 goroutines through the real mutex'],
    technique=('Coq proof by one inductive invariant over arbitrary Current/Get histories with non-decreasing clock readings (generation log newest-first with ids +1 and '
 'generation times > 24 h apart; every generated key that is still valid is in the map unchanged; map entries are log entries); executable property oracle '
 'proved to accept every model history; interleaving semantics of the mutex with clock ticks, proved serialisable in lock order with monotone readings; '
 'group-acceptance check for same-instant concurrent calls (several per goroutine) proved complete (any lock order accepted) and sound (accepted chains meet the oracle); '
 'one-pass oracle for 2^16+ rotations proved to decide id uniqueness; differential '
 'execution of the extracted model against the real Provider under synctest virtual time'),
    level_text=('Theorems hold for every history of Current/Get calls (any length, any ids, any non-decreasing clock readings, any idle gaps) and for every interleaving of '
 'any number of goroutines through the lock: handed-out key valid now, generated <= 24 h ago, valid 3 days; Get only while valid and only generated keys; ids '
 'strictly increasing; a handed-out key is returned unchanged by Get for 2 more days and never later than 3 days after generation. The model is tied to '
 "net/ntske/provider.go by running both on boundary-dense multi-day histories every run; the property oracle is evaluated on the implementation's observations"),
    level_note=('Validity follows the monotonic clock (assumption 1, checked syntactically and on every observed key; a wall-clock step itself is not exercised). Trusted: Coq kernel, hand-written model validated by the correspondence run, extraction, harness, synctest. No axioms (all theorems closed under the global '
 'context). Observation: cookies carry the key id in 16 bits (core/server passes int(uint16) to Get); by C12_rotation_rate ids stay below 2^16 for 65535 days '
 'of uptime (theorem C12_ids_fit_16_bits); beyond that no cookie could be used at all (int(uint16 id) at server_ip.go / server_scion.go).'),
    explanation=('prov.hist: functional (model history = observed (id, value, NotBefore, NotAfter, ok) of every call). prov.conc: relational (group acceptance: calls of one '
 'virtual instant may have taken the lock in any order). prov.valid: functional. prov.lock: source check that Provider methods hold p.mu. Oracle C12_ok on every '
 'history: Current key valid now / <= 24 h old / 3-day validity; Get ok => the id asked for, valid now; same id => same key, later generation => larger id, '
 'Current ids never decrease; key handed out at t is returned unchanged by every Get up to t + 48 h and by none after generation + 72 h.'),
    timeout_quick=600,
    timeout_thorough=3000,
    min_cases={'prov.conc': 270, 'prov.hist': 780, 'prov.lock': 1, 'prov.long': 1, 'prov.lsn': 4, 'prov.valid': 900},
)
