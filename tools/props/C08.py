"""Configuration of the C08 check (read by ./check and tools/mkmanifest.py)."""

CONF = dict(
    cmd='c08',
    props='Props/C08.v',
    glue='Extract/GlueC08.v',
    rule=('(i) in-process, under recover() with a time and a memory limit, in a child process: ntp.DecodePacket, csptp.DecodeMessage/DecodeRequestTLV/DecodeResponseTLV, '
          'ServerCookie.Decode, EncryptedServerCookie.Decode and Decrypt (real AES-SIV, nonce lengths 0..33, key lengths 0..128), nts.DecodePacket, ProcessRequest and '
          'ProcessResponse (requests built by the real encoder, every extension length set to 0..5, 35, 36, len+-1, len+-4, 65532, 65535 and the distance to the packet end; '
          'every field type; nonce length 0..33; ciphertext length field; truncation at every byte; sealed plaintexts with malformed fields; unique identifiers of every '
          'length 0..1000; 76 zero bytes), nts.EncodePacket on 300+ size combinations, the listener\'s reply encoder on every decoded request, the client\'s request encoder, '
          'ntske.ReadData (record streams truncated at every byte, body lengths 0/1/2/65535, critical bit, unknown and error records), udp.TimestampFromOOBData (control '
          'messages with every header length, level/type, inconsistent fields, every prefix, chained aligned/unaligned messages), scion.PacketAuthOptMetadata/MAC on 0..64 '
          'bytes; (ii) the real listeners on loopback in the child (StartIPServer, StartSCIONServer incl. end-host forwarder and SCMP responder with USE_MOCK_KEYS, '
          'StartCSPTPServerIP, StartNTSKEServerIP over TLS, StartNTSKEServerSCION over QUIC) fed histories of crafted datagrams / record streams, each followed on the same '
          'socket by a well-formed sentinel request that must be answered (IP: a plain NTP sentinel after every datagram and an NTS sentinel of a fresh association after '
          'every history; CSPTP: the listener\'s "received request" log record; NTS-KE: a complete key exchange, also while 1..16 connections that sent nothing, a partial or a whole ClientHello, or garbage are still open); (iii) the real clients (MeasureClockOffsetIP without and '
          'with NTS incl. a scripted TLS NTS-KE server handing out cookies of 0..65535 bytes, MeasureClockOffsetSCION with and without packet authentication, '
          'CSPTPClientIP.MeasureClockOffset) against scripted peers that answer with crafted datagrams, followed by an honest exchange that must succeed. Second round (paths a coverage audit found unreached): srv.scionnts = valid and hostile NTS requests (truncated, overlong, duplicated fields, real cookie with garbage ciphertext) inside well-formed SCION/UDP; srv.scionauth = the same and plain NTP under a VALID packet authenticator (SPAO MAC under the mock key), damaged MACs, other SPIs, one-hop/zero-segment paths and 8/12-byte addresses under a valid MAC; every SCION history ends with an NTS sentinel over SCION whose reply must verify and an SPAO-authenticated NTS sentinel whose reply must verify and carry the listener\'s authenticator; cli.scionnts = SCION client with NTS (scripted TLS NTS-KE server, cookies of 0..65535 bytes, non-IP Server records, replies with wrong id / damaged tag / nonce length 0 and 17 / cookies of 0..65531 bytes, with valid, damaged and misplaced SPAO MACs, packet authentication on and off, interleaved mode on and off); cli.overlap = 10-16 clients side by side, each making 24-60 back-to-back calls whose contexts end while the client\'s goroutine still has exchanges and key exchanges to do (consecutive rounds on one client overlap); cli.ipopt = IP client with interleaved mode, Ntimed filter, lucky-packet filter and histogram in 10 combinations, 1-4 calls of hostile replies (extreme and random timestamps, interleaved-style origin) each; srv.quicke = NTS-KE over QUIC: record streams truncated/malformed/reset, 1-4 connections with a stalled stream or no stream at all, 1-12 half-open handshakes (only the first datagram(s) reach the listener), each followed by a complete key exchange over QUIC while they are still open. All loggers format at debug level into io.Discard so that the log valuers run on hostile values. A case is '
          'non-trivial when its input passes the first length check of its decoder (all listener/client cases are); distinct = distinct (kind, input)'),
    assumptions=['byte strings are lists over 0..255 (list elements are read mod 256); a listener\'s own cookies have a length that is a multiple of four (124 bytes)',
                 'calls that leave the project are arbitrary functions in the theorems: AES-SIV open (with its documented precondition: 16-byte nonce, else panic), key '
                 'provider lookup, SCION key fetch, MAC comparison, gopacket/slayers layer parsing (the SCION listener is modelled over the parser\'s result)',
                 'oracle failures assumed impossible (the code answers them with panic(err)): serialising the reply from layers that came out of the decoder '
                 '(SerializeTo/Clear), host-host key derivation from a fetched host-AS key; the harness observes any such failure as process death'],
    trusted=['modelled, not verified: gopacket/slayers parsing and serialisation, quic-go, crypto/tls, miscreant AES-SIV, spao CMAC, the kernel\'s socket layer',
             'the harness\' scripted peers (TLS NTS-KE server, NTP/NTS, CSPTP and SCION responders) and its child-process supervision (death/hang of the child is the observation)'],
    technique=('Coq proof: outcome-returning models (Ok | Err | Panic | OutOfFuel, Go slice-bounds rules explicit, loops on fuel) of every project decoder that sees network '
               'bytes, of the encoders on attacker-influenced sizes and of one iteration of runIPServer / runCSPTPServerIP / the CSPTP client / runSCIONServer (over the layer '
               'parser\'s result); totality (never Panic, never OutOfFuel) for all byte lists and all answers of external calls by induction on fuel with length invariants; '
               'the decoded-request invariant (unique identifier 32..944 bytes in front of the authenticator) that makes the reply encoder total; run theorem over all '
               'histories with the sentinel clause; differential execution of the extracted models against the real functions and evaluation of the crash/hang oracle on '
               'the real listeners and clients in a supervised child process'),
    level_text=('Theorems hold for every byte string (and every history of datagrams for the IP listener), every key, nonce, ciphertext and cipher answer; the models are tied to '
                'the Go code by running both on generated inputs every run (outcome class, error identity and decoded fields must agree); the real receive loops and clients '
                'are run on loopback with crafted input, process death or an unanswered sentinel is a violation with that input as the replay'),
    level_note=('Trusted: Coq kernel, hand-written models validated by the correspondence run, extraction, harness. Partial: the SCION listener theorem is over the parser\'s '
                'result (gopacket/slayers parsing and reply serialisation are outside the model, covered only by the child-process runs); the SCION and IP client loops and the '
                'NTS-KE/QUIC accept loops have no Coq model beyond their decoders (covered by the child-process runs). No axioms.'),
    explanation=('oracle clauses: no decoder call ends in a panic or fails to return; the process that runs the listeners/clients stays alive; every well-formed sentinel sent '
                 'after crafted input on the same socket is answered; after crafted responses an honest exchange of the same client succeeds'),
    timeout_quick=1800, timeout_thorough=5400,
    min_cases={'cli.csptp': 40, 'cli.ip': 12, 'cli.ipopt': 12, 'cli.nts': 21, 'cli.overlap': 1, 'cli.scion': 66, 'cli.scionnts': 19, 'cmsg': 743, 'cookie.decrypt': 58, 'cookie.enc': 114, 'cookie.srv': 100, 'csptp.msg': 30, 'csptp.req': 139, 'csptp.resp': 139, 'ntp.dec': 63, 'nts.auth': 352, 'nts.clireq': 45, 'nts.dec': 1113, 'nts.enc': 90, 'nts.resp': 17, 'nts.srvreply': 236, 'ntske.read': 162, 'scion.authopt': 19, 'srv.csptp': 213, 'srv.ip': 29, 'srv.kestall': 7, 'srv.ntske': 18, 'srv.quic': 5, 'srv.quicke': 11, 'srv.scion': 38, 'srv.scionauth': 8, 'srv.scionnts': 15},
)
