"""Configuration of the C08 check (read by ./check and tools/mkmanifest.py)."""

CONF = dict(
    cmd='c08',
    props='Props/C08.v',
    glue='Extract/GlueC08.v',
    rule='placeholder',
    assumptions=[],
    trusted=[],
    technique='placeholder',
    level_text='placeholder',
    level_note='placeholder',
    explanation='placeholder',
    timeout_quick=1200, timeout_thorough=3600,
)
