"""Configuration of the C05 check (read by ./check and tools/mkmanifest.py)."""

CONF = dict(
    cmd='c05',
    props='Props/C05.v',
    glue='Extract/GlueC05.v',
    rule=('histories of 1..13 calls of the real client.MeasureClockOffsetIP (plain NTP and NTS with keys from a real NTS-KE exchange over TLS, basic and interleaved mode, '
          'with and without a deadline, ResetInterleavedMode and 3.3 s pauses in between) against a scripted peer on loopback that answers each request with 1..4 crafted '
          'datagrams before / instead of the genuine response: genuine basic and interleaved responses, the genuine response from a second source address, every LVM bit '
          'and leap/version/mode value, stratum 0/1/15/16/17/128/255, origin +-1 fraction unit / +-1 s / zero / random / single bit flips / the other request field, transmit time '
          'equal to, 1.2 ns, 3 us, 1 s before the receive time and 2^31+-10 s after it, truncation to 0..47 bytes, random bytes of length 0..1025, one byte more than the '
          'receive buffer, and for NTS: trailing bytes behind the authenticator, bit flips in header / unique id / authenticator header / lengths / nonce / ciphertext, sealed '
          'under the client-to-server or a random key, wrong / previous / one-bit-off unique identifier, missing authenticator, missing identifier, bare 48-byte response, '
          'extension length 0 and 3, 16-byte identifier, nonce lengths 0/12/15/17/32, the genuine response of the previous exchange, authentic packet with malformed '
          'plaintext; silent peer (deadline); the genuine response from the server address but another port (not the queried server: the source check covers address and port), and from another address with the server\'s port number; over SCION the genuine response with another SCION/UDP source port. The same '
          'over SCION (client.MeasureClockOffsetSCION, one client, empty path; kinds scion.hist, scion.auth, scion.nts, scion.ntsauth, scion.allfail, scion.allfailauth): NTP and '
          'NTS payload recipes wrapped into SCION/UDP packets, plus wrong source / destination ISD-AS, wrong source / destination host, source / destination host addresses that resemble the queried one (IPv6 ending or beginning in the '
          'server\'s four IPv4 bytes, IPv4-compatible ::a.b.c.d, the IPv4-mapped form of the server - the same host, accepted -, of another host, with one prefix bit off or the last '
          'byte changed, a random IPv6 host, a service address, one bit of the IPv4 address flipped), the bytes of the queried / the client\'s host under every address type and length the SCION header can express '
          '(kind scion.addrtype: service address and unassigned 4-byte types with the host\'s four bytes, 16-byte addresses of a type other than IPv6 holding the IPv4-mapped form, 8- '
          'and 12-byte addresses, with the IPv4 and IPv4-mapped IPv6 forms as controls), bytes that are not SCION, cut-off '
          'packets; the client with Auth.Enabled (DRKey host-host key; the harness re-executes itself with USE_MOCK_KEYS=true) and the client without key are sent end-to-end '
          'extensions with packet authenticators (SPAO): genuine MAC, one MAC bit flipped, random / zero MAC, timestamp / sequence-number bytes changed after or before the MAC '
          'was computed, a bit of the NTP payload / of the SCION-UDP header / of the flow id flipped after the MAC was computed (the payload stays a valid response), a bit '
          'outside the authenticated data flipped, MAC under another key, the client\'s SPI instead of the server\'s, another SPI, another algorithm, option length 12..44, two '
          'authenticators (ignored+bad, good+bad, bad+good), end-to-end extension without authenticator, no extension at all, hop-by-hop extension in front (with good and bad MAC), '
          'timestamp option (valid, one second in the past, malformed) with and without authenticator, unregistered path type; directed scripts: wrong MAC then genuine, two '
          'wrong MACs then genuine (retry exhausted), wrong MAC then unauthenticated response, ignored authenticator alone; NTS over SCION (Auth.NTSEnabled, keys from the TLS '
          'key exchange, server in another or in the client\'s ISD-AS) with every NTS recipe of the IP client, with and without the packet authenticator. Further families: *.late (the clients read timebase.Now() through a '
          'clock of the harness that jumps an hour ahead when the request has arrived at the peer: every retry decision finds the deadline passed, so the first non-matching '
          'datagram of each retry branch ends the call), *.nofilter (clients without Filter, as the tool commands use them, observed through their debug log and the returned '
          'offset), *.servers (two servers with interleaved mode on: the caller passes now one now the other remote address, also in IPv4-mapped form; with NTS the key '
          'exchange delivers one cookie and names now one now the other address - not the configured one -, responses carry no new cookie so that every exchange re-keys; '
          'the response of the address that is not queried is injected), ip6.hist (IP client and peer on ::1), datagrams around the size of the SCION client\'s receive '
          'buffer (9187..10000 bytes: MSG_TRUNC), client.badlocal (local address that is no IP address: an error, nothing sent), client.ctxdone (context already cancelled, deadline in the past, deadline passing '
          'between the tries of an interleaved-mode call: a measurement is reported only if a datagram was accepted), keyless NTS forgeries (identifier copied from the request, '
          'authenticator with nonce 16 and ciphertext length 0 - padded, followed by another field, or too short to be parsed -, ciphertext of 1..15 bytes, nonce length 0, a '
          'field that is only its header, a made-up 16-byte tag), responses whose receive and transmit time are each within 2^31 s of the request but more than 2^31 s apart from each other (30 years ahead / 40 years '
          'back and next to the edges of the window, both orders), genuine SCION responses (with NTS, with and without the packet authenticator) with bytes appended behind the UDP datagram - 8 filler bytes, a forged NTP header '
          'echoing the origin timestamp with other times, padding: exactly as many bytes as the UDP length says, one less, one more, or the 56 bytes alone -, scion.twopath (MeasureClockOffsetSCION with two clients and two paths, each with a next hop of its own: one path '
          'rejected at once and the genuine response on the other 300 ms later, both genuine, both rejected: a reported offset lies between the accepted measurements); svc.authmodes (the real service\'s loadConfig / createClocks, run through harness/svclib and the wiring hook of /repo, on configuration '
          'texts with every list of up to three auth_modes over "nts", "spao" and an unknown string - every order, repetitions, the empty list - with and without a SCION daemon '
          'address, for a SCION host with an IP reference clock, a SCION reference clock and a SCION peer and for an IP-only host: the authentication flags and the NTS-KE fetcher '
          'of every client of every clock; skipped with a NOTE if the checkout has no wiring hook). Observed: the error of every exchange (call logger), the four timestamps combined (recording filter), the offset and error '
          'returned, the timestamp fields of every request on the wire. A history is non-trivial when at least one delivered datagram differs from a genuine response; '
          'distinct = distinct (kind, input)'),
    assumptions=['symbolic AEAD for the NTS clause (C05_nts_authentic: a ciphertext opens only if the key holder sealed it with exactly that associated data)',
                 'time.Time as unbounded nanoseconds; the kernel (which datagrams arrive, in which order, from where, with which receive stamp), the clock readings and, for '
                 'SCION, the gopacket/scionproto parse and the CMAC comparison are inputs of the model, quantified over without restriction (ideal MAC: the theorems speak about '
                 '"the MAC of the authenticator the client looks at verifies", the harness decides that with scionproto spao.ComputeAuthCMAC under the mock key)',
                 'a history in which the client port of an exchange was, while its socket can have existed, also the target of another exchange whose scripted peer was still sending (all clients share one address; ephemeral ports are reused) is not reported: a stray datagram of that other script may have reached it (3-9 of 3800 histories per run under load; the harness prints the number)',
                 'payloads are byte strings (0..255) for the oracle theorem; the views handed to the oracle are faithful (flags do not understate the facts) for whichever request is outstanding'],
    trusted=['modelled, not verified: net.UDPConn.ReadMsgUDPAddrPort (MSG_TRUNC when the datagram exceeds the buffer), miscreant AES-SIV-CMAC (answers recomputed by the '
             'harness and matched against the model\'s query), crypto/tls exporter, the recording slog handler and measurements.Filter used to observe the client',
             'SCION client: driven through MeasureClockOffsetSCION with one client and an empty path; plain NTP, packet authenticator (DRKey mock keys: every host-host key is '
             'the zero key, so key selection per host pair is not exercised here - C13 does that with a fake DRKey daemon) and NTS over SCION (key exchange over TLS, not QUIC); '
             'the gopacket/scionproto parse of every crafted datagram, the timestamp option (udp.TimestampFromOOBData) and the MAC verdict are recomputed by the harness with the '
             'client\'s parser configuration and scionproto spao'],
    technique=('Coq proof by induction over the list of delivered events of a Gallina model of the receive loop (retry counter, source check, ntp.DecodePacket, nts.DecodePacket / '
               'ProcessResponse with a Section-variable AEAD, origin match, ValidateResponseMetadata / Timestamps), of the three exchanges of a call and of the interleaved-mode '
               'state over call histories: acceptance <-> the conjunction of the property\'s clauses; differential execution of the extracted model on what the real client did '
               'and evaluation of the property oracle C05_ok on every exchange'),
    level_text=('Theorems hold for every request, every list of delivered datagrams (arbitrary bytes, sources, flags, order, number), every AEAD function, every history of calls; '
                'the model is tied to client_ip.go / validation.go / nts.go by replaying generated histories on the real client over loopback sockets every run and comparing '
                'per-exchange outcome, combined timestamps, offsets and request fields; the oracle is evaluated on the implementation\'s observations'),
    level_note=('Trusted: Coq kernel, hand-written model validated by the correspondence run, extraction, harness (scripted peer, independent NTS field walker, miscreant). '
                'Crypto symbolic. D-C05b (both clients compared only the source address - over SCION ISD-AS and host - of a response with the queried one, never the UDP source port: a response from another port of the server\'s address yielded an offset) is repaired by fix-C05-srcport; the model describes the repaired code (C05_other_port_never_offset; over SCION the port is part of the view\'s source endpoint). D-C05a (MeasureClockOffsetSCION returned offset 0 with a nil error when every exchange of its client failed) is fixed in /repo by 3dfc5bf; '
                'C05_scion_allfail_pinned_refuted keeps the witness for the old return value and the case kind scion.allfail replays it on every run. Observation (what the code '
                'does, stated as C05_spao_absent_is_unauthenticated, not a clause of the property): a SCION client with Auth.Enabled accepts a response that carries no authenticator '
                '(or one with another SPI / algorithm / length) exactly like a client without key - only a present authenticator with a wrong MAC is rejected. No axioms.'),
    explanation=('oracle: an exchange that reports the four timestamps must have been delivered a datagram from the server address with >= 48 bytes, origin = the request\'s '
                 'transmit field (or receive field of an interleaved request), leap != 3, version 3|4, mode 4, stratum 1..15, with NTS the request\'s unique identifier and a '
                 'valid AEAD tag under the S2C key, and - SCION client holding the DRKey host-host key - no packet authenticator for the server\'s SPI and algorithm whose MAC '
                 'fails to verify, whose transmit/receive fields are the reported t2/t1 with t1 <= t2, where for an interleaved response t1 must be the receive field of the '
                 'datagram on which the previous SUCCESSFUL measurement of this client was based, as recorded by the oracle itself along the history (C05_basis; never what the '
                 'request quotes: a timestamp of a skipped or rejected datagram must not enter a measurement); a returned offset is that of an accepted exchange; a call reports a measurement only if it accepted a datagram; with "nts" among the configured auth_modes (anywhere in the list) every client the service builds has NTS on and an NTS-KE fetcher for its server; a cookie in the pool '
                 'after a call comes from the pool before it, a key exchange, or a datagram that passed all of these'),
    timeout_quick=900, timeout_thorough=3000,
    no_floor=['svc.authmodes'],
    min_cases={'client.badlocal': 1, 'client.ctxdone': 3, 'ip.hist': 479, 'ip.late': 11, 'ip.nofilter': 28, 'ip.servers': 64, 'ip6.hist': 12, 'scion.addrtype': 28, 'scion.allfail': 1, 'scion.allfailauth': 1, 'scion.auth': 160, 'scion.hist': 160, 'scion.late': 8, 'scion.lateauth': 3, 'scion.nofilter': 28, 'scion.nts': 37, 'scion.ntsauth': 40, 'scion.servers': 64, 'scion.twopath': 3},
)
