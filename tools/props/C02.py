"""Configuration of the C02 check (read by ./check and tools/mkmanifest.py)."""

CONF = dict(
    cmd='c02',
    props='Props/C02.v',
    rule=('slices of n = 0..40 int64 offsets (mostly n <= 12) around a common base with clustered duplicates, odd values, +-(2^62-1) extremes; up to floor((n-1)/3) '
 'positions tagged arbitrary and placed all-high / all-low / split / random; random permutations of the same multiset; measurement variants with timestamps '
 'and error flags. Non-trivial: n >= 4 with at least one arbitrary value outside the range of the correct ones (or a permuted copy / errored measurement with '
 'n >= 4); distinct = distinct (kind, input)'),
    assumptions=['slices.Sort / slices.SortFunc return a sorted permutation (their contract); for measurements the model is relational in the order of equal offsets',
 'time.Time as unbounded nanoseconds; Time.Sub saturates, Time.Add exact'],
    trusted=["modelled, not verified: Go's slices.Sort/SortFunc (pdqsort) by contract; the observed slice after each call is checked to be a sorted permutation"],
    technique=('Coq proof: counting argument on sorted tagged lists (among the f+1 smallest and the f+1 largest there is a correct value), uniqueness of sorted '
 'permutations, int64 no-overflow lemma below 2^62; relational model for the unstable measurement sort; differential execution against timemath/measurements'),
    level_text=('Theorems hold for every n >= 1, every multiset with |v| < 2^62, every placement of <= floor((n-1)/3) arbitrary values and every permutation; measurement '
 'theorems hold for every sorted permutation the unstable sort may produce. Model tied to the Go functions by running both on adversarially placed inputs; the '
 "containment/permutation/sortedness oracle is evaluated on the implementation's outputs"),
    level_note='Trusted: Coq kernel, model validated by the correspondence run, extraction, harness; slices.Sort by contract (checked on every observed output). No axioms.',
    min_cases={'ftm.dur': 450, 'ftm.meas': 450, 'ftm.midpoint': 450, 'ftm.perm': 418, 'ftm.sgninv': 450, 'median.dur': 450, 'median.meas': 450},
)
