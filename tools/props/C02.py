"""Configuration of the C02 check (read by ./check and tools/mkmanifest.py)."""

CONF = dict(
    cmd='c02',
    props='Props/C02.v',
    rule=('slices of n = 0..40 int64 offsets (mostly n <= 12) around a common base with clustered duplicates, odd values, +-(2^62-1) extremes; up to floor((n-1)/3) '
 'positions tagged arbitrary and placed all-high / all-low / split / random; random permutations of the same multiset; family *.big: every n in 1..200 in every '
 'run with EXACTLY floor((n-1)/3) arbitrary values at random positions, all above / all below / split around the correct ones (far end of the range or 1..4 ns '
 'outside the correct range), for durations (all three placements at every n) and for measurements, median and permuted copies (one placement per n); '
 'measurement variants [sec since year 1, nsec, offset, error] with error flags on inputs; family *.far: 1..9 measurements whose timestamps are the zero '
 'time.Time{}, modern, exactly 2^63-1 ns (+-2) apart, more than 292 years apart, at both ends of time.Time\'s int64-second range, equal with different '
 'offsets; Midpoint on pairs below 2^62 (both argument orders, odd differences, +-(2^62-1)) with the containment oracle, and pairs at / beyond 2^62 (kind '
 'ftm.midpoint.beyond, incl. (-2^62, 2^62) and (MinInt64, MaxInt64)) compared with the model only. Non-trivial: n >= 4 with at least one arbitrary value '
 'outside the range of the correct ones, or a permuted copy / errored measurement with n >= 4, or a measurement case whose two selected timestamps are more '
 'than 2^63-1 ns apart (tag sat), contain the zero time (tag zero) or are equal with different offsets (tag eqts), or a Midpoint pair with x != y; '
 'distinct = distinct (kind, input). Further tags: fmax (exactly floor((n-1)/3) arbitrary), errsel (an errored measurement is one of the two selected), tie '
 '(the selected record depends on the unstable sort), wrap (y-x leaves int64)'),
    assumptions=['slices.Sort / slices.SortFunc return a sorted permutation (their contract); for measurements the model is relational in the order of equal offsets',
 'time.Time as Go represents a wall-clock time: int64 seconds since January 1 of year 1 + nanoseconds in [0, 10^9); After/Add/addSec/Sub transcribed from '
 'go1.24.2 src/time/time.go for times without monotonic reading (the project\'s timestamps come from time.Unix(..).UTC(), time.Now().UTC() and time.Time{}; '
 'UTC() strips the monotonic reading)'],
    trusted=["modelled, not verified: Go's slices.Sort/SortFunc (pdqsort) by contract; the observed slice after each call is checked to be a sorted permutation "
 "(multiset equality of the values / of the full measurement records, and ascending order)",
 'time.Time values with a monotonic clock reading are outside the model (Sub would use the monotonic readings)'],
    technique=('Coq proof: counting argument on sorted tagged lists (among the f+1 smallest and the f+1 largest there is a correct value), uniqueness of sorted '
 'permutations, int64 no-overflow lemma below 2^62; Go time.Time arithmetic over (int64 seconds, nanoseconds): Sub proved equal to the saturated difference '
 'of the instants for all representable times, Add exact in range, hence timestamp containment also when Sub saturates; executable multiset equality proved '
 'equivalent to Permutation; relational model for the unstable measurement sort; differential execution against timemath/measurements'),
    level_text=('Theorems hold for every n >= 1, every multiset with |v| < 2^62, every placement of <= floor((n-1)/3) arbitrary values and every permutation; Midpoint '
 'containment for all |x|,|y| < 2^62 with a witness that the bound is tight; measurement theorems hold for every sorted permutation the unstable sort may '
 'produce, every error flag on the inputs (result error nil) and ALL representable time.Time values (zero time, > 292 years apart, ends of the range): the '
 'combined timestamp lies between the two selected timestamps, and is their midpoint iff they are at most 2^63-1 ns apart. The oracle for "only reorders" '
 'accepts exactly the sorted permutations (multiset of values / full records). Model tied to the Go functions by running both on adversarially placed '
 "inputs; the containment/permutation/sortedness/timestamp/error oracle is evaluated on the implementation's outputs"),
    level_note='Trusted: Coq kernel, model validated by the correspondence run, extraction, harness; slices.Sort by contract (checked on every observed output). No axioms.',
    timeout_quick=600,
    timeout_thorough=3000,
    min_cases={'ftm.dur': 450, 'ftm.dur.big': 180, 'ftm.meas': 450, 'ftm.meas.big': 60, 'ftm.meas.far': 452, 'ftm.midpoint': 409, 'ftm.midpoint.beyond': 48, 'ftm.perm': 480, 'ftm.sgninv': 450, 'median.dur': 450, 'median.dur.big': 60, 'median.meas': 450, 'median.meas.big': 60, 'median.meas.far': 452},
)
